/-
  C15 — conversations served by one LLMRails instance do not influence each other.

  Part 1 (history cache).  Mirrors
    * `rails/llm/utils.py::get_history_cache_key`            -> `cacheKeyAsIs`
    * the proposed injective replacement (role- and length-prefixed)   -> `cacheKeyLP`
    * `rails/llm/llmrails.py::_get_events_for_messages` (Colang 1.0 branch: longest cached proper
      prefix, the rest converted: new-turn index, loop, deferred new-turn event)
                                                          -> `lookupLongest`, `eventsFor`, `convTailC`
    * the cache part of `LLMRails.generate_async` (options=None, state=None): events for the
      request, one turn of the runtime, `events_history_cache[key(messages + [reply])] = events + new`
                                                                        -> `serveStep`, `runT`
  Everything is generic in the key function, the event type, the message->events conversion and the
  turn function (`turn : List Ev → Msg × List Ev` — the runtime + LLM as a deterministic function of
  the events it is handed).

  A message is `(role, text)`: `text` is the string the key function appends for that message
  (`content` for user/assistant, `json.dumps(content)` for context, `json.dumps(event)` for event —
  `json.dumps` itself is not modelled, the harness ships its result).  Strings are `List Char`
  (Python code points).

  Part 2 (LLM parameters).  Mirrors `llm/params.py::LLMParams.__enter__/__exit__` on a store that
  has attributes and (optionally) a `model_kwargs` dict (`Params.enter`, `Params.exit`), and the
  abstract save/set/restore transition system over a shared store that the scheduling theorems are
  about (`Params.Sys`), plus per-task context copies (`Ctx`).
-/
namespace NemoVerif.Isolation

abbrev Str := List Char

structure Msg where
  role : Str
  text : Str
  deriving DecidableEq, Repr, Inhabited

def rUser : Str := ['u', 's', 'e', 'r']
def rAssistant : Str := ['a', 's', 's', 'i', 's', 't', 'a', 'n', 't']
def rContext : Str := ['c', 'o', 'n', 't', 'e', 'x', 't']
def rEvent : Str := ['e', 'v', 'e', 'n', 't']

/-! ### `get_history_cache_key` as it is -/

/-- the `if / elif` chain: only these four roles contribute an item -/
def keyed (m : Msg) : Bool :=
  m.role = rUser || m.role = rAssistant || m.role = rContext || m.role = rEvent

/-- `":".join(items)` -/
def joinSep : List Str → Str
  | [] => []
  | [x] => x
  | x :: y :: r => x ++ ':' :: joinSep (y :: r)

def cacheKeyAsIs (msgs : List Msg) : Str :=
  joinSep ((msgs.filter keyed).map (·.text))

/-! ### proposed key: every message contributes `len(role):role len(text):text` -/

def digitChar (d : Nat) : Char := Char.ofNat (48 + d)

/-- decimal representation (`str(n)` for `n ≥ 0`) -/
def digits (n : Nat) : List Char :=
  if n < 10 then [digitChar n] else digits (n / 10) ++ [digitChar (n % 10)]
termination_by n
decreasing_by omega

/-- length-prefixed string `f"{len(s)}:{s}"` -/
def lp (s : Str) : Str := digits s.length ++ ':' :: s

def encMsg (m : Msg) : Str := lp m.role ++ lp m.text

def cacheKeyLP : List Msg → Str
  | [] => []
  | m :: r => encMsg m ++ cacheKeyLP r

/-! ### `_get_events_for_messages` and the cache part of `generate_async` -/

section Serve
variable {K : Type} [DecidableEq K] {Ev : Type}

/-- `events_history_cache`, newest entry first; a later write to the same key shadows the older one
    (dict overwrite). -/
abbrev Cache (K Ev : Type) := List (K × List Ev)

def find (k : K) : Cache K Ev → Option (List Ev)
  | [] => none
  | (k', v) :: r => if k' = k then some v else find k r

/-- `p = len - 1; while p > 0: if key(messages[0:p]) in cache: …; break; p -= 1` — returns `(p, cached events)` -/
def lookupLongest (key : List Msg → K) (C : Cache K Ev) (msgs : List Msg) : Nat → Nat × List Ev
  | 0 => (0, [])
  | p + 1 =>
    match find (key (msgs.take (p + 1))) C with
    | some ev => (p + 1, ev)
    | none => lookupLongest key C msgs p

/-- `_get_events_for_messages` after the lookup: `cached events ++ conv (messages[p:])`.  `conv` is the
    conversion of the WHOLE remaining tail (it is not message-local: which user message starts the new turn
    depends on the messages after it); the concrete conversion of the current source is `convTailC` below. -/
def eventsFor (key : List Msg → K) (conv : List Msg → List Ev) (C : Cache K Ev) (msgs : List Msg) : List Ev :=
  let r := lookupLongest key C msgs (msgs.length - 1)
  r.2 ++ conv (msgs.drop r.1)

/-- a request that carries an explicit `state` object (Colang 1.0): `generate_async` hands the runtime
    `state["events"] ++ _get_events_for_messages(messages, state)` and does not write the cache.  As the code is,
    the lookup ignores `state` and still consults the implicit cache (`guarded = false`); with
    fixes/C15-no-cache-lookup-with-state.diff (`p = len - 1 if state is None else 0`) the messages are converted
    as they are (`guarded = true`). -/
def eventsForState (guarded : Bool) (key : List Msg → K) (conv : List Msg → List Ev) (C : Cache K Ev)
    (stateEv : List Ev) (msgs : List Msg) : List Ev :=
  stateEv ++ (if guarded then conv msgs else eventsFor key conv C msgs)

/-- what one `generate_async` call did -/
structure Step (Ev : Type) where
  req : List Msg          -- the messages of the request
  events : List Ev        -- the events handed to the runtime (`_get_events_for_messages`)
  reply : Msg             -- `new_message`
  new : List Ev           -- `new_events`

/-- `messages + [new_message]` -/
def Step.hist (s : Step Ev) : List Msg := s.req ++ [s.reply]
/-- `events.extend(new_events)` — the value written to the cache -/
def Step.stored (s : Step Ev) : List Ev := s.events ++ s.new

def serveStep (key : List Msg → K) (conv : List Msg → List Ev) (turn : List Ev → Msg × List Ev)
    (C : Cache K Ev) (msgs : List Msg) : Step Ev :=
  let ev := eventsFor key conv C msgs
  let r := turn ev
  { req := msgs, events := ev, reply := r.1, new := r.2 }

def entry (key : List Msg → K) (s : Step Ev) : K × List Ev := (key s.hist, s.stored)

/-- sequential service of a schedule of `(conversation id, request)` on one instance starting with cache `C` -/
def runT (key : List Msg → K) (conv : List Msg → List Ev) (turn : List Ev → Msg × List Ev) :
    Cache K Ev → List (Nat × List Msg) → List (Nat × Step Ev)
  | _, [] => []
  | C, (c, r) :: s =>
    let st := serveStep key conv turn C r
    (c, st) :: runT key conv turn (entry key st :: C) s

/-- the cache after a list of tagged steps (newest first) -/
def cacheOf (key : List Msg → K) (T : List (Nat × Step Ev)) : Cache K Ev :=
  (T.map fun x => entry key x.2).reverse

/-- the turns of conversation `c` -/
def ofConv (c : Nat) {α : Type} (l : List (Nat × α)) : List (Nat × α) := l.filter (fun x => x.1 = c)

end Serve

/-! ### concrete events of the Colang 1.0 conversion (used by the driver) -/

inductive CEv where
  | userFinished (t : Str)      -- UtteranceUserActionFinished(final_transcript)
  | userMessage (t : Str)       -- UserMessage(text)
  | startBot (t : Str)          -- StartUtteranceBotAction(script)   (action_uid is fresh, not modelled)
  | botFinished (t : Str)       -- UtteranceBotActionFinished(final_script)
  | contextUpdate (t : Str)     -- ContextUpdate(data)   (text = json.dumps(data))
  | raw (t : Str)               -- msg["event"]           (text = json.dumps(event))
  | opaque (n : Nat)            -- an event produced by the runtime (cache contents / new events)
  deriving DecidableEq, Repr

/-! The conversion of the messages after the cached prefix (Colang 1.0 branch, current source):

  ```
  new_turn_idx = None
  for idx in range(len(messages) - 1, p - 1, -1):
      if role == "assistant": break
      if role == "user": new_turn_idx = idx; break
  for idx in range(p, len(messages)):
      user:      idx == new_turn_idx -> new_turn_event = UF(content); continue
                 else                -> UF(content), UM(content)
      assistant: SB, BF     context: CU     event: the event     other roles: nothing
  if new_turn_event is not None: events.append(new_turn_event)
  ```
  All indices are relative to the tail `messages[p:]` here. -/

section Convert
variable {Ev : Type}

/-- the backwards scan for `new_turn_idx`: `rev` = the messages from index `idx` downwards -/
def newTurnFrom : List Msg → Nat → Option Nat
  | [], _ => none
  | m :: r, idx =>
    if m.role = rAssistant then none
    else if m.role = rUser then some idx
    else newTurnFrom r (idx - 1)

/-- `new_turn_idx` (relative to the tail): the last user message that is only followed by messages that are
    neither user nor assistant messages -/
def newTurnIdx (tail : List Msg) : Option Nat := newTurnFrom tail.reverse (tail.length - 1)

/-- the forward loop from index `i`; `conv isNewTurn msg` = the events appended for `msg` in the loop -/
def convertFrom (conv : Bool → Msg → List Ev) (nt : Option Nat) : Nat → List Msg → List Ev
  | _, [] => []
  | i, m :: r => conv (nt = some i) m ++ convertFrom conv nt (i + 1) r

/-- the whole conversion: loop, then the deferred event of the new turn (`fin`) -/
def convertTail (conv : Bool → Msg → List Ev) (fin : Msg → List Ev) (tail : List Msg) : List Ev :=
  let nt := newTurnIdx tail
  convertFrom conv nt 0 tail ++
    (match nt with
     | some i => (match tail[i]? with | some m => fin m | none => [])
     | none => [])

end Convert

/-- events appended inside the loop for one message; `isNewTurn` = `idx == new_turn_idx` -/
def convC (isNewTurn : Bool) (m : Msg) : List CEv :=
  if m.role = rUser then
    if isNewTurn then [] else [.userFinished m.text, .userMessage m.text]
  else if m.role = rAssistant then [.startBot m.text, .botFinished m.text]
  else if m.role = rContext then [.contextUpdate m.text]
  else if m.role = rEvent then [.raw m.text]
  else []

/-- `new_turn_event` -/
def newTurnC (m : Msg) : List CEv := [.userFinished m.text]

/-- the conversion of the current source -/
def convTailC : List Msg → List CEv := convertTail convC newTurnC

/-! ## Part 2: LLM parameters -/

namespace Params

/-- Python value of a parameter: `none` = `None` -/
abbrev PVal := Option Int

def upd {α : Type} (f : Nat → α) (n : Nat) (v : α) : Nat → α := fun m => if m = n then v else f m

/-- the shared LLM object: attributes (by name id; `none` = no such attribute) and the `model_kwargs`
    dict (`none` = the object has no `model_kwargs`; inner `none` = key absent) -/
structure Store where
  attr : Nat → Option PVal
  kw : Option (Nat → Option PVal)

/-- one iteration of the loop of `__enter__` -/
def enter1 (acc : Store × List (Nat × PVal)) (p : Nat × PVal) : Store × List (Nat × PVal) :=
  let (σ, orig) := acc
  match σ.attr p.1 with
  | some old => ({ σ with attr := upd σ.attr p.1 (some p.2) }, orig ++ [(p.1, old)])
  | none =>
    match σ.kw with
    | some kw =>
      let o : PVal := match kw p.1 with
        | none => none          -- `original_params[param] = None`
        | some v => v
      ({ σ with kw := some (upd kw p.1 (some p.2)) }, orig ++ [(p.1, o)])
    | none => (σ, orig)         -- warning only

/-- `LLMParams.__enter__`: returns the altered store and `original_params` -/
def enter (alt : List (Nat × PVal)) (σ : Store) : Store × List (Nat × PVal) :=
  alt.foldl enter1 (σ, [])

def exit1 (σ : Store) (p : Nat × PVal) : Store :=
  match σ.attr p.1 with
  | some _ => { σ with attr := upd σ.attr p.1 (some p.2) }
  | none =>
    match σ.kw with
    | some kw =>
      match kw p.1 with
      | some _ => { σ with kw := some (upd kw p.1 (some p.2)) }
      | none => σ
    | none => σ

/-- `LLMParams.__exit__` -/
def exit (orig : List (Nat × PVal)) (σ : Store) : Store := orig.foldl exit1 σ

/-- what an LLM call made now would run with, for parameter `n` (`none` = parameter unknown to the object) -/
def Store.get (σ : Store) (n : Nat) : Option PVal :=
  match σ.attr n with
  | some v => some v
  | none => match σ.kw with
    | some kw => kw n
    | none => none

/-! ### the concrete system: several `LLMParams` managers (one per task) working on ONE shared LLM object -/

structure CSys where
  store : Store
  saved : Nat → List (Nat × PVal)          -- `original_params` of each manager
  calls : List (Nat × List (Nat × PVal))   -- what each LLM call ran with, for the parameters its task set (`None` if unknown)

/-! ### the abstract save / set / restore system the scheduling theorems are about

  A store maps parameter ids to values; task `t` has the altered parameters `tasks t`
  (a dict: distinct names).  `enter` saves then sets, `call` reads the task's own parameter
  names, `exit` restores what was saved.  A schedule is any list of `(task, action)`.  -/

inductive Act where
  | enter | call | exit
  deriving DecidableEq, Repr

structure Sys (V : Type) where
  store : Nat → V
  saved : Nat → List (Nat × V)             -- `original_params` of each manager
  calls : List (Nat × List (Nat × V))      -- log: what each LLM call saw for the parameters its task set

def setAll {V : Type} (σ : Nat → V) (kvs : List (Nat × V)) : Nat → V :=
  kvs.foldl (fun s p => upd s p.1 p.2) σ

/-- sequential save-then-set of `__enter__` on the abstract store -/
def enterA {V : Type} (alt : List (Nat × V)) (σ : Nat → V) : (Nat → V) × List (Nat × V) :=
  alt.foldl (fun acc p => (upd acc.1 p.1 p.2, acc.2 ++ [(p.1, acc.1 p.1)])) (σ, [])

def step {V : Type} (tasks : Nat → List (Nat × V)) (st : Sys V) : Nat × Act → Sys V
  | (t, .enter) =>
    let r := enterA (tasks t) st.store
    { st with store := r.1, saved := upd st.saved t r.2 }
  | (t, .call) => { st with calls := st.calls ++ [(t, (tasks t).map fun p => (p.1, st.store p.1))] }
  | (t, .exit) => { st with store := setAll st.store (st.saved t) }

def runSched {V : Type} (tasks : Nat → List (Nat × V)) (st : Sys V) (sched : List (Nat × Act)) : Sys V :=
  sched.foldl (step tasks) st

def init {V : Type} (σ0 : Nat → V) : Sys V := { store := σ0, saved := fun _ => [], calls := [] }

def cstep (tasks : Nat → List (Nat × PVal)) (st : CSys) : Nat × Act → CSys
  | (t, .enter) =>
    let r := enter (tasks t) st.store
    { st with store := r.1, saved := upd st.saved t r.2 }
  | (t, .call) => { st with calls := st.calls ++ [(t, (tasks t).map fun p => (p.1, (st.store.get p.1).getD none))] }
  | (t, .exit) => { st with store := exit (st.saved t) st.store }

def runSchedC (tasks : Nat → List (Nat × PVal)) (st : CSys) (sched : List (Nat × Act)) : CSys :=
  sched.foldl (cstep tasks) st

def initC (σ0 : Store) : CSys := { store := σ0, saved := fun _ => [], calls := [] }

/-- critical sections are disjoint or properly nested and every call happens while its own section
    is the innermost one (stack discipline; what sequential service trivially satisfies) -/
def nestedOK : List Nat → List (Nat × Act) → Bool
  | stk, [] => stk.isEmpty
  | stk, (t, .enter) :: r => !stk.contains t && nestedOK (t :: stk) r
  | t' :: stk, (t, .call) :: r => t = t' && nestedOK (t' :: stk) r
  | t' :: stk, (t, .exit) :: r => t = t' && nestedOK stk r
  | [], (_, .call) :: _ => false
  | [], (_, .exit) :: _ => false

end Params

/-! ### context variables: every asyncio task works on its own copy of the context -/

namespace Ctx

inductive Op (V : Type) where
  | set (x : Nat) (v : V)
  | get (x : Nat)

/-- per-task contexts (copies taken at task creation from `c0`) -/
def stepCtx {V : Type} (ctxs : Nat → Nat → V) (log : List (Nat × Nat × V)) :
    Nat × Op V → (Nat → Nat → V) × List (Nat × Nat × V)
  | (t, .set x v) => (Params.upd ctxs t (Params.upd (ctxs t) x v), log)
  | (t, .get x) => (ctxs, log ++ [(t, x, ctxs t x)])

def runCtx {V : Type} (ctxs : Nat → Nat → V) (log : List (Nat × Nat × V)) (ops : List (Nat × Op V)) :
    (Nat → Nat → V) × List (Nat × Nat × V) :=
  ops.foldl (fun acc o => stepCtx acc.1 acc.2 o) (ctxs, log)

/-! ### per-request context variables inside ONE task and in tasks spawned from it

  `generate_async` starts with a prologue that stores the request's own values in context variables
  (`generation_options_var.set(options)`, `llm_stats_var.set(...)`, `raw_llm_request.set(...)`); the actions
  it awaits later read them.  A program is what one asyncio task does: requests awaited one after the other
  (they share the task's context, so what a request sets is still there when the next one starts) and tasks
  spawned in between (`create_task` / `gather`: the child works on a COPY of the context taken at that moment;
  nothing flows back).  `prologue own ctx` is the value of the variable after the prologue of a request whose
  own value is `own`; `reads` is the number of times the request reads the variable afterwards. -/

inductive Prog (V : Type) where
  | done : Prog V
  | req (id : Nat) (own : V) (reads : Nat) (rest : Prog V) : Prog V
  | spawn (child : Prog V) (rest : Prog V) : Prog V

/-- log of reads: (request id, the request's own value, the value it read) -/
def runProg {V : Type} (prologue : V → V → V) : V → Prog V → List (Nat × V × V)
  | _, .done => []
  | w, .req id own n rest =>
    let w' := prologue own w
    List.replicate n (id, own, w') ++ runProg prologue w' rest
  | w, .spawn child rest => runProg prologue w child ++ runProg prologue w rest

/-- the prologue of the current source: `var.set(own)` unconditionally -/
def prologueSet {V : Type} : V → V → V := fun own _ => own

/-- a prologue that only sets a truthy value (`if options: var.set(options)`) — what `streaming_handler_var`
    does today and what `generation_options_var` must never do -/
def prologueIfSome {α : Type} : Option α → Option α → Option α := fun own w => if own.isSome then own else w

end Ctx

end NemoVerif.Isolation
