/-
  ConflictRound — executable model of the ROUND STRUCTURE of `run_to_completion`
  (nemoguardrails/colang/v2_x/runtime/statemachine.py, "Main processing loop"), at the level of the Conflict model
  (a queue of internal events + the list `actionable_heads`):

      while heads_are_advancing:                                         -- `rounds`
          while heads_are_merging:                                       -- `mergePhase`
              while state.internal_events:                               -- `drain`
                  event = popleft(); … ; for new_head in _advance_head_front(state, heads_matching):
                      if new_head not in actionable_heads: actionable_heads.append(new_head)      -- `addNew`
              merging_heads    = [h for h in actionable_heads if h.status == MERGING]
              actionable_heads = [h for h in actionable_heads if h.status == ACTIVE]
              actionable_heads.extend(_advance_head_front(state, merging_heads))
              heads_are_merging = len(merging_heads) > 0
          actionable_heads = [h for h in actionable_heads if is_active_flow(flow of h) and h.status == ACTIVE]
          advancing_heads  = _resolve_action_conflicts(state, actionable_heads)
          heads_are_advancing = len(advancing_heads) > 0
          actionable_heads = _advance_head_front(state, advancing_heads)
          heads_are_merging = True

  Everything the loop does NOT decide itself is a field of `World` (what processing one event pushes and which heads it
  returns, which heads are MERGING / alive when the loop looks, what the conflict resolution lets advance): the theorems
  hold for EVERY world.  Heads are uids (FlowHead.__eq__ compares uids; the status is read from the state when the loop looks,
  not when the head was returned).  The queue is a counter: which event is popped next is the world's business.
  The loops are fuelled (termination is C10's subject); results carry `ok = false` when the fuel ran out.
  Core Lean only (the driver links this file).
-/
import NemoVerif.Models.Conflict
namespace NemoVerif.ConflictRound

structure World (σ : Type) where
  /-- one iteration of `while state.internal_events` after the pop: new state, number of internal events pushed,
      heads returned by `_advance_head_front(state, heads_matching)` -/
  procEvent : σ → σ × Nat × List Nat
  /-- `head.status == FlowHeadStatus.MERGING` when the loop splits `actionable_heads` -/
  isMerging : σ → Nat → Bool
  /-- `_advance_head_front(state, merging_heads)`: new state, events pushed, heads returned -/
  advMerging : σ → List Nat → σ × Nat × List Nat
  /-- `is_active_flow(get_flow_state_from_head(state, head)) and head.status == FlowHeadStatus.ACTIVE` before the resolution -/
  alive : σ → Nat → Bool
  /-- `_resolve_action_conflicts(state, actionable_heads)`: new state, events pushed, advancing heads -/
  resolve : σ → List Nat → σ × Nat × List Nat
  /-- `_advance_head_front(state, advancing_heads)` -/
  advAdvancing : σ → List Nat → σ × Nat × List Nat

/-- `if new_head not in actionable_heads: actionable_heads.append(new_head)` for every returned head -/
def addNew (acts : List Nat) (hs : List Nat) : List Nat :=
  hs.foldl (fun a h => if a.contains h then a else a ++ [h]) acts

/-- one recorded call of `_resolve_action_conflicts` -/
structure Call where
  queue : Nat            -- len(state.internal_events) when the resolution starts
  input : List Nat       -- the heads handed to it
  advancing : List Nat   -- what it returned
  emitted : List Nat     -- GHOST: every head `_advance_head_front` returned to the loop since the previous resolution
  merged : List Nat      -- GHOST: the heads handed to `_advance_head_front(state, merging_heads)` since then
  dead : List Nat        -- GHOST: heads of `actionable_heads` dropped right before the resolution (flow no longer active / head not ACTIVE)
deriving Repr, DecidableEq

/-- what one phase (everything between two resolutions) did -/
structure Phase (σ : Type) where
  st : σ
  queue : Nat              -- events still queued when the phase ends
  acts : List Nat          -- `actionable_heads`
  emitted : List Nat       -- GHOST: every head returned by `_advance_head_front` during the phase
  merged : List Nat        -- GHOST: every head handed to `_advance_head_front(state, merging_heads)`
  ok : Bool

variable {σ : Type}

/-- `while state.internal_events` (`q` events queued) -/
def drain (W : World σ) : Nat → σ → Nat → List Nat → List Nat → σ × List Nat × List Nat × Bool
  | _, s, 0, acts, em => (s, acts, em, true)
  | 0, s, _ + 1, acts, em => (s, acts, em, false)
  | f + 1, s, q + 1, acts, em =>
    let r := W.procEvent s
    drain W f r.1 (q + r.2.1) (addNew acts r.2.2) (em ++ r.2.2)

/-- `while heads_are_merging` -/
def mergePhase (W : World σ) : Nat → σ → Nat → List Nat → List Nat → List Nat → Phase σ
  | 0, s, q, acts, em, mg => ⟨s, q, acts, em, mg, false⟩
  | f + 1, s, q, acts, em, mg =>
    let d := drain W f s q acts em
    if !d.2.2.2 then ⟨d.1, 1, d.2.1, d.2.2.1, mg, false⟩
    else
      let s1 := d.1
      let merging := d.2.1.filter (W.isMerging s1)
      let active := d.2.1.filter (fun h => !W.isMerging s1 h)
      let r := W.advMerging s1 merging
      let acts2 := active ++ r.2.2
      if merging.isEmpty then ⟨r.1, r.2.1, acts2, d.2.2.1 ++ r.2.2, mg ++ merging, true⟩
      else mergePhase W f r.1 r.2.1 acts2 (d.2.2.1 ++ r.2.2) (mg ++ merging)

/-- `while heads_are_advancing`: the trace of resolutions -/
def rounds (W : World σ) : Nat → σ → Nat → List Nat → List Call → List Call × σ × Bool
  | 0, s, _, _, tr => (tr, s, false)
  | f + 1, s, q, acts, tr =>
    let p := mergePhase W f s q acts acts []
    if !p.ok then (tr, p.st, false)
    else
      let input := p.acts.filter (W.alive p.st)
      let r := W.resolve p.st input
      let a := W.advAdvancing r.1 r.2.2
      let tr' := tr ++ [⟨p.queue, input, r.2.2, p.emitted, p.merged, p.acts.filter (fun h => !W.alive p.st h)⟩]
      if r.2.2.isEmpty then (tr', a.1, true) else rounds W f a.1 (p.queue + r.2.1 + a.2.1) a.2.2 tr'

/-- `run_to_completion(state, external_event)`: the queue holds the external event, no actionable head yet -/
def run (W : World σ) (fuel : Nat) (s : σ) : List Call × σ × Bool := rounds W fuel s 1 [] []

/-! ### the scheduling of seed C05-e (kept for the counterexample): the inner loop is left as soon as no head is MERGING any
    more — even when the heads that were just merged pushed internal events — and the outer loop also continues while events
    are queued. -/

def mergePhaseDeferred (W : World σ) : Nat → σ → Nat → List Nat → List Nat → List Nat → Phase σ
  | 0, s, q, acts, em, mg => ⟨s, q, acts, em, mg, false⟩
  | f + 1, s, q, acts, em, mg =>
    let d := drain W f s q acts em
    if !d.2.2.2 then ⟨d.1, 1, d.2.1, d.2.2.1, mg, false⟩
    else
      let s1 := d.1
      let merging := d.2.1.filter (W.isMerging s1)
      let active := d.2.1.filter (fun h => !W.isMerging s1 h)
      let r := W.advMerging s1 merging
      let acts2 := active ++ r.2.2
      -- `heads_are_merging = any(head.status == MERGING for head in actionable_heads)`
      if !(acts2.any (W.isMerging r.1)) then ⟨r.1, r.2.1, acts2, d.2.2.1 ++ r.2.2, mg ++ merging, true⟩
      else mergePhaseDeferred W f r.1 r.2.1 acts2 (d.2.2.1 ++ r.2.2) (mg ++ merging)

def roundsDeferred (W : World σ) : Nat → σ → Nat → List Nat → List Call → List Call × σ × Bool
  | 0, s, _, _, tr => (tr, s, false)
  | f + 1, s, q, acts, tr =>
    let p := mergePhaseDeferred W f s q acts acts []
    if !p.ok then (tr, p.st, false)
    else
      let input := p.acts.filter (W.alive p.st)
      let r := W.resolve p.st input
      let a := W.advAdvancing r.1 r.2.2
      let tr' := tr ++ [⟨p.queue, input, r.2.2, p.emitted, p.merged, p.acts.filter (fun h => !W.alive p.st h)⟩]
      let q' := p.queue + r.2.1 + a.2.1
      -- `heads_are_advancing = len(advancing_heads) > 0 or len(state.internal_events) > 0`
      if r.2.2.isEmpty && q' == 0 then (tr', a.1, true) else roundsDeferred W f a.1 q' a.2.2 tr'

def runDeferred (W : World σ) (fuel : Nat) (s : σ) : List Call × σ × Bool := roundsDeferred W fuel s 1 [] []

/-! ### the script world (driver): the recorded outputs of the real functions, consumed in order -/

inductive Entry where
  | ev (npush : Nat) (heads : List Nat)                         -- one popped internal event
  | merge (mset : List Nat) (npush : Nat) (heads : List Nat)    -- MERGING heads in the state at the call, then its outputs
  | res (aset : List Nat) (npush : Nat) (adv : List Nat)        -- alive ACTIVE heads at the call, events pushed, advancing heads
  | adv (npush : Nat) (heads : List Nat)
deriving Repr, DecidableEq

structure Script where
  rest : List Entry
  bad : Bool := false     -- the loop asked for something the recording does not have next
deriving Repr

def scriptWorld : World Script where
  procEvent s := match s.rest with
    | .ev n hs :: r => ({ s with rest := r }, n, hs)
    | _ => ({ s with bad := true }, 0, [])
  isMerging s u := match s.rest with
    | .merge m _ _ :: _ => m.contains u
    | _ => false
  advMerging s _ := match s.rest with
    | .merge _ n hs :: r => ({ s with rest := r }, n, hs)
    | _ => ({ s with bad := true }, 0, [])
  alive s u := match s.rest with
    | .res a _ _ :: _ => a.contains u
    | _ => false
  resolve s _ := match s.rest with
    | .res _ n adv :: r => ({ s with rest := r }, n, adv)
    | _ => ({ s with bad := true }, 0, [])
  advAdvancing s _ := match s.rest with
    | .adv n hs :: r => ({ s with rest := r }, n, hs)
    | _ => ({ s with bad := true }, 0, [])

/-! ### a concrete world (witness): flow A reaches its action directly (head 1); flow B waits with an or-group, so its head (2)
    is MERGING after the external event; the merged head sends the StartFlow of a wrapper flow (internal event 1), whose head (3)
    is the one that reaches B's action; the wrapper's FlowStarted is internal event 2.  Both actions differ; B matched more
    specifically (scores `[1, 1]` against `[0]`, padding value 1). -/

structure ExSt where
  queue : List Nat
  merged : Bool
deriving Repr, DecidableEq

def exInfo (u : Nat) : Conflict.HeadInfo :=
  if u == 1 then { uid := 1, flow := 1, loop := 0, scores := [0], ev := 10, act := none, nrefs := 0, isStart := false, catchLbl := false, owns := true }
  else { uid := u, flow := u, loop := 0, scores := [1, 1], ev := 11, act := none, nrefs := 0, isStart := false, catchLbl := false, owns := true }

def exWorld : World ExSt where
  procEvent s := match s.queue with
    | 0 :: r => ({ s with queue := r }, 0, [1, 2])
    | 1 :: r => ({ s with queue := r ++ [2] }, 1, [3])
    | _ :: r => ({ s with queue := r }, 0, [])
    | [] => (s, 0, [])
  isMerging s u := u == 2 && !s.merged
  advMerging s m := if m.contains 2 then ({ queue := s.queue ++ [1], merged := true }, 1, []) else (s, 0, [])
  alive _ u := u != 2
  resolve s input := (s, 0, Conflict.advancing (Conflict.resolveFates 1 (input.map exInfo) []))
  advAdvancing s _ := (s, 0, [])

def exStart : ExSt := { queue := [0], merged := false }

/-- (queue, input, advancing) of every resolution -/
def summary (tr : List Call) : List (Nat × List Nat × List Nat) := tr.map (fun c => (c.queue, c.input, c.advancing))

end NemoVerif.ConflictRound
