/-
  C16 phase 2 — the loop of `RuntimeV1_0.generate_events` around the Colang 1.0 interpreter model
  (`V1Interp.computeNextSteps`, C14) running the GENERATED program `Generated.LlmFlowsV1.flows` (the compiled
  elements of the shipped `rails/llm/llm_flows.co`) plus rail sub-flows of the shipped shapes:

      define subflow <check rail>                define subflow <rewriting rail>
        $allowed = execute <action>                $user_message = execute <action>      (resp. $bot_message)
        if not $allowed
          bot refuse to respond
          stop

  `drive` mirrors `generate_events`: ask `compute_next_steps` on the whole history; no step ⇒ `Listen`, stop;
  otherwise append the returned events (`ContextUpdate`, then the step); a `StartInternalSystemAction` is executed at
  once (`_process_start_action`): its result-key update becomes a `ContextUpdate` event ONLY IF the value changes, then
  `InternalSystemActionFinished`, then the events the action returns (`create_event` returns the created event,
  `generate_bot_message` / `generate_user_intent` return `BotMessage`).  Actions are scripted: a check rail answers
  `allowed (text)`, a rewriting rail `f (text)` where `text` is the current `$user_message` / `$bot_message`.

  Modelling choices: the context an action sees is the interpreter's context after the history (the real
  `compute_context(events)` agrees with it on every key an action reads here); `retrieve_relevant_chunks` without a
  knowledge base sets `$relevant_chunks = "\n"`; only the `general` dialog (no user-defined flows) is scripted.
-/
import NemoVerif.Models.V1Interp
import NemoVerif.Generated.C16Resolve
import NemoVerif.Generated.C16Predef

namespace NemoVerif.RailsInterp
open NemoVerif.V1Interp

inductive RailKind where
  | check (allowed : String → Bool)
  | rewrite (f : String → String)

structure IRail where
  name : String
  action : String
  kind : RailKind

/-- the compiled elements of the two rail shapes (as the repo's parser + `_load_flow_config` produce them) -/
def IRail.cfg (textVar : String) (r : IRail) : FlowCfg :=
  match r.kind with
  | .check _ =>
    { id := r.name,
      elems := [Elem.runAction r.action none "{}" (some "allowed"),
                Elem.ifE (Expr.not (Expr.var "allowed")) 3,
                Elem.runAction "utter" (some "refuse to respond") "" none,
                Elem.runAction "utter" (some "stop") "" none],
      isSubflow := true }
  | .rewrite _ =>
    { id := r.name, elems := [Elem.runAction r.action none "{}" (some textVar)], isSubflow := true }

structure Setup where
  input : List IRail
  output : List IRail
  refusal : String          -- what the predefined message of `bot refuse to respond` SAYS in this run (the result of rendering it)
  llmText : String          -- what the `general` LLM call answers
  refusalTpl : String := "" -- the predefined message of `bot refuse to respond` as configured (possibly a template: `{{ var }}`, `$var`)

def Setup.cfgs (base : Cfgs) (s : Setup) : Cfgs :=
  base ++ s.input.map (IRail.cfg "user_message") ++ s.output.map (IRail.cfg "bot_message")

/-- `rails_config` as the flows read it (flattened paths) -/
def Setup.config (s : Setup) : Ctx :=
  [("config.rails.input.flows", V.strs (s.input.map (·.name))),
   ("config.rails.output.flows", V.strs (s.output.map (·.name))),
   ("config.rails.retrieval.flows", V.strs [])]

/-- observable steps (the alphabet of `PipelineOpts.Step`, category as a string) -/
inductive Obs where
  | railCall (cat : String) (idx : Nat) (name : String) (text : String)
  | llmCall
  | utter (text : String)
  deriving DecidableEq, Repr

def strOf : V → String
  | .str s => s
  | _ => ""

/-! ### `create event …`: the two places where `$name` references are replaced

  `create event UserMessage(text=$user_message)` compiles to `run_action create_event` with the action parameters
  `{"event": {"_type": "UserMessage", "text": "$user_message"}}`.  On its way to the created event the value `"$user_message"`
  passes two pieces of code:

  1. `RuntimeV1_0._process_start_action` ("If there are parameters which are variables, we replace with actual values"): looks at
     the TOP-LEVEL parameters only; `event` is a dict, so its values reach the action as written (`startActionResolve false`).
     A runtime that also resolves inside dict / list parameters is `startActionResolve true`.
  2. the action `create_event` ("basic support for referring variables as values"): every string value `v` of the event with
     `v[0] == "$"` is replaced by `context.get(v[1:])` (`createEventResolve`; `v[0]` raises IndexError on the empty string: `none`).

  Which of the two shapes each site has is DATA regenerated from the source on every run (`Generated.C16Resolve`).  The caller's
  text is the VALUE the reference resolves to; it is never looked at again: `createEventAction_eq` (one resolution), used by every
  transition lemma about a `create event` statement, and `create_event_text_opaque` below. -/

/-- `"$name"` ↦ `some "name"`; every other string (the empty one, `" $x"`, `"a$"`) ↦ `none` -/
def dollarRef (s : String) : Option String :=
  match s.toList with
  | '$' :: rest => some (String.ofList rest)
  | _ => none

/-- `_process_start_action` on a value INSIDE the dict parameter `event`: untouched unless the runtime resolves nested references
    (`context[var_name] if var_name in context else value`) -/
def startActionResolve (nested : Bool) (σ : Ctx) (v : V) : V :=
  if nested then
    match v with
    | .str s => (match dollarRef s with
        | some n => (match σ.lookup n with | some x => x | none => v)
        | none => v)
    | _ => v
  else v

/-- `create_event`: `if isinstance(v, str) and v[0] == "$": event_dict[k] = context.get(v[1:])` (`indexTest`: the test is
    `v[0] == "$"`, which raises on `""` — `none`; otherwise `v.startswith("$")`) -/
def createEventResolve (indexTest : Bool) (σ : Ctx) (v : V) : Option V :=
  match v with
  | .str s =>
    if indexTest && s == "" then none
    else match dollarRef s with
      | some n => some (σ.get n)
      | none => some v
  | _ => some v

/-- the `create event` statements of the generated program: canonical JSON of the action parameters AS THEY STAND IN THE GENERATED
    PROGRAM ↦ event type and the raw (unresolved) property values -/
def eventSpec (params : String) : Option (String × List (String × String)) :=
  if params == "{\"event\": {\"_type\": \"StartInputRails\"}}" then some ("StartInputRails", [])
  else if params == "{\"event\": {\"_type\": \"InputRailsFinished\"}}" then some ("InputRailsFinished", [])
  else if params == "{\"event\": {\"_type\": \"StartOutputRails\"}}" then some ("StartOutputRails", [])
  else if params == "{\"event\": {\"_type\": \"OutputRailsFinished\"}}" then some ("OutputRailsFinished", [])
  else if params == "{\"event\": {\"_type\": \"StartInputRail\", \"flow_id\": \"$triggered_input_rail\"}}" then some ("StartInputRail", [("flow_id", "$triggered_input_rail")])
  else if params == "{\"event\": {\"_type\": \"InputRailFinished\", \"flow_id\": \"$triggered_input_rail\"}}" then some ("InputRailFinished", [("flow_id", "$triggered_input_rail")])
  else if params == "{\"event\": {\"_type\": \"StartOutputRail\", \"flow_id\": \"$triggered_output_rail\"}}" then some ("StartOutputRail", [("flow_id", "$triggered_output_rail")])
  else if params == "{\"event\": {\"_type\": \"OutputRailFinished\", \"flow_id\": \"$triggered_output_rail\"}}" then some ("OutputRailFinished", [("flow_id", "$triggered_output_rail")])
  else if params == "{\"event\": {\"_type\": \"UserMessage\", \"text\": \"$user_message\"}}" then some ("UserMessage", [("text", "$user_message")])
  else if params == "{\"event\": {\"_type\": \"BotMessage\", \"text\": \"$bot_message\"}}" then some ("BotMessage", [("text", "$bot_message")])
  else if params == "{\"event\": {\"_type\": \"StartUtteranceBotAction\", \"script\": \"$user_message\"}}" then some ("StartUtteranceBotAction", [("script", "$user_message")])
  else if params == "{\"event\": {\"_type\": \"StartUtteranceBotAction\", \"script\": \"$bot_message\"}}" then some ("StartUtteranceBotAction", [("script", "$bot_message")])
  else none

/-- the action `create_event` behind `_process_start_action`, both reference-replacing sites as parameters -/
def createEventAction (nested indexTest : Bool) (params : String) (σ : Ctx) : Option Event :=
  match eventSpec params with
  | none => none
  | some (ty, raw) =>
    (raw.mapM fun kv => (createEventResolve indexTest σ (startActionResolve nested σ (.str kv.2))).map fun v => (kv.1, v)).map
      fun ps => Event.other ty ps

/-- SPECIFICATION (every reference resolved exactly once against the context): the events `create event …` creates, keyed by the canonical JSON of the action parameters AS THEY STAND IN THE
    GENERATED PROGRAM (an edit of a `create event` line in llm_flows.co changes the key ⇒ `none`). -/
def createdEvent (params : String) (σ : Ctx) : Option Event :=
  if params == "{\"event\": {\"_type\": \"StartInputRails\"}}" then some (.other "StartInputRails" [])
  else if params == "{\"event\": {\"_type\": \"InputRailsFinished\"}}" then some (.other "InputRailsFinished" [])
  else if params == "{\"event\": {\"_type\": \"StartOutputRails\"}}" then some (.other "StartOutputRails" [])
  else if params == "{\"event\": {\"_type\": \"OutputRailsFinished\"}}" then some (.other "OutputRailsFinished" [])
  else if params == "{\"event\": {\"_type\": \"StartInputRail\", \"flow_id\": \"$triggered_input_rail\"}}" then
    some (.other "StartInputRail" [("flow_id", σ.get "triggered_input_rail")])
  else if params == "{\"event\": {\"_type\": \"InputRailFinished\", \"flow_id\": \"$triggered_input_rail\"}}" then
    some (.other "InputRailFinished" [("flow_id", σ.get "triggered_input_rail")])
  else if params == "{\"event\": {\"_type\": \"StartOutputRail\", \"flow_id\": \"$triggered_output_rail\"}}" then
    some (.other "StartOutputRail" [("flow_id", σ.get "triggered_output_rail")])
  else if params == "{\"event\": {\"_type\": \"OutputRailFinished\", \"flow_id\": \"$triggered_output_rail\"}}" then
    some (.other "OutputRailFinished" [("flow_id", σ.get "triggered_output_rail")])
  else if params == "{\"event\": {\"_type\": \"UserMessage\", \"text\": \"$user_message\"}}" then
    some (.other "UserMessage" [("text", σ.get "user_message")])
  else if params == "{\"event\": {\"_type\": \"BotMessage\", \"text\": \"$bot_message\"}}" then
    some (.other "BotMessage" [("text", σ.get "bot_message")])
  else if params == "{\"event\": {\"_type\": \"StartUtteranceBotAction\", \"script\": \"$user_message\"}}" then
    some (.other "StartUtteranceBotAction" [("script", σ.get "user_message")])
  else if params == "{\"event\": {\"_type\": \"StartUtteranceBotAction\", \"script\": \"$bot_message\"}}" then
    some (.other "StartUtteranceBotAction" [("script", σ.get "bot_message")])
  else none

open NemoVerif.Generated.C16Resolve in
/-- **one resolution**: with the shapes the two sites have in the current source (`Generated.C16Resolve`: top-level-only
    replacement in `_process_start_action`, one pass in `create_event`), the event `create_event` builds is the specification
    `createdEvent` — each `$name` of the program replaced by the context value, once.  (If `_process_start_action` resolved
    inside dict parameters as well, the value would be resolved a second time by `create_event`: `double_resolution_witness`.) -/
@[simp] theorem createEventAction_eq (params : String) (σ : Ctx) :
    createEventAction startActionNested createEventIndexTest params σ = createdEvent params σ := by
  by_cases h0 : params = "{\"event\": {\"_type\": \"StartInputRails\"}}"
  · subst h0; rfl
  by_cases h1 : params = "{\"event\": {\"_type\": \"InputRailsFinished\"}}"
  · subst h1; rfl
  by_cases h2 : params = "{\"event\": {\"_type\": \"StartOutputRails\"}}"
  · subst h2; rfl
  by_cases h3 : params = "{\"event\": {\"_type\": \"OutputRailsFinished\"}}"
  · subst h3; rfl
  by_cases h4 : params = "{\"event\": {\"_type\": \"StartInputRail\", \"flow_id\": \"$triggered_input_rail\"}}"
  · subst h4; rfl
  by_cases h5 : params = "{\"event\": {\"_type\": \"InputRailFinished\", \"flow_id\": \"$triggered_input_rail\"}}"
  · subst h5; rfl
  by_cases h6 : params = "{\"event\": {\"_type\": \"StartOutputRail\", \"flow_id\": \"$triggered_output_rail\"}}"
  · subst h6; rfl
  by_cases h7 : params = "{\"event\": {\"_type\": \"OutputRailFinished\", \"flow_id\": \"$triggered_output_rail\"}}"
  · subst h7; rfl
  by_cases h8 : params = "{\"event\": {\"_type\": \"UserMessage\", \"text\": \"$user_message\"}}"
  · subst h8; rfl
  by_cases h9 : params = "{\"event\": {\"_type\": \"BotMessage\", \"text\": \"$bot_message\"}}"
  · subst h9; rfl
  by_cases h10 : params = "{\"event\": {\"_type\": \"StartUtteranceBotAction\", \"script\": \"$user_message\"}}"
  · subst h10; rfl
  by_cases h11 : params = "{\"event\": {\"_type\": \"StartUtteranceBotAction\", \"script\": \"$bot_message\"}}"
  · subst h11; rfl
  simp [createEventAction, createdEvent, eventSpec, h0, h1, h2, h3, h4, h5, h6, h7, h8, h9, h10, h11]

/-! ### `generate_bot_message`, branch "the bot intent has a predefined message"

      bot_utterance = self.bot_messages[bot_intent][0]            -- the configured message `tpl` (possibly a template)
      bot_utterance = self._render_string(bot_utterance, context)  -- `rendered`
      context_updates["skip_output_rails"] = True                  -- for EVERY predefined message

  The one-shot flag `$skip_output_rails` is what keeps `process bot message` from running the output rails on a message that a
  rail (or a dialog flow) has just uttered.  Whether the assignment is unconditional is DATA regenerated from the source on every
  run (`Generated.C16Predef.flagOnlyIfUnchanged`).  Rendering itself (Jinja over the context) is NOT modelled: `predefBranch` takes
  an arbitrary rendering function; in `Setup` the configured message (`refusalTpl`) and what it says in the run (`refusal`) are two
  INDEPENDENT strings — in this model `generate_bot_message` is reached at most once per turn (only a rail's refusal reaches it, the
  dialog is the `general` one), so "for every rendering function of the context" and "for every rendered text" quantify over the
  same runs. -/

/-- the `context_updates` of the predefined branch -/
def predefUpdates (onlyIfUnchanged : Bool) (tpl rendered : String) : Ctx :=
  if onlyIfUnchanged && rendered != tpl then [] else [("skip_output_rails", .bool true)]

/-- the predefined branch for an arbitrary rendering function: (context updates, the `BotMessage` event it returns) -/
def predefBranch (onlyIfUnchanged : Bool) (render : String → Ctx → String) (tpl : String) (σ : Ctx) : Ctx × Event :=
  (predefUpdates onlyIfUnchanged tpl (render tpl σ), .other "BotMessage" [("text", .str (render tpl σ))])

/-- **predefined message ⇒ flag set, whatever rendering does**: with the shape the branch has in the current source the flag is
    part of the context updates for every configured message and every rendering result (with the shape "only if rendering left
    the message unchanged" this is false for every template whose variables have values: `flag_only_if_unchanged_witness`). -/
@[simp] theorem predefUpdates_eq (tpl rendered : String) :
    predefUpdates Generated.C16Predef.flagOnlyIfUnchanged tpl rendered = [("skip_output_rails", .bool true)] := rfl

/-- `context_updates[action_result_key] = return_value`, emitted only when some value changes -/
def resultEvents (σ : Ctx) (name : String) (upd : Ctx) : List Event :=
  (if upd.any (fun kv => σ.get kv.1 != kv.2) then [Event.contextUpdate upd] else []) ++ [Event.actionFinished name true]

def findRail (rails : List IRail) (action : String) : Option (Nat × IRail) :=
  (rails.zipIdx.find? (fun p => p.1.action == action)).map fun p => (p.2, p.1)

def railResult (r : IRail) (text : String) : V :=
  match r.kind with
  | .check allowed => .bool (allowed text)
  | .rewrite f => .str (f text)

/-- `_process_start_action` for the scripted actions: the events appended after `StartInternalSystemAction`, and what
    the call means for the trace.  `none` = an action this model does not script. -/
def actionEvents (s : Setup) (σ : Ctx) (name params : String) (rk : Option String) : Option (List Event × List Obs) :=
  if name == "create_event" then
    match createEventAction Generated.C16Resolve.startActionNested Generated.C16Resolve.createEventIndexTest params σ with
    | some ev =>
      let obs := match ev with
        | .other "StartUtteranceBotAction" ps => [Obs.utter (strOf ((ps.lookup "script").getD .none))]
        | _ => []
      some ([Event.actionFinished "create_event" true, ev], obs)
    | none => none
  else if name == "retrieve_relevant_chunks" then
    some (resultEvents σ name [("relevant_chunks", .str "\n")], [])
  else if name == "generate_bot_message" then
    -- only reached for the predefined `refuse to respond` in this model
    some (resultEvents σ name (predefUpdates Generated.C16Predef.flagOnlyIfUnchanged s.refusalTpl s.refusal) ++ [Event.other "BotMessage" [("text", .str s.refusal)]], [])
  else if name == "generate_user_intent" then
    -- no user intents defined: one `general` LLM call yields the bot message
    some ([Event.actionFinished name true, Event.other "BotMessage" [("text", .str s.llmText)]], [Obs.llmCall])
  else
    match findRail s.input name, rk with
    | some (i, r), some k =>
      let t := strOf (σ.get "user_message")
      some (resultEvents σ name [(k, railResult r t)], [Obs.railCall "input" i r.name t])
    | _, _ =>
      match findRail s.output name, rk with
      | some (i, r), some k =>
        let t := strOf (σ.get "bot_message")
        some (resultEvents σ name [(k, railResult r t)], [Obs.railCall "output" i r.name t])
      | _, _ => none

inductive DriveRes where
  | done (trace : List Obs) (history : List Event)
  | stuck (why : String) (trace : List Obs)
  | oof
  deriving Repr

/-- the interpreter's context after a history (what `compute_context(events)` gives an action) -/
def ctxAfter (cfgs : Cfgs) (config : Ctx) (H : List Event) : Ctx :=
  match replay true cfgs H { ctx := config } with
  | .ok st => st.ctx
  | .error _ => []

/-- append the events of one `compute_next_steps` answer and execute a started action -/
def applyDecisions (s : Setup) (cfgs : Cfgs) (config : Ctx) : List Decision → List Event → List Obs → Option (List Event × List Obs)
  | [], H, tr => some (H, tr)
  | .ctx d :: rest, H, tr => applyDecisions s cfgs config rest (H ++ [.contextUpdate d]) tr
  | .bot i :: rest, H, tr => applyDecisions s cfgs config rest (H ++ [.botIntent i]) tr
  | .act name params rk :: rest, H, tr =>
    let H1 := H ++ [.startAction]
    match actionEvents s (ctxAfter cfgs config H1) name params rk with
    | some (es, obs) => applyDecisions s cfgs config rest (H1 ++ es) (tr ++ obs)
    | none => none

/-- `generate_events` -/
def drive (s : Setup) (cfgs : Cfgs) (config : Ctx) : Nat → List Event → List Obs → DriveRes
  | 0, _, _ => .oof
  | f + 1, H, tr =>
    match computeNextSteps true cfgs H config with
    | .ok [] => .done tr (H ++ [.other "Listen"])
    | .ok ds =>
      match applyDecisions s cfgs config ds H tr with
      | some (H', tr') => drive s cfgs config f H' tr'
      | none => .stuck "unscripted action" tr
    | .exprErr => .stuck "expression error" tr
    | .oof => .oof
    | .otherErr e => .stuck e tr

/-- `$generation_options` as a `ContextUpdate` (flattened): `none` ⇔ the variable is None / absent -/
def optionsEvent (o : Option (Bool × Bool × Bool × Bool)) : List Event :=
  match o with
  | none => []
  | some (i, d, r, ou) =>
    [.contextUpdate [("generation_options", .bool true), ("generation_options.rails.input", .bool i),
      ("generation_options.rails.dialog", .bool d), ("generation_options.rails.retrieval", .bool r),
      ("generation_options.rails.output", .bool ou)]]

/-- the history `generate_async` hands to `generate_events` for one call: options (and the supplied bot message) as a
    context update, then the user utterance -/
def initialHistory (o : Option (Bool × Bool × Bool × Bool)) (user : String) (bot : Option String) : List Event :=
  optionsEvent o ++ (match bot with | some b => [.contextUpdate [("bot_message", .str b)]] | none => []) ++
  [.other "UtteranceUserActionFinished" [("final_transcript", .str user)]]

end NemoVerif.RailsInterp
