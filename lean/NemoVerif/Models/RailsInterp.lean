/-
  C16 phase 2 — the loop of `RuntimeV1_0.generate_events` around the Colang 1.0 interpreter model
  (`V1Interp.computeNextSteps`, C14) running the GENERATED program `Generated.LlmFlowsV1.flows` (the compiled
  elements of the shipped `rails/llm/llm_flows.co`) plus rail sub-flows of the shipped shapes:

      define subflow <check rail>                define subflow <rewriting rail>
        $allowed = execute <action>                $user_message = execute <action>      (resp. $bot_message)
        if not $allowed
          bot refuse to respond
          stop

  `drive` mirrors `generate_events`: ask `compute_next_steps` on the whole history; no step ⇒ `Listen`, stop;
  otherwise append the returned events (`ContextUpdate`, then the step); a `StartInternalSystemAction` is executed at
  once (`_process_start_action`): its result-key update becomes a `ContextUpdate` event ONLY IF the value changes, then
  `InternalSystemActionFinished`, then the events the action returns (`create_event` returns the created event,
  `generate_bot_message` / `generate_user_intent` return `BotMessage`).  Actions are scripted: a check rail answers
  `allowed (text)`, a rewriting rail `f (text)` where `text` is the current `$user_message` / `$bot_message`.

  Modelling choices: the context an action sees is the interpreter's context after the history (the real
  `compute_context(events)` agrees with it on every key an action reads here); `retrieve_relevant_chunks` without a
  knowledge base sets `$relevant_chunks = "\n"`; only the `general` dialog (no user-defined flows) is scripted.
-/
import NemoVerif.Models.V1Interp

namespace NemoVerif.RailsInterp
open NemoVerif.V1Interp

inductive RailKind where
  | check (allowed : String → Bool)
  | rewrite (f : String → String)

structure IRail where
  name : String
  action : String
  kind : RailKind

/-- the compiled elements of the two rail shapes (as the repo's parser + `_load_flow_config` produce them) -/
def IRail.cfg (textVar : String) (r : IRail) : FlowCfg :=
  match r.kind with
  | .check _ =>
    { id := r.name,
      elems := [Elem.runAction r.action none "{}" (some "allowed"),
                Elem.ifE (Expr.not (Expr.var "allowed")) 3,
                Elem.runAction "utter" (some "refuse to respond") "" none,
                Elem.runAction "utter" (some "stop") "" none],
      isSubflow := true }
  | .rewrite _ =>
    { id := r.name, elems := [Elem.runAction r.action none "{}" (some textVar)], isSubflow := true }

structure Setup where
  input : List IRail
  output : List IRail
  refusal : String          -- predefined message of `bot refuse to respond`
  llmText : String          -- what the `general` LLM call answers

def Setup.cfgs (base : Cfgs) (s : Setup) : Cfgs :=
  base ++ s.input.map (IRail.cfg "user_message") ++ s.output.map (IRail.cfg "bot_message")

/-- `rails_config` as the flows read it (flattened paths) -/
def Setup.config (s : Setup) : Ctx :=
  [("config.rails.input.flows", V.strs (s.input.map (·.name))),
   ("config.rails.output.flows", V.strs (s.output.map (·.name))),
   ("config.rails.retrieval.flows", V.strs [])]

/-- observable steps (the alphabet of `PipelineOpts.Step`, category as a string) -/
inductive Obs where
  | railCall (cat : String) (idx : Nat) (name : String) (text : String)
  | llmCall
  | utter (text : String)
  deriving DecidableEq, Repr

def strOf : V → String
  | .str s => s
  | _ => ""

/-- The events `create event …` creates, keyed by the canonical JSON of the action parameters AS THEY STAND IN THE
    GENERATED PROGRAM (an edit of a `create event` line in llm_flows.co changes the key ⇒ `none`). -/
def createdEvent (params : String) (σ : Ctx) : Option Event :=
  if params == "{\"event\": {\"_type\": \"StartInputRails\"}}" then some (.other "StartInputRails" [])
  else if params == "{\"event\": {\"_type\": \"InputRailsFinished\"}}" then some (.other "InputRailsFinished" [])
  else if params == "{\"event\": {\"_type\": \"StartOutputRails\"}}" then some (.other "StartOutputRails" [])
  else if params == "{\"event\": {\"_type\": \"OutputRailsFinished\"}}" then some (.other "OutputRailsFinished" [])
  else if params == "{\"event\": {\"_type\": \"StartInputRail\", \"flow_id\": \"$triggered_input_rail\"}}" then
    some (.other "StartInputRail" [("flow_id", σ.get "triggered_input_rail")])
  else if params == "{\"event\": {\"_type\": \"InputRailFinished\", \"flow_id\": \"$triggered_input_rail\"}}" then
    some (.other "InputRailFinished" [("flow_id", σ.get "triggered_input_rail")])
  else if params == "{\"event\": {\"_type\": \"StartOutputRail\", \"flow_id\": \"$triggered_output_rail\"}}" then
    some (.other "StartOutputRail" [("flow_id", σ.get "triggered_output_rail")])
  else if params == "{\"event\": {\"_type\": \"OutputRailFinished\", \"flow_id\": \"$triggered_output_rail\"}}" then
    some (.other "OutputRailFinished" [("flow_id", σ.get "triggered_output_rail")])
  else if params == "{\"event\": {\"_type\": \"UserMessage\", \"text\": \"$user_message\"}}" then
    some (.other "UserMessage" [("text", σ.get "user_message")])
  else if params == "{\"event\": {\"_type\": \"BotMessage\", \"text\": \"$bot_message\"}}" then
    some (.other "BotMessage" [("text", σ.get "bot_message")])
  else if params == "{\"event\": {\"_type\": \"StartUtteranceBotAction\", \"script\": \"$user_message\"}}" then
    some (.other "StartUtteranceBotAction" [("script", σ.get "user_message")])
  else if params == "{\"event\": {\"_type\": \"StartUtteranceBotAction\", \"script\": \"$bot_message\"}}" then
    some (.other "StartUtteranceBotAction" [("script", σ.get "bot_message")])
  else none

/-- `context_updates[action_result_key] = return_value`, emitted only when some value changes -/
def resultEvents (σ : Ctx) (name : String) (upd : Ctx) : List Event :=
  (if upd.any (fun kv => σ.get kv.1 != kv.2) then [Event.contextUpdate upd] else []) ++ [Event.actionFinished name true]

def findRail (rails : List IRail) (action : String) : Option (Nat × IRail) :=
  (rails.zipIdx.find? (fun p => p.1.action == action)).map fun p => (p.2, p.1)

def railResult (r : IRail) (text : String) : V :=
  match r.kind with
  | .check allowed => .bool (allowed text)
  | .rewrite f => .str (f text)

/-- `_process_start_action` for the scripted actions: the events appended after `StartInternalSystemAction`, and what
    the call means for the trace.  `none` = an action this model does not script. -/
def actionEvents (s : Setup) (σ : Ctx) (name params : String) (rk : Option String) : Option (List Event × List Obs) :=
  if name == "create_event" then
    match createdEvent params σ with
    | some ev =>
      let obs := match ev with
        | .other "StartUtteranceBotAction" ps => [Obs.utter (strOf ((ps.lookup "script").getD .none))]
        | _ => []
      some ([Event.actionFinished "create_event" true, ev], obs)
    | none => none
  else if name == "retrieve_relevant_chunks" then
    some (resultEvents σ name [("relevant_chunks", .str "\n")], [])
  else if name == "generate_bot_message" then
    -- only reached for the predefined `refuse to respond` in this model
    some (resultEvents σ name [("skip_output_rails", .bool true)] ++ [Event.other "BotMessage" [("text", .str s.refusal)]], [])
  else if name == "generate_user_intent" then
    -- no user intents defined: one `general` LLM call yields the bot message
    some ([Event.actionFinished name true, Event.other "BotMessage" [("text", .str s.llmText)]], [Obs.llmCall])
  else
    match findRail s.input name, rk with
    | some (i, r), some k =>
      let t := strOf (σ.get "user_message")
      some (resultEvents σ name [(k, railResult r t)], [Obs.railCall "input" i r.name t])
    | _, _ =>
      match findRail s.output name, rk with
      | some (i, r), some k =>
        let t := strOf (σ.get "bot_message")
        some (resultEvents σ name [(k, railResult r t)], [Obs.railCall "output" i r.name t])
      | _, _ => none

inductive DriveRes where
  | done (trace : List Obs) (history : List Event)
  | stuck (why : String) (trace : List Obs)
  | oof
  deriving Repr

/-- the interpreter's context after a history (what `compute_context(events)` gives an action) -/
def ctxAfter (cfgs : Cfgs) (config : Ctx) (H : List Event) : Ctx :=
  match replay true cfgs H { ctx := config } with
  | .ok st => st.ctx
  | .error _ => []

/-- append the events of one `compute_next_steps` answer and execute a started action -/
def applyDecisions (s : Setup) (cfgs : Cfgs) (config : Ctx) : List Decision → List Event → List Obs → Option (List Event × List Obs)
  | [], H, tr => some (H, tr)
  | .ctx d :: rest, H, tr => applyDecisions s cfgs config rest (H ++ [.contextUpdate d]) tr
  | .bot i :: rest, H, tr => applyDecisions s cfgs config rest (H ++ [.botIntent i]) tr
  | .act name params rk :: rest, H, tr =>
    let H1 := H ++ [.startAction]
    match actionEvents s (ctxAfter cfgs config H1) name params rk with
    | some (es, obs) => applyDecisions s cfgs config rest (H1 ++ es) (tr ++ obs)
    | none => none

/-- `generate_events` -/
def drive (s : Setup) (cfgs : Cfgs) (config : Ctx) : Nat → List Event → List Obs → DriveRes
  | 0, _, _ => .oof
  | f + 1, H, tr =>
    match computeNextSteps true cfgs H config with
    | .ok [] => .done tr (H ++ [.other "Listen"])
    | .ok ds =>
      match applyDecisions s cfgs config ds H tr with
      | some (H', tr') => drive s cfgs config f H' tr'
      | none => .stuck "unscripted action" tr
    | .exprErr => .stuck "expression error" tr
    | .oof => .oof
    | .otherErr e => .stuck e tr

/-- `$generation_options` as a `ContextUpdate` (flattened): `none` ⇔ the variable is None / absent -/
def optionsEvent (o : Option (Bool × Bool × Bool × Bool)) : List Event :=
  match o with
  | none => []
  | some (i, d, r, ou) =>
    [.contextUpdate [("generation_options", .bool true), ("generation_options.rails.input", .bool i),
      ("generation_options.rails.dialog", .bool d), ("generation_options.rails.retrieval", .bool r),
      ("generation_options.rails.output", .bool ou)]]

/-- the history `generate_async` hands to `generate_events` for one call: options (and the supplied bot message) as a
    context update, then the user utterance -/
def initialHistory (o : Option (Bool × Bool × Bool × Bool)) (user : String) (bot : Option String) : List Event :=
  optionsEvent o ++ (match bot with | some b => [.contextUpdate [("bot_message", .str b)]] | none => []) ++
  [.other "UtteranceUserActionFinished" [("final_transcript", .str user)]]

end NemoVerif.RailsInterp
