/-
  V1Uid — WHICH uid a new flow state gets (`flows.py`: `uid=new_uuid()` in `_call_subflow` and in the start-new-flows loop
  of `compute_next_state`), made a parameter.

  `V1Interp` hands out uids from the counter `State.ctr` — the model of `new_uuid()`: a value no flow state of the
  state carries.  The theorems about calls and returns (`slide_with_subflows_simulates`, `resume_unwinds_stack`,
  `next_step_is_flow_statement_with_do`) carry "the uids of the flow states are pairwise distinct and below the counter"
  through their invariant (`V1Stack.Shape.nodup` / `.bound`); here that assumption gets a name (`UidsOK`), and the whole
  interpreter is restated over an allocation policy `Alloc`, so that

  * `counterAlloc` gives back `V1Interp` literally (`Lemmas/V1Uid.lean`: `computeNextStepsU_counter`), and
  * `injAlloc g` (any injective naming `g` of the counter — uuid4) decides exactly like `V1Interp` and reaches the same states up to
    the renaming `mapSt g` (`Lemmas/V1Uid.lean`: `computeNextSteps_inj`, `replay_map`): only FRESHNESS matters, not the names;
  * `siteAlloc` is the policy "uid of a subflow instance = function of (uid of the caller, position of the `do`)"
    (`uid=f"{flow_state.uid}/{flow_state.head}"`): injective in the call SITE, but the same for every execution of one
    `do` element by one caller instance.

  Everything else — the slide, `_record_next_step`, the advance / start / resume passes, in particular the resume pass's
  lookup `for _flow_state in new_state.flow_states: if _flow_state.uid == flow_state.interrupted_by: … break`
  (`List.find?`: the FIRST hit) — is the text of `V1Interp`, with `alloc.…` in the place of `ns.ctr`.
-/
import NemoVerif.Models.V1Interp
namespace NemoVerif.V1Uid
open NemoVerif.V1Interp

/-- the hypothesis about uids the call / return theorems rest on, checked at run time on every state the real
    `compute_next_state` returns: pairwise distinct, and (model only) below the allocation counter -/
def UidsOK (st : State) : Prop :=
  (st.flows.map (·.uid)).Nodup ∧ ∀ x ∈ st.flows, x.uid < st.ctr

instance (st : State) : Decidable (UidsOK st) := by unfold UidsOK; exact inferInstance

/-- uid allocation policy: `flow ctr` for a dialog flow started by the start-new-flows loop, `sub ctr caller` for a
    subflow instance created by `_call_subflow` (`caller` = the calling flow state, its head ON the `do` element) -/
structure Alloc where
  flow : Nat → Nat
  sub : Nat → FS → Nat

/-- `new_uuid()`: the counter -/
def counterAlloc : Alloc := { flow := fun c => c, sub := fun c _ => c }

/-- bound on the element index used by the encoding of `siteAlloc` -/
def SITE_W : Nat := 4096

/-- `f"{caller.uid}/{caller.head}"`.  Dialog flows keep fresh (even) uids; a call-site uid is odd and determined by
    (caller uid, head) — injectively for heads below `SITE_W` (`siteAlloc_injective`), like the formatted string -/
def siteAlloc : Alloc :=
  { flow := fun c => 2 * c, sub := fun _ caller => 2 * (caller.uid * SITE_W + caller.head.toNat) + 1 }

/-- `new_uuid()` as ANY never-repeating naming `g` of the allocation counter (uuid4: the names are not numbers in order) -/
def injAlloc (g : Nat → Nat) : Alloc := { flow := g, sub := fun c _ => g c }

/-- a flow state / state with every uid renamed by `g` (the uid itself, `interrupted_by`, `next_step_by_flow_uid`) -/
def mapFS (g : Nat → Nat) (fs : FS) : FS := { fs with uid := g fs.uid, interruptedBy := fs.interruptedBy.map g }
def mapNext (g : Nat → Nat) (n : NextStep) : NextStep := { n with uid := g n.uid }
def mapSt (g : Nat → Nat) (st : State) : State := { st with flows := st.flows.map (mapFS g), next := st.next.map (mapNext g) }

/-- `_slide_with_subflows` + `_call_subflow` (text of `V1Interp.slideWithSubflows`) -/
def slideWithSubflowsU (al : Alloc) (repaired : Bool) : Nat → Cfgs → State → FS → Except Err (State × FS)
  | 0, _, _, _ => .error .oof
  | f + 1, cfgs, ns, fs =>
    match cfgs.find fs.flowId with
    | Option.none => .error .key
    | some cfg =>
      match slide SLIDE_FUEL cfg.elems ⟨ns.ctx, ns.upd⟩ fs.head (initPrev cfg.elems fs.head) with
      | .oof => .error .oof
      | .err => .error .expr
      | .fin st h => .ok ({ ns with ctx := st.ctx, upd := st.upd }, { fs with head := h })
      | .at st h =>
        let ns := { ns with ctx := st.ctx, upd := st.upd }
        let fs := { fs with head := h }
        match cfg.elems[h.toNat]? with
        | some (.flow name) =>
          let sub : FS := { uid := al.sub ns.ctr fs, flowId := name, head := 0 }
          let ns := { ns with ctr := ns.ctr + 1 }
          let fs := { fs with head := fs.head + 1 }
          match slideWithSubflowsU al repaired f cfgs ns sub with
          | .error e => .error e
          | .ok (ns, sub) =>
            if sub.head < 0 then slideWithSubflowsU al repaired f cfgs ns fs
            else
              let fs := { fs with status := .interrupted, interruptedBy := some sub.uid }
              let ns := { ns with flows := ns.flows ++ [sub] }
              match cfgs.find sub.flowId with
              | Option.none => .error .key
              | some scfg =>
                if repaired && sub.status != .active then .ok (ns, fs)
                else .ok (recordNextStep ns sub scfg false, fs)
        | some (.flowE e) =>
          match eval ns.ctx e with
          | some (.str name) =>
            let sub : FS := { uid := al.sub ns.ctr fs, flowId := name, head := 0 }
            let ns := { ns with ctr := ns.ctr + 1 }
            let fs := { fs with head := fs.head + 1 }
            match slideWithSubflowsU al repaired f cfgs ns sub with
            | .error e => .error e
            | .ok (ns, sub) =>
              if sub.head < 0 then slideWithSubflowsU al repaired f cfgs ns fs
              else
                let fs := { fs with status := .interrupted, interruptedBy := some sub.uid }
                let ns := { ns with flows := ns.flows ++ [sub] }
                match cfgs.find sub.flowId with
                | Option.none => .error .key
                | some scfg =>
                  if repaired && sub.status != .active then .ok (ns, fs)
                  else .ok (recordNextStep ns sub scfg false, fs)
          | _ => .error .expr
        | _ => .ok (recordNextStep ns fs cfg false, fs)

def advanceOneU (al : Alloc) (repaired : Bool) (cfgs : Cfgs) (ev : Event) (ns : State) (ext : Bool) (fs : FS) : Except Err (State × Bool) :=
  match cfgs.find fs.flowId with
  | Option.none => .error .key
  | some cfg =>
    if fs.status == .completed || fs.status == .aborted then .ok (ns, ext)
    else if fs.status == .interrupted then .ok ({ ns with flows := ns.flows ++ [fs] }, ext)
    else match pyIndex cfg.elems fs.head with
      | Option.none => .error .index
      | some headEl =>
        if !ev.triggers cfg.triggers then
          let ns := { ns with flows := ns.flows ++ [fs] }
          .ok (recordNextStep ns fs cfg true, ext)
        else if isMatch headEl ev && fs.head + 1 != 0 then
          match slideWithSubflowsU al repaired SUB_FUEL cfgs ns { fs with head := fs.head + 1 } with
          | .error e => .error e
          | .ok (ns, fs) =>
            if fs.head < 0 then
              .ok ({ ns with flows := ns.flows ++ [{ fs with status := .completed }] }, ext || cfg.isExtension)
            else .ok ({ ns with flows := ns.flows ++ [fs] }, ext)
        else if isActionable headEl || !cfg.isInterruptible then
          .ok ({ ns with flows := ns.flows ++ [{ fs with status := .aborted }] }, ext)
        else .ok ({ ns with flows := ns.flows ++ [{ fs with status := .interrupted }] }, ext)

def advanceAllU (al : Alloc) (repaired : Bool) (cfgs : Cfgs) (ev : Event) : List FS → State → Bool → Except Err (State × Bool)
  | [], ns, ext => .ok (ns, ext)
  | fs :: rest, ns, ext =>
    match advanceOneU al repaired cfgs ev ns ext fs with
    | .error e => .error e
    | .ok (ns, ext) => advanceAllU al repaired cfgs ev rest ns ext

def startOneU (al : Alloc) (repaired : Bool) (cfgs : Cfgs) (ev : Event) (ns : State) (cfg : FlowCfg) : Except Err State :=
  if cfg.isSubflow then .ok ns
  else if !cfg.allowMultiple && (ns.flows.map (·.flowId)).contains cfg.id then .ok ns
  else
    match slide SLIDE_FUEL cfg.elems ⟨ns.ctx, ns.upd⟩ 0 (initPrev cfg.elems 0) with
    | .oof => .error .oof
    | .err => .error .expr
    | r =>
      let (st, h) := match r with
        | .at st h => (st, h)
        | .fin st h => (st, h)
        | _ => (⟨ns.ctx, ns.upd⟩, 0)
      let ns := { ns with ctx := st.ctx, upd := st.upd }
      match pyIndex cfg.elems h with
      | Option.none => .error .index
      | some el =>
        if isMatch el ev then
          let fs : FS := { uid := al.flow ns.ctr, flowId := cfg.id, head := h + 1 }
          let idx := ns.flows.length
          let ns := { ns with ctr := ns.ctr + 1, flows := ns.flows ++ [fs] }
          match slideWithSubflowsU al repaired SUB_FUEL cfgs ns fs with
          | .error e => .error e
          | .ok (ns, fs) =>
            let fs := if repaired && fs.head < 0 then { fs with status := .completed } else fs
            .ok { ns with flows := setAt ns.flows idx fs }
        else .ok ns

def startNewU (al : Alloc) (repaired : Bool) (cfgs : Cfgs) (ev : Event) : List FlowCfg → State → Except Err State
  | [], ns => .ok ns
  | cfg :: rest, ns =>
    match startOneU al repaired cfgs ev ns cfg with
    | .error e => .error e
    | .ok ns => startNewU al repaired cfgs ev rest ns

/-- the resume pass; the lookup of the interrupter is `find?` — the first flow state with that uid, as in the code -/
def resumePassU (al : Alloc) (repaired : Bool) : Nat → Cfgs → State → Nat → Bool → Except Err (State × Bool)
  | 0, _, _, _, _ => .error .oof
  | f + 1, cfgs, ns, i, changes =>
    match ns.flows[i]? with
    | Option.none => .ok (ns, changes)
    | some fs =>
      if fs.status == .interrupted then
        let target : Option FS := match fs.interruptedBy with
          | Option.none => Option.none
          | some u => ns.flows.find? (fun (g : FS) => g.uid == u)
        let shouldResume := fs.interruptedBy.isNone || (match target with | some g => g.status == .completed | Option.none => false)
        let shouldAbort := !fs.interruptedBy.isNone && (match target with | some g => g.status == .aborted | Option.none => false)
        if shouldResume then
          match slideWithSubflowsU al repaired SUB_FUEL cfgs ns { fs with status := .active, interruptedBy := Option.none } with
          | .error e => .error e
          | .ok (ns, fs) =>
            let fs := if fs.head < 0 then { fs with status := .completed } else fs
            resumePassU al repaired f cfgs { ns with flows := setAt ns.flows i fs } (i + 1) true
        else if shouldAbort then
          resumePassU al repaired f cfgs { ns with flows := setAt ns.flows i { fs with status := .aborted, interruptedBy := Option.none } } (i + 1) true
        else resumePassU al repaired f cfgs ns (i + 1) changes
      else resumePassU al repaired f cfgs ns (i + 1) changes

def resumeLoopU (al : Alloc) (repaired : Bool) : Nat → Cfgs → State → Except Err State
  | 0, _, _ => .error .oof
  | f + 1, cfgs, ns =>
    match resumePassU al repaired 1000 cfgs ns 0 false with
    | .error e => .error e
    | .ok (ns, changes) => if changes then resumeLoopU al repaired f cfgs ns else .ok ns

def computeNextStateU (al : Alloc) (repaired : Bool) (cfgs : Cfgs) (st : State) (ev : Event) : Except Err State :=
  match ev with
  | .startAction => .ok st
  | .contextUpdate d => .ok { st with ctx := st.ctx.update d, upd := [], next := Option.none }
  | _ =>
    let ns : State := { ctx := st.ctx.withEvent ev, flows := [], next := Option.none, upd := [], ctr := st.ctr }
    match advanceAllU al repaired cfgs ev st.flows ns false with
    | .error e => .error e
    | .ok (ns, ext) =>
      match startNewU al repaired cfgs ev cfgs ns with
      | .error e => .error e
      | .ok ns =>
        let ns := if ext then reactivateAborted cfgs ns.flows [] ns else ns
        let ns := markInterrupted ns
        let ns := extensionInterrupt cfgs ns
        resumeLoopU al repaired 100 cfgs ns

def replayU (al : Alloc) (repaired : Bool) (cfgs : Cfgs) : List Event → State → Except Err State
  | [], st => .ok st
  | ev :: rest, st =>
    match computeNextStateU al repaired cfgs st ev with
    | .error e => .error e
    | .ok st =>
      let st := if ev == .botIntent "stop" then { st with flows := [] } else st
      replayU al repaired cfgs rest st

def computeNextStepsU (al : Alloc) (repaired : Bool) (cfgs : Cfgs) (history : List Event) (config : Ctx := []) : StepsRes :=
  match applyHide history [] with
  | Option.none => .otherErr "hide_prev_turn"
  | some actual =>
    match replayU al repaired cfgs actual { ctx := config } with
    | .error .expr => .exprErr
    | .error .oof => .oof
    | .error .key => .otherErr "KeyError"
    | .error .index => .otherErr "IndexError"
    | .ok st =>
      if actual.getLast? == some (.botIntent "stop") then .ok [] else .ok (decisionsOf st)

end NemoVerif.V1Uid
