/-
  C13 — `PreExpand`: `ColangParser._apply_pre_parsing_expansions` (colang/v2_x/lang/parser.py), the line-based pass that
  runs BEFORE the lexer and rewrites the stand-alone `...` statement into six statements.

      lines = content.split("\n");  in_docstring = False
      for each line (s = line.strip()):
        not in_docstring and s.startswith('"""') and s.endswith('"""') and s != '"""'  -> unchanged
        not in_docstring and s.startswith('"""')                                       -> in_docstring = True
        in_docstring and s.endswith('"""')                                             -> in_docstring = False
        in_docstring                                                                   -> unchanged
        else: line = re.sub(r"^( +)\.\.\.", "\n\1<stmt1>\n … \1<stmt6>\n", line)
      "\n".join(lines)

  The pattern and the six statements are generated data (`Generated.C13.expansionLines`; the translator refuses any other
  pattern than `^( +)\.\.\.`).  Input/output: lists of lines (character lists); a rewritten line becomes
  `"" :: (indent ++ stmt_i)… ++ [rest]` where `rest` is what followed the three dots.
-/
import NemoVerif.Generated.C13
import NemoVerif.Models.NumberedLines

namespace NemoVerif.PreExpand
open NemoVerif.NumberedLines (Str strip isPyWs startsWith endsWith q3)

/-- `re.match(r"^( +)\.\.\.", line)`: the (greedy, non-empty) run of leading spaces and the text after the dots. -/
def splitSpaces : Str → Str × Str
  | ' ' :: r => (' ' :: (splitSpaces r).1, (splitSpaces r).2)
  | l => ([], l)

/-- strip `n` leading dots -/
def dropDots : Nat → Str → Option Str
  | 0, r => some r
  | n + 1, '.' :: r => dropDots n r
  | _ + 1, _ => none

def matchDots (l : Str) : Option (Str × Str) :=
  if (splitSpaces l).1.isEmpty then none
  else (dropDots 3 (splitSpaces l).2).map (fun rest => ((splitSpaces l).1, rest))

def expansion : List Str := Generated.C13.expansionLines.map String.toList

/-- the `else` branch: `re.sub` on one line -/
def subLine (l : Str) : List Str :=
  match matchDots l with
  | none => [l]
  | some (sp, rest) => [] :: (expansion.map (sp ++ ·)) ++ [rest]

/-- one line; `d` = `in_docstring` -/
def stepS (d : Bool) (s : Str) (l : Str) : Bool × List Str :=
  if !d && startsWith s q3 && endsWith s q3 && s != q3 then (d, [l])
  else if !d && startsWith s q3 then (true, [l])
  else if d && endsWith s q3 then (false, [l])
  else if d then (d, [l])
  else (d, subLine l)

def step (d : Bool) (l : Str) : Bool × List Str := stepS d (strip l) l

def run (d : Bool) : List Str → List Str
  | [] => []
  | l :: ls => (step d l).2 ++ run (step d l).1 ls

/-- state after a prefix, and its output -/
def runPre (d : Bool) : List Str → Bool × List Str
  | [] => (d, [])
  | l :: ls => ((runPre (step d l).1 ls).1, (step d l).2 ++ (runPre (step d l).1 ls).2)

/-- `_apply_pre_parsing_expansions(content).split("\n")` on `content.split("\n")` -/
def preExpand (lines : List Str) : List Str := run false lines

/-- append `ws` to the last line of a non-empty block -/
def appendLast (ws : Str) : List Str → List Str
  | [] => []
  | [l] => [l ++ ws]
  | l :: r => l :: appendLast ws r

end NemoVerif.PreExpand
