/-
  `LifetimeV` — the REPAIRED recursion of `_abort_flow` / `_finish_flow` (fixes/C06-activation-cycle.diff):
  the functions thread a set `in_progress` of the uids of the instances that are being aborted / finished further up
  the call stack; an instance found in it is not entered again (flows that activate each other form a cycle in
  `child_flow_uids`).  The set is the field `State.busy`; it is shared by reference through the recursion and only
  ever grows (Python: `in_progress.add(flow_state.uid)`).  Everything else — deactivation block, child loops, the
  straight-line tails — is the code of Models/Lifetime.lean, reused through its `rec` parameter.
  Core Lean only (linked into the driver).
-/
import NemoVerif.Models.Lifetime
import NemoVerif.Models.LifetimeOps
namespace NemoVerif.Lifetime

/-- `in_progress.add(flow_state.uid)` -/
def markBusy (s : State) (u : Nat) : State := { s with busy := u :: s.busy }

/-- the part of the repaired `_abort_flow` after the deactivation block: the new guard sits between the
    "skip the rest for all inactive flows" test and the body -/
def abortBodyV (rec : State → Nat → Except Err State) (s : State) (u : Nat) (d : Bool) : Except Err State :=
  match s.flows u with
  | none => .error .key
  | some f =>
    if !f.status.listening && f.status != .stopping then .ok s
    else if s.busy.contains u then .ok s             -- already being aborted further up the call stack
    else abortBody rec (markBusy s u) u d

/-- repaired `_abort_flow(state, flow_states[u], matching_scores, d, in_progress = state.busy)` -/
def abortFlowV : Nat → State → Nat → Bool → Except Err State
  | 0, _, _, _ => .error .fuel
  | n + 1, s, u, d =>
    match deactivatePhase (fun s c => abortFlowV n s c true) s u d with
    | .error e => .error e
    | .ok (s1, true) => .ok s1
    | .ok (s1, false) => abortBodyV (fun s c => abortFlowV n s c true) s1 u d

/-- an OUTERMOST `_abort_flow` call: `in_progress` starts empty -/
def abortTopV (n : Nat) (s : State) (u : Nat) (d : Bool) : Except Err State :=
  abortFlowV n { s with busy := [] } u d

/-- repaired `_finish_flow`: `in_progress = {flow_state.uid}` from the first statement on -/
def finishFlowV (n : Nat) (s : State) (u : Nat) (d : Bool) : Except Err State :=
  match deactivatePhase (fun s c => abortFlowV n s c true) { s with busy := [u] } u d with
  | .error e => .error e
  | .ok (s1, true) => .ok s1
  | .ok (s1, false) => finishBody (fun s c => abortFlowV n s c true) s1 u d

/-- `EndScope`: every `_abort_flow(state, child, head.matching_scores)` is an outermost call (fresh set) -/
def endScopeV (n : Nat) (s : State) (u : Nat) (name : Nat) : Except Err State :=
  match s.flows u with
  | none => .error .key
  | some f =>
    match scopeLookup name f.scopes with
    | none => .error .runtime
    | some (fl, al) =>
      let s1 := setFlow s u { f with scopes := scopeErase name f.scopes }
      match scopeFlowLoop (fun s c => abortTopV n s c false) s1 fl with
      | .error e => .error e
      | .ok s2 => stopActions s2 al

/-- the operation-sequence semantics with the REPAIRED recursion for the three recursive operations; every other
    operation is the one of `applyOp` -/
def applyOpV (s : State) : IOp → State
  | .abort n u d => okOr s (abortTopV n s u d)
  | .finish n u d => okOr s (finishFlowV n s u d)
  | .endScope n u nm => okOr s (endScopeV n s u nm)
  | op => applyOp s op

def runV (ops : List IOp) : State := ops.foldl applyOpV initState

end NemoVerif.Lifetime
