/-
  C13 — `ErrWrap`: the error path of `RailsConfig.from_path` for one Colang file.

  `wrap` mirrors the try/except of `_parse_colang_files_recursively` (rails/llm/config.py):

      try:      content = f.read(); parse_colang_file(...)
      except ValueError as e:   raise ColangParsingError(f"Unsupported colang version {v} for file: {path}") from e
      except Exception as e:    raise ColangParsingError(f"Error while parsing Colang file: {path}\n"
                                                         + format_colang_parsing_error_message(e, content)) from e

  The exception raised by the parser is a record: what `isinstance` says, what `getattr(e, "line")` /
  `getattr(e, "column")` give (`Attr`), and `str(e)`.  `content.splitlines()` is an input (`lines`).

  `formatAsIs` mirrors `format_colang_parsing_error_message` of the pinned commit
  (`content.splitlines()[exception.line - 1]`, `getattr(exception, "column", 1) - 1`), `formatTotal`
  mirrors the repaired body of fixes/C13-error-formatter-total.diff.  Which one the current tree has is
  generated data (`Generated.C13.formatterTotal`).
-/
import NemoVerif.Generated.C13
import NemoVerif.Generated.C13Raise

namespace NemoVerif.ErrWrap

/-- value of an attribute of the exception object -/
inductive Attr where
  | missing            -- no such attribute
  | none               -- `None` (lark: `UnexpectedToken` at end of input)
  | int (i : Int)      -- an `int` (`bool` included)
  | other              -- anything else (str, float, …)
  deriving DecidableEq, Repr, Inhabited

structure Exc where
  cls : String
  isException : Bool     -- isinstance(e, Exception)   (KeyboardInterrupt / SystemExit pass through by design)
  isValueError : Bool    -- isinstance(e, ValueError)
  line : Attr
  column : Attr
  str : String           -- f"{e}"
  deriving DecidableEq, Repr, Inhabited

inductive PyErr where
  | attributeError | typeError | indexError
  deriving DecidableEq, Repr, Inhabited

def PyErr.name : PyErr → String
  | .attributeError => "AttributeError"
  | .typeError => "TypeError"
  | .indexError => "IndexError"

/-- `l[i]` for a Python int (negative indices count from the end). -/
def pyIndex (l : List String) (i : Int) : Option String :=
  if 0 ≤ i then l[i.toNat]?
  else if -(l.length : Int) ≤ i then l[((l.length : Int) + i).toNat]?
  else none

/-- `f"{exception}:\n{line}\n{marker}"` with `marker = " " * (column - 1) + "^"`. -/
def render (s line : String) (column : Int) : String :=
  s ++ ":\n" ++ line ++ "\n" ++ String.ofList (List.replicate (column - 1).toNat ' ') ++ "^"

/-- the formatter of the pinned commit -/
def formatAsIs (e : Exc) (lines : List String) : Except PyErr String :=
  match e.line with
  | .missing => .error .attributeError
  | .none => .error .typeError
  | .other => .error .typeError
  | .int i =>
    match pyIndex lines (i - 1) with
    | none => .error .indexError
    | some line =>
      match e.column with
      | .missing => .ok (render e.str line 1)
      | .int c => .ok (render e.str line c)
      | .none => .error .typeError
      | .other => .error .typeError

/-- the repaired formatter: position used only when it is a valid 1-based line number -/
def formatTotal (e : Exc) (lines : List String) : String :=
  match e.line with
  | .int i =>
    if 1 ≤ i ∧ i ≤ (lines.length : Int) then
      match lines[(i - 1).toNat]? with
      | some line =>
        let col : Int := match e.column with
          | .int c => if c < 1 then 1 else c
          | _ => 1
        render e.str line col
      | none => e.str
    else e.str
  | _ => e.str

def format (total : Bool) (e : Exc) (lines : List String) : Except PyErr String :=
  if total then .ok (formatTotal e lines) else formatAsIs e lines

inductive Outcome where
  | returned
  | raised (cls : String) (msg : String)
  deriving DecidableEq, Repr, Inhabited

def cpe : String := "ColangParsingError"

/-- one iteration of the parsing loop: `res = none` ⇒ the parser returned. -/
def wrap (total : Bool) (res : Option Exc) (version path : String) (lines : List String) : Outcome :=
  match res with
  | none => .returned
  | some e =>
    if e.isValueError then .raised cpe ("Unsupported colang version " ++ version ++ " for file: " ++ path)
    else if !e.isException then .raised e.cls e.str
    else
      match format total e lines with
      | .ok m => .raised cpe ("Error while parsing Colang file: " ++ path ++ "\n" ++ m)
      | .error pe => .raised pe.name ""

/-- the wrapper of the current source tree -/
def wrapCur := wrap Generated.C13.formatterTotal

/-- the region in which the pinned formatter works -/
def PositionOk (e : Exc) (lines : List String) : Prop :=
  (∃ i, e.line = .int i ∧ (pyIndex lines (i - 1)).isSome) ∧ (e.column = .missing ∨ ∃ c, e.column = .int c)

/-! ### every raise site of the two parsers (static scan, `Generated.C13Raise.sites`) -/

/-- the exception objects a raise site can produce: the site's class fixes what `isinstance` says; attributes (`line`, `column` - the
    1.0 parser decorates its `Exception` with `.line`, lark sets both) and the text are arbitrary -/
def excOfSite (s : Generated.C13Raise.Site) (line column : Attr) (str : String) : Exc :=
  { cls := s.cls, isException := s.isException, isValueError := s.isValueError, line := line, column := column, str := str }

end NemoVerif.ErrWrap
