/-
  C13 — `CommentStrip`: `ColangTransformer._remove_source_code_comments` (colang/v2_x/lang/transformer.py), the function every
  Colang 2.x flow's source slice goes through while a file is parsed (`flow_def` callback; at load time for every file, at run time
  for flows written by the LLM):

      pattern = r"#[^\n]*"
      return re.sub(pattern, "", source)

  `re.sub` with a pattern that cannot match the empty string = one left-to-right pass: the leftmost `#` starts a match, the greedy
  `[^\n]*` runs to the next line break (or the end), the match is deleted, the search goes on behind it.  Mirrored as a two-state
  scanner over `List Char` (`scan`: outside / inside a match) - ONE step per character - and as an explicit small-step machine with
  fuel (`run`), so that "ends after |source| + 1 steps" is a statement (`remove_comments_total`), not a by-product of Lean's
  totality.  The pattern is generated data (`Generated.C13Regex.stripPattern`); the translator (harness/translate/c13regex.py)
  refuses any other shape of the function, `strip_pattern_pinned` re-states it as a build-time fact.
-/
import NemoVerif.Generated.C13Regex

namespace NemoVerif.CommentStrip

/-- the pattern this file mirrors -/
def mirroredPattern : String := "#[^\\n]*"

/-- `inC` = inside a match of `#[^\n]*` -/
def scan : Bool → List Char → List Char
  | _, [] => []
  | true, c :: cs => if c = '\n' then c :: scan false cs else scan true cs
  | false, c :: cs => if c = '#' then scan true cs else c :: scan false cs

/-- the state of the scanner after a text -/
def endState : Bool → List Char → Bool
  | b, [] => b
  | true, c :: cs => if c = '\n' then endState false cs else endState true cs
  | false, c :: cs => if c = '#' then endState true cs else endState false cs

/-- `_remove_source_code_comments(source)` -/
def strip (s : List Char) : List Char := scan false s

/-! the same pass as a machine: one character per step, output accumulated in reverse -/

structure St where
  inC : Bool
  rest : List Char
  out : List Char

def init (s : List Char) : St := ⟨false, s, []⟩

/-- one step; `none` = the input is used up -/
def step (st : St) : Option St :=
  match st.rest with
  | [] => none
  | c :: cs =>
    if st.inC then (if c = '\n' then some ⟨false, cs, c :: st.out⟩ else some ⟨true, cs, st.out⟩)
    else (if c = '#' then some ⟨true, cs, st.out⟩ else some ⟨false, cs, c :: st.out⟩)

/-- `fuel` steps at most; `none` = out of fuel -/
def run : Nat → St → Option (List Char)
  | 0, _ => none
  | n + 1, st =>
    match step st with
    | none => some st.out.reverse
    | some st' => run n st'

/-- number of steps the machine makes on a text (what the driver reports) -/
def steps (s : List Char) : Nat := s.length + 1

end NemoVerif.CommentStrip
