/-
  C12 (Colang 2.x part, phase 4) — the IN-PLACE labelling of `Break` / `Continue` by `expand_elements`
  (nemoguardrails/colang/v2_x/lang/expansion.py):

      elif isinstance(element, Break):
          if element.label is None and continue_break_labels is not None:
              element.label = continue_break_labels[1]          # writes into the PARSED element

  The parsed flows (`RailsConfig.flows`, `Flow.elements`) are handed to every runtime created from the configuration
  (`create_flow_configs_from_flow_list`), so the same `Break` / `Continue` objects go through `expand_elements` once per
  runtime.  `Models/Expand.lean` describes ONE expansion of a freshly parsed AST.  Here the label slot of every
  Break / Continue object is part of the state: `Slots` lists the slots of the AST in traversal order; an expansion reads
  them and returns the slots as it leaves them.

  `ip = true`  : the code as it is (the label is written into the parsed element, and a label that is already set is kept);
  `ip = false` : the repaired code (fixes/C12-loop-exit-label-in-place.diff: a NEW Break / Continue element carries the
                 label, the parsed element is not touched).

  The slots inside the bodies of a `when` are not threaded (those bodies are copied per group / per case by the real
  compiler, see Models/Expand.lean): for `when` the as-is mode is only a model of programs without Break / Continue in
  `when` bodies; the repaired mode touches no slot at all and is exact for the whole grammar.
-/
import NemoVerif.Models.Expand
namespace NemoVerif.Expand
open NemoVerif.Closed

/-- the `label` attribute of every Break / Continue object of the AST, in traversal order -/
abbrev Slots := List (Option Lbl)

/-- label the emitted element carries: a label that is already set wins, else the enclosing loop's (if any) -/
def slotOut (loopLabel : Option Lbl) (o : Option Lbl) : Option Lbl :=
  match o with
  | some l => some l
  | none => loopLabel

def headSlot (sl : Slots) : Option Lbl :=
  match sl with
  | o :: _ => o
  | [] => none

/-- result of an expansion: (output, counter), the slots it went through as it leaves them, the slots not reached yet -/
abbrev AOut := (List (Prim Lbl) × Nat) × Slots × Slots

mutual
  def expandA (ip : Bool) (cb : Option (Lbl × Lbl)) : List Stmt → Slots → Nat → AOut
    | [], sl, c => (([], c), [], sl)
    | s :: r, sl, c =>
      let a := expandStmtA ip cb s sl c
      let b := expandA ip cb r a.2.2 a.1.2
      ((a.1.1 ++ b.1.1, b.1.2), a.2.1 ++ b.2.1, b.2.2)
  def expandStmtA (ip : Bool) (cb : Option (Lbl × Lbl)) : Stmt → Slots → Nat → AOut
    | .brk, sl, c =>
      let l := slotOut (cb.map (·.2)) (headSlot sl)
      (([.brk l], c), [if ip then l else headSlot sl], sl.tail)
    | .cont, sl, c =>
      let l := slotOut (cb.map (·.1)) (headSlot sl)
      (([.cont l], c), [if ip then l else headSlot sl], sl.tail)
    | .whileS b, sl, c =>
      let bl : Lbl := ("_while_begin_", c)
      let el : Lbl := ("_while_end_", c)
      let body := expandA ip (some (bl, el)) b sl (c + 1)
      (([.label bl, .goto el] ++ body.1.1 ++ [.jump bl, .label el], body.1.2), body.2.1, body.2.2)
    | .ifS t f, sl, c =>
      let elseL : Lbl := ("if_else_body_label_", c)
      let endL : Lbl := ("if_end_label_", c + 1)
      let te := expandA ip cb t sl (c + 2)
      if f.isEmpty then
        (([.goto endL] ++ te.1.1 ++ [.label endL], te.1.2), te.2.1, te.2.2)
      else
        let fe := expandA ip cb f te.2.2 te.1.2
        (([.goto elseL] ++ te.1.1 ++ [.jump endL, .label elseL] ++ fe.1.1 ++ [.label endL], fe.1.2), te.2.1 ++ fe.2.1, fe.2.2)
    | .send, sl, c => (expandStmt cb .send c, [], sl)
    | .matchEv, sl, c => (expandStmt cb .matchEv c, [], sl)
    | .assign, sl, c => (expandStmt cb .assign c, [], sl)
    | .other k, sl, c => (expandStmt cb (.other k) c, [], sl)
    | .ret, sl, c => (expandStmt cb .ret c, [], sl)
    | .abort, sl, c => (expandStmt cb .abort c, [], sl)
    | .matchG d, sl, c => (expandStmt cb (.matchG d) c, [], sl)
    | .sendG d, sl, c => (expandStmt cb (.sendG d) c, [], sl)
    | .startS d, sl, c => (expandStmt cb (.startS d) c, [], sl)
    | .awaitOne k rv, sl, c => (expandStmt cb (.awaitOne k rv) c, [], sl)
    | .awaitG d, sl, c => (expandStmt cb (.awaitG d) c, [], sl)
    | .activateS n, sl, c => (expandStmt cb (.activateS n) c, [], sl)
    | .deactivateS n, sl, c => (expandStmt cb (.deactivateS n) c, [], sl)
    | .nld, sl, c => (expandStmt cb .nld c, [], sl)
    | .whenS specs thens els hasElse, sl, c => (expandStmt cb (.whenS specs thens els hasElse) c, [], sl)
end

/-- the AST as the parser delivers it: no label set -/
def Unlabelled (sl : Slots) : Prop := ∀ o ∈ sl, o = none

/-- the `k+1`-st compilation of the same parsed flow (`k = 0`: the first one); every compilation starts from the slots the
    previous one left and from the uid counter where the previous one stopped (uids are never reused) -/
def recompile (ip : Bool) (ss : List Stmt) : Nat → Slots → Nat → List (Prim Lbl) × Nat × Slots
  | 0, sl, c =>
    let r := expandA ip none ss sl c
    (r.1.1, r.1.2, r.2.1 ++ r.2.2)
  | k + 1, sl, c =>
    let r := expandA ip none ss sl c
    recompile ip ss k (r.2.1 ++ r.2.2) r.1.2

mutual
  /-- no `break` / `continue` under a `while` (`inLoop`: are we inside one?) — the programs the in-place labelling cannot hurt -/
  def exitFree (inLoop : Bool) : List Stmt → Bool
    | [] => true
    | s :: r => exitFreeStmt inLoop s && exitFree inLoop r
  def exitFreeStmt (inLoop : Bool) : Stmt → Bool
    | .brk => !inLoop
    | .cont => !inLoop
    | .ifS t f => exitFree inLoop t && exitFree inLoop f
    | .whileS b => exitFree true b
    | _ => true
end

mutual
  /-- number of Break / Continue objects whose label slot an expansion goes through -/
  def nslots : List Stmt → Nat
    | [] => 0
    | s :: r => nslotsStmt s + nslots r
  def nslotsStmt : Stmt → Nat
    | .brk => 1
    | .cont => 1
    | .ifS t f => nslots t + nslots f
    | .whileS b => nslots b
    | _ => 0
end

/-- `b` has the slots of `a`, and every label that is set in `a` is still the same in `b` -/
def Keeps (a b : Slots) : Prop := a.length = b.length ∧ ∀ (i : Nat) (l : Lbl), a[i]? = some (some l) → b[i]? = some (some l)

end NemoVerif.Expand
