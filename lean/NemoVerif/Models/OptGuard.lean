/-
  C16 — the guard expressions of `rails/llm/llm_flows.co` that consult `$generation_options`.

  The translator (`harness/translate/c16.py`) parses `llm_flows.co` with the repo's own Colang 1.0 parser,
  takes the `if` expressions of `process user input`, `run dialog rails`, `generate bot message` and
  `process bot message`, and re-parses each with Python's `ast` into the tiny language `G` below
  (anything outside it ⇒ `TieBroken`).  The pipeline model (`Models/PipelineOpts.lean`) *evaluates* these
  generated guards, so an edit of a guard in `llm_flows.co` changes the model and the theorems are
  re-checked against what the file says now.
-/
namespace NemoVerif.OptGuard

/-- The four rail categories of `GenerationRailsOptions`. -/
inductive Cat where
  | input | dialog | retrieval | output
  deriving DecidableEq, Repr, Inhabited

/-- `options.rails` after `GenerationOptions.check_fields` (a list of names becomes four booleans). -/
structure Opts where
  input : Bool
  dialog : Bool
  retrieval : Bool
  output : Bool
  deriving DecidableEq, Repr, Inhabited

def Opts.get (o : Opts) : Cat → Bool
  | .input => o.input
  | .dialog => o.dialog
  | .retrieval => o.retrieval
  | .output => o.output

/-- Guard expressions (the fragment of simpleeval expressions used by the option tests). -/
inductive G where
  | optsNone                 -- `$generation_options is None`
  | optsTruthy               -- `$generation_options`
  | rail (c : Cat)           -- `$generation_options.rails.<c>`
  | railEqFalse (c : Cat)    -- `$generation_options.rails.<c> == False`
  | cfgFlows (c : Cat)       -- `$config.rails.<c>.flows`
  | skipOut                  -- `$skip_output_rails`
  | or (a b : G)
  | and (a b : G)
  | not (a : G)
  deriving Repr, Inhabited

/-- What a guard can see: the options (`none` = `$generation_options is None`), which categories have
    configured flows, and the `$skip_output_rails` context variable. -/
structure Env where
  opts : Option Opts
  hasFlows : Cat → Bool
  skip : Bool

/-- Evaluation with Python's short-circuit `and`/`or`; `none` = the expression raises (attribute access on
    `None`). -/
def G.eval (e : Env) : G → Option Bool
  | .optsNone => some e.opts.isNone
  | .optsTruthy => some e.opts.isSome
  | .rail c => e.opts.map (·.get c)
  | .railEqFalse c => e.opts.map (fun o => !o.get c)
  | .cfgFlows c => some (e.hasFlows c)
  | .skipOut => some e.skip
  | .or a b => match a.eval e with
    | some true => some true
    | some false => b.eval e
    | none => none
  | .and a b => match a.eval e with
    | some false => some false
    | some true => b.eval e
    | none => none
  | .not a => (a.eval e).map (!·)

/-- The guards of `llm_flows.co`, in source order per flow. -/
structure Guards where
  inputCfg : G       -- process user input, 1st `if`
  inputOpt : G       -- process user input, 2nd `if`
  dialogOff : G      -- run dialog rails, 1st `if`
  outputOff : G      -- run dialog rails, 2nd `if`
  retrievalCfg : G   -- generate bot message, 1st `if`
  retrievalOpt : G   -- generate bot message, 2nd `if`
  skipOut : G        -- process bot message, 1st `if`
  outputCfg : G      -- process bot message, 2nd `if`
  outputOpt : G      -- process bot message, 3rd `if`
  deriving Repr, Inhabited

end NemoVerif.OptGuard
