/-
  C10 (wave 6) — the CONVERSION STEP of `RuntimeV2_x.process_events` (runtime.py) and the class test of the matcher.

      new_event = event
      while new_event is not None:
          try:
              run_to_completion(state, new_event)
              new_event = None
          except Exception as e:
              new_event = <Class>(name="ColangError", arguments={"type": ..., "error": ...})     -- site 1

  `run_to_completion` is a parameter of the model (`Rtc σ`): a function that, for a state and an event, either returns the next state
  or raises in some state (Python mutates the state object in place: the state at the raise is what the next iteration works on).
  Whether a flow waiting at `match ColangError()` is woken by the converted event is decided in `_compute_event_matching_score`
  (statemachine.py, site 2): `if not isinstance(ref_event, type(event)): return 0.0`.  The classes involved are DATA extracted by the
  translator `harness/translate/c10_classes.py` (`Generated/C10Classes.lean`): class of the converted event, class of the reference
  event built for `match ColangError()`, the subclass relation of the tree's event classes.
  No Mathlib.
-/
import NemoVerif.Generated.C10Classes

namespace NemoVerif.ProcessEvents

/-- class codes of flows.py: 0 = Event, 1 = InternalEvent, 2 = ActionEvent -/
abbrev Cls := Nat

/-- what the two sites and the class hierarchy look like in a tree -/
structure Tie where
  converted : Cls            -- site 1
  matchRef : Cls             -- class of the reference event of `match ColangError()`
  subclass : List (Cls × Cls) -- issubclass(a, b)
  guard : Bool               -- site 2 present
  deriving Repr, DecidableEq

/-- `isinstance(x, C)` for an object x of class `a` -/
def Tie.isInstance (t : Tie) (a C : Cls) : Bool := t.subclass.contains (a, C)

/-- `_compute_event_matching_score` does not return 0.0 at its class test: `isinstance(ref_event, type(event))` -/
def Tie.headMayMatch (t : Tie) (evCls : Cls) : Bool := !t.guard || t.isInstance t.matchRef evCls

/-- the tree under test -/
def generatedTie : Tie :=
  { converted := Generated.C10Classes.convertedClass, matchRef := Generated.C10Classes.matchRefClass,
    subclass := Generated.C10Classes.subclassPairs, guard := Generated.C10Classes.scoreGuard }

/-- the class hierarchy of flows.py as pinned: InternalEvent <: Event, ActionEvent <: Event -/
def pinnedSubclass : List (Cls × Cls) := [(0, 0), (1, 0), (1, 1), (2, 0), (2, 2)]

/-- an event as far as the conversion step is concerned -/
structure Ev where
  cls : Cls
  isColangError : Bool
  errType : Nat          -- `type(e).__name__` of the converted exception (a code)
  deriving Repr, DecidableEq

inductive Outcome (σ : Type) where
  | ok (s : σ)
  | raised (s : σ) (errType : Nat)

/-- `run_to_completion(state, event)` -/
abbrev Rtc (σ : Type) := σ → Ev → Outcome σ

/-- the event site 1 creates -/
def convertedEvent (t : Tie) (errType : Nat) : Ev := { cls := t.converted, isColangError := true, errType := errType }

/-- the `while new_event is not None` loop for one input event; `none` = fuel exhausted (every delivered event made
    `run_to_completion` raise).  Returns the final state and the events that were handed to `run_to_completion`, in order. -/
def convertLoop {σ : Type} (t : Tie) (rtc : Rtc σ) : Nat → σ → Ev → Option (σ × List Ev)
  | 0, _, _ => none
  | fuel + 1, s, ev =>
    match rtc s ev with
    | .ok s' => some (s', [ev])
    | .raised s' e =>
      match convertLoop t rtc fuel s' (convertedEvent t e) with
      | some (s'', l) => some (s'', ev :: l)
      | none => none

/-! ### a state machine with one observer of `ColangError`

  The smallest `run_to_completion` that exhibits the interplay: `faulty ev` = the exception class the processing of `ev` raises
  (a statement of some flow reaches a raise site outside every try block, or the event itself is rejected), and an activated
  observer flow `match ColangError() as $e ; send Reported(...)` whose reactions are counted.  The observer's head is a candidate for
  every event named ColangError; it matches iff the class test lets it. -/

structure ObsState where
  reactions : Nat      -- how often the observer reacted
  delivered : Nat      -- how many events run_to_completion completed
  deriving Repr, DecidableEq

def obsRtc (t : Tie) (faulty : Ev → Option Nat) : Rtc ObsState := fun s ev =>
  match faulty ev with
  | some e => .raised s e
  | none =>
    if ev.isColangError && t.headMayMatch ev.cls then .ok { reactions := s.reactions + 1, delivered := s.delivered + 1 }
    else .ok { s with delivered := s.delivered + 1 }

/-! ### the guard of the repaired `_resolve_action_conflicts` (fixes/C10-escaping-statement-errors.diff)

  `_fail_heads_with_invalid_action_event`: the action event of every actionable head is built once inside try/except; a head whose
  event cannot be created gets a ColangError and its flow is aborted (`kills f` = the flows `_abort_flow` stops with `f`: itself and its
  descendants); heads of flows stopped in the meantime are skipped; the survivors go on to the conflict resolution. -/

structure AHead where
  uid : Nat
  flow : Nat
  deriving Repr, DecidableEq

/-- (stopped flows, queued error classes) after the scan of the heads -/
def failInvalid (build : AHead → Option Nat) (kills : Nat → List Nat) : List AHead → List Nat → List Nat → List Nat × List Nat
  | [], stopped, errs => (stopped, errs)
  | h :: rest, stopped, errs =>
    if stopped.contains h.flow then failInvalid build kills rest stopped errs
    else match build h with
      | none => failInvalid build kills rest stopped errs
      | some e => failInvalid build kills rest (stopped ++ kills h.flow) (errs ++ [e])

/-- the heads handed to the conflict resolution and the ColangError reports queued -/
def guardHeads (build : AHead → Option Nat) (kills : Nat → List Nat) (heads : List AHead) : List AHead × List Nat :=
  let r := failInvalid build kills heads [] []
  (heads.filter fun h => !r.1.contains h.flow, r.2)

end NemoVerif.ProcessEvents
