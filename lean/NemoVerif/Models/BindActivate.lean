/-
  C08 — model of the lookup that decides whether an `activate f(..)` call is served by an activation
  that already runs (`_get_reference_activated_flow_instance`, statemachine.py) and of the StartFlow
  branch of `_process_internal_events_without_default_matchers` that uses it.

    * `pyEq`            ~ Python `==` on the value universe (`1 == True`, `1 == 1.0`, lists element by
                          element, dicts and sets independent of the order)
    * `isReference`     ~ the `continue` guard at the top of the loop (activated == 0, parent gone,
                          parent is an instance of the same flow = child of a reference instance)
    * `paramMatches`    ~ the three `matched |= …` clauses for one parameter (named, positional, default)
    * `sameParams`      ~ the loop over `enumerate(parameters)` with its `break`
    * `refActivated`    ~ the loop over `state.flow_id_states[flow_id]`: first reference instance with
                          the same parameters (index in that list), or None
    * `startDecision`   ~ the StartFlow branch: ignore / serve by the running activation / create

  The arguments are looked up under `flow_argument_key` (`argKey`: the repaired tree, like
  `createFlowInstance`).  No Mathlib.
-/
import NemoVerif.Models.Bind

namespace NemoVerif.Bind
open NemoVerif

/-! ### Python `==` -/

mutual
def pyEq : Val → Val → Bool
  | .list xs, .list ys => pyEqList xs ys
  | .dict xs, .dict ys => xs.length == ys.length && pyEqKvs xs ys
  | .set xs, .set ys => xs.length == ys.length && xs.all fun x => ys.any fun y => x.scalarEq y
  | .list _, _ => false
  | .dict _, _ => false
  | .set _, _ => false
  | a, b => a.scalarEq b
def pyEqList : List Val → List Val → Bool
  | [], [] => true
  | x :: xs, y :: ys => pyEq x y && pyEqList xs ys
  | _, _ => false
/-- every entry of the left dict is in the right dict with an equal value (keys are unique and the
    lengths agree: that is dict equality) -/
def pyEqKvs : List (String × Val) → List (String × Val) → Bool
  | [], _ => true
  | (k, x) :: xs, ys =>
    (match ys.find? (fun kv => kv.1 == k) with
     | some kv => pyEq x kv.2
     | none => false) && pyEqKvs xs ys
end

/-- Python truthiness (`event.arguments.get("activated", None)` used as a condition) -/
def truthy : Val → Bool
  | .none => false
  | .bool b => b
  | .int i => i != 0
  | .flt m _ => m != 0
  | .str s => s != ""
  | .list xs => !xs.isEmpty
  | .dict xs => !xs.isEmpty
  | .set xs => !xs.isEmpty
  | _ => true

/-! ### `_get_reference_activated_flow_instance` -/

/-- what the lookup reads of one `FlowState` in `state.flow_id_states[flow_id]` -/
structure ActInst where
  activated : Nat
  /-- `parent_uid in state.flow_states` -/
  parentAlive : Bool
  /-- `parent_uid` is set and the parent is an instance of the same flow (this instance is a
      restarted child of a reference instance, not a reference instance) -/
  parentSameFlow : Bool
  arguments : Ctx
  deriving Repr, Inhabited

/-- negation of the `continue` guard -/
def isReference (a : ActInst) : Bool :=
  !(a.activated == 0 || !a.parentAlive || a.parentSameFlow)

/-- one round of the parameter loop: `val = activated_flow.arguments[arg_key]` (KeyError when missing),
    then `matched = named; matched |= positional; matched |= default`. -/
def paramMatches (ev args : Ctx) (idx : Nat) (p : Param) : Except Err Bool :=
  match lookup (argKey p.name) args with
  | none => .error .keyError
  | some val =>
    let named := match lookup (argKey p.name) ev with
      | some w => pyEq val w
      | none => false
    let pos := match lookup (.pos idx) ev with
      | some w => pyEq val w
      | none => false
    let dflt := !has (argKey p.name) ev && !has (.pos idx) ev &&
      (match p.dflt with
       | some e => pyEq val (eval [] [] e)
       | none => false)
    .ok (named || pos || dflt)

/-- the loop over `enumerate(state.flow_configs[flow_id].parameters)`; `break` at the first parameter
    that does not match -/
def sameParams (ev args : Ctx) : List Param → Nat → Except Err Bool
  | [], _ => .ok true
  | p :: ps, idx =>
    match paramMatches ev args idx p with
    | .error e => .error e
    | .ok false => .ok false
    | .ok true => sameParams ev args ps (idx + 1)

/-- the loop over `state.flow_id_states[flow_id]`: index (counted from `i`) of the first reference
    instance whose parameters are the event's, or None -/
def refActivated (params : List Param) (ev : Ctx) : List ActInst → Nat → Except Err (Option Nat)
  | [], _ => .ok none
  | a :: rest, i =>
    if !isReference a then refActivated params ev rest (i + 1)
    else match sameParams ev a.arguments params 0 with
      | .error e => .error e
      | .ok true => .ok (some i)
      | .ok false => refActivated params ev rest (i + 1)

/-! ### the StartFlow branch of `_process_internal_events_without_default_matchers` -/

/-- what the branch reads of `state.flow_states[event.arguments["source_flow_instance_uid"]]` -/
structure Source where
  flowId : String
  /-- `_is_done_flow(source_flow_state)` -/
  done : Bool
  activated : Nat
  deriving Repr, Inhabited

inductive Decision where
  /-- the requesting flow is gone (or, for a restart, deactivated): nothing is started -/
  | ignored
  /-- served by the running activation `idx`: `activated += 1`, listed as a child of the caller,
      `FlowStarted` of that instance pushed with the call's `flow_instance_uid` -/
  | reuse (idx : Nat)
  /-- `add_new_flow_instance(create_flow_instance(..))`; `asChildOf = some idx`: the restart of an
      activated flow becomes a child of its reference instance -/
  | create (asChildOf : Option Nat)
  deriving DecidableEq, Repr, Inhabited

/-- `insts = none`: `flow_id not in state.flow_id_states` -/
def startDecision (flowId : String) (params : List Param) (ev : Ctx) (insts : Option (List ActInst)) (src : Source) :
    Except Err Decision :=
  let act := truthy ((lookup (.name "activated") ev).getD .none)
  let started : Except Err (Option Nat) :=
    match act, insts with
    | true, some l => refActivated params ev l 0
    | _, _ => .ok none
  match started with
  | .error e => .error e
  | .ok st =>
    let child := flowId == src.flowId
    let restart := child && act
    if (src.done && !restart) || (restart && src.activated == 0) then .ok .ignored
    else match st with
      | some i => if !child then .ok (.reuse i) else .ok (.create (some i))
      | none => .ok (.create none)

/-! ### a history of `activate` calls of one flow -/

/-- one `activate f(..)` statement reached by a live flow other than `f`: the user-written arguments
    evaluated in the caller, the number of positionals, the uid the expansion made up, the caller -/
structure ActCall where
  ua : Ctx
  k : Nat
  uid : Nat
  caller : Nat
  deriving Repr, Inhabited

/-- `started_instance.activated = started_instance.activated + 1` -/
def bump : Nat → List ActInst → List ActInst
  | _, [] => []
  | 0, a :: r => { a with activated := a.activated + 1 } :: r
  | j + 1, a :: r => a :: bump j r

/-- what the StartFlow event of one `activate` call does to `state.flow_id_states[flow]`: nothing
    (ignored), one counter bumped (served by a running activation), or a new instance appended — the
    one `create_flow_instance` builds from the event; after `_start_flow` it is activated once and its
    parent is the (live, different) calling flow. -/
def activateStepEv (flow : String) (params rets : List Param) (src : Source) (l : List ActInst) (ev : Ctx) :
    Except Err (List ActInst) :=
  match startDecision flow params ev (some l) src with
  | .error e => .error e
  | .ok .ignored => .ok l
  | .ok (.reuse j) => .ok (bump j l)
  | .ok (.create _) =>
    match createFlowInstance flow params rets ev with
    | .error e => .error e
    | .ok f0 => .ok (l ++ [{ activated := 1, parentAlive := true, parentSameFlow := false, arguments := f0.arguments }])

def activateStep (flow : String) (params rets : List Param) (src : Source) (l : List ActInst) (c : ActCall) :
    Except Err (List ActInst) :=
  activateStepEv flow params rets src l (startArgs c.ua .activate flow c.uid c.caller)

def activateAll (flow : String) (params rets : List Param) (src : Source) : List ActInst → List ActCall → Except Err (List ActInst)
  | l, [] => .ok l
  | l, c :: cs =>
    match activateStep flow params rets src l c with
    | .error e => .error e
    | .ok l' => activateAll flow params rets src l' cs

end NemoVerif.Bind
