/-
  C01–C03 — the *shape* of the shipped rail-running flows, as data.

  `harness/translate/c01.py` parses `rails/llm/llm_flows.co`, `colang/v2_x/library/guardrails.co`
  and the self-check rail flows with the repo's own parsers on every run and dumps the statements of
  the flows the `Pipeline` model mirrors into `Generated/C01.lean`, using the types below.  The
  Boolean checkers defined here are evaluated by the kernel on that data (`Lemmas/PipelineTie.lean`)
  — these are tests of the tie between the model's structure and the current source, not the
  property proof — and two of them *feed* the model: `resetsFlagOnFailure` (does `guardrails.co`
  reset `$output_rails_in_progress` when the output rails fail?) and `excBranchStops` (does a rail
  flow stop after raising its rail exception?).
-/
namespace NemoVerif.FlowShape

/-- A compiled Colang 1.0 flow element (after the repo's `_extract_elements`). -/
inductive V1El where
  | matchEv (name : String)                    -- wait for an event
  | setVar (var : String) (expr : String)
  | ifE (expr : String) (nextElse : Int)
  | whileE (expr : String)
  | createEvent (name : String) (arg : String) -- `create event X(k=v)`; arg = "k=v,…"
  | callFlow (name : String)                   -- `do …`
  | execute (action : String) (resultKey : String)
  | utter (intent : String)                    -- `bot …` (incl. `stop`)
  | jump (off : Int)
  | other (tag : String)
  deriving DecidableEq, Repr

/-- A Colang 2.x flow statement with its nesting depth (pre-order dump of the parsed flow). -/
inductive V2El where
  | matchSpec (name : String)
  | globalVar (name : String)
  | assign (var : String) (expr : String)
  | ifE (expr : String)
  | elseE
  | whenFlow (name : String)       -- `when <flow> …`
  | whenElse                       -- the `else` of a `when`
  | await (name : String) (arg : String) (resultVar : String)
  | send (name : String)
  | abort
  | other (tag : String)
  deriving DecidableEq, Repr

structure V2Line where
  depth : Nat
  el : V2El
  deriving DecidableEq, Repr

/-! ### generic list helpers -/

def findIdx? {α : Type} (p : α → Bool) : List α → Nat → Option Nat
  | [], _ => none
  | x :: xs, i => if p x then some i else findIdx? p xs (i + 1)

def countP {α : Type} (p : α → Bool) : List α → Nat
  | [] => 0
  | x :: xs => (if p x then 1 else 0) + countP p xs

def allIdx {α : Type} (p : α → Bool) (q : Nat → Bool) : List α → Nat → Bool
  | [], _ => true
  | x :: xs, i => (if p x then q i else true) && allIdx p q xs (i + 1)

/-! ### Colang 1.0 checks -/

def isCallFlow (n : String) : V1El → Bool
  | .callFlow x => x == n
  | _ => false

def isCreate (n : String) : V1El → Bool
  | .createEvent x _ => x == n
  | _ => false

def isCreateWith (n a : String) : V1El → Bool
  | .createEvent x y => x == n && y == a
  | _ => false

def isSet (v e : String) : V1El → Bool
  | .setVar x y => x == v && y == e
  | _ => false

def isWhile (e : String) : V1El → Bool
  | .whileE x => x == e
  | _ => false

def isExecute (a : String) : V1El → Bool
  | .execute x _ => x == a
  | _ => false

def isIf (e : String) : V1El → Bool
  | .ifE x _ => x == e
  | _ => false

def isJump : V1El → Bool
  | .jump _ => true
  | _ => false

/-- `p` occurs, exactly once, and every `q` element comes strictly after it. -/
def onceBeforeAll (p q : V1El → Bool) (prog : List V1El) : Bool :=
  countP p prog == 1 &&
  match findIdx? p prog 0 with
  | some i => allIdx q (fun j => decide (i < j)) prog 0 && countP q prog ≥ 1
  | none => false

/-- `process user input`: `$user_message` is set from the utterance, `do run input rails` happens once
    and every `create event UserMessage` comes after it and carries `text=$user_message`. -/
def processUserInputOk (prog : List V1El) : Bool :=
  onceBeforeAll (isCallFlow "run input rails") (isCreate "UserMessage") prog &&
  countP (isCreate "UserMessage") prog == countP (isCreateWith "UserMessage" "text=$user_message") prog &&
  countP (isSet "user_message" "$event[\"final_transcript\"]") prog == 1 &&
  (prog.any fun e => isIf "$config.rails.input.flows" e)

/-- `run input rails` / `run output rails`: `$i = 0`; `while $i < len($flows)`; inside the loop the rail
    `$flows[$i]` is called exactly once and `$i = $i + 1` exactly once; the loop ends with the jump back. -/
def railLoopOk (flowsVar cfgExpr : String) (prog : List V1El) : Bool :=
  countP (isSet "i" "0") prog == 1 &&
  countP (isSet flowsVar cfgExpr) prog == 1 &&
  countP (isWhile ("$i < len($" ++ flowsVar ++ ")")) prog == 1 &&
  countP (isCallFlow ("$" ++ flowsVar ++ "[$i]")) prog == 1 &&
  countP (isSet "i" "$i + 1") prog == 1 &&
  countP (fun e => match e with | .setVar "i" _ => true | _ => false) prog == 2 &&
  countP isJump prog == 1 &&
  match findIdx? (isSet "i" "0") prog 0, findIdx? (isWhile ("$i < len($" ++ flowsVar ++ ")")) prog 0,
        findIdx? (isCallFlow ("$" ++ flowsVar ++ "[$i]")) prog 0, findIdx? (isSet "i" "$i + 1") prog 0,
        findIdx? isJump prog 0 with
  | some a, some w, some c, some inc, some j => decide (a < w ∧ w < c ∧ c < inc ∧ inc < j)
  | _, _, _, _, _ => false

/-- `process bot message`: `$bot_message = $event.text`; `if $skip_output_rails` is immediately followed by
    the reset `$skip_output_rails = False`; `do run output rails` precedes the only
    `create event StartUtteranceBotAction`, which utters `$bot_message`. -/
def processBotMessageOk (prog : List V1El) : Bool :=
  onceBeforeAll (isCallFlow "run output rails") (isCreate "StartUtteranceBotAction") prog &&
  countP (isCreate "StartUtteranceBotAction") prog == 1 &&
  countP (isCreateWith "StartUtteranceBotAction" "script=$bot_message") prog == 1 &&
  countP (isSet "bot_message" "$event.text") prog == 1 &&
  (prog.any fun e => isIf "$config.rails.output.flows" e) &&
  match findIdx? (isIf "$skip_output_rails") prog 0 with
  | some i => prog[i + 1]? == some (.setVar "skip_output_rails" "False") &&
      (match findIdx? (isCallFlow "run output rails") prog 0 with | some c => decide (i < c) | none => false)
  | none => false

/-- The two-context model (`Models/PipelineCtx.lean`) relies on the variable being (re)assigned by a `set` element —
    which `slide` publishes as a `ContextUpdate` — BEFORE the rails of the turn run: `$var = expr` occurs exactly
    once, it is the element right after the flow's first event match, and it precedes `do <rails flow>`. -/
def setFirstThenCall (var expr flow : String) (prog : List V1El) : Bool :=
  countP (fun e => match e with | .setVar x _ => x == var | _ => false) prog == 1 &&
  match findIdx? (fun e => match e with | .matchEv _ => true | _ => false) prog 0,
        findIdx? (isSet var expr) prog 0, findIdx? (isCallFlow flow) prog 0 with
  | some m, some a, some c => decide (a = m + 1 ∧ a < c)
  | _, _, _ => false

/-- The rail loops themselves never assign the message variables (only the rail flows they call may). -/
def noSetOf (vars : List String) (prog : List V1El) : Bool :=
  prog.all fun e => match e with
    | .setVar x _ => !vars.contains x
    | .execute _ k => !vars.contains k
    | _ => true

/-- Everything between `do run output rails` and the utterance is marker events only: no `set`, no action with a
    result key, no other flow call — so the script that is uttered is the variable as the rails left it. -/
def onlyMarkersBetween (flow evName : String) (prog : List V1El) : Bool :=
  match findIdx? (isCallFlow flow) prog 0, findIdx? (isCreate evName) prog 0 with
  | some c, some u =>
    decide (c < u) &&
    ((prog.take u).drop (c + 1)).all fun e => match e with
      | .createEvent _ _ => true
      | .matchEv _ => true
      | .jump _ => true
      | _ => false
  | _, _ => false

/-- `generate bot message`: `retrieve_relevant_chunks` is executed before `generate_bot_message`. -/
def generateBotMessageOk (prog : List V1El) : Bool :=
  match findIdx? (isExecute "retrieve_relevant_chunks") prog 0, findIdx? (isExecute "generate_bot_message") prog 0 with
  | some a, some b => decide (a < b)
  | _, _ => false

/-- `run dialog rails` waits for `UserMessage` before `generate user intent`. -/
def runDialogRailsOk (prog : List V1El) : Bool :=
  match findIdx? (fun e => e == .matchEv "UserMessage") prog 0, findIdx? (isCallFlow "generate user intent") prog 0 with
  | some a, some b => decide (a < b)
  | _, _ => false

/-- A 1.0 rail flow of the self-check shape: after `create event …Exception` control reaches `bot stop`
    (directly, or through the `jump` that leaves the `if`). -/
def excBranchStops (excName : String) (prog : List V1El) : Bool :=
  match findIdx? (isCreate excName) prog 0 with
  | none => false
  | some i =>
    match prog[i + 1]? with
    | some (.jump off) => prog[((i + 1 : Nat) + off).toNat]? == some (.utter "stop")
    | some (.utter "stop") => true
    | _ => false

/-- the non-exception branch: `bot refuse to respond` is directly followed by `bot stop`. -/
def refuseBranchStops (prog : List V1El) : Bool :=
  match findIdx? (fun e => e == .utter "refuse to respond") prog 0 with
  | some i => prog[i + 1]? == some (.utter "stop")
  | none => false

/-! ### Colang 2.x checks -/

def lineIs (p : V2El → Bool) (l : V2Line) : Bool := p l.el

def isAwait (n : String) : V2El → Bool
  | .await x _ _ => x == n
  | _ => false

def isAssign (v e : String) : V2El → Bool
  | .assign x y => x == v && y == e
  | _ => false

/-- `_user_said` (and the two sibling overrides): after the user utterance was matched, `$text` is
    assigned from the event (`$event.final_transcript` / `$event.interim_transcript`) at TOP level — not
    inside a branch, so also when the waiting flow passed a literal or a regular expression —, then
    `$user_message = $text`, and the last statement awaits `run input rails $user_message`. -/
def userSaidOk (prog : List V2Line) : Bool :=
  (match prog.getLast? with
   | some l => l.depth == 0 && l.el == .await "run input rails" "$0=$user_message" ""
   | none => false) &&
  (prog.any fun l => match l.el with | .matchSpec "UtteranceUserAction" => true | .matchSpec "UnhandledEvent" => true | _ => false) &&
  match findIdx? (fun l => l.depth == 0 &&
            (l.el == .assign "text" "$event.final_transcript" || l.el == .assign "text" "$event.interim_transcript")) prog 0,
        findIdx? (fun l => l.depth == 0 && l.el == .assign "user_message" "$text") prog 0 with
  | some a, some b =>
    decide (a < b) &&
    -- no other assignment to `$text` / `$user_message` after them
    countP (fun l => match l.el with | .assign "text" _ => true | _ => false) prog == 1 &&
    countP (fun l => match l.el with | .assign "user_message" _ => true | _ => false) prog == 1
  | _, _ => false

/-- `_bot_say`: the only `await UtteranceBotAction` is the last top-level statement, carries
    `script=$text`, and is preceded by `if not $output_rails_in_progress` / `await run output rails $text`. -/
def botSayOk (prog : List V2Line) : Bool :=
  countP (lineIs (isAwait "UtteranceBotAction")) prog == 1 &&
  (match prog.getLast? with
   | some l => l.depth == 0 && l.el == .await "UtteranceBotAction" "script=$text" ""
   | none => false) &&
  match findIdx? (fun l => l.depth == 0 && l.el == .ifE "not $output_rails_in_progress") prog 0 with
  | some i =>
    (match prog[i + 1]? with
     | some l => l.depth == 1 && (l.el == .await "run output rails" "$0=$text" "" || l.el == .whenFlow "run output rails")
     | none => false)
  | none => false

/-- `run output rails`: the flag is raised before the rails are awaited and lowered by the last
    top-level statement. -/
def runOutputRailsOk (prog : List V2Line) : Bool :=
  (match prog.getLast? with
   | some l => l.depth == 0 && l.el == .assign "output_rails_in_progress" "False"
   | none => false) &&
  match findIdx? (lineIs (isAssign "output_rails_in_progress" "True")) prog 0,
        findIdx? (fun l => isAwait "output rails" l.el || l.el == .whenFlow "output rails") prog 0 with
  | some a, some b => decide (a < b)
  | _, _ => false

/-- Lines of the block that follows position `i` (all deeper than `d`, contiguous). -/
def blockAfter (d : Nat) : List V2Line → List V2Line
  | [] => []
  | l :: ls => if l.depth > d then l :: blockAfter d ls else []

/-- Does the flow reset `$output_rails_in_progress` in the failure (`else`) branch of a `when` over the
    output rails?  (The shape of the repair in `fixes/C02-v2-output-rails-flag.diff`.) -/
def resetsFlagOnFailure : List V2Line → Bool
  | [] => false
  | l :: ls =>
    (l.el == .whenElse && (blockAfter l.depth ls).any (lineIs (isAssign "output_rails_in_progress" "False")))
    || resetsFlagOnFailure ls

/-- Does the `_user_said`-style override reset `$output_rails_in_progress` at top level, before it awaits the input
    rails?  (The shape of the repair in `fixes/C02-v2-output-rails-flag-new-user-message.diff`: whatever an earlier turn
    left in a live State object — e.g. a Python exception tearing through `run output rails` — a new user message
    starts with the output rails NOT in progress.) -/
def resetsFlagOnUserMessage : List V2Line → Bool
  | [] => false
  | l :: ls =>
    if lineIs (isAwait "run input rails") l then false
    else (l.depth == 0 && lineIs (isAssign "output_rails_in_progress" "False") l) || resetsFlagOnUserMessage ls

/-- A 2.x rail flow of the self-check shape: the `abort` that follows the exception `send` is at the
    level of `if not $allowed` (depth 1), not nested under the `else` (depth 2). -/
def abortAtIfLevel (prog : List V2Line) : Bool :=
  match findIdx? (fun l => match l.el with | .send _ => true | _ => false) prog 0 with
  | none => false
  | some i => (prog.drop i).any fun l => l.el == .abort && l.depth + 1 == (prog[i]?.map (·.depth)).getD 0

end NemoVerif.FlowShape
