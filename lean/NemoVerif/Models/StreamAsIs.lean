/-
  C18 — model of `StreamingHandler` AS IT IS in the unpatched tree (nemoguardrails/streaming.py),
  used for the kernel-checked counterexamples (`Theorems/C18.lean :: as_is_counterexample_*`) and,
  on the unpatched tree, as a second reference of the differential check (the implementation must
  behave like this model wherever it departs from the repaired one).

  Differences from `Models/Stream.lean` (= the three edits of fixes/C18-streaming-chunk-invariance.diff):
    * `pushWith`: the remainder of the prefix-completing chunk goes straight to `_process`;
    * `processA`: stop sequences are tried in LIST order, the text is cut with `split(stop)[0]`, and
      the part not yet delivered is sent by RE-ENTERING `push_chunk(None)` (which appends it to
      `completion` again and may find a stop sequence in the doubled text, re-entering once more:
      `fuel` bounds the nesting depth, `overflow` records that it was exhausted);
    * the suffix is removed from the held-back text before the stop search at the end of the stream.
-/
import NemoVerif.Models.Stream
namespace NemoVerif.StreamAsIs
open NemoVerif.Stream

structure StA where
  pfx : Str
  cur : Str
  completion : Str
  out : List (Option Str)
  finished : Bool
  overflow : Bool
  deriving Repr, DecidableEq

def initA (cfg : Cfg) : StA := { pfx := cfg.pfx, cur := [], completion := [], out := [], finished := false, overflow := false }

def forwardA (s : StA) (chunk : Option Str) : StA := { s with out := s.out ++ [chunk] }

def deliveredA (s : StA) : Str := (s.out.map (fun o => o.getD [])).flatten

/-- `cur[: -len(suffix)]` if `cur and suffix and cur.endswith(suffix)` -/
def stripAtEnd (cfg : Cfg) (cur : Str) : Str :=
  if cur ≠ [] ∧ cfg.suffix ≠ [] ∧ cfg.suffix.isSuffixOf cur then cur.take (cur.length - cfg.suffix.length) else cur

/-- `push_chunk(chunk)`, with `_process` passed in (the two methods call each other) -/
def pushWith (proc : StA → Option Str → StA) (cfg : Cfg) (s : StA) (chunk : Option Str) : StA :=
  if s.finished then s
  else if s.pfx ≠ [] then
    let cur := s.cur ++ chunk.getD []
    if s.pfx.isPrefixOf cur then
      let rest := cur.drop s.pfx.length
      let s1 : StA := { s with cur := rest, pfx := [] }
      if rest ≠ [] then { proc s1 (some rest) with cur := [] } else s1
    else { s with cur := cur }
  else if cfg.suffix ≠ [] ∨ cfg.stop ≠ [] then
    let cur := s.cur ++ chunk.getD []
    if holds (pats cfg) cur ∧ ¬ isEnd chunk then { s with cur := cur }
    else
      let cur1 := if isEnd chunk then stripAtEnd cfg cur else cur
      { proc { s with cur := cur1 } (some cur1) with cur := [] }
  else proc s chunk

/-- `_process(chunk)`, with the re-entrant `push_chunk` passed in -/
def processWith (reenter : StA → Option Str → StA) (cfg : Cfg) (s : StA) (chunk : Option Str) : StA :=
  match chunk with
  | none => { forwardA s none with finished := true }
  | some c =>
    let prev := s.completion
    let comp := prev ++ c
    match cfg.stop.find? (fun p => (cutStop [p] comp).isSome) with
    | some p =>
      let cut := (cutStop [p] comp).getD comp
      let s1 : StA := { s with completion := cut }
      let s2 := if cut.length > prev.length then reenter { s1 with cur := cut.drop prev.length } none else s1
      { s2 with finished := true }
    | none =>
      let s1 := forwardA { s with completion := comp } (some c)
      if c = [] then { s1 with finished := true } else s1

/-- `_process(chunk)`; `fuel` = remaining nesting depth of the re-entrant `push_chunk(None)` -/
def processA (cfg : Cfg) : Nat → StA → Option Str → StA
  | 0 => processWith (fun s _ => { s with overflow := true }) cfg
  | f + 1 => processWith (pushWith (processA cfg f) cfg) cfg

def pushA (cfg : Cfg) (fuel : Nat) (s : StA) (chunk : Option Str) : StA := pushWith (processA cfg fuel) cfg s chunk

/-- `on_llm_end` -/
def endLlmA (cfg : Cfg) (fuel : Nat) (s : StA) : StA :=
  let s1 :=
    if s.cur ≠ [] then
      let cur1 := if cfg.suffix ≠ [] ∧ cfg.suffix.isSuffixOf s.cur then s.cur.take (s.cur.length - cfg.suffix.length) else s.cur
      { processA cfg fuel { s with cur := cur1 } (some cur1) with cur := [] }
    else s
  { processA cfg fuel s1 (some []) with pfx := [] }

def finishA (cfg : Cfg) (fuel : Nat) (s : StA) : EndProto → StA
  | .empty => pushA cfg fuel s (some [])
  | .none => pushA cfg fuel s none
  | .llmEnd => endLlmA cfg fuel s
  | .emptyLlmEnd => endLlmA cfg fuel (pushA cfg fuel s (some []))

def runA (cfg : Cfg) (fuel : Nat) (cs : List Str) (e : EndProto) : StA :=
  finishA cfg fuel (cs.foldl (fun s c => pushA cfg fuel s (some c)) (initA cfg)) e

end NemoVerif.StreamAsIs
