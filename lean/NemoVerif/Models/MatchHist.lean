/-
  C04 — a WAITING head over a history of steps.

  `_compute_event_matching_score(state, flow_state, head, event)` builds the reference event of the head's `match`
  statement with `get_event_from_element(state, flow_state, element)` EVERY time an event is compared: the statement's
  argument expressions are evaluated in `_get_eval_context(state, flow_state)` as it is when the event is processed
  (flow context, linked `global`s from `state.context`, attributes of referenced actions / flows).  The main loop of
  `run_to_completion` looks the candidates up by event name (`_get_all_head_candidates`), advances the heads with a
  positive score, aborts the flow of a head with a negative score (no catch label) or with an error raised while
  matching, and leaves the others where they are.

  Here: `Stmt` = the statement as a FUNCTION of the environment (any expression semantics; `none` = the evaluation
  raises), `Step` = the environment changes while the head does not move / an event is processed, `stepHead` = one
  iteration of the main loop seen from one head, `runHist` = the outcomes over a whole history.

  `Tm` is the concrete expression language the harness generates (`$g`, `$g + literal`, list / dict displays around
  them); the theorems do not depend on it.
-/
import NemoVerif.Models.Match

namespace NemoVerif.Match
open NemoVerif
open NemoVerif.Generated.C04

/-- the state a waiting statement can read: value of variable `i` -/
abbrev Env := List Val

/-- the evaluated statement as a function of the environment it is evaluated in (`none`: evaluation raises) -/
abbrev Stmt := Env → Option MatchStmt

inductive Step where
  | set (i : Nat) (v : Val)      -- something the statement reads changes; the head does not move
  | ev (e : Ev)                  -- an event is processed by the main loop
  deriving Inhabited

/-- a head standing on a `match` statement -/
structure Head where
  stmt : Stmt
  evName : String                       -- name the head is registered under (`get_event_name_from_element`, at arrival)
  prio : Option (Int × Nat) := none     -- `flow_state.priority` (none: falsy)
  loop : Bool := false                  -- the statement is the first of a `while True` body that leads back to it
  waiting : Bool := true                -- false: the head moved on for good (or its flow was aborted)

inductive Outcome where
  | idle      -- the head stays where it is
  | hit       -- positive score: the head advances
  | fail      -- negative score (mismatch) or an error while matching: the flow of the head is aborted
  deriving DecidableEq, Repr, Inhabited

/-- `_get_all_head_candidates`: heads registered under the event's name, plus the FlowStarted/Finished/Failed cross
    candidates -/
def isCandidate (registered evName : String) : Bool :=
  registered == evName
  || (evName == evFlowFinished && (registered == evFlowStarted || registered == evFlowFailed))
  || (evName == evFlowFailed && (registered == evFlowStarted || registered == evFlowFinished))

/-- `_compute_event_matching_score`: the reference event is built from the statement evaluated NOW. -/
def headScore (rx : Rx) (sa : String → Option (List (String × Val))) (env : Env) (h : Head) (e : Ev) : Option EvRes :=
  match h.stmt env with
  | none => none
  | some ms =>
    match refEvent ms with
    | none => none
    | some ref => some (matchingScore rx sa e ref h.prio)

def outcomeOf : Option EvRes → Outcome
  | some (.pos _ _) => .hit
  | some .zero => .idle
  | some .mismatch => .fail
  | some .err => .fail
  | none => .fail

/-- one step of the main loop, seen from one head -/
def stepHead (rx : Rx) (sa : String → Option (List (String × Val))) (env : Env) (h : Head) : Step → Env × Head × Outcome
  | .set i v => (env.set i v, h, .idle)
  | .ev e =>
    if !h.waiting || !isCandidate h.evName e.name then (env, h, .idle)
    else match outcomeOf (headScore rx sa env h e) with
      | .hit => (env, { h with waiting := h.loop }, .hit)
      | .fail => (env, { h with waiting := false }, .fail)
      | .idle => (env, h, .idle)

def runState (rx : Rx) (sa : String → Option (List (String × Val))) (env : Env) (h : Head) : List Step → Env × Head
  | [] => (env, h)
  | s :: rest => let r := stepHead rx sa env h s; runState rx sa r.1 r.2.1 rest

def runHist (rx : Rx) (sa : String → Option (List (String × Val))) (env : Env) (h : Head) : List Step → List Outcome
  | [] => []
  | s :: rest => let r := stepHead rx sa env h s; r.2.2 :: runHist rx sa r.1 r.2.1 rest

/-- the environment after a history: only the `set` steps count -/
def envAfter (env : Env) : List Step → Env
  | [] => env
  | .set i v :: rest => envAfter (env.set i v) rest
  | .ev _ :: rest => envAfter env rest

/-- what happens to head `h` on event `e` after the history `pre` -/
def outcomeAfter (rx : Rx) (sa : String → Option (List (String × Val))) (env : Env) (h : Head) (pre : List Step) (e : Ev) :
    Outcome :=
  (stepHead rx sa (runState rx sa env h pre).1 (runState rx sa env h pre).2 (.ev e)).2.2

/-- the `set` steps of a history -/
def setsOf : List Step → List Step
  | [] => []
  | .set i v :: rest => .set i v :: setsOf rest
  | .ev _ :: rest => setsOf rest

/-! ### The variant that keeps the evaluated reference event per head (what the code must NOT do) -/

/-- like `stepHead`, but the reference event is evaluated at the first comparison and kept until the head moves -/
def stepHeadCached (rx : Rx) (sa : String → Option (List (String × Val))) (env : Env) (h : Head) (cache : Option Ev) :
    Step → Env × Head × Option Ev × Outcome
  | .set i v => (env.set i v, h, cache, .idle)
  | .ev e =>
    if !h.waiting || !isCandidate h.evName e.name then (env, h, cache, .idle)
    else
      let ref? : Option Ev := match cache with
        | some r => some r
        | none => (h.stmt env).bind refEvent
      match outcomeOf (ref?.map fun ref => matchingScore rx sa e ref h.prio) with
      | .hit => (env, { h with waiting := h.loop }, none, .hit)
      | .fail => (env, { h with waiting := false }, none, .fail)
      | .idle => (env, h, ref?, .idle)

def runHistCached (rx : Rx) (sa : String → Option (List (String × Val))) (env : Env) (h : Head) (cache : Option Ev) :
    List Step → List Outcome
  | [] => []
  | s :: rest =>
    let r := stepHeadCached rx sa env h cache s
    r.2.2.2 :: runHistCached rx sa r.1 r.2.1 r.2.2.1 rest

/-! ### The expression language of the generated programs -/

inductive Tm where
  | lit (v : Val)
  | var (i : Nat)                         -- `$g<i>` / `$h<i>.val` / `$a<i>.v`
  | cat (i : Nat) (lit : Val)             -- `$g<i> + <literal>` (str + str, int + int; anything else raises)
  | list (ts : List Tm)
  | dict (kvs : List (String × Tm))
  deriving Inhabited

mutual
def Tm.eval (env : Env) : Tm → Option Val
  | .lit v => some v
  | .var i => env[i]?
  | .cat i l =>
    match env[i]?, l with
    | some (.str a), .str b => some (.str (a ++ b))
    | some (.int a), .int b => some (.int (a + b))
    | _, _ => none
  | .list ts => (Tm.evalList env ts).map Val.list
  | .dict kvs => (Tm.evalKvs env kvs).map Val.dict
def Tm.evalList (env : Env) : List Tm → Option (List Val)
  | [] => some []
  | t :: ts =>
    match Tm.eval env t, Tm.evalList env ts with
    | some v, some vs => some (v :: vs)
    | _, _ => none
def Tm.evalKvs (env : Env) : List (String × Tm) → Option (List (String × Val))
  | [] => some []
  | (k, t) :: rest =>
    match Tm.eval env t, Tm.evalKvs env rest with
    | some v, some vs => some ((k, v) :: vs)
    | _, _ => none
end

/-- `match Name(k1=<tm1>, ..)` (a bare event statement) with extra flow-local parameters appended (`t=$tag`) -/
def bareStmt (name : String) (isLower : Bool) (params : List (String × Tm)) (extra : List (String × Val)) : Stmt :=
  fun env => (Tm.evalKvs env params).map fun ps => MatchStmt.bare name isLower (ps ++ extra)

end NemoVerif.Match
