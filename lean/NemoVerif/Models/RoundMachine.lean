/-
  C10 T2 — `RoundMachine`: an abstraction of ONE call of `run_to_completion` (one processing round) as a
  token machine, on which whole-round termination is proved with an explicit bound.

  Tokens (a multiset, kept as a list):
    * `ev k`      — an event in `state.internal_events`; kinds: `start g` (StartFlow of flow `g`), `unhandled`
                    (UnhandledEvent), `plain` (everything else: FlowStarted/Finished/Failed, Finish/StopFlow, log events,
                    ColangError, the external event itself);
    * `head f u b` — a head of an instance of flow `f` at element `u`; `b` = the instance has been STARTED (it passed a
                    waiting statement that counts for `all_heads_are_waiting`) — only then `_abort_flow`/`_finish_flow`
                    restart an activated flow (immediate-finish guard; restart guards of fixes/C10-activated-*.diff);
    * `xhead f u b` — a head that was parked on an EXTERNAL wait when the round began: the external event may wake it (once).

  A step consumes one token and replaces it by one of its `tokOutcomes`:
    * popping an event: a `start g` creates the head of the new instance behind its own StartFlow match (`head g 1 false`);
      every popped event except UnhandledEvent may push one UnhandledEvent;
    * a head acts: one iteration of `slide` along an edge of the sliding graph (`SlideGraph.succs`), pushing the internal
      events its element sends (`emit`); a fork creates all child heads; a head parked on a wait that INTERNAL events can
      serve (`int`, `intTagged`), or on an action `send` (resolved by `_resolve_action_conflicts` in the same round) resumes
      behind it or behind a catch label (pattern failure); a head on an external wait does not move (unless `xhead`);
    * a head dies at any time (flow finished / aborted / merged away), pushing up to `maxTerminal` plain events and — only in
      mode `b = true` of a restartable (activated) flow — the restart `start f`.
  The machine over-approximates: it does not look at event arguments, conditions or who waits for what.

  `Pot` = a potential per head node; `potOk` is the VERIFIED check "every outcome of every token costs at least one unit of
  potential"; `buildPot` the un-verified search (least fix-point by sweeps); `roundRanked P = potOk P (buildPot P)`.
  Existence of a potential is the formal content of the hypotheses "every loop contains a waiting statement"
  (`SlideAcyclic`), "no cycle of flows that start / await / activate each other — or restart themselves — before a statement
  that waits for an external event" (`StartAcyclic`, proved from `potOk`) and "finitely many instances creatable per event".
-/
import NemoVerif.Models.SlideGraph

namespace NemoVerif.RoundMachine
open NemoVerif.SlideGraph

inductive EvKind where
  | start (g : Nat)
  | plain
  | unhandled
  deriving DecidableEq, Repr, Inhabited

inductive WaitKind where
  /-- match of an event that only arrives from outside (user/action events) -/
  | ext
  /-- internal match tagged `"internal"` by the expander (the FlowStarted match of `start`): does not make the flow STARTED -/
  | intTagged
  /-- match of an event internal events can serve (FlowFinished/FlowFailed/…, ColangError, dynamic flow references) -/
  | int
  /-- action `send`: the head advances after `_resolve_action_conflicts` in the same round -/
  | action
  deriving DecidableEq, Repr, Inhabited

structure RFlow where
  ctl : Prog
  /-- per element: internal events pushed when it is executed (`send` of an internal event) -/
  emit : List (List EvKind)
  /-- per element: kind of wait (meaningful for `Elem.wait`) -/
  wk : List WaitKind
  /-- the flow can be activated (`@active` or target of an `activate`) -/
  restartable : Bool
  /-- per element: the catch labels that can be innermost on a head's catch stack there (from the stack-sensitive
      state exploration of `SlideGraph`; the replay of real rounds checks every jump actually taken against it) -/
  catchAt : List (List Nat) := []
  deriving Repr, Inhabited

abbrev RProg := List RFlow

inductive Token where
  | ev (k : EvKind)
  | head (f u : Nat) (b : Bool)
  | xhead (f u : Nat) (b : Bool)
  deriving DecidableEq, Repr, Inhabited

/-- FlowStarted, FlowFinished/FlowFailed, two intent/action log events -/
def maxTerminal : Nat := 4

def plains (n : Nat) : List Token := List.replicate n (Token.ev .plain)

/-- what a dying head may push -/
def dieSets (fl : RFlow) (f : Nat) (b : Bool) : List (List Token) :=
  let ps := (List.range (maxTerminal + 1)).map plains
  if fl.restartable && b then ps ++ ps.map (fun l => Token.ev (.start f) :: l) else ps

/-- a parked head resumes behind its wait, or behind a catch label after a pattern failure -/
def resumeOut (fl : RFlow) (f u : Nat) (b : Bool) : List (List Token) :=
  [Token.head f (u + 1) b] :: (fl.catchAt.getD u []).map fun t => [Token.head f (t + 1) b]

/-- everything a head of flow `f` at element `u` in mode `b` can do in one step (`woken`: it is an `xhead`) -/
def headOutcomes (P : RProg) (f u : Nat) (b woken : Bool) : List (List Token) :=
  match P[f]? with
  | none => [[]]
  | some fl =>
    dieSets fl f b ++
    (match fl.ctl[u]? with
     | none => []
     | some (.fork ts) => [ts.map fun t => Token.head f (t + 1) b]
     | some (.wait _) =>
       (match fl.wk.getD u .ext with
        | .ext => if woken then resumeOut fl f u true else []
        | .intTagged => resumeOut fl f u b
        | .int => resumeOut fl f u true
        | .action => [[Token.head f (u + 1) b]])
     | some .waitHeads => [[Token.head f (u + 1) true]]
     | some .restartLabel =>
       [[Token.head f (u + 1) b]] ++ (if b then [[Token.ev (.start f), Token.head f (u + 1) b]] else [])
     | some .abort =>
       (fl.ctl.length :: (fl.catchAt.getD u []).map (· + 1)).map fun v => [Token.head f v b]
     | some _ => (succs fl.ctl u).map fun v => (fl.emit.getD u []).map Token.ev ++ [Token.head f v b])

def popOutcomes : EvKind → List (List Token)
  | .start g =>
    -- the `plain` is the FlowStarted announcement of the new instance, reserved when the instance is created
    [[Token.head g 1 false, Token.ev .plain], [Token.head g 1 false, Token.ev .plain, Token.ev .unhandled],
     [Token.head g 1 false], [Token.head g 1 false, Token.ev .unhandled], [], [Token.ev .unhandled]]
  | .plain => [[], [Token.ev .unhandled]]
  | .unhandled => [[]]

def tokOutcomes (P : RProg) : Token → List (List Token)
  | .ev k => popOutcomes k
  | .head f u b => headOutcomes P f u b false
  | .xhead f u b => headOutcomes P f u b true

/-- one step of the machine: some token is replaced by one of its outcomes -/
def Step (P : RProg) (T T' : List Token) : Prop :=
  ∃ T1 tok T2 o, T = T1 ++ tok :: T2 ∧ o ∈ tokOutcomes P tok ∧ T' = T1 ++ o ++ T2

/-- runs of exactly `k` steps -/
inductive Run (P : RProg) : Nat → List Token → List Token → Prop where
  | done (T : List Token) : Run P 0 T T
  | step {k : Nat} {T T' T'' : List Token} : Step P T T' → Run P k T' T'' → Run P (k + 1) T T''

/-! ### potentials -/

/-- per flow, per element position `0 … length` (the last entry = "at or behind the end"): potential in mode false / true,
    for acting heads (`hp`) and for heads the external event may wake (`xp`) -/
structure Pot where
  hp : List (List (Nat × Nat))
  xp : List (List (Nat × Nat))
  deriving Repr, Inhabited

def flowLen (P : RProg) (f : Nat) : Nat := match P[f]? with | some fl => fl.ctl.length | none => 0

def tget (t : List (List (Nat × Nat))) (P : RProg) (f u : Nat) (b : Bool) : Nat :=
  match P[f]? with
  | none => 1
  | some _ =>
    match t[f]? with
    | none => 1
    | some row =>
      let e := row.getD (min u (flowLen P f)) (1, 1)
      if b then e.2 else e.1

def pot (P : RProg) (p : Pot) : Token → Nat
  | .ev .unhandled => 1
  | .ev .plain => 2
  | .ev (.start g) => 5 + tget p.hp P g 1 false
  | .head f u b => tget p.hp P f u b
  | .xhead f u b => tget p.xp P f u b

def sumPot (P : RProg) (p : Pot) (T : List Token) : Nat := (T.map (pot P p)).sum

/-- VERIFIED check: every outcome of every head node costs at least one unit of potential -/
def potOk (P : RProg) (p : Pot) : Bool :=
  (List.range P.length).all fun f =>
    (List.range (flowLen P f + 1)).all fun u =>
      [false, true].all fun b =>
        ((headOutcomes P f u b false).all fun o => decide (sumPot P p o + 1 ≤ tget p.hp P f u b)) &&
        ((headOutcomes P f u b true).all fun o => decide (sumPot P p o + 1 ≤ tget p.xp P f u b))

/-! ### un-verified search for a potential -/

def maxOut (P : RProg) (p : Pot) (outs : List (List Token)) : Nat :=
  outs.foldl (fun m o => max m (sumPot P p o + 1)) 1

def setEntry (t : List (List (Nat × Nat))) (f u : Nat) (b : Bool) (v : Nat) : List (List (Nat × Nat)) :=
  t.modify f fun row => row.modify u fun e => if b then (e.1, v) else (v, e.2)

/-- one sweep: flows from the last to the first, positions from the end to the start -/
def sweep (P : RProg) (p : Pot) : Pot :=
  (List.range P.length).reverse.foldl (fun p f =>
    (List.range (flowLen P f + 1)).reverse.foldl (fun p u =>
      [false, true].foldl (fun p b =>
        let p := { p with hp := setEntry p.hp f u b (maxOut P p (headOutcomes P f u b false)) }
        { p with xp := setEntry p.xp f u b (maxOut P p (headOutcomes P f u b true)) }) p) p) p

def potSize (p : Pot) : Nat := (p.hp.map fun row => (row.map fun e => e.1 + e.2).sum).sum

/-- sweeps until stable, out of rounds, or absurdly large (a cycle makes the values grow for ever) -/
def iteratePot (P : RProg) : Nat → Pot → Pot
  | 0, p => p
  | n + 1, p =>
    let p' := sweep P p
    if p'.hp == p.hp && p'.xp == p.xp then p
    else if potSize p' > 10 ^ 40 then p'
    else iteratePot P n p'

def zeroPot (P : RProg) : Pot :=
  let t := (List.range P.length).map fun f => List.replicate (flowLen P f + 1) (1, 1)
  { hp := t, xp := t }

def buildPot (P : RProg) : Pot :=
  iteratePot P ((P.map fun fl => 2 * (fl.ctl.length + 2)).sum + 4) (zeroPot P)

/-- The verified checker of the round hypotheses. -/
def roundRanked (P : RProg) : Bool := potOk P (buildPot P)

/-- B(program, state): the potential of the token multiset that represents the state at the beginning of the round -/
def roundBound (P : RProg) (p : Pot) (T : List Token) : Nat := sumPot P p T

end NemoVerif.RoundMachine
