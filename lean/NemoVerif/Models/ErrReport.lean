/-
  C10 phase 5 — the ERROR-REPORT LOOP: flows that react to `ColangError`.

  An activated flow `match ColangError() as $event ; <body>` is woken by every reported runtime error.  If its own body raises
  while it handles a report, `_advance_head_front` reports THAT error as a new `ColangError` (whose text embeds the old one),
  restarts the activated flow, the new instance matches the new event, … — inside ONE `run_to_completion` call.  The loop
  contains a waiting statement (`match ColangError`), but it is served by the loop's own product.

  (1) strings (`List Char`), mirroring `eval.py::_escape_string` (the expression function `escape`), `utils.py::
      escape_special_string_characters` (applied to the value of every `{…}` inner expression of a string template),
      the `{{`/`}}` collapse of `eval_expression`, and a scanner for the body of a Python string literal (`Py d`);
  (2) handler templates (`Seg`): literal pieces, the error text through `escape(…)`, the raw error text, a safe value;
  (3) the abstract loop: a queue of error texts, a handler `Text → Option Text` (`none` = handled, `some t'` = the handler
      raised and `t'` is the text of the new report).
-/
namespace NemoVerif.ErrReport

abbrev Str := List Char

/-! ### (1) the string functions -/

/-- `str.replace(c, out)` for a one-character pattern -/
def rep1 (c : Char) (out : Str) : Str → Str
  | [] => []
  | d :: r => if d = c then out ++ rep1 c out r else d :: rep1 c out r

/-- `str.replace(a + a, "\\" + a)` (leftmost, non-overlapping) -/
def rep2 (a : Char) : Str → Str
  | [] => []
  | [c] => [c]
  | c :: d :: r => if c = a ∧ d = a then '\\' :: a :: rep2 a r else c :: rep2 a (d :: r)

def nul : Char := Char.ofNat 0

/-- `_escape_string` as it is in the pinned tree: `\` doubled, `{{` → `\{`, `}}` → `\}`, `'` → `\'`, `"` → `\"` (in this order) -/
def escapeAsIs (s : Str) : Str :=
  rep1 '"' ['\\', '"'] (rep1 '\'' ['\\', '\''] (rep2 '}' (rep2 '{' (rep1 '\\' ['\\', '\\'] s))))

/-- `_escape_string` with fixes/C10-escape-unencodable.diff: additionally NUL → `\000` (a Python source string cannot contain NUL) -/
def escapeStr (s : Str) : Str := rep1 nul ['\\', '0', '0', '0'] (escapeAsIs s)

def isQuote (c : Char) : Bool := c = '\'' || c = '"'

/-- `re.sub(r"(^|[^\\])('|\")", r"\1\\\2", s)` behind position 0: a quote is escaped iff the character in front of it is not a
    backslash AND was not consumed by the previous match (`'"` → `\'"`: the second of two adjacent quotes stays bare) -/
def escQ : Str → Str
  | [] => []
  | [c] => [c]
  | c :: q :: r => if c ≠ '\\' ∧ isQuote q = true then c :: '\\' :: q :: escQ r else c :: escQ (q :: r)

/-- … at position 0 the alternative `^` matches a leading quote -/
def escQ0 : Str → Str
  | [] => []
  | c :: r => if isQuote c = true then '\\' :: c :: escQ r else escQ (c :: r)

/-- `escape_special_string_characters`: the quote pass, then `\n \t \r \b \f \v` (dict order) -/
def escSpecial (s : Str) : Str :=
  rep1 '\x0b' ['\\', 'v'] (rep1 '\x0c' ['\\', 'f'] (rep1 '\x08' ['\\', 'b'] (rep1 '\r' ['\\', 'r'] (rep1 '\t' ['\\', 't']
    (rep1 '\n' ['\\', 'n'] (escQ0 s))))))

/-- `str.replace(a + a, a)` -/
def col (a : Char) : Str → Str
  | [] => []
  | [c] => [c]
  | c :: d :: r => if c = a ∧ d = a then a :: col a r else c :: col a (d :: r)

/-- `string_expression.replace("{{", "{").replace("}}", "}")` of `eval_expression` -/
def collapse (s : Str) : Str := col '}' (col '{' s)

/-! ### scanners: two-state automata over the body of a string literal -/

inductive Q where
  | N  -- normal
  | E  -- directly behind a backslash
  deriving DecidableEq, Repr

structure Aut where
  /-- characters rejected in state N (bare delimiter, raw newline, …) -/
  nbad : Char → Bool
  /-- characters accepted directly behind a backslash -/
  eok : Char → Bool

def Aut.step (A : Aut) : Q → Char → Option Q
  | .N, c => if c = '\\' then some .E else if A.nbad c = true then none else some .N
  | .E, c => if A.eok c = true then some .N else none

def Aut.run (A : Aut) : Q → Str → Option Q
  | q, [] => some q
  | q, c :: r => match A.step q c with
    | none => none
    | some q' => A.run q' r

/-- the body of a Python string literal with delimiter `d` (single line): a bare delimiter, a raw newline / carriage return or a
    NUL end or break the literal; behind a backslash everything is accepted except the escapes that need further well-formed
    input (`\x`, `\N`, `\u`, `\U`) and NUL / line ends (conservative: the scanner accepts ⇒ `ast.parse` accepts) -/
def Py (d : Char) : Aut :=
  { nbad := fun c => c = d || c = '\n' || c = '\r' || c = nul,
    eok := fun c => !(c = 'x' || c = 'N' || c = 'u' || c = 'U' || c = nul || c = '\n' || c = '\r') }

/-- the literal `d body d` is well formed: the scan ends in state N (no dangling backslash in front of the closing delimiter) -/
def validLit (d : Char) (body : Str) : Bool := (Py d).run .N body == some .N

/-- the automaton after a pass that writes `\x` for the character `c` -/
def Aut.ext1 (A : Aut) (c x : Char) : Aut := { nbad := fun d => d = c || A.nbad d, eok := fun d => d = x || A.eok d }

/-- the automaton after a pass that writes `\a` for `aa` -/
def Aut.ext2 (A : Aut) (a : Char) : Aut := { nbad := A.nbad, eok := fun d => d = a || A.eok d }

/-- after the first pass (backslashes doubled): only a backslash can stand behind a backslash -/
def A0 : Aut := { nbad := fun _ => false, eok := fun d => d = '\\' }
def A1 : Aut := A0.ext2 '{'
def A2 : Aut := A1.ext2 '}'
def A3 : Aut := A2.ext1 '\'' '\''
def A4 : Aut := A3.ext1 '"' '"'
/-- what `escapeStr` guarantees -/
def A5 : Aut := A4.ext1 nul '0'
def A6 : Aut := A5.ext1 '\n' 'n'
def A7 : Aut := A6.ext1 '\t' 't'
def A8 : Aut := A7.ext1 '\r' 'r'
def A9 : Aut := A8.ext1 '\x08' 'b'
def A10 : Aut := A9.ext1 '\x0c' 'f'
/-- what `escSpecial ∘ escapeStr` guarantees -/
def A11 : Aut := A10.ext1 '\x0b' 'v'

/-! ### (2) handler templates -/

inductive Seg where
  /-- literal text of the template -/
  | lit (s : Str)
  /-- `{escape($event.error)}` -/
  | esc
  /-- `{$event.error}` -/
  | raw
  /-- an inner expression whose value is harmless (`{$event.type}`: a class name) -/
  | safe
  deriving Repr

/-- text of the i-th segment: `txt i` = the (arbitrary) error text, `sv i` = the value of a harmless inner expression -/
def segStr (txt sv : Nat → Str) (i : Nat) : Seg → Str
  | .lit s => s
  | .esc => escSpecial (escapeStr (txt i))
  | .raw => escSpecial (txt i)
  | .safe => sv i

def renderSegs (txt sv : Nat → Str) : Nat → List Seg → Str
  | _, [] => []
  | i, sg :: r => segStr txt sv i sg ++ renderSegs txt sv (i + 1) r

/-- the body of the literal `eval_expression` hands to the evaluator for the template -/
def render (txt sv : Nat → Str) (tpl : List Seg) : Str := collapse (renderSegs txt sv 0 tpl)

/-- the same with the as-is `escape` (pinned tree) -/
def segStrAsIs (txt sv : Nat → Str) (i : Nat) : Seg → Str
  | .esc => escSpecial (escapeAsIs (txt i))
  | sg => segStr txt sv i sg

def renderSegsAsIs (txt sv : Nat → Str) : Nat → List Seg → Str
  | _, [] => []
  | i, sg :: r => segStrAsIs txt sv i sg ++ renderSegsAsIs txt sv (i + 1) r

def renderAsIs (txt sv : Nat → Str) (tpl : List Seg) : Str := collapse (renderSegsAsIs txt sv 0 tpl)

def Seg.total (d : Char) : Seg → Bool
  | .lit s => (Py d).run .N s == some .N
  | .esc => true
  | .raw => false
  | .safe => true

/-- static verdict "this template cannot produce an ill-formed literal, whatever the error text is" -/
def tplTotal (d : Char) (tpl : List Seg) : Bool := tpl.all (Seg.total d)

/-! ### (3) the abstract error-report loop -/

/-- `runLoop h fuel queue` = (handler activations performed, reports left): pop a report, run the handler; if the handler raises,
    its own failure is reported (appended) -/
def runLoop {Text : Type} (h : Text → Option Text) : Nat → List Text → Nat × List Text
  | 0, q => (0, q)
  | _ + 1, [] => (0, [])
  | n + 1, t :: q =>
    match h t with
    | none => let r := runLoop h n q; (r.1 + 1, r.2)
    | some t' => let r := runLoop h n (q ++ [t']); (r.1 + 1, r.2)

/-- the handler of a flow whose only statement that can fail is the template assignment: it raises iff the assembled literal is
    ill-formed; the text of the new report embeds the assembled expression (`Error evaluating '<expr>', <reason>`) -/
def tplHandler (rnd : Str → Str) (d : Char) (t : Str) : Option Str :=
  if validLit d (rnd t) = true then none
  else some ("Error evaluating '".toList ++ d :: rnd t ++ d :: "', unterminated string literal".toList)

end NemoVerif.ErrReport
