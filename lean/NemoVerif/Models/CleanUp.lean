/-
  C11 — model of `statemachine._clean_up_state` (function level).

  The records carry exactly the fields the function reads or writes.  `flows` is
  `state.flow_states` (a dict: insertion order, distinct uids), `idx` is `state.flow_id_states`
  (flow id ↦ instances, here by uid), `actions` is `state.actions`.  Time is an integer
  (microseconds); `age` comes from the translator (`Generated.C11.cleanUpAgeSeconds`).

  Python, statement by statement:
    1. every head's `matching_scores.clear()`
    2. `states_to_be_removed` = uids of flows with `_is_done_flow ∧ now - status_updated > age ∧ activated == 0`
       ∧ not the `parent_uid` of a flow with `activated > 0` (repair fixes/C11-cleanup-dangling-parent.diff: an
       activated flow looks its parent up when it is deactivated, `_is_reference_activated_flow`)
    3. for each such uid, in order: drop EVERY occurrence of it from its parent's `child_flow_uids` (only if the
       parent is still present) and from the flow lists of all open scopes (repair b724762),
       `flow_id_states[flow_id].remove(flow_state)`, `del flow_states[uid]`
    4. `actions` := the actions referenced by `action_uids` of the remaining flows, in first-reference order
       (`state.actions[uid]` raises `KeyError` when the action is missing — `Except` in the model).
-/
import NemoVerif.Generated.C11

namespace NemoVerif.CleanUp

inductive FlowStatus where
  | waiting | starting | started | stopping | stopped | finished
  deriving DecidableEq, Repr, Inhabited

structure Head where
  uid : String
  pos : Nat
  scores : List Int
  deriving DecidableEq, Repr, Inhabited

structure Flow where
  uid : String
  flowId : String
  parent : Option String
  children : List String
  status : FlowStatus
  updated : Int
  activated : Int
  actionUids : List String
  heads : List Head
  scopeFlows : List (List String)      -- per open scope: the uids of the flows started in it
  deriving DecidableEq, Repr, Inhabited

structure St (α : Type) where
  flows : List Flow
  idx : List (String × List String)
  actions : List (String × α)
  deriving Repr, Inhabited

def isDone (f : Flow) : Bool := f.status == .stopped || f.status == .finished

/-- `{fs.parent_uid for fs in flow_states.values() if fs.activated > 0}` -/
def neededParents (flows : List Flow) : List String :=
  (flows.filter (fun f => decide (f.activated > 0))).filterMap (·.parent)

/-- the removal predicate of step 2 -/
def removable (now age : Int) (needed : List String) (f : Flow) : Bool :=
  isDone f && decide (now - f.updated > age) && f.activated == 0 && !needed.contains f.uid

def clearScores (f : Flow) : Flow := { f with heads := f.heads.map fun h => { h with scores := [] } }

/-- what the removal of `u` (whose truthy `parent_uid` is `pOpt`) does to another record -/
def adjust (pOpt : Option String) (u : String) (g : Flow) : Flow :=
  { g with
    children := if pOpt = some g.uid then g.children.filter (· != u) else g.children
    scopeFlows := g.scopeFlows.map fun l => l.filter (· != u) }

def truthyParent (f : Flow) : Option String :=
  match f.parent with
  | some p => if p ≠ "" then some p else none
  | none => none

/-- one iteration of the loop of step 3 -/
def removeOne {α : Type} (s : St α) (u : String) : St α :=
  match s.flows.find? (·.uid == u) with
  | none => s
  | some f =>
    { flows := (s.flows.map (adjust (truthyParent f) u)).filter (·.uid != u),
      idx := s.idx.map fun e => if e.1 == f.flowId then (e.1, e.2.erase u) else e,
      actions := s.actions }

def referenced (flows : List Flow) : List String := (flows.flatMap (·.actionUids)).eraseDups

def lookupAction {α : Type} (actions : List (String × α)) (u : String) : Except String (String × α) :=
  match actions.find? (·.1 == u) with
  | some a => .ok a
  | none => .error u

def lookupAll {α : Type} (actions : List (String × α)) : List String → Except String (List (String × α))
  | [] => .ok []
  | u :: us => do
    let a ← lookupAction actions u
    let r ← lookupAll actions us
    pure (a :: r)

def toRemove (now age : Int) (flows : List Flow) : List String :=
  (flows.filter (removable now age (neededParents flows))).map (·.uid)

/-- steps 1–3 -/
def sweep {α : Type} (now age : Int) (s : St α) : St α :=
  let s1 : St α := { s with flows := s.flows.map clearScores }
  (toRemove now age s1.flows).foldl removeOne s1

def cleanUp {α : Type} (now age : Int) (s : St α) : Except String (St α) := do
  let s2 := sweep now age s
  let acts ← lookupAll s2.actions (referenced s2.flows)
  pure { s2 with actions := acts }

/-- well-formedness of the helper index: `flow_id_states[fid]` lists exactly the instances of flow `fid`, in `flow_states` order -/
def IdxOk {α : Type} (s : St α) : Prop :=
  ∀ e ∈ s.idx, e.2 = (s.flows.filter (fun f => f.flowId == e.1)).map (·.uid)

/-- every entry of a `child_flow_uids` list names an existing instance whose `parent_uid` points back, and no instance
    has the empty uid (Python: `if flow_state.parent_uid and …`) -/
def LinksOk {α : Type} (s : St α) : Prop :=
  (∀ f ∈ s.flows, f.uid ≠ "") ∧
  ∀ p ∈ s.flows, ∀ c ∈ p.children, ∃ k ∈ s.flows, k.uid = c ∧ k.parent = some p.uid

/-- every uid listed in an open scope names an existing instance -/
def ScopesOk {α : Type} (s : St α) : Prop :=
  ∀ g ∈ s.flows, ∀ l ∈ g.scopeFlows, ∀ c ∈ l, ∃ k ∈ s.flows, k.uid = c

/-- the parent of every ACTIVATED instance exists (the look-up of `_is_reference_activated_flow`) -/
def ActivatedParentsOk {α : Type} (s : St α) : Prop :=
  ∀ g ∈ s.flows, g.activated > 0 → ∀ p, g.parent = some p → ∃ k ∈ s.flows, k.uid = p

def ageMicros : Int := (NemoVerif.Generated.C11.cleanUpAgeSeconds : Int) * 1000000

end NemoVerif.CleanUp
