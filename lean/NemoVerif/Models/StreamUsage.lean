/-
  C18 — how `nemoguardrails/actions/llm/generation.py` drives `StreamingHandler`:
  the handler with its buffering mode and its run-time configuration as STATE, and the calls the
  library makes as OPERATIONS.

  `H` = handler state: the pattern machine `St` of `Models/Stream.lean` plus `suffix`/`stop` (set by
  `set_pattern` / `.stop = [...]` while the stream is running), `enable_buffer`, `buffer`, `k`,
  `top_k_nonempty_lines_event`, `first_token`, where `set_pipe_to` was called, and
  `llm_ended_while_buffering`.
  `procH` mirrors `_process` (buffering branch included), `pushH` mirrors `push_chunk`, `endLlmH`
  `on_llm_end`, `disableBufferingH` `disable_buffering`, `waitResumeH` the part of
  `wait_top_k_nonempty_lines` after the event fired.

  Two variants, selected by `fx` (= `Generated.C18.handlerBuffersFirst` for the tree under test):
    fx = true   streaming.py as repaired by fixes/C18-streaming-buffered-usage.diff: while buffering,
                `push_chunk` only records and `on_llm_end` is remembered until the buffer is flushed;
    fx = false  streaming.py without that repair (pattern logic runs while buffering; an
                `on_llm_end` during buffering is swallowed by the buffer and resets prefix/suffix).
  `usageOps` is the operation sequence of the single-call mode (generate_intent_steps_message followed
  by generate_bot_message) for one LLM text, one chunking and one schedule; `stopFirst`
  (= `Generated.C18.stopBeforeDisable`) says whether `.stop` is assigned before `disable_buffering()`.

  `qualCount` / `dropTopK` are character scans; the line-by-line code of `_process` (event condition) and
  `wait_top_k_nonempty_lines` (`split("\n")`, `strip()`, the loop, `"\n".join`) is mirrored by `splitNl`,
  `strip`, `lineQual`, `scanTop`, `joinNl` below, and `Lemmas/StreamTopK.lean` proves the scans equal to it
  (`qualCount_eq_lines`, `dropTopK_eq_lines`).  `returned` = the value `wait_top_k_nonempty_lines` returns
  (consumed by the intent parser).  Whitespace = Python's `str.isspace` table (`Generated.C18.wsCodes`).
-/
import NemoVerif.Models.Stream
import NemoVerif.Generated.C18
namespace NemoVerif.StreamUsage
open NemoVerif.Stream

structure H where
  st : St
  suffix : Str
  stop : List Str
  buffering : Bool
  buffer : Str
  k : Nat
  topk : Bool
  firstToken : Bool
  pipeFrom : Option Nat
  endedBuf : Bool
  deriving Repr, DecidableEq

def H0 : H :=
  { st := { pfx := [], cur := [], completion := [], out := [], finished := false },
    suffix := [], stop := [], buffering := false, buffer := [], k := 0, topk := false, firstToken := true,
    pipeFrom := none, endedBuf := false }

/-- the configuration the pattern machine currently runs with (`cfg.pfx` is not read by `push`) -/
def cfgOf (h : H) : Cfg := { pfx := [], suffix := h.suffix, stop := h.stop }

/-- what `str.strip()` removes: the code points with `str.isspace()` — the table is regenerated from the running
    CPython by the translator (`Generated.C18.wsCodes`; pinned by `C18.ws_table_pinned`) -/
def isWs (c : Char) : Bool := NemoVerif.Generated.C18.wsCodes.contains c.toNat

/-- first non-whitespace character seen so far on the current line -/
def noteChar (first : Option Char) (c : Char) : Option Char :=
  match first with
  | some f => some f
  | none => if isWs c then none else some c

/-- `len(line.strip()) > 0 and line.strip()[0] != "#"` -/
def qualifies (first : Option Char) : Bool :=
  match first with
  | some f => f != '#'
  | none => false

/-- number of non-empty, non-comment lines of the buffer (the last, unfinished line included) -/
def qualCount : Option Char → Str → Nat
  | first, [] => if qualifies first then 1 else 0
  | first, c :: t =>
    if c = '\n' then (if qualifies first then 1 else 0) + qualCount none t
    else qualCount (noteChar first c) t

/-- what is left of the buffer after its first `k` non-empty, non-comment lines (`k > 0`);
    `none` = the k-th such line is not terminated yet -/
def dropTopK : Nat → Option Char → Str → Option Str
  | _, _, [] => none
  | k, first, c :: t =>
    if c = '\n' then
      if qualifies first then (if k ≤ 1 then some t else dropTopK (k - 1) none t)
      else dropTopK k none t
    else dropTopK k (noteChar first c) t

/-- `_process(chunk)` -/
def procH (h : H) (chunk : Option Str) : H :=
  if h.buffering then
    let b := h.buffer ++ chunk.getD []
    { h with buffer := b, topk := h.topk || (decide (qualCount none b > h.k) && decide (h.k > 0)) }
  else { h with st := process (cfgOf h) h.st chunk }

/-- `await self._process(self.current_chunk); self.current_chunk = ""` -/
def releaseH (h : H) (x : Str) : H :=
  let h1 := procH h (some x)
  { h1 with st := { h1.st with cur := [] } }

def pushBodyH (h : H) (chunk : Option Str) : H :=
  if h.suffix ≠ [] ∨ h.stop ≠ [] then
    let cur := h.st.cur ++ chunk.getD []
    if holds (pats (cfgOf h)) cur ∧ ¬ isEnd chunk then { h with st := { h.st with cur := cur } }
    else releaseH h (if isEnd chunk then removeSuffixAtEnd (cfgOf h) h.st.completion cur else cur)
  else procH h chunk

/-- `push_chunk(chunk)` -/
def pushH (fx : Bool) (h : H) (chunk : Option Str) : H :=
  if h.st.finished then h
  else if fx ∧ h.buffering then procH h chunk
  else if h.st.pfx ≠ [] then
    let cur := h.st.cur ++ chunk.getD []
    if ¬ h.st.pfx.isPrefixOf cur then { h with st := { h.st with cur := cur } }
    else
      let rest := cur.drop h.st.pfx.length
      let h1 : H := { h with st := { h.st with cur := [], pfx := [] } }
      if rest = [] then h1 else pushBodyH h1 (some rest)
  else pushBodyH h chunk

/-- `_on_generation_end` (the body of `on_llm_end`) -/
def generationEndH (h : H) : H :=
  let h1 := if h.st.cur ≠ [] then releaseH h (removeSuffixAtEnd (cfgOf h) h.st.completion h.st.cur) else h
  let h2 := procH h1 (some [])
  { h2 with st := { h2.st with pfx := [] }, suffix := [] }

/-- `on_llm_end` -/
def endLlmH (fx : Bool) (h : H) : H :=
  if fx ∧ h.buffering then { h with endedBuf := true } else generationEndH h

/-- `disable_buffering` -/
def disableBufferingH (fx : Bool) (h : H) : H :=
  let h1 := pushH fx { h with buffering := false } (some h.buffer)
  let h2 := { h1 with buffer := [] }
  if fx ∧ h2.endedBuf then generationEndH { h2 with endedBuf := false } else h2

/-- `on_llm_new_token(token, chunk=token)` -/
def tokenH (fx : Bool) (h : H) (c : Str) : H :=
  if h.firstToken then
    let h1 := { h with firstToken := false }
    if c = [] then h1 else pushH fx h1 (some c)
  else pushH fx h (some c)

inductive Op where
  | enableBuf                       -- enable_buffering()
  | waitBegin (k : Nat)             -- wait_top_k_nonempty_lines(k) up to `await event.wait()`
  | waitResume                      -- … the rest of it, once the event is set
  | setPattern (p s : Str)          -- set_pattern(prefix, suffix)
  | setStop (stops : List Str)      -- handler.stop = [...]
  | setPipe                         -- set_pipe_to(user_handler)
  | disableBuf                      -- disable_buffering()
  | token (c : Str)                 -- on_llm_new_token
  | push (c : Str)                  -- push_chunk(str)
  | llmEnd                          -- on_llm_end
  deriving Repr, DecidableEq

def execOp (fx : Bool) (h : H) : Op → H
  | .enableBuf => { h with buffering := true, buffer := [] }
  | .waitBegin k => { h with k := k }
  | .waitResume => { h with buffer := (dropTopK h.k none h.buffer).getD [] }
  | .setPattern p s => { h with st := { h.st with pfx := p }, suffix := s }
  | .setStop stops => { h with stop := stops }
  | .setPipe => { h with pipeFrom := some h.st.out.length }
  | .disableBuf => disableBufferingH fx h
  | .token c => tokenH fx h c
  | .push c => pushH fx h (some c)
  | .llmEnd => endLlmH fx h

def execOps (fx : Bool) (ops : List Op) (h : H) : H := ops.foldl (execOp fx) h

/-- what the user's handler (the `pipe_to` target) has on its queue -/
def consumerItems (h : H) : List (Option Str) :=
  match h.pipeFrom with
  | some n => pipeTarget (h.st.out.drop n)
  | none => []

def deliveredItems (items : List (Option Str)) : Str := (items.map (fun o => o.getD [])).flatten

/-- one call site of generation.py -/
structure Site where
  pfx : Str
  suffix : Str
  stop : List Str
  k : Nat
  deriving Repr, DecidableEq

def Site.cfg (site : Site) : Cfg := { pfx := site.pfx, suffix := site.suffix, stop := site.stop }

/-- The single-call mode for one LLM text: `cs` = the tokens; the waiter of
    `wait_top_k_nonempty_lines` resumes after `a` tokens; `b` more tokens arrive before
    `generate_bot_message` reaches `disable_buffering()`; `endPos` = when the LLM finishes
    (`on_llm_end`): 0 = after the last token (streaming phase), 1 = before `disable_buffering()` (all
    tokens arrived in the window), 2 = even before the waiter resumed. -/
def usageOps (stopFirst : Bool) (site : Site) (cs : List Str) (a b endPos : Nat) : List Op :=
  [Op.enableBuf, Op.waitBegin site.k]
    ++ (cs.take a).map Op.token
    ++ (if endPos = 2 then [Op.llmEnd] else [])
    ++ [Op.waitResume, Op.setPattern site.pfx site.suffix]
    ++ ((cs.drop a).take b).map Op.token
    ++ (if endPos = 1 then [Op.llmEnd] else [])
    ++ [Op.setPipe]
    ++ (if stopFirst then [Op.setStop site.stop, Op.disableBuf] else [Op.disableBuf, Op.setStop site.stop])
    ++ (cs.drop (a + b)).map Op.token
    ++ (if endPos = 0 then [Op.llmEnd] else [])

def usageRun (fx stopFirst : Bool) (site : Site) (cs : List Str) (a b endPos : Nat) : H :=
  execOps fx (usageOps stopFirst site cs a b endPos) H0

/-- the event was set when the waiter resumed (validity of a schedule) -/
def eventSetAt (fx : Bool) (site : Site) (cs : List Str) (a : Nat) : Bool :=
  (execOps fx ([Op.enableBuf, Op.waitBegin site.k] ++ (cs.take a).map Op.token) H0).topk

/-! ### `wait_top_k_nonempty_lines` / the event condition of `_process`, line by line as in the source -/

/-- `s.split("\n")` -/
def splitNl : Str → List Str
  | [] => [[]]
  | c :: t =>
    if c = '\n' then [] :: splitNl t
    else match splitNl t with
      | l :: ls => (c :: l) :: ls
      | [] => [[c]]

/-- `"\n".join(lines)` -/
def joinNl : List Str → Str
  | [] => []
  | [l] => l
  | l :: m :: ls => l ++ '\n' :: joinNl (m :: ls)

/-- `line.strip()` -/
def strip (l : Str) : Str := ((l.dropWhile isWs).reverse.dropWhile isWs).reverse

/-- `line = lines[i].strip(); len(line) > 0 and line[0] != "#"` -/
def lineQual (l : Str) : Bool :=
  match strip l with
  | [] => false
  | c :: _ => c != '#'

/-- the loop of `wait_top_k_nonempty_lines(k)` (k > 0) over `lines`: (`top_k_lines`, `lines[i + 1:]`) -/
def scanTop : Nat → List Str → List Str × List Str
  | _, [] => ([], [])
  | k, l :: ls =>
    if lineQual l then
      if k ≤ 1 then ([l], ls) else (l :: (scanTop (k - 1) ls).1, (scanTop (k - 1) ls).2)
    else scanTop k ls

/-- the value `wait_top_k_nonempty_lines(k)` returns for the buffer `buf` -/
def returned (k : Nat) (buf : Str) : Str := joinNl (scanTop k (splitNl buf)).1

/-- the buffer `wait_top_k_nonempty_lines(k)` leaves behind -/
def restBuffer (k : Nat) (buf : Str) : Str := joinNl (scanTop k (splitNl buf)).2

/-- `len([line for line in (l.strip() for l in buffer.split("\n")) if len(line) > 0 and line[0] != "#"])` -/
def qualLines (buf : Str) : Nat := ((splitNl buf).filter lineQual).length

/-- what the waiter of `wait_top_k_nonempty_lines` returns when it resumes after `a` tokens -/
def waiterReturn (fx : Bool) (site : Site) (cs : List Str) (a : Nat) : Str :=
  returned site.k (execOps fx ([Op.enableBuf, Op.waitBegin site.k] ++ (cs.take a).map Op.token) H0).buffer

/-- names of the handler operations of an op sequence (tokens / on_llm_end are the LLM task's, not the actions') -/
def opNames : List Op → List String
  | [] => []
  | .enableBuf :: r => "enable_buffering" :: opNames r
  | .waitBegin _ :: r => "wait_top_k_nonempty_lines" :: opNames r
  | .waitResume :: r => opNames r
  | .setPattern _ _ :: r => "set_pattern" :: opNames r
  | .setStop _ :: r => "stop=" :: opNames r
  | .setPipe :: r => "set_pipe_to" :: opNames r
  | .disableBuf :: r => "disable_buffering" :: opNames r
  | .token _ :: r => opNames r
  | .push _ :: r => "push_chunk" :: opNames r
  | .llmEnd :: r => opNames r

/-- the direct mode of generate_bot_message: set_pattern on the user's handler, the LLM streams into
    it, on_llm_end, then the whole utterance is pushed once more (ignored: the stream is finished) -/
def directOps (site : Site) (cs : List Str) (again : Str) : List Op :=
  [Op.setPattern site.pfx site.suffix] ++ cs.map Op.token ++ [Op.llmEnd, Op.push again]

end NemoVerif.StreamUsage
