/-
  `LlmGen` — second part of the C17 model: the places where LLM text becomes *flows* or pre-computed events.

  Mirrors:
    actions/llm/generation.py   generate_next_step, branch `enable_multi_step_generation` (shrink-until-it-parses loop)
    colang/v1_0/runtime/runtime.py   _process_start_flow (as repaired in a5f1c81) + the empty-`next_events` guard of
                                 generate_events;  the parsers are ORACLES (`parsesTop`, `parsesFlow`), the computation
                                 of the next steps of the started flow is an opaque function
    textwrap.indent
    actions/llm/generation.py   generate_bot_message, single-call branch (pre-computed BotMessage event, streaming marker)
    actions/v2_x/generation.py  generate_flow_from_instructions, generate_flow_from_name, generate_flow_continuation,
                                 generate_user_intent_and_bot_action, generate_flow (from the completion on),
                                 GenerateValueAction incl. the prompt-line removal
    actions/llm/utils.py        escape_flow_name with the interpreter's Unicode `\w` / `\d` classes (generated tables)
  Phase 4:
    colang/v1_0/runtime/runtime.py   _process_start_flow with its try/except (`processStartFlowE`), the `while True` loop of
                                 generate_events (`genLoop`), both as they are and as repaired by
                                 fixes/C17-v1-flow-error-ends-turn.diff (`processStartFlowR`, `stepR`, `genLoopR`)
    actions/v2_x/generation.py  the `literal_eval` wrapper at the end of generate_value (`generateValueV2`, repaired `…R`)
-/
import NemoVerif.Models.LlmText
import NemoVerif.Generated.C17Tables

namespace NemoVerif.LlmText
open NemoVerif.Py NemoVerif.Py.Str

/-! ## textwrap.indent -/

/-- `text.splitlines(True)`: every line keeps its terminator, `\r\n` is one terminator -/
def splitLinesKeepAux : Str → Str → List Str
  | acc, [] => if acc.isEmpty then [] else [acc.reverse]
  | acc, '\r' :: '\n' :: cs => ('\n' :: '\r' :: acc).reverse :: splitLinesKeepAux [] cs
  | acc, c :: cs =>
    if isLineBreak c then (c :: acc).reverse :: splitLinesKeepAux [] cs else splitLinesKeepAux (c :: acc) cs

def splitLinesKeep (s : Str) : List Str := splitLinesKeepAux [] s

/-- `textwrap.indent(text, prefix)`: the prefix goes in front of every line that is not whitespace only -/
def indent (pre s : Str) : Str :=
  ((splitLinesKeep s).map (fun l => if strip l != [] then pre ++ l else l)).flatten

/-! ## multi-step generation (Colang 1.0) -/

inductive Ev where
  | botIntent (intent : Str)
  | startFlow (body : Str)
  | listen
  | step (n : Nat)     -- an event computed by `compute_next_steps` for the started flow (opaque)
  | hidePrevTurn       -- `{"type": "hide_prev_turn"}`: last event of the internal-error result
  deriving Repr, DecidableEq

/-- the `while True: try: parse("\n".join(lines)); break / except: … lines = lines[:-1]` loop; `n` = number of lines kept -/
def shrink (parses : Str → Bool) (lines : List Str) : Nat → Option Str
  | 0 => none
  | n + 1 =>
    if parses (join ['\n'] (lines.take (n + 1))) then some (join ['\n'] (lines.take (n + 1)))
    else if n == 0 then none          -- `if len(lines) == 1: return general response`
    else shrink parses lines n

/-- `generate_next_step` with `enable_multi_step_generation` -/
def multiStepNextStep (parsesTop : Str → Bool) (p : Parser) (out : Str) : Ev :=
  let lines := splitOn '\n' (p.apply out)
  match shrink parsesTop lines lines.length with
  | none => .botIntent generalResponse
  | some body => .startFlow body

def dynamicFlowSource (flowId body : Str) : Str :=
  lit "define flow " ++ flowId ++ lit ":\n" ++ indent (lit "  ") body

/-- `_process_start_flow` (repaired): `parsesFlow` = "parse succeeds and yields exactly one flow with this id" -/
def processStartFlow (parsesFlow : Str → Bool) (nextSteps : Str → List Ev) (flowId body : Str) : List Ev :=
  let src := dynamicFlowSource flowId body
  if parsesFlow src then nextSteps src else [.botIntent generalResponse]

/-- `if len(next_events) == 0: next_events = [Listen]` in generate_events (now for every branch) -/
def orListen (next : List Ev) : List Ev := if next.isEmpty then [.listen] else next

/-- from the completion of the next-step call to the events appended by the runtime -/
def multiStep (parsesTop parsesFlow : Str → Bool) (nextSteps : Str → List Ev) (p : Parser) (flowId out : Str) : List Ev :=
  match multiStepNextStep parsesTop p out with
  | .startFlow body => .startFlow body :: orListen (processStartFlow parsesFlow nextSteps flowId body)
  | e => [e]

/-! ## multi-step generation with the try/except structure explicit (phase 4)

`parse_colang_file` is an ORACLE that may do anything: raise an exception of any kind `ε`, or return any list of flow ids.
`compute_next_steps` (and, for later iterations, whatever `generate_events` runs: actions, flow sliding) is an oracle that may
raise an exception of kind `δ` or return any list of events. -/

abbrev ParseOracle (ε : Type) := Str → Except ε (List Str)

/-- the validation parse inside `generate_next_step` (`try: parse_colang_file(...) except Exception: <drop the last line>`):
    only "raised or not" is observed -/
def parsesTopOf {ε : Type} (parse : ParseOracle ε) (s : Str) : Bool :=
  match parse s with
  | .ok _ => true
  | .error _ => false

/-- `len(parsed_data["flows"]) != 1 or parsed_data["flows"][0]["id"] != flow_id` (negated) -/
def oneFlowWithId (flowId : Str) (flows : List Str) : Bool :=
  match flows with
  | [f] => f == flowId
  | _ => false

/-- how the `try:` block of `_process_start_flow` ends -/
inductive TryOutcome (ε : Type) where
  | passed
  | parserRaised (e : ε)
  | valueError          -- `raise ValueError("Expected exactly one dynamic flow.")`

def processStartFlowTry {ε : Type} (parse : ParseOracle ε) (flowId src : Str) : TryOutcome ε :=
  match parse src with
  | .error e => .parserRaised e
  | .ok flows => if oneFlowWithId flowId flows then .passed else .valueError

/-- `_process_start_flow` (after /repo a5f1c81): `except Exception` turns EVERY outcome of the try block other than success
    into the fallback `BotIntent general response`; `_compute_next_steps` is called outside the `try`. -/
def processStartFlowE {ε δ : Type} (parse : ParseOracle ε) (nextSteps : Str → Except δ (List Ev)) (flowId body : Str) :
    Except δ (List Ev) :=
  let src := dynamicFlowSource flowId body
  match processStartFlowTry parse flowId src with
  | .passed => nextSteps src
  | _ => .ok [.botIntent generalResponse]

/-- what can leave `generate_events` -/
inductive GenErr (δ : Type) where
  | raised (e : δ)          -- an exception of the step function (compute_next_steps / an action dispatcher failure)
  | tooManyEvents           -- `raise Exception("Too many events.")`
  deriving Repr, DecidableEq

/-- last element (`next_events[-1]`) -/
def lastEv : List Ev → Option Ev
  | [] => none
  | [e] => some e
  | _ :: es => lastEv es

/-- the `while True` loop of `generate_events`.  `step events` = the branch chosen on `events[-1]`.
    Every iteration appends at least one event, the loop raises once more than 100 were appended: `fuel` = 102 suffices
    (`genLoop_fuel_irrelevant`), the `0` case is never reached from `generateEvents`. -/
def genLoop {δ : Type} (step : List Ev → Except δ (List Ev)) : Nat → List Ev → List Ev → Except (GenErr δ) (List Ev)
  | 0, _, _ => .error .tooManyEvents
  | fuel + 1, events, newEvents =>
    match step events with
    | .error e => .error (.raised e)
    | .ok next0 =>
      let next := orListen next0
      let newEvents' := newEvents ++ next
      if lastEv next == some .listen then .ok newEvents'
      else if newEvents'.length > 100 then .error .tooManyEvents
      else genLoop step fuel (events ++ next) newEvents'

def generateEvents {δ : Type} (step : List Ev → Except δ (List Ev)) (events : List Ev) : Except (GenErr δ) (List Ev) :=
  genLoop step 102 events []

/-- the step function of a multi-step turn: `start_flow` goes to `_process_start_flow`, everything else to `cont` -/
def stepMS {ε δ : Type} (parse : ParseOracle ε) (nextSteps : Str → Except δ (List Ev)) (cont : List Ev → Except δ (List Ev))
    (flowId : Str) (events : List Ev) : Except δ (List Ev) :=
  match lastEv events with
  | some (.startFlow body) => processStartFlowE parse nextSteps flowId body
  | _ => cont events

/-- the multi-step turn from the completion of the next-step call on: the event returned by `generate_next_step`
    (validated with the raising parser) is appended and `generate_events` continues from it -/
def multiStepTurn {ε δ : Type} (parse : ParseOracle ε) (nextSteps : Str → Except δ (List Ev)) (cont : List Ev → Except δ (List Ev))
    (p : Parser) (flowId out : Str) (history : List Ev) : Except (GenErr δ) (List Ev) :=
  generateEvents (stepMS parse nextSteps cont flowId) (history ++ [multiStepNextStep (parsesTopOf parse) p out])

/-! ### the REPAIRED runtime (fixes/C17-v1-flow-error-ends-turn.diff): an exception of `_compute_next_steps` and the
100-event safety valve end the turn with the internal-error events instead of leaving `generate_events` -/

/-- `_internal_error_action_result(...).events`: BotIntent, StartUtteranceBotAction (opaque), hide_prev_turn -/
def internalErrorEvents : List Ev := [.botIntent (lit "inform internal error occurred"), .step 0, .hidePrevTurn]

def processStartFlowR {ε δ : Type} (parse : ParseOracle ε) (nextSteps : Str → Except δ (List Ev)) (flowId body : Str) : List Ev :=
  let src := dynamicFlowSource flowId body
  match processStartFlowTry parse flowId src with
  | .passed =>
    match nextSteps src with
    | .ok l => l
    | .error _ => internalErrorEvents
  | _ => [.botIntent generalResponse]

/-- one iteration of the repaired loop.  `act events = some l`: the last event is a `StartInternalSystemAction` and
    `_process_start_action` (which contains every failure of the action itself) returned `l`; `cont` = `_compute_next_steps`,
    which may raise anything. -/
def stepR {ε δ : Type} (parse : ParseOracle ε) (nextSteps : Str → Except δ (List Ev)) (cont : List Ev → Except δ (List Ev))
    (act : List Ev → Option (List Ev)) (flowId : Str) (events : List Ev) : List Ev :=
  match lastEv events with
  | some (.startFlow body) => processStartFlowR parse nextSteps flowId body
  | some .hidePrevTurn => [.listen]
  | _ =>
    match act events with
    | some l => l
    | none =>
      match cont events with
      | .ok l => l
      | .error _ => internalErrorEvents

def genLoopR (step : List Ev → List Ev) : Nat → List Ev → List Ev → List Ev
  | 0, _, newEvents => newEvents ++ (internalErrorEvents ++ [.listen])
  | fuel + 1, events, newEvents =>
    let next := orListen (step events)
    let newEvents' := newEvents ++ next
    if lastEv next == some .listen then newEvents'
    else if newEvents'.length > 100 then newEvents' ++ (internalErrorEvents ++ [.listen])
    else genLoopR step fuel (events ++ next) newEvents'

def multiStepTurnR {ε δ : Type} (parse : ParseOracle ε) (nextSteps : Str → Except δ (List Ev)) (cont : List Ev → Except δ (List Ev))
    (act : List Ev → Option (List Ev)) (p : Parser) (flowId out : Str) (history : List Ev) : List Ev :=
  genLoopR (stepR parse nextSteps cont act flowId) 102 (history ++ [multiStepNextStep (parsesTopOf parse) p out]) []

/-! ## single-call mode: how the pre-computed events are consumed -/

def streamingPrefix : Str := lit "Bot message: \"<<STREAMING["

/-- does control reach the final `else` (LLM) branch of `generate_bot_message`? -/
def reachesLlmBranch (botMessages : List (Str × List Str)) (ctx : List (Str × CtxVal)) (botIntent : Str) : Except PyErr Bool :=
  match lookup botIntent botMessages with
  | some _ => .ok false
  | none =>
    match idx0 botIntent with
    | .error e => .error e
    | .ok c => .ok (match (if c == '$' then lookup (botIntent.drop 1) ctx else none) with | some _ => false | none => true)

/-- `generate_bot_message` in single-call mode (no streaming handler registered): `sc` = (intent of the pre-computed
    BotIntent event, text of the pre-computed BotMessage event) when the last user-intent event carries them. -/
def generateBotMessageSC (render : Str → Str) (botMessages : List (Str × List Str))
    (ctx : List (Str × CtxVal)) (botIntent : Str) (pick : Nat) (sc : Option (Str × Str)) (llmText : Except PyErr Str) :
    Except PyErr BotMsgOut :=
  match reachesLlmBranch botMessages ctx botIntent with
  | .error e => .error e
  | .ok false => generateBotMessage render botMessages ctx botIntent pick llmText
  | .ok true =>
    match sc with
    | some (bi0, bm) =>
      if botIntent == bi0 then
        if startsWith bm streamingPrefix then .error .keyError   -- `local_streaming_handlers[uid]` without a handler
        else .ok { rendered := [], text := bm, src := .llm }       -- the event is returned as it is
      else generateBotMessage render botMessages ctx botIntent pick llmText
    | none => generateBotMessage render botMessages ctx botIntent pick llmText

/-- whole single-call turn for an LLM-predicted continuation: one completion; `out2` is only consulted when the bot intent
    chosen by the flows differs from the predicted one (then a separate bot-message call is made) -/
def singleCallTurn (render : Str → Str) (botMessages : List (Str × List Str)) (ctx : List (Str × CtxVal))
    (p p3 : Parser) (pick : Nat) (chosenIntent : Option Str) (out out2 : Str) : Reply :=
  match postSingleCall p out with
  | .error _ => .internalError
  | .ok r =>
    let bi := match chosenIntent with | some i => i | none => r.botIntent
    dispatch (generateBotMessageSC render botMessages ctx bi pick (some (r.botIntent, r.botMessage)) (postBotMessageRaw p3 out2))

/-! ## Colang 2.x flow generation -/

/-- `s.replace(old, new)` including the empty `old` (new between all characters and at both ends) -/
def pyReplace (old new s : Str) : Str :=
  if old.isEmpty then new ++ (s.map (fun c => c :: new)).flatten else replace old new s

structure FlowOut where
  name : Str
  body : Str
  deriving Repr, DecidableEq

def llmIssue (who : Str) : FlowOut :=
  { name := lit "bot inform LLM issue",
    body := lit "flow bot inform LLM issue\n  bot say \"Sorry! There was an issue in the LLM result form " ++ who ++ lit "!\"" }

/-- `generate_flow_from_instructions` -/
def flowFromInstructions (flowName result : Str) : Except PyErr FlowOut :=
  let lines := splitOn '\n' (removeLeadingEmptyLines result)
  match first lines with
  | .error e => .error e
  | .ok l0 =>
    if startsWith l0 (lit "  ") then
      .ok { name := flowName, body := lit "flow " ++ flowName ++ ['\n'] ++ join ['\n'] lines }
    else .ok (llmIssue (lit "GenerateFlowFromInstructionsAction"))

/-- `generate_flow_from_name` -/
def flowFromName (name result : Str) : Except PyErr Str :=
  let lines := splitOn '\n' (removeLeadingEmptyLines result)
  match first lines with
  | .error e => .error e
  | .ok l0 =>
    if startsWith l0 (lit "flow") then .ok (lit "flow " ++ l0.drop 5 ++ ['\n'] ++ join ['\n'] (lines.drop 1))
    else .ok (lit "flow " ++ name ++ lit "\n  " ++ join (lit "\n  ") (lines.map lstrip))

/-- Python `str(x)` of an optional string -/
def strOpt : Option Str → Str
  | none => lit "None"
  | some s => s

/-- `generate_flow_continuation` -/
def flowContinuation (escape : Str → Str) (uuid result : Str) : Except PyErr FlowOut :=
  let lines := splitOn '\n' (removeLeadingEmptyLines result)
  if lines.length == 0 || (lines.length == 1 && lines[0]? == some []) then
    .ok (llmIssue (lit "GenerateFlowContinuationAction"))
  else
    match first lines with
    | .error e => .error e
    | .ok l0 =>
      let line0 := lstripChars [' '] l0
      let bi0 := stripChars [' '] (removeIdentifiers line0)
      let bi1 : Option Str := if !startsWith bi0 (lit "bot ") then getFirstBotIntent (splitLines result) else some bi0
      let ba := getFirstBotAction (splitLines result)
      let bi2 : Option Str := match bi1 with
        | some b => if !b.isEmpty then some (escape (stripChars [' '] b)) else some b
        | none => none
      let name := lit "_dynamic_" ++ uuid ++ [' '] ++ strOpt bi2
      .ok { name := name,
            body := lit "@meta(bot_intent=\"" ++ strOpt bi2 ++ lit "\")\n" ++ lit "flow " ++ name ++ lit "\n  " ++ ba }

structure IntentAndAction where
  userIntent : Str
  botIntent : Option Str
  botAction : Str
  deriving Repr, DecidableEq

/-- `generate_user_intent_and_bot_action` from the parsed completion on -/
def userIntentAndBotAction (escape : Str → Str) (p : Parser) (out : Str) : IntentAndAction :=
  let result := p.apply out
  let ui1 : Option Str := match getFirstNonemptyLine result with
    | some u =>
      if !u.isEmpty && contains [':'] u then
        match getFirstUserIntent [u] with
        | some t => if !t.isEmpty then some t else none
        | none => none
      else some u
    | none => none
  let ui2 : Str := match ui1 with | none => userWasUnclear | some u => u
  let bi := getFirstBotIntent (splitLines result)
  let ba := getFirstBotAction (splitLines result)
  { userIntent := escape (stripChars [' '] ui2),
    botIntent := match bi with
      | some b => if !b.isEmpty then some (escape (stripChars [' '] b)) else some b
      | none => none,
    botAction := ba }

def waitUserInput : Str := lit "  wait user input"
def dots : Str := lit "  ..."

/-- the `for i in range(len(lines))` loop of `generate_flow`; `acc` = already visited (possibly rewritten) lines, reversed.
    (The `re.match(r"  await .* -> \$.*")` branch is unreachable: such a line contains `"await "` and is caught before.) -/
def nldLoop (hasDots : Bool) : List Str → List Str → List Str
  | acc, [] => acc.reverse
  | acc, l :: rest =>
    if startsWith l (lit "  user ") then acc.reverse ++ [waitUserInput, dots]
    else if contains (lit "await ") l then acc.reverse ++ [l, dots]
    else if strip l == lit "..." then acc.reverse ++ [l]
    else if startsWith (strip l) (lit "bot say") && hasDots then acc.reverse ++ [l, waitUserInput, dots]
    else if contains (lit "user input") l || contains (lit "user select") l then nldLoop hasDots (waitUserInput :: acc) rest
    else nldLoop hasDots (l :: acc) rest

def indentLine (l : Str) : Str := if !startsWith l (lit "  ") then lit "  " ++ l else l

/-- `generate_flow` (GenerateFlowAction) from the parsed completion on -/
def flowFromNld (p : Parser) (uuid out : Str) : Except PyErr FlowOut :=
  let result := removeLeadingEmptyLines (p.apply out)
  let lines0 := splitOn '\n' result
  match first lines0 with
  | .error e => .error e
  | .ok l0 =>
    let lines := if contains (lit "codeblock") l0 then lines0.drop 1 else lines0
    if lines.length == 0 || (lines.length == 1 && lines[0]? == some []) then
      .ok (llmIssue (lit "GenerateFlowContinuationAction"))
    else
      let name := lit "_dynamic_" ++ uuid
      let body := (nldLoop (contains (lit "...") result) [] lines).map indentLine
      .ok { name := name, body := lit "flow " ++ name ++ ['\n'] ++ join ['\n'] body }

/-- `GenerateValueAction`: the string handed to `literal_eval` (incl. removal of the last prompt line) -/
def postValueV2 (p : Parser) (lastPromptLine out : Str) : Except PyErr Str :=
  (postValue p out).map (fun v => strip (pyReplace lastPromptLine [] v))

/-! ## escape_flow_name with the interpreter's Unicode classes -/

/-! ### `literal_eval` as an oracle; the wrapper of 2.x `GenerateValueAction` (phase 4) -/

/-- the Python values `ast.literal_eval` can return -/
inductive Lit where
  | none | bool (b : Bool) | int (i : Int) | float (repr : Str) | str (s : Str)
  | bytes (s : Str) | complex (repr : Str) | ellipsis
  | list (l : List Lit) | tuple (l : List Lit) | set (l : List Lit) | dict (kvs : List (Lit × Lit))

mutual
/-- `_is_plain_value` (actions/v2_x/generation.py, /repo 98bf321): None / bool / int / float / str, and list / tuple / set / dict of those —
    for a dict the KEYS and the values -/
def Lit.isPlain : Lit → Bool
  | .none | .bool _ | .int _ | .float _ | .str _ => true
  | .bytes _ | .complex _ | .ellipsis => false
  | .list l | .tuple l | .set l => Lit.allPlain l
  | .dict kvs => Lit.allPlainKV kvs
def Lit.allPlain : List Lit → Bool
  | [] => true
  | x :: xs => x.isPlain && Lit.allPlain xs
def Lit.allPlainKV : List (Lit × Lit) → Bool
  | [] => true
  | (k, v) :: xs => k.isPlain && v.isPlain && Lit.allPlainKV xs
end

/-! #### what the END of the turn does with a stored value: `state_to_json` = `json.dumps(encode_to_dict(state))` (serialization.py),
called by `LLMRails.generate_async` outside every try/except -/

/-- `all(isinstance(k, str) for k in obj)` -/
def Lit.isStrKey : Lit × Lit → Bool
  | (.str _, _) => true
  | _ => false

mutual
/-- `encode_to_dict` on a literal value: does it return (`true`) or fall through to `raise Exception("Unhandled type …")` (`false`)?
    Same branch structure: list → elements; str/int/float/None → as is (bool is an int); dict → only the values when every key is a
    str, else keys and values (`items`); tuple / set → elements; anything else (bytes, complex, Ellipsis) → unhandled. -/
def Lit.encodable : Lit → Bool
  | .none | .bool _ | .int _ | .float _ | .str _ => true
  | .bytes _ | .complex _ | .ellipsis => false
  | .list l | .tuple l | .set l => Lit.allEncodable l
  | .dict kvs => if kvs.all Lit.isStrKey then Lit.allEncodableV kvs else Lit.allEncodableKV kvs
def Lit.allEncodable : List Lit → Bool
  | [] => true
  | x :: xs => x.encodable && Lit.allEncodable xs
def Lit.allEncodableV : List (Lit × Lit) → Bool
  | [] => true
  | (_, v) :: xs => v.encodable && Lit.allEncodableV xs
def Lit.allEncodableKV : List (Lit × Lit) → Bool
  | [] => true
  | (k, v) :: xs => k.encodable && v.encodable && Lit.allEncodableKV xs
end

/-- CPython's default `sys.get_int_max_str_digits()` is 4300: `str(i)`, and with it `json.dumps(i)`, raise ValueError iff `|i| ≥ 10^4300`
    (the limit does not apply to hexadecimal / octal / binary INPUT: `literal_eval("0x" + "f"*3600)` is such an int) -/
def Lit.intStrLimit : Nat := 10 ^ 4300

mutual
/-- `json.dumps` of the encoded value: every int in it (element, value, key, inside tuple keys) can be printed -/
def Lit.printable : Lit → Bool
  | .int i => decide (i.natAbs < Lit.intStrLimit)
  | .none | .bool _ | .float _ | .str _ | .bytes _ | .complex _ | .ellipsis => true
  | .list l | .tuple l | .set l => Lit.allPrintable l
  | .dict kvs => Lit.allPrintableKV kvs
def Lit.allPrintable : List Lit → Bool
  | [] => true
  | x :: xs => x.printable && Lit.allPrintable xs
def Lit.allPrintableKV : List (Lit × Lit) → Bool
  | [] => true
  | (k, v) :: xs => k.printable && v.printable && Lit.allPrintableKV xs
end

/-- `state_to_json` accepts a state whose context holds the value -/
def Lit.storable (x : Lit) : Bool := x.encodable && x.printable

inductive GenValueErr where
  | py (e : PyErr)                     -- an exception of the text post-processing (never happens: `postValueV2_total`)
  | invalidLlmResponse (value : Str)   -- `raise Exception(f"Invalid LLM response: `{value}`")`

/-- the tail of 2.x `generate_value` BEFORE repair 98bf321 (kept for the counterexample): `try: return literal_eval(value) except Exception: raise Exception("Invalid …")` -/
def generateValueV2 {ε : Type} (literalEval : Str → Except ε Lit) (p : Parser) (lastPromptLine out : Str) : Except GenValueErr Lit :=
  match postValueV2 p lastPromptLine out with
  | .error e => .error (.py e)
  | .ok v =>
    match literalEval v with
    | .error _ => .error (.invalidLlmResponse v)
    | .ok x => .ok x

/-- … and AS IT IS NOW (98bf321): a literal that is not plain data is an invalid LLM response as well -/
def generateValueV2R {ε : Type} (literalEval : Str → Except ε Lit) (p : Parser) (lastPromptLine out : Str) : Except GenValueErr Lit :=
  match postValueV2 p lastPromptLine out with
  | .error e => .error (.py e)
  | .ok v =>
    match literalEval v with
    | .error _ => .error (.invalidLlmResponse v)
    | .ok x => if x.isPlain then .ok x else .error (.invalidLlmResponse v)

/-- … and with the proposed repair fixes/C17-v2-generated-value-printable-int.diff: an int that cannot be printed is not plain data either -/
def generateValueV2S {ε : Type} (literalEval : Str → Except ε Lit) (p : Parser) (lastPromptLine out : Str) : Except GenValueErr Lit :=
  match postValueV2 p lastPromptLine out with
  | .error e => .error (.py e)
  | .ok v =>
    match literalEval v with
    | .error _ => .error (.invalidLlmResponse v)
    | .ok x => if x.isPlain && x.printable then .ok x else .error (.invalidLlmResponse v)

def inRanges (rs : List (Nat × Nat)) (c : Char) : Bool := rs.any (fun r => r.1 ≤ c.toNat && c.toNat ≤ r.2)
def isReWord (c : Char) : Bool := inRanges NemoVerif.Generated.C17Tables.wordRanges c
def isReDigit (c : Char) : Bool := inRanges NemoVerif.Generated.C17Tables.digitRanges c

/-- `re.sub(r"\b\d+\b", "_\g<0>_", ·)` with Unicode `\w`, `\d` -/
def wrapDigitsU : Str → Str → Str
  | word, [] => if word != [] && word.all isReDigit then ['_'] ++ word.reverse ++ ['_'] else word.reverse
  | word, c :: cs =>
    if isReWord c then wrapDigitsU (c :: word) cs
    else (if word != [] && word.all isReDigit then ['_'] ++ word.reverse ++ ['_'] else word.reverse) ++ c :: wrapDigitsU [] cs

def escapeFlowNameU (name : Str) : Str := wrapDigitsU [] (escapeChain name)

end NemoVerif.LlmText
