/-
  C20 — the server among other actors (`Models/Server.lean` is one process serving requests).

  The `DataStore` is shared and externally mutable (several server processes on one store, expiry /
  erasure of keys, an operator rewriting a thread, `register_datastore`), a server process can be
  restarted, and the auto-reload watcher removes entries from `llm_rails_instances`.  A *history* is
  therefore a sequence of `Op`s, not only of requests:

    `req r`      one request through `chat_completion` of the process that is current
    `ext k f`    anybody else changes what is stored under key `k` from `v?` to `f v?`
                 (`DataStore.set` = `fun _ => some v`, erasure/expiry = `fun _ => none`, another
                 worker appending a turn = `fun v => some (v.getD [] ++ msgs)`, …; `f` is arbitrary)
    `swap st`    `register_datastore(<a store holding st>)`
    `proc i`     the following requests are served by server process `i` (its own
                 `llm_rails_instances`, the same datastore)
    `restart`    the current process is restarted (everything process-local is gone)
    `evict k`    the auto-reload watcher deletes `llm_rails_instances[k]` of the current process

  The code under `chat_completion` keeps nothing about threads outside the datastore: the only
  process-local state is the rails cache.  `World.st.store` is THE datastore; `parked` holds the rails
  caches of the processes that are not current.
-/
import NemoVerif.Models.Server

namespace NemoVerif.Server

/-- remove every binding of `k`. -/
def eraseKey {V : Type} (k : Str) : List (Str × V) → List (Str × V)
  | [] => []
  | (k', v) :: rest => if k' = k then eraseKey k rest else (k', v) :: eraseKey k rest

/-- bind `k` to `v?` (`none` = the key does not exist any more). -/
def putOpt {V : Type} (k : Str) (v? : Option V) (l : List (Str × V)) : List (Str × V) :=
  match v? with
  | some v => (k, v) :: l
  | none => eraseKey k l

def lookupN {V : Type} (i : Nat) : List (Nat × V) → Option V
  | [] => none
  | (j, v) :: rest => if j = i then some v else lookupN i rest

inductive Op (M : Type) where
  | req (r : Req M)
  | ext (k : Str) (f : Option (List M) → Option (List M))
  | swap (st : List (Str × List M))
  | proc (i : Nat)
  | restart
  | evict (k : Str)

structure World (M : Type) where
  st : State M := {}
  cur : Nat := 0
  parked : List (Nat × Cache) := []

def World.get {M : Type} (w : World M) (k : Str) : Option (List M) := w.st.get k

/-- the rails cache of process `i` (the current one lives in `st`). -/
def World.cacheOf {M : Type} (w : World M) (i : Nat) : Cache :=
  if i = w.cur then w.st.cache else (lookupN i w.parked).getD []

/-- one step of a history; requests are answered (`some resp`), the other operations are silent. -/
def opStep {M : Type} (cfg : Cfg) (pathOk : Str → Bool) (gen : Gen M) (w : World M) : Op M → Option (Resp M) × World M
  | .req r =>
    let a := step cfg pathOk gen w.st r
    (some a.1, { w with st := a.2 })
  | .ext k f => (none, { w with st := { w.st with store := putOpt k (f (w.st.get k)) w.st.store } })
  | .swap st => (none, { w with st := { w.st with store := st } })
  | .proc i =>
    (none, if i = w.cur then w
           else { st := { w.st with cache := (lookupN i w.parked).getD [] }, cur := i,
                  parked := (w.cur, w.st.cache) :: w.parked })
  | .restart => (none, { w with st := { w.st with cache := [] } })
  | .evict k => (none, { w with st := { w.st with cache := eraseKey k w.st.cache } })

/-- a history. One entry per operation in the answer list. -/
def runOps {M : Type} (cfg : Cfg) (pathOk : Str → Bool) (gen : Gen M) : World M → List (Op M) → List (Option (Resp M)) × World M
  | w, [] => ([], w)
  | w, o :: os =>
    let a := opStep cfg pathOk gen w o
    let b := runOps cfg pathOk gen a.2 os
    (a.1 :: b.1, b.2)

end NemoVerif.Server
