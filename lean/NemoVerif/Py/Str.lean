/-
  Python `str` primitives over `List Char`, with the partial operations made explicit.

  Only what the LLM-text post-processing code (C17) uses:
    strip() / lstrip() / strip(chars), split(sep) for a one-character and a multi-character
    separator, splitlines(), "sep".join, startswith / endswith, `in`, find, replace, s[0], s[-1],
    slices s[a:], s[1:-1], s[:-1] (slices are total in Python; indexing is not).

  Whitespace is exactly CPython's `Py_UNICODE_ISSPACE` set (the harness compares `wsTable` with the
  running interpreter on every run); line boundaries are exactly `str.splitlines` boundaries.
-/
namespace NemoVerif.Py

abbrev Str := List Char

inductive PyErr where
  | indexError
  | attributeError
  | valueError
  | typeError
  | keyError
  deriving Repr, DecidableEq, BEq

namespace Str

/-- code points for which `chr(n).isspace()` / `str.strip()` treat the character as whitespace -/
def wsTable : List Nat :=
  [9, 10, 11, 12, 13, 28, 29, 30, 31, 32, 0x85, 0xa0, 0x1680,
   0x2000, 0x2001, 0x2002, 0x2003, 0x2004, 0x2005, 0x2006, 0x2007, 0x2008, 0x2009, 0x200a,
   0x2028, 0x2029, 0x202f, 0x205f, 0x3000]

def isWs (c : Char) : Bool := wsTable.contains c.toNat

/-- code points at which `str.splitlines()` breaks a line (`\r\n` counts once) -/
def lineBreakTable : List Nat := [10, 11, 12, 13, 28, 29, 30, 0x85, 0x2028, 0x2029]

def isLineBreak (c : Char) : Bool := lineBreakTable.contains c.toNat

/-! ### strip family -/

def lstripBy (p : Char → Bool) (s : Str) : Str := s.dropWhile p
def rstripBy (p : Char → Bool) (s : Str) : Str := (s.reverse.dropWhile p).reverse
def stripBy (p : Char → Bool) (s : Str) : Str := rstripBy p (lstripBy p s)

/-- `s.strip()` -/
def strip (s : Str) : Str := stripBy isWs s
/-- `s.lstrip()` -/
def lstrip (s : Str) : Str := lstripBy isWs s
/-- `s.strip(chars)` / `s.lstrip(chars)` -/
def stripChars (cs : List Char) (s : Str) : Str := stripBy (fun c => cs.contains c) s
def lstripChars (cs : List Char) (s : Str) : Str := lstripBy (fun c => cs.contains c) s

/-! ### tests -/

def startsWith (s pre : Str) : Bool := pre.isPrefixOf s
def endsWith (s suf : Str) : Bool := suf.isSuffixOf s

/-- `pat in s` -/
def contains (pat : Str) : Str → Bool
  | [] => pat.isEmpty
  | c :: cs => pat.isPrefixOf (c :: cs) || contains pat cs

/-- `s.find(pat)`; `none` is Python's `-1` -/
def find (pat : Str) : Str → Option Nat
  | [] => if pat.isEmpty then some 0 else none
  | c :: cs => if pat.isPrefixOf (c :: cs) then some 0 else (find pat cs).map (· + 1)

/-! ### split / join -/

def consHead (c : Char) : List Str → List Str
  | [] => [[c]]
  | h :: t => (c :: h) :: t

/-- `s.split(sep)` for a one-character separator -/
def splitOn (sep : Char) : Str → List Str
  | [] => [[]]
  | c :: cs => if c == sep then [] :: splitOn sep cs else consHead c (splitOn sep cs)

/-- `s.split(pat)` for a non-empty multi-character separator; the `Nat` counts characters of an
    already recognised separator that are still to be skipped. -/
def splitStrAux (pat : Str) : Nat → Str → List Str
  | _, [] => [[]]
  | k + 1, _ :: cs => splitStrAux pat k cs
  | 0, c :: cs =>
    if pat.isPrefixOf (c :: cs) then [] :: splitStrAux pat (pat.length - 1) cs
    else consHead c (splitStrAux pat 0 cs)

def splitStr (pat s : Str) : List Str := splitStrAux pat 0 s

/-- `s.replace(old, new)` for a non-empty `old` -/
def replaceAux (old new : Str) : Nat → Str → Str
  | _, [] => []
  | k + 1, _ :: cs => replaceAux old new k cs
  | 0, c :: cs =>
    if old.isPrefixOf (c :: cs) then new ++ replaceAux old new (old.length - 1) cs
    else c :: replaceAux old new 0 cs

def replace (old new s : Str) : Str := replaceAux old new 0 s

/-- `sep.join(parts)` -/
def join (sep : Str) : List Str → Str
  | [] => []
  | [x] => x
  | x :: y :: rest => x ++ sep ++ join sep (y :: rest)

/-- `s.splitlines()`: like `split` on every line boundary, `\r\n` is one boundary, and a trailing
    boundary does not open a new (empty) last line. -/
def splitLinesAux : Bool → Str → Str → List Str
  | _, acc, [] => if acc.isEmpty then [] else [acc.reverse]
  | skipLf, acc, c :: cs =>
    if skipLf && c == '\n' then splitLinesAux false acc cs  -- the `\n` of a `\r\n` pair (acc is empty here)
    else if isLineBreak c then acc.reverse :: splitLinesAux (c == '\r') [] cs
    else splitLinesAux false (c :: acc) cs

def splitLines (s : Str) : List Str := splitLinesAux false [] s

/-! ### partial operations -/

/-- `s[0]` -/
def idx0 : Str → Except PyErr Char
  | [] => .error .indexError
  | c :: _ => .ok c

/-- `s[-1]` -/
def idxLast (s : Str) : Except PyErr Char :=
  match s.getLast? with
  | none => .error .indexError
  | some c => .ok c

/-- `xs[0]` on a list -/
def first {α} : List α → Except PyErr α
  | [] => .error .indexError
  | x :: _ => .ok x

/-- `xs[1]` on a list -/
def second {α} : List α → Except PyErr α
  | _ :: x :: _ => .ok x
  | _ => .error .indexError

/-- `s[1:-1]` (total) -/
def slice1m1 (s : Str) : Str := (s.drop 1).dropLast
/-- `s[:-1]` (total) -/
def sliceToM1 (s : Str) : Str := s.dropLast

/-! ## Lemmas -/

theorem consHead_ne_nil (c : Char) (l : List Str) : consHead c l ≠ [] := by
  cases l <;> simp [consHead]

/-- `split` never returns an empty list: `s.split(sep)[0]` cannot raise. -/
theorem splitOn_ne_nil (sep : Char) (s : Str) : splitOn sep s ≠ [] := by
  cases s with
  | nil => simp [splitOn]
  | cons c cs =>
    simp only [splitOn]
    split
    · simp
    · exact consHead_ne_nil _ _

theorem splitStrAux_ne_nil (pat : Str) : ∀ (k : Nat) (s : Str), splitStrAux pat k s ≠ []
  | _, [] => by simp [splitStrAux]
  | k + 1, _ :: cs => by simp only [splitStrAux]; exact splitStrAux_ne_nil pat k cs
  | 0, c :: cs => by
    simp only [splitStrAux]
    split
    · simp
    · exact consHead_ne_nil _ _

theorem splitStr_ne_nil (pat s : Str) : splitStr pat s ≠ [] := splitStrAux_ne_nil pat 0 s

theorem first_splitOn_ok (sep : Char) (s : Str) : ∃ x, first (splitOn sep s) = .ok x := by
  have h := splitOn_ne_nil sep s
  cases h' : splitOn sep s with
  | nil => exact absurd h' h
  | cons x t => exact ⟨x, rfl⟩

theorem first_splitStr_ok (pat s : Str) : ∃ x, first (splitStr pat s) = .ok x := by
  have h := splitStr_ne_nil pat s
  cases h' : splitStr pat s with
  | nil => exact absurd h' h
  | cons x t => exact ⟨x, rfl⟩

theorem join_consHead (sep : Char) (c : Char) (l : List Str) (h : l ≠ []) :
    join [sep] (consHead c l) = c :: join [sep] l := by
  cases l with
  | nil => exact absurd rfl h
  | cons x t => cases t <;> simp [consHead, join]

/-- `sep.join(s.split(sep)) == s` -/
theorem join_splitOn (sep : Char) : ∀ s : Str, join [sep] (splitOn sep s) = s
  | [] => by simp [splitOn, join]
  | c :: cs => by
    simp only [splitOn]
    split
    · rename_i h
      have hc : c = sep := by simpa using h
      have ih := join_splitOn sep cs
      cases h' : splitOn sep cs with
      | nil => exact absurd h' (splitOn_ne_nil _ _)
      | cons x t => rw [h'] at ih; simp [join, ih, hc]
    · rw [join_consHead _ _ _ (splitOn_ne_nil _ _), join_splitOn sep cs]

theorem mem_consHead {c : Char} {l : List Str} {x : Str} (h : x ∈ consHead c l) :
    (∃ y, x = c :: y ∧ (l = [] ∧ y = [] ∨ y ∈ l)) ∨ x ∈ l := by
  cases l with
  | nil => simp [consHead] at h; exact Or.inl ⟨[], by simp [h]⟩
  | cons a t =>
    simp [consHead] at h
    rcases h with h | h
    · exact Or.inl ⟨a, h, Or.inr (by simp)⟩
    · exact Or.inr (by simp [h])

/-- no piece of `s.split(sep)` contains the separator -/
theorem splitOn_no_sep (sep : Char) : ∀ (s : Str) (x : Str), x ∈ splitOn sep s → sep ∉ x
  | [], x, h => by simp [splitOn] at h; simp [h]
  | c :: cs, x, h => by
    simp only [splitOn] at h
    split at h
    · simp at h
      rcases h with h | h
      · simp [h]
      · exact splitOn_no_sep sep cs x h
    · rename_i hne
      have hc : c ≠ sep := by simpa using hne
      rcases mem_consHead h with ⟨y, rfl, hy⟩ | h'
      · rcases hy with ⟨_, rfl⟩ | hy
        · simp [Ne.symm hc]
        · have := splitOn_no_sep sep cs y hy
          simp [Ne.symm hc, this]
      · exact splitOn_no_sep sep cs x h'

/-! strip -/

theorem dropWhile_eq_nil_iff' (p : Char → Bool) (s : Str) : s.dropWhile p = [] ↔ ∀ c ∈ s, p c = true := by
  induction s with
  | nil => simp
  | cons a t ih =>
    simp only [List.dropWhile_cons]
    split
    · rename_i h; simp [ih, h]
    · rename_i h; simp [h]

theorem dropWhile_head_not (p : Char → Bool) (s : Str) (c : Char) (t : Str)
    (h : s.dropWhile p = c :: t) : p c = false := by
  induction s with
  | nil => simp at h
  | cons a u ih =>
    simp only [List.dropWhile_cons] at h
    split at h
    · exact ih h
    · rename_i hp
      simp at h
      rw [← h.1]; simpa using hp

theorem dropWhile_sublist_mem (p : Char → Bool) (s : Str) (c : Char) (h : c ∈ s.dropWhile p) : c ∈ s :=
  (List.dropWhile_sublist p).subset h

theorem stripBy_eq_nil_iff (p : Char → Bool) (s : Str) : stripBy p s = [] ↔ ∀ c ∈ s, p c = true := by
  unfold stripBy rstripBy lstripBy
  rw [List.reverse_eq_nil_iff, dropWhile_eq_nil_iff']
  constructor
  · intro h
    have h1 : ∀ c ∈ s.dropWhile p, p c = true := fun c hc => h c (by simpa using hc)
    have h2 : s.dropWhile p = [] := by
      cases hd : s.dropWhile p with
      | nil => rfl
      | cons a t =>
        have := dropWhile_head_not p s a t hd
        have := h1 a (by simp [hd])
        simp_all
    exact (dropWhile_eq_nil_iff' p s).1 h2
  · intro h c hc
    have : c ∈ s.dropWhile p := by simpa using hc
    exact h c (dropWhile_sublist_mem p s c this)

/-- `s.strip() == ""` iff `s` is all whitespace -/
theorem strip_eq_nil_iff (s : Str) : strip s = [] ↔ ∀ c ∈ s, isWs c = true := stripBy_eq_nil_iff isWs s

theorem dropWhile_idem_of_head (p : Char → Bool) (s : Str) (h : ∀ c t, s = c :: t → p c = false) :
    s.dropWhile p = s := by
  cases s with
  | nil => rfl
  | cons a t => simp [h a t rfl]

theorem dropWhile_idem (p : Char → Bool) (s : Str) : (s.dropWhile p).dropWhile p = s.dropWhile p :=
  dropWhile_idem_of_head p _ (fun c t h => dropWhile_head_not p s c t h)

/-- the first character of a non-empty `stripBy p s` does not satisfy `p` -/
theorem stripBy_head_not (p : Char → Bool) (s : Str) (c : Char) (t : Str) (h : stripBy p s = c :: t) :
    p c = false := by
  unfold stripBy rstripBy lstripBy at h
  -- the head of reverse (dropWhile p (reverse l)) is the head of l when non-empty, where l = dropWhile p s
  generalize hl : s.dropWhile p = l at h
  cases l with
  | nil => simp at h
  | cons a u =>
    have ha : p a = false := dropWhile_head_not p s a u hl
    -- dropWhile on the reverse only removes a suffix of a :: u; since p a = false, `a` survives as last of the reverse
    have hsuf : ((a :: u).reverse.dropWhile p) <:+ (a :: u).reverse := List.dropWhile_suffix p
    have hne : (a :: u).reverse.dropWhile p ≠ [] := by
      intro hnil
      have := (dropWhile_eq_nil_iff' p _).1 hnil a (by simp)
      simp_all
    obtain ⟨pre, hpre⟩ := hsuf
    have hrev : ((a :: u).reverse.dropWhile p).reverse ++ pre.reverse = a :: u := by
      have := congrArg List.reverse hpre
      simpa using this
    rw [h] at hrev
    simp at hrev
    rw [hrev.1]; exact ha

theorem stripBy_last_not (p : Char → Bool) (s : Str) (c : Char) (h : (stripBy p s).getLast? = some c) :
    p c = false := by
  unfold stripBy rstripBy at h
  rw [List.getLast?_reverse] at h
  cases hd : (lstripBy p s).reverse.dropWhile p with
  | nil => simp [hd] at h
  | cons a t =>
    simp [hd] at h
    rw [← h]; exact dropWhile_head_not p _ a t hd

theorem rstripBy_id_of_last (p : Char → Bool) (s : Str) (h : ∀ c, s.getLast? = some c → p c = false) :
    rstripBy p s = s := by
  unfold rstripBy
  rw [dropWhile_idem_of_head p s.reverse, List.reverse_reverse]
  intro c t hrev
  apply h
  have : s = (c :: t).reverse := by rw [← hrev, List.reverse_reverse]
  rw [this, List.getLast?_reverse]; simp

theorem stripBy_idem (p : Char → Bool) (s : Str) : stripBy p (stripBy p s) = stripBy p s := by
  have h1 : lstripBy p (stripBy p s) = stripBy p s := by
    unfold lstripBy
    exact dropWhile_idem_of_head p _ (fun c t h => stripBy_head_not p s c t h)
  have h2 : rstripBy p (stripBy p s) = stripBy p s :=
    rstripBy_id_of_last p _ (fun c h => stripBy_last_not p s c h)
  show rstripBy p (lstripBy p (stripBy p s)) = stripBy p s
  rw [h1, h2]

theorem strip_idem (s : Str) : strip (strip s) = strip s := stripBy_idem isWs s

theorem stripBy_sublist (p : Char → Bool) (s : Str) : (stripBy p s).Sublist s := by
  unfold stripBy rstripBy lstripBy
  have h1 : ((s.dropWhile p).reverse.dropWhile p).Sublist (s.dropWhile p).reverse := List.dropWhile_sublist p
  have h2 := h1.reverse
  rw [List.reverse_reverse] at h2
  exact h2.trans (List.dropWhile_sublist p)

theorem stripBy_mem (p : Char → Bool) (s : Str) (c : Char) (h : c ∈ stripBy p s) : c ∈ s :=
  (stripBy_sublist p s).subset h

theorem stripBy_length_le (p : Char → Bool) (s : Str) : (stripBy p s).length ≤ s.length :=
  (stripBy_sublist p s).length_le

/-- a stripped, non-empty string neither starts nor ends with whitespace -/
theorem strip_head_not_ws (s : Str) (c : Char) (t : Str) (h : strip s = c :: t) : isWs c = false :=
  stripBy_head_not isWs s c t h

theorem strip_last_not_ws (s : Str) (c : Char) (h : (strip s).getLast? = some c) : isWs c = false :=
  stripBy_last_not isWs s c h

theorem idx0_ok_of_ne_nil (s : Str) (h : s ≠ []) : ∃ c, idx0 s = .ok c := by
  cases s with
  | nil => exact absurd rfl h
  | cons c t => exact ⟨c, rfl⟩

theorem idxLast_ok_of_ne_nil (s : Str) (h : s ≠ []) : ∃ c, idxLast s = .ok c := by
  unfold idxLast
  cases hl : s.getLast? with
  | none => simp [List.getLast?_eq_none_iff] at hl; exact absurd hl h
  | some c => exact ⟨c, rfl⟩

end Str
end NemoVerif.Py
