/-
  Python value universe shared by the models (DESIGN §5.1).

  * `flt m e` is the dyadic rational `m / 2^e` (the harness only generates floats that are
    exactly representable and normalises them: `m` odd or `e = 0`); NaN/inf are not modelled.
  * `dict` is an association list in insertion order, keys are strings (event arguments are
    string-keyed; non-string keys are outside the model and never generated).
  * `set` is a list in the iteration order the harness observed.
  * `regex id` is an opaque compiled pattern; its `search` results travel as an oracle table.
  * `cmp op v` is a `ComparisonExpression` (eval.py) with reference value `v` (int/float/bool).
  * `ref kind uid` is a reference to a runtime object (flow / action / event) by uid.
-/
namespace NemoVerif

inductive CmpOp where
  | lt | le | gt | ge | ne
  deriving DecidableEq, Repr, Inhabited

inductive Val where
  | none : Val
  | bool : Bool → Val
  | int : Int → Val
  | flt : Int → Nat → Val
  | str : String → Val
  | list : List Val → Val
  | dict : List (String × Val) → Val
  | set : List Val → Val
  | regex : Nat → Val
  | cmp : CmpOp → Val → Val
  | ref : String → String → Val
  deriving Repr, Inhabited

/-- Python class of a value, as far as `isinstance(x, type(y))` can tell. -/
inductive PyType where
  | noneT | boolT | intT | floatT | strT | listT | dictT | setT | patternT | cmpT | objT (k : String)
  deriving DecidableEq, Repr

def Val.pyType : Val → PyType
  | .none => .noneT
  | .bool _ => .boolT
  | .int _ => .intT
  | .flt _ _ => .floatT
  | .str _ => .strT
  | .list _ => .listT
  | .dict _ => .dictT
  | .set _ => .setT
  | .regex _ => .patternT
  | .cmp _ _ => .cmpT
  | .ref k _ => .objT k

/-- `isinstance(x, T)` for the built-in classes: the only sub-class relation is `bool ⊂ int`. -/
def PyType.isSub (a b : PyType) : Bool :=
  a == b || (a == .boolT && b == .intT)

/-- `isinstance(x, type(y))`. -/
def Val.isInstanceOfTypeOf (x y : Val) : Bool := x.pyType.isSub y.pyType

/-- Integer value of an `int` or `bool` (Python: `True == 1`). -/
def Val.asInt? : Val → Option Int
  | .int i => some i
  | .bool b => some (if b then 1 else 0)
  | _ => Option.none

/-- Canonical key of a scalar, used to index oracle tables (regex search results).
    The harness computes the same key on the Python side. -/
def Val.key : Val → String
  | .none => "n:"
  | .bool b => if b then "b:1" else "b:0"
  | .int i => "i:" ++ toString i
  | .flt m e => "f:" ++ toString m ++ "/" ++ toString e
  | .str s => "s:" ++ s
  | .regex i => "r:" ++ toString i
  | .ref k u => "o:" ++ k ++ ":" ++ u
  | _ => "?"

/-- Order on dyadic rationals `m / 2^e`. -/
def dyLt (m1 : Int) (e1 : Nat) (m2 : Int) (e2 : Nat) : Bool :=
  decide (m1 * (2 : Int) ^ e2 < m2 * (2 : Int) ^ e1)

def dyEq (m1 : Int) (e1 : Nat) (m2 : Int) (e2 : Nat) : Bool :=
  decide (m1 * (2 : Int) ^ e2 = m2 * (2 : Int) ^ e1)

/-- Python `==` on scalars (`1 == True`, `1 == 1.0`); containers compare `false` here because
    every model that needs container equality defines it for its own purpose. -/
def Val.scalarEq : Val → Val → Bool
  | .none, .none => true
  | .bool a, .bool b => a == b
  | .bool a, .int b => (if a then 1 else 0) == b
  | .int a, .bool b => a == (if b then 1 else 0)
  | .int a, .int b => a == b
  | .int a, .flt m e => dyEq a 0 m e
  | .flt m e, .int a => dyEq m e a 0
  | .bool a, .flt m e => dyEq (if a then 1 else 0) 0 m e
  | .flt m e, .bool a => dyEq m e (if a then 1 else 0) 0
  | .flt m1 e1, .flt m2 e2 => dyEq m1 e1 m2 e2
  | .str a, .str b => a == b
  | .regex a, .regex b => a == b
  | .ref k1 u1, .ref k2 u2 => k1 == k2 && u1 == u2
  | _, _ => false

end NemoVerif
