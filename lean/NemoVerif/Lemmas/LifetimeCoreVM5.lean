/-
  C06 / refinement CoreVM → Lifetime, part 5: the `EndScope` element of `slide` (`slideStep`, case `.endScope name`).

  * `slideStep_endScope` : on an `EndScope` element `slideStep` IS `vmEndScope` (the branch as a function of its own) — proved by
    unfolding `slideStep`, so `vmEndScope` is not a transcription that could drift;
  * `corevm_endscope_core_is_op` : the hierarchy part of the branch (scope look-up, `del flow_state.scopes[name]`, "abort all
    listening flows of the scope", "release all actions of the scope") IS `Lifetime.endScope`;
  * `corevm_endscope_is_op` : the whole branch, the head bookkeeping after it (`scope_uids.remove`, `head.position += 1`) being
    invisible to `absVM`; hypothesis `NameRO` : the name oracle of the next position leaves index, instance table and action table alone.
-/
import NemoVerif.Lemmas.LifetimeCoreVM4
namespace NemoVerif.Lifetime.Refine
open NemoVerif NemoVerif.CoreVM NemoVerif.CoreIndex NemoVerif.Lifetime

/-! ### the branch as a function, and the tie to `slideStep` -/

/-- loop body of "stop all started flows in scope" -/
def scopeStep (fuel : Nat) (k : Key) (c : String) (_ : PUnit) : M (ForInStep PUnit) :=
  EStateM.bind (getInst? c) fun r =>
    match r with
    | some ci =>
      if ci.status.listening = true then
        EStateM.bind (headScores k) fun sc =>
          EStateM.bind (CoreVM.abortFlow fuel c sc false) fun _ => pure (ForInStep.yield PUnit.unit)
      else pure (ForInStep.yield PUnit.unit)
    | none => pure (ForInStep.yield PUnit.unit)

/-- loop body of `for h in flow_state.heads.values(): h.scope_uids.remove(name)` -/
def headStep (f : FUid) (name : String) (o : Head) (_ : PUnit) : M (ForInStep PUnit) := do
  modHeadX (f, o.uid) fun y => { y with scopeUids := listRemoveFirst name y.scopeUids }
  pure (ForInStep.yield PUnit.unit)

/-- the head bookkeeping of the `EndScope` branch -/
def vmEndScopeHeads (f : FUid) (h : HUid) (name : String) (pos : Nat) : M Unit := do
  let i ← getInst f
  let _ ← forIn i.heads PUnit.unit (headStep f name)
  setHeadPos (f, h) (pos + 1)

/-- the `EndScope` branch of `slideStep` -/
def vmEndScope (fuel : Nat) (f : FUid) (h : HUid) (name : String) (pos : Nat) : M Unit := do
  let x ← getInstX f
  match OMap.lookup name x.scopes with
  | none => pyRaise "ColangRuntimeError" s!"Scope with name {name} does not exist!"
  | some (flowUids, actionUids) =>
    modInstX f fun x => { x with scopes := OMap.erase name x.scopes }
    let _ ← forIn flowUids PUnit.unit (scopeStep fuel (f, h))
    let _ ← forIn actionUids PUnit.unit releaseStep
    vmEndScopeHeads f h name pos

theorem ebind_assoc {α β γ : Type} (m : M α) (k : α → M β) (g : β → M γ) :
    EStateM.bind (EStateM.bind m k) g = EStateM.bind m fun a => EStateM.bind (k a) g := by
  funext s; simp only [EStateM.bind]; cases m s <;> rfl

/-- **tie**: on an `EndScope` element, `slideStep` is `vmEndScope` followed by `return (False, [])` -/
theorem slideStep_endScope (fuel : Nat) (f : FUid) (h : HUid) (vm : VM) (cfg : FlowCfg) (hd : Head) (name : String)
    (hcfg : cfgOfInst f vm = .ok cfg vm) (hhd : getHead? (f, h) vm = .ok (some hd) vm)
    (hpos : ¬ (hd.pos ≥ cfg.elements.size ∨ hd.status = .inactive))
    (hel : cfg.elements[hd.pos]! = .endScope name) :
    slideStep fuel f h vm = (do vmEndScope fuel f h name hd.pos; return (false, [])) vm := by
  unfold slideStep
  simp only [bind, EStateM.bind, hcfg, hhd]
  have hp : (decide (hd.pos ≥ cfg.elements.size) || decide (hd.status = HeadStatus.inactive)) = false := by
    cases hb : (decide (hd.pos ≥ cfg.elements.size) || decide (hd.status = HeadStatus.inactive)) with
    | false => rfl
    | true => exact absurd (by simpa using hb) hpos
  rw [hp, hel]
  simp only [Bool.false_eq_true, if_false]
  unfold vmEndScope vmEndScopeHeads
  show _ = EStateM.bind _ (fun _ => pure (false, [])) vm
  simp only [bind, ebind_assoc]
  simp only [EStateM.bind]
  cases getInstX f vm with
  | error e s => rfl
  | ok a s =>
    simp only []
    cases OMap.lookup name a.scopes with
    | none => rfl
    | some p =>
      obtain ⟨fl, al⟩ := p
      show _ = (EStateM.bind (EStateM.bind _ _) (fun _ => pure (false, []))) s
      simp only [ebind_assoc]
      rfl


/-! ### the scope dict -/

variable (ν φ : String → Nat)

theorem scopeLookup_map (hν : Function.Injective ν) (name : String) : ∀ (l : List (String × List String × List String)),
    scopeLookup (ν name) (l.map fun e => (ν e.1, e.2.1.map ν, e.2.2.map ν)) =
      (OMap.lookup name l).map fun p => (p.1.map ν, p.2.map ν)
  | [] => rfl
  | (k, v) :: l => by
    simp only [List.map_cons, scopeLookup, OMap.lookup]
    by_cases hk : k = name
    · subst hk; simp
    · have : (ν k == ν name) = false := by
        simp only [beq_eq_false_iff_ne, ne_eq]
        exact fun e => hk (hν e)
      simp only [this, Bool.false_eq_true, if_false, hk]
      exact scopeLookup_map hν name l

theorem erase_not_mem {α : Type} (name : String) : ∀ (l : List (String × α)), name ∉ l.map (·.1) → OMap.erase name l = l
  | [], _ => rfl
  | (k, v) :: l, h => by
    simp only [List.map_cons, List.mem_cons, not_or] at h
    have hk : ¬ k = name := fun e => h.1 e.symm
    simp only [OMap.erase, hk, if_false]
    rw [erase_not_mem name l h.2]

/-- `del d[name]` on a dict with unique keys removes the first (= only) entry -/
theorem scopeErase_map (hν : Function.Injective ν) (name : String) : ∀ (l : List (String × List String × List String)),
    (l.map (·.1)).Nodup →
    (OMap.erase name l).map (fun e => (ν e.1, e.2.1.map ν, e.2.2.map ν)) =
      scopeErase (ν name) (l.map fun e => (ν e.1, e.2.1.map ν, e.2.2.map ν))
  | [], _ => rfl
  | (k, v) :: l, h => by
    simp only [List.map_cons, List.nodup_cons] at h
    simp only [List.map_cons, scopeErase, OMap.erase]
    by_cases hk : k = name
    · subst hk
      simp only [if_true, beq_self_eq_true]
      rw [erase_not_mem k l h.1]
    · have : (ν k == ν name) = false := by
        simp only [beq_eq_false_iff_ne, ne_eq]
        exact fun e => hk (hν e)
      simp only [this, Bool.false_eq_true, if_false, hk, List.map_cons]
      rw [scopeErase_map hν name l h.2]

/-! ### "stop all started flows in scope" -/

theorem cs_scopeFlowLoop (rec : State → Nat → Except Err State) (hrec : CsRec rec) : ∀ (l : List Nat) (s s0 : State), cs s = cs s0 →
    csE (scopeFlowLoop rec s l) = csE (scopeFlowLoop rec s0 l)
  | [], s, s0, h => by simp only [scopeFlowLoop, csE_ok, h]
  | c :: cs', s, s0, h => by
    have hfl : s.flows = s0.flows := by
      have := congrArg State.flows h; exact this
    simp only [scopeFlowLoop]
    rw [hfl]
    cases hc : s0.flows c with
    | none => exact cs_scopeFlowLoop rec hrec cs' s s0 h
    | some cf =>
      simp only
      by_cases hb : cf.status.listening = true
      · simp only [hb, if_true]
        have hr : csE (rec s c) = csE (rec s0 c) := by rw [hrec s c, hrec s0 c, h]
        rcases csE_cases hr with ⟨e, e1, e2⟩ | ⟨t, t', e1, e2, ht⟩
        · rw [e1, e2]
        · rw [e1, e2]
          exact cs_scopeFlowLoop rec hrec cs' t t' ht
      · simp only [hb, if_false]
        exact cs_scopeFlowLoop rec hrec cs' s s0 h

theorem getInst?_run (c : FUid) (vm : VM) : getInst? c vm = .ok (findInst vm.ixs.ix c) vm := rfl
theorem headScores_run (k : Key) (vm : VM) : ∃ sc, headScores k vm = .ok sc vm := ⟨_, rfl⟩

theorem scope_loop (hν : Function.Injective ν) (hφ : Function.Injective φ) (fuel : Nat) (k : Key) :
    ∀ (l : List String) (vm vm' : VM), WF vm →
    forIn l PUnit.unit (scopeStep fuel k) vm = .ok PUnit.unit vm' →
    ∃ t, scopeFlowLoop (fun s c => Lifetime.abortFlow fuel s c false) (absVM ν φ vm) (l.map ν) = .ok t ∧
      absVM ν φ vm' = cs t ∧ WF vm'
  | [], vm, vm', hw, h => by
    rw [List.forIn_nil] at h
    cases h
    exact ⟨_, rfl, rfl, hw⟩
  | c :: l, vm, vm', hw, h => by
    rw [List.forIn_cons] at h
    simp only [bind, EStateM.bind, scopeStep] at h
    rw [getInst?_run] at h
    simp only at h
    simp only [List.map_cons, scopeFlowLoop]
    rw [absVM_flows ν φ hν]
    cases hc : findInst vm.ixs.ix c with
    | none =>
      rw [hc] at h
      simp only [pure, EStateM.pure] at h
      have hrest := scope_loop hν hφ fuel k l vm vm' hw h
      cases hx : OMap.lookup c vm.r.fx with
      | none => exact hrest
      | some cx =>
        simp only [Option.map_some]
        have : (absFlow ν φ vm c cx).status.listening = false := by
          simp only [absFlow, hc]; rfl
        simp only [this, Bool.false_eq_true, if_false]
        exact hrest
    | some ci =>
      rw [hc] at h
      simp only at h
      obtain ⟨cx, hx⟩ := wfi_lookup vm hw.i c ci hc
      rw [hx]
      simp only [Option.map_some]
      have hl : (absFlow ν φ vm c cx).status.listening = ci.status.listening := by
        simp only [absFlow, hc]; exact absStatus_listening _
      rw [hl]
      by_cases hb : ci.status.listening = true
      · simp only [hb, if_true] at h ⊢
        obtain ⟨sc, hsc⟩ := headScores_run k vm
        simp only [EStateM.bind, hsc] at h
        cases hr : CoreVM.abortFlow fuel c sc false vm with
        | error e s => rw [hr] at h; cases h
        | ok u1 vm1 =>
          rw [hr] at h
          simp only [pure, EStateM.pure] at h
          obtain ⟨t1, h1, a1, w1⟩ := corevm_abort_is_op ν φ hν hφ fuel vm c sc false vm1 hw hr
          rw [h1]
          simp only
          obtain ⟨t2, h2, a2, w2⟩ := scope_loop hν hφ fuel k l vm1 vm' w1 h
          have hcl := cs_scopeFlowLoop (fun s c => Lifetime.abortFlow fuel s c false) (fun s c => cs_abortFlow fuel s c false)
            (l.map ν) t1 (cs t1) rfl
          rw [← a1, h2] at hcl
          obtain ⟨t3, h3, e3⟩ := csE_ok_inv hcl
          exact ⟨t3, h3, by rw [a2, e3], w2⟩
      · simp only [hb, if_false, pure, EStateM.pure] at h ⊢
        exact scope_loop hν hφ fuel k l vm vm' hw h


/-! ### the head bookkeeping is invisible to `absVM` -/

/-- what `absVM` reads of an index instance -/
def proj (i : Inst) : FlowStatus × Nat := (i.status, i.heads.length)

theorem absVM_of_same (vm vm' : VM) (h1 : ∀ u, (findInst vm'.ixs.ix u).map proj = (findInst vm.ixs.ix u).map proj)
    (h2 : vm'.r.fx = vm.r.fx) (h3 : vm'.r.actions = vm.r.actions) :
    absVM ν φ vm' = absVM ν φ vm := by
  have : absFlow ν φ vm' = absFlow ν φ vm := by
    funext u x
    have := h1 u
    cases ha : findInst vm'.ixs.ix u with
    | none =>
      cases hb : findInst vm.ixs.ix u with
      | none => simp only [absFlow, ha, hb]
      | some j => rw [ha, hb] at this; cases this
    | some i =>
      cases hb : findInst vm.ixs.ix u with
      | none => rw [ha, hb] at this; cases this
      | some j =>
        rw [ha, hb] at this
        simp only [Option.map_some, Option.some.injEq, proj, Prod.mk.injEq] at this
        simp only [absFlow, ha, hb, this.1, this.2]
  simp only [absVM, this, h2, h3]

theorem findInst_congr (s s' : IState) (h : s'.insts = s.insts) (u : FUid) : findInst s' u = findInst s u := by
  unfold findInst; rw [h]

theorem touchHead_proj (s : IState) (f : FUid) (h : HUid) (g : Head → Head) (u : FUid) :
    (findInst (touchHead s f h g) u).map proj = (findInst s u).map proj := by
  unfold touchHead
  cases hf : findInst s f with
  | none => rfl
  | some i =>
    simp only
    cases hh : i.findHead h with
    | none => rfl
    | some hd =>
      simp only
      rw [findInst_congr _ _ (headChanged_insts _ _ _ _ _), findInst_modifyInst _ f u (fun i => i.modifyHead h g) (fun _ => rfl),
        Option.map_map]
      congr 1
      funext j
      simp only [Function.comp]
      split
      · simp only [proj, Inst.modifyHead, List.length_map]
      · rfl

theorem touchHead_uids (s : IState) (f : FUid) (h : HUid) (g : Head → Head) :
    (touchHead s f h g).insts.map (·.uid) = s.insts.map (·.uid) := by
  unfold touchHead
  cases hf : findInst s f with
  | none => rfl
  | some i =>
    simp only
    cases hh : i.findHead h with
    | none => rfl
    | some hd =>
      simp only
      rw [headChanged_insts, modifyInst_uids _ f (fun i => i.modifyHead h g) (fun _ => rfl)]

theorem setPos_proj (s : IState) (f : FUid) (h : HUid) (p : Nat) (nm : Option String) (u : FUid) :
    (findInst (step s (.setPos f h p nm)) u).map proj = (findInst s u).map proj := by
  simp only [step]
  cases (findInst s f).bind (·.findHead h) with
  | none => rfl
  | some hd =>
    simp only
    split
    · rfl
    · exact touchHead_proj s f h _ u

theorem setPos_uids (s : IState) (f : FUid) (h : HUid) (p : Nat) (nm : Option String) :
    (step s (.setPos f h p nm)).insts.map (·.uid) = s.insts.map (·.uid) := by
  simp only [step]
  cases (findInst s f).bind (·.findHead h) with
  | none => rfl
  | some hd =>
    simp only
    split
    · rfl
    · exact touchHead_uids s f h _

theorem head_loop (f : FUid) (name : String) : ∀ (l : List Head) (vm vm' : VM),
    forIn l PUnit.unit (headStep f name) vm = .ok PUnit.unit vm' →
    vm'.ixs = vm.ixs ∧ vm'.r.fx = vm.r.fx ∧ vm'.r.actions = vm.r.actions
  | [], vm, vm', h => by
    rw [List.forIn_nil] at h
    cases h
    exact ⟨rfl, rfl, rfl⟩
  | o :: l, vm, vm', h => by
    rw [List.forIn_cons] at h
    obtain ⟨vm1, hvm1, e1, e2, e3⟩ : ∃ vm1, headStep f name o PUnit.unit vm = .ok (ForInStep.yield PUnit.unit) vm1 ∧
        vm1.ixs = vm.ixs ∧ vm1.r.fx = vm.r.fx ∧ vm1.r.actions = vm.r.actions := ⟨_, rfl, rfl, rfl, rfl⟩
    simp only [bind, EStateM.bind] at h
    rw [hvm1] at h
    obtain ⟨a1, a2, a3⟩ := head_loop f name l vm1 vm' h
    exact ⟨a1.trans e1, a2.trans e2, a3.trans e3⟩

/-- the name oracle for position `p` of `f` (it evaluates the event name of a `match` element) touches neither the index, nor the
    instance table, nor the action table (it may burn uids: `Action(...)` / `create_flow_instance(...)` temporaries) -/
def NameRO (f : FUid) (p : Nat) : Prop :=
  ∀ hst vm a vm', nameFor f p hst vm = .ok a vm' → vm'.ixs = vm.ixs ∧ vm'.r.fx = vm.r.fx ∧ vm'.r.actions = vm.r.actions

theorem attemptPy_cases {α : Type} (x : M α) (vm : VM) :
    (∃ a vm1, x vm = .ok a vm1 ∧ attemptPy x vm = .ok (.ok a) vm1) ∨
    (∃ cm vm1, attemptPy x vm = .ok (.error cm) vm1) ∨ (∃ e vm1, attemptPy x vm = .error e vm1) := by
  unfold attemptPy
  simp only [tryCatch, tryCatchThe, MonadExceptOf.tryCatch, EStateM.tryCatch, bind, EStateM.bind]
  cases hx : x vm with
  | ok a vm1 => exact Or.inl ⟨a, vm1, rfl, rfl⟩
  | error e vm1 =>
    cases e with
    | py c m => exact Or.inr (Or.inl ⟨(c, m), _, rfl⟩)
    | _ => exact Or.inr (Or.inr ⟨_, _, rfl⟩)


theorem getHead?_run (k : Key) (vm : VM) : getHead? k vm = .ok ((findInst vm.ixs.ix k.1).bind (·.findHead k.2)) vm := rfl

/-- `head.position = p` changes neither the non-index part nor what `absVM` reads of the index -/
theorem setHeadPos_frame (k : Key) (p : Nat) (vm vm' : VM) (hro : NameRO k.1 p) (h : setHeadPos k p vm = .ok () vm') :
    (vm'.r.fx = vm.r.fx ∧ vm'.r.actions = vm.r.actions) ∧ (∀ u, (findInst vm'.ixs.ix u).map proj = (findInst vm.ixs.ix u).map proj) ∧
      vm'.ixs.ix.insts.map (·.uid) = vm.ixs.ix.insts.map (·.uid) := by
  unfold setHeadPos at h
  simp only [bind, EStateM.bind] at h
  rw [getHead?_run] at h
  simp only at h
  cases hh : (findInst vm.ixs.ix k.1).bind (·.findHead k.2) with
  | none => rw [hh] at h; cases h
  | some hd =>
    rw [hh] at h
    simp only at h
    by_cases hp : hd.pos = p
    · simp only [hp, if_true] at h
      cases h
      exact ⟨⟨rfl, rfl⟩, fun _ => rfl, rfl⟩
    · simp only [hp, if_false] at h
      simp only [EStateM.bind] at h
      rcases attemptPy_cases (nameFor k.1 p hd.status) vm with ⟨nm, vm1, hx, ha⟩ | ⟨cm, vm1, ha⟩ | ⟨e, vm1, ha⟩
      · obtain ⟨e1, e2, e3⟩ := hro hd.status vm nm vm1 hx
        rw [ha] at h
        simp only at h
        by_cases hg : (Op.setPos k.1 k.2 p nm).guard vm1.ixs.ix = true
        · rw [applyOp_run _ vm1 hg] at h
          cases h
          refine ⟨⟨e2, e3⟩, fun u => ?_, ?_⟩
          · have := setPos_proj vm1.ixs.ix k.1 k.2 p nm u
            rw [e1] at this
            rw [← this]
            show (findInst (step vm1.ixs.ix _) u).map proj = _
            rw [e1]
          · have := setPos_uids vm1.ixs.ix k.1 k.2 p nm
            rw [e1] at this
            rw [← this]
            show (step vm1.ixs.ix _).insts.map (·.uid) = _
            rw [e1]
        · unfold CoreVM.applyOp at h
          simp only [hg, dite_false] at h
          cases h
      · rw [ha] at h
        simp only at h
        obtain ⟨c, m⟩ := cm
        simp only [EStateM.bind] at h
        cases hap : CoreVM.applyOp (Op.setPos k.1 k.2 p none) vm1 with
        | error e s => rw [hap] at h; cases h
        | ok u s => rw [hap] at h; cases h
      · rw [ha] at h; cases h

theorem endScopeHeads_frame (f : FUid) (h : HUid) (name : String) (pos : Nat) (vm vm' : VM) (hw : WF vm)
    (hro : NameRO f (pos + 1)) (hrun : vmEndScopeHeads f h name pos vm = .ok () vm') :
    absVM ν φ vm' = absVM ν φ vm ∧ WF vm' := by
  unfold vmEndScopeHeads at hrun
  simp only [bind, EStateM.bind] at hrun
  cases hfi : findInst vm.ixs.ix f with
  | none => rw [getInst_run_none f vm hfi] at hrun; cases hrun
  | some i =>
    rw [getInst_run_some f vm i hfi] at hrun
    simp only at hrun
    cases hl : forIn i.heads PUnit.unit (headStep f name) vm with
    | error e s => rw [hl] at hrun; cases hrun
    | ok u1 vm1 =>
      rw [hl] at hrun
      simp only at hrun
      obtain ⟨a1, a2, a3⟩ := head_loop f name i.heads vm vm1 hl
      obtain ⟨b1, b2, b3⟩ := setHeadPos_frame (f, h) (pos + 1) vm1 vm' hro hrun
      have w1 : WF vm1 := hw.of_same a1 a2 a3
      refine ⟨?_, ?_⟩
      · rw [absVM_of_same ν φ vm1 vm' b2 b1.1 b1.2]
        exact absVM_of_same ν φ vm vm1 (fun u => by rw [a1]) a2 a3
      · refine ⟨?_, ?_, ?_, ?_⟩
        · intro k a hk; rw [b1.2] at hk; exact w1.a k a hk
        · unfold WFI; rw [b3, b1.1]; exact w1.i
        · intro k a hk; rw [b1.2] at hk; exact w1.g k a hk
        · intro k x hk; rw [b1.1] at hk; exact w1.n k x hk


/-! ### the whole branch -/

theorem modify_not_mem {α : Type} (f : String) (g : α → α) : ∀ (l : List (String × α)), f ∉ l.map (·.1) → OMap.modify f g l = l
  | [], _ => rfl
  | (k, v) :: l, h => by
    simp only [List.map_cons, List.mem_cons, not_or] at h
    have hk : ¬ k = f := fun e => h.1 e.symm
    simp only [OMap.modify, hk, if_false]
    rw [modify_not_mem f g l h.2]

/-- on a dict with unique keys, `d[f] = g(d[f])` only needs the value of `g` at the stored record -/
theorem modify_const_of_lookup {α : Type} (f : String) (g : α → α) (x : α) : ∀ (l : List (String × α)), (l.map (·.1)).Nodup →
    OMap.lookup f l = some x → OMap.modify f g l = OMap.modify f (fun _ => g x) l
  | [], _, h => by cases h
  | (k, v) :: l, hn, h => by
    simp only [List.map_cons, List.nodup_cons] at hn
    simp only [OMap.lookup] at h
    by_cases hk : k = f
    · subst hk
      simp only [if_true, Option.some.injEq] at h
      subst h
      simp only [OMap.modify, if_true]
      rw [modify_not_mem k g l hn.1, modify_not_mem k _ l hn.1]
    · simp only [hk, if_false] at h
      simp only [OMap.modify, hk, if_false]
      rw [modify_const_of_lookup f g x l hn.2 h]

theorem cs_so (t : State) : cs (so t) = cs t := rfl

/-- **the `EndScope` element IS `Lifetime.endScope`**: if the branch returns normally from a well-formed state in which the scope
    dict of `f` has unique keys (a Python dict), then `Lifetime.endScope` on the abstract state returns normally, the abstract
    post-states agree (up to queue / outgoing events, which `absVM` does not abstract) and the post-state is well-formed.
    `NameRO`: the name oracle of the next position leaves index, instance table and action table alone. -/
theorem corevm_endscope_is_op (hν : Function.Injective ν) (hφ : Function.Injective φ) (fuel : Nat) (f : FUid) (h : HUid) (name : String)
    (pos : Nat) (vm vm' : VM) (hw : WF vm)
    (hsn : ∀ x, OMap.lookup f vm.r.fx = some x → (x.scopes.map (·.1)).Nodup)
    (hro : NameRO f (pos + 1))
    (hrun : vmEndScope fuel f h name pos vm = .ok () vm') :
    ∃ t, Lifetime.endScope fuel (absVM ν φ vm) (ν f) (ν name) = .ok t ∧ absVM ν φ vm' = cs t ∧ WF vm' := by
  unfold vmEndScope at hrun
  simp only [bind, EStateM.bind] at hrun
  cases hx : OMap.lookup f vm.r.fx with
  | none => rw [getInstX_run_none f vm hx] at hrun; cases hrun
  | some x =>
  rw [getInstX_run_some f vm x hx] at hrun
  simp only at hrun
  cases hsl : OMap.lookup name x.scopes with
  | none => rw [hsl] at hrun; cases hrun
  | some p =>
  obtain ⟨fl, al⟩ := p
  rw [hsl] at hrun
  simp only [EStateM.bind, modInstX_run] at hrun
  -- 1. `del flow_state.scopes[name]`
  obtain ⟨g, hg⟩ : ∃ g : InstX → InstX, g = fun x => { x with scopes := OMap.erase name x.scopes } := ⟨_, rfl⟩
  rw [← hg] at hrun
  have hkeys : (vm.r.fx.map (·.1)).Nodup := by rw [← hw.i.1]; exact hw.i.2
  have hvm1 : vmMod vm f g = vmMod vm f (fun _ => g x) := by
    unfold vmMod
    rw [modify_const_of_lookup f g x vm.r.fx hkeys hx]
  have w1 : WF (vmMod vm f g) := hw.vmMod f g (fun x hx => by rw [hg]; exact hx)
  have habs1 : absVM ν φ (vmMod vm f g) =
      setFlow (absVM ν φ vm) (ν f) { absFlow ν φ vm f x with scopes := scopeErase (ν name) (absFlow ν φ vm f x).scopes } := by
    rw [hvm1, absVM_vmMod ν φ hν vm f (fun _ => g x)
      (fun fl' => { absFlow ν φ vm f (g x) with status := fl'.status, heads := fl'.heads }) (fun u x' => rfl)]
    unfold modFlow
    rw [absVM_flows ν φ hν, hx]
    simp only [Option.map_some]
    congr 1
    have := scopeErase_map ν hν name x.scopes (hsn x hx)
    simp only [absFlow, hg, this]
  -- 2. the listening flows of the scope
  cases hl1 : forIn fl PUnit.unit (scopeStep fuel (f, h)) (vmMod vm f g) with
  | error e s => rw [hl1] at hrun; cases hrun
  | ok u2 vm2 =>
  rw [hl1] at hrun
  simp only at hrun
  obtain ⟨t2, h2, a2, w2⟩ := scope_loop ν φ hν hφ fuel (f, h) fl (vmMod vm f g) vm2 w1 hl1
  -- 3. the actions of the scope
  cases hl2 : forIn al PUnit.unit releaseStep vm2 with
  | error e s => rw [hl2] at hrun; cases hrun
  | ok u3 vm3 =>
  rw [hl2] at hrun
  simp only at hrun
  obtain ⟨t3, h3, a3, wa3, hix3, hfx3, hn3⟩ := release_loop ν φ hν al vm2 vm3 w2.a w2.i w2.g hl2
  have w3 : WF vm3 := by
    refine ⟨wa3, ?_, ?_, ?_⟩
    · unfold WFI; rw [hix3, hfx3]; exact w2.i
    · intro k a hk
      obtain ⟨y, hy, e⟩ := hn3 k a hk
      rw [e]; exact w2.g k y hy
    · intro k y hk; rw [hfx3] at hk; exact w2.n k y hk
  -- 4. the head bookkeeping
  obtain ⟨a4, w4⟩ := endScopeHeads_frame ν φ f h name pos vm3 vm' w3 hro hrun
  -- assemble
  have hst := cs_stopActions (al.map ν) t2
  rw [← a2, h3] at hst
  have hst' : csE (stopActions t2 (al.map ν)) = .ok (cs t3) := hst
  obtain ⟨t5, h5, e5⟩ := csE_ok_inv hst'
  refine ⟨t5, ?_, ?_, w4⟩
  · unfold Lifetime.endScope
    rw [absVM_flows ν φ hν, hx]
    simp only [Option.map_some]
    have hsc : scopeLookup (ν name) (absFlow ν φ vm f x).scopes = some (fl.map ν, al.map ν) := by
      have := scopeLookup_map ν hν name x.scopes
      rw [hsl] at this
      exact this
    rw [hsc]
    simp only
    rw [← habs1, h2]
    exact h5
  · rw [a4, e5]
    have := congrArg cs a3
    rw [cs_absVM, cs_so] at this
    exact this


/-- the `EndScope` step of `slide` IS `Lifetime.endScope` (tie + refinement in one statement) -/
theorem corevm_slideStep_endScope_is_op (hν : Function.Injective ν) (hφ : Function.Injective φ) (fuel : Nat) (f : FUid) (h : HUid)
    (vm vm' : VM) (cfg : FlowCfg) (hd : Head) (name : String) (r : Bool × List Key)
    (hcfg : cfgOfInst f vm = .ok cfg vm) (hhd : getHead? (f, h) vm = .ok (some hd) vm)
    (hpos : ¬ (hd.pos ≥ cfg.elements.size ∨ hd.status = .inactive))
    (hel : cfg.elements[hd.pos]! = .endScope name) (hw : WF vm)
    (hsn : ∀ x, OMap.lookup f vm.r.fx = some x → (x.scopes.map (·.1)).Nodup)
    (hro : NameRO f (hd.pos + 1))
    (hrun : slideStep fuel f h vm = .ok r vm') :
    r = (false, []) ∧ ∃ t, Lifetime.endScope fuel (absVM ν φ vm) (ν f) (ν name) = .ok t ∧ absVM ν φ vm' = cs t ∧ WF vm' := by
  rw [slideStep_endScope fuel f h vm cfg hd name hcfg hhd hpos hel] at hrun
  simp only [bind, EStateM.bind] at hrun
  cases hv : vmEndScope fuel f h name hd.pos vm with
  | error e s => rw [hv] at hrun; cases hrun
  | ok u vm1 =>
    rw [hv] at hrun
    have hres := corevm_endscope_is_op ν φ hν hφ fuel f h name hd.pos vm vm1 hw hsn hro hv
    cases hrun
    exact ⟨rfl, hres⟩

/-- the hierarchy clauses of T2 hold along the `EndScope` element -/
theorem corevm_endscope_hierarchy_inv (hν : Function.Injective ν) (hφ : Function.Injective φ) (fuel : Nat) (f : FUid) (h : HUid)
    (name : String) (pos : Nat) (vm vm' : VM) (hw : WF vm)
    (hsn : ∀ x, OMap.lookup f vm.r.fx = some x → (x.scopes.map (·.1)).Nodup) (hro : NameRO f (pos + 1))
    (hf : FlowInv (absVM ν φ vm)) (hl : LinkInv (absVM ν φ vm))
    (hrun : vmEndScope fuel f h name pos vm = .ok () vm') :
    FlowInv (absVM ν φ vm') ∧ LinkInv (absVM ν φ vm') ∧ WF vm' := by
  obtain ⟨t, ht, ha, w'⟩ := corevm_endscope_is_op ν φ hν hφ fuel f h name pos vm vm' hw hsn hro hrun
  rw [ha]
  exact ⟨FlowInv.cs (endScope_flowInv hf fuel (ν f) (ν name) t ht), LinkInv.cs (endScope_linked fuel _ (ν f) (ν name) t hl ht), w'⟩

/-- `NameRO` holds when the element at `p` is not a `match` (no event name is evaluated) -/
theorem nameRO_of_not_match (f : FUid) (p : Nat)
    (hnm : ∀ vm cfg vm', cfgOfInst f vm = .ok cfg vm' → ∀ spec b, elemAt cfg p ≠ some (.matchOp spec b)) : NameRO f p := by
  intro hst vm a vm' h
  unfold nameFor at h
  simp only [bind, EStateM.bind] at h
  cases hfi : findInst vm.ixs.ix f with
  | none => rw [getInst_run_none f vm hfi] at h; cases h
  | some i =>
    rw [getInst_run_some f vm i hfi] at h
    simp only at h
    split at h
    · cases h; exact ⟨rfl, rfl, rfl⟩
    · simp only [EStateM.bind] at h
      cases hc : cfgOfInst f vm with
      | error e s => rw [hc] at h; cases h
      | ok cfg s =>
        have hs := readOnly_cfgOfInst f vm cfg s hc
        subst hs
        rw [hc] at h
        simp only at h
        have hne := hnm _ cfg _ hc
        cases he : elemAt cfg p with
        | none => rw [he] at h; cases h; exact ⟨rfl, rfl, rfl⟩
        | some pr =>
          rw [he] at h
          cases pr <;> first | exact absurd he (hne _ _) | (cases h; exact ⟨rfl, rfl, rfl⟩)


/-! ### non-vacuity: a well-formed VM state whose head stands at an `EndScope` element, and `slideStep` returns normally -/

def cfgEx5 : FlowCfg :=
  { id := "a", elements := #[.endScope "s", .other], labels := [], params := [], returnMembers := [], loopId := none,
    loopPriority := 0, metaTags := [] }

def vmEx5 : VM :=
  { ixs := ({} : IxS).apply (.addInst "a" "h" none) (by rfl),
    r := { prog := { flows := [cfgEx5] },
           fx := [("a", { flowId := "a", loopId := none, hierPos := "0", scopes := [("s", ([], []))] })] } }

theorem vmEx5_wf : WF vmEx5 := by
  refine ⟨?_, ?_, ?_, ?_⟩
  · intro k a h; simp [vmEx5, OMap.lookup] at h
  · exact ⟨by rfl, by decide⟩
  · intro k a h; simp [vmEx5, OMap.lookup] at h
  · intro k x h
    simp only [vmEx5, OMap.lookup] at h
    split at h
    · cases h; decide
    · cases h

theorem vmEx5_nodup : ∀ x, OMap.lookup "a" vmEx5.r.fx = some x → (x.scopes.map (·.1)).Nodup := by
  intro x h
  simp only [vmEx5, OMap.lookup, if_true, Option.some.injEq] at h
  subst h
  decide

theorem vmEx5_cfg : cfgOfInst "a" vmEx5 = .ok cfgEx5 vmEx5 := by rfl
theorem vmEx5_slide_ok : (match slideStep 3 "a" "h" vmEx5 with | .ok r _ => r == (false, []) | .error _ _ => false) = true := by rfl

end NemoVerif.Lifetime.Refine
