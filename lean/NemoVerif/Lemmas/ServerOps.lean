/-
  C20 — lemmas about histories with other actors (`Models/ServerOps.lean`).
  The datastore is the only state a turn depends on; caches of every process stay confined.
-/
import NemoVerif.Lemmas.Server
import NemoVerif.Models.ServerOps

namespace NemoVerif.Server
open NemoVerif.Generated.C20

deriving instance DecidableEq for Resp

/-! ### association lists -/

theorem lookup_eraseKey {V : Type} (k k' : Str) (l : List (Str × V)) :
    lookup k' (eraseKey k l) = if k' = k then none else lookup k' l := by
  induction l with
  | nil => simp [eraseKey, lookup]
  | cons kv rest ih =>
    obtain ⟨a, v⟩ := kv
    by_cases h : a = k
    · subst h
      simp only [eraseKey, if_true, ih, lookup]
      by_cases h2 : k' = a
      · subst h2; simp
      · have : a ≠ k' := fun e => h2 e.symm
        simp [h2, this]
    · simp only [eraseKey, h, if_false, lookup, ih]
      by_cases h2 : a = k'
      · subst h2; simp [h]
      · simp [h2]

theorem lookup_putOpt {V : Type} (k k' : Str) (v? : Option V) (l : List (Str × V)) :
    lookup k' (putOpt k v? l) = if k' = k then v? else lookup k' l := by
  cases v? with
  | none => simp [putOpt, lookup_eraseKey]
  | some v =>
    simp only [putOpt, lookup]
    by_cases h : k = k'
    · subst h; simp
    · have : k' ≠ k := fun e => h e.symm
      simp [h, this]

theorem eraseKey_mem {V : Type} (k : Str) (l : List (Str × V)) : ∀ kv ∈ eraseKey k l, kv ∈ l := by
  induction l with
  | nil => simp [eraseKey]
  | cons a rest ih =>
    obtain ⟨a, v⟩ := a
    intro kv h
    by_cases e : a = k
    · simp only [eraseKey, e, if_true] at h
      exact List.mem_cons_of_mem _ (ih kv h)
    · simp only [eraseKey, e, if_false] at h
      rcases List.mem_cons.1 h with rfl | h
      · exact List.mem_cons_self
      · exact List.mem_cons_of_mem _ (ih kv h)

theorem lookupN_mem {V : Type} (i : Nat) (l : List (Nat × V)) (v : V) (h : lookupN i l = some v) : (i, v) ∈ l := by
  induction l with
  | nil => simp [lookupN] at h
  | cons a rest ih =>
    obtain ⟨j, x⟩ := a
    simp only [lookupN] at h
    split at h
    · rename_i e
      simp at h
      subst e; subst h
      exact List.mem_cons_self
    · exact List.mem_cons_of_mem _ (ih h)

/-! ### one turn, key by key -/

/-- What the statement says a request does to the datastore `σ`, as a function of `σ`, the request and
    the answer ONLY: a completed turn with a thread id binds the thread's key to
    `stored thread ++ new messages ++ [reply]`; every other answer, and every other key, changes nothing. -/
def turnEffect {M : Type} (σ : Str → Option (List M)) (r : Req M) : Resp M → Str → Option (List M)
  | .ok reply _ _ =>
    match r.threadId with
    | some t => fun k => if k = threadKey t then some ((σ (threadKey t)).getD [] ++ newMsgs r ++ [reply]) else σ k
    | none => σ
  | _ => σ

theorem finishTurn_get {M : Type} (cfg : Cfg) (gen : Gen M) (s : State M) (r : Req M) (served : List Str)
    (hne : ∀ t, r.threadId = some t → t ≠ []) (k : Str) :
    (finishTurn cfg gen s r served).2.get k = turnEffect s.get r (finishTurn cfg gen s r served).1 k := by
  unfold finishTurn
  cases ht : threadPart cfg s r with
  | error e =>
    simp only
    rcases threadPart_error cfg s r e ht with rfl | rfl <;> simp [turnEffect]
  | ok ku =>
    obtain ⟨key?, used⟩ := ku
    simp only
    split
    · simp [turnEffect]
    · cases hg : gen s.turn served used with
      | none => simp [turnEffect]
      | some reply =>
        simp only
        rcases threadPart_ok cfg s r key? used ht with ⟨hth, rfl, rfl⟩ | ⟨t, hth, _, _, _, rfl, rfl⟩
        · rcases hth with h | h
          · simp [turnEffect, h]
          · exact absurd rfl (hne [] h)
        · simp only [turnEffect, hth, get_cons, stored]
          by_cases e : threadKey t = k
          · subst e; simp
          · have : k ≠ threadKey t := fun h => e h.symm
            simp [e, this]

theorem step_get {M : Type} (cfg : Cfg) (pathOk : Str → Bool) (gen : Gen M) (s : State M) (r : Req M) (k : Str) :
    (step cfg pathOk gen s r).2.get k = turnEffect s.get r (step cfg pathOk gen s r).1 k := by
  rcases step_cases cfg pathOk gen s r with ⟨hst, hok, _⟩ | ⟨ids?, ids, key, served, hv, _, _, heq⟩
  · have : turnEffect s.get r (step cfg pathOk gen s r).1 = s.get := by
      cases h : (step cfg pathOk gen s r).1 with
      | ok reply used sv => exact absurd h (hok reply used sv)
      | _ => rfl
    rw [this]
    simp [State.get, hst]
  · rw [heq, finishTurn_get cfg gen _ r served (validate_ne_nil r ids? hv) k]
    rfl

/-- the answer of a request and the datastore afterwards are functions of the datastore CONTENT, the rails
    cache and the turn counter: two states that agree on these answer identically (nothing else about
    the past of the process is consulted). -/
theorem threadPart_congr {M : Type} (cfg : Cfg) (s s' : State M) (r : Req M) (h : ∀ k, s.get k = s'.get k) :
    threadPart cfg s r = threadPart cfg s' r := by
  unfold threadPart
  cases r.threadId with
  | none => rfl
  | some t => simp only [h]

theorem finishTurn_congr {M : Type} (cfg : Cfg) (gen : Gen M) (s s' : State M) (r : Req M) (served : List Str)
    (h : ∀ k, s.get k = s'.get k) (ht : s.turn = s'.turn) :
    (finishTurn cfg gen s r served).1 = (finishTurn cfg gen s' r served).1 := by
  unfold finishTurn
  rw [threadPart_congr cfg s s' r h, ht]
  cases threadPart cfg s' r with
  | error e => rfl
  | ok ku =>
    obtain ⟨key?, used⟩ := ku
    simp only
    split
    · rfl
    · cases gen s'.turn served used with
      | none => rfl
      | some reply => cases key? <;> rfl

theorem step_congr {M : Type} (cfg : Cfg) (pathOk : Str → Bool) (gen : Gen M) (s s' : State M) (r : Req M)
    (h : ∀ k, s.get k = s'.get k) (hc : s.cache = s'.cache) (ht : s.turn = s'.turn) :
    (step cfg pathOk gen s r).1 = (step cfg pathOk gen s' r).1 := by
  unfold step
  cases validate r with
  | none => rfl
  | some ids? =>
    simp only
    cases resolveIds cfg ids? with
    | none => rfl
    | some ids =>
      simp only
      rw [hc]
      unfold afterRails
      cases (getRails cfg pathOk s'.cache ids).res with
      | error e => rfl
      | ok ks =>
        obtain ⟨key, served⟩ := ks
        simp only
        exact finishTurn_congr cfg gen _ _ r served (fun k => h k) (by simp [State.withRails, State.tick, ht])

/-! ### histories -/

/-- What the statement says one operation does to the datastore (a function of the datastore before,
    the operation and, for a request, its answer). -/
def absStep {M : Type} (σ : Str → Option (List M)) : Op M → Option (Resp M) → Str → Option (List M)
  | .req r, some a => turnEffect σ r a
  | .ext k f, _ => fun k' => if k' = k then f (σ k) else σ k'
  | .swap st, _ => fun k' => lookup k' st
  | _, _ => σ

/-- the datastore of the statement along a history. -/
def absRun {M : Type} (σ : Str → Option (List M)) : List (Op M) → List (Option (Resp M)) → Str → Option (List M)
  | o :: os, a :: as => absRun (absStep σ o a) os as
  | _, _ => σ

theorem opStep_get {M : Type} (cfg : Cfg) (pathOk : Str → Bool) (gen : Gen M) (w : World M) (o : Op M) (k : Str) :
    (opStep cfg pathOk gen w o).2.get k = absStep w.get o (opStep cfg pathOk gen w o).1 k := by
  cases o with
  | req r => exact step_get cfg pathOk gen w.st r k
  | ext k0 f => simp [opStep, absStep, World.get, State.get, lookup_putOpt]
  | swap st => simp [opStep, absStep, World.get, State.get]
  | proc i =>
    simp only [opStep, absStep]
    split <;> rfl
  | restart => rfl
  | evict k0 => rfl

theorem absRun_congr {M : Type} (σ σ' : Str → Option (List M)) (h : ∀ k, σ k = σ' k) (ops : List (Op M))
    (as : List (Option (Resp M))) (k : Str) : absRun σ ops as k = absRun σ' ops as k := by
  have : σ = σ' := funext h
  rw [this]

theorem runOps_get {M : Type} (cfg : Cfg) (pathOk : Str → Bool) (gen : Gen M) (ops : List (Op M)) (w : World M) (k : Str) :
    (runOps cfg pathOk gen w ops).2.get k = absRun w.get ops (runOps cfg pathOk gen w ops).1 k := by
  induction ops generalizing w with
  | nil => rfl
  | cons o os ih =>
    simp only [runOps, absRun]
    rw [ih]
    exact absRun_congr _ _ (fun k => opStep_get cfg pathOk gen w o k) _ _ _

theorem runOps_length {M : Type} (cfg : Cfg) (pathOk : Str → Bool) (gen : Gen M) (ops : List (Op M)) (w : World M) :
    (runOps cfg pathOk gen w ops).1.length = ops.length := by
  induction ops generalizing w with
  | nil => rfl
  | cons o os ih => simp [runOps, ih]

theorem runOps_append {M : Type} (cfg : Cfg) (pathOk : Str → Bool) (gen : Gen M) (a b : List (Op M)) (w : World M) :
    runOps cfg pathOk gen w (a ++ b) =
      ((runOps cfg pathOk gen w a).1 ++ (runOps cfg pathOk gen (runOps cfg pathOk gen w a).2 b).1,
       (runOps cfg pathOk gen (runOps cfg pathOk gen w a).2 b).2) := by
  induction a generalizing w with
  | nil => simp [runOps]
  | cons o os ih => simp [runOps, ih]

/-! ### configuration side: every process stays confined, whatever happens around it -/

/-- the invariant of a world: every path ever loaded is inside the root, and so is every path of every
    cached instance of EVERY process (current and parked). -/
def WInv {M : Type} (cfg : Cfg) (w : World M) : Prop :=
  Inv cfg w.st ∧ ∀ ic ∈ w.parked, CacheOk cfg.base ic.2

theorem cacheOk_eraseKey (base : Str) (k : Str) (c : Cache) (h : CacheOk base c) : CacheOk base (eraseKey k c) :=
  fun kp hkp => h kp (eraseKey_mem k c kp hkp)

theorem opStep_inv {M : Type} (cfg : Cfg) (hb : AbsNorm cfg.base) (pathOk : Str → Bool) (gen : Gen M)
    (w : World M) (o : Op M) (hw : WInv cfg w) :
    WInv cfg (opStep cfg pathOk gen w o).2 ∧
    (∀ reply used served, (opStep cfg pathOk gen w o).1 = some (.ok reply used served) → ∀ p ∈ served, Inside cfg.base p) := by
  cases o with
  | req r =>
    have h := step_inv cfg hb pathOk gen w.st r hw.1
    refine ⟨⟨h.1, hw.2⟩, ?_⟩
    intro reply used served he
    simp only [opStep, Option.some.injEq] at he
    exact h.2 reply used served he
  | ext k f => exact ⟨⟨⟨hw.1.1, hw.1.2⟩, hw.2⟩, by simp [opStep]⟩
  | swap st => exact ⟨⟨⟨hw.1.1, hw.1.2⟩, hw.2⟩, by simp [opStep]⟩
  | proc i =>
    refine ⟨?_, by simp [opStep]⟩
    simp only [opStep]
    split
    · exact hw
    · refine ⟨⟨hw.1.1, ?_⟩, ?_⟩
      · show CacheOk cfg.base ((lookupN i w.parked).getD [])
        cases hl : lookupN i w.parked with
        | none => simp [CacheOk]
        | some c => exact hw.2 (i, c) (lookupN_mem i w.parked c hl)
      · intro ic hic
        rcases List.mem_cons.1 hic with rfl | h
        · exact hw.1.2
        · exact hw.2 ic h
  | restart => exact ⟨⟨⟨hw.1.1, by simp [opStep, CacheOk]⟩, hw.2⟩, by simp [opStep]⟩
  | evict k => exact ⟨⟨⟨hw.1.1, cacheOk_eraseKey cfg.base k w.st.cache hw.1.2⟩, hw.2⟩, by simp [opStep]⟩

theorem runOps_inv {M : Type} (cfg : Cfg) (hb : AbsNorm cfg.base) (pathOk : Str → Bool) (gen : Gen M)
    (ops : List (Op M)) (w : World M) (hw : WInv cfg w) :
    WInv cfg (runOps cfg pathOk gen w ops).2 ∧
    (∀ a ∈ (runOps cfg pathOk gen w ops).1, ∀ reply used served, a = some (.ok reply used served) → ∀ p ∈ served, Inside cfg.base p) := by
  induction ops generalizing w with
  | nil => exact ⟨hw, by simp [runOps]⟩
  | cons o os ih =>
    have h1 := opStep_inv cfg hb pathOk gen w o hw
    have h2 := ih (opStep cfg pathOk gen w o).2 h1.1
    simp only [runOps]
    refine ⟨h2.1, ?_⟩
    intro a ha
    rcases List.mem_cons.1 ha with rfl | hm
    · exact h1.2
    · exact h2.2 a hm

/-- no cached key of any process matches the regex. -/
def WKeysGood {M : Type} (w : World M) : Prop :=
  KeysGood w.st.cache ∧ ∀ ic ∈ w.parked, KeysGood ic.2

theorem opStep_keysGood {M : Type} (cfg : Cfg) (hs : cfg.single = none) (pathOk : Str → Bool) (gen : Gen M)
    (w : World M) (o : Op M) (hw : WKeysGood w) : WKeysGood (opStep cfg pathOk gen w o).2 := by
  cases o with
  | req r => exact ⟨step_keysGood cfg hs pathOk gen w.st r hw.1, hw.2⟩
  | ext k f => exact hw
  | swap st => exact hw
  | proc i =>
    simp only [opStep]
    split
    · exact hw
    · refine ⟨?_, ?_⟩
      · show KeysGood ((lookupN i w.parked).getD [])
        cases hl : lookupN i w.parked with
        | none => simp [KeysGood]
        | some c => exact hw.2 (i, c) (lookupN_mem i w.parked c hl)
      · intro ic hic
        rcases List.mem_cons.1 hic with rfl | h
        · exact hw.1
        · exact hw.2 ic h
  | restart => exact ⟨by simp [opStep, KeysGood], hw.2⟩
  | evict k => exact ⟨fun kp hkp => hw.1 kp (eraseKey_mem k w.st.cache kp hkp), hw.2⟩

theorem runOps_keysGood {M : Type} (cfg : Cfg) (hs : cfg.single = none) (pathOk : Str → Bool) (gen : Gen M)
    (ops : List (Op M)) (w : World M) (hw : WKeysGood w) : WKeysGood (runOps cfg pathOk gen w ops).2 := by
  induction ops generalizing w with
  | nil => exact hw
  | cons o os ih => simp only [runOps]; exact ih _ (opStep_keysGood cfg hs pathOk gen w o hw)

/-! ### frame: who can change a key -/

/-- the operations that can change what is stored under `k`: a completed turn on the thread whose key is `k`,
    an external change of `k`, a datastore swap. -/
def touches {M : Type} (k : Str) : Op M → Option (Resp M) → Bool
  | .req r, some (.ok _ _ _) => r.threadId.map threadKey == some k
  | .ext k' _, _ => k == k'
  | .swap _, _ => true
  | _, _ => false

def touchedIn {M : Type} (k : Str) : List (Op M) → List (Option (Resp M)) → Bool
  | o :: os, a :: as => touches k o a || touchedIn k os as
  | _, _ => false

theorem absStep_untouched {M : Type} (σ : Str → Option (List M)) (o : Op M) (a : Option (Resp M)) (k : Str)
    (h : touches k o a = false) : absStep σ o a k = σ k := by
  cases o with
  | req r =>
    cases a with
    | none => rfl
    | some a =>
      cases a with
      | ok reply used served =>
        simp only [absStep, turnEffect]
        cases ht : r.threadId with
        | none => rfl
        | some t =>
          simp only
          have : k ≠ threadKey t := by
            intro e
            simp [touches, ht, e] at h
          simp [this]
      | _ => rfl
  | ext k' f =>
    have : k ≠ k' := by
      intro e
      simp [touches, e] at h
    simp [absStep, this]
  | swap st => simp [touches] at h
  | proc i => rfl
  | restart => rfl
  | evict k' => rfl

theorem absRun_untouched {M : Type} (ops : List (Op M)) (as : List (Option (Resp M))) (σ : Str → Option (List M)) (k : Str)
    (h : touchedIn k ops as = false) : absRun σ ops as k = σ k := by
  induction ops generalizing as σ with
  | nil => rfl
  | cons o os ih =>
    cases as with
    | nil => rfl
    | cons a as =>
      simp only [absRun]
      simp only [touchedIn, Bool.or_eq_false_iff] at h
      rw [ih as _ h.2, absStep_untouched σ o a k h.1]

end NemoVerif.Server
