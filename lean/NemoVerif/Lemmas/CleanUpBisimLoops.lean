/-
  C11 / T3 — loops of CoreVM that run over ALL instances / over snapshot lists: the live run iterates over discarded
  instances too, and those iterations do nothing (`sim_forIn_filter`); `_update_action_status_by_event`.
-/
import NemoVerif.Lemmas.CleanUpBisimHeads
open NemoVerif NemoVerif.CoreIndex NemoVerif.CoreVM NemoVerif.C11.Bisim

namespace NemoVerif.C11.Bisim

/-- a `for` loop over a snapshot list in the live run and over the same list without the discarded elements in the aged run:
    the live iterations over discarded elements do nothing -/
theorem sim_forIn_filter {rm α β} (keep : α → Bool) (body : α → β → M (ForInStep β)) :
    ∀ (l : List α), (∀ a ∈ l, keep a = false → ∀ b, body a b = Pure.pure (ForInStep.yield b)) →
      (∀ a ∈ l, keep a = true → ∀ b, Diag rm (body a b)) →
      ∀ (init : β) s s', Aged rm s s' → Sim2U rm Eq (forIn l init body) (forIn (l.filter keep) init body) s s'
  | [], _, _, init, s, s', h => by simpa using Sim2U.pure (rm := rm) (ρ := Eq) (rfl : init = init) h
  | a :: l, hrm, hk, init, s, s', h => by
    have ih := sim_forIn_filter (rm := rm) keep body l (fun x hx => hrm x (List.mem_cons_of_mem _ hx))
      (fun x hx => hk x (List.mem_cons_of_mem _ hx))
    by_cases hka : keep a = true
    · simp only [List.filter, hka, List.forIn_cons]
      refine Sim2U.bind (hk a List.mem_cons_self hka init s s' h) ?_
      intro r r' s1 s1' _ _ hr h1
      subst hr
      cases r with
      | done b => exact Sim2U.pure rfl h1
      | yield b => exact ih b s1 s1' h1
    · have hka' : keep a = false := by simpa using hka
      simp only [List.filter, hka', List.forIn_cons, hrm a List.mem_cons_self hka' init]
      show Sim2U rm Eq (forIn l init body) _ s s'
      exact ih init s s' h


theorem XRel.actionUids {rm c c' x x'} (h : XRel rm c c' x x') : x'.actionUids = x.actionUids := by
  have := congrArg InstX.actionUids h.eq
  simpa [agedX] using this

/-- the body of the inner loop of `_update_action_status_by_event` -/
def actBody (e : Match.Ev) : String → PUnit → M (ForInStep PUnit) := fun au __s => do
  let __do_lift ← getAction? au
  match __do_lift with
    | some a =>
      if (a.status != ActStatus.finished) = true then do
        setAction (a.processEvent e)
        Pure.pure (ForInStep.yield PUnit.unit)
      else Pure.pure (ForInStep.yield PUnit.unit)
    | none => Pure.pure (ForInStep.yield PUnit.unit)

theorem actBody_fx (e : Match.Ev) (au : String) (b : PUnit) (s s1 : VM) (r : ForInStep PUnit)
    (h : actBody e au b s = .ok r s1) : s1.r.fx = s.r.fx := by
  unfold actBody CoreVM.getAction? CoreVM.setAction at h
  simp only [bind, EStateM.bind, getRest, get, getThe, MonadStateOf.get, EStateM.get, pure, EStateM.pure, modifyRest, modify,
    modifyGet, MonadStateOf.modifyGet, EStateM.modifyGet] at h
  cases hl : OMap.lookup au s.r.actions with
  | none => rw [hl] at h; cases h; rfl
  | some a =>
    rw [hl] at h
    simp only at h
    split at h <;> (cases h; rfl)

/-- the inner loop: the actions a kept instance refers to are the same objects in both tables -/
theorem sim_actionLoop {rm} (e : Match.Ev) {f : FUid} (hk : keepB rm f = true) (x0 : InstX) :
    ∀ (aus : List String), (∀ au ∈ aus, au ∈ x0.actionUids) → ∀ (b : PUnit) s s', Aged rm s s' → OMap.lookup f s.r.fx = some x0 →
      Sim2U rm Eq (forIn aus b (actBody e)) (forIn aus b (actBody e)) s s'
  | [], _, b, s, s', h, _ => by simpa using Sim2U.pure (rm := rm) (ρ := Eq) (rfl : b = b) h
  | au :: aus, hsub, b, s, s', h, hx => by
    rw [List.forIn_cons]
    have hstep : Sim2U rm Eq (actBody e au b) (actBody e au b) s s' := by
      unfold actBody
      have hl := h.actionsKept f x0 hk hx au (hsub au List.mem_cons_self)
      refine Sim2U.bind (ρ := Eq) ⟨hl.symm, h⟩ ?_
      intro o o' s1 s1' _ _ ho h1
      subst ho
      refine (?_ : Diag rm _) s1 s1' h1
      repeat' (first
        | with_reducible exact Diag.pure _
        | with_reducible exact diag_setAction _
        | with_reducible refine Diag.bind ?_ (fun _ => ?_)
        | split
        | dsimp only)
    refine Sim2U.bind hstep ?_
    intro r r' s1 s1' e1 _ hr h1
    subst hr
    have hx1 : OMap.lookup f s1.r.fx = some x0 := by rw [actBody_fx e au b s s1 r e1]; exact hx
    cases r with
    | done b' => exact Sim2U.pure rfl h1
    | yield b' => exact sim_actionLoop e hk x0 aus (fun a ha => hsub a (List.mem_cons_of_mem _ ha)) b' s1 s1' h1 hx1


theorem find_of_mem_nodup : ∀ (l : List Inst), (l.map (·.uid)).Nodup → ∀ i ∈ l, l.find? (·.uid = i.uid) = some i
  | [], _, _, hi => by cases hi
  | a :: l, hn, i, hi => by
    simp only [List.map_cons, List.nodup_cons] at hn
    by_cases ha : a.uid = i.uid
    · rcases List.mem_cons.mp hi with rfl | hmem
      · simp
      · exact absurd (List.mem_map.mpr ⟨i, hmem, ha.symm⟩) hn.1
    · rcases List.mem_cons.mp hi with rfl | hmem
      · exact absurd rfl ha
      · simp [List.find?, ha, find_of_mem_nodup l hn.2 i hmem]

/-- **`_update_action_status_by_event`**: iterates ALL instances — the discarded ones are done, hence not listening, hence
    skipped by the live run; for the others the actions they refer to are the same objects in both action tables -/
theorem diag_updateActionStatusByEvent {rm} (e : Match.Ev) : Diag rm (updateActionStatusByEvent e) := by
  intro s s' h
  unfold CoreVM.updateActionStatusByEvent
  refine Sim2U.bind (ρ := fun ix ix' => ix = s.ixs.ix ∧ ix' = s'.ixs.ix) ⟨⟨rfl, rfl⟩, h⟩ ?_
  intro ix ix' s1 s1' e1 e1' hix h1
  obtain ⟨rfl, rfl⟩ := hix
  have hs1 : s1 = s := by cases e1; rfl
  have hs1' : s1' = s' := by cases e1'; rfl
  subst hs1; subst hs1'
  rw [h.insts]
  refine Sim2U.bind (sim_forIn_filter (rm := rm) (fun i : Inst => keepB rm i.uid) _ s1.ixs.ix.insts ?_ ?_ PUnit.unit s1 s1' h)
    (fun _ _ _ _ _ _ _ h2 => Sim2U.pure rfl h2)
  · intro i hi hk b
    have hfind : findInst s1.ixs.ix i.uid = some i := find_of_mem_nodup _ (indexOK_of_vm s1).uids.1 i hi
    have hd := h.rmDone i.uid (by simpa [keepB] using hk) i hfind
    have hl : i.status.listening = false := by
      cases hs : i.status <;> simp [hs, FlowStatus.done, FlowStatus.listening] at hd ⊢
    simp [hl]
  · intro i hi hk b s2 s2' h2
    split
    · refine Sim2U.bind (Sim2.toU (Sim2.of_rel (ro_getInstX i.uid) (ro_getInstX i.uid) h2 (h2.rel_getInstX hk))) ?_
      intro x x' s3 s3' e3 _ hx h3
      have hs3 : s3 = s2 := (ro_getInstX i.uid).state_eq e3
      subst hs3
      have hlook : OMap.lookup i.uid s3.r.fx = some x := res_getInstX (by unfold res; rw [e3])
      rw [hx.actionUids]
      exact Sim2U.bind (sim_actionLoop e hk x x.actionUids (fun _ ha => ha) PUnit.unit s3 s3' h3 hlook)
        (fun _ _ _ _ _ _ _ h4 => Sim2U.pure rfl h4)
    · exact Sim2U.pure rfl h2



/-! ### outgoing events, releasing actions, the restart of activated flows -/

theorem diag_appendOutgoing {rm} (e : Match.Ev) :
    Diag rm (modifyRest fun r => { r with outgoing := r.outgoing ++ [e] }) :=
  fun _ _ h => ⟨rfl, { h with outgoing := by simp [h.outgoing] }⟩

theorem diag_generateUmimEvent {rm} (e : Match.Ev) : Diag rm (generateUmimEvent e) := by
  unfold CoreVM.generateUmimEvent
  extract_lets e0 jp
  have hjp : ∀ r e', Diag rm (jp r e') := by
    intro r e'
    simp only [jp]
    repeat' (first
      | with_reducible exact Diag.pure _
      | with_reducible exact diag_pyRaise _ _
      | with_reducible exact diag_unsupported _
      | with_reducible exact diag_freshUid
      | with_reducible exact diag_appendOutgoing _
      | with_reducible exact diag_updateActionStatusByEvent _
      | with_reducible refine Diag.bind ?_ (fun _ => ?_)
      | split)
  repeat' (first
    | with_reducible exact diag_pyRaise _ _
    | with_reducible exact diag_unsupported _
    | with_reducible exact diag_freshUid
    | with_reducible refine Diag.bind ?_ (fun _ => ?_)
    | split
    | dsimp only)
  all_goals exact hjp () _



/-- stop an action when its last scope leaves — for an action a kept instance refers to (`EndScope`, `_abort_flow`, `_finish_flow`
    iterate over `flow_state.action_uids` of the flow they are about) -/
theorem sim_releaseAction {rm s s'} (h : Aged rm s s') {f : FUid} {x : InstX} (hk : keepB rm f = true)
    (hx : OMap.lookup f s.r.fx = some x) {au : String} (hau : au ∈ x.actionUids) :
    Sim2U rm Eq (releaseAction au) (releaseAction au) s s' := by
  unfold CoreVM.releaseAction
  have hl := h.actionsKept f x hk hx au hau
  refine Sim2U.bind (ρ := Eq) ⟨hl.symm, h⟩ ?_
  intro o o' s1 s1' _ _ ho h1
  subst ho
  refine (?_ : Diag rm _) s1 s1' h1
  repeat' (first
    | with_reducible exact Diag.pure _
    | with_reducible exact diag_pyRaise _ _
    | with_reducible exact diag_setAction _
    | with_reducible exact diag_generateUmimEvent _
    | with_reducible refine Diag.bind ?_ (fun _ => ?_)
    | split
    | dsimp only)

/-- the `FlowFailed` event of a kept instance -/
theorem diag_failedEvent {rm} {f : FUid} (hk : keepB rm f = true) (scores : List Score) : Diag rm (failedEvent f scores) := by
  unfold CoreVM.failedEvent
  exact Diag.bind (diag_flowObjOf hk) fun _ => Diag.pure _


theorem XRel.newInstanceStarted {rm c c' x x'} (h : XRel rm c c' x x') : x'.newInstanceStarted = x.newInstanceStarted := by
  have := congrArg InstX.newInstanceStarted h.eq
  simpa [agedX] using this

theorem diag_pushLeft_mark {rm} {f : FUid} (hk : keepB rm f = true) (e : Event) :
    Diag rm (do pushLeftEvent e; modInstX f fun x => { x with newInstanceStarted := true }) := by
  intro s s' h
  refine Sim2U.bind (Sim2.toU (sim_pushLeftEvent h e)) ?_
  intro _ _ s4 s4' _ _ _ h4
  refine ⟨rfl, h4.modInstX hk _ _ ?_ (fun _ => rfl)⟩
  intro y y' hy
  refine ⟨?_, hy.stamp⟩
  have := congrArg (fun z : InstX => { z with newInstanceStarted := true }) hy.eq
  simpa [agedX] using this

/-- **the restart of an activated flow** at the end of `_abort_flow` / `_finish_flow`, for a kept instance whose parent (if it
    is still activated) is kept: same `StartFlow` event pushed to the front of the queue, same flag -/
theorem sim_restartActivated {rm s s'} (h : Aged rm s s') (hp : ActParentsKept rm s) {f : FUid} (hk : keepB rm f = true)
    (scores : List Score) (deactivate : Bool) :
    Sim2U rm Eq (restartActivated f scores deactivate) (restartActivated f scores deactivate) s s' := by
  unfold CoreVM.restartActivated
  refine Sim2U.bind (Sim2.toU (Sim2.of_rel (ro_getInstX f) (ro_getInstX f) h (h.rel_getInstX hk))) ?_
  intro x x' s1 s1' e1 e1' hx h1
  have hs1 : s1 = s := (ro_getInstX f).state_eq e1
  have hs1' : s1' = s' := (ro_getInstX f).state_eq e1'
  subst hs1; subst hs1'
  have hlook : OMap.lookup f s1.r.fx = some x := res_getInstX (by unfold res; rw [e1])
  rw [hx.activated, hx.newInstanceStarted, hx.parentUid, hx.flowId]
  by_cases hc : (!deactivate && decide (x.activated > 0) && !x.newInstanceStarted) = true
  · simp only [hc, if_true]
    have hact : x.activated > 0 := by
      simp only [Bool.and_eq_true, decide_eq_true_eq] at hc
      exact hc.1.2
    refine Sim2U.bind (diag_flowObjOf hk s1 s1' h1) ?_
    intro o o' s2a s2a' _ _ ho h2a
    subst ho
    refine Sim2U.bind (diag_flowStartEvent o [] s2a s2a' h2a) ?_
    intro ev ev' s2 s2' _ _ hev h2
    subst hev
    cases hpu : x.parentUid with
    | none =>
      simp only
      refine Sim2U.bind (ρ := Eq) (Sim2U.pure rfl h2) ?_
      intro src src' s3 s3' _ _ hsrc h3
      subst hsrc
      exact diag_pushLeft_mark hk _ s3 s3' h3
    | some p =>
      simp only
      have hkp := hp f x hk hlook hact p hpu
      refine Sim2U.bind (sim_getInstX? h2 p) ?_
      intro po po' s3 s3' _ _ hpo h3
      simp only [hkp, if_true] at hpo
      cases po <;> cases po' <;> simp only [ORel] at hpo
      · exact Sim2U.bind (ρ := fun (_ _ : FUid) => True) (Sim2U.throw _ h3) (fun _ _ _ _ e _ _ _ => by cases e)
      · simp only [hpo.flowId]
        refine Sim2U.bind (ρ := Eq) (Sim2U.pure rfl h3) ?_
        intro src src' s4 s4' _ _ hsrc h4
        subst hsrc
        exact diag_pushLeft_mark hk _ s4 s4' h4
  · simp only [hc]
    exact Sim2U.pure rfl h1

end NemoVerif.C11.Bisim
