/-
  C06 / refinement CoreVM → Lifetime, part 7: the outermost call sites of `_abort_flow` / `_finish_flow` in
  `_process_internal_events_without_default_matchers`: a `StopFlow` / `FinishFlow` event that names an instance
  (`flow_instance_uid`) IS `stopEventOp` = the inactive test followed by `Lifetime.abortFlow … (activated > 0)` /
  `Lifetime.finishFlow … false`.  Stated on `CoreVM.processInternalEvent` itself (no transcription).
-/
import NemoVerif.Lemmas.LifetimeCoreVM6
namespace NemoVerif.Lifetime.Refine
open NemoVerif NemoVerif.CoreVM NemoVerif.CoreIndex NemoVerif.Lifetime

/-- `StopFlow(flow_instance_uid=u)` / `FinishFlow(flow_instance_uid=u)` on the abstract state -/
def stopEventOp (n : Nat) (s : State) (u : Nat) (finish : Bool) : Except Err State :=
  match s.flows u with
  | none => .ok s
  | some fl =>
    if fl.status == .waiting || fl.status == .stopped || fl.status == .finished then .ok s
    else if finish then finishFlow n s u false else abortFlow n s u (decide (fl.activated > 0))

variable (ν φ : String → Nat)

theorem inactive_abs (st : FlowStatus) :
    (absStatus st == FStatus.waiting || absStatus st == FStatus.stopped || absStatus st == FStatus.finished) =
      (decide (st = FlowStatus.waiting) || decide (st = FlowStatus.stopped) || decide (st = FlowStatus.finished)) := by
  cases st <;> rfl

theorem corevm_stopflow_event_is_op (hν : Function.Injective ν) (hφ : Function.Injective φ) (fuel : Nat) (event : Event) (vm vm' : VM)
    (uid : String) (r : Event × List String)
    (hname : event.ev.name = "StopFlow") (huid : lookupArg "flow_instance_uid" event.ev.args = some (.str uid)) (hw : WF vm)
    (hrun : processInternalEvent fuel event vm = .ok r vm') :
    r.1 = event ∧ ∃ t, stopEventOp fuel (absVM ν φ vm) (ν uid) false = .ok t ∧ absVM ν φ vm' = cs t ∧ WF vm' := by
  unfold processInternalEvent at hrun
  simp only [bind, EStateM.bind, hname, huid] at hrun
  have hgr : getRest vm = .ok vm.r vm := rfl
  rw [hgr] at hrun
  simp only [pure, EStateM.pure, getInst?_run] at hrun
  unfold stopEventOp
  rw [absVM_flows ν φ hν]
  cases hfi : findInst vm.ixs.ix uid with
  | none =>
    rw [hfi] at hrun
    simp only at hrun
    cases hrun
    refine ⟨rfl, absVM ν φ vm, ?_, rfl, hw⟩
    cases hx : OMap.lookup uid vm.r.fx with
    | none => rfl
    | some x =>
      simp only [Option.map_some]
      have : (absFlow ν φ vm uid x).status = .stopped := by simp only [absFlow, hfi]
      simp only [this]
      rfl
  | some i =>
    rw [hfi] at hrun
    simp only at hrun
    obtain ⟨x, hx⟩ := wfi_lookup vm hw.i uid i hfi
    rw [hx]
    simp only [Option.map_some]
    have hstat : (absFlow ν φ vm uid x).status = absStatus i.status := by simp only [absFlow, hfi]
    rw [hstat, inactive_abs]
    by_cases hin : (decide (i.status = FlowStatus.waiting) || decide (i.status = FlowStatus.stopped) || decide (i.status = FlowStatus.finished)) = true
    · simp only [hin, Bool.not_true, Bool.false_eq_true, if_false, if_true] at hrun ⊢
      cases hrun
      exact ⟨rfl, _, rfl, rfl, hw⟩
    · simp only [hin, Bool.not_false, if_true, if_false] at hrun ⊢
      have hsf : ("StopFlow" = "FinishFlow") = False := by decide
      simp only [hsf, if_false, EStateM.bind, getInstX_run_some uid vm x hx] at hrun
      have hact : decide ((absFlow ν φ vm uid x).activated > 0) = decide (x.activated > 0) := by
        simp only [absFlow]
        congr 1
        apply propext
        omega
      rw [hact]
      cases ha : CoreVM.abortFlow fuel uid event.scores (decide (x.activated > 0)) vm with
      | error e s => rw [ha] at hrun; cases hrun
      | ok u1 vm1 =>
        rw [ha] at hrun
        simp only at hrun
        obtain ⟨t, ht, hab, w1⟩ := corevm_abort_is_op ν φ hν hφ fuel vm uid event.scores _ vm1 hw ha
        cases hx1 : OMap.lookup uid vm1.r.fx with
        | none => rw [getInstX_run_none uid vm1 hx1] at hrun; cases hrun
        | some x1 =>
          rw [getInstX_run_some uid vm1 x1 hx1] at hrun
          simp only at hrun
          cases hl : x1.loopId with
          | none => rw [hl] at hrun; cases hrun
          | some l =>
            rw [hl] at hrun
            cases hrun
            exact ⟨rfl, t, ht, hab, w1⟩


theorem corevm_finishflow_event_is_op (hν : Function.Injective ν) (hφ : Function.Injective φ) (fuel : Nat) (event : Event) (vm vm' : VM)
    (uid : String) (r : Event × List String)
    (hname : event.ev.name = "FinishFlow") (huid : lookupArg "flow_instance_uid" event.ev.args = some (.str uid)) (hw : WF vm)
    (hlog : LogInvisible fuel uid event.scores)
    (hrun : processInternalEvent fuel event vm = .ok r vm') :
    r.1 = event ∧ ∃ t, stopEventOp fuel (absVM ν φ vm) (ν uid) true = .ok t ∧ absVM ν φ vm' = cs t ∧ WF vm' := by
  unfold processInternalEvent at hrun
  simp only [bind, EStateM.bind, hname, huid] at hrun
  have hgr : getRest vm = .ok vm.r vm := rfl
  rw [hgr] at hrun
  simp only [pure, EStateM.pure, getInst?_run] at hrun
  unfold stopEventOp
  rw [absVM_flows ν φ hν]
  cases hfi : findInst vm.ixs.ix uid with
  | none =>
    rw [hfi] at hrun
    simp only at hrun
    cases hrun
    refine ⟨rfl, absVM ν φ vm, ?_, rfl, hw⟩
    cases hx : OMap.lookup uid vm.r.fx with
    | none => rfl
    | some x =>
      simp only [Option.map_some]
      have : (absFlow ν φ vm uid x).status = .stopped := by simp only [absFlow, hfi]
      simp only [this]
      rfl
  | some i =>
    rw [hfi] at hrun
    simp only at hrun
    obtain ⟨x, hx⟩ := wfi_lookup vm hw.i uid i hfi
    rw [hx]
    simp only [Option.map_some]
    have hstat : (absFlow ν φ vm uid x).status = absStatus i.status := by simp only [absFlow, hfi]
    rw [hstat, inactive_abs]
    by_cases hin : (decide (i.status = FlowStatus.waiting) || decide (i.status = FlowStatus.stopped) || decide (i.status = FlowStatus.finished)) = true
    · simp only [hin, Bool.not_true, Bool.false_eq_true, if_false, if_true] at hrun ⊢
      cases hrun
      exact ⟨rfl, _, rfl, rfl, hw⟩
    · simp only [hin, Bool.not_false, if_true] at hrun ⊢
      simp only [EStateM.bind] at hrun
      cases ha : CoreVM.finishFlow fuel uid event.scores false vm with
      | error e s => rw [ha] at hrun; cases hrun
      | ok u1 vm1 =>
        rw [ha] at hrun
        simp only at hrun
        obtain ⟨t, ht, hab, w1⟩ := corevm_finish_is_op ν φ hν hφ fuel vm uid event.scores false vm1 hlog hw ha
        cases hx1 : OMap.lookup uid vm1.r.fx with
        | none => rw [getInstX_run_none uid vm1 hx1] at hrun; cases hrun
        | some x1 =>
          rw [getInstX_run_some uid vm1 x1 hx1] at hrun
          simp only at hrun
          cases hl : x1.loopId with
          | none => rw [hl] at hrun; cases hrun
          | some l =>
            rw [hl] at hrun
            cases hrun
            exact ⟨rfl, t, ht, hab, w1⟩


/-- the hierarchy clauses of T2 along `stopEventOp` -/
theorem stopEventOp_inv (n : Nat) (s : State) (u : Nat) (fin : Bool) (t : State) (hf : FlowInv s) (hl : LinkInv s)
    (h : stopEventOp n s u fin = .ok t) : FlowInv t ∧ LinkInv t := by
  unfold stopEventOp at h
  cases hfl : s.flows u with
  | none => rw [hfl] at h; cases h; exact ⟨hf, hl⟩
  | some fl =>
    rw [hfl] at h
    simp only at h
    split at h
    · cases h; exact ⟨hf, hl⟩
    · cases fin with
      | true =>
        simp only [if_true] at h
        exact ⟨finish_flowInv hf n u false t h, finishFlow_linked n _ u false t hl h⟩
      | false =>
        simp only [Bool.false_eq_true, if_false] at h
        exact ⟨abort_flowInv hf n u _ t h, abortFlow_linked n _ u _ t hl h⟩

/-- the hierarchy clauses of T2 hold along the processing of a `StopFlow(flow_instance_uid=…)` event by CoreVM -/
theorem corevm_stopflow_event_hierarchy_inv (hν : Function.Injective ν) (hφ : Function.Injective φ) (fuel : Nat) (event : Event)
    (vm vm' : VM) (uid : String) (r : Event × List String)
    (hname : event.ev.name = "StopFlow") (huid : lookupArg "flow_instance_uid" event.ev.args = some (.str uid)) (hw : WF vm)
    (hf : FlowInv (absVM ν φ vm)) (hl : LinkInv (absVM ν φ vm))
    (hrun : processInternalEvent fuel event vm = .ok r vm') :
    FlowInv (absVM ν φ vm') ∧ LinkInv (absVM ν φ vm') ∧ WF vm' := by
  obtain ⟨_, t, ht, ha, w'⟩ := corevm_stopflow_event_is_op ν φ hν hφ fuel event vm vm' uid r hname huid hw hrun
  obtain ⟨a, b⟩ := stopEventOp_inv fuel _ (ν uid) false t hf hl ht
  rw [ha]
  exact ⟨FlowInv.cs a, LinkInv.cs b, w'⟩

end NemoVerif.Lifetime.Refine
