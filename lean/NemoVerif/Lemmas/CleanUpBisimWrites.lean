/-
  C11 / T3 — the WRITE side: simulation of two runs (`Sim2`), the primitive writes and the index operations that keep
  `Aged`, the composite writes built from them (`setFlowStatus`, `dropHeads`), and the parent look-ups of activated flows.
-/
import NemoVerif.Lemmas.CleanUpBisimFns
open NemoVerif NemoVerif.CoreIndex NemoVerif.CoreVM NemoVerif.C11.Bisim

namespace NemoVerif.C11.Bisim

/-! ### two runs side by side, states included -/

/-- both runs end the same way (values related by `ρ` / same error) in states that are again `Aged` -/
def Sim2 {α α'} (rm : List FUid) (ρ : α → α' → Prop) (x : M α) (x' : M α') (s s' : VM) : Prop :=
  match x s, x' s' with
  | .ok a s1, .ok a' s1' => ρ a a' ∧ Aged rm s1 s1'
  | .error e s1, .error e' s1' => e = e' ∧ Aged rm s1 s1'
  | _, _ => False

theorem Sim2.bind {α α' β β'} {rm} {ρ : α → α' → Prop} {σ : β → β' → Prop} {x : M α} {x' : M α'} {f : α → M β} {f' : α' → M β'}
    {s s' : VM} (h : Sim2 rm ρ x x' s s')
    (hf : ∀ a a' s1 s1', x s = .ok a s1 → x' s' = .ok a' s1' → ρ a a' → Aged rm s1 s1' → Sim2 rm σ (f a) (f' a') s1 s1') :
    Sim2 rm σ (x >>= f) (x' >>= f') s s' := by
  have e1 : (x >>= f) s = match x s with | .ok a s1 => f a s1 | .error e s1 => .error e s1 := by
    show EStateM.bind x f s = _
    unfold EStateM.bind; cases x s <;> rfl
  have e2 : (x' >>= f') s' = match x' s' with | .ok a s1 => f' a s1 | .error e s1 => .error e s1 := by
    show EStateM.bind x' f' s' = _
    unfold EStateM.bind; cases x' s' <;> rfl
  unfold Sim2 at h ⊢
  rw [e1, e2]
  cases h1 : x s <;> cases h2 : x' s' <;> rw [h1, h2] at h <;> simp only at h ⊢
  · exact hf _ _ _ _ h1 h2 h.1 h.2
  · exact h

/-- an observation that cannot tell the two states apart is a simulation step that leaves them alone -/
theorem Sim2.of_rel {α α'} {rm} {ρ : α → α' → Prop} {x : M α} {x' : M α'} {s s' : VM}
    (hx : RO x) (hx' : RO x') (ha : Aged rm s s') (h : Rel2 ρ x x' s s') : Sim2 rm ρ x x' s s' := by
  unfold Sim2
  unfold Rel2 at h
  rw [hx.run s, hx'.run s']
  cases h1 : res x s <;> cases h2 : res x' s' <;> rw [h1, h2] at h <;> simp only [RelE] at h ⊢
  · exact ⟨h, ha⟩
  · exact ⟨h, ha⟩

theorem Sim2.pure {α α'} {rm} {ρ : α → α' → Prop} {a : α} {a' : α'} {s s'} (h : ρ a a') (ha : Aged rm s s') :
    Sim2 rm ρ (Pure.pure a : M α) (Pure.pure a' : M α') s s' := ⟨h, ha⟩

theorem Sim2.throw {α α'} {rm} {ρ : α → α' → Prop} (e : VMErr) {s s'} (ha : Aged rm s s') :
    Sim2 rm ρ (throw e : M α) (throw e : M α') s s' := ⟨rfl, ha⟩

/-- a state update that keeps the relation -/
theorem Sim2.modify {rm} {g g' : VM → VM} {s s'} (h : Aged rm (g s) (g' s')) :
    Sim2 rm (fun _ _ => True) (modify g : M Unit) (modify g' : M Unit) s s' := ⟨trivial, h⟩


/-! ### primitive writes -/

theorem Aged.pushEvent {rm s s'} (h : Aged rm s s') (e : Event) :
    Aged rm { s with r := { s.r with queue := s.r.queue ++ [e] } } { s' with r := { s'.r with queue := s'.r.queue ++ [e] } } :=
  { h with queue := by simp [h.queue] }

theorem Aged.pushLeftEvent {rm s s'} (h : Aged rm s s') (e : Event) :
    Aged rm { s with r := { s.r with queue := e :: s.r.queue } } { s' with r := { s'.r with queue := e :: s'.r.queue } } :=
  { h with queue := by simp [h.queue] }

theorem sim_pushEvent {rm s s'} (h : Aged rm s s') (e : Event) :
    Sim2 rm (fun _ _ => True) (CoreVM.pushEvent e) (CoreVM.pushEvent e) s s' := ⟨trivial, h.pushEvent e⟩

theorem sim_pushLeftEvent {rm s s'} (h : Aged rm s s') (e : Event) :
    Sim2 rm (fun _ _ => True) (CoreVM.pushLeftEvent e) (CoreVM.pushLeftEvent e) s s' := ⟨trivial, h.pushLeftEvent e⟩

theorem map_fst_modify {κ α} [DecidableEq κ] (k : κ) (g : α → α) : ∀ l : List (κ × α), (OMap.modify k g l).map (·.1) = l.map (·.1)
  | [] => rfl
  | (k', v) :: l => by
    by_cases hk : k' = k <;> simp [OMap.modify, hk, map_fst_modify k g l]

/-- `modInstX f g` on a kept instance, with updates that respect the record relation -/
theorem Aged.modInstX {rm s s'} (h : Aged rm s s') {f : FUid} (hk : keepB rm f = true) (g g' : InstX → InstX)
    (hg : ∀ x x', XRel rm s.r.clock s'.r.clock x x' → XRel rm s.r.clock s'.r.clock (g x) (g' x'))
    (hacts : ∀ x, (g x).actionUids = x.actionUids) :
    Aged rm { s with r := { s.r with fx := OMap.modify f g s.r.fx } } { s' with r := { s'.r with fx := OMap.modify f g' s'.r.fx } } :=
  { h with
    fxKept := by
      intro f2 hk2
      have := h.fxKept f2 hk2
      simp only [OMap.lookup_modify]
      by_cases h2 : f2 = f
      · subst h2
        simp only [if_true]
        cases h1 : OMap.lookup f2 s.r.fx <;> cases h3 : OMap.lookup f2 s'.r.fx <;> rw [h1, h3] at this <;> simp only [ORel, Option.map] at this ⊢
        exact hg _ _ this
      · simpa [h2] using this
    fxGone := by
      intro f2 hk2
      simp only [OMap.lookup_modify]
      by_cases h2 : f2 = f
      · subst h2; rw [hk] at hk2; cases hk2
      · simpa [h2] using h.fxGone f2 hk2
    fxOrder := by simp only [map_fst_modify]; exact h.fxOrder
    actionsKept := by
      intro f2 x hk2 hx au hau
      simp only [OMap.lookup_modify] at hx
      by_cases h2 : f2 = f
      · subst h2
        simp only [if_true] at hx
        cases h1 : OMap.lookup f2 s.r.fx <;> rw [h1] at hx <;> simp only [Option.map] at hx
        · cases hx
        · injection hx with hx
          subst hx
          rw [hacts] at hau
          exact h.actionsKept f2 _ hk2 h1 au hau
      · simp only [if_neg h2] at hx
        exact h.actionsKept f2 x hk2 hx au hau }


/-! ### index operations -/

/-- the index components of a live and an aged state -/
structure IxAged (rm : List FUid) (a a' : IState) : Prop where
  insts : a'.insts = a.insts.filter (fun i => keepB rm i.uid)
  index : a'.index = a.index
  rev : a'.rev = a.rev

theorem Aged.ix {rm s s'} (h : Aged rm s s') : IxAged rm s.ixs.ix s'.ixs.ix := ⟨h.insts, h.index, h.rev⟩

theorem IxAged.findInst_kept {rm a a'} (h : IxAged rm a a') {f : FUid} (hk : keepB rm f = true) : findInst a' f = findInst a f := by
  unfold findInst; rw [h.insts]; exact find_filter_kept rm f hk _

theorem IxAged.modifyInst {rm a a'} (h : IxAged rm a a') (f : FUid) (g : Inst → Inst) (hg : ∀ i, (g i).uid = i.uid) :
    IxAged rm (modifyInst a f g) (modifyInst a' f g) := by
  refine ⟨?_, h.index, h.rev⟩
  simp only [CoreIndex.modifyInst, h.insts]
  generalize a.insts = l
  induction l with
  | nil => rfl
  | cons i l ih =>
    by_cases hi : i.uid = f
    · subst hi
      by_cases hq : keepB rm i.uid = true <;> simp [List.filter, hq, hg, ih]
    · by_cases hq : keepB rm i.uid = true <;> simp [List.filter, hi, hq, ih]

theorem IxAged.rawRemove {rm a a'} (h : IxAged rm a a') (k : Key) : IxAged rm (rawRemove a k) (rawRemove a' k) := by
  unfold CoreIndex.rawRemove
  rw [h.rev]
  cases OMap.lookup k a.rev with
  | none => exact h
  | some nm => exact ⟨h.insts, by simp [h.index], by simp⟩

theorem IxAged.foldl_rawRemove {rm} (f : FUid) : ∀ (hs : List Head) {a a'}, IxAged rm a a' →
    IxAged rm (hs.foldl (fun acc hd => CoreIndex.rawRemove acc (f, hd.uid)) a) (hs.foldl (fun acc hd => CoreIndex.rawRemove acc (f, hd.uid)) a')
  | [], _, _, h => h
  | hd :: hs, _, _, h => IxAged.foldl_rawRemove f hs (h.rawRemove (f, hd.uid))

/-- the index operations that do not evaluate element names, on a kept instance -/
theorem IxAged.step_simple {rm a a'} (h : IxAged rm a a') {f : FUid} (hk : keepB rm f = true) (op : Op)
    (hop : (∃ st, op = .setFlowStatus f st) ∨ op = .dropHeads f ∨ op = .clearHeads f ∨ (∃ hd, op = .delHead f hd) ∨ (∃ hd, op = .rmHead f hd)) :
    IxAged rm (CoreIndex.step a op) (CoreIndex.step a' op) := by
  rcases hop with ⟨st, rfl⟩ | rfl | rfl | ⟨hd, rfl⟩ | ⟨hd, rfl⟩
  · exact h.modifyInst f _ fun _ => rfl
  · simp only [step, h.findInst_kept hk]
    cases findInst a f with
    | none => exact h
    | some i => exact (IxAged.foldl_rawRemove f i.heads h).modifyInst f _ fun _ => rfl
  · exact h.modifyInst f _ fun _ => rfl
  · exact h.modifyInst f _ fun _ => rfl
  · exact h.rawRemove _


def SimpleOpOn (f : FUid) (op : Op) : Prop :=
  (∃ st, op = .setFlowStatus f st) ∨ op = .dropHeads f ∨ op = .clearHeads f ∨ (∃ hd, op = .delHead f hd) ∨ (∃ hd, op = .rmHead f hd)

/-- a simple operation on `f` leaves the status of every other instance alone -/
theorem step_simple_status (a : IState) {f : FUid} {op : Op} (hop : SimpleOpOn f op) {u : FUid} (hu : u ≠ f) :
    instStatus (step a op) u = instStatus a u := by
  rcases hop with ⟨st, rfl⟩ | rfl | rfl | ⟨hd, rfl⟩ | ⟨hd, rfl⟩
  · simp only [step]
    exact (instStatus_modifyInst' a f u (fun i => { i with status := st }) (fun _ => rfl)).trans (if_neg hu)
  · simp only [step]
    cases hf : findInst a f with
    | none => rfl
    | some i =>
      simp only
      exact (instStatus_modifyInst _ f u (fun i => { i with heads := [] }) (fun _ => rfl) (fun _ => rfl)).trans
        (instStatus_of_insts_eq (foldl_rawRemove_spec f i.heads a).1 u)
  · simp only [step]
    exact instStatus_modifyInst a f u (fun i => { i with heads := [] }) (fun _ => rfl) (fun _ => rfl)
  · simp only [step]
    exact instStatus_modifyInst a f u (fun i => { i with heads := i.heads.filter (·.uid ≠ hd) }) (fun _ => rfl) (fun _ => rfl)
  · simp only [step]
    exact instStatus_of_insts_eq (insts_rawRemove _ _) u

/-- the guards of the simple operations look only at the instance they are about and at the reverse map -/
theorem IxAged.guard_simple {rm a a'} (h : IxAged rm a a') {f : FUid} (hk : keepB rm f = true) {op : Op} (hop : SimpleOpOn f op) :
    op.guard a' = op.guard a := by
  rcases hop with ⟨st, rfl⟩ | rfl | rfl | ⟨hd, rfl⟩ | ⟨hd, rfl⟩
  · simp only [Op.guard, h.findInst_kept hk]
  · rfl
  · simp only [Op.guard, h.findInst_kept hk, reg, h.rev]
  · simp only [Op.guard, reg, h.rev]
  · simp only [Op.guard, want, h.findInst_kept hk]

/-- **index writes that do not evaluate element names** (`flow_state.status = …`, `heads.clear()` with / without
    unregistering, `del heads[uid]`, `_remove_head_from_event_matching_structures`) on a kept instance keep the relation -/
theorem sim_applyOp_simple {rm s s'} (h : Aged rm s s') {f : FUid} (hk : keepB rm f = true) {op : Op} (hop : SimpleOpOn f op) :
    Sim2 rm (fun _ _ => True) (applyOp op) (applyOp op) s s' := by
  have hg := h.ix.guard_simple hk hop
  have hs := h.ix.step_simple hk op hop
  unfold Sim2 CoreVM.applyOp
  by_cases hgu : op.guard s.ixs.ix = true
  · have hgu' : op.guard s'.ixs.ix = true := by rw [hg]; exact hgu
    simp only [dif_pos hgu, dif_pos hgu']
    refine ⟨trivial, { h with insts := hs.insts, index := hs.index, rev := hs.rev, rmDone := ?_ }⟩
    intro u hu i hi
    have hne : u ≠ f := by
      intro e; subst e
      simp [keepB, hu] at hk
    have hst : instStatus (step s.ixs.ix op) u = some i.status := by
      show (findInst (step s.ixs.ix op) u).map (·.status) = _
      rw [show findInst (step s.ixs.ix op) u = some i from hi]; rfl
    rw [step_simple_status _ hop hne] at hst
    unfold instStatus at hst
    cases h0 : findInst s.ixs.ix u with
    | none => rw [h0] at hst; cases hst
    | some i0 =>
      rw [h0] at hst
      simp only [Option.map] at hst
      injection hst with hst
      rw [← hst]
      exact h.rmDone u hu i0 h0
  · have hgu' : ¬ op.guard s'.ixs.ix = true := by rw [hg]; exact hgu
    simp only [dif_neg hgu, dif_neg hgu']
    exact ⟨trivial, h⟩


theorem XRel.restamp {rm c c' x x'} (h : XRel rm c c' x x') :
    XRel rm c c' { x with statusUpdated := c } { x' with statusUpdated := c' } := by
  refine ⟨?_, by simp⟩
  have := congrArg (fun y : InstX => { y with statusUpdated := c }) h.eq
  simpa [agedX] using this

/-- **`flow_state.status = st`** (index write + time stamp) on a kept instance -/
theorem sim_setFlowStatus {rm s s'} (h : Aged rm s s') {f : FUid} (hk : keepB rm f = true) (st : FlowStatus) :
    Sim2 rm (fun _ _ => True) (CoreVM.setFlowStatus f st) (CoreVM.setFlowStatus f st) s s' := by
  unfold CoreVM.setFlowStatus
  refine Sim2.bind (sim_applyOp_simple h hk (.inl ⟨st, rfl⟩)) ?_
  intro _ _ s1 s1' _ _ _ h1
  refine Sim2.bind (ρ := fun r r' => r = s1.r ∧ r' = s1'.r) (Sim2.of_rel RO.getRest RO.getRest h1 ⟨rfl, rfl⟩) ?_
  intro r r' s2 s2' e2 e2' hr h2
  obtain ⟨rfl, rfl⟩ := hr
  have : s2 = s1 := by cases e2; rfl
  subst this
  have : s2' = s1' := by cases e2'; rfl
  subst this
  exact ⟨trivial, h2.modInstX hk _ _ (fun x x' hx => hx.restamp) (fun _ => rfl)⟩

/-- **`heads.clear()` after unregistering every head** on a kept instance -/
theorem sim_dropHeads {rm s s'} (h : Aged rm s s') {f : FUid} (hk : keepB rm f = true) :
    Sim2 rm (fun _ _ => True) (CoreVM.dropHeads f) (CoreVM.dropHeads f) s s' := by
  unfold CoreVM.dropHeads
  refine Sim2.bind (ρ := fun ix ix' => ix = s.ixs.ix ∧ ix' = s'.ixs.ix) (Sim2.of_rel RO.getIx RO.getIx h ⟨rfl, rfl⟩) ?_
  intro ix ix' s1 s1' e1 e1' hix h1
  obtain ⟨rfl, rfl⟩ := hix
  have : s1 = s := by cases e1; rfl
  subst this
  have : s1' = s' := by cases e1'; rfl
  subst this
  rw [h.findInst_kept hk]
  refine Sim2.bind (sim_applyOp_simple h hk (.inr (.inl rfl))) ?_
  intro _ _ s2 s2' _ _ _ h2
  exact ⟨trivial, { h2 with hx := by simp [h2.hx], cleared := by simp [h2.cleared] }⟩


/-! ### parent look-ups of activated flows -/

/-- the invariant behind `_is_reference_activated_flow` / `_is_child_activated_flow`: the parent instance of a still
    ACTIVATED flow is not among the discarded ones.  NOT an invariant of the code as it is (finding
    `cleanup-dangling-parent`); it is what fixes/C11-cleanup-dangling-parent.diff establishes, and it is checked at
    run time on the real states (clean-up oracle: "discarded the parent instance of a still activated flow"). -/
def ActParentsKept (rm : List FUid) (s : VM) : Prop :=
  ∀ f x, keepB rm f = true → OMap.lookup f s.r.fx = some x → x.activated > 0 → ∀ p, x.parentUid = some p → keepB rm p = true

theorem res_getInstX {f : FUid} {s : VM} {x : InstX} (h : res (getInstX f) s = .ok x) : OMap.lookup f s.r.fx = some x := by
  unfold res CoreVM.getInstX CoreVM.getInstX? at h
  simp only [bind, EStateM.bind, getRest, get, getThe, MonadStateOf.get, EStateM.get, Pure.pure, EStateM.pure] at h
  cases hl : OMap.lookup f s.r.fx with
  | none => rw [hl] at h; simp [pyRaise, throw, throwThe, MonadExceptOf.throw, EStateM.throw] at h
  | some y => rw [hl] at h; simp only [EStateM.pure] at h; injection h with h; rw [h]

/-- **`_is_reference_activated_flow`** -/
theorem Aged.rel_isReferenceActivated {rm s s'} (h : Aged rm s s') (hp : ActParentsKept rm s) {f : FUid} (hk : keepB rm f = true) :
    Rel2 Eq (isReferenceActivated f) (isReferenceActivated f) s s' := by
  unfold CoreVM.isReferenceActivated
  refine Rel2.bind (ro_getInstX f) (ro_getInstX f) (h.rel_getInstX hk) ?_
  intro x x' hx1 _ hx
  rw [hx.parentUid, hx.activated, hx.flowId]
  cases hpu : x.parentUid with
  | none => exact Rel2.pure rfl s s'
  | some p =>
    simp only
    by_cases ha : x.activated > 0
    · simp only [if_pos ha]
      have hkp := hp f x hk (res_getInstX hx1) ha p hpu
      refine Rel2.bind (ro_getInstX? p) (ro_getInstX? p) (h.rel_getInstX? hkp) ?_
      intro o o' _ _ ho
      cases o <;> cases o' <;> simp only [ORel] at ho
      · exact Rel2.throw _ s s'
      · simp only [ho.flowId]; exact Rel2.pure rfl s s'
    · simp only [if_neg ha]; exact Rel2.pure rfl s s'

/-- **`_is_child_activated_flow`** -/
theorem Aged.rel_isChildActivated {rm s s'} (h : Aged rm s s') (hp : ActParentsKept rm s) {f : FUid} (hk : keepB rm f = true) :
    Rel2 Eq (isChildActivated f) (isChildActivated f) s s' := by
  unfold CoreVM.isChildActivated
  refine Rel2.bind (ro_getInstX f) (ro_getInstX f) (h.rel_getInstX hk) ?_
  intro x x' hx1 _ hx
  rw [hx.parentUid, hx.activated, hx.flowId]
  cases hpu : x.parentUid with
  | none => exact Rel2.pure rfl s s'
  | some p =>
    simp only
    by_cases ha : x.activated > 0
    · simp only [if_pos ha]
      have hkp := hp f x hk (res_getInstX hx1) ha p hpu
      refine Rel2.bind (ro_getInstX? p) (ro_getInstX? p) (h.rel_getInstX? hkp) ?_
      intro o o' _ _ ho
      cases o <;> cases o' <;> simp only [ORel] at ho
      · exact Rel2.pure rfl s s'
      · simp only [ho.flowId]; exact Rel2.pure rfl s s'
    · simp only [if_neg ha]; exact Rel2.pure rfl s s'


/-! ### every index operation -/

/-- the instance an index operation is about -/
def opTarget : Op → FUid
  | .addInst f _ _ | .setPos f _ _ _ | .setStatus f _ _ _ | .fork f _ _ _ _ | .delHead f _ | .dropHeads f | .rmHead f _
  | .clearHeads f | .mainRestart f _ _ | .setFlowStatus f _ | .removeInst f => f

def isRemove : Op → Bool
  | .removeInst _ => true
  | _ => false

theorem IxAged.rawAdd {rm a a'} (h : IxAged rm a a') (k : Key) (nm : String) : IxAged rm (rawAdd a k nm) (rawAdd a' k nm) :=
  ⟨h.insts, by simp [CoreIndex.rawAdd, h.index], by simp [CoreIndex.rawAdd, h.rev]⟩

theorem IxAged.headChanged {rm a a'} (h : IxAged rm a a') (k : Key) (fst hst elem) :
    IxAged rm (headChanged a k fst hst elem) (headChanged a' k fst hst elem) := by
  unfold CoreIndex.headChanged
  cases elem with
  | none => exact h.rawRemove k
  | some nm =>
    simp only
    split
    · exact (h.rawRemove k).rawAdd k nm
    · exact h.rawRemove k

theorem IxAged.touchHead {rm a a'} (h : IxAged rm a a') {f : FUid} (hk : keepB rm f = true) (hd : HUid) (g : Head → Head) :
    IxAged rm (touchHead a f hd g) (touchHead a' f hd g) := by
  unfold CoreIndex.touchHead
  rw [h.findInst_kept hk]
  cases findInst a f with
  | none => exact h
  | some i =>
    simp only
    cases i.findHead hd with
    | none => exact h
    | some x => exact (h.modifyInst f (fun i => i.modifyHead hd g) fun _ => rfl).headChanged _ _ _ _

theorem filter_append_kept {rm} (l : List Inst) (x : Inst) (hk : keepB rm x.uid = true) :
    (l ++ [x]).filter (fun i => keepB rm i.uid) = l.filter (fun i => keepB rm i.uid) ++ [x] := by
  simp [List.filter_append, List.filter, hk]

/-- every index operation except the clean-up's own `removeInst`, on a kept instance, commutes with the ageing -/
theorem IxAged.step {rm a a'} (h : IxAged rm a a') (op : Op) (hk : keepB rm (opTarget op) = true) (hr : isRemove op = false) :
    IxAged rm (step a op) (step a' op) := by
  cases op with
  | addInst f hd nm0 =>
    have hk' : keepB rm f = true := hk
    simp only [CoreIndex.step]
    have h1 : IxAged rm { a with insts := a.insts ++ [{ uid := f, status := .waiting, heads := [newHead hd nm0] }] }
        { a' with insts := a'.insts ++ [{ uid := f, status := .waiting, heads := [newHead hd nm0] }] } := by
      refine ⟨?_, h.index, h.rev⟩
      simp only [h.insts]
      exact (filter_append_kept _ _ hk').symm
    exact h1.headChanged _ _ _ _
  | setPos f hd p nm =>
    have hk' : keepB rm f = true := hk
    simp only [CoreIndex.step, h.findInst_kept hk']
    cases (findInst a f).bind (·.findHead hd) with
    | none => exact h
    | some x => simp only; split; exact h; exact h.touchHead hk' _ _
  | setStatus f hd st nm =>
    have hk' : keepB rm f = true := hk
    simp only [CoreIndex.step, h.findInst_kept hk']
    cases (findInst a f).bind (·.findHead hd) with
    | none => exact h
    | some x => simp only; split; exact h; exact h.touchHead hk' _ _
  | fork f hd nm0 p nm =>
    have hk' : keepB rm f = true := hk
    simp only [CoreIndex.step]
    split
    · exact h.modifyInst f (fun i => { i with heads := i.heads ++ [newHead hd nm0] }) fun _ => rfl
    · exact (h.modifyInst f (fun i => { i with heads := i.heads ++ [newHead hd nm0] }) fun _ => rfl).touchHead hk' _ _
  | delHead f hd => exact h.step_simple hk _ (.inr (.inr (.inr (.inl ⟨hd, rfl⟩))))
  | dropHeads f => exact h.step_simple hk _ (.inr (.inl rfl))
  | rmHead f hd => exact h.step_simple hk _ (.inr (.inr (.inr (.inr ⟨hd, rfl⟩))))
  | clearHeads f => exact h.step_simple hk _ (.inr (.inr (.inl rfl)))
  | mainRestart f hd nm0 =>
    have hk' : keepB rm f = true := hk
    simp only [CoreIndex.step, h.findInst_kept hk']
    cases findInst a f with
    | none => exact h
    | some i => exact (h.headChanged _ _ _ _).modifyInst f (fun i => { i with heads := [newHead hd nm0], status := .waiting }) fun _ => rfl
  | setFlowStatus f st => exact h.step_simple hk _ (.inl ⟨st, rfl⟩)
  | removeInst f => cases hr


theorem instStatus_touchHead (a : IState) (f : FUid) (hd : HUid) (g : Head → Head) (u : FUid) :
    instStatus (touchHead a f hd g) u = instStatus a u := by
  unfold CoreIndex.touchHead
  cases findInst a f with
  | none => rfl
  | some i =>
    simp only
    cases i.findHead hd with
    | none => rfl
    | some x =>
      simp only
      exact (instStatus_of_insts_eq (insts_headChanged _ _ _ _ _) u).trans
        (instStatus_modifyInst a f u (fun i => i.modifyHead hd g) (fun _ => rfl) (fun _ => rfl))

theorem find_append_ne (l : List Inst) (x : Inst) (u : FUid) (hu : x.uid ≠ u) :
    (l ++ [x]).find? (·.uid = u) = l.find? (·.uid = u) := by
  induction l with
  | nil => simp [List.find?, hu]
  | cons i l ih => by_cases hi : i.uid = u <;> simp [List.find?, hi, ih]

/-- an index operation (other than `removeInst`) leaves the status of every instance it is not about alone -/
theorem step_status_other (a : IState) (op : Op) (hr : isRemove op = false) {u : FUid} (hu : u ≠ opTarget op) :
    instStatus (step a op) u = instStatus a u := by
  cases op with
  | addInst f hd nm0 =>
    simp only [CoreIndex.step]
    refine (instStatus_of_insts_eq (insts_headChanged _ _ _ _ _) u).trans ?_
    unfold instStatus findInst
    simp only
    rw [find_append_ne _ _ _ (fun e => hu e.symm)]
  | setPos f hd p nm =>
    simp only [CoreIndex.step]
    cases (findInst a f).bind (·.findHead hd) with
    | none => rfl
    | some x => simp only; split; rfl; exact instStatus_touchHead _ _ _ _ _
  | setStatus f hd st nm =>
    simp only [CoreIndex.step]
    cases (findInst a f).bind (·.findHead hd) with
    | none => rfl
    | some x => simp only; split; rfl; exact instStatus_touchHead _ _ _ _ _
  | fork f hd nm0 p nm =>
    simp only [CoreIndex.step]
    have h1 := instStatus_modifyInst a f u (fun i => { i with heads := i.heads ++ [newHead hd nm0] }) (fun _ => rfl) (fun _ => rfl)
    split
    · exact h1
    · exact (instStatus_touchHead _ _ _ _ _).trans h1
  | delHead f hd => exact step_simple_status a (.inr (.inr (.inr (.inl ⟨hd, rfl⟩)))) hu
  | dropHeads f => exact step_simple_status a (.inr (.inl rfl)) hu
  | rmHead f hd => exact step_simple_status a (.inr (.inr (.inr (.inr ⟨hd, rfl⟩)))) hu
  | clearHeads f => exact step_simple_status a (.inr (.inr (.inl rfl))) hu
  | mainRestart f hd nm0 =>
    simp only [CoreIndex.step]
    cases findInst a f with
    | none => rfl
    | some i =>
      simp only
      refine (instStatus_modifyInst' _ f u (fun i => { i with heads := [newHead hd nm0], status := .waiting }) (fun _ => rfl)).trans ?_
      have hu' : u ≠ f := hu
      rw [if_neg hu']
      exact instStatus_of_insts_eq (insts_headChanged _ _ _ _ _) u
  | setFlowStatus f st => exact step_simple_status a (.inl ⟨st, rfl⟩) hu
  | removeInst f => cases hr

theorem IxAged.mem_instUids {rm a a'} (h : IxAged rm a a') {f : FUid} (hk : keepB rm f = true) :
    f ∈ instUids a' ↔ f ∈ instUids a := by
  rw [← findInst_isSome_iff, ← findInst_isSome_iff, h.findInst_kept hk]

/-- the guard of an index operation looks only at the instance it is about and at the two maps -/
theorem IxAged.guard_eq {rm a a'} (h : IxAged rm a a') (op : Op) (hk : keepB rm (opTarget op) = true) (hr : isRemove op = false) :
    op.guard a' = op.guard a := by
  cases op with
  | addInst f hd nm0 =>
    have hk' : keepB rm f = true := hk
    have := h.mem_instUids hk'
    simp only [Op.guard]
    congr 1
    rw [Bool.eq_iff_iff]
    simpa using this
  | setPos f hd p nm => have hk' : keepB rm f = true := hk; simp only [Op.guard, h.findInst_kept hk']
  | setStatus f hd st nm => have hk' : keepB rm f = true := hk; simp only [Op.guard, h.findInst_kept hk']
  | fork f hd nm0 p nm => have hk' : keepB rm f = true := hk; simp only [Op.guard, h.findInst_kept hk']
  | delHead f hd => exact h.guard_simple hk (.inr (.inr (.inr (.inl ⟨hd, rfl⟩))))
  | dropHeads f => rfl
  | rmHead f hd => exact h.guard_simple hk (.inr (.inr (.inr (.inr ⟨hd, rfl⟩))))
  | clearHeads f => exact h.guard_simple hk (.inr (.inr (.inl rfl)))
  | mainRestart f hd nm0 => have hk' : keepB rm f = true := hk; simp only [Op.guard, h.findInst_kept hk']
  | setFlowStatus f st => exact h.guard_simple hk (.inl ⟨st, rfl⟩)
  | removeInst f => cases hr

/-- **every index write of the interpreter** (all of `CoreIndex.Op` except the clean-up's own `removeInst`) on a kept
    instance keeps the relation: same guard outcome, related states -/
theorem sim_applyOp {rm s s'} (h : Aged rm s s') (op : Op) (hk : keepB rm (opTarget op) = true) (hr : isRemove op = false) :
    Sim2 rm (fun _ _ => True) (applyOp op) (applyOp op) s s' := by
  have hg := h.ix.guard_eq op hk hr
  have hs := h.ix.step op hk hr
  unfold Sim2 CoreVM.applyOp
  by_cases hgu : op.guard s.ixs.ix = true
  · have hgu' : op.guard s'.ixs.ix = true := by rw [hg]; exact hgu
    simp only [dif_pos hgu, dif_pos hgu']
    refine ⟨trivial, { h with insts := hs.insts, index := hs.index, rev := hs.rev, rmDone := ?_ }⟩
    intro u hu i hi
    have hne : u ≠ opTarget op := by
      intro e; subst e
      simp [keepB, hu] at hk
    have hst : instStatus (step s.ixs.ix op) u = some i.status := by
      show (findInst (step s.ixs.ix op) u).map (·.status) = _
      rw [show findInst (step s.ixs.ix op) u = some i from hi]; rfl
    rw [step_status_other _ op hr hne] at hst
    unfold instStatus at hst
    cases h0 : findInst s.ixs.ix u with
    | none => rw [h0] at hst; cases hst
    | some i0 =>
      rw [h0] at hst
      simp only [Option.map] at hst
      injection hst with hst
      rw [← hst]
      exact h.rmDone u hu i0 h0
  · have hgu' : ¬ op.guard s'.ixs.ix = true := by rw [hg]; exact hgu
    simp only [dif_neg hgu, dif_neg hgu']
    exact ⟨trivial, h⟩


/-! ### `_abort_flow` on an instance the clean-up may discard -/

/-- **deactivating an instance the clean-up may discard does nothing**: `_abort_flow(state, c, deactivate_flow=True)` on a done,
    non-activated instance returns at the status guard without touching the state.  (This is why the extra iterations of the
    live run over children that the aged run no longer lists are harmless.) -/
theorem abortFlow_done_noop (fuel : Nat) (c : FUid) (scores : List Score) (s : VM) (x : InstX) (i : Inst)
    (hx : OMap.lookup c s.r.fx = some x) (ha : x.activated = 0)
    (hi : findInst s.ixs.ix c = some i) (hd : i.status.done = true) :
    abortFlow (fuel + 1) c scores true s = .ok () s := by
  have hira : deactivatesRef true c s = .ok false s := by
    rw [deactivatesRef_true]
    unfold isReferenceActivated getInstX getInstX?
    simp only [bind, EStateM.bind, getRest, get, getThe, MonadStateOf.get, EStateM.get, pure, EStateM.pure, hx]
    cases x.parentUid with
    | none => rfl
    | some p => simp [ha, EStateM.pure]
  have hgi : getInst c s = .ok i s := by
    unfold getInst getInst?
    simp only [bind, EStateM.bind, getIx, get, getThe, MonadStateOf.get, EStateM.get, pure, EStateM.pure, hi]
  have hst : i.status.listening = false ∧ ¬ i.status = .stopping := by
    cases hs : i.status <;> simp [hs, FlowStatus.done, FlowStatus.listening] at hd ⊢
  unfold abortFlow
  simp only [bind, EStateM.bind, hira, Bool.true_and, pure]
  show EStateM.bind (getInst c) _ s = _
  unfold EStateM.bind
  rw [hgi]
  dsimp only
  have hstB : (!i.status.listening && decide (i.status ≠ .stopping)) = true := by simp [hst]
  rw [hst.1]
  have hn : decide (i.status ≠ FlowStatus.stopping) = true := by simp [hst.2]
  rw [hn]
  rfl

end NemoVerif.C11.Bisim
