/-
  Lemmas about `Models/ErrContain.lean` (core Lean only).
-/
import NemoVerif.Models.ErrContain
import NemoVerif.Lemmas.SlideGraph

namespace NemoVerif.ErrContain
open NemoVerif.SlideGraph

/-- pointwise (positional) relation between the instance lists of two states -/
def Upd (R : Inst → Inst → Prop) (s s' : St) : Prop :=
  s'.insts.length = s.insts.length ∧
    ∀ (k : Nat) (i : Inst), s.insts[k]? = some i → ∃ i', s'.insts[k]? = some i' ∧ R i i'

theorem Upd.trans {R1 R2 R : Inst → Inst → Prop} {s s1 s2 : St} (h1 : Upd R1 s s1) (h2 : Upd R2 s1 s2)
    (h : ∀ a b c, R1 a b → R2 b c → R a c) : Upd R s s2 := by
  refine ⟨by rw [h2.1, h1.1], ?_⟩
  intro k i hi
  obtain ⟨i1, hi1, r1⟩ := h1.2 k i hi
  obtain ⟨i2, hi2, r2⟩ := h2.2 k i1 hi1
  exact ⟨i2, hi2, h _ _ _ r1 r2⟩

theorem Upd.mono {R R' : Inst → Inst → Prop} {s s' : St} (h : Upd R s s') (hm : ∀ a b, R a b → R' a b) : Upd R' s s' :=
  ⟨h.1, fun k i hi => by obtain ⟨i', h1, h2⟩ := h.2 k i hi; exact ⟨i', h1, hm _ _ h2⟩⟩

theorem upd_map {R : Inst → Inst → Prop} {s s' : St} {φ : Inst → Inst} (he : s'.insts = s.insts.map φ)
    (hR : ∀ i, R i (φ i)) : Upd R s s' := by
  refine ⟨by rw [he]; simp, ?_⟩
  intro k i hi
  refine ⟨φ i, ?_, hR i⟩
  rw [he, List.getElem?_map, hi]; rfl

/-- `find` looks at uids only, so a uid-preserving map commutes with it -/
theorem find_map {s s' : St} {φ : Inst → Inst} (he : s'.insts = s.insts.map φ) (hu : ∀ i, (φ i).uid = i.uid) (uid : Nat) :
    find s' uid = (find s uid).map φ := by
  unfold find
  rw [he, List.find?_map]
  have : ((fun x : Inst => x.uid == uid) ∘ φ) = (fun x : Inst => x.uid == uid) := by
    funext i; simp [Function.comp, hu]
  rw [this]

theorem find_uid {s : St} {uid : Nat} {f : Inst} (h : find s uid = some f) : f.uid = uid := by
  unfold find at h
  have := List.find?_some h
  simpa using this

/-! ### abort -/

def unlinkMap (f : Inst) (i : Inst) : Inst :=
  if f.activated == 0 then
    match f.parent with
    | some p => if i.uid == p then { i with children := i.children.erase f.uid } else i
    | none => i
  else i

def restartMap (f : Inst) (i : Inst) : Inst :=
  if f.activated > 0 && !f.newInstanceStarted then
    (if i.uid == f.uid then { i with newInstanceStarted := true } else i)
  else i

def abortMap (f : Inst) (i : Inst) : Inst :=
  restartMap f
    ((fun i : Inst => if i.uid == f.uid then { i with status := FStatus.stopped } else i)
      (unlinkMap f ((fun i : Inst => if i.uid == f.uid then { i with heads := [] } else i) i)))

/-- events pushed to the LEFT of the deque by the restart logic -/
def restartEvents (s : St) (f : Inst) : List IEv :=
  if f.activated > 0 && !f.newInstanceStarted then [.startFlow f.flowId (restartSource s f)] else []

theorem unlink_insts (s : St) (f : Inst) :
    (unlinkFromParent s f).insts = s.insts.map (unlinkMap f) ∧ (unlinkFromParent s f).queue = s.queue := by
  unfold unlinkFromParent unlinkMap
  by_cases ha : f.activated == 0
  · cases hp : f.parent with
    | none => simp [ha]
    | some p => simp [ha, modify]
  · simp [ha]

theorem restart_insts (s : St) (f : Inst) :
    (restartIfActivated s f).insts = s.insts.map (restartMap f) ∧
    ∃ src, (restartIfActivated s f).queue =
      (if f.activated > 0 && !f.newInstanceStarted then [IEv.startFlow f.flowId src] else []) ++ s.queue := by
  unfold restartIfActivated restartMap
  by_cases hc : (decide (f.activated > 0) && !f.newInstanceStarted) = true
  · rw [if_pos hc]
    refine ⟨?_, restartSource s f, ?_⟩
    · simp [modify, pushLeft, hc]
    · simp [modify, pushLeft, hc]
  · rw [if_neg hc]
    refine ⟨?_, 0, ?_⟩
    · simp [hc]
    · simp [hc]

theorem abortCore_insts (s : St) (f : Inst) :
    (abortCore s f).insts = s.insts.map (abortMap f) ∧
    ∃ src, (abortCore s f).queue =
      (if f.activated > 0 && !f.newInstanceStarted then [IEv.startFlow f.flowId src] else []) ++ s.queue ++ [.flowFailed f.uid] := by
  unfold abortCore
  simp only
  obtain ⟨hi, src, hq⟩ := restart_insts
    (pushRight (modify (unlinkFromParent (modify s f.uid fun i => { i with heads := [] }) f) f.uid fun i => { i with status := .stopped }) (.flowFailed f.uid)) f
  refine ⟨?_, src, ?_⟩
  · rw [hi]
    simp only [pushRight, modify, (unlink_insts _ f).1, List.map_map]
    apply List.map_congr_left
    intro i _
    simp [abortMap, Function.comp]
  · rw [hq]
    simp [pushRight, modify, (unlink_insts _ f).2, List.append_assoc]

/-- what aborting instance `f` may do to a record `i` -/
structure AbortRel (f : Inst) (i i' : Inst) : Prop where
  uid : i'.uid = i.uid
  /-- records other than `f` and its parent are untouched -/
  frame : i.uid ≠ f.uid → f.parent ≠ some i.uid → i' = i
  /-- the parent only loses `f` from its child list -/
  others : i.uid ≠ f.uid → i' = { i with children := i'.children }
  /-- `f` itself is STOPPED and holds no head -/
  target : i.uid = f.uid → i'.status = .stopped ∧ i'.heads = [] ∧ i'.flowId = i.flowId

theorem unlinkMap_cases (f j : Inst) :
    unlinkMap f j = j ∨ (unlinkMap f j = { j with children := j.children.erase f.uid } ∧ f.parent = some j.uid) := by
  unfold unlinkMap
  split
  · split
    · rename_i p hp
      by_cases h : j.uid = p
      · right; simp [h, hp]
      · left; simp [h]
    · left; rfl
  · left; rfl

theorem restartMap_cases (f j : Inst) :
    restartMap f j = j ∨ restartMap f j = { j with newInstanceStarted := true } := by
  unfold restartMap
  split
  · split
    · right; rfl
    · left; rfl
  · left; rfl

theorem unlinkMap_uid (f j : Inst) : (unlinkMap f j).uid = j.uid := by
  rcases unlinkMap_cases f j with h | ⟨h, _⟩ <;> rw [h]

theorem abortMap_ne {f i : Inst} (h : i.uid ≠ f.uid) : abortMap f i = unlinkMap f i := by
  have hb : (i.uid == f.uid) = false := by simp [h]
  have hb2 : ((unlinkMap f i).uid == f.uid) = false := by rw [unlinkMap_uid]; exact hb
  unfold abortMap restartMap
  simp only [hb]
  simp [hb2]

theorem restartMap_proj (f j : Inst) :
    (restartMap f j).uid = j.uid ∧ (restartMap f j).status = j.status ∧ (restartMap f j).heads = j.heads ∧
      (restartMap f j).flowId = j.flowId := by
  rcases restartMap_cases f j with r | r <;> rw [r] <;> simp

theorem unlinkMap_proj (f j : Inst) :
    (unlinkMap f j).uid = j.uid ∧ (unlinkMap f j).status = j.status ∧ (unlinkMap f j).heads = j.heads ∧
      (unlinkMap f j).flowId = j.flowId := by
  rcases unlinkMap_cases f j with r | ⟨r, _⟩ <;> rw [r] <;> simp

theorem abortMap_eq {f i : Inst} (h : i.uid = f.uid) :
    abortMap f i = restartMap f { unlinkMap f { i with heads := [] } with status := FStatus.stopped } := by
  have hb : (i.uid == f.uid) = true := by simp [h]
  have hu2 : ((unlinkMap f { i with heads := [] }).uid == f.uid) = true := by rw [unlinkMap_uid]; exact hb
  unfold abortMap
  simp only [hb, ↓reduceIte, hu2]

theorem abortMap_rel (f i : Inst) : AbortRel f i (abortMap f i) := by
  by_cases h : i.uid = f.uid
  · -- the aborted instance itself
    obtain ⟨r1, r2, r3, r4⟩ := restartMap_proj f { unlinkMap f { i with heads := [] } with status := FStatus.stopped }
    obtain ⟨u1, _, u3, u4⟩ := unlinkMap_proj f { i with heads := [] }
    refine ⟨?_, fun h1 => absurd h h1, fun h1 => absurd h h1, fun _ => ⟨?_, ?_, ?_⟩⟩
    · rw [abortMap_eq h, r1]; exact u1
    · rw [abortMap_eq h, r2]
    · rw [abortMap_eq h, r3]; exact u3
    · rw [abortMap_eq h, r4]; exact u4
  · rw [abortMap_ne h]
    refine ⟨unlinkMap_uid f i, fun _ h2 => ?_, fun _ => ?_, fun h1 => absurd h1 h⟩
    · rcases unlinkMap_cases f i with u | ⟨_, hp⟩
      · exact u
      · exact absurd hp h2
    · rcases unlinkMap_cases f i with u | ⟨u, _⟩ <;> rw [u]

theorem abortCore_upd (s : St) (f : Inst) : Upd (AbortRel f) s (abortCore s f) :=
  upd_map (abortCore_insts s f).1 (abortMap_rel f)


theorem abortFlow_of_find {s : St} {uid : Nat} {f : Inst} (hf : find s uid = some f) (hl : isListening f.status = true) :
    abortFlow s uid = abortCore s f := by
  unfold abortFlow
  simp [hf, hl]

/-- Aborting `fuid` after a local update `φ` of (only) that record. -/
theorem abort_after_local_update {s S3 : St} {φ : Inst → Inst} {fuid : Nat} {f : Inst}
    (hi : S3.insts = s.insts.map φ)
    (hφ1 : ∀ i, (φ i).uid = i.uid ∧ (φ i).flowId = i.flowId ∧ (φ i).parent = i.parent)
    (hφ2 : ∀ i, i.uid ≠ fuid → φ i = i)
    (hf : find s fuid = some f) (hl : isListening (φ f).status = true) :
    Upd (AbortRel f) s (abortFlow S3 fuid) ∧
    ∃ src, (abortFlow S3 fuid).queue =
      (if (φ f).activated > 0 && !(φ f).newInstanceStarted then [IEv.startFlow f.flowId src] else []) ++ S3.queue ++ [.flowFailed fuid] := by
  have hfu : f.uid = fuid := find_uid hf
  have hf3 : find S3 fuid = some (φ f) := by
    rw [find_map hi (fun i => (hφ1 i).1), hf]; rfl
  rw [abortFlow_of_find hf3 hl]
  obtain ⟨_, src, hq⟩ := abortCore_insts S3 (φ f)
  refine ⟨?_, src, ?_⟩
  · have h1 : Upd (fun i i1 => i1 = φ i) s S3 := upd_map hi (fun _ => rfl)
    refine Upd.trans h1 (abortCore_upd S3 (φ f)) ?_
    intro a b c hab hbc
    subst hab
    have hu : (φ f).uid = f.uid := (hφ1 f).1
    have hp : (φ f).parent = f.parent := (hφ1 f).2.2
    by_cases ha : a.uid = fuid
    · refine ⟨by rw [hbc.uid, (hφ1 a).1], fun h => absurd (ha.trans hfu.symm) h, fun h => absurd (ha.trans hfu.symm) h, fun _ => ?_⟩
      have := hbc.target (by rw [(hφ1 a).1, hu, ha, hfu])
      exact ⟨this.1, this.2.1, by rw [this.2.2, (hφ1 a).2.1]⟩
    · have e : φ a = a := hφ2 a ha
      rw [e] at hbc
      have hne : a.uid ≠ (φ f).uid := by rw [hu, hfu]; exact ha
      refine ⟨hbc.uid, fun _ h2 => hbc.frame hne (by rw [hp]; exact h2), fun _ => hbc.others hne, fun h => ?_⟩
      exact absurd (h.trans hfu) ha
  · rw [hq, (hφ1 f).1, (hφ1 f).2.1, hfu]

theorem slideOf_some {progs : Nat → Prog} {s : St} {fuid huid : Nat} {o : Nat → Ans} {fuel : Nat} {f : Inst} {h : HeadRec} {run : Run}
    (hs : slideOf progs s fuid huid o fuel = some (f, h, run)) :
    find s fuid = some f ∧ isListening f.status = true := by
  unfold slideOf at hs
  cases hf : find s fuid with
  | none => simp [hf] at hs
  | some f' =>
    simp only [hf] at hs
    cases hh : f'.heads.find? (·.uid == huid) with
    | none => simp [hh] at hs
    | some h' =>
      simp only [hh] at hs
      split at hs
      · simp at hs
      · rename_i hc
        split at hs
        · simp at hs
        · simp only [Option.some.injEq, Prod.mk.injEq] at hs
          obtain ⟨e1, _, _⟩ := hs
          subst e1
          simp only [Bool.or_eq_true, Bool.not_eq_true', not_or] at hc
          exact ⟨rfl, by simpa using hc.2⟩

theorem entryStatus_listening {f : Inst} (hl : isListening f.status = true) : isListening (entryStatus f) = true := by
  unfold entryStatus
  split
  · rfl
  · exact hl

/-- the local update of the erroring record done before `_abort_flow` in the `except` branch -/
def errMap (v : Variant) (f : Inst) (fuid : Nat) (i : Inst) : Inst :=
  if i.uid == fuid then
    { i with status := entryStatus f,
             newInstanceStarted :=
               (match v with
                | .asIs => i.newInstanceStarted
                | .repaired => if entryStatus f == .starting && f.activated > 0 then true else i.newInstanceStarted) }
  else i

theorem failGuard_insts (v : Variant) (f : Inst) (fuid : Nat) (s : St) (e : IEv) :
    (failGuard v (entryStatus f) f fuid (pushRight (modify s fuid fun i => { i with status := entryStatus f }) e)).insts
        = s.insts.map (errMap v f fuid) ∧
    (failGuard v (entryStatus f) f fuid (pushRight (modify s fuid fun i => { i with status := entryStatus f }) e)).queue
        = s.queue ++ [e] := by
  cases v with
  | asIs =>
    simp only [failGuard, pushRight, modify, and_true]
    apply List.map_congr_left
    intro i _
    unfold errMap
    by_cases h : i.uid = fuid <;> simp [h]
  | repaired =>
    simp only [failGuard]
    by_cases hc : (entryStatus f == .starting && decide (f.activated > 0)) = true
    · rw [if_pos hc]
      simp only [pushRight, modify, List.map_map, and_true]
      apply List.map_congr_left
      intro i _
      unfold errMap
      by_cases h : i.uid = fuid <;> simp [h, hc, Function.comp]
    · rw [if_neg hc]
      simp only [pushRight, modify, and_true]
      apply List.map_congr_left
      intro i _
      unfold errMap
      by_cases h : i.uid = fuid <;> simp [h, hc]

theorem errMap_props (v : Variant) (f : Inst) (fuid : Nat) :
    (∀ i, (errMap v f fuid i).uid = i.uid ∧ (errMap v f fuid i).flowId = i.flowId ∧ (errMap v f fuid i).parent = i.parent) ∧
    (∀ i, i.uid ≠ fuid → errMap v f fuid i = i) := by
  refine ⟨fun i => ?_, fun i h => ?_⟩
  · unfold errMap; split <;> simp
  · unfold errMap; simp [h]

/-- The `except` branch of `_advance_head_front`, both variants. -/
theorem advanceOne_error {v : Variant} {progs : Nat → Prog} {s : St} {fuid huid : Nat} {o : Nat → Ans} {fuel : Nat}
    {f : Inst} {h : HeadRec} {run : Run}
    (hs : slideOf progs s fuid huid o fuel = some (f, h, run)) (he : run.stop = some .error) :
    Upd (AbortRel f) s (advanceOne v progs s fuid huid o fuel) ∧
    ∃ src, (advanceOne v progs s fuid huid o fuel).queue =
      (if (errMap v f fuid f).activated > 0 && !(errMap v f fuid f).newInstanceStarted then [IEv.startFlow f.flowId src] else [])
        ++ (s.queue ++ [.colangError]) ++ [.flowFailed fuid] := by
  obtain ⟨hf, hl⟩ := slideOf_some hs
  have hfu : f.uid = fuid := find_uid hf
  have e : advanceOne v progs s fuid huid o fuel =
      abortFlow (failGuard v (entryStatus f) f fuid (pushRight (modify s fuid fun i => { i with status := entryStatus f }) .colangError)) fuid := by
    unfold advanceOne
    simp only [hs, he]
  rw [e]
  obtain ⟨hi, hq⟩ := failGuard_insts v f fuid s .colangError
  obtain ⟨p1, p2⟩ := errMap_props v f fuid
  have hl' : isListening (errMap v f fuid f).status = true := by
    unfold errMap; simp only [hfu, beq_self_eq_true, if_true]; exact entryStatus_listening hl
  obtain ⟨hu, src, hqq⟩ := abort_after_local_update hi p1 p2 hf hl'
  exact ⟨hu, src, by rw [hqq, hq]⟩


theorem slideOf_run {progs : Nat → Prog} {s : St} {fuid huid : Nat} {o : Nat → Ans} {fuel : Nat} {f : Inst} {h : HeadRec} {run : Run}
    (hs : slideOf progs s fuid huid o fuel = some (f, h, run)) :
    ∃ h0, run = slide (progs f.flowId) o fuel 0 h0 := by
  unfold slideOf at hs
  cases hf : find s fuid with
  | none => simp [hf] at hs
  | some f' =>
    simp only [hf] at hs
    cases hh : f'.heads.find? (·.uid == huid) with
    | none => simp [hh] at hs
    | some h' =>
      simp only [hh] at hs
      split at hs
      · simp at hs
      · split at hs
        · simp at hs
        · simp only [Option.some.injEq, Prod.mk.injEq] at hs
          obtain ⟨e1, _, e3⟩ := hs
          subst e1
          exact ⟨_, e3.symm⟩

/-- The immediate-finish guard: an activated flow that reaches its end while still STARTING is not
    finished (hence not restarted): only `FlowStarted` is queued — whatever labels the run passed. -/
theorem advanceOne_immediate_finish {v : Variant} {progs : Nat → Prog} {s : St} {fuid huid : Nat} {o : Nat → Ans} {fuel : Nat}
    {f : Inst} {h : HeadRec} {run : Run}
    (hs : slideOf progs s fuid huid o fuel = some (f, h, run)) (he : run.stop = some .atEnd)
    (hns : run.final.stopping = false) (hst : entryStatus f = .starting) (hact : f.activated > 0) :
    (advanceOne v progs s fuid huid o fuel).queue = s.queue ++ [.flowStarted fuid] := by
  obtain ⟨h0, hr⟩ := slideOf_run hs
  have hend : (progs f.flowId).length ≤ run.final.pos := by
    rw [hr]; apply slide_atEnd; rw [← hr]; exact he
  unfold advanceOne
  simp only [hs, he, hst, hns]
  have d : decide (run.final.pos ≥ (progs f.flowId).length) = true := by simpa using hend
  simp [d, hact, modify, pushRight]


/-! ### matching phase -/

/-- weak frame of one abort: every other record keeps everything but (possibly) its child list -/
def KeepsButChildren (uids : List Nat) (i i' : Inst) : Prop :=
  i'.uid = i.uid ∧ (i.uid ∉ uids → i' = { i with children := i'.children })

theorem abortFlow_upd_weak (s : St) (uid : Nat) : Upd (KeepsButChildren [uid]) s (abortFlow s uid) := by
  unfold abortFlow
  cases hf : find s uid with
  | none => exact upd_map (φ := id) (by simp) (fun i => ⟨rfl, fun _ => rfl⟩)
  | some f =>
    simp only
    split
    · exact upd_map (φ := id) (by simp) (fun i => ⟨rfl, fun _ => rfl⟩)
    · refine (abortCore_upd s f).mono ?_
      intro a b hab
      refine ⟨hab.uid, fun hn => hab.others ?_⟩
      rw [find_uid hf]
      simpa using hn

theorem abortErroring_upd (errs : List Cand) : ∀ s : St, Upd (KeepsButChildren (errs.map (·.fuid))) s (abortErroring s errs) := by
  induction errs with
  | nil => intro s; exact upd_map (φ := id) (by simp [abortErroring]) (fun i => ⟨rfl, fun _ => rfl⟩)
  | cons c cs ih =>
    intro s
    have h1 := abortFlow_upd_weak s c.fuid
    have h2 := ih (abortFlow s c.fuid)
    have e : abortErroring s (c :: cs) = abortErroring (abortFlow s c.fuid) cs := by
      simp [abortErroring, List.foldl_cons]
    rw [e]
    refine Upd.trans h1 h2 ?_
    intro a b d hab hbd
    refine ⟨by rw [hbd.1, hab.1], fun hn => ?_⟩
    simp only [List.map_cons, List.mem_cons, not_or] at hn
    have e1 := hab.2 (by simpa using hn.1)
    have e2 := hbd.2 (by rw [hab.1]; exact hn.2)
    rw [e2, e1]

theorem queueErrors_queue (errs : List Cand) : ∀ s : St,
    (queueErrors s errs).queue = s.queue ++ List.replicate errs.length IEv.colangError ∧ (queueErrors s errs).insts = s.insts := by
  induction errs with
  | nil => intro s; simp [queueErrors]
  | cons c cs ih =>
    intro s
    have e : queueErrors s (c :: cs) = queueErrors (pushRight s .colangError) cs := by simp [queueErrors, List.foldl_cons]
    rw [e]
    obtain ⟨h1, h2⟩ := ih (pushRight s .colangError)
    refine ⟨?_, by rw [h2]; rfl⟩
    rw [h1]
    simp [pushRight, List.replicate_succ]

def isErr (c : Cand) : Bool := c.score == .err
def isPos (c : Cand) : Bool := match c.score with | .pos _ => true | _ => false
def isNeg (c : Cand) : Bool := c.score == .neg

theorem matchPhaseRepaired_spec (cands : List Cand) :
    (matchPhaseRepaired cands).matching = cands.filter isPos ∧
    (matchPhaseRepaired cands).failing = cands.filter isNeg ∧
    (matchPhaseRepaired cands).erroring = cands.filter isErr := by
  induction cands with
  | nil => simp [matchPhaseRepaired]
  | cons c cs ih =>
    obtain ⟨h1, h2, h3⟩ := ih
    unfold matchPhaseRepaired
    cases hc : c.score <;> simp [hc, h1, h2, h3, isPos, isNeg, isErr]

theorem matchPhaseAsIs_none {cands : List Cand} (h : ∃ c ∈ cands, c.score = .err) : matchPhaseAsIs cands = none := by
  induction cands with
  | nil => obtain ⟨c, hc, _⟩ := h; simp at hc
  | cons c cs ih =>
    obtain ⟨x, hx, hxe⟩ := h
    unfold matchPhaseAsIs
    cases hc : c.score with
    | err => rfl
    | pos k =>
      have : ∃ c ∈ cs, c.score = .err := by
        simp only [List.mem_cons] at hx
        rcases hx with hx | hx
        · subst hx; rw [hc] at hxe; cases hxe
        · exact ⟨x, hx, hxe⟩
      simp [ih this]
    | zero =>
      have : ∃ c ∈ cs, c.score = .err := by
        simp only [List.mem_cons] at hx
        rcases hx with hx | hx
        · subst hx; rw [hc] at hxe; cases hxe
        · exact ⟨x, hx, hxe⟩
      simp [ih this]
    | neg =>
      have : ∃ c ∈ cs, c.score = .err := by
        simp only [List.mem_cons] at hx
        rcases hx with hx | hx
        · subst hx; rw [hc] at hxe; cases hxe
        · exact ⟨x, hx, hxe⟩
      simp [ih this]

theorem matchPhaseAsIs_some {cands : List Cand} (h : ∀ c ∈ cands, c.score ≠ .err) :
    matchPhaseAsIs cands = some (matchPhaseRepaired cands) := by
  induction cands with
  | nil => rfl
  | cons c cs ih =>
    have h' : ∀ c ∈ cs, c.score ≠ .err := fun x hx => h x (List.mem_cons_of_mem _ hx)
    have hc := h c (List.mem_cons_self)
    unfold matchPhaseAsIs matchPhaseRepaired
    rw [ih h']
    cases hs : c.score <;> simp_all


theorem headPresent_pushRight (s : St) (e : IEv) (c : Cand) : headPresent (pushRight s e) c = headPresent s c := rfl

/-- abort after the loop: the scan itself never touches the instance records, so every look-up of a candidate whose head
    existed when the scan began succeeds, and the scan computes exactly `matchPhaseRepaired` -/
theorem scanLookup_safe (cands : List Cand) : ∀ s : St, (∀ c ∈ cands, headPresent s c = true) →
    ∃ s', scanLookup false s cands = some (s', matchPhaseRepaired cands) ∧ s'.insts = s.insts ∧
      s'.queue = s.queue ++ List.replicate (cands.filter isErr).length IEv.colangError := by
  induction cands with
  | nil => intro s _; exact ⟨s, rfl, rfl, by simp⟩
  | cons c cs ih =>
    intro s hp
    have hc : headPresent s c = true := hp c List.mem_cons_self
    have hcs : ∀ x ∈ cs, headPresent s x = true := fun x hx => hp x (List.mem_cons_of_mem _ hx)
    unfold scanLookup matchPhaseRepaired
    simp only [hc, Bool.not_true, Bool.false_eq_true, if_false]
    cases hsc : c.score with
    | err =>
      obtain ⟨s', h1, h2, h3⟩ := ih (pushRight s .colangError) (fun x hx => by rw [headPresent_pushRight]; exact hcs x hx)
      refine ⟨s', ?_, by rw [h2]; rfl, ?_⟩
      · simp [h1]
      · rw [h3]; simp [pushRight, isErr, hsc, List.replicate_succ]
    | pos k =>
      obtain ⟨s', h1, h2, h3⟩ := ih s hcs
      exact ⟨s', by simp [h1], h2, by rw [h3]; simp [isErr, hsc]⟩
    | neg =>
      obtain ⟨s', h1, h2, h3⟩ := ih s hcs
      exact ⟨s', by simp [h1], h2, by rw [h3]; simp [isErr, hsc]⟩
    | zero =>
      obtain ⟨s', h1, h2, h3⟩ := ih s hcs
      exact ⟨s', by simp [h1], h2, by rw [h3]; simp [isErr, hsc]⟩

end NemoVerif.ErrContain
