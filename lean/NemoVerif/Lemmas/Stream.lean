/-
  C18 — helper lemmas for the streaming model (`Models/Stream.lean`).
  Part 1: text facts (`cutStop`, `stripSuffix`, `holds`/`Clean`).
-/
import NemoVerif.Models.Stream
set_option linter.unusedSimpArgs false
namespace NemoVerif.Stream

/-- no stop sequence is the empty string (an empty stop sequence makes `str.split` raise in the
    unpatched code and cuts everything in the patched one; excluded, see ASSUMPTIONS) -/
def NonemptyStops (stops : List Str) : Prop := ∀ s ∈ stops, s ≠ []

/-- `a` does not end with a non-empty prefix of any of the patterns — the exact negation of
    `skip_processing` (`holds`) -/
def Clean (ps : List Str) (a : Str) : Prop := ∀ p ∈ ps, ∀ q : Str, q ≠ [] → q <+: p → ¬ q <:+ a

theorem stopHere_iff {S : List Str} {t : Str} : stopHere S t = true ↔ ∃ s ∈ S, s <+: t := by
  simp [stopHere, List.any_eq_true]

theorem stopHere_nil {S : List Str} (hS : NonemptyStops S) : stopHere S [] = false := by
  cases h : stopHere S [] with
  | false => rfl
  | true =>
    obtain ⟨s, hs, hp⟩ := stopHere_iff.1 h
    exact absurd (List.prefix_nil.1 hp) (hS s hs)

theorem stopHere_append {S : List Str} {a : Str} (b : Str) (h : stopHere S a = true) : stopHere S (a ++ b) = true := by
  obtain ⟨s, hs, hp⟩ := stopHere_iff.1 h
  exact stopHere_iff.2 ⟨s, hs, hp.trans (List.prefix_append a b)⟩

theorem cutStop_nil {S : List Str} (hS : NonemptyStops S) : cutStop S [] = none := by
  simp [cutStop, stopHere_nil hS]

theorem clean_nil (ps : List Str) : Clean ps [] := by
  intro p _ q hq _ hs
  exact hq (List.suffix_nil.1 hs)

theorem clean_tail {ps : List Str} {c : Char} {a : Str} (h : Clean ps (c :: a)) : Clean ps a := by
  intro p hp q hq hpre hs
  exact h p hp q hq hpre (hs.trans (List.suffix_cons c a))

theorem clean_mono {ps ps' : List Str} {a : Str} (hsub : ∀ p ∈ ps', p ∈ ps) (h : Clean ps a) : Clean ps' a :=
  fun p hp => h p (hsub p hp)

/-- a non-empty suffix of `R ++ c` is a suffix of `c`, or is `as ++ c` for a non-empty suffix `as` of `R` -/
theorem suffix_append_cases {q R c : Str} (h : q <:+ R ++ c) : q <:+ c ∨ ∃ as, as ≠ [] ∧ as <:+ R ∧ q = as ++ c := by
  obtain ⟨t, ht⟩ := h
  rcases List.append_eq_append_iff.1 ht with ⟨as, hR, hq⟩ | ⟨bs, _, hc⟩
  · by_cases has : as = []
    · subst has; left; simp at hq; exact hq ▸ List.suffix_refl _
    · right; exact ⟨as, has, ⟨t, hR.symm⟩, hq⟩
  · left; exact ⟨bs, hc.symm⟩

theorem clean_append {ps : List Str} {R c : Str} (hR : Clean ps R) (hc : Clean ps c) : Clean ps (R ++ c) := by
  intro p hp q hq hpre hs
  rcases suffix_append_cases hs with h | ⟨as, has, hsR, rfl⟩
  · exact hc p hp q hq hpre h
  · exact hR p hp as has ((List.prefix_append as c).trans hpre) hsR

theorem holds_false_iff {ps : List Str} {a : Str} : holds ps a = false ↔ Clean ps a := by
  constructor
  · intro h p hp q hq hpre hs
    have hlen : q.length ≤ p.length := hpre.length_le
    have hpos : 0 < q.length := List.length_pos_iff.2 hq
    have : holds ps a = true := by
      simp only [holds, List.any_eq_true]
      refine ⟨p, hp, q.length - 1, ?_, ?_⟩
      · simp only [List.mem_range]; omega
      · have e : q.length - 1 + 1 = q.length := by omega
        rw [e, ← List.prefix_iff_eq_take.1 hpre]
        exact List.isSuffixOf_iff_suffix.2 hs
    rw [h] at this; cases this
  · intro h
    cases hh : holds ps a with
    | false => rfl
    | true =>
      simp only [holds, List.any_eq_true, List.mem_range] at hh
      obtain ⟨p, hp, l, hl, hsuf⟩ := hh
      have hs := List.isSuffixOf_iff_suffix.1 hsuf
      have hne : p.take (l + 1) ≠ [] := by
        intro e
        have h0 : (p.take (l + 1)).length = 0 := by rw [e]; rfl
        rw [List.length_take] at h0
        omega
      exact absurd hs (h p hp _ hne (List.take_prefix _ _))

/-! #### `cutStop` -/

theorem cutStop_cons (S : List Str) (c : Char) (t : Str) :
    cutStop S (c :: t) = if stopHere S (c :: t) then some [] else (cutStop S t).map (c :: ·) := rfl

/-- the cut text is a prefix of the text -/
theorem cutStop_prefix {S : List Str} : ∀ {t u : Str}, cutStop S t = some u → u <+: t
  | [], u, h => by
    simp only [cutStop] at h
    split at h <;> simp_all
  | c :: t, u, h => by
    rw [cutStop_cons] at h
    split at h
    · cases h; exact List.nil_prefix
    · cases h' : cutStop S t with
      | none => simp [h'] at h
      | some u' =>
        simp [h'] at h
        subst h
        exact (List.prefix_cons_inj c).2 (cutStop_prefix h')

/-- no stop sequence in `a ++ b` ⇒ none in `a` -/
theorem cutStop_none_of_append {S : List Str} (hS : NonemptyStops S) : ∀ {a : Str} (b : Str), cutStop S (a ++ b) = none → cutStop S a = none
  | [], _, _ => cutStop_nil hS
  | c :: a, b, h => by
    rw [List.cons_append, cutStop_cons] at h
    rw [cutStop_cons]
    split at h
    · cases h
    · rename_i hn
      have hn' : ¬ stopHere S (c :: a) = true := fun h' => hn (stopHere_append b h')
      simp only [hn']
      cases h' : cutStop S (a ++ b) with
      | none => simp [cutStop_none_of_append hS b h']
      | some u => simp [h'] at h

/-- the text before the earliest stop sequence contains no stop sequence -/
theorem cutStop_cut {S : List Str} (hS : NonemptyStops S) : ∀ {t u : Str}, cutStop S t = some u → cutStop S u = none
  | [], u, h => by simp [cutStop_nil hS] at h
  | c :: t, u, h => by
    rw [cutStop_cons] at h
    split at h
    · cases h; exact cutStop_nil hS
    · rename_i hn
      cases h' : cutStop S t with
      | none => simp [h'] at h
      | some u' =>
        simp [h'] at h
        subst h
        have hpre : c :: u' <+: c :: t := (List.prefix_cons_inj c).2 (cutStop_prefix h')
        obtain ⟨r, hr⟩ := hpre
        have hn' : ¬ stopHere S (c :: u') = true := fun hh => hn (hr ▸ stopHere_append r hh)
        rw [cutStop_cons]
        simp [hn', cutStop_cut hS h']

/-- if `a` does not end inside a stop sequence, the first stop sequence of `a ++ b` is the first one
    of `a`, else the first one of `b` -/
theorem cutStop_append {S : List Str} (hS : NonemptyStops S) : ∀ {a : Str} (b : Str), Clean S a →
    cutStop S (a ++ b) = match cutStop S a with
      | some u => some u
      | none => (cutStop S b).map (a ++ ·)
  | [], b, _ => by
    simp [cutStop_nil hS]
  | c :: a, b, hc => by
    have ih := cutStop_append hS b (clean_tail hc)
    have hiff : stopHere S (c :: a ++ b) = stopHere S (c :: a) := by
      cases h1 : stopHere S (c :: a) with
      | true => exact stopHere_append b h1
      | false =>
        cases h2 : stopHere S (c :: a ++ b) with
        | false => rfl
        | true =>
          exfalso
          obtain ⟨s, hs, hp⟩ := stopHere_iff.1 h2
          rcases List.prefix_or_prefix_of_prefix hp (List.prefix_append (c :: a) b) with h | h
          · have : stopHere S (c :: a) = true := stopHere_iff.2 ⟨s, hs, h⟩
            rw [h1] at this; cases this
          · exact hc s hs (c :: a) (by simp) h (List.suffix_refl _)
    rw [List.cons_append, cutStop_cons, cutStop_cons, ← List.cons_append, hiff]
    split
    · rfl
    · rw [ih]
      cases cutStop S a with
      | some u => rfl
      | none =>
        cases cutStop S b with
        | none => rfl
        | some v => simp

/-- `cutStop` answers `none` iff no stop sequence starts anywhere in the text -/
theorem cutStop_none_iff (S : List Str) : ∀ t : Str, cutStop S t = none ↔ ∀ u r, t = u ++ r → stopHere S r = false
  | [] => by
    constructor
    · intro h u r e
      have hu : u = [] := (List.append_eq_nil_iff.1 e.symm).1
      have hr : r = [] := (List.append_eq_nil_iff.1 e.symm).2
      subst hu hr
      cases hh : stopHere S [] with
      | false => rfl
      | true => simp [cutStop, hh] at h
    · intro h
      simp [cutStop, h [] [] rfl]
  | c :: t => by
    rw [cutStop_cons]
    constructor
    · intro h u r e
      split at h
      · cases h
      · rename_i hn
        cases u with
        | nil => simp at e; subst e; simpa using hn
        | cons d u' =>
          simp at e
          have ht : cutStop S t = none := by
            cases h' : cutStop S t with
            | none => rfl
            | some v => simp [h'] at h
          exact (cutStop_none_iff S t).1 ht u' r e.2
    · intro h
      have h0 := h [] (c :: t) rfl
      simp only [h0, Bool.false_eq_true, if_false, Option.map_eq_none_iff]
      exact (cutStop_none_iff S t).2 (fun u r e => h (c :: u) r (by simp [e]))

/-- `cutStop` answers `u` iff a stop sequence starts right after `u` and after no shorter prefix -/
theorem cutStop_some_iff (S : List Str) : ∀ (t u : Str), cutStop S t = some u ↔
    ∃ r, t = u ++ r ∧ stopHere S r = true ∧ ∀ u' r', t = u' ++ r' → stopHere S r' = true → u.length ≤ u'.length
  | [], u => by
    constructor
    · intro h
      simp only [cutStop] at h
      split at h
      · rename_i hh
        cases h
        exact ⟨[], rfl, hh, fun _ _ _ _ => Nat.zero_le _⟩
      · cases h
    · rintro ⟨r, e, hr, _⟩
      have hu : u = [] := (List.append_eq_nil_iff.1 e.symm).1
      have hr' : r = [] := (List.append_eq_nil_iff.1 e.symm).2
      subst hu hr'
      simp [cutStop, hr]
  | c :: t, u => by
    rw [cutStop_cons]
    constructor
    · intro h
      split at h
      · rename_i hh
        cases h
        exact ⟨c :: t, rfl, hh, fun _ _ _ _ => Nat.zero_le _⟩
      · rename_i hn
        cases h' : cutStop S t with
        | none => simp [h'] at h
        | some v =>
          simp [h'] at h
          subst h
          obtain ⟨r, e, hr, hmin⟩ := (cutStop_some_iff S t v).1 h'
          refine ⟨r, by simp [e], hr, ?_⟩
          intro u' r' e' hr'
          cases u' with
          | nil => simp at e'; subst e'; exact absurd hr' hn
          | cons d u'' =>
            simp at e'
            have := hmin u'' r' e'.2 hr'
            simp; omega
    · rintro ⟨r, e, hr, hmin⟩
      cases u with
      | nil =>
        simp at e; subst e
        simp [hr]
      | cons d v =>
        simp at e
        obtain ⟨rfl, e⟩ := e
        have hn : ¬ stopHere S (c :: t) = true := by
          intro hh
          have := hmin [] (c :: t) rfl hh
          simp at this
        simp only [hn, if_false]
        have : cutStop S t = some v := (cutStop_some_iff S t v).2
          ⟨r, e, hr, fun u' r' e' hr' => by
            have := hmin (c :: u') r' (by simp [e']) hr'
            simp at this; omega⟩
        simp [this]

/-! #### `stripSuffix` -/

theorem stripSuffix_prefix (sfx t : Str) : stripSuffix sfx t <+: t := by
  unfold stripSuffix
  split
  · exact List.take_prefix _ _
  · exact List.prefix_refl _

theorem stripSuffix_nil_sfx (t : Str) : stripSuffix [] t = t := by simp [stripSuffix]

/-- `R` does not end with (a first part of) the suffix ⇒ the suffix of `R ++ x` lies inside `x` -/
theorem suffix_append_iff_of_clean {sfx R x : Str} (_hne : sfx ≠ []) (hc : Clean [sfx] R) : sfx <:+ R ++ x ↔ sfx <:+ x := by
  constructor
  · intro h
    rcases suffix_append_cases h with h | ⟨as, has, hsR, e⟩
    · exact h
    · exact absurd hsR (hc sfx (by simp) as has (e ▸ List.prefix_append as x))
  · exact List.suffix_append_of_suffix

theorem stripSuffix_append {sfx R : Str} (x : Str) (hc : sfx ≠ [] → Clean [sfx] R) :
    stripSuffix sfx (R ++ x) = R ++ stripSuffix sfx x := by
  by_cases hne : sfx = []
  · subst hne; simp [stripSuffix_nil_sfx]
  · have hiff := suffix_append_iff_of_clean (x := x) hne (hc hne)
    unfold stripSuffix
    by_cases hs : sfx <:+ x
    · have hs' : sfx <:+ R ++ x := hiff.2 hs
      have hl : sfx.length ≤ x.length := hs.length_le
      simp only [ne_eq, hne, not_false_eq_true, List.isSuffixOf_iff_suffix, hs, hs', and_self, if_true]
      rw [List.take_append]
      have e1 : List.take (((R ++ x).length) - sfx.length) R = R := by
        apply List.take_of_length_le
        simp only [List.length_append]; omega
      have e2 : (R ++ x).length - sfx.length - R.length = x.length - sfx.length := by
        simp only [List.length_append]; omega
      rw [e1, e2]
    · have hs' : ¬ sfx <:+ R ++ x := fun h => hs (hiff.1 h)
      simp [List.isSuffixOf_iff_suffix, hs, hs']

theorem stripSuffix_of_clean {sfx R : Str} (hc : sfx ≠ [] → Clean [sfx] R) : stripSuffix sfx R = R := by
  by_cases hne : sfx = []
  · subst hne; exact stripSuffix_nil_sfx R
  · unfold stripSuffix
    have : ¬ sfx <:+ R := hc hne sfx (by simp) sfx hne (List.prefix_refl _)
    simp [List.isSuffixOf_iff_suffix, this]

/-! ### Part 2: the handler -/

theorem clean_pats_stop {cfg : Cfg} {R : Str} (h : Clean (pats cfg) R) : Clean cfg.stop R :=
  clean_mono (fun p hp => by simp [pats, hp]) h

theorem clean_pats_suffix {cfg : Cfg} {R : Str} (h : Clean (pats cfg) R) : cfg.suffix ≠ [] → Clean [cfg.suffix] R :=
  fun hne => clean_mono (fun p hp => by simp at hp; simp [pats, hne, hp]) h

@[simp] theorem delivered_forward (s : St) (c : Option Str) : delivered (forward s c) = delivered s ++ c.getD [] := by
  simp [delivered, forward]

/-- what has been released so far is consistent: delivered text = completion, it does not end inside
    a pattern, and it contains no stop sequence -/
structure Ready (cfg : Cfg) (s : St) : Prop where
  del : delivered s = s.completion
  clean : Clean (pats cfg) s.completion
  nostop : cutStop cfg.stop s.completion = none

/-- the generation is over for the handler and the result is the specified one for text `T` -/
structure Done (cfg : Cfg) (T : Str) (s : St) : Prop where
  del : delivered s = s.completion
  comp : s.completion = cutAndStrip cfg T
  cur : s.cur = []
  nostop : cutStop cfg.stop s.completion = none

theorem processStr_nostop (cfg : Cfg) (s : St) (x : Str) (h : cutStop cfg.stop (s.completion ++ x) = none) :
    let s' := processStr cfg s x
    s'.completion = s.completion ++ x ∧ delivered s' = delivered s ++ x ∧ s'.cur = s.cur ∧ s'.pfx = s.pfx ∧
      s'.finished = (s.finished || decide (x = [])) := by
  simp only [processStr, h]
  by_cases hx : x = []
  · simp [hx, delivered, forward]
  · simp [hx, delivered, forward]

theorem processStr_stop {cfg : Cfg} (hS : NonemptyStops cfg.stop) {s : St} (hr : Ready cfg s) {x u : Str}
    (h : cutStop cfg.stop (s.completion ++ x) = some u) :
    let s' := processStr cfg s x
    s'.completion = stripSuffix cfg.suffix u ∧ delivered s' = s'.completion ∧ s'.cur = [] ∧ s'.pfx = s.pfx ∧
      s'.finished = true ∧ cutStop cfg.stop s'.completion = none := by
  have hcs := cutStop_append hS x (clean_pats_stop hr.clean)
  rw [hr.nostop, h] at hcs
  cases hx : cutStop cfg.stop x with
  | none => simp [hx] at hcs
  | some u' =>
    simp [hx] at hcs
    subst hcs
    have hstrip := stripSuffix_append u' (clean_pats_suffix hr.clean)
    have hno : cutStop cfg.stop (stripSuffix cfg.suffix (s.completion ++ u')) = none := by
      obtain ⟨r, hr'⟩ := stripSuffix_prefix cfg.suffix (s.completion ++ u')
      have := cutStop_cut hS h
      rw [← hr'] at this
      exact cutStop_none_of_append hS r this
    simp only [processStr, h]
    rw [hstrip] at hno ⊢
    generalize stripSuffix cfg.suffix u' = w at hno ⊢
    have hdel := hr.del
    by_cases hw : w = []
    · subst hw
      simp only [List.append_nil] at hno ⊢
      simp [delivered] at hdel ⊢
      exact ⟨hdel, hno⟩
    · have hpos : 0 < w.length := List.length_pos_iff.2 hw
      simp [hpos, forward, delivered] at hdel ⊢
      exact ⟨by rw [hdel], hno⟩

theorem removeSuffixAtEnd_eq (cfg : Cfg) (R cur : Str) :
    removeSuffixAtEnd cfg R cur = if (cutStop cfg.stop (R ++ cur)).isNone then stripSuffix cfg.suffix cur else cur := by
  unfold removeSuffixAtEnd stripSuffix
  by_cases h1 : (cutStop cfg.stop (R ++ cur)).isNone = true <;> by_cases h2 : cfg.suffix = [] <;>
    by_cases h3 : cfg.suffix.isSuffixOf cur = true <;> simp [h1, h2, h3]

/-- end of the generation: what is held back is flushed; the result is the specified text -/
theorem release_final {cfg : Cfg} (hS : NonemptyStops cfg.stop) {s : St} (hr : Ready cfg s) (cur : Str) :
    Done cfg (s.completion ++ cur) (release cfg s (removeSuffixAtEnd cfg s.completion cur)) := by
  rw [removeSuffixAtEnd_eq]
  cases hT : cutStop cfg.stop (s.completion ++ cur) with
  | some u =>
    obtain ⟨h1, h2, _, _, _, h6⟩ := processStr_stop hS hr hT
    simp only [Option.isNone_some, Bool.false_eq_true, if_false, release]
    exact ⟨h2, by simp [h1, cutAndStrip, hT], rfl, h6⟩
  | none =>
    simp only [Option.isNone_none, if_true, release]
    have hstrip := stripSuffix_append cur (clean_pats_suffix hr.clean)
    have hno : cutStop cfg.stop (s.completion ++ stripSuffix cfg.suffix cur) = none := by
      obtain ⟨r, hr'⟩ := stripSuffix_prefix cfg.suffix cur
      have : cutStop cfg.stop ((s.completion ++ stripSuffix cfg.suffix cur) ++ r) = none := by
        rw [List.append_assoc, hr']; exact hT
      exact cutStop_none_of_append hS r this
    obtain ⟨h1, h2, _, _, _⟩ := processStr_nostop cfg s _ hno
    refine ⟨?_, ?_, rfl, ?_⟩
    · show delivered (processStr cfg s _) = (processStr cfg s _).completion
      rw [h1, h2, hr.del]
    · show (processStr cfg s _).completion = _
      rw [h1, cutAndStrip, hT, Option.getD_none, hstrip]
    · show cutStop cfg.stop (processStr cfg s _).completion = none
      rw [h1]; exact hno

/-- the final `_process("")` of `on_llm_end` changes neither the delivered text nor `completion` -/
theorem processStr_nil_done {cfg : Cfg} {T : Str} {s : St} (hd : Done cfg T s) (p : Str) :
    Done cfg T { processStr cfg s [] with pfx := p } := by
  have hno : cutStop cfg.stop (s.completion ++ []) = none := by simpa using hd.nostop
  obtain ⟨h1, h2, h3, _, _⟩ := processStr_nostop cfg s [] hno
  refine ⟨?_, ?_, ?_, ?_⟩
  · show delivered (processStr cfg s []) = (processStr cfg s []).completion
    rw [h1, h2, hd.del]
  · show (processStr cfg s []).completion = _
    rw [h1, List.append_nil, hd.comp]
  · show (processStr cfg s []).cur = []
    rw [h3, hd.cur]
  · show cutStop cfg.stop (processStr cfg s []).completion = none
    rw [h1]; exact hno

theorem endLlm_done {cfg : Cfg} {T : Str} {s : St} (hd : Done cfg T s) : Done cfg T (endLlm cfg s) := by
  unfold endLlm
  simp only [hd.cur, ne_eq, not_true_eq_false, if_false]
  exact processStr_nil_done hd []

/-- `on_llm_end` on a handler that still holds text back (or never saw its prefix) -/
theorem endLlm_ready {cfg : Cfg} (hS : NonemptyStops cfg.stop) {s : St} (hr : Ready cfg s) :
    Done cfg (s.completion ++ s.cur) (endLlm cfg s) := by
  unfold endLlm
  by_cases hc : s.cur = []
  · simp only [hc, ne_eq, not_true_eq_false, if_false, List.append_nil]
    refine processStr_nil_done ⟨hr.del, ?_, hc, hr.nostop⟩ []
    rw [cutAndStrip, hr.nostop, Option.getD_none, stripSuffix_of_clean (clean_pats_suffix hr.clean)]
  · simp only [hc, ne_eq, not_false_eq_true, if_true]
    exact processStr_nil_done (release_final hS hr s.cur) []

/-- invariant of the handler once the prefix is out of the way; `T` = consumed text after the prefix -/
inductive Inv2 (cfg : Cfg) (T : Str) (s : St) : Prop
  | run (hf : s.finished = false) (hT : s.completion ++ s.cur = T) (hr : Ready cfg s)
        (hmode : cfg.suffix = [] → cfg.stop = [] → s.cur = [])
  | fin (hf : s.finished = true) (hd : ∀ b, Done cfg (T ++ b) s)

theorem cutStop_no_stops (t : Str) : cutStop [] t = none := by
  induction t with
  | nil => simp [cutStop, stopHere]
  | cons c t ih => simp [cutStop_cons, stopHere, ih]

/-- one token in the hold-back / release logic -/
theorem pushBody_step {cfg : Cfg} (hS : NonemptyStops cfg.stop) {T : Str} {s : St}
    (hf : s.finished = false) (hT : s.completion ++ s.cur = T) (hr : Ready cfg s)
    (hmode : cfg.suffix = [] → cfg.stop = [] → s.cur = []) {c : Str} (hc : c ≠ []) :
    Inv2 cfg (T ++ c) (pushBody cfg s (some c)) ∧ (pushBody cfg s (some c)).pfx = s.pfx := by
  have hend : isEnd (some c) = false := by simp [isEnd, hc]
  unfold pushBody
  by_cases hm : cfg.suffix ≠ [] ∨ cfg.stop ≠ []
  · simp only [hm, if_true, Option.getD_some, hend]
    cases hh : holds (pats cfg) (s.cur ++ c) with
    | true =>
      simp only [Bool.false_eq_true, not_false_eq_true, and_self, if_true]
      refine ⟨Inv2.run hf ?_ ⟨hr.del, hr.clean, hr.nostop⟩ ?_, trivial⟩
      · show s.completion ++ (s.cur ++ c) = T ++ c
        rw [← List.append_assoc, hT]
      · intro h1 h2; rcases hm with h | h <;> contradiction
    | false =>
      simp only [Bool.false_eq_true, false_and, if_false, release]
      have hclean : Clean (pats cfg) (s.completion ++ (s.cur ++ c)) := clean_append hr.clean (holds_false_iff.1 hh)
      have hTc : s.completion ++ (s.cur ++ c) = T ++ c := by rw [← List.append_assoc, hT]
      cases hcut : cutStop cfg.stop (s.completion ++ (s.cur ++ c)) with
      | some u =>
        obtain ⟨h1, h2, _, h4, h5, h6⟩ := processStr_stop hS hr hcut
        refine ⟨Inv2.fin h5 ?_, h4⟩
        intro b
        refine ⟨h2, ?_, rfl, h6⟩
        show (processStr cfg s (s.cur ++ c)).completion = _
        have := cutStop_append hS b (clean_pats_stop hclean)
        rw [hcut, hTc] at this
        rw [h1, cutAndStrip, this]
        rfl
      | none =>
        obtain ⟨h1, h2, _, h4, h5⟩ := processStr_nostop cfg s _ hcut
        have hne : s.cur ++ c ≠ [] := by simp [hc]
        refine ⟨Inv2.run ?_ ?_ ⟨?_, ?_, ?_⟩ (fun _ _ => rfl), h4⟩
        · show (processStr cfg s (s.cur ++ c)).finished = false
          rw [h5, hf]; simp [hne]
        · show (processStr cfg s (s.cur ++ c)).completion ++ [] = T ++ c
          rw [h1, List.append_nil, hTc]
        · show delivered (processStr cfg s (s.cur ++ c)) = (processStr cfg s (s.cur ++ c)).completion
          rw [h1, h2, hr.del]
        · show Clean (pats cfg) (processStr cfg s (s.cur ++ c)).completion
          rw [h1]; exact hclean
        · show cutStop cfg.stop (processStr cfg s (s.cur ++ c)).completion = none
          rw [h1]; exact hcut
  · simp only [hm, if_false, process]
    have hm' : cfg.suffix = [] ∧ cfg.stop = [] := by
      constructor
      · exact Classical.byContradiction fun h => hm (Or.inl h)
      · exact Classical.byContradiction fun h => hm (Or.inr h)
    have hcur := hmode hm'.1 hm'.2
    have hcut : cutStop cfg.stop (s.completion ++ c) = none := by rw [hm'.2]; exact cutStop_no_stops _
    obtain ⟨h1, h2, h3, h4, h5⟩ := processStr_nostop cfg s c hcut
    have hT' : s.completion = T := by rw [← hT, hcur, List.append_nil]
    refine ⟨Inv2.run ?_ ?_ ⟨?_, ?_, ?_⟩ (fun _ _ => by rw [h3, hcur]), h4⟩
    · rw [h5, hf]; simp [hc]
    · rw [h1, h3, hcur, List.append_nil, hT']
    · rw [h1, h2, hr.del]
    · intro p hp; simp [pats, hm'.1, hm'.2] at hp
    · rw [h1]; exact hcut

/-- an end marker (`""` / `None`) pushed into a handler that is still running -/
theorem pushBody_end {cfg : Cfg} (hS : NonemptyStops cfg.stop) {T : Str} {s : St}
    (hT : s.completion ++ s.cur = T) (hr : Ready cfg s)
    (hmode : cfg.suffix = [] → cfg.stop = [] → s.cur = []) {chunk : Option Str} (he : chunk = none ∨ chunk = some []) :
    Done cfg T (pushBody cfg s chunk) := by
  have hend : isEnd chunk = true := by rcases he with rfl | rfl <;> simp [isEnd]
  have hget : chunk.getD [] = [] := by rcases he with rfl | rfl <;> rfl
  unfold pushBody
  by_cases hm : cfg.suffix ≠ [] ∨ cfg.stop ≠ []
  · simp only [hm, if_true, hend, hget, List.append_nil, not_true_eq_false, and_false, if_false]
    rw [← hT]
    exact release_final hS hr s.cur
  · simp only [hm, if_false]
    have hm' : cfg.suffix = [] ∧ cfg.stop = [] := by
      constructor
      · exact Classical.byContradiction fun h => hm (Or.inl h)
      · exact Classical.byContradiction fun h => hm (Or.inr h)
    have hcur := hmode hm'.1 hm'.2
    have hT' : s.completion = T := by rw [← hT, hcur, List.append_nil]
    have hspec : cutAndStrip cfg T = T := by
      rw [cutAndStrip, hm'.2, cutStop_no_stops, Option.getD_none, hm'.1, stripSuffix_nil_sfx]
    rcases he with rfl | rfl
    · refine ⟨?_, ?_, hcur, hr.nostop⟩
      · have := hr.del
        simp [process, forward, delivered] at this ⊢
        exact this
      · simp [process, forward, hspec, hT']
    · have hcut : cutStop cfg.stop (s.completion ++ []) = none := by simpa using hr.nostop
      obtain ⟨h1, h2, h3, _, _⟩ := processStr_nostop cfg s [] hcut
      refine ⟨?_, ?_, ?_, ?_⟩
      · show delivered (processStr cfg s []) = (processStr cfg s []).completion
        rw [h1, h2, hr.del]
      · show (processStr cfg s []).completion = _
        rw [h1, List.append_nil, hspec, hT']
      · show (processStr cfg s []).cur = []
        rw [h3, hcur]
      · show cutStop cfg.stop (processStr cfg s []).completion = none
        rw [h1]; exact hcut

/-! ### Part 3: whole runs -/

/-- global invariant; `consumed` = everything pushed so far -/
inductive GInv (cfg : Cfg) (consumed : Str) (s : St) : Prop
  | waiting (hp : cfg.pfx ≠ []) (hpfx : s.pfx = cfg.pfx) (hf : s.finished = false) (hcur : s.cur = consumed)
      (hcomp : s.completion = []) (hout : s.out = []) (hnot : ¬ cfg.pfx <+: consumed)
  | streaming (T : Str) (hpfx : s.pfx = []) (hinv : Inv2 cfg T s)
      (hT : (cfg.pfx = [] ∧ T = consumed) ∨ (cfg.pfx ≠ [] ∧ consumed = cfg.pfx ++ T))

theorem ready_fresh {cfg : Cfg} (hS : NonemptyStops cfg.stop) {s : St} (hcomp : s.completion = []) (hout : s.out = []) :
    Ready cfg s :=
  ⟨by simp [delivered, hout, hcomp], by rw [hcomp]; exact clean_nil _, by rw [hcomp]; exact cutStop_nil hS⟩

theorem ginv_init {cfg : Cfg} (hS : NonemptyStops cfg.stop) : GInv cfg [] (init cfg) := by
  by_cases hp : cfg.pfx = []
  · exact GInv.streaming [] hp (Inv2.run rfl rfl (ready_fresh hS rfl rfl) (fun _ _ => rfl)) (Or.inl ⟨hp, rfl⟩)
  · exact GInv.waiting hp rfl rfl rfl rfl rfl (fun h => hp (List.prefix_nil.1 h))

theorem inv2_extend {cfg : Cfg} {T : Str} {s : St} (c : Str) (hf : s.finished = true) (hd : ∀ b, Done cfg (T ++ b) s) :
    Inv2 cfg (T ++ c) s :=
  Inv2.fin hf (fun b => by rw [List.append_assoc]; exact hd (c ++ b))

theorem ginv_step {cfg : Cfg} (hS : NonemptyStops cfg.stop) {consumed : Str} {s : St} (h : GInv cfg consumed s)
    {c : Str} (hc : c ≠ []) : GInv cfg (consumed ++ c) (push cfg s (some c)) := by
  cases h with
  | waiting hp hpfx hf hcur hcomp hout hnot =>
    obtain ⟨spfx, scur, scomp, sout, sfin⟩ := s
    simp only at hpfx hf hcur hcomp hout
    subst hpfx hf hcur hcomp hout
    unfold push
    simp only [Bool.false_eq_true, if_false, hp, ne_eq, not_false_eq_true, if_true, Option.getD_some]
    by_cases hpre : cfg.pfx <+: scur ++ c
    · have hpre' : cfg.pfx.isPrefixOf (scur ++ c) = true := List.isPrefixOf_iff_prefix.2 hpre
      simp only [hpre', not_true_eq_false, if_false]
      have hsplit : scur ++ c = cfg.pfx ++ (scur ++ c).drop cfg.pfx.length := by
        obtain ⟨r, hr⟩ := hpre
        rw [← hr]; simp
      generalize (scur ++ c).drop cfg.pfx.length = rest at hsplit
      have hr1 : Ready cfg ⟨[], [], [], [], false⟩ := ready_fresh hS rfl rfl
      by_cases hrest : rest = []
      · simp only [hrest, if_true]
        exact GInv.streaming [] rfl (Inv2.run rfl rfl hr1 (fun _ _ => rfl)) (Or.inr ⟨hp, by rw [hsplit, hrest]⟩)
      · simp only [hrest, if_false]
        obtain ⟨hinv, hpf⟩ := pushBody_step hS (s := ⟨[], [], [], [], false⟩) (T := []) rfl rfl hr1 (fun _ _ => rfl) hrest
        exact GInv.streaming ([] ++ rest) hpf hinv (Or.inr ⟨hp, by rw [hsplit]; rfl⟩)
    · have hpre' : ¬ cfg.pfx.isPrefixOf (scur ++ c) = true := fun h => hpre (List.isPrefixOf_iff_prefix.1 h)
      simp only [hpre', not_false_eq_true, if_true]
      exact GInv.waiting hp rfl rfl rfl rfl rfl hpre
  | streaming T hpfx hinv hT =>
    have hT' : (cfg.pfx = [] ∧ T ++ c = consumed ++ c) ∨ (cfg.pfx ≠ [] ∧ consumed ++ c = cfg.pfx ++ (T ++ c)) := by
      rcases hT with ⟨h1, h2⟩ | ⟨h1, h2⟩
      · exact Or.inl ⟨h1, by rw [h2]⟩
      · exact Or.inr ⟨h1, by rw [h2, List.append_assoc]⟩
    unfold push
    cases hinv with
    | fin hf hd =>
      simp only [hf, if_true]
      exact GInv.streaming (T ++ c) hpfx (inv2_extend c hf hd) hT'
    | run hf hTs hr hmode =>
      simp only [hf, Bool.false_eq_true, if_false, hpfx, ne_eq, not_true_eq_false]
      obtain ⟨hinv, hpf⟩ := pushBody_step hS hf hTs hr hmode hc
      exact GInv.streaming (T ++ c) (hpf.trans hpfx) hinv hT'

theorem ginv_feed {cfg : Cfg} (hS : NonemptyStops cfg.stop) : ∀ (cs : List Str) {consumed : Str} {s : St},
    GInv cfg consumed s → (∀ c ∈ cs, c ≠ []) → GInv cfg (consumed ++ cs.flatten) (feed cfg s cs)
  | [], consumed, s, h, _ => by simpa [feed] using h
  | c :: cs, consumed, s, h, hne => by
    have h1 := ginv_step hS h (hne c (by simp))
    have h2 := ginv_feed hS cs h1 (fun c' hc' => hne c' (by simp [hc']))
    simpa [feed, List.append_assoc] using h2

/-- the specified text for a run in which the prefix (if any) was seen -/
theorem spec_streaming {cfg : Cfg} {text T : Str} (e : EndProto)
    (hT : (cfg.pfx = [] ∧ T = text) ∨ (cfg.pfx ≠ [] ∧ text = cfg.pfx ++ T)) : spec cfg text e = cutAndStrip cfg T := by
  rcases hT with ⟨h1, h2⟩ | ⟨h1, h2⟩
  · simp [spec, h1, h2]
  · have : cfg.pfx.isPrefixOf text = true := List.isPrefixOf_iff_prefix.2 ⟨T, h2.symm⟩
    simp [spec, h1, this, h2]

theorem ginv_finish {cfg : Cfg} (hS : NonemptyStops cfg.stop) {text : Str} {s : St} (h : GInv cfg text s) (e : EndProto) :
    delivered (finish cfg s e) = spec cfg text e ∧ (finish cfg s e).completion = spec cfg text e := by
  cases h with
  | waiting hp hpfx hf hcur hcomp hout hnot =>
    have hp' : s.pfx ≠ [] := by rw [hpfx]; exact hp
    have hnot' : ¬ cfg.pfx.isPrefixOf text = true := fun h => hnot (List.isPrefixOf_iff_prefix.1 h)
    have hpush : ∀ ch : Option Str, ch.getD [] = [] → push cfg s ch = s := by
      intro ch hch
      unfold push
      simp only [hf, Bool.false_eq_true, if_false, hp', ne_eq, not_false_eq_true, if_true, hch, List.append_nil, hcur, hpfx, hnot']
      cases s; simp_all
    have hr : Ready cfg s := ready_fresh hS hcomp hout
    have hflush : Done cfg text (endLlm cfg s) := by
      have := endLlm_ready hS hr
      rwa [hcomp, hcur, List.nil_append] at this
    cases e with
    | empty =>
      simp only [finish, hpush (some []) rfl, spec, hp, hnot', EndProto.hasLlmEnd, if_false, Bool.false_eq_true]
      exact ⟨by simp [delivered, hout], hcomp⟩
    | none =>
      simp only [finish, hpush none rfl, spec, hp, hnot', EndProto.hasLlmEnd, if_false, Bool.false_eq_true]
      exact ⟨by simp [delivered, hout], hcomp⟩
    | llmEnd =>
      simp only [finish, spec, hp, hnot', EndProto.hasLlmEnd, if_false, if_true]
      exact ⟨hflush.del.trans hflush.comp, hflush.comp⟩
    | emptyLlmEnd =>
      simp only [finish, hpush (some []) rfl, spec, hp, hnot', EndProto.hasLlmEnd, if_false, if_true]
      exact ⟨hflush.del.trans hflush.comp, hflush.comp⟩
  | streaming T hpfx hinv hT =>
    rw [spec_streaming e hT]
    have key : ∀ s' : St, Done cfg T s' → delivered s' = cutAndStrip cfg T ∧ s'.completion = cutAndStrip cfg T :=
      fun s' hd => ⟨hd.del.trans hd.comp, hd.comp⟩
    cases hinv with
    | fin hf hd =>
      have hd0 : Done cfg T s := by simpa using hd []
      have hpush : ∀ ch : Option Str, push cfg s ch = s := by intro ch; simp [push, hf]
      cases e with
      | empty => simp only [finish, hpush]; exact key _ hd0
      | none => simp only [finish, hpush]; exact key _ hd0
      | llmEnd => exact key _ (endLlm_done hd0)
      | emptyLlmEnd => simp only [finish, hpush]; exact key _ (endLlm_done hd0)
    | run hf hTs hr hmode =>
      have hpush : ∀ ch : Option Str, push cfg s ch = pushBody cfg s ch := by intro ch; simp [push, hf, hpfx]
      cases e with
      | empty => simp only [finish, hpush]; exact key _ (pushBody_end hS hTs hr hmode (Or.inr rfl))
      | none => simp only [finish, hpush]; exact key _ (pushBody_end hS hTs hr hmode (Or.inl rfl))
      | llmEnd =>
        have := endLlm_ready hS hr
        rw [hTs] at this
        exact key _ this
      | emptyLlmEnd =>
        simp only [finish, hpush]
        exact key _ (endLlm_done (pushBody_end hS hTs hr hmode (Or.inr rfl)))

/-- every chunking of `text` into non-empty tokens, every end-of-stream protocol -/
theorem run_eq_spec {cfg : Cfg} (hS : NonemptyStops cfg.stop) (cs : List Str) (hne : ∀ c ∈ cs, c ≠ []) (e : EndProto) :
    delivered (run cfg cs e) = spec cfg cs.flatten e ∧ (run cfg cs e).completion = spec cfg cs.flatten e := by
  have h := ginv_feed hS cs (ginv_init hS) hne
  rw [List.nil_append] at h
  exact ginv_finish hS h e

end NemoVerif.Stream
