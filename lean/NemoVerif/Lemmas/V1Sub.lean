/-
  Lemmas for C14 phase 4, goal 1: `_slide_with_subflows` / `_call_subflow` (model: `slideWithSubflows`) follow the
  structured call / return discipline `V1Struct.runS`, at any nesting depth.
-/
import NemoVerif.Lemmas.V1Follow
namespace NemoVerif.V1Sub
open NemoVerif.V1Interp NemoVerif.V1Struct NemoVerif.V1Follow

/-- every library body is known to the interpreter under its name, compiled by `compile`, and non-empty
    (the parser rejects an empty flow body) -/
def LibOK (cfgs : Cfgs) (lib : Lib) : Prop :=
  ∀ n q, lib.lookup n = some q → size q ≠ 0 ∧ ∃ c, cfgs.find n = some c ∧ c.elems = compile q

/-- the sound claim for a (re)start position -/
theorem start_sound (p : Prog) (start : Option Addr) (f : Nat) (st : SSt) :
    Sound (compile p) st (startPos p start) 0 none p (startOut f st p start) := by
  cases start with
  | none =>
    have h := exec_sound f p none [] [] (compile p) st (by simp [compile_eq_comp])
    simpa [startPos, startOut] using h
  | some a =>
    have h := resume_slides p a f st
    simpa [startPos, startOut] using h

theorem startPos_nonneg (p : Prog) (start : Option Addr) : 0 ≤ startPos p start := by
  cases start <;> simp [startPos] <;> omega

theorem initPrev_nonneg' (p : Prog) (start : Option Addr) (hp : size p ≠ 0) :
    0 ≤ initPrev (compile p) (startPos p start) := by
  have hl : (compile p).length = size p := by simp [compile_eq_comp, comp_length]
  cases start with
  | none =>
    have : 0 < size p := by omega
    simp [initPrev, startPos, hl, this]
  | some a =>
    exact initPrev_nonneg _ _

/-- one `slide` of the interpreter from a (re)start position does what the structured run of the flow's own
    statements says (or the model's fixed fuel ran out) -/
theorem slide_struct (p : Prog) (start : Option Addr) (f : Nat) (st : SSt) (hp : size p ≠ 0) :
    slide SLIDE_FUEL (compile p) st (startPos p start) (initPrev (compile p) (startPos p start)) = .oof ∨
    (match startOut f st p start with
      | .atStep st' a' =>
        slide SLIDE_FUEL (compile p) st (startPos p start) (initPrev (compile p) (startPos p start)) = .at st' ((off p a' : Nat) : Int)
      | .fell st' => ∃ h : Int, h < 0 ∧
        slide SLIDE_FUEL (compile p) st (startPos p start) (initPrev (compile p) (startPos p start)) = .fin st' h
      | .err => slide SLIDE_FUEL (compile p) st (startPos p start) (initPrev (compile p) (startPos p start)) = .err
      | _ => True) := by
  have hs := start_sound p start f st
  cases hr : slide SLIDE_FUEL (compile p) st (startPos p start) (initPrev (compile p) (startPos p start)) with
  | oof => left; rfl
  | err =>
    right
    cases ho : startOut f st p start with
    | atStep st' a' =>
      rw [ho] at hs; simp only [Sound] at hs
      have := slides_agree hs (by rw [hr]; simp)
      rw [hr] at this; simp [absRes] at this
    | fell st' =>
      rw [ho] at hs; simp only [Sound] at hs
      have hfin := hs _ (slides_end (code := compile p) (st := st') (pos := ((0 + size p : Nat) : Int)) (by simp [compile_eq_comp, comp_length]))
      have := slides_agree hfin (by rw [hr]; simp)
      rw [hr] at this; simp [absRes] at this
    | _ => trivial
  | fin s h =>
    right
    cases ho : startOut f st p start with
    | atStep st' a' =>
      rw [ho] at hs; simp only [Sound] at hs
      have := slides_agree hs (by rw [hr]; simp)
      rw [hr] at this; simp [absRes] at this
    | fell st' =>
      rw [ho] at hs; simp only [Sound] at hs
      have hfin := hs _ (slides_end (code := compile p) (st := st') (pos := ((0 + size p : Nat) : Int)) (by simp [compile_eq_comp, comp_length]))
      have := slides_agree hfin (by rw [hr]; simp)
      rw [hr] at this
      simp only [absRes, Option.some.injEq, ARes.fin.injEq] at this
      subst this
      exact ⟨h, slide_fin_neg _ _ _ _ _ _ _ (initPrev_nonneg' p start hp) hr, rfl⟩
    | err =>
      rw [ho] at hs; simp only [Sound] at hs
      have := slides_agree hs (by rw [hr]; simp)
      rw [hr] at this; simp [absRes] at this
    | _ => trivial
  | «at» s h =>
    right
    cases ho : startOut f st p start with
    | atStep st' a' =>
      rw [ho] at hs; simp only [Sound] at hs
      have := slides_agree hs (by rw [hr]; simp)
      rw [hr] at this
      simp only [absRes, Option.some.injEq, ARes.at.injEq] at this
      obtain ⟨rfl, rfl⟩ := this
      simp
    | fell st' =>
      rw [ho] at hs; simp only [Sound] at hs
      have hfin := hs _ (slides_end (code := compile p) (st := st') (pos := ((0 + size p : Nat) : Int)) (by simp [compile_eq_comp, comp_length]))
      have := slides_agree hfin (by rw [hr]; simp)
      rw [hr] at this; simp [absRes] at this
    | err =>
      rw [ho] at hs; simp only [Sound] at hs
      have := slides_agree hs (by rw [hr]; simp)
      rw [hr] at this; simp [absRes] at this
    | _ => trivial

/-- `_record_next_step` with modifier 1.0 at the position of the step statement `s` -/
theorem record_at (ns : State) (fs : FS) (cfg : FlowCfg) (p : Prog) (a : Addr) (s : Step)
    (hel : cfg.elems = compile p) (hs : stepAt p a = some s) (hh : fs.head = ((off p a : Nat) : Int)) :
    recordNextStep ns fs cfg false = { ns with next := recNext ns.next (elemOf s) fs.uid cfg.prio } := by
  have hidx : pyIndex cfg.elems fs.head = some (elemOf s) := by
    rw [hh, hel, pyIndex_nat]; exact landing p a s hs
  obtain ⟨ctx, flows, next, upd, ctr⟩ := ns
  simp only [recordNextStep, hidx, recNext]
  cases next with
  | none => by_cases ha : isActionable (elemOf s) = true <;> simp [ha]
  | some n =>
    by_cases hf : n.prio < cfg.prio * 100 <;> by_cases ha : isActionable (elemOf s) = true <;> simp [hf, ha]

theorem recNext_idem (old : Option NextStep) (el : Elem) (u pr : Nat) :
    recNext (recNext old el u pr) el u pr = recNext old el u pr := by
  simp only [recNext]
  cases old with
  | none =>
    by_cases ha : isActionable el = true <;> simp [ha]
  | some n =>
    by_cases hf : n.prio < pr * 100 <;> by_cases ha : isActionable el = true <;> simp [hf, ha]

/-- the decision the innermost waiting flow records -/
def nextOf (cfgs : Cfgs) (old : Option NextStep) (who : Nat × String × Step) : Option NextStep :=
  match cfgs.find who.2.1 with
  | some c => recNext old (elemOf who.2.2) who.1 c.prio
  | none => old

/-- the caller's flow state after the run: at its own step statement, or past the `do` it waits at -/
def callerFS (fs : FS) (p : Prog) (a : Addr) : Option Nat → FS
  | none => { fs with head := ((off p a : Nat) : Int) }
  | some u => { fs with head := ((off p a : Nat) : Int) + 1, status := .interrupted, interruptedBy := some u }

/-- what `slideWithSubflows` must return for a structured outcome -/
def Agrees (cfgs : Cfgs) (ns : State) (fs : FS) (p : Prog) (res : Except Err (State × FS)) : OutS → Prop
  | .wait st' ctr' a callee frames who =>
    res = .ok ({ ns with ctx := st'.ctx, upd := st'.upd, ctr := ctr', flows := ns.flows ++ frames.map SFrame.toFS,
                          next := nextOf cfgs ns.next who }, callerFS fs p a callee) ∧
    (callee = none → who.1 = fs.uid ∧ who.2.1 = fs.flowId ∧ stepAt p a = some who.2.2 ∧ frames = []) ∧
    (callee ≠ none → ∃ c, cfgs.find who.2.1 = some c)
  | .fell st' ctr' => ∃ h : Int, h < 0 ∧
    res = .ok ({ ns with ctx := st'.ctx, upd := st'.upd, ctr := ctr' }, { fs with head := h })
  | .err => res = .error .expr
  | _ => True


/-! ### the call branch of `slideWithSubflows`, separated -/

/-- `_call_subflow` (with the repair: a callee that itself waits for a nested callee records nothing) followed by the
    `should_continue` re-slide of the caller when the callee finished at once -/
def callSub (g : Nat) (cfgs : Cfgs) (ns1 : State) (fs1 : FS) (name : String) : Except Err (State × FS) :=
  match slideWithSubflows true g cfgs { ns1 with ctr := ns1.ctr + 1 } { uid := ns1.ctr, flowId := name, head := 0 } with
  | .error e => .error e
  | .ok (ns3, sub') =>
    if sub'.head < 0 then slideWithSubflows true g cfgs ns3 { fs1 with head := fs1.head + 1 }
    else
      match cfgs.find sub'.flowId with
      | none => .error .key
      | some scfg =>
        if sub'.status != .active then
          .ok ({ ns3 with flows := ns3.flows ++ [sub'] }, { fs1 with head := fs1.head + 1, status := .interrupted, interruptedBy := some sub'.uid })
        else
          .ok (recordNextStep { ns3 with flows := ns3.flows ++ [sub'] } sub' scfg false,
               { fs1 with head := fs1.head + 1, status := .interrupted, interruptedBy := some sub'.uid })

theorem slideWS_flow (g : Nat) (cfgs : Cfgs) (ns : State) (fs : FS) (cfg : FlowCfg) (st : SSt) (h : Int) (name : String)
    (hf : cfgs.find fs.flowId = some cfg)
    (hs : slide SLIDE_FUEL cfg.elems ⟨ns.ctx, ns.upd⟩ fs.head (initPrev cfg.elems fs.head) = .at st h)
    (he : cfg.elems[h.toNat]? = some (.flow name)) :
    slideWithSubflows true (g + 1) cfgs ns fs =
      callSub g cfgs { ns with ctx := st.ctx, upd := st.upd } { fs with head := h } name := by
  simp only [slideWithSubflows, hf, hs, he, callSub, Bool.true_and]
  rfl

theorem slideWS_step (g : Nat) (cfgs : Cfgs) (ns : State) (fs : FS) (cfg : FlowCfg) (st : SSt) (h : Int) (el : Elem)
    (hf : cfgs.find fs.flowId = some cfg)
    (hs : slide SLIDE_FUEL cfg.elems ⟨ns.ctx, ns.upd⟩ fs.head (initPrev cfg.elems fs.head) = .at st h)
    (he : cfg.elems[h.toNat]? = some el) (hnf : ∀ n, el ≠ .flow n) (hnfe : ∀ e, el ≠ .flowE e) :
    slideWithSubflows true (g + 1) cfgs ns fs =
      .ok (recordNextStep { ns with ctx := st.ctx, upd := st.upd } { fs with head := h } cfg false, { fs with head := h }) := by
  simp only [slideWithSubflows, hf, hs, he]
  cases el with
  | flow n => exact absurd rfl (hnf n)
  | flowE e => exact absurd rfl (hnfe e)
  | _ => rfl

theorem slideWS_fin (g : Nat) (cfgs : Cfgs) (ns : State) (fs : FS) (cfg : FlowCfg) (st : SSt) (h : Int)
    (hf : cfgs.find fs.flowId = some cfg)
    (hs : slide SLIDE_FUEL cfg.elems ⟨ns.ctx, ns.upd⟩ fs.head (initPrev cfg.elems fs.head) = .fin st h) :
    slideWithSubflows true (g + 1) cfgs ns fs = .ok ({ ns with ctx := st.ctx, upd := st.upd }, { fs with head := h }) := by
  simp only [slideWithSubflows, hf, hs]

theorem slideWS_err (g : Nat) (cfgs : Cfgs) (ns : State) (fs : FS) (cfg : FlowCfg)
    (hf : cfgs.find fs.flowId = some cfg)
    (hs : slide SLIDE_FUEL cfg.elems ⟨ns.ctx, ns.upd⟩ fs.head (initPrev cfg.elems fs.head) = .err) :
    slideWithSubflows true (g + 1) cfgs ns fs = .error .expr := by
  simp only [slideWithSubflows, hf, hs]

theorem slideWS_oof (g : Nat) (cfgs : Cfgs) (ns : State) (fs : FS) (cfg : FlowCfg)
    (hf : cfgs.find fs.flowId = some cfg)
    (hs : slide SLIDE_FUEL cfg.elems ⟨ns.ctx, ns.upd⟩ fs.head (initPrev cfg.elems fs.head) = .oof) :
    slideWithSubflows true (g + 1) cfgs ns fs = .error .oof := by
  simp only [slideWithSubflows, hf, hs]

/-- `Agrees` only looks at the caller's `flows` / `next` and at the fields of `fs` other than the head -/
theorem agrees_congr (cfgs : Cfgs) (ns : State) (fs : FS) (p : Prog) (res : Except Err (State × FS)) (o : OutS)
    (c u : Ctx) (k : Nat) (h : Int)
    (hA : Agrees cfgs { ns with ctx := c, upd := u, ctr := k } { fs with head := h } p res o) : Agrees cfgs ns fs p res o := by
  cases o with
  | wait st' ctr' a callee frames who =>
    cases callee with
    | none => simpa [Agrees, callerFS] using hA
    | some x => simpa [Agrees, callerFS] using hA
  | fell st' ctr' => simpa [Agrees] using hA
  | err => simpa [Agrees] using hA
  | oof => trivial
  | bad => trivial

theorem toFS_eq (k : Nat) (n : String) (q : Prog) (a2 : Addr) (callee2 : Option Nat) :
    callerFS { uid := k, flowId := n, head := 0 } q a2 callee2 = SFrame.toFS { uid := k, name := n, body := q, addr := a2, callee := callee2 } := by
  cases callee2 <;> rfl

/-- **`slideWithSubflows` follows the structured call / return discipline** (any nesting depth `g`) -/
theorem slideWS_sim (cfgs : Cfgs) (lib : Lib) (hlib : LibOK cfgs lib) (f : Nat) :
    ∀ (g : Nat) (ns : State) (fs : FS) (cfg : FlowCfg) (p : Prog) (start : Option Addr),
      cfgs.find fs.flowId = some cfg → cfg.elems = compile p → size p ≠ 0 → fs.head = startPos p start →
      slideWithSubflows true g cfgs ns fs = .error .oof ∨
      Agrees cfgs ns fs p (slideWithSubflows true g cfgs ns fs) (runS lib f g fs.uid fs.flowId ⟨ns.ctx, ns.upd⟩ ns.ctr p start) := by
  intro g
  induction g with
  | zero => intro ns fs cfg p start _ _ _ _; left; rfl
  | succ g ih =>
    intro ns fs cfg p start hfind hel hp hh
    have hsl := slide_struct p start f ⟨ns.ctx, ns.upd⟩ hp
    rw [← hel, ← hh] at hsl
    rcases hsl with hoof | hsl
    · left; exact slideWS_oof g cfgs ns fs cfg hfind hoof
    · simp only [runS]
      cases ho : startOut f ⟨ns.ctx, ns.upd⟩ p start with
      | fell st' =>
        rw [ho] at hsl
        obtain ⟨h, hneg, hr⟩ := hsl
        right
        rw [slideWS_fin g cfgs ns fs cfg st' h hfind hr]
        exact ⟨h, hneg, rfl⟩
      | err =>
        rw [ho] at hsl
        right
        rw [slideWS_err g cfgs ns fs cfg hfind hsl]
        rfl
      | oof => right; trivial
      | bad => right; trivial
      | brk s => right; trivial
      | cnt s => right; trivial
      | atStep st' a' =>
        rw [ho] at hsl
        simp only at hsl
        simp only []
        cases hst : stepAt p a' with
        | none => right; trivial
        | some s =>
          have hland : cfg.elems[(((off p a' : Nat) : Int)).toNat]? = some (elemOf s) := by
            rw [hel]; simpa using landing p a' s hst
          have nondo : ∀ s, stepAt p a' = some s → (∀ n, s ≠ .doFlow n) →
              slideWithSubflows true (g + 1) cfgs ns fs = .error .oof ∨
              Agrees cfgs ns fs p (slideWithSubflows true (g + 1) cfgs ns fs) (OutS.wait st' ns.ctr a' none [] (fs.uid, fs.flowId, s)) := by
            intro s hst hdo
            have hland : cfg.elems[(((off p a' : Nat) : Int)).toNat]? = some (elemOf s) := by
              rw [hel]; simpa using landing p a' s hst
            have hnf : ∀ n, elemOf s ≠ .flow n := by
              intro n hn
              cases s <;> simp [elemOf] at hn
              exact hdo _ (by rw [hn])
            have hnfe : ∀ e, elemOf s ≠ .flowE e := by
              intro e hn
              cases s <;> simp [elemOf] at hn
            right
            rw [slideWS_step g cfgs ns fs cfg st' _ (elemOf s) hfind hsl hland hnf hnfe]
            rw [record_at _ _ cfg p a' s hel hst rfl]
            refine ⟨?_, fun _ => ⟨rfl, rfl, hst, rfl⟩, fun h => absurd rfl h⟩
            simp [nextOf, hfind, callerFS]
          cases s with
          | user i => simp only []; exact nondo _ hst (by simp)
          | bot i => simp only []; exact nondo _ hst (by simp)
          | exec nm ps rk => simp only []; exact nondo _ hst (by simp)
          | doFlow n =>
            simp only []
            rw [slideWS_flow g cfgs ns fs cfg st' _ n hfind hsl hland]
            cases hl : lib.lookup n with
            | none => right; trivial
            | some q =>
              obtain ⟨hq, c, hfc, hce⟩ := hlib n q hl
              simp only [callSub]
              have ih1 := ih { ns with ctx := st'.ctx, upd := st'.upd, ctr := ns.ctr + 1 } { uid := ns.ctr, flowId := n, head := 0 } c q none
                hfc hce hq rfl
              rcases ih1 with h1 | h1
              · left
                rw [h1]
              · cases hsub : runS lib f g ns.ctr n st' (ns.ctr + 1) q none with
                | oof => right; trivial
                | bad => right; trivial
                | err =>
                  rw [hsub] at h1
                  simp only [Agrees] at h1
                  right
                  rw [h1]
                  rfl
                | fell st'' ctr'' =>
                  rw [hsub] at h1
                  obtain ⟨h, hneg, hr⟩ := h1
                  rw [hr]
                  simp only [hneg, if_true]
                  have ih2 := ih { ns with ctx := st''.ctx, upd := st''.upd, ctr := ctr'' }
                    { fs with head := ((off p a' : Nat) : Int) + 1 } cfg p (some a') hfind hel hp (by simp [startPos])
                  rcases ih2 with h2 | h2
                  · left; exact h2
                  · right
                    exact agrees_congr cfgs ns fs p _ _ _ _ _ _ h2
                | wait st'' ctr'' a2 callee2 frames who =>
                  rw [hsub] at h1
                  obtain ⟨hr, hwho, hwc⟩ := h1
                  rw [hr]
                  have hnn : ¬ (callerFS { uid := ns.ctr, flowId := n, head := 0 } q a2 callee2).head < 0 := by
                    cases callee2 <;> simp [callerFS] <;> omega
                  have hfid : (callerFS { uid := ns.ctr, flowId := n, head := 0 } q a2 callee2).flowId = n := by
                    cases callee2 <;> rfl
                  have huid : (callerFS { uid := ns.ctr, flowId := n, head := 0 } q a2 callee2).uid = ns.ctr := by
                    cases callee2 <;> rfl
                  simp only [hnn, if_false, hfid, hfc, huid]
                  right
                  cases callee2 with
                  | none =>
                    obtain ⟨hw1, hw2, hw3, hw4⟩ := hwho rfl
                    simp only at hw1 hw2
                    have hst : ((callerFS { uid := ns.ctr, flowId := n, head := 0 } q a2 none).status != Status.active) = false := rfl
                    simp only [hst, Bool.false_eq_true, if_false]
                    rw [record_at _ _ c q a2 who.2.2 hce hw3 rfl]
                    refine ⟨?_, by simp, fun _ => ⟨c, by rw [hw2]; exact hfc⟩⟩
                    have hno : nextOf cfgs ns.next who = recNext ns.next (elemOf who.2.2) ns.ctr c.prio := by
                      simp only [nextOf, hw2, hfc, hw1]
                    subst hw4
                    simp only [hno, callerFS, recNext_idem, List.map_nil, List.append_nil, List.nil_append, List.map_cons, SFrame.toFS]
                  | some u =>
                    have hst : ((callerFS { uid := ns.ctr, flowId := n, head := 0 } q a2 (some u)).status != Status.active) = true := rfl
                    simp only [hst, if_true]
                    refine ⟨?_, by simp, fun _ => hwc (by simp)⟩
                    simp only [callerFS, List.map_append, List.map_cons, List.map_nil, SFrame.toFS, List.append_assoc]

end NemoVerif.V1Sub
