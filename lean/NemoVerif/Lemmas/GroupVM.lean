/-
  Helper lemmas for C07: the head-level machine `GroupVM` refines the clause machine `Dnf.step`,
  for every tie-break.
-/
import NemoVerif.Models.GroupVM
import NemoVerif.Lemmas.Dnf
namespace NemoVerif.GroupVM
open NemoVerif.Dnf

/-! ### abstraction: which atoms of which clause are still awaited -/

def remMs (ms : List (Nat × MLoc)) : List Nat := (ms.filter fun m => m.2 == MLoc.atMatch).map (·.1)

def remBr : Br → List Nat
  | .single a => [a]
  | .multi ms _ => remMs ms
  | _ => []

/-- member heads between two events: on their match or parked -/
def QMs (ms : List (Nat × MLoc)) : Prop := ∀ m ∈ ms, m.2 = MLoc.atMatch ∨ m.2 = MLoc.atWait

/-- a branch between two events -/
def QBr : Br → Prop
  | .single _ => True
  | .multi ms need => need = ms.length ∧ QMs ms ∧ remMs ms ≠ []
  | _ => False

theorem remMs_append (a b : List (Nat × MLoc)) : remMs (a ++ b) = remMs a ++ remMs b := by
  simp [remMs]

theorem QMs_append {a b : List (Nat × MLoc)} : QMs (a ++ b) ↔ QMs a ∧ QMs b := by
  simp only [QMs, List.mem_append]
  constructor
  · intro h; exact ⟨fun m hm => h m (Or.inl hm), fun m hm => h m (Or.inr hm)⟩
  · rintro ⟨ha, hb⟩ m (hm | hm)
    · exact ha m hm
    · exact hb m hm

theorem countWait_le (ms : List (Nat × MLoc)) : countWait ms ≤ ms.length := by
  simp only [countWait]; exact List.length_filter_le _ _

/-- all parked ⇔ nothing awaited (for member lists without MERGING heads) -/
theorem countWait_eq_length {ms : List (Nat × MLoc)} (hq : QMs ms) : countWait ms = ms.length ↔ remMs ms = [] := by
  induction ms with
  | nil => simp [countWait, remMs]
  | cons m ms ih =>
    have hq' : QMs ms := fun x hx => hq x (List.mem_cons_of_mem _ hx)
    have ih := ih hq'
    have hle := countWait_le ms
    rcases hq m (List.mem_cons_self) with h | h
    · simp only [countWait, remMs, List.filter_cons, h] at *
      simp
      omega
    · simp only [countWait, remMs, List.filter_cons, h] at *
      simp
      simpa using ih

theorem p1Members_noMatch (e need : Nat) : ∀ (todo pre : List (Nat × MLoc)), remMs todo = [] →
    p1Members e need pre todo = pre ++ todo := by
  intro todo
  induction todo with
  | nil => intro pre _; simp [p1Members]
  | cons m rest ih =>
    intro pre h
    obtain ⟨a, l⟩ := m
    cases l with
    | atMatch => simp [remMs] at h
    | atWait =>
      have h' : remMs rest = [] := by simpa [remMs] using h
      simp [p1Members, ih _ h']
    | merging =>
      have h' : remMs rest = [] := by simpa [remMs] using h
      simp [p1Members, ih _ h']
    | lost =>
      have h' : remMs rest = [] := by simpa [remMs] using h
      simp [p1Members, ih _ h']

theorem mergingFrom_free (i : Nat) : ∀ (ms : List (Nat × MLoc)) (k : Nat), QMs ms → mergingFrom i k ms = [] := by
  intro ms
  induction ms with
  | nil => intro k _; rfl
  | cons m ms ih =>
    intro k hq
    obtain ⟨a, l⟩ := m
    have hq' : QMs ms := fun x hx => hq x (List.mem_cons_of_mem _ hx)
    rcases hq (a, l) (List.mem_cons_self) with h | h <;> simp only at h <;> subst h <;>
      simp [mergingFrom, ih _ hq']

theorem mergingFrom_append_free (i : Nat) : ∀ (pre rest : List (Nat × MLoc)) (k : Nat), QMs pre →
    mergingFrom i k (pre ++ rest) = mergingFrom i (k + pre.length) rest := by
  intro pre
  induction pre with
  | nil => intro rest k _; simp
  | cons m pre ih =>
    intro rest k hq
    obtain ⟨a, l⟩ := m
    have hq' : QMs pre := fun x hx => hq x (List.mem_cons_of_mem _ hx)
    have e1 : k + 1 + pre.length = k + (pre.length + 1) := by omega
    rcases hq (a, l) (List.mem_cons_self) with h | h <;> simp only at h <;> subst h <;>
      simp [mergingFrom, ih _ _ hq', e1]

theorem remMs_cons_match (a : Nat) (r : List (Nat × MLoc)) : remMs ((a, MLoc.atMatch) :: r) = a :: remMs r := by
  simp [remMs]
theorem remMs_cons_wait (a : Nat) (r : List (Nat × MLoc)) : remMs ((a, MLoc.atWait) :: r) = remMs r := by
  simp [remMs]
theorem remMs_cons_merging (a : Nat) (r : List (Nat × MLoc)) : remMs ((a, MLoc.merging) :: r) = remMs r := by
  simp [remMs]
theorem remMs_nil : remMs [] = [] := rfl
theorem stepBranch_nil (e : Nat) : stepBranch e [] = [] := rfl
theorem stepBranch_cons_self (e : Nat) (x : List Nat) : stepBranch e (e :: x) = stepBranch e x := by
  simp [stepBranch]
theorem stepBranch_cons_ne {a e : Nat} (h : a ≠ e) (x : List Nat) : stepBranch e (a :: x) = a :: stepBranch e x := by
  simp [stepBranch, h]

/-- Phase 1 on the member heads of one clause (the `WaitForHeads` count). -/
theorem p1Members_spec (e need i : Nat) : ∀ (todo pre : List (Nat × MLoc)), QMs todo → QMs pre →
    need = pre.length + todo.length →
    remMs (p1Members e need pre todo) = remMs pre ++ stepBranch e (remMs todo) ∧
    (p1Members e need pre todo).length = need ∧
    (remMs (p1Members e need pre todo) ≠ [] → QMs (p1Members e need pre todo)) ∧
    (remMs (p1Members e need pre todo) = [] → remMs todo ≠ [] →
      ∃ j a, (p1Members e need pre todo)[j]? = some (a, MLoc.merging) ∧
        mergingFrom i 0 (p1Members e need pre todo) = [QItem.member i j]) := by
  intro todo
  induction todo with
  | nil =>
    intro pre _ hpre hn
    refine ⟨by simp [p1Members, remMs_nil, stepBranch_nil], by simpa [p1Members] using hn.symm, fun _ => by simpa [p1Members] using hpre, ?_⟩
    intro _ h; exact absurd remMs_nil h
  | cons m rest ih =>
    intro pre htodo hpre hn
    obtain ⟨a, l⟩ := m
    have hrest : QMs rest := fun x hx => htodo x (List.mem_cons_of_mem _ hx)
    have hlen : need = pre.length + rest.length + 1 := by simpa [Nat.add_assoc] using hn
    rcases htodo (a, l) (List.mem_cons_self) with h | h <;> simp only at h <;> subst h
    · -- a head on its match
      by_cases hae : a = e
      · subst hae
        by_cases hc : countWait pre + countWait rest + 1 ≥ need
        · -- the last one: everybody else is parked
          have h1 := countWait_le pre
          have h2 := countWait_le rest
          have hp : remMs pre = [] := (countWait_eq_length hpre).1 (by omega)
          have hr : remMs rest = [] := (countWait_eq_length hrest).1 (by omega)
          have hres : p1Members a need pre ((a, MLoc.atMatch) :: rest) = pre ++ (a, MLoc.merging) :: rest := by
            simp only [p1Members, beq_self_eq_true, if_true, hc]
            rw [p1Members_noMatch _ _ _ _ hr]; simp
          rw [hres]
          have hrem : remMs (pre ++ (a, MLoc.merging) :: rest) = [] := by
            rw [remMs_append, remMs_cons_merging, hp, hr]; rfl
          refine ⟨?_, ?_, ?_, ?_⟩
          · rw [hrem, hp, remMs_cons_match, stepBranch_cons_self, hr, stepBranch_nil]; rfl
          · simp; omega
          · intro hne; exact absurd hrem hne
          · intro _ _
            refine ⟨pre.length, a, by simp, ?_⟩
            rw [mergingFrom_append_free i pre _ 0 hpre]
            have hfree := mergingFrom_free i rest (pre.length + 1) hrest
            simp only [mergingFrom, hfree, Nat.zero_add]
        · -- parks
          have hpre' : QMs (pre ++ [(a, MLoc.atWait)]) := QMs_append.2 ⟨hpre, by intro x hx; simp at hx; subst hx; exact Or.inr rfl⟩
          have hn' : need = (pre ++ [(a, MLoc.atWait)]).length + rest.length := by simp; omega
          have hres : p1Members a need pre ((a, MLoc.atMatch) :: rest) = p1Members a need (pre ++ [(a, MLoc.atWait)]) rest := by
            simp [p1Members, hc]
          rw [hres]
          obtain ⟨t1, t2, t3, t4⟩ := ih (pre ++ [(a, MLoc.atWait)]) hrest hpre' hn'
          have e1 : remMs (pre ++ [(a, MLoc.atWait)]) = remMs pre := by
            rw [remMs_append, remMs_cons_wait, remMs_nil, List.append_nil]
          refine ⟨?_, t2, t3, ?_⟩
          · rw [t1, e1, remMs_cons_match, stepBranch_cons_self]
          · intro hnil _
            by_cases hrr : remMs rest = []
            · -- then this head would have been the last one: contradiction with hc
              exfalso
              rw [t1, e1, hrr, stepBranch_nil, List.append_nil] at hnil
              have c1 := (countWait_eq_length hpre).2 hnil
              have c2 := (countWait_eq_length hrest).2 hrr
              omega
            · exact t4 hnil hrr
      · -- another event: stays
        have hpre' : QMs (pre ++ [(a, MLoc.atMatch)]) := QMs_append.2 ⟨hpre, by intro x hx; simp at hx; subst hx; exact Or.inl rfl⟩
        have hn' : need = (pre ++ [(a, MLoc.atMatch)]).length + rest.length := by simp; omega
        have hres : p1Members e need pre ((a, MLoc.atMatch) :: rest) = p1Members e need (pre ++ [(a, MLoc.atMatch)]) rest := by
          simp [p1Members, hae]
        rw [hres]
        obtain ⟨t1, t2, t3, t4⟩ := ih (pre ++ [(a, MLoc.atMatch)]) hrest hpre' hn'
        have e1 : remMs (pre ++ [(a, MLoc.atMatch)]) = remMs pre ++ [a] := by
          rw [remMs_append, remMs_cons_match, remMs_nil]
        refine ⟨?_, t2, t3, ?_⟩
        · rw [t1, e1, remMs_cons_match, stepBranch_cons_ne hae, List.append_assoc]; rfl
        · intro hnil _
          exfalso
          rw [t1, e1] at hnil
          simp at hnil
    · -- a parked head
      have hpre' : QMs (pre ++ [(a, MLoc.atWait)]) := QMs_append.2 ⟨hpre, by intro x hx; simp at hx; subst hx; exact Or.inr rfl⟩
      have hn' : need = (pre ++ [(a, MLoc.atWait)]).length + rest.length := by simp; omega
      have hres : p1Members e need pre ((a, MLoc.atWait) :: rest) = p1Members e need (pre ++ [(a, MLoc.atWait)]) rest := by
        simp [p1Members]
      rw [hres]
      obtain ⟨t1, t2, t3, t4⟩ := ih (pre ++ [(a, MLoc.atWait)]) hrest hpre' hn'
      have e1 : remMs (pre ++ [(a, MLoc.atWait)]) = remMs pre := by
        rw [remMs_append, remMs_cons_wait, remMs_nil, List.append_nil]
      refine ⟨?_, t2, t3, ?_⟩
      · rw [t1, e1, remMs_cons_wait]
      · intro hnil hne
        apply t4 hnil
        rwa [remMs_cons_wait] at hne

/-! ### MERGING heads -/

/-- `q` is a MERGING head of the machine -/
def Live (brs : List Br) : QItem → Prop
  | .branch i => brs[i]? = some Br.merging
  | .member i j => ∃ ms need a, brs[i]? = some (Br.multi ms need) ∧ ms[j]? = some (a, MLoc.merging)

def nMerging (ms : List (Nat × MLoc)) : Nat := (mergingFrom 0 0 ms).length

def brMerging : Br → Nat
  | .multi ms _ => nMerging ms
  | _ => 0

def totalMerging : List Br → Nat
  | [] => 0
  | b :: rest => brMerging b + totalMerging rest

def candBr (i : Nat) : Br → List QItem
  | .merging => [.branch i]
  | .multi ms _ => mergingMembers i ms
  | _ => []

theorem candidates_cons (k : Nat) (b : Br) (rest : List Br) :
    candidates k (b :: rest) = candBr k b ++ candidates (k + 1) rest := by
  cases b <;> simp [candidates, candBr]

theorem mergingFrom_length (i k : Nat) : ∀ (ms : List (Nat × MLoc)) (i' k' : Nat),
    (mergingFrom i k ms).length = (mergingFrom i' k' ms).length := by
  intro ms
  induction ms generalizing k with
  | nil => intro _ _; rfl
  | cons m ms ih =>
    intro i' k'
    obtain ⟨a, l⟩ := m
    cases l <;> simp [mergingFrom, ih (k + 1) i' (k' + 1)]

theorem mem_mergingFrom (i : Nat) : ∀ (ms : List (Nat × MLoc)) (k : Nat) (q : QItem),
    q ∈ mergingFrom i k ms ↔ ∃ j a, q = QItem.member i (k + j) ∧ ms[j]? = some (a, MLoc.merging) := by
  intro ms
  induction ms with
  | nil => intro k q; simp [mergingFrom]
  | cons m ms ih =>
    intro k q
    obtain ⟨a, l⟩ := m
    have hshift : (∃ j a', q = QItem.member i (k + 1 + j) ∧ ms[j]? = some (a', MLoc.merging)) ↔
        (∃ j a', q = QItem.member i (k + (j + 1)) ∧ ((a, l) :: ms)[j + 1]? = some (a', MLoc.merging)) := by
      constructor
      · rintro ⟨j, a', h1, h2⟩; exact ⟨j, a', by rw [h1]; congr 1; omega, by simpa using h2⟩
      · rintro ⟨j, a', h1, h2⟩; exact ⟨j, a', by rw [h1]; congr 1; omega, by simpa using h2⟩
    have hsplit : (∃ j a', q = QItem.member i (k + j) ∧ ((a, l) :: ms)[j]? = some (a', MLoc.merging)) ↔
        ((q = QItem.member i k ∧ l = MLoc.merging) ∨
          ∃ j a', q = QItem.member i (k + (j + 1)) ∧ ((a, l) :: ms)[j + 1]? = some (a', MLoc.merging)) := by
      constructor
      · rintro ⟨j, a', h1, h2⟩
        cases j with
        | zero => left; simp at h2; exact ⟨by simpa using h1, h2.2⟩
        | succ j => right; exact ⟨j, a', h1, h2⟩
      · rintro (⟨h1, h2⟩ | ⟨j, a', h1, h2⟩)
        · exact ⟨0, a, by simpa using h1, by simp [h2]⟩
        · exact ⟨j + 1, a', h1, h2⟩
    rw [hsplit, ← hshift, ← ih (k + 1) q]
    cases l <;> simp [mergingFrom]

theorem mem_candidates : ∀ (brs : List Br) (k : Nat) (q : QItem),
    q ∈ candidates k brs ↔
      (∃ i, q = QItem.branch (k + i) ∧ brs[i]? = some Br.merging) ∨
      (∃ i j ms need a, q = QItem.member (k + i) j ∧ brs[i]? = some (Br.multi ms need) ∧ ms[j]? = some (a, MLoc.merging)) := by
  intro brs
  induction brs with
  | nil => intro k q; simp [candidates]
  | cons b rest ih =>
    intro k q
    rw [candidates_cons, List.mem_append, ih (k + 1) q]
    constructor
    · rintro (h | h | h)
      · cases b with
        | merging => simp [candBr] at h; left; exact ⟨0, by simpa using h, by simp⟩
        | multi ms need =>
          simp only [candBr, mergingMembers] at h
          obtain ⟨j, a, h1, h2⟩ := (mem_mergingFrom k ms 0 q).1 h
          right; exact ⟨0, j, ms, need, a, by simpa using h1, by simp, h2⟩
        | single a => simp [candBr] at h
        | lost => simp [candBr] at h
      · obtain ⟨i, h1, h2⟩ := h
        left; exact ⟨i + 1, by rw [h1]; congr 1; omega, by simpa using h2⟩
      · obtain ⟨i, j, ms, need, a, h1, h2, h3⟩ := h
        right; exact ⟨i + 1, j, ms, need, a, by rw [h1]; congr 1; omega, by simpa using h2, h3⟩
    · rintro (⟨i, h1, h2⟩ | ⟨i, j, ms, need, a, h1, h2, h3⟩)
      · cases i with
        | zero =>
          left
          simp at h2; subst h2
          simp [candBr, h1]
        | succ i => right; left; exact ⟨i, by rw [h1]; congr 1; omega, by simpa using h2⟩
      · cases i with
        | zero =>
          left
          simp at h2; subst h2
          simp only [candBr, mergingMembers]
          exact (mem_mergingFrom k ms 0 q).2 ⟨j, a, by simpa using h1, h3⟩
        | succ i => right; right; exact ⟨i, j, ms, need, a, by rw [h1]; congr 1; omega, by simpa using h2, h3⟩

theorem mem_candidates_live (brs : List Br) (q : QItem) : q ∈ candidates 0 brs ↔ Live brs q := by
  rw [mem_candidates]
  cases q with
  | branch i =>
    simp only [Live]
    constructor
    · rintro (⟨i', h1, h2⟩ | ⟨i', j, ms, need, a, h1, _, _⟩)
      · simp at h1; subst h1; exact h2
      · cases h1
    · intro h; left; exact ⟨i, by simp, h⟩
  | member i j =>
    simp only [Live]
    constructor
    · rintro (⟨i', h1, _⟩ | ⟨i', j', ms, need, a, h1, h2, h3⟩)
      · cases h1
      · simp at h1; obtain ⟨rfl, rfl⟩ := h1; exact ⟨ms, need, a, h2, h3⟩
    · rintro ⟨ms, need, a, h2, h3⟩; right; exact ⟨i, j, ms, need, a, by simp, h2, h3⟩

theorem totalMerging_set : ∀ (brs : List Br) (i : Nat) (b b' : Br), brs[i]? = some b →
    totalMerging (brs.set i b') + brMerging b = totalMerging brs + brMerging b' := by
  intro brs
  induction brs with
  | nil => intro i b b' h; simp at h
  | cons x rest ih =>
    intro i b b' h
    cases i with
    | zero => simp at h; subst h; simp [totalMerging]; omega
    | succ i =>
      have := ih i b b' (by simpa using h)
      simp [totalMerging]; omega

theorem totalMerging_le : ∀ (brs : List Br), (∀ b ∈ brs, brMerging b ≤ 1) → totalMerging brs ≤ brs.length := by
  intro brs
  induction brs with
  | nil => intro _; simp [totalMerging]
  | cons x rest ih =>
    intro h
    have h1 := h x (List.mem_cons_self)
    have h2 := ih (fun b hb => h b (List.mem_cons_of_mem _ hb))
    simp [totalMerging]; omega

/-! ### phase 2: whatever the tie-breaks, the root passes the group -/

/-- invariant of the merging loop -/
structure I2 (brs : List Br) (queue : List QItem) : Prop where
  inQueue : ∀ q, Live brs q → q ∈ queue
  atMostOne : ∀ (i : Nat) (ms : List (Nat × MLoc)) (need : Nat), brs[i]? = some (Br.multi ms need) → nMerging ms ≤ 1
  some : ∃ q, Live brs q

theorem mergeLoop_of_done : ∀ (fuel : Nat) (vm : VM) (queue : List QItem) (ch : List Nat), vm.done = true →
    (mergeLoop fuel vm queue ch).1.done = true := by
  intro fuel vm queue ch h
  cases fuel with
  | zero => simpa [mergeLoop] using h
  | succ f =>
    cases queue with
    | nil => simpa [mergeLoop] using h
    | cons q rest => simp [mergeLoop, h]

theorem pick_self (q : QItem) (cands : List QItem) (ch : List Nat) (h : cands.length ≤ 1) :
    pick q cands ch = (q, ch) := by
  simp only [pick]
  rw [if_neg (by omega)]

theorem getD_mem (l : List QItem) (n : Nat) (d : QItem) (h : n < l.length) : l.getD n d ∈ l := by
  rw [List.getD_eq_getElem?_getD, List.getElem?_eq_getElem h]
  simp

theorem pick_mem (q : QItem) (cands : List QItem) (ch : List Nat) :
    (pick q cands ch).1 = q ∨ (pick q cands ch).1 ∈ cands := by
  simp only [pick]
  by_cases h : cands.length > 1
  · rw [if_pos h]
    right
    cases ch with
    | nil =>
      exact getD_mem _ _ _ (by omega)
    | cons c cs =>
      exact getD_mem _ _ _ (Nat.mod_lt _ (by omega))
  · rw [if_neg h]; left; rfl

theorem nMerging_pos {ms : List (Nat × MLoc)} {j a : Nat} (i : Nat) (h : ms[j]? = some (a, MLoc.merging)) :
    QItem.member i j ∈ mergingMembers i ms := by
  simp only [mergingMembers]
  exact (mem_mergingFrom i ms 0 _).2 ⟨j, a, by simp, h⟩

theorem mergingMembers_length (i : Nat) (ms : List (Nat × MLoc)) : (mergingMembers i ms).length = nMerging ms := by
  simp only [mergingMembers, nMerging]
  exact mergingFrom_length i 0 ms 0 0

theorem mergeLoop_done : ∀ (fuel : Nat) (vm : VM) (queue : List QItem) (ch : List Nat), vm.done = false →
    I2 vm.brs queue → queue.length + 2 * totalMerging vm.brs < fuel →
    (mergeLoop fuel vm queue ch).1.done = true := by
  intro fuel
  induction fuel with
  | zero => intro vm queue ch _ _ h; omega
  | succ f ih =>
    intro vm queue ch hd hI hf
    cases queue with
    | nil =>
      obtain ⟨q, hq⟩ := hI.some
      have := hI.inQueue q hq
      simp at this
    | cons q rest =>
      simp only [mergeLoop, hd, Bool.false_eq_true, if_false]
      -- a head that is not MERGING (any more) is skipped
      have hskip : ¬ Live vm.brs q → I2 vm.brs rest := by
        intro hnl
        refine ⟨?_, hI.atMostOne, hI.some⟩
        intro x hx
        have := hI.inQueue x hx
        rcases List.mem_cons.1 this with h | h
        · subst h; exact absurd hx hnl
        · exact h
      cases q with
      | branch i =>
        cases hb : vm.brs[i]? with
        | none =>
          have hnl : ¬ Live vm.brs (.branch i) := by simp [Live, hb]
          simp only [mergeStep, hb, List.append_nil]
          exact ih vm rest ch hd (hskip hnl) (by simp at hf; omega)
        | some b =>
          cases b with
          | merging =>
            simp only [mergeStep, hb]
            cases ho : vm.orLevel with
            | false => simp; exact mergeLoop_of_done _ _ _ _ rfl
            | true =>
              simp only [Bool.not_true, Bool.false_eq_true, if_false]
              by_cases hp : (pick (QItem.branch i) (candidates 0 vm.brs) ch).1 == QItem.branch i
              · simp only [hp, if_true]; exact mergeLoop_of_done _ _ _ _ rfl
              · simp only [hp, Bool.false_eq_true, if_false, List.append_nil]
                have hne : (pick (QItem.branch i) (candidates 0 vm.brs) ch).1 ≠ QItem.branch i := by
                  intro h; rw [h] at hp; simp at hp
                have hpl : Live vm.brs (pick (QItem.branch i) (candidates 0 vm.brs) ch).1 := by
                  rcases pick_mem (QItem.branch i) (candidates 0 vm.brs) ch with h | h
                  · exact absurd h hne
                  · exact (mem_candidates_live _ _).1 h
                have hilt : i < vm.brs.length := by
                  rcases Nat.lt_or_ge i vm.brs.length with h | h
                  · exact h
                  · rw [List.getElem?_eq_none h] at hb; cases hb
                -- liveness in the new machine
                have hlive : ∀ x, x ≠ QItem.branch i → (Live (setBr vm.brs i Br.lost) x ↔ Live vm.brs x) := by
                  intro x hx
                  cases x with
                  | branch i' =>
                    have : i' ≠ i := fun h => hx (by rw [h])
                    simp [Live, setBr, List.getElem?_set, Ne.symm this]
                  | member i' j' =>
                    by_cases hii : i' = i
                    · subst hii
                      constructor
                      · rintro ⟨ms, need, a, h1, _⟩
                        simp [setBr, List.getElem?_set, hilt] at h1
                      · rintro ⟨ms, need, a, h1, _⟩
                        rw [hb] at h1; cases h1
                    · simp [Live, setBr, List.getElem?_set, Ne.symm hii]
                have hnot : ¬ Live (setBr vm.brs i Br.lost) (QItem.branch i) := by
                  simp [Live, setBr, List.getElem?_set, hilt]
                apply ih
                · exact hd
                · refine ⟨?_, ?_, ?_⟩
                  · intro x hx
                    by_cases hxq : x = QItem.branch i
                    · subst hxq; exact absurd hx hnot
                    · have := hI.inQueue x ((hlive x hxq).1 hx)
                      rcases List.mem_cons.1 this with h | h
                      · exact absurd h hxq
                      · exact h
                  · intro i' ms need h
                    by_cases hii : i' = i
                    · subst hii; simp [setBr, List.getElem?_set, hilt] at h
                    · apply hI.atMostOne i' ms need
                      simpa [setBr, List.getElem?_set, Ne.symm hii] using h
                  · exact ⟨_, (hlive _ hne).2 hpl⟩
                · have := totalMerging_set vm.brs i Br.merging Br.lost hb
                  simp only [brMerging, setBr] at this ⊢
                  simp at hf
                  omega
          | single a =>
            have hnl : ¬ Live vm.brs (.branch i) := by simp [Live, hb]
            simp only [mergeStep, hb, List.append_nil]
            exact ih vm rest ch hd (hskip hnl) (by simp at hf; omega)
          | multi ms need =>
            have hnl : ¬ Live vm.brs (.branch i) := by simp [Live, hb]
            simp only [mergeStep, hb, List.append_nil]
            exact ih vm rest ch hd (hskip hnl) (by simp at hf; omega)
          | lost =>
            have hnl : ¬ Live vm.brs (.branch i) := by simp [Live, hb]
            simp only [mergeStep, hb, List.append_nil]
            exact ih vm rest ch hd (hskip hnl) (by simp at hf; omega)
      | member i j =>
        by_cases hl : Live vm.brs (.member i j)
        · obtain ⟨ms, need, a, hb, hm⟩ := hl
          have h1 : nMerging ms ≤ 1 := hI.atMostOne i ms need hb
          have hpk : pick (QItem.member i j) (mergingMembers i ms) ch = (QItem.member i j, ch) :=
            pick_self _ _ _ (by rw [mergingMembers_length]; exact h1)
          have hpos : 1 ≤ nMerging ms := by
            rw [← mergingMembers_length i]
            exact List.length_pos_of_mem (nMerging_pos i hm)
          have hilt : i < vm.brs.length := by
            rcases Nat.lt_or_ge i vm.brs.length with h | h
            · exact h
            · rw [List.getElem?_eq_none h] at hb; cases hb
          simp only [mergeStep, hb, hm, hpk, beq_self_eq_true, if_true]
          cases ho : vm.orLevel with
          | false => simp; exact mergeLoop_of_done _ _ _ _ rfl
          | true =>
            simp only [if_true]
            have hlive : ∀ x, x ≠ QItem.branch i → (Live (setBr vm.brs i Br.merging) x → Live vm.brs x ∧ x ≠ QItem.member i j) := by
              intro x hx hlx
              cases x with
              | branch i' =>
                have : i' ≠ i := fun h => hx (by rw [h])
                refine ⟨?_, by intro h; cases h⟩
                simpa [Live, setBr, List.getElem?_set, Ne.symm this] using hlx
              | member i' j' =>
                by_cases hii : i' = i
                · subst hii
                  simp [Live, setBr, List.getElem?_set, hilt] at hlx
                · refine ⟨?_, by intro h; cases h; exact hii rfl⟩
                  simpa [Live, setBr, List.getElem?_set, Ne.symm hii] using hlx
            apply ih
            · exact hd
            · refine ⟨?_, ?_, ?_⟩
              · intro x hx
                by_cases hxq : x = QItem.branch i
                · subst hxq; simp
                · obtain ⟨h1', h2'⟩ := hlive x hxq hx
                  have := hI.inQueue x h1'
                  rcases List.mem_cons.1 this with h | h
                  · exact absurd h h2'
                  · exact List.mem_append_left _ h
              · intro i' ms' need' h
                by_cases hii : i' = i
                · subst hii; simp [setBr, List.getElem?_set, hilt] at h
                · apply hI.atMostOne i' ms' need'
                  simpa [setBr, List.getElem?_set, Ne.symm hii] using h
              · exact ⟨QItem.branch i, by simp [Live, setBr, List.getElem?_set, hilt]⟩
            · have := totalMerging_set vm.brs i (Br.multi ms need) Br.merging hb
              simp only [brMerging, setBr] at this ⊢
              simp at hf ⊢
              omega
        · -- not MERGING: skipped
          have hsame : mergeStep vm (QItem.member i j) ch = (vm, [], ch) := by
            simp only [mergeStep]
            cases hb : vm.brs[i]? with
            | none => rfl
            | some b =>
              cases b with
              | multi ms need =>
                simp only
                cases hm : ms[j]? with
                | none => rfl
                | some m =>
                  obtain ⟨a, l⟩ := m
                  cases l with
                  | merging => exact absurd ⟨ms, need, a, hb, hm⟩ hl
                  | atMatch => rfl
                  | atWait => rfl
                  | lost => rfl
              | single a => rfl
              | merging => rfl
              | lost => rfl
          simp only [hsame, List.append_nil]
          exact ih vm rest ch hd (hskip hl) (by simp at hf; omega)

/-! ### phase 1 on the branches -/

theorem p1Br_spec (e i : Nat) (b : Br) (hq : QBr b) :
    remBr (p1Br e i b).1 = stepBranch e (remBr b) ∧
    (p1Br e i b).2 = candBr i (p1Br e i b).1 ∧
    brMerging (p1Br e i b).1 ≤ 1 ∧
    (remBr (p1Br e i b).1 ≠ [] → QBr (p1Br e i b).1 ∧ (p1Br e i b).2 = []) ∧
    (remBr (p1Br e i b).1 = [] → (p1Br e i b).2 ≠ []) := by
  cases b with
  | single a =>
    by_cases hae : a = e
    · subst hae
      simp [p1Br, remBr, stepBranch, candBr, brMerging]
    · simp [p1Br, remBr, stepBranch, candBr, brMerging, hae, QBr]
  | multi ms need =>
    obtain ⟨hn, hqm, hne⟩ := hq
    obtain ⟨t1, t2, t3, t4⟩ := p1Members_spec e need i ms [] hqm (by intro m hm; simp at hm) (by simpa using hn)
    simp only [remMs_nil, List.nil_append] at t1
    refine ⟨by simpa [p1Br, remBr] using t1, by simp [p1Br, candBr], ?_, ?_, ?_⟩
    · simp only [p1Br, brMerging, nMerging]
      by_cases h : remMs (p1Members e need [] ms) = []
      · obtain ⟨j, a, _, h2⟩ := t4 h hne
        rw [mergingFrom_length 0 0 _ i 0, h2]; simp
      · rw [mergingFrom_free 0 _ 0 (t3 h)]; simp
    · intro h
      simp only [p1Br, remBr] at h ⊢
      refine ⟨⟨t2.symm, t3 h, h⟩, ?_⟩
      simp only [mergingMembers]
      exact mergingFrom_free i _ 0 (t3 h)
    · intro h
      simp only [p1Br, remBr] at h ⊢
      obtain ⟨j, a, _, h2⟩ := t4 h hne
      simp only [mergingMembers, h2]
      simp
  | merging => exact absurd hq (by simp [QBr])
  | lost => exact absurd hq (by simp [QBr])

theorem p1Brs_spec (e : Nat) : ∀ (brs : List Br) (k : Nat), (∀ b ∈ brs, QBr b) →
    (p1Brs e k brs).1.map remBr = (brs.map remBr).map (stepBranch e) ∧
    (p1Brs e k brs).2 = candidates k (p1Brs e k brs).1 ∧
    (p1Brs e k brs).1.length = brs.length ∧
    (∀ b ∈ (p1Brs e k brs).1, brMerging b ≤ 1) ∧
    (∀ b ∈ (p1Brs e k brs).1, remBr b ≠ [] → QBr b) ∧
    ((p1Brs e k brs).2 = [] ↔ ∀ b ∈ (p1Brs e k brs).1, remBr b ≠ []) := by
  intro brs
  induction brs with
  | nil => intro k _; simp [p1Brs, candidates]
  | cons b rest ih =>
    intro k hq
    obtain ⟨s1, s2, s3, s4, s5⟩ := p1Br_spec e k b (hq b (List.mem_cons_self))
    obtain ⟨r1, r2, r3, r4, r5, r6⟩ := ih (k + 1) (fun x hx => hq x (List.mem_cons_of_mem _ hx))
    refine ⟨?_, ?_, ?_, ?_, ?_, ?_⟩
    · simp only [p1Brs, List.map_cons, s1, r1]
    · simp only [p1Brs, candidates_cons, ← s2, ← r2]
    · simp only [p1Brs, List.length_cons, r3]
    · intro x hx
      simp only [p1Brs, List.mem_cons] at hx
      rcases hx with h | h
      · subst h; exact s3
      · exact r4 x h
    · intro x hx hne
      simp only [p1Brs, List.mem_cons] at hx
      rcases hx with h | h
      · subst h; exact (s4 hne).1
      · exact r5 x h hne
    · simp only [p1Brs, List.append_eq_nil_iff, List.mem_cons, forall_eq_or_imp]
      constructor
      · rintro ⟨h1, h2⟩
        refine ⟨?_, r6.1 h2⟩
        intro hnil; exact s5 hnil h1
      · rintro ⟨h1, h2⟩
        exact ⟨(s4 h1).2, r6.2 h2⟩

/-! ### one event, all events -/

/-- the head-level machine represents the clause machine -/
def Rel (vm : VM) (s : St) : Prop :=
  vm.done = s.done ∧ (vm.done = false → s.branches = vm.brs.map remBr ∧ ∀ b ∈ vm.brs, QBr b)

theorem any_isEmpty_iff (l : List (List Nat)) : l.any List.isEmpty = true ↔ ∃ c ∈ l, c = [] := by
  simp [List.any_eq_true, List.isEmpty_iff]

theorem stepEvent_spec (vm : VM) (s : St) (e : Nat) (ch : List Nat) (hR : Rel vm s) :
    (stepEvent vm e ch).2.1 = (step s e).2 ∧ Rel (stepEvent vm e ch).1 (step s e).1 := by
  obtain ⟨hd, hrest⟩ := hR
  cases hvd : vm.done with
  | true =>
    have hsd : s.done = true := by rw [← hd, hvd]
    simp only [stepEvent, hvd, step, hsd, if_true]
    exact ⟨trivial, ⟨by rw [hvd, hsd], by intro h; rw [hvd] at h; cases h⟩⟩
  | false =>
    have hsd : s.done = false := by rw [← hd, hvd]
    obtain ⟨hbr, hq⟩ := hrest hvd
    obtain ⟨r1, r2, r3, r4, r5, r6⟩ := p1Brs_spec e vm.brs 0 hq
    have hbs : s.branches.map (stepBranch e) = (p1Brs e 0 vm.brs).1.map remBr := by rw [hbr, r1]
    simp only [stepEvent, hvd, step, hsd, Bool.false_eq_true, if_false, hbs]
    by_cases hqe : (p1Brs e 0 vm.brs).2 = []
    · -- no clause completed
      have hall := r6.1 hqe
      have hany : ((p1Brs e 0 vm.brs).1.map remBr).any List.isEmpty = false := by
        rw [Bool.eq_false_iff]
        intro h
        obtain ⟨c, hc, hnil⟩ := (any_isEmpty_iff _).1 h
        obtain ⟨b, hb, rfl⟩ := List.mem_map.1 hc
        exact hall b hb hnil
      have hloop : ∀ f ch', mergeLoop (f + 1) { brs := (p1Brs e 0 vm.brs).1, orLevel := vm.orLevel, done := false } [] ch' =
          ({ brs := (p1Brs e 0 vm.brs).1, orLevel := vm.orLevel, done := false }, ch') := by intro f ch'; simp [mergeLoop]
      have hfuel : 2 * (p1Brs e 0 vm.brs).2.length + 2 * vm.brs.length + 2 = (2 * vm.brs.length + 1) + 1 := by
        rw [hqe]; simp
      rw [hany, hfuel, hqe, hloop]
      simp only [Bool.false_eq_true, if_false]
      refine ⟨trivial, rfl, ?_⟩
      intro _
      exact ⟨rfl, fun b hb => r5 b hb (hall b hb)⟩
    · -- some clause completed: whatever the tie-breaks, the root passes the group
      have hex : ∃ b ∈ (p1Brs e 0 vm.brs).1, remBr b = [] := by
        apply Classical.byContradiction
        intro hno
        apply hqe
        apply r6.2
        intro b hb hnil
        exact hno ⟨b, hb, hnil⟩
      have hany : ((p1Brs e 0 vm.brs).1.map remBr).any List.isEmpty = true := by
        obtain ⟨b, hb, hnil⟩ := hex
        exact (any_isEmpty_iff _).2 ⟨remBr b, List.mem_map.2 ⟨b, hb, rfl⟩, hnil⟩
      have hI : I2 (p1Brs e 0 vm.brs).1 (p1Brs e 0 vm.brs).2 := by
        refine ⟨?_, ?_, ?_⟩
        · intro q hq'; rw [r2]; exact (mem_candidates_live _ _).2 hq'
        · intro i ms need h
          have := r4 (Br.multi ms need) (List.mem_of_getElem? h)
          simpa [brMerging] using this
        · cases hc : (p1Brs e 0 vm.brs).2 with
          | nil => exact absurd hc hqe
          | cons q rest =>
            refine ⟨q, (mem_candidates_live _ _).1 ?_⟩
            rw [← r2, hc]; simp
      have htm := totalMerging_le _ r4
      have hdone := mergeLoop_done (2 * (p1Brs e 0 vm.brs).2.length + 2 * vm.brs.length + 2)
        { brs := (p1Brs e 0 vm.brs).1, orLevel := vm.orLevel, done := false } (p1Brs e 0 vm.brs).2 ch rfl hI (by simp only; omega)
      rw [hany]
      simp only [if_true]
      exact ⟨hdone, hdone, by intro h; rw [hdone] at h; cases h⟩

theorem runVM_eq : ∀ (es : List Nat) (vm : VM) (s : St) (ch : List Nat), Rel vm s →
    runVM vm es ch = run s es := by
  intro es
  induction es with
  | nil => intro vm s ch _; rfl
  | cons e es ih =>
    intro vm s ch hR
    obtain ⟨h1, h2⟩ := stepEvent_spec vm s e ch hR
    simp only [runVM, run, h1]
    rw [ih _ _ _ h2]

theorem remBr_initBr (c : List Nat) : remBr (initBr c) = c := by
  cases c with
  | nil => simp [initBr, remBr, remMs]
  | cons a t =>
    cases t with
    | nil => simp [initBr, remBr]
    | cons b t =>
      simp only [initBr, remBr, remMs]
      simp [List.filter_map, Function.comp_def]

theorem QBr_initBr (c : List Nat) (h : c ≠ []) : QBr (initBr c) := by
  cases c with
  | nil => exact absurd rfl h
  | cons a t =>
    cases t with
    | nil => simp [initBr, QBr]
    | cons b t =>
      have hr := remBr_initBr (a :: b :: t)
      simp only [initBr, remBr] at hr
      simp only [initBr, QBr]
      refine ⟨by simp, ?_, by rw [hr]; simp⟩
      intro m hm
      simp only [List.mem_map] at hm
      obtain ⟨x, _, rfl⟩ := hm
      exact Or.inl rfl

theorem Rel_init (d : Clauses) (h : ∀ c ∈ d, c ≠ []) : Rel (GroupVM.init d) (Dnf.init d) := by
  have hmap : ∀ d : Clauses, d = List.map (remBr ∘ initBr) d := by
    intro d
    induction d with
    | nil => rfl
    | cons c d ih =>
      simp only [List.map_cons, Function.comp_apply, remBr_initBr, List.cons.injEq, true_and]
      exact ih
  refine ⟨rfl, fun _ => ⟨?_, ?_⟩⟩
  · simp only [GroupVM.init, Dnf.init, List.map_map]
    exact hmap d
  · intro b hb
    simp only [GroupVM.init, List.mem_map] at hb
    obtain ⟨c, hc, rfl⟩ := hb
    exact QBr_initBr c (h c hc)

end NemoVerif.GroupVM
