/-
  C16 phase 4 — `pipeline_refines_interp`: the whole turn of the interpreter on the GENERATED llm_flows.co program, for rail
  lists of any length, every option value, passing and rejecting check rails, rewriting rails.
-/
import NemoVerif.Lemmas.RailsReject
namespace NemoVerif.RailsInterp
open NemoVerif.V1Interp
set_option linter.unusedSimpArgs false
set_option linter.unusedVariables false

/-! ### what a rails loop does, as a function of the rail list (the specification side) -/

/-- the rail calls of one category, each on the text as altered so far, up to and including the first rejecting check rail;
    the text that is passed on (`none` = blocked) -/
def loopSpec (cat : String) : Nat → List IRail → String → List Obs × Option String
  | _, [], t => ([], some t)
  | k, r :: rs, t =>
    match r.kind with
    | .check a => if a t then (Obs.railCall cat k r.name t :: (loopSpec cat (k + 1) rs t).1, (loopSpec cat (k + 1) rs t).2)
                  else ([Obs.railCall cat k r.name t], none)
    | .rewrite f => (Obs.railCall cat k r.name t :: (loopSpec cat (k + 1) rs (f t)).1, (loopSpec cat (k + 1) rs (f t)).2)

theorem stepVals_str (r : IRail) (t : String) (al : V) : ∃ t', (stepVals r (.str t) al).1 = .str t' := by
  unfold stepVals; cases r.kind <;> simp

/-- either all rails pass, or there is a first rejecting check rail after a passing prefix -/
theorem loopSpec_cases (cat : String) : ∀ (rs : List IRail) (k : Nat) (t : String) (al : V),
    (AllPassA rs (.str t) al ∧ ∃ t', (finalVals rs (.str t) al).1 = .str t' ∧ loopSpec cat k rs t = (railObs cat k rs (.str t) al, some t')) ∨
    (∃ pre r a rest t', rs = pre ++ r :: rest ∧ AllPassA pre (.str t) al ∧ r.kind = .check a ∧ (finalVals pre (.str t) al).1 = .str t' ∧
      a t' = false ∧ loopSpec cat k rs t = (railObs cat k pre (.str t) al ++ [Obs.railCall cat (k + pre.length) r.name t'], none))
  | [], k, t, al => Or.inl ⟨trivial, t, rfl, rfl⟩
  | r :: rs, k, t, al => by
    cases hk : r.kind with
    | check a =>
      by_cases ha : a t = true
      · have hsv : stepVals r (.str t) al = (.str t, .bool true) := by simp [stepVals, hk]
        rcases loopSpec_cases cat rs (k + 1) t (.bool true) with ⟨hp, t', hf, hl⟩ | ⟨pre, r', a', rest, t', hrs, hp, hk', hf, ha', hl⟩
        · left
          refine ⟨⟨by simp [passes, hk, strOf, ha], by rw [hsv]; exact hp⟩, t', by simp [finalVals, hsv, hf], ?_⟩
          simp [loopSpec, hk, ha, hl, railObs, hsv, strOf]
        · right
          refine ⟨r :: pre, r', a', rest, t', by simp [hrs], ⟨by simp [passes, hk, strOf, ha], by rw [hsv]; exact hp⟩, hk', by simp [finalVals, hsv, hf], ha', ?_⟩
          simp [loopSpec, hk, ha, hl, railObs, hsv, strOf]
          omega
      · right
        refine ⟨[], r, a, rs, t, rfl, trivial, hk, rfl, by simpa using ha, ?_⟩
        simp [loopSpec, hk, ha, railObs]
    | rewrite f =>
      have hsv : stepVals r (.str t) al = (.str (f t), al) := by simp [stepVals, hk, strOf]
      rcases loopSpec_cases cat rs (k + 1) (f t) al with ⟨hp, t', hf, hl⟩ | ⟨pre, r', a', rest, t', hrs, hp, hk', hf, ha', hl⟩
      · left
        refine ⟨⟨by simp [passes, hk], by rw [hsv]; exact hp⟩, t', by simp [finalVals, hsv, hf], ?_⟩
        simp [loopSpec, hk, hl, railObs, hsv, strOf]
      · right
        refine ⟨r :: pre, r', a', rest, t', by simp [hrs], ⟨by simp [passes, hk], by rw [hsv]; exact hp⟩, hk', by simp [finalVals, hsv, hf], ha', ?_⟩
        simp [loopSpec, hk, hl, railObs, hsv, strOf]
        omega


/-! ### the two phases, for any rail list -/

theorem input_phase_pass (s : Setup) (hwf : s.WF) (u0 u1 : Nat) (h01 : u0 < u1) (σ u : Ctx) (c : Nat) (user : String) (al : V)
    (hne : s.input ≠ []) (hu : u.isEmpty = false) (h1c : u1 < c)
    (hF : Facts (σ.update u) 0 (s.input.map (·.name)) (.str user) al)
    (obs : List Obs) (t : String) (hl : loopSpec "input" 0 s.input user = (obs, some t)) :
    ∃ σ' c', RunsTo s (base ++ s.rails) (headState σ u c u0 u1) obs (exitState σ' c' u0 u1) ∧
      σ'.get "user_message" = .str t ∧ Keep K10 (σ.update u) σ' ∧ u1 < c' := by
  rcases loopSpec_cases "input" s.input 0 user al with ⟨hp, t', hf, hl'⟩ | ⟨pre, r, a, rest, t', hrs, hp, hk, hf, ha, hl'⟩
  · rw [hl] at hl'
    obtain ⟨rfl, ht⟩ := Prod.mk.inj hl'
    obtain ⟨σ', c', R, hF', hK, hc'⟩ := input_loop_runs s hwf u0 u1 h01 σ u c (.str user) al hne hp hu h1c hF
    refine ⟨σ', c', R, ?_, hK, hc'⟩
    rw [hF'.2.2.1, hf]; simp at ht; rw [ht]
  · rw [hl] at hl'; simp at hl'

theorem input_phase_reject (s : Setup) (hwf : s.WF) (u0 u1 : Nat) (h01 : u0 < u1) (σ u : Ctx) (c : Nat) (user : String) (al : V)
    (hu : u.isEmpty = false) (h1c : u1 < c)
    (hF : Facts (σ.update u) 0 (s.input.map (·.name)) (.str user) al) (hret : (σ.update u).get "config.rails.retrieval.flows" = .strs [])
    (obs : List Obs) (hl : loopSpec "input" 0 s.input user = (obs, none)) :
    Runs s (base ++ s.rails) (headState σ u c u0 u1) (obs ++ [Obs.utter s.refusal]) := by
  rcases loopSpec_cases "input" s.input 0 user al with ⟨hp, t', hf, hl'⟩ | ⟨pre, r, a, rest, t', hrs, hp, hk, hf, ha, hl'⟩
  · rw [hl] at hl'; simp at hl'
  · rw [hl] at hl'
    obtain ⟨rfl, _⟩ := Prod.mk.inj hl'
    obtain ⟨σ1, u1', c1, hu1, hc1, R1, hF1, hK1⟩ := input_prefix_runs s hwf u0 u1 h01 pre 0 σ u c (.str user) al r rest (by simpa using hrs) hp hu h1c hF
    have hkr : s.input[0 + pre.length]? = some r := by rw [hrs]; simp
    have hok := hwf.railOK_in r (List.mem_of_getElem? hkr)
    have hnm : (s.input.map (·.name))[0 + pre.length]? = some r.name := by rw [List.getElem?_map, hkr]; rfl
    -- round A of the rejecting rail's iteration
    have eA := roundA_events s σ1 u1' c1 u0 u1 hu1
    have rA := roundA_replay s.rails s.rails_sub σ1 u1' c1 u0 u1 h01 hc1 _ (0 + pre.length) _ _ r ((σ1.update u1').get "triggered_input_rail") hF1 hnm hok
    have RA := RunsTo.one (s := s) (cfgs := base ++ s.rails) _ _ _ _ eA
      (decisions_ne_of_act _ _ _ _ _ _ rfl rfl (by simp [createStartRail])) (noHide_of_B _ rfl) (by simp [isStop]) (by simp) rA
    have hF2 := (hF1.withActFin "create_event" true).withMarker "StartInputRail" ((σ1.update u1').get "triggered_input_rail") (by decide) (by decide)
    have hK2 : Keep K10 (σ.update u) (((σ1.update u1').withEvent (.actionFinished "create_event" true)).withEvent
        (.other "StartInputRail" [("flow_id", (σ1.update u1').get "triggered_input_rail")])) :=
      (hK1.withEvent _ (by keys_tac)).withEvent _ (by keys_tac)
    have RR := reject_runs s hwf _ c1 u0 u1 h01 hc1 (0 + pre.length) r a hkr hk _ (by rw [hf]; exact ha) hF2.2.2.1 (0 + pre.length) hF2.1
      ((hK2 _ (by simp [K10, K8])).trans hret)
    have := (R1.trans RA).then RR
    rw [hf] at this
    simpa [strOf] using this


theorem output_phase_pass (s : Setup) (hwf : s.WF) (u0 u1 : Nat) (h01 : u0 < u1) (σ u : Ctx) (c : Nat) (user : String) (al : V)
    (hne : s.output ≠ []) (hu : u.isEmpty = false) (h1c : u1 < c)
    (hF : FactsO (σ.update u) 0 (s.output.map (·.name)) (.str user) al)
    (obs : List Obs) (t : String) (hl : loopSpec "output" 0 s.output user = (obs, some t)) :
    ∃ σ' c', RunsTo s (base ++ s.rails) (headStateO σ u c u0 u1) obs (exitStateO σ' c' u0 u1) ∧
      σ'.get "bot_message" = .str t ∧ Keep K8 (σ.update u) σ' ∧ u1 < c' := by
  rcases loopSpec_cases "output" s.output 0 user al with ⟨hp, t', hf, hl'⟩ | ⟨pre, r, a, rest, t', hrs, hp, hk, hf, ha, hl'⟩
  · rw [hl] at hl'
    obtain ⟨rfl, ht⟩ := Prod.mk.inj hl'
    obtain ⟨σ', c', R, hF', hK, hc'⟩ := output_loop_runs s hwf u0 u1 h01 σ u c (.str user) al hne hp hu h1c hF
    refine ⟨σ', c', R, ?_, hK, hc'⟩
    rw [hF'.2.2.1, hf]; simp at ht; rw [ht]
  · rw [hl] at hl'; simp at hl'

theorem output_phase_reject (s : Setup) (hwf : s.WF) (u0 u1 : Nat) (h01 : u0 < u1) (σ u : Ctx) (c : Nat) (user : String) (al : V)
    (hu : u.isEmpty = false) (h1c : u1 < c)
    (hF : FactsO (σ.update u) 0 (s.output.map (·.name)) (.str user) al) (hret : (σ.update u).get "config.rails.retrieval.flows" = .strs [])
    (obs : List Obs) (hl : loopSpec "output" 0 s.output user = (obs, none)) :
    Runs s (base ++ s.rails) (headStateO σ u c u0 u1) (obs ++ [Obs.utter s.refusal]) := by
  rcases loopSpec_cases "output" s.output 0 user al with ⟨hp, t', hf, hl'⟩ | ⟨pre, r, a, rest, t', hrs, hp, hk, hf, ha, hl'⟩
  · rw [hl] at hl'; simp at hl'
  · rw [hl] at hl'
    obtain ⟨rfl, _⟩ := Prod.mk.inj hl'
    obtain ⟨σ1, u1', c1, hu1, hc1, R1, hF1, hK1⟩ := output_prefix_runs s hwf u0 u1 h01 pre 0 σ u c (.str user) al r rest (by simpa using hrs) hp hu h1c hF
    have hkr : s.output[0 + pre.length]? = some r := by rw [hrs]; simp
    have hok := hwf.railOK_out r (List.mem_of_getElem? hkr)
    have hnm : (s.output.map (·.name))[0 + pre.length]? = some r.name := by rw [List.getElem?_map, hkr]; rfl
    -- round A of the rejecting rail's iteration
    have eA := roundAO_events s σ1 u1' c1 u0 u1 hu1
    have rA := roundAO_replay s.rails s.rails_sub σ1 u1' c1 u0 u1 h01 hc1 _ (0 + pre.length) _ _ r ((σ1.update u1').get "triggered_output_rail") hF1 hnm hok
    have RA := RunsTo.one (s := s) (cfgs := base ++ s.rails) _ _ _ _ eA
      (decisions_ne_of_act _ _ _ _ _ _ rfl rfl (by simp [createStartOutRail])) (noHide_of_B _ rfl) (by simp [isStop]) (by simp) rA
    have hF2 := (hF1.withActFin "create_event" true).withMarker "StartOutputRail" ((σ1.update u1').get "triggered_output_rail") (by decide) (by decide)
    have hK2 : Keep K8 (σ.update u) (((σ1.update u1').withEvent (.actionFinished "create_event" true)).withEvent
        (.other "StartOutputRail" [("flow_id", (σ1.update u1').get "triggered_output_rail")])) :=
      (hK1.withEvent _ (by keys_tac8)).withEvent _ (by keys_tac8)
    have RR := rejectO_runs s hwf _ c1 u0 u1 h01 hc1 (0 + pre.length) r a hkr hk _ (by rw [hf]; exact ha) hF2.2.2.1 (0 + pre.length) hF2.1
      ((hK2 _ (by simp [K8, K8])).trans hret)
    have := (R1.trans RA).then RR
    rw [hf] at this
    simpa [strOf] using this



/-! ### what the guards read -/

abbrev OptsT := Option (Bool × Bool × Bool × Bool)

def optV (o : OptsT) (f : Bool × Bool × Bool × Bool → Bool) : V := match o with | none => .none | some q => .bool (f q)

structure OptCtx (s : Setup) (o : OptsT) (σ : Ctx) : Prop where
  inF : σ.get "config.rails.input.flows" = .strs (s.input.map (·.name))
  outF : σ.get "config.rails.output.flows" = .strs (s.output.map (·.name))
  retF : σ.get "config.rails.retrieval.flows" = .strs []
  go : σ.get "generation_options" = optV o (fun _ => true)
  gi : σ.get "generation_options.rails.input" = optV o (·.1)
  gd : σ.get "generation_options.rails.dialog" = optV o (·.2.1)
  gout : σ.get "generation_options.rails.output" = optV o (·.2.2.2)

theorem OptCtx.keep {s : Setup} {o : OptsT} {σ σ' : Ctx} (h : OptCtx s o σ) (hk : Keep K8 σ σ') : OptCtx s o σ' :=
  ⟨(hk _ (by simp [K8])).trans h.inF, (hk _ (by simp [K8])).trans h.outF, (hk _ (by simp [K8])).trans h.retF, (hk _ (by simp [K8])).trans h.go,
   (hk _ (by simp [K8])).trans h.gi, (hk _ (by simp [K8])).trans h.gd, (hk _ (by simp [K8])).trans h.gout⟩

theorem Keep.to8 {σ σ' : Ctx} (h : Keep K10 σ σ') : Keep K8 σ σ' := fun k hk => h k (by simp [K10]; exact Or.inl hk)
theorem Keep.kuTo10 {σ σ' : Ctx} (h : Keep KU σ σ') : Keep K10 σ σ' := fun k hk => h k (List.mem_cons_of_mem _ hk)
theorem Keep.kbTo8 {σ σ' : Ctx} (h : Keep KB σ σ') : Keep K8 σ σ' := fun k hk => h k (List.mem_cons_of_mem _ hk)

def selI (o : OptsT) : Bool := match o with | none => true | some q => q.1
def selD (o : OptsT) : Bool := match o with | none => true | some q => q.2.1
def selO (o : OptsT) : Bool := match o with | none => true | some q => q.2.2.2

theorem guard_in {s : Setup} {o : OptsT} {σ : Ctx} (h : OptCtx s o σ) :
    ((σ.get "config.rails.input.flows").truthy && ((σ.get "generation_options" == V.none) || (σ.get "generation_options.rails.input").truthy))
      = (!s.input.isEmpty && selI o) := by
  rw [h.inF, h.go, h.gi]
  rcases o with _ | ⟨i, d, r, ou⟩ <;> simp [optV, V.truthy, selI] <;> rfl

theorem guard_out {s : Setup} {o : OptsT} {σ : Ctx} (h : OptCtx s o σ) :
    ((σ.get "config.rails.output.flows").truthy && ((σ.get "generation_options" == V.none) || (σ.get "generation_options.rails.output").truthy))
      = (!s.output.isEmpty && selO o) := by
  rw [h.outF, h.go, h.gout]
  rcases o with _ | ⟨i, d, r, ou⟩ <;> simp [optV, V.truthy, selO] <;> rfl

theorem guard_dlg {s : Setup} {o : OptsT} {σ : Ctx} (h : OptCtx s o σ) :
    dlgBranch (σ.get "generation_options").truthy ((σ.get "generation_options.rails.dialog").pyEq (.bool false))
      ((σ.get "generation_options.rails.output").pyEq (.bool false))
    = (if !selD o then (if !selO o then .echo else .botMsg) else .dialog) := by
  rw [h.go, h.gd, h.gout]
  rcases o with _ | ⟨i, d, r, ou⟩
  · rfl
  · cases d <;> cases ou <;> rfl


/-- what `process bot message` does with the bot message `bm` -/
def pbmSpec (s : Setup) (o : OptsT) (bm : String) : List Obs :=
  if !s.output.isEmpty && selO o then
    (loopSpec "output" 0 s.output bm).1 ++ [Obs.utter (match (loopSpec "output" 0 s.output bm).2 with | some t => t | none => s.refusal)]
  else [Obs.utter bm]

theorem names_cons {l : List IRail} (h : l.isEmpty = false) : ∃ n0 ns, l.map (·.name) = n0 :: ns := by
  cases l with
  | nil => simp at h
  | cons x xs => exact ⟨x.name, xs.map (·.name), rfl⟩

/-- **`process bot message`, whole**: from its start on `BotMessage(text=bm)` (flag `$skip_output_rails` unset) to the end of the turn -/
theorem pbm_runs (s : Setup) (hwf : s.WF) (o : OptsT) (σ : Ctx) (u0 c : Nat) (h0c : u0 < c) (bm : String) (hO : OptCtx s o σ) :
    Runs s (base ++ s.rails) (pbmState (σ.set "bot_message" (.str bm)) u0 (!s.output.isEmpty && selO o) [("bot_message", .str bm)] c) (pbmSpec s o bm) := by
  have hO' : OptCtx s o (σ.set "bot_message" (.str bm)) := hO.keep ((Keep.refl K8 σ).setNot _ _ (by decide))
  cases hrun : (!s.output.isEmpty && selO o)
  · -- no output rails: utter at once
    have := R_final s (σ.set "bot_message" (.str bm)) [("bot_message", .str bm)] u0 c
    have hb : (roundCtx (oneFlow (σ.set "bot_message" (.str bm)) "process bot message" u0 12 createSubaBot 1000000 [("bot_message", .str bm)] c)).get "bot_message" = .str bm := by
      simp only [roundCtx, oneFlow, List.isEmpty_cons, Bool.false_eq_true, if_false, Ctx.update, List.foldl]
      ctx_norm
    rw [hb] at this
    simpa [pbmSpec, hrun, pbmState, strOf] using this
  · have hne : s.output.isEmpty = false := by
      cases h : s.output.isEmpty <;> simp [h] at hrun ⊢
    obtain ⟨n0, ns, hnames⟩ := names_cons hne
    let st := oneFlow (σ.set "bot_message" (.str bm)) "process bot message" u0 7 createStartOutRails 1000000 [("bot_message", .str bm)] c
    obtain ⟨σ1, u1, hu1, R1, hF1, hK1⟩ := R_startOutRails s (σ.set "bot_message" (.str bm)) [("bot_message", .str bm)] u0 c h0c n0 ns (.str bm)
      ((σ.set "bot_message" (.str bm)).get "allowed") (by rw [hO'.outF, hnames])
      (by intro k hk kv hkv; simp only [List.mem_singleton] at hkv; subst hkv; intro e; simp only at e; subst e; revert hk; decide)
      (by simp only [roundCtx, oneFlow, List.isEmpty_cons, Bool.false_eq_true, if_false, Ctx.update, List.foldl]; ctx_norm) rfl
    have hO1 : OptCtx s o (σ1.update u1) := hO'.keep hK1
    rw [← hnames] at hF1
    cases hl : loopSpec "output" 0 s.output bm with
    | mk obs res =>
      cases res with
      | some t =>
        obtain ⟨σ2, c2, R2, hbm2, hK2, _⟩ := output_phase_pass s hwf u0 c (by omega) σ1 u1 (c + 1) bm _ (by intro e; rw [e] at hne; simp at hne) hu1 (by omega) hF1 obs t hl
        obtain ⟨σ3, R3, hK3⟩ := R_exitO s σ2 c2 u0 c
        have R4 := R_final s σ3 [] u0 c2
        have hb : (roundCtx (oneFlow σ3 "process bot message" u0 12 createSubaBot 1000000 [] c2)).get "bot_message" = .str t := by
          simp only [roundCtx, oneFlow, List.isEmpty_nil, if_true]
          rw [hK3 _ (List.mem_cons_self ..)]; exact hbm2
        rw [hb] at R4
        have := ((R1.trans R2).trans R3).then R4
        simpa [pbmSpec, hrun, pbmState, hl, strOf] using this
      | none =>
        have R2 := output_phase_reject s hwf u0 c (by omega) σ1 u1 (c + 1) bm _ hu1 (by omega) hF1 hO1.retF obs hl
        have := R1.then R2
        simpa [pbmSpec, hrun, pbmState, hl] using this



def botV (bot : Option String) : V := match bot with | some b => .str b | none => .none

/-- what follows the input phase, with the (possibly altered) user text `um` -/
def afterSpec (s : Setup) (o : OptsT) (um : String) (bot : Option String) : List Obs :=
  if !selD o then (if !selO o then [Obs.utter um] else pbmSpec s o (bot.getD "")) else Obs.llmCall :: pbmSpec s o s.llmText

/-- the documented usage: with dialog rails off and output rails on, a bot message is supplied -/
def BotOK (o : OptsT) (bot : Option String) : Prop := selD o = false → selO o = true → bot.isSome = true

/-- **from `create event UserMessage` to the end of the turn** -/
theorem after_input_runs (s : Setup) (hwf : s.WF) (o : OptsT) (bot : Option String) (hb : BotOK o bot) (σ u : Ctx) (u0 c : Nat) (h0c : u0 < c)
    (hu : ∀ k ∈ K10, ∀ kv ∈ u, kv.1 ≠ k) (hO : OptCtx s o σ) (hbot : σ.get "bot_message" = botV bot) (hsk : σ.get "skip_output_rails" = .none)
    (t : String) (hum : (roundCtx (oneFlow σ "process user input" u0 9 createUserMessage 10000 u c)).get "user_message" = .str t) :
    Runs s (base ++ s.rails) (oneFlow σ "process user input" u0 9 createUserMessage 10000 u c) (afterSpec s o t bot) := by
  obtain ⟨σ1, R1, hK1, hum1⟩ := R_um s σ u u0 c _ _ _ hu rfl rfl rfl
  rw [guard_dlg hO] at R1
  rw [hum] at hum1
  have hO1 : OptCtx s o σ1 := hO.keep hK1.to8
  have hsk1 : (σ1.get "skip_output_rails").truthy = false := by rw [hK1 _ (by simp [K10])]; rw [hsk]; rfl
  have hbot1 : σ1.get "bot_message" = botV bot := (hK1 _ (by simp [K10])).trans hbot
  cases hd : selD o
  · cases ho : selO o
    · -- echo
      have R2 := R_echo s σ1 c
      rw [hum1] at R2
      simp only [hd, ho, Bool.not_false, if_true] at R1
      have := R1.then R2
      simpa [afterSpec, hd, ho, strOf] using this
    · -- the supplied bot message
      obtain ⟨b, rfl⟩ : ∃ b, bot = some b := Option.isSome_iff_exists.mp (hb hd ho)
      obtain ⟨σ2, R2, hK2⟩ := R_botmsg s σ1 c _ _ _ hsk1 rfl rfl rfl
      rw [guard_out hO1, hbot1] at R2
      have R3 := pbm_runs s hwf o σ2 (c + 1) (c + 2) (by omega) b (hO1.keep hK2)
      simp only [hd, ho, Bool.not_false, Bool.not_true, if_true, if_false, Bool.false_eq_true] at R1
      have := (R1.trans R2).then R3
      simpa [afterSpec, hd, ho, botV] using this
  · obtain ⟨σ2, R2, hK2⟩ := R_gui s σ1 c _ _ _ hsk1 rfl rfl rfl
    rw [guard_out hO1] at R2
    have R3 := pbm_runs s hwf o σ2 (c + 2) (c + 3) (by omega) s.llmText (hO1.keep hK2)
    simp only [hd, Bool.not_true, if_false, Bool.false_eq_true] at R1
    have := (R1.trans R2).then R3
    simpa [afterSpec, hd] using this



/-- **the whole turn, specification side**: input rails (if configured and selected) on the user text, then — unless one
    rejects — the dialog branch and `process bot message` -/
def specTrace (s : Setup) (o : OptsT) (user : String) (bot : Option String) : List Obs :=
  if !s.input.isEmpty && selI o then
    (loopSpec "input" 0 s.input user).1 ++
      (match (loopSpec "input" 0 s.input user).2 with | some um => afterSpec s o um bot | none => [Obs.utter s.refusal])
  else afterSpec s o user bot

/-- the context after the option / bot-message context updates of `generate_async` -/
theorem init_ctx (s : Setup) (cfgs : Cfgs) (o : OptsT) (bot : Option String) :
    ∃ σ0, (∀ rest, replay true cfgs (optionsEvent o ++ (match bot with | some b => [.contextUpdate [("bot_message", .str b)]] | none => []) ++ rest) { ctx := s.config }
        = replay true cfgs rest { ctx := σ0, flows := [], next := none, upd := [], ctr := 0 }) ∧
      OptCtx s o σ0 ∧ σ0.get "bot_message" = botV bot ∧ σ0.get "skip_output_rails" = .none := by
  rcases o with _ | ⟨i, d, r, ou⟩ <;> rcases bot with _ | b
  · exact ⟨s.config, fun rest => rfl, ⟨rfl, rfl, rfl, rfl, rfl, rfl, rfl⟩, rfl, rfl⟩
  · refine ⟨s.config.update [("bot_message", .str b)], fun rest => rfl, ?_, ?_, ?_⟩
    · refine ⟨?_, ?_, ?_, ?_, ?_, ?_, ?_⟩ <;> simp only [Ctx.update, List.foldl] <;> ctx_norm <;> rfl
    · simp only [Ctx.update, List.foldl]; ctx_norm; rfl
    · simp only [Ctx.update, List.foldl]; ctx_norm; rfl
  · refine ⟨s.config.update [("generation_options", .bool true), ("generation_options.rails.input", .bool i),
      ("generation_options.rails.dialog", .bool d), ("generation_options.rails.retrieval", .bool r),
      ("generation_options.rails.output", .bool ou)], fun rest => rfl, ?_, ?_, ?_⟩
    · refine ⟨?_, ?_, ?_, ?_, ?_, ?_, ?_⟩ <;> simp only [Ctx.update, List.foldl] <;> ctx_norm <;> rfl
    · simp only [Ctx.update, List.foldl]; ctx_norm; rfl
    · simp only [Ctx.update, List.foldl]; ctx_norm; rfl
  · refine ⟨(s.config.update [("generation_options", .bool true), ("generation_options.rails.input", .bool i),
      ("generation_options.rails.dialog", .bool d), ("generation_options.rails.retrieval", .bool r),
      ("generation_options.rails.output", .bool ou)]).update [("bot_message", .str b)], fun rest => rfl, ?_, ?_, ?_⟩
    · refine ⟨?_, ?_, ?_, ?_, ?_, ?_, ?_⟩ <;> simp only [Ctx.update, List.foldl] <;> ctx_norm <;> rfl
    · simp only [Ctx.update, List.foldl]; ctx_norm; rfl
    · simp only [Ctx.update, List.foldl]; ctx_norm; rfl


theorem noUser_K10 (v : V) : ∀ k ∈ K10, ∀ kv ∈ [("user_message", v)], kv.1 ≠ k := by
  intro k hk kv hkv
  simp only [List.mem_singleton] at hkv
  subst hkv
  intro e; simp only at e; subst e
  revert hk; decide

/-- **the whole turn at the level of the state-based driver**: after the history `generate_async` hands over, the loop of
    `generate_events` around the interpreter on the generated program executes exactly `specTrace` and stops -/
theorem turn_runs (s : Setup) (hwf : s.WF) (o : OptsT) (user : String) (bot : Option String) (hb : BotOK o bot) :
    ∃ st, replay true (base ++ s.rails) (initialHistory o user bot) { ctx := s.config } = .ok st ∧
      Runs s (base ++ s.rails) st (specTrace s o user bot) := by
  obtain ⟨σ0, hrep, hO0, hbot0, hsk0⟩ := init_ctx s (base ++ s.rails) o bot
  let ev : Event := .other "UtteranceUserActionFinished" [("final_transcript", .str user)]
  let σE := (σ0.withEvent ev).set "user_message" (.str user)
  have hKE : Keep K10 σ0 σE := ((Keep.refl K10 σ0).withEvent _ (by keys_tac)).setNot _ _ (by decide)
  have hOE : OptCtx s o σE := hO0.keep hKE.to8
  have hbotE : σE.get "bot_message" = botV bot := (hKE _ (by simp [K10])).trans hbot0
  have hskE : σE.get "skip_output_rails" = .none := (hKE _ (by simp [K10])).trans hsk0
  have hTE := T_entry s.rails s.rails_sub σ0 [] 0 none user _ _ _ rfl rfl rfl
  rw [guard_in hO0] at hTE
  refine ⟨_, (hrep _).trans (replay_cons_ok _ _ [] _ _ hTE (by simp)), ?_⟩
  show Runs s (base ++ s.rails) { ctx := σE, flows := [{ uid := 0, flowId := "process user input", head := if (!s.input.isEmpty && selI o) = true then 4 else 9 }], next := some { elem := if (!s.input.isEmpty && selI o) = true then createStartRails else createUserMessage, uid := 0, prio := 10000 }, upd := [("user_message", V.str user)], ctr := 0 + 1 } _
  cases hrun : (!s.input.isEmpty && selI o)
  · -- input rails not run
    have := after_input_runs s hwf o bot hb σE [("user_message", .str user)] 0 1 (by omega) (noUser_K10 _) hOE hbotE hskE user (by
      simp only [roundCtx, oneFlow, List.isEmpty_cons, Bool.false_eq_true, if_false, Ctx.update, List.foldl]; ctx_norm)
    simpa [specTrace, hrun, oneFlow] using this
  · have hne : s.input.isEmpty = false := by
      cases h : s.input.isEmpty <;> simp [h] at hrun ⊢
    obtain ⟨n0, ns, hnames⟩ := names_cons hne
    obtain ⟨σ1, u1, hu1, R1, hF1, hK1⟩ := R_startRails s σE [("user_message", .str user)] 0 1 (by omega) n0 ns (.str user) (σE.get "allowed")
      (by rw [hOE.inF, hnames])
      (by intro k hk kv hkv; simp only [List.mem_singleton] at hkv; subst hkv; intro e; simp only at e; subst e; revert hk; decide)
      (by simp only [roundCtx, oneFlow, List.isEmpty_cons, Bool.false_eq_true, if_false, Ctx.update, List.foldl]; ctx_norm) rfl
    rw [← hnames] at hF1
    have hO1 : OptCtx s o (σ1.update u1) := hOE.keep hK1.to8
    cases hl : loopSpec "input" 0 s.input user with
    | mk obs res =>
      cases res with
      | some t =>
        obtain ⟨σ2, c2, R2, hum2, hK2, hc2⟩ := input_phase_pass s hwf 0 1 (by omega) σ1 u1 2 user _ (by intro e; rw [e] at hne; simp at hne) hu1 (by omega) hF1 obs t hl
        obtain ⟨σ3, R3, hK3⟩ := R_exit s σ2 c2 0 1
        have hK13 : Keep K10 σE σ3 := (hK1.trans hK2).trans hK3.kuTo10
        have R4 := after_input_runs s hwf o bot hb σ3 [] 0 c2 (by omega) (by intro k _ kv hkv; cases hkv) (hOE.keep hK13.to8)
          ((hK13 _ (by simp [K10])).trans hbotE) ((hK13 _ (by simp [K10])).trans hskE) t (by
            simp only [roundCtx, oneFlow, List.isEmpty_nil, if_true]
            rw [hK3 _ (List.mem_cons_self ..)]; exact hum2)
        have := ((R1.trans R2).trans R3).then R4
        simpa [specTrace, hrun, hl, oneFlow] using this
      | none =>
        have R2 := input_phase_reject s hwf 0 1 (by omega) σ1 u1 2 user _ hu1 (by omega) hF1 hO1.retF obs hl
        have := R1.then R2
        simpa [specTrace, hrun, hl, oneFlow] using this



/-! ### the specification side is `PipelineOpts.turn` -/

open PipelineOpts in
theorem runRails_spec (c : OptGuard.Cat) : ∀ (rs : List IRail) (k : Nat) (t : String),
    (runRails c k (rs.map toRail) t).1.filterMap obsOfStep = (loopSpec (catName c) k rs t).1 ∧
    (match (loopSpec (catName c) k rs t).2 with
     | some t' => (runRails c k (rs.map toRail) t).2.2 = .passed t'
     | none => ∃ n, (runRails c k (rs.map toRail) t).2.2 = .blocked n)
  | [], k, t => ⟨rfl, rfl⟩
  | r :: rs, k, t => by
    obtain ⟨ih1, ih2⟩ := runRails_spec c rs (k + 1) t
    cases hk : r.kind with
    | check a =>
      by_cases ha : a t = true
      · simp only [List.map, runRails, toRail, hk, ha, if_true, loopSpec]
        exact ⟨by simp [List.filterMap, obsOfStep, ih1], ih2⟩
      · have ha' : a t = false := by simpa using ha
        simp only [List.map, runRails, toRail, hk, ha', loopSpec]
        exact ⟨by simp [List.filterMap, obsOfStep], ⟨_, rfl⟩⟩
    | rewrite f =>
      obtain ⟨jh1, jh2⟩ := runRails_spec c rs (k + 1) (f t)
      simp only [List.map, runRails, toRail, hk, loopSpec]
      exact ⟨by simp [List.filterMap, obsOfStep, jh1], jh2⟩


theorem sel_map (o : OptsT) : PipelineOpts.sel (o.map mkOpts) .input = selI o ∧ PipelineOpts.sel (o.map mkOpts) .dialog = selD o ∧
    PipelineOpts.sel (o.map mkOpts) .output = selO o := by
  rcases o with _ | ⟨i, d, r, ou⟩ <;> exact ⟨rfl, rfl, rfl⟩

open PipelineOpts in
theorem pbm_spec (s : Setup) (o : OptsT) (bm : String) :
    (processBotMessageR (toCfg s) (o.map mkOpts) false bm).trace.filterMap obsOfStep = pbmSpec s o bm := by
  obtain ⟨_, _, hso⟩ := sel_map o
  have hf : (toCfg s).hasFlows .output = !s.output.isEmpty := by simp [Cfg.hasFlows, toCfg]
  have hr : (toCfg s).hasFlows .retrieval = false := by simp [Cfg.hasFlows, toCfg]
  unfold processBotMessageR pbmSpec
  simp only [Bool.false_eq_true, if_false, hf, hso]
  cases hrun : (!s.output.isEmpty && selO o)
  · simp [obsOfStep]
  · simp only [if_true, outputPhaseR]
    obtain ⟨h1, h2⟩ := runRails_spec .output s.output 0 bm
    have hcfg : (toCfg s).output = s.output.map toRail := rfl
    rw [hcfg]
    cases hl : (loopSpec "output" 0 s.output bm).2 with
    | some t =>
      have h2' : (runRails .output 0 (s.output.map toRail) bm).2.2 = .passed t := by
        have := h2; simp only [catName, hl] at this; exact this
      rcases hrr : runRails .output 0 (s.output.map toRail) bm with ⟨tr, lg, oc⟩
      rw [hrr] at h1 h2'
      simp only at h2'; subst h2'
      simp only [catName] at h1
      simp [List.filterMap_append, h1, obsOfStep]
    | none =>
      have h2' : ∃ n, (runRails .output 0 (s.output.map toRail) bm).2.2 = .blocked n := by
        have := h2; simp only [catName, hl] at this; exact this
      obtain ⟨n, hn⟩ := h2'
      rcases hrr : runRails .output 0 (s.output.map toRail) bm with ⟨tr, lg, oc⟩
      rw [hrr] at h1 hn
      simp only at hn; subst hn
      simp only [catName] at h1
      have he : (toCfg s).exceptions = false := rfl
      have hrf : (toCfg s).refusal = s.refusal := rfl
      simp [Out.prepend, blockedTailR, he, botIntentSegR, retrievalPartR, hr, List.filterMap_append, h1, obsOfStep, hrf]


open PipelineOpts in
theorem after_spec (s : Setup) (o : OptsT) (um : String) (bot : Option String) (hb : BotOK o bot) :
    (afterInputR (toCfg s) (o.map mkOpts) um bot (.general s.llmText)).trace.filterMap obsOfStep = afterSpec s o um bot := by
  obtain ⟨_, hsd, hso⟩ := sel_map o
  unfold afterInputR afterSpec
  simp only [hsd, hso]
  cases hd : selD o
  · cases ho : selO o
    · simp [obsOfStep]
    · obtain ⟨b, rfl⟩ : ∃ b, bot = some b := Option.isSome_iff_exists.mp (hb hd ho)
      simp [pbm_spec]
  · simp [Out.prepend, obsOfStep, pbm_spec]

open PipelineOpts in
/-- the specification trace IS the trace of `PipelineOpts.turn` with the guards of the current llm_flows.co -/
theorem specTrace_eq_turn (s : Setup) (o : OptsT) (user : String) (bot : Option String) (hb : BotOK o bot) :
    turnTrace s o user bot = some (specTrace s o user bot) := by
  obtain ⟨hsi, _, _⟩ := sel_map o
  unfold turnTrace
  rw [turn_eq, Option.map_some]
  congr 1
  have hf : (toCfg s).hasFlows .input = !s.input.isEmpty := by simp [Cfg.hasFlows, toCfg]
  have hr : (toCfg s).hasFlows .retrieval = false := by simp [Cfg.hasFlows, toCfg]
  unfold turnCoreR specTrace
  simp only [hf, hsi]
  cases hrun : (!s.input.isEmpty && selI o)
  · simp [Out.prepend, after_spec s o user bot hb]
  · simp only [if_true]
    obtain ⟨h1, h2⟩ := runRails_spec .input s.input 0 user
    have hcfg : (toCfg s).input = s.input.map toRail := rfl
    rw [hcfg]
    cases hl : (loopSpec "input" 0 s.input user).2 with
    | some t =>
      have h2' : (runRails .input 0 (s.input.map toRail) user).2.2 = .passed t := by
        have := h2; simp only [catName, hl] at this; exact this
      rcases hrr : runRails .input 0 (s.input.map toRail) user with ⟨tr, lg, oc⟩
      rw [hrr] at h1 h2'
      simp only at h2'; subst h2'
      simp only [catName] at h1
      simp [Out.prepend, List.filterMap_append, h1, after_spec s o t bot hb]
    | none =>
      have h2' : ∃ n, (runRails .input 0 (s.input.map toRail) user).2.2 = .blocked n := by
        have := h2; simp only [catName, hl] at this; exact this
      obtain ⟨n, hn⟩ := h2'
      rcases hrr : runRails .input 0 (s.input.map toRail) user with ⟨tr, lg, oc⟩
      rw [hrr] at h1 hn
      simp only at hn; subst hn
      simp only [catName] at h1
      have he : (toCfg s).exceptions = false := rfl
      have hrf : (toCfg s).refusal = s.refusal := rfl
      simp [Out.prepend, blockedTailR, he, botIntentSegR, retrievalPartR, hr, List.filterMap_append, h1, obsOfStep, hrf]

/-- trace of the `generate_events` loop with `fuel` iterations allowed -/
def driveTraceN (fuel : Nat) (s : Setup) (o : OptsT) (user : String) (bot : Option String) : Option (List Obs) :=
  match drive s (s.cfgs base) s.config fuel (initialHistory o user bot) [] with
  | .done tr _ => some tr
  | _ => none

/-- **`pipeline_refines_interp`** -/
theorem refines (s : Setup) (hwf : s.WF) (o : OptsT) (user : String) (bot : Option String) (hb : BotOK o bot) :
    ∃ N, ∀ fuel, N ≤ fuel → driveTraceN fuel s o user bot = turnTrace s o user bot := by
  obtain ⟨st, hrep, hruns⟩ := turn_runs s hwf o user bot hb
  rw [← s.cfgs_eq] at hrep hruns
  have hH : NoHide (initialHistory o user bot) := by
    apply noHide_of_B
    rcases o with _ | ⟨i, d, r, ou⟩ <;> rcases bot with _ | b <;> rfl
  have hs : isStop (initialHistory o user bot) = false := by
    unfold initialHistory
    exact isStop_cons_other _ _ _
  obtain ⟨N, hN⟩ := drive_of_runs s (s.cfgs base) s.config st _ hruns (initialHistory o user bot) [] hH hrep hs
  refine ⟨N, fun fuel hf => ?_⟩
  obtain ⟨H', hd⟩ := hN fuel hf
  rw [specTrace_eq_turn s o user bot hb]
  simp [driveTraceN, hd]



theorem loopSpec_obs (cat : String) : ∀ (rs : List IRail) (k : Nat) (t : String), ∀ x ∈ (loopSpec cat k rs t).1, ∃ i n t', x = Obs.railCall cat i n t'
  | [], _, _, x, h => by simp [loopSpec] at h
  | r :: rs, k, t, x, h => by
    cases hk : r.kind with
    | check a =>
      by_cases ha : a t = true
      · simp only [loopSpec, hk, ha, if_true, List.mem_cons] at h
        rcases h with rfl | h
        · exact ⟨_, _, _, rfl⟩
        · exact loopSpec_obs cat rs (k + 1) t x h
      · have ha' : a t = false := by simpa using ha
        simp only [loopSpec, hk, ha', List.mem_singleton] at h
        simp at h
        exact ⟨_, _, _, h⟩
    | rewrite f =>
      simp only [loopSpec, hk, List.mem_cons] at h
      rcases h with rfl | h
      · exact ⟨_, _, _, rfl⟩
      · exact loopSpec_obs cat rs (k + 1) (f t) x h

/-- what can occur in the specification trace, by selection -/
theorem specTrace_selected (s : Setup) (o : OptsT) (user : String) (bot : Option String) :
    (∀ i n t, Obs.railCall "input" i n t ∈ specTrace s o user bot → selI o = true) ∧
    (∀ i n t, Obs.railCall "output" i n t ∈ specTrace s o user bot → selO o = true) ∧
    (Obs.llmCall ∈ specTrace s o user bot → selD o = true) ∧
    (∀ c i n t, Obs.railCall c i n t ∈ specTrace s o user bot → c = "input" ∨ c = "output") := by
  -- membership in the pieces
  have hp : ∀ bm x, x ∈ pbmSpec s o bm → (∃ t, x = Obs.utter t) ∨ (selO o = true ∧ ∃ i n t', x = Obs.railCall "output" i n t') := by
    intro bm x hx
    unfold pbmSpec at hx
    by_cases hrun : (!s.output.isEmpty && selO o) = true
    · simp only [hrun, if_true, List.mem_append, List.mem_singleton] at hx
      rcases hx with hx | hx
      · right
        have : selO o = true := by simp at hrun; exact hrun.2
        exact ⟨this, loopSpec_obs "output" s.output 0 bm x hx⟩
      · exact Or.inl ⟨_, hx⟩
    · simp only [hrun, if_false, Bool.false_eq_true, List.mem_singleton] at hx
      exact Or.inl ⟨_, hx⟩
  have ha : ∀ um x, x ∈ afterSpec s o um bot → (∃ t, x = Obs.utter t) ∨ (selO o = true ∧ ∃ i n t', x = Obs.railCall "output" i n t') ∨ (x = Obs.llmCall ∧ selD o = true) := by
    intro um x hx
    unfold afterSpec at hx
    cases hd : selD o
    · simp only [hd, Bool.not_false, if_true] at hx
      cases ho : selO o
      · simp only [ho, Bool.not_false, if_true, List.mem_singleton] at hx
        exact Or.inl ⟨_, hx⟩
      · simp only [ho, Bool.not_true, Bool.false_eq_true, if_false] at hx
        rcases hp _ x hx with h | h
        · exact Or.inl h
        · exact Or.inr (Or.inl ⟨rfl, h.2⟩)
    · simp only [hd, Bool.not_true, Bool.false_eq_true, if_false, List.mem_cons] at hx
      rcases hx with rfl | hx
      · exact Or.inr (Or.inr ⟨rfl, rfl⟩)
      · rcases hp _ x hx with h | h
        · exact Or.inl h
        · exact Or.inr (Or.inl h)
  have hs : ∀ x, x ∈ specTrace s o user bot → (∃ t, x = Obs.utter t) ∨ (selO o = true ∧ ∃ i n t', x = Obs.railCall "output" i n t') ∨
      (x = Obs.llmCall ∧ selD o = true) ∨ (selI o = true ∧ ∃ i n t', x = Obs.railCall "input" i n t') := by
    intro x hx
    unfold specTrace at hx
    by_cases hrun : (!s.input.isEmpty && selI o) = true
    · have hsi : selI o = true := by simp at hrun; exact hrun.2
      simp only [hrun, if_true, List.mem_append] at hx
      rcases hx with hx | hx
      · exact Or.inr (Or.inr (Or.inr ⟨hsi, loopSpec_obs "input" s.input 0 user x hx⟩))
      · cases hl : (loopSpec "input" 0 s.input user).2 with
        | some um =>
          rw [hl] at hx
          rcases ha um x hx with h | h | h
          · exact Or.inl h
          · exact Or.inr (Or.inl h)
          · exact Or.inr (Or.inr (Or.inl h))
        | none =>
          rw [hl] at hx
          simp only [List.mem_singleton] at hx
          exact Or.inl ⟨_, hx⟩
    · simp only [hrun, if_false, Bool.false_eq_true] at hx
      rcases ha user x hx with h | h | h
      · exact Or.inl h
      · exact Or.inr (Or.inl h)
      · exact Or.inr (Or.inr (Or.inl h))
  refine ⟨?_, ?_, ?_, ?_⟩
  · intro i n t h
    rcases hs _ h with ⟨_, e⟩ | ⟨_, _, _, _, e⟩ | ⟨e, _⟩ | ⟨h1, _⟩
    · cases e
    · simp at e
    · cases e
    · exact h1
  · intro i n t h
    rcases hs _ h with ⟨_, e⟩ | ⟨h1, _⟩ | ⟨e, _⟩ | ⟨_, _, _, _, e⟩
    · cases e
    · exact h1
    · cases e
    · simp at e
  · intro h
    rcases hs _ h with ⟨_, e⟩ | ⟨_, _, _, _, e⟩ | ⟨_, h1⟩ | ⟨_, _, _, _, e⟩
    · cases e
    · cases e
    · exact h1
    · cases e
  · intro c i n t h
    rcases hs _ h with ⟨_, e⟩ | ⟨_, _, _, _, e⟩ | ⟨e, _⟩ | ⟨_, _, _, _, e⟩
    · cases e
    · cases e; exact Or.inr rfl
    · cases e
    · cases e; exact Or.inl rfl



/-! ### any call that starts from a quiescent interpreter state -/

/-- `after_input_runs` from any context in which `$skip_output_rails` is falsy -/
theorem after_input_runs_gen (s : Setup) (hwf : s.WF) (o : OptsT) (bot : Option String) (hb : BotOK o bot) (σ u : Ctx) (u0 c : Nat) (h0c : u0 < c)
    (hu : ∀ k ∈ K10, ∀ kv ∈ u, kv.1 ≠ k) (hO : OptCtx s o σ) (hbot : ∀ b, bot = some b → σ.get "bot_message" = .str b) (hsk : (σ.get "skip_output_rails").truthy = false)
    (t : String) (hum : (roundCtx (oneFlow σ "process user input" u0 9 createUserMessage 10000 u c)).get "user_message" = .str t) :
    Runs s (base ++ s.rails) (oneFlow σ "process user input" u0 9 createUserMessage 10000 u c) (afterSpec s o t bot) := by
  obtain ⟨σ1, R1, hK1, hum1⟩ := R_um s σ u u0 c _ _ _ hu rfl rfl rfl
  rw [guard_dlg hO] at R1
  rw [hum] at hum1
  have hO1 : OptCtx s o σ1 := hO.keep hK1.to8
  have hsk1 : (σ1.get "skip_output_rails").truthy = false := by rw [hK1 _ (by simp [K10])]; exact hsk
  have hbot1 : ∀ b, bot = some b → σ1.get "bot_message" = .str b := fun b hb2 => (hK1 _ (by simp [K10])).trans (hbot b hb2)
  cases hd : selD o
  · cases ho : selO o
    · -- echo
      have R2 := R_echo s σ1 c
      rw [hum1] at R2
      simp only [hd, ho, Bool.not_false, if_true] at R1
      have := R1.then R2
      simpa [afterSpec, hd, ho, strOf] using this
    · -- the supplied bot message
      obtain ⟨b, rfl⟩ : ∃ b, bot = some b := Option.isSome_iff_exists.mp (hb hd ho)
      obtain ⟨σ2, R2, hK2⟩ := R_botmsg s σ1 c _ _ _ hsk1 rfl rfl rfl
      rw [guard_out hO1, hbot1 b rfl] at R2
      have R3 := pbm_runs s hwf o σ2 (c + 1) (c + 2) (by omega) b (hO1.keep hK2)
      simp only [hd, ho, Bool.not_false, Bool.not_true, if_true, if_false, Bool.false_eq_true] at R1
      have := (R1.trans R2).then R3
      simpa [afterSpec, hd, ho] using this
  · obtain ⟨σ2, R2, hK2⟩ := R_gui s σ1 c _ _ _ hsk1 rfl rfl rfl
    rw [guard_out hO1] at R2
    have R3 := pbm_runs s hwf o σ2 (c + 2) (c + 3) (by omega) s.llmText (hO1.keep hK2)
    simp only [hd, Bool.not_true, if_false, Bool.false_eq_true] at R1
    have := (R1.trans R2).then R3
    simpa [afterSpec, hd] using this




/-- the configuration keys (written by no flow) -/
structure CfgCtx (s : Setup) (σ : Ctx) : Prop where
  inF : σ.get "config.rails.input.flows" = .strs (s.input.map (·.name))
  outF : σ.get "config.rails.output.flows" = .strs (s.output.map (·.name))
  retF : σ.get "config.rails.retrieval.flows" = .strs []

/-- no options were ever recorded in the conversation -/
def NoOpts (σ : Ctx) : Prop :=
  σ.get "generation_options" = .none ∧ σ.get "generation_options.rails.input" = .none ∧
  σ.get "generation_options.rails.dialog" = .none ∧ σ.get "generation_options.rails.output" = .none

theorem init_ctx_from (s : Setup) (cfgs : Cfgs) (o : OptsT) (bot : Option String) (σS : Ctx) (cS : Nat)
    (hcfg : CfgCtx s σS) (hsk : (σS.get "skip_output_rails").truthy = false) (hopt : o = none → NoOpts σS) :
    ∃ σ0, (∀ rest, replay true cfgs (optionsEvent o ++ (match bot with | some b => [.contextUpdate [("bot_message", .str b)]] | none => []) ++ rest)
          { ctx := σS, flows := [], next := none, upd := [], ctr := cS }
        = replay true cfgs rest { ctx := σ0, flows := [], next := none, upd := [], ctr := cS }) ∧
      OptCtx s o σ0 ∧ (∀ b, bot = some b → σ0.get "bot_message" = .str b) ∧ (σ0.get "skip_output_rails").truthy = false := by
  obtain ⟨h1, h2, h3⟩ := hcfg
  rcases o with _ | ⟨i, d, r, ou⟩ <;> rcases bot with _ | b
  · obtain ⟨n1, n2, n3, n4⟩ := hopt rfl
    exact ⟨σS, fun rest => rfl, ⟨h1, h2, h3, n1, n2, n3, n4⟩, (fun b hb => nomatch hb), hsk⟩
  · obtain ⟨n1, n2, n3, n4⟩ := hopt rfl
    refine ⟨σS.update [("bot_message", .str b)], fun rest => rfl, ?_, ?_, ?_⟩
    · refine ⟨?_, ?_, ?_, ?_, ?_, ?_, ?_⟩ <;> simp only [Ctx.update, List.foldl] <;> ctx_norm <;> assumption
    · intro b' hb'; cases hb'; simp only [Ctx.update, List.foldl]; ctx_norm
    · simp only [Ctx.update, List.foldl]; ctx_norm; exact hsk
  · refine ⟨σS.update [("generation_options", .bool true), ("generation_options.rails.input", .bool i),
      ("generation_options.rails.dialog", .bool d), ("generation_options.rails.retrieval", .bool r),
      ("generation_options.rails.output", .bool ou)], fun rest => rfl, ?_, ?_, ?_⟩
    · refine ⟨?_, ?_, ?_, ?_, ?_, ?_, ?_⟩ <;> simp only [Ctx.update, List.foldl] <;> ctx_norm <;> first | assumption | rfl
    · exact fun b' hb' => nomatch hb'
    · simp only [Ctx.update, List.foldl]; ctx_norm; exact hsk
  · refine ⟨(σS.update [("generation_options", .bool true), ("generation_options.rails.input", .bool i),
      ("generation_options.rails.dialog", .bool d), ("generation_options.rails.retrieval", .bool r),
      ("generation_options.rails.output", .bool ou)]).update [("bot_message", .str b)], fun rest => rfl, ?_, ?_, ?_⟩
    · refine ⟨?_, ?_, ?_, ?_, ?_, ?_, ?_⟩ <;> simp only [Ctx.update, List.foldl] <;> ctx_norm <;> first | assumption | rfl
    · intro b' hb'; cases hb'; simp only [Ctx.update, List.foldl]; ctx_norm
    · simp only [Ctx.update, List.foldl]; ctx_norm; exact hsk

/-- **any call of a conversation that starts from a quiescent interpreter state** (no flow state left, uid counter `cS`, context
    `σS` with the configuration keys, `$skip_output_rails` falsy; options recorded by this call, or never recorded at all):
    the loop of `generate_events` executes exactly `specTrace` of THIS call's options — whatever earlier calls left in the
    other context variables (`$allowed`, `$i`, `$user_message`, `$bot_message`, earlier options …) -/
theorem turn_runs_from (s : Setup) (hwf : s.WF) (o : OptsT) (user : String) (bot : Option String) (hb : BotOK o bot)
    (σS : Ctx) (cS : Nat) (hcfg : CfgCtx s σS) (hskS : (σS.get "skip_output_rails").truthy = false) (hopt : o = none → NoOpts σS) :
    ∃ st, replay true (base ++ s.rails) (initialHistory o user bot) { ctx := σS, flows := [], next := none, upd := [], ctr := cS } = .ok st ∧
      Runs s (base ++ s.rails) st (specTrace s o user bot) := by
  obtain ⟨σ0, hrep, hO0, hbot0, hsk0⟩ := init_ctx_from s (base ++ s.rails) o bot σS cS hcfg hskS hopt
  let ev : Event := .other "UtteranceUserActionFinished" [("final_transcript", .str user)]
  let σE := (σ0.withEvent ev).set "user_message" (.str user)
  have hKE : Keep K10 σ0 σE := ((Keep.refl K10 σ0).withEvent _ (by keys_tac)).setNot _ _ (by decide)
  have hOE : OptCtx s o σE := hO0.keep hKE.to8
  have hbotE : ∀ b, bot = some b → σE.get "bot_message" = .str b := fun b hb2 => (hKE _ (by simp [K10])).trans (hbot0 b hb2)
  have hskE : (σE.get "skip_output_rails").truthy = false := by rw [hKE _ (by simp [K10])]; exact hsk0
  have hTE := T_entry s.rails s.rails_sub σ0 [] cS none user _ _ _ rfl rfl rfl
  rw [guard_in hO0] at hTE
  refine ⟨_, (hrep _).trans (replay_cons_ok _ _ [] _ _ hTE (by simp)), ?_⟩
  show Runs s (base ++ s.rails) { ctx := σE, flows := [{ uid := cS, flowId := "process user input", head := if (!s.input.isEmpty && selI o) = true then 4 else 9 }], next := some { elem := if (!s.input.isEmpty && selI o) = true then createStartRails else createUserMessage, uid := cS, prio := 10000 }, upd := [("user_message", V.str user)], ctr := cS + 1 } _
  cases hrun : (!s.input.isEmpty && selI o)
  · -- input rails not run
    have := after_input_runs_gen s hwf o bot hb σE [("user_message", .str user)] cS (cS + 1) (by omega) (noUser_K10 _) hOE hbotE hskE user (by
      simp only [roundCtx, oneFlow, List.isEmpty_cons, Bool.false_eq_true, if_false, Ctx.update, List.foldl]; ctx_norm)
    simpa [specTrace, hrun, oneFlow] using this
  · have hne : s.input.isEmpty = false := by
      cases h : s.input.isEmpty <;> simp [h] at hrun ⊢
    obtain ⟨n0, ns, hnames⟩ := names_cons hne
    obtain ⟨σ1, u1, hu1, R1, hF1, hK1⟩ := R_startRails s σE [("user_message", .str user)] cS (cS + 1) (by omega) n0 ns (.str user) (σE.get "allowed")
      (by rw [hOE.inF, hnames])
      (by intro k hk kv hkv; simp only [List.mem_singleton] at hkv; subst hkv; intro e; simp only at e; subst e; revert hk; decide)
      (by simp only [roundCtx, oneFlow, List.isEmpty_cons, Bool.false_eq_true, if_false, Ctx.update, List.foldl]; ctx_norm) rfl
    rw [← hnames] at hF1
    have hO1 : OptCtx s o (σ1.update u1) := hOE.keep hK1.to8
    cases hl : loopSpec "input" 0 s.input user with
    | mk obs res =>
      cases res with
      | some t =>
        obtain ⟨σ2, c2, R2, hum2, hK2, hc2⟩ := input_phase_pass s hwf cS (cS + 1) (by omega) σ1 u1 (cS + 1 + 1) user _ (by intro e; rw [e] at hne; simp at hne) hu1 (by omega) hF1 obs t hl
        obtain ⟨σ3, R3, hK3⟩ := R_exit s σ2 c2 cS (cS + 1)
        have hK13 : Keep K10 σE σ3 := (hK1.trans hK2).trans hK3.kuTo10
        have R4 := after_input_runs_gen s hwf o bot hb σ3 [] cS c2 (by omega) (by intro k _ kv hkv; cases hkv) (hOE.keep hK13.to8)
          (fun b hb2 => (hK13 _ (by simp [K10])).trans (hbotE b hb2)) (by rw [hK13 _ (by simp [K10])]; exact hskE) t (by
            simp only [roundCtx, oneFlow, List.isEmpty_nil, if_true]
            rw [hK3 _ (List.mem_cons_self ..)]; exact hum2)
        have := ((R1.trans R2).trans R3).then R4
        simpa [specTrace, hrun, hl, oneFlow] using this
      | none =>
        have R2 := input_phase_reject s hwf cS (cS + 1) (by omega) σ1 u1 (cS + 1 + 1) user _ hu1 (by omega) hF1 hO1.retF obs hl
        have := R1.then R2
        simpa [specTrace, hrun, hl, oneFlow] using this






/-! ### several calls on one conversation (finite evaluation only) -/

/-- several calls on ONE conversation at the interpreter level: the history a call ends with (incl. `Listen`) is the
    prefix of the next call's history, as with `generate(..., state=...)` -/
def driveCalls (s : Setup) (fuel : Nat) : List Event → List (OptsT × String × Option String) → Option (List (List Obs))
  | _, [] => some []
  | H, (o, u, b) :: rest =>
    match drive s (s.cfgs base) s.config fuel (H ++ initialHistory o u b) [] with
    | .done tr H' => (driveCalls s fuel H' rest).map (tr :: ·)
    | _ => none

/-- the same calls through `PipelineOpts.session` (the turn model with the carried `$skip_output_rails`) -/
def sessionTraces (s : Setup) (calls : List (OptsT × String × Option String)) : Option (List (List Obs)) :=
  (PipelineOpts.session PipelineOpts.Gd (toCfg s) false (calls.map fun c => ⟨c.1.map mkOpts, c.2.1, c.2.2, .general s.llmText⟩)).map
    fun outs => outs.map fun o => o.trace.filterMap obsOfStep

def exSessions : List (List (OptsT × String × Option String)) :=
  [ [(some (true, false, false, false), "bad", none), (some (false, false, false, true), "hello", some "evil")],
    [(some (true, false, false, false), "bad", none), (some (false, false, false, true), "hello", some "fine")],
    [(some (true, false, false, true), "hi", some "evil"), (some (true, true, false, true), "hi", none)],
    [(none, "hi", none), (some (true, false, false, false), "bad", none), (some (false, false, false, true), "x", some "evil")],
    [(some (false, false, false, false), "bad", none), (some (true, true, true, true), "bad", none)] ]


end NemoVerif.RailsInterp
