/-
  C11 / T3 (restore) — the two dispatch maps of a CoreVM index component as the Python values `state_to_json` sees,
  their encodability and the faithfulness of that reading.
-/
import NemoVerif.Lemmas.Serialize
import NemoVerif.Models.CoreIndex

namespace NemoVerif.C11
open NemoVerif NemoVerif.Serialize NemoVerif.CoreIndex


/-- a `(flow_uid, head_uid)` pair as the Python tuple stored in `event_matching_heads` -/
def headKeyPV (k : CoreIndex.Key) : PV := .tuple [.str k.1, .str k.2]

/-- `state.event_matching_heads` and `state.event_matching_heads_reverse_map` of a CoreVM index component as the Python values
    `state_to_json` is given: a str-keyed dict of lists of tuples, and a dict whose KEYS are tuples (written as an item
    list since the repair d13eeb5) -/
def mapsPV (ix : IState) : PV :=
  .dict [(.str "event_matching_heads", .dict (ix.index.map fun e => (Serialize.Key.str e.1, PV.list (e.2.map headKeyPV)))),
         (.str "event_matching_heads_reverse_map",
           .dict (ix.rev.map fun e => (Serialize.Key.tuple [.str e.1.1, .str e.1.2], PV.str e.2)))]

theorem encodableList_headKeys : (ks : List CoreIndex.Key) → EncodableList (ks.map headKeyPV) = true
  | [] => rfl
  | k :: ks => by simp [EncodableList, headKeyPV, Encodable, encodableList_headKeys ks]

theorem encodableVals_index : (l : List (String × List CoreIndex.Key)) →
    EncodableVals (l.map fun e => (Serialize.Key.str e.1, PV.list (e.2.map headKeyPV))) = true
  | [] => rfl
  | e :: l => by simp [EncodableVals, Encodable, encodableList_headKeys, encodableVals_index l]

theorem encodableVals_rev : (l : List (CoreIndex.Key × String)) →
    EncodableVals (l.map fun e => (Serialize.Key.tuple [.str e.1.1, .str e.1.2], PV.str e.2)) = true
  | [] => rfl
  | e :: l => by simp [EncodableVals, Encodable, encodableVals_rev l]

theorem mapsPV_encodable (ix : IState) : Encodable (mapsPV ix) = true := by
  simp [mapsPV, Encodable, EncodableVals, encodableVals_index, encodableVals_rev]

theorem map_inj_of_inj {α β : Type} {f : α → β} (hf : ∀ a b, f a = f b → a = b) : ∀ (l l' : List α), l.map f = l'.map f → l = l'
  | [], [], _ => rfl
  | [], _ :: _, h => by simp at h
  | _ :: _, [], h => by simp at h
  | a :: l, b :: l', h => by
    simp only [List.map_cons, List.cons.injEq] at h
    rw [hf a b h.1, map_inj_of_inj hf l l' h.2]

theorem headKeyPV_inj : ∀ a b, headKeyPV a = headKeyPV b → a = b := by
  intro a b h
  simp only [headKeyPV, PV.tuple.injEq, List.cons.injEq, PV.str.injEq, and_true] at h
  exact Prod.ext h.1 h.2

example : mapsPV { index := [("E", [("m", "h0")])], rev := [(("m", "h0"), "E")] } =
    .dict [(.str "event_matching_heads", .dict [(.str "E", .list [.tuple [.str "m", .str "h0"]])]),
           (.str "event_matching_heads_reverse_map", .dict [(.tuple [.str "m", .str "h0"], .str "E")])] := rfl

/-- … and the encoding of the maps is faithful: equal Python values mean equal maps.  Hence the restored index component
    of a CoreVM state IS the saved one, and every C09 theorem about it (`IndexOK`, exactness) holds of the restored state. -/
theorem mapsPV_inj (ix ix' : IState) (h : mapsPV ix = mapsPV ix') : ix.index = ix'.index ∧ ix.rev = ix'.rev := by
  simp only [mapsPV, PV.dict.injEq, List.cons.injEq, Prod.mk.injEq, true_and, and_true] at h
  constructor
  · refine map_inj_of_inj ?_ _ _ h.1
    intro a b hab
    simp only [Prod.mk.injEq, Serialize.Key.str.injEq, PV.list.injEq] at hab
    exact Prod.ext hab.1 (map_inj_of_inj headKeyPV_inj _ _ hab.2)
  · refine map_inj_of_inj ?_ _ _ h.2
    intro a b hab
    simp only [Prod.mk.injEq, Serialize.Key.tuple.injEq, List.cons.injEq, Atom.str.injEq, and_true, PV.str.injEq] at hab
    exact Prod.ext (Prod.ext hab.1.1 hab.1.2) hab.2


end NemoVerif.C11
