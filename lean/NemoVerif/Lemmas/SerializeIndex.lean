/-
  C11 / T3 (restore) — the two dispatch maps of a CoreVM index component as the Python values `state_to_json` sees,
  their encodability and the faithfulness of that reading.
-/
import NemoVerif.Lemmas.Serialize
import NemoVerif.Models.CoreIndex

namespace NemoVerif.C11
open NemoVerif NemoVerif.Serialize NemoVerif.CoreIndex


/-- a `(flow_uid, head_uid)` pair as the Python tuple stored in `event_matching_heads` -/
def headKeyPV (k : CoreIndex.Key) : PV := .tuple [.str k.1, .str k.2]

/-- `state.event_matching_heads` and `state.event_matching_heads_reverse_map` of a CoreVM index component as the Python values
    `state_to_json` is given: a str-keyed dict of lists of tuples, and a dict whose KEYS are tuples (written as an item
    list since the repair d13eeb5) -/
def mapsPV (ix : IState) : PV :=
  .dict [(.str "event_matching_heads", .dict (ix.index.map fun e => (Serialize.Key.str e.1, PV.list (e.2.map headKeyPV)))),
         (.str "event_matching_heads_reverse_map",
           .dict (ix.rev.map fun e => (Serialize.Key.tuple [.str e.1.1, .str e.1.2], PV.str e.2)))]

theorem encodableList_headKeys : (ks : List CoreIndex.Key) → EncodableList (ks.map headKeyPV) = true
  | [] => rfl
  | k :: ks => by simp [EncodableList, headKeyPV, Encodable, encodableList_headKeys ks]

theorem encodableVals_index : (l : List (String × List CoreIndex.Key)) →
    EncodableVals (l.map fun e => (Serialize.Key.str e.1, PV.list (e.2.map headKeyPV))) = true
  | [] => rfl
  | e :: l => by simp [EncodableVals, Encodable, encodableList_headKeys, encodableVals_index l]

theorem encodableVals_rev : (l : List (CoreIndex.Key × String)) →
    EncodableVals (l.map fun e => (Serialize.Key.tuple [.str e.1.1, .str e.1.2], PV.str e.2)) = true
  | [] => rfl
  | e :: l => by simp [EncodableVals, Encodable, encodableVals_rev l]

theorem mapsPV_encodable (ix : IState) : Encodable (mapsPV ix) = true := by
  simp [mapsPV, Encodable, EncodableVals, encodableVals_index, encodableVals_rev]

theorem map_inj_of_inj {α β : Type} {f : α → β} (hf : ∀ a b, f a = f b → a = b) : ∀ (l l' : List α), l.map f = l'.map f → l = l'
  | [], [], _ => rfl
  | [], _ :: _, h => by simp at h
  | _ :: _, [], h => by simp at h
  | a :: l, b :: l', h => by
    simp only [List.map_cons, List.cons.injEq] at h
    rw [hf a b h.1, map_inj_of_inj hf l l' h.2]

theorem headKeyPV_inj : ∀ a b, headKeyPV a = headKeyPV b → a = b := by
  intro a b h
  simp only [headKeyPV, PV.tuple.injEq, List.cons.injEq, PV.str.injEq, and_true] at h
  exact Prod.ext h.1 h.2

example : mapsPV { index := [("E", [("m", "h0")])], rev := [(("m", "h0"), "E")] } =
    .dict [(.str "event_matching_heads", .dict [(.str "E", .list [.tuple [.str "m", .str "h0"]])]),
           (.str "event_matching_heads_reverse_map", .dict [(.tuple [.str "m", .str "h0"], .str "E")])] := rfl

/-- … and the encoding of the maps is faithful: equal Python values mean equal maps.  Hence the restored index component
    of a CoreVM state IS the saved one, and every C09 theorem about it (`IndexOK`, exactness) holds of the restored state. -/
theorem mapsPV_inj (ix ix' : IState) (h : mapsPV ix = mapsPV ix') : ix.index = ix'.index ∧ ix.rev = ix'.rev := by
  simp only [mapsPV, PV.dict.injEq, List.cons.injEq, Prod.mk.injEq, true_and, and_true] at h
  constructor
  · refine map_inj_of_inj ?_ _ _ h.1
    intro a b hab
    simp only [Prod.mk.injEq, Serialize.Key.str.injEq, PV.list.injEq] at hab
    exact Prod.ext hab.1 (map_inj_of_inj headKeyPV_inj _ _ hab.2)
  · refine map_inj_of_inj ?_ _ _ h.2
    intro a b hab
    simp only [Prod.mk.injEq, Serialize.Key.tuple.injEq, List.cons.injEq, Atom.str.injEq, and_true, PV.str.injEq] at hab
    exact Prod.ext (Prod.ext hab.1.1 hab.1.2) hab.2



/-! ### the instances and their heads (index-relevant part) -/

def hstatusName : HeadStatus → String
  | .active => "ACTIVE" | .inactive => "INACTIVE" | .merging => "MERGING"
def fstatusName : CoreIndex.FlowStatus → String
  | .waiting => "WAITING" | .starting => "STARTING" | .started => "STARTED" | .stopping => "STOPPING" | .stopped => "STOPPED" | .finished => "FINISHED"

/-- the index-relevant part of a `FlowHead` as the dataclass instance `state_to_json` sees (callbacks are `functools.partial`s,
    written as `None` and re-created by `json_to_state`; the ghost field `elem` of the model is not a Python attribute) -/
def headPV (f : FUid) (h : Head) : PV :=
  .data "FlowHead" [(.str "uid", .str h.uid), (.str "flow_state_uid", .str f), (.str "matching_scores", .list []),
    (.str "_position", .int h.pos), (.str "_status", .enum "FlowHeadStatus" (hstatusName h.status))]

/-- the index-relevant part of a `FlowState` -/
def instPV (i : Inst) : PV :=
  .data "FlowState" [(.str "uid", .str i.uid), (.str "flow_id", .str ""), (.str "loop_id", .none), (.str "hierarchy_position", .str ""),
    (.str "heads", .dict (i.heads.map fun h => (Serialize.Key.str h.uid, headPV i.uid h))),
    (.str "_status", .enum "FlowStatus" (fstatusName i.status))]

def instsPV (ix : IState) : PV := .dict (ix.insts.map fun i => (Serialize.Key.str i.uid, instPV i))

theorem headPV_encodable (f : FUid) (h : Head) : Encodable (headPV f h) = true := by
  cases hs : h.status <;>
    simp [headPV, Encodable, EncodableKvs, EncodableList, Serialize.Key.isStr, noTypeKey, isDataclassName, reservedTags, ctorOk, enumOk,
      hstatusName, hs, keyName, isPrivate, NemoVerif.Generated.C11.dataclasses, NemoVerif.Generated.C11.enums, NemoVerif.Generated.C11.nameToClass]


theorem encodableVals_heads (f : FUid) : (hs : List Head) →
    EncodableVals (hs.map fun h => (Serialize.Key.str h.uid, headPV f h)) = true
  | [] => rfl
  | h :: hs => by simp [EncodableVals, headPV_encodable, encodableVals_heads f hs]

theorem instPV_encodable (i : Inst) : Encodable (instPV i) = true := by
  cases hs : i.status <;>
    simp [instPV, Encodable, EncodableKvs, encodableVals_heads, Serialize.Key.isStr, noTypeKey, isDataclassName, reservedTags, ctorOk, enumOk,
      fstatusName, hs, keyName, isPrivate, NemoVerif.Generated.C11.dataclasses, NemoVerif.Generated.C11.enums, NemoVerif.Generated.C11.nameToClass]

theorem encodableVals_insts : (l : List Inst) → EncodableVals (l.map fun i => (Serialize.Key.str i.uid, instPV i)) = true
  | [] => rfl
  | i :: l => by simp [EncodableVals, instPV_encodable, encodableVals_insts l]

theorem instsPV_encodable (ix : IState) : Encodable (instsPV ix) = true := by
  simp [instsPV, Encodable, encodableVals_insts]

/-- an instance up to the ghost field `elem` of its heads -/
def instCore (i : Inst) : FUid × CoreIndex.FlowStatus × List (HUid × Nat × HeadStatus) :=
  (i.uid, i.status, i.heads.map fun h => (h.uid, h.pos, h.status))

theorem hstatusName_inj : ∀ a b, hstatusName a = hstatusName b → a = b := by
  intro a b h; cases a <;> cases b <;> simp [hstatusName] at h <;> rfl
theorem fstatusName_inj : ∀ a b, fstatusName a = fstatusName b → a = b := by
  intro a b h; cases a <;> cases b <;> simp [fstatusName] at h <;> rfl

theorem heads_core_of_pv (f f' : FUid) : ∀ (hs hs' : List Head),
    (hs.map fun h => (Serialize.Key.str h.uid, headPV f h)) = (hs'.map fun h => (Serialize.Key.str h.uid, headPV f' h)) →
    (hs.map fun h => (h.uid, h.pos, h.status)) = (hs'.map fun h => (h.uid, h.pos, h.status))
  | [], [], _ => rfl
  | [], _ :: _, h => by simp at h
  | _ :: _, [], h => by simp at h
  | a :: hs, b :: hs', h => by
    simp only [List.map_cons, List.cons.injEq, Prod.mk.injEq, Serialize.Key.str.injEq, headPV, PV.data.injEq, PV.str.injEq,
      PV.int.injEq, PV.enum.injEq, true_and, and_true] at h
    obtain ⟨⟨hu, _, _, hp, hst⟩, hrest⟩ := h
    have hp' : a.pos = b.pos := by exact_mod_cast hp
    simp [hu, hp', hstatusName_inj _ _ hst, heads_core_of_pv f f' hs hs' hrest]

/-- the reading is faithful: equal Python values ⇒ the same instances with the same statuses and the same heads at the same
    positions with the same statuses, in the same order -/
theorem instsPV_inj : ∀ (l l' : List Inst),
    (l.map fun i => (Serialize.Key.str i.uid, instPV i)) = (l'.map fun i => (Serialize.Key.str i.uid, instPV i)) →
    l.map instCore = l'.map instCore
  | [], [], _ => rfl
  | [], _ :: _, h => by simp at h
  | _ :: _, [], h => by simp at h
  | a :: l, b :: l', h => by
    simp only [List.map_cons, List.cons.injEq, Prod.mk.injEq, Serialize.Key.str.injEq, instPV, PV.data.injEq, PV.str.injEq,
      PV.dict.injEq, PV.enum.injEq, true_and, and_true] at h
    obtain ⟨⟨hu, _, hh, hst⟩, hrest⟩ := h
    have hheads := heads_core_of_pv a.uid b.uid a.heads b.heads hh
    simp [instCore, hu, fstatusName_inj _ _ hst, hheads, instsPV_inj l l' hrest]


end NemoVerif.C11
