/-
  C10 on CoreVM, frame part (2): `_advance_head_front` as a whole — skip conditions, WAITING → STARTING, `slide`, the recursion
  into freshly forked heads, both halves of the try block, the `except` branch, `_finish_flow` / `_abort_flow`.
  (One syntax-directed search over the 100-line do-block: about 3 minutes of elaboration.)
-/
import NemoVerif.Lemmas.ErrFrameVM
import NemoVerif.Lemmas.SlideKeysVM
set_option linter.unusedSimpArgs false
set_option linter.unusedVariables false
namespace NemoVerif.CoreVM
open NemoVerif NemoVerif.CoreIndex
section fr
variable {G : FUid → Prop}
set_option maxHeartbeats 6000000 in
theorem Fr.advanceHeadFront : ∀ (fuel : Nat) (heads : List Key), (∀ k ∈ heads, G k.1) →
    Pres (Fr G) (advanceHeadFront fuel heads)
  | 0, heads, _ => by unfold CoreVM.advanceHeadFront; exact Pres.throw (frPO G) _
  | fuel + 1, heads, hH => by
    unfold CoreVM.advanceHeadFront
    have ih := Fr.advanceHeadFront fuel
    pres_search (Fr G) (frPO G) (first | fr_leaf | (refine Fr.setHeadPos _ _ ?_; g_mem) | (refine Fr.setHeadStatus _ _ ?_; g_mem) | (refine Fr.setFlowStatus _ _ ?_; g_mem) | (refine Fr.abortFlow _ _ _ _ ?_; g_mem) | (refine Fr.finishFlow _ _ _ _ ?_; g_mem) | (refine Pres.bind_ret (frPO G) (fun nh => ∀ k' ∈ nh, G k'.1) (Fr.slide _ _ _ (by g_mem)) ?_ ?_; (intro s a s' hs k' hk'; rw [slide_keys _ _ _ _ _ _ hs k' hk']; g_mem); (intro nh hnh)) | exact ih _ (by assumption) | (refine Pres.forIn_mem (frPO G) _ _ _ ?_; intro k hk b; have hGk := hH k hk))

end fr
end NemoVerif.CoreVM
