/-
  C06 / refinement CoreVM → Lifetime, part 8c: `StopFlow(flow_id=…)` — the loop over `flow_id_states[flow_id]` that aborts every
  instance whose arguments match IS a sequence of `IOp.abort` operations.  Stated on `CoreVM.processInternalEvent` itself.
-/
import NemoVerif.Lemmas.LifetimeCoreVM8b
namespace NemoVerif.Lifetime.Refine
open NemoVerif NemoVerif.CoreVM NemoVerif.CoreIndex NemoVerif.Lifetime

variable (ν φ : String → Nat)

/-- loop body of `for flow_state in state.flow_id_states[flow_id]: if arguments match: _abort_flow(…)` -/
def stopIdStep (fuel : Nat) (rest : List (String × Val)) (sc : List Score) (d : Bool) (ev : Event) (u : String) (acc : List String) :
    M (ForInStep (List String)) :=
  EStateM.bind (getInstX u) fun x =>
    if dictSubset rest x.arguments = true then
      EStateM.bind (CoreVM.abortFlow fuel u sc d) fun _ =>
        EStateM.bind (getInstX u) fun y =>
          match y.loopId with
          | some l => pure (ForInStep.yield (acc ++ [l]))
          | none => EStateM.bind (pyRaise "AssertionError" "loop_id" : M PUnit) fun _ => pure (ForInStep.yield acc)
    else pure (ForInStep.yield acc)

def IsAbort : IOp → Prop
  | .abort .. => True
  | _ => False

theorem cs_applyOp_abort (t : State) (op : IOp) (h : IsAbort op) : cs (applyOp (cs t) op) = cs (applyOp t op) := by
  cases op with
  | abort n u d =>
    simp only [applyOp]
    have := cs_abortFlow n t u d
    cases h1 : abortFlow n t u d with
    | error e =>
      rw [h1] at this
      cases h2 : abortFlow n (cs t) u d with
      | error e' => rfl
      | ok t' => rw [h2] at this; cases this
    | ok t1 =>
      rw [h1] at this
      cases h2 : abortFlow n (cs t) u d with
      | error e' => rw [h2] at this; cases this
      | ok t' =>
        rw [h2] at this
        simp only [csE_ok, Except.ok.injEq] at this
        simp only [okOr]
        exact this.symm
  | _ => exact absurd h (by simp [IsAbort])

theorem cs_foldl_abort : ∀ (ops : List IOp) (t : State), (∀ op ∈ ops, IsAbort op) →
    cs (ops.foldl applyOp (cs t)) = cs (ops.foldl applyOp t)
  | [], t, _ => rfl
  | op :: ops, t, h => by
    simp only [List.foldl]
    have h1 := cs_applyOp_abort t op (h op (List.mem_cons_self ..))
    have h2 : ∀ o ∈ ops, IsAbort o := fun o ho => h o (List.mem_cons_of_mem _ ho)
    rw [← cs_foldl_abort ops (applyOp (cs t) op) h2, h1, cs_foldl_abort ops (applyOp t op) h2]

theorem stopId_loop (hν : Function.Injective ν) (hφ : Function.Injective φ) (fuel : Nat) (rest : List (String × Val)) (sc : List Score)
    (d : Bool) (ev : Event) : ∀ (l : List String) (acc : List String) (vm vm' : VM) (res : List String), WF vm →
    forIn l acc (stopIdStep fuel rest sc d ev) vm = .ok res vm' →
    WF vm' ∧ ∃ ops : List IOp, (∀ op ∈ ops, IsAbort op) ∧ absVM ν φ vm' = cs (ops.foldl applyOp (absVM ν φ vm))
  | [], acc, vm, vm', res, hw, h => by
    rw [List.forIn_nil] at h
    cases h
    exact ⟨hw, [], (fun _ ho => by cases ho), rfl⟩
  | u :: l, acc, vm, vm', res, hw, h => by
    rw [List.forIn_cons] at h
    simp only [bind, EStateM.bind, stopIdStep] at h
    cases hx : OMap.lookup u vm.r.fx with
    | none => rw [getInstX_run_none u vm hx] at h; cases h
    | some x =>
      rw [getInstX_run_some u vm x hx] at h
      simp only at h
      by_cases hm : dictSubset rest x.arguments = true
      · simp only [hm, if_true, EStateM.bind] at h
        cases ha : CoreVM.abortFlow fuel u sc d vm with
        | error e s => rw [ha] at h; cases h
        | ok u1 vm1 =>
          rw [ha] at h
          simp only at h
          obtain ⟨t1, ht1, a1, w1⟩ := corevm_abort_is_op ν φ hν hφ fuel vm u sc d vm1 hw ha
          cases hx1 : OMap.lookup u vm1.r.fx with
          | none => rw [getInstX_run_none u vm1 hx1] at h; cases h
          | some x1 =>
            rw [getInstX_run_some u vm1 x1 hx1] at h
            simp only at h
            cases hl : x1.loopId with
            | none => rw [hl] at h; cases h
            | some lp =>
              rw [hl] at h
              simp only [pure, EStateM.pure] at h
              obtain ⟨w2, ops, hops, a2⟩ := stopId_loop hν hφ fuel rest sc d ev l (acc ++ [lp]) vm1 vm' res w1 h
              refine ⟨w2, .abort fuel (ν u) d :: ops, ?_, ?_⟩
              · intro op hop
                rcases List.mem_cons.mp hop with e | e
                · subst e; trivial
                · exact hops op e
              · simp only [List.foldl, applyOp, ht1, okOr]
                rw [a2, a1, cs_foldl_abort ops t1 hops]
      · simp only [hm, Bool.false_eq_true, if_false, pure, EStateM.pure] at h
        exact stopId_loop hν hφ fuel rest sc d ev l acc vm vm' res hw h

/-- the argument filter of `StopFlow(flow_id=…)` -/
def stopRest (args : List (String × Val)) : List (String × Val) :=
  (((args.filter fun kv => kv.1 ≠ "flow_id").filter fun kv => kv.1 ≠ "deactivate").filter fun kv => kv.1 ≠ "source_flow_instance_uid").filter
    fun kv => kv.1 ≠ "source_head_uid"

/-- **processing `StopFlow(flow_id=…)`** (no `flow_instance_uid`) IS a sequence of `abort` operations of the Lifetime machine -/
theorem corevm_stopflow_id_event_is_ops (hν : Function.Injective ν) (hφ : Function.Injective φ) (fuel : Nat) (event : Event) (vm vm' : VM)
    (fid : String) (r : Event × List String)
    (hname : event.ev.name = "StopFlow") (huid : lookupArg "flow_instance_uid" event.ev.args = none)
    (hfid : lookupArg "flow_id" event.ev.args = some (.str fid)) (hw : WF vm)
    (hrun : processInternalEvent fuel event vm = .ok r vm') :
    WF vm' ∧ ∃ ops : List IOp, (∀ op ∈ ops, IsAbort op) ∧ absVM ν φ vm' = cs (ops.foldl applyOp (absVM ν φ vm)) := by
  unfold processInternalEvent at hrun
  simp only [bind, EStateM.bind, hname, huid, hfid] at hrun
  have hgr : getRest vm = .ok vm.r vm := rfl
  rw [hgr] at hrun
  have hsf : ("StopFlow" = "FinishFlow") = False := by decide
  simp only [pure, EStateM.pure, hsf, if_false] at hrun
  obtain ⟨dflag, hd⟩ : ∃ dflag : Bool, dflag = (match lookupArg "deactivate" event.ev.args with | some v => truthy v | none => false) :=
    ⟨_, rfl⟩
  have hrun' : EStateM.bind (forIn ((OMap.lookup fid vm.r.idStates).getD []) []
      (stopIdStep fuel (stopRest event.ev.args) event.scores dflag event)) (fun a => pure (event, a)) vm = .ok r vm' := by
    rw [hd]; exact hrun
  simp only [EStateM.bind] at hrun'
  cases hloop : forIn ((OMap.lookup fid vm.r.idStates).getD []) []
      (stopIdStep fuel (stopRest event.ev.args) event.scores dflag event) vm with
  | error e s => rw [hloop] at hrun'; cases hrun'
  | ok res vm1 =>
    rw [hloop] at hrun'
    cases hrun'
    exact stopId_loop ν φ hν hφ fuel _ _ _ event _ [] vm vm' res hw hloop


/-! ### `FinishFlow(flow_id=…)` -/

/-- **`Lifetime.finishFlow` does not read queue / outgoing events** -/
theorem cs_finishFlow (n : Nat) (s : State) (u : Nat) (d : Bool) : csE (finishFlow n s u d) = csE (finishFlow n (cs s) u d) := by
  have hrec : CsRec (fun s c => abortFlow n s c true) := fun s c => cs_abortFlow n s c true
  simp only [finishFlow]
  have hp := cs_deactivatePhase _ hrec s u d
  cases h1 : deactivatePhase (fun s c => abortFlow n s c true) s u d with
  | error e =>
    rw [h1] at hp
    cases h2 : deactivatePhase (fun s c => abortFlow n s c true) (cs s) u d with
    | error e' => rw [h2] at hp; simp only [csP, Except.error.injEq] at hp; subst hp; rfl
    | ok p' => rw [h2] at hp; obtain ⟨a, b⟩ := p'; cases hp
  | ok p =>
    obtain ⟨s1, b⟩ := p
    rw [h1] at hp
    cases h2 : deactivatePhase (fun s c => abortFlow n s c true) (cs s) u d with
    | error e' => rw [h2] at hp; cases hp
    | ok p' =>
      obtain ⟨s1', b'⟩ := p'
      rw [h2] at hp
      simp only [csP, Except.ok.injEq, Prod.mk.injEq] at hp
      obtain ⟨hs, hb⟩ := hp
      subst hb
      cases b with
      | true => simp only [csE_ok, hs]
      | false =>
        simp only
        rw [cs_finishBody _ hrec s1, hs, ← cs_finishBody _ hrec s1']

def IsFinish : IOp → Prop
  | .finish .. => True
  | _ => False

theorem cs_applyOp_finish (t : State) (op : IOp) (h : IsFinish op) : cs (applyOp (cs t) op) = cs (applyOp t op) := by
  cases op with
  | finish n u d =>
    simp only [applyOp]
    have := cs_finishFlow n t u d
    cases h1 : finishFlow n t u d with
    | error e =>
      rw [h1] at this
      cases h2 : finishFlow n (cs t) u d with
      | error e' => rfl
      | ok t' => rw [h2] at this; cases this
    | ok t1 =>
      rw [h1] at this
      cases h2 : finishFlow n (cs t) u d with
      | error e' => rw [h2] at this; cases this
      | ok t' =>
        rw [h2] at this
        simp only [csE_ok, Except.ok.injEq] at this
        simp only [okOr]
        exact this.symm
  | _ => exact absurd h (by simp [IsFinish])

theorem cs_foldl_finish : ∀ (ops : List IOp) (t : State), (∀ op ∈ ops, IsFinish op) →
    cs (ops.foldl applyOp (cs t)) = cs (ops.foldl applyOp t)
  | [], t, _ => rfl
  | op :: ops, t, h => by
    simp only [List.foldl]
    have h1 := cs_applyOp_finish t op (h op (List.mem_cons_self ..))
    have h2 : ∀ o ∈ ops, IsFinish o := fun o ho => h o (List.mem_cons_of_mem _ ho)
    rw [← cs_foldl_finish ops (applyOp (cs t) op) h2, h1, cs_foldl_finish ops (applyOp t op) h2]

def finishIdStep (fuel : Nat) (rest : List (String × Val)) (sc : List Score) (d : Bool) (u : String) (acc : List String) :
    M (ForInStep (List String)) :=
  EStateM.bind (getInstX u) fun x =>
    if dictSubset rest x.arguments = true then
      EStateM.bind (CoreVM.finishFlow fuel u sc d) fun _ =>
        EStateM.bind (getInstX u) fun y =>
          match y.loopId with
          | some l => pure (ForInStep.yield (acc ++ [l]))
          | none => EStateM.bind (pyRaise "AssertionError" "loop_id" : M PUnit) fun _ => pure (ForInStep.yield acc)
    else pure (ForInStep.yield acc)

theorem finishId_loop (hν : Function.Injective ν) (hφ : Function.Injective φ) (fuel : Nat) (rest : List (String × Val)) (sc : List Score)
    (d : Bool) (hlog : ∀ u, LogInvisible fuel u sc) : ∀ (l : List String) (acc : List String) (vm vm' : VM) (res : List String), WF vm →
    forIn l acc (finishIdStep fuel rest sc d) vm = .ok res vm' →
    WF vm' ∧ ∃ ops : List IOp, (∀ op ∈ ops, IsFinish op) ∧ absVM ν φ vm' = cs (ops.foldl applyOp (absVM ν φ vm))
  | [], acc, vm, vm', res, hw, h => by
    rw [List.forIn_nil] at h
    cases h
    exact ⟨hw, [], (fun _ ho => by cases ho), rfl⟩
  | u :: l, acc, vm, vm', res, hw, h => by
    rw [List.forIn_cons] at h
    simp only [bind, EStateM.bind, finishIdStep] at h
    cases hx : OMap.lookup u vm.r.fx with
    | none => rw [getInstX_run_none u vm hx] at h; cases h
    | some x =>
      rw [getInstX_run_some u vm x hx] at h
      simp only at h
      by_cases hm : dictSubset rest x.arguments = true
      · simp only [hm, if_true, EStateM.bind] at h
        cases ha : CoreVM.finishFlow fuel u sc d vm with
        | error e s => rw [ha] at h; cases h
        | ok u1 vm1 =>
          rw [ha] at h
          simp only at h
          obtain ⟨t1, ht1, a1, w1⟩ := corevm_finish_is_op ν φ hν hφ fuel vm u sc d vm1 (hlog u) hw ha
          cases hx1 : OMap.lookup u vm1.r.fx with
          | none => rw [getInstX_run_none u vm1 hx1] at h; cases h
          | some x1 =>
            rw [getInstX_run_some u vm1 x1 hx1] at h
            simp only at h
            cases hl : x1.loopId with
            | none => rw [hl] at h; cases h
            | some lp =>
              rw [hl] at h
              simp only [pure, EStateM.pure] at h
              obtain ⟨w2, ops, hops, a2⟩ := finishId_loop hν hφ fuel rest sc d hlog l (acc ++ [lp]) vm1 vm' res w1 h
              refine ⟨w2, .finish fuel (ν u) d :: ops, ?_, ?_⟩
              · intro op hop
                rcases List.mem_cons.mp hop with e | e
                · subst e; trivial
                · exact hops op e
              · simp only [List.foldl, applyOp, ht1, okOr]
                rw [a2, a1, cs_foldl_finish ops t1 hops]
      · simp only [hm, Bool.false_eq_true, if_false, pure, EStateM.pure] at h
        exact finishId_loop hν hφ fuel rest sc d hlog l acc vm vm' res hw h

/-- **processing `FinishFlow(flow_id=…)`** (no `flow_instance_uid`) IS a sequence of `finish` operations of the Lifetime machine -/
theorem corevm_finishflow_id_event_is_ops (hν : Function.Injective ν) (hφ : Function.Injective φ) (fuel : Nat) (event : Event) (vm vm' : VM)
    (fid : String) (r : Event × List String)
    (hname : event.ev.name = "FinishFlow") (huid : lookupArg "flow_instance_uid" event.ev.args = none)
    (hfid : lookupArg "flow_id" event.ev.args = some (.str fid)) (hw : WF vm) (hlog : ∀ u, LogInvisible fuel u event.scores)
    (hrun : processInternalEvent fuel event vm = .ok r vm') :
    WF vm' ∧ ∃ ops : List IOp, (∀ op ∈ ops, IsFinish op) ∧ absVM ν φ vm' = cs (ops.foldl applyOp (absVM ν φ vm)) := by
  unfold processInternalEvent at hrun
  simp only [bind, EStateM.bind, hname, huid, hfid] at hrun
  have hgr : getRest vm = .ok vm.r vm := rfl
  rw [hgr] at hrun
  simp only [pure, EStateM.pure, if_true] at hrun
  obtain ⟨dflag, hd⟩ : ∃ dflag : Bool, dflag = (match lookupArg "deactivate" event.ev.args with | some v => truthy v | none => false) :=
    ⟨_, rfl⟩
  have hrun' : EStateM.bind (forIn ((OMap.lookup fid vm.r.idStates).getD []) []
      (finishIdStep fuel (stopRest event.ev.args) event.scores dflag)) (fun a => pure (event, a)) vm = .ok r vm' := by
    rw [hd]; exact hrun
  simp only [EStateM.bind] at hrun'
  cases hloop : forIn ((OMap.lookup fid vm.r.idStates).getD []) []
      (finishIdStep fuel (stopRest event.ev.args) event.scores dflag) vm with
  | error e s => rw [hloop] at hrun'; cases hrun'
  | ok res vm1 =>
    rw [hloop] at hrun'
    cases hrun'
    exact finishId_loop ν φ hν hφ fuel _ _ _ hlog _ [] vm vm' res hw hloop

/-- a `StopFlow` / `FinishFlow` event that names neither an instance nor a flow does nothing -/
theorem corevm_stop_event_noarg_frame (fuel : Nat) (event : Event) (vm vm' : VM) (r : Event × List String)
    (hname : event.ev.name = "StopFlow" ∨ event.ev.name = "FinishFlow") (huid : lookupArg "flow_instance_uid" event.ev.args = none)
    (hfid : lookupArg "flow_id" event.ev.args = none)
    (hrun : processInternalEvent fuel event vm = .ok r vm') : vm' = vm := by
  unfold processInternalEvent at hrun
  rcases hname with hname | hname
  · simp only [bind, EStateM.bind, hname, huid, hfid] at hrun
    have hgr : getRest vm = .ok vm.r vm := rfl
    rw [hgr] at hrun
    cases hrun; rfl
  · simp only [bind, EStateM.bind, hname, huid, hfid] at hrun
    have hgr : getRest vm = .ok vm.r vm := rfl
    rw [hgr] at hrun
    cases hrun; rfl

end NemoVerif.Lifetime.Refine
