/-
  C13 — lemmas about `Models/ImportLoop.lean` (the import fix-point loops of `RailsConfig.from_path`).
-/
import NemoVerif.Models.ImportLoop
import Mathlib.Data.List.Dedup
import Mathlib.Data.List.Perm.Subperm

namespace NemoVerif.ImportLoop

/-! ### `joinPaths` (append-if-absent) -/

theorem joinPaths_nil (d : List String) : joinPaths d [] = d := rfl

theorem joinPaths_cons (d : List String) (p : String) (a : List String) :
    joinPaths d (p :: a) = joinPaths (joinStep d p) a := rfl

theorem joinStep_prefix (d : List String) (p : String) : ∃ t, joinStep d p = d ++ t := by
  unfold joinStep; split
  · exact ⟨[], by simp⟩
  · exact ⟨[p], rfl⟩

theorem joinPaths_prefix (d a : List String) : ∃ t, joinPaths d a = d ++ t := by
  induction a generalizing d with
  | nil => exact ⟨[], by simp [joinPaths_nil]⟩
  | cons p a ih =>
    obtain ⟨t₁, h₁⟩ := joinStep_prefix d p
    obtain ⟨t₂, h₂⟩ := ih (joinStep d p)
    exact ⟨t₁ ++ t₂, by rw [joinPaths_cons, h₂, h₁, List.append_assoc]⟩

theorem joinStep_nodup {d : List String} (p : String) (h : d.Nodup) : (joinStep d p).Nodup := by
  unfold joinStep; split
  · exact h
  · rename_i hp
    rw [List.nodup_append]
    refine ⟨h, by simp, ?_⟩
    intro a ha b hb
    simp at hb; subst hb
    intro e; subst e; exact hp ha

theorem joinPaths_nodup {d : List String} (a : List String) (h : d.Nodup) : (joinPaths d a).Nodup := by
  induction a generalizing d with
  | nil => exact h
  | cons p a ih => rw [joinPaths_cons]; exact ih (joinStep_nodup p h)

theorem joinStep_subset {d U : List String} {p : String} (hd : d ⊆ U) (hp : p ∈ U) : joinStep d p ⊆ U := by
  unfold joinStep; split
  · exact hd
  · intro x hx; simp at hx; rcases hx with hx | hx
    · exact hd hx
    · subst hx; exact hp

theorem joinPaths_subset {d a U : List String} (hd : d ⊆ U) (ha : a ⊆ U) : joinPaths d a ⊆ U := by
  induction a generalizing d with
  | nil => exact hd
  | cons p a ih =>
    rw [joinPaths_cons]
    exact ih (joinStep_subset hd (ha (by simp))) (fun x hx => ha (by simp [hx]))

theorem mem_joinStep (d : List String) (p : String) : p ∈ joinStep d p := by
  unfold joinStep; split
  · assumption
  · simp

/-- everything that is joined ends up in the list (and what was there stays) -/
theorem joinPaths_mem (d a : List String) : ∀ x, (x ∈ d ∨ x ∈ a) → x ∈ joinPaths d a := by
  induction a generalizing d with
  | nil => intro x hx; simpa [joinPaths_nil] using hx
  | cons p a ih =>
    intro x hx
    rw [joinPaths_cons]
    apply ih
    rcases hx with hx | hx
    · left; obtain ⟨t, ht⟩ := joinStep_prefix d p; rw [ht]; simp [hx]
    · simp at hx; rcases hx with hx | hx
      · left; subst hx; exact mem_joinStep d x
      · right; exact hx

/-- nothing but what is joined gets in -/
theorem joinPaths_mem_only (d a : List String) : ∀ x, x ∈ joinPaths d a → (x ∈ d ∨ x ∈ a) := by
  intro x hx
  have : joinPaths d a ⊆ d ++ a := joinPaths_subset (by simp) (by simp)
  simpa using this hx

/-- the join never removes a repetition that is already there -/
theorem joinPaths_not_nodup {d : List String} (a : List String) (h : ¬ d.Nodup) : ¬ (joinPaths d a).Nodup := by
  obtain ⟨t, ht⟩ := joinPaths_prefix d a
  rw [ht]; intro hn
  exact h (List.nodup_append.mp hn).1

/-! ### counting -/

theorem length_le_of_nodup_subset {l U : List String} (hn : l.Nodup) (hs : l ⊆ U) : l.length ≤ U.length :=
  (List.subperm_of_subset hn hs).length_le

theorem length_eq_of_nodup_subset_subset {k l : List String} (hk : k.Nodup) (hl : l.Nodup) (h₁ : k ⊆ l) (h₂ : l ⊆ k) :
    k.length = l.length :=
  Nat.le_antisymm (length_le_of_nodup_subset hk h₁) (length_le_of_nodup_subset hl h₂)

/-- distinct keys drawn from a list with a repetition are fewer than the list is long -/
theorem length_lt_of_dup {k l : List String} (hk : k.Nodup) (h₁ : k ⊆ l) (hl : ¬ l.Nodup) : k.length < l.length := by
  have h₂ : k.length ≤ l.dedup.length :=
    length_le_of_nodup_subset hk (fun x hx => List.subset_dedup l (h₁ hx))
  have h₃ : l.dedup.length ≤ l.length := (List.dedup_sublist l).length_le
  rcases Nat.lt_or_ge k.length l.length with h | h
  · exact h
  · exfalso
    have : l.dedup.length = l.length := by omega
    have e := (List.dedup_sublist l).eq_of_length this
    exact hl (List.dedup_eq_self.mp e)

/-! ### the invariant of `_load_imported_paths` -/

/-- `U` = a finite set of import paths closed under "listed in a `.yml` file of what a path of `U` resolves to" -/
def YmlClosed (w : World) (U : List String) : Prop :=
  ∀ p ∈ U, ∀ actual items, w.resolve p = some (actual, items) → ymlPaths items ⊆ U

structure Inv (U : List String) (s : St) : Prop where
  nodup : s.importPaths.Nodup
  sub : s.importPaths ⊆ U
  knodup : s.keys.Nodup
  ksub : s.keys ⊆ s.importPaths

theorem keys_length (s : St) : s.keys.length = s.imported.length := by simp [St.keys]

theorem loadPath_fst_subset {w : World} {U : List String} (hU : YmlClosed w U) {p actual items}
    (hp : p ∈ U) (hr : w.resolve p = some (actual, items)) : (loadPath items).1 ⊆ U := by
  unfold loadPath
  exact joinPaths_subset (by simp) (hU p hp actual items hr)

/-- what one visit does: the list of import paths is extended at the end, the path is marked, the invariant is kept -/
theorem visit_ok {w : World} {U : List String} (hU : YmlClosed w U) {s s' : St} {p : String}
    (hi : Inv U s) (hp : p ∈ s.importPaths) (hv : visit w s p = .ok s') :
    Inv U s' ∧ p ∈ s'.keys ∧ s.keys ⊆ s'.keys ∧ ∃ t, s'.importPaths = s.importPaths ++ t := by
  unfold visit at hv
  split at hv
  · rename_i hk
    injection hv with hv; subst hv
    exact ⟨hi, hk, fun _ h => h, [], by simp⟩
  · rename_i hk
    split at hv
    · cases hv
    · rename_i actual items hr
      injection hv with hv; subst hv
      have hpU : p ∈ U := hi.sub hp
      obtain ⟨t, ht⟩ := joinPaths_prefix s.importPaths (loadPath items).1
      refine ⟨⟨joinPaths_nodup _ hi.nodup, joinPaths_subset hi.sub (loadPath_fst_subset hU hpU hr), ?_, ?_⟩, ?_, ?_, t, ht⟩
      · simp only [St.keys, List.map_append, List.map_cons, List.map_nil]
        rw [List.nodup_append]
        refine ⟨hi.knodup, by simp, ?_⟩
        intro a ha b hb
        simp at hb; subst hb
        intro e; subst e; exact hk ha
      · intro x hx
        simp only [St.keys, List.map_append, List.map_cons, List.map_nil, List.mem_append, List.mem_singleton] at hx
        show x ∈ joinPaths s.importPaths (loadPath items).1
        rw [ht]
        rcases hx with hx | hx
        · exact List.mem_append_left _ (hi.ksub hx)
        · subst hx; exact List.mem_append_left _ hp
      · simp [St.keys]
      · intro x hx; simp only [St.keys, List.map_append, List.mem_append]; left; exact hx

/-- the `for` loop from index `i`, when the paths before `i` are marked: it ends within `|U| + 1 - i` steps, and (unless an
    import could not be resolved) every import path is marked afterwards -/
theorem forLoop_terminates {w : World} {U : List String} (hU : YmlClosed w U) :
    ∀ (n i : Nat) (s : St), Inv U s → i ≤ s.importPaths.length → (∀ x ∈ s.importPaths.take i, x ∈ s.keys) →
      U.length + 1 ≤ n + i →
      ∃ r, forLoop w n i s = some r ∧
        ∀ s', r = .ok s' → Inv U s' ∧ (∀ x ∈ s'.importPaths, x ∈ s'.keys) ∧ s.keys ⊆ s'.keys ∧ ∃ t, s'.importPaths = s.importPaths ++ t := by
  intro n
  induction n with
  | zero =>
    intro i s hi hle _ hf
    have := length_le_of_nodup_subset hi.nodup hi.sub
    omega
  | succ n ih =>
    intro i s hi hle hmark hf
    unfold forLoop
    cases hg : s.importPaths[i]? with
    | none =>
      refine ⟨.ok s, rfl, ?_⟩
      intro s' hs'; injection hs' with hs'; subst hs'
      have hlen : s.importPaths.length ≤ i := by
        rcases Nat.lt_or_ge i s.importPaths.length with h | h
        · rw [List.getElem?_eq_getElem h] at hg; cases hg
        · exact h
      refine ⟨hi, ?_, fun _ h => h, [], by simp⟩
      intro x hx
      apply hmark
      rw [List.take_of_length_le hlen]; exact hx
    | some p =>
      have hlt : i < s.importPaths.length := by
        rcases Nat.lt_or_ge i s.importPaths.length with h | h
        · exact h
        · rw [List.getElem?_eq_none h] at hg; cases hg
      have hpm : p ∈ s.importPaths := List.mem_of_getElem? hg
      simp only
      cases hv : visit w s p with
      | error e => exact ⟨.error e, rfl, by intro s' h; cases h⟩
      | ok s₁ =>
        obtain ⟨hi₁, hk₁, hks, t, ht⟩ := visit_ok hU hi hpm hv
        have hmark₁ : ∀ x ∈ s₁.importPaths.take (i + 1), x ∈ s₁.keys := by
          intro x hx
          rw [ht, List.take_append_of_le_length (by omega), List.take_add_one, hg] at hx
          simp only [Option.toList_some, List.mem_append, List.mem_singleton] at hx
          rcases hx with hx | hx
          · exact hks (hmark x hx)
          · subst hx; exact hk₁
        have hle₁ : i + 1 ≤ s₁.importPaths.length := by rw [ht, List.length_append]; omega
        obtain ⟨r, hr, hrs⟩ := ih (i + 1) s₁ hi₁ hle₁ hmark₁ (by omega)
        refine ⟨r, hr, ?_⟩
        intro s' hs'
        obtain ⟨a, b, c, t', ht'⟩ := hrs s' hs'
        exact ⟨a, b, fun x hx => c (hks hx), t ++ t', by rw [ht', ht, List.append_assoc]⟩

/-- when every import path is marked the `while` test is false -/
theorem lengths_eq_of_all_marked {U : List String} {s : St} (hi : Inv U s) (h : ∀ x ∈ s.importPaths, x ∈ s.keys) :
    s.imported.length = s.importPaths.length := by
  rw [← keys_length]
  exact length_eq_of_nodup_subset_subset hi.knodup hi.nodup hi.ksub h

/-- and conversely: the `while` test is false only when every import path is marked -/
theorem all_marked_of_lengths_eq {U : List String} {s : St} (hi : Inv U s) (h : s.imported.length = s.importPaths.length) :
    ∀ x ∈ s.importPaths, x ∈ s.keys := by
  rw [← keys_length] at h
  have hp : s.keys.Subperm s.importPaths := List.subperm_of_subset hi.knodup hi.ksub
  have : s.keys.Perm s.importPaths := hp.perm_of_length_le (by omega)
  intro x hx; exact this.mem_iff.mpr hx

/-- `_load_imported_paths` ends: at most one pass of the `for` loop is needed -/
theorem whileLoop_terminates {w : World} {U : List String} (hU : YmlClosed w U) (s : St) (hi : Inv U s) :
    ∀ n, U.length + 3 ≤ n →
      ∃ r, whileLoop w n s = some r ∧
        ∀ s', r = .ok s' → Inv U s' ∧ (∀ x ∈ s'.importPaths, x ∈ s'.keys) ∧ s.keys ⊆ s'.keys ∧ ∃ t, s'.importPaths = s.importPaths ++ t := by
  intro n hn
  obtain ⟨m, rfl⟩ : ∃ m, n = m + 2 := ⟨n - 2, by omega⟩
  unfold whileLoop
  split
  · rename_i heq
    refine ⟨.ok s, rfl, ?_⟩
    intro s' hs'; injection hs' with hs'; subst hs'
    exact ⟨hi, all_marked_of_lengths_eq hi heq, fun _ h => h, [], by simp⟩
  · obtain ⟨r, hr, hrs⟩ := forLoop_terminates hU (m + 1) 0 s hi (Nat.zero_le _) (by simp) (by omega)
    rw [hr]
    cases r with
    | error e => exact ⟨.error e, rfl, by intro s' h; cases h⟩
    | ok s₁ =>
      obtain ⟨hi₁, hall, hks, t, ht⟩ := hrs s₁ rfl
      simp only
      unfold whileLoop
      rw [if_pos (lengths_eq_of_all_marked hi₁ hall)]
      refine ⟨.ok s₁, rfl, ?_⟩
      intro s' hs'; injection hs' with hs'; subst hs'
      exact ⟨hi₁, hall, hks, t, ht⟩


/-! ### fuel is only a bound: more fuel, same result -/

theorem forLoop_mono {w : World} : ∀ (n i : Nat) (s : St) (r), forLoop w n i s = some r → forLoop w (n + 1) i s = some r := by
  intro n
  induction n with
  | zero => intro i s r h; simp [forLoop] at h
  | succ n ih =>
    intro i s r h
    unfold forLoop at h ⊢
    cases hg : s.importPaths[i]? with
    | none => rw [hg] at h; exact h
    | some p =>
      rw [hg] at h; simp only at h ⊢
      cases hv : visit w s p with
      | error e => rw [hv] at h; exact h
      | ok s₁ => rw [hv] at h; exact ih (i + 1) s₁ r h

theorem whileLoop_mono {w : World} : ∀ (n : Nat) (s : St) (r), whileLoop w n s = some r → whileLoop w (n + 1) s = some r := by
  intro n
  induction n with
  | zero => intro s r h; simp [whileLoop] at h
  | succ n ih =>
    intro s r h
    unfold whileLoop at h ⊢
    split
    · rename_i heq; rw [if_pos heq] at h; exact h
    · rename_i hne
      rw [if_neg hne] at h
      cases hf : forLoop w n 0 s with
      | none => rw [hf] at h; simp at h
      | some r₁ =>
        rw [hf] at h; rw [forLoop_mono n 0 s r₁ hf]
        cases r₁ with
        | error e => exact h
        | ok s₁ => exact ih s₁ r h

theorem whileLoop_mono_le {w : World} {n m : Nat} {s : St} {r} (h : whileLoop w n s = some r) (hle : n ≤ m) :
    whileLoop w m s = some r := by
  induction hle with
  | refl => exact h
  | step _ ih => exact whileLoop_mono _ s r ih

theorem loadIfAny_mono {w : World} (n : Nat) (s : St) (r) (h : loadIfAny w n s = some r) : loadIfAny w (n + 1) s = some r := by
  unfold loadIfAny at h ⊢
  split
  · rename_i he; rw [if_pos he] at h; exact h
  · rename_i he; rw [if_neg he] at h; exact whileLoop_mono n s r h

theorem parseLoop_mono {w : World} : ∀ (n : Nat) (s : St) (r), parseLoop w n s = some r → parseLoop w (n + 1) s = some r := by
  intro n
  induction n with
  | zero => intro s r h; simp [parseLoop] at h
  | succ n ih =>
    intro s r h
    unfold parseLoop at h ⊢
    split
    · rename_i heq; rw [if_pos heq] at h; exact h
    · rename_i hne
      rw [if_neg hne] at h
      cases hg : s.files[s.parsed]? with
      | none => rw [hg] at h; exact h
      | some f =>
        rw [hg] at h; simp only at h ⊢
        cases hp : w.parse f with
        | none => rw [hp] at h; exact h
        | some ips =>
          rw [hp] at h; simp only at h ⊢
          cases hl : loadIfAny w n { s with importPaths := joinPaths s.importPaths ips, parsed := s.parsed + 1 } with
          | none => rw [hl] at h; simp at h
          | some r₁ =>
            rw [hl] at h; rw [loadIfAny_mono n _ r₁ hl]
            cases r₁ with
            | error e => exact h
            | ok s₁ => exact ih s₁ r h

theorem parseLoop_mono_le {w : World} {n m : Nat} {s : St} {r} (h : parseLoop w n s = some r) (hle : n ≤ m) :
    parseLoop w m s = some r := by
  induction hle with
  | refl => exact h
  | step _ ih => exact parseLoop_mono _ s r ih

theorem loadIfAny_mono_le {w : World} {n m : Nat} {s : St} {r} (h : loadIfAny w n s = some r) (hle : n ≤ m) :
    loadIfAny w m s = some r := by
  induction hle with
  | refl => exact h
  | step _ ih => exact loadIfAny_mono _ s r ih

theorem fromPath_mono_le {w : World} {n m : Nat} {items : List Item} {r} (h : fromPath w n items = some r) (hle : n ≤ m) :
    fromPath w m items = some r := by
  unfold fromPath at h ⊢
  cases hl : loadIfAny w n (initSt items) with
  | none => rw [hl] at h; simp at h
  | some r₁ =>
    rw [hl] at h
    rw [loadIfAny_mono_le hl hle]
    cases r₁ with
    | error e => exact h
    | ok s₁ => exact parseLoop_mono_le h hle

/-! ### the parse loop: the number of files is bounded -/

theorem pend_mono (w : World) (k : List String) (p : String) (U : List String) : pend w (k ++ [p]) U ≤ pend w k U := by
  induction U with
  | nil => simp [pend]
  | cons x U ih =>
    simp only [pend]
    by_cases hx : x ∈ k
    · simp [hx]; exact ih
    · by_cases hp : x = p
      · subst hp; simp [hx]; omega
      · simp [hx, hp]; exact ih

theorem pend_drop (w : World) (k : List String) (p : String) (U : List String) (hp : p ∈ U) (hk : p ∉ k) :
    pend w (k ++ [p]) U + nFiles w p ≤ pend w k U := by
  induction U with
  | nil => simp at hp
  | cons x U ih =>
    simp only [pend]
    by_cases hxp : x = p
    · subst hxp
      have := pend_mono w k x U
      simp [hk]; omega
    · have hpU : p ∈ U := by
        simp at hp; rcases hp with hp | hp
        · exact absurd hp.symm hxp
        · exact hp
      have := ih hpU
      by_cases hx : x ∈ k
      · simp [hx]; exact this
      · simp [hx, hxp]; omega

/-- `U` is closed under the imports of the `.co` files its paths bring in -/
def CoClosed (w : World) (U : List String) : Prop :=
  ∀ p ∈ U, ∀ actual items, w.resolve p = some (actual, items) → ∀ f ∈ coFiles items, ∀ ips, w.parse f = some ips → ips ⊆ U

def FilesClosed (w : World) (U : List String) (s : St) : Prop :=
  ∀ f ∈ s.files, ∀ ips, w.parse f = some ips → ips ⊆ U

/-- what the loops of `_load_imported_paths` keep besides `Inv` -/
structure Ext (w : World) (U : List String) (s s' : St) : Prop where
  inv : Inv U s'
  closed : FilesClosed w U s'
  parsed : s'.parsed = s.parsed
  files : ∃ t, s'.files = s.files ++ t
  total : total w U s' ≤ total w U s

theorem Ext.refl {w : World} {U : List String} {s : St} (hi : Inv U s) (hc : FilesClosed w U s) : Ext w U s s :=
  ⟨hi, hc, rfl, ⟨[], by simp⟩, Nat.le_refl _⟩

theorem Ext.trans {w : World} {U : List String} {a b c : St} (h₁ : Ext w U a b) (h₂ : Ext w U b c) : Ext w U a c := by
  obtain ⟨t₁, e₁⟩ := h₁.files
  obtain ⟨t₂, e₂⟩ := h₂.files
  exact ⟨h₂.inv, h₂.closed, h₂.parsed.trans h₁.parsed, ⟨t₁ ++ t₂, by rw [e₂, e₁, List.append_assoc]⟩, Nat.le_trans h₂.total h₁.total⟩

theorem visit_ext {w : World} {U : List String} (hU : YmlClosed w U) (hC : CoClosed w U) {s s' : St} {p : String}
    (hi : Inv U s) (hc : FilesClosed w U s) (hp : p ∈ s.importPaths) (hv : visit w s p = .ok s') : Ext w U s s' := by
  have hinv := (visit_ok hU hi hp hv).1
  unfold visit at hv
  split at hv
  · injection hv with hv; subst hv; exact Ext.refl hi hc
  · rename_i hk
    split at hv
    · cases hv
    · rename_i actual items hr
      injection hv with hv; subst hv
      have hpU : p ∈ U := hi.sub hp
      refine ⟨hinv, ?_, rfl, ⟨(loadPath items).2, rfl⟩, ?_⟩
      · intro f hf ips hps
        simp only [List.mem_append] at hf
        rcases hf with hf | hf
        · exact hc f hf ips hps
        · exact hC p hpU actual items hr f hf ips hps
      · have hd := pend_drop w s.keys p U hpU hk
        have hn : nFiles w p = (coFiles items).length := by simp [nFiles, hr]
        simp only [total, St.keys, List.map_append, List.map_cons, List.map_nil, List.length_append, loadPath] at hd ⊢
        omega

theorem forLoop_ext {w : World} {U : List String} (hU : YmlClosed w U) (hC : CoClosed w U) :
    ∀ (n i : Nat) (s s' : St), Inv U s → FilesClosed w U s → forLoop w n i s = some (.ok s') → Ext w U s s' := by
  intro n
  induction n with
  | zero => intro i s s' _ _ h; simp [forLoop] at h
  | succ n ih =>
    intro i s s' hi hc h
    unfold forLoop at h
    cases hg : s.importPaths[i]? with
    | none => rw [hg] at h; simp at h; subst h; exact Ext.refl hi hc
    | some p =>
      rw [hg] at h; simp only at h
      cases hv : visit w s p with
      | error e => rw [hv] at h; simp at h
      | ok s₁ =>
        rw [hv] at h
        have e₁ := visit_ext hU hC hi hc (List.mem_of_getElem? hg) hv
        exact e₁.trans (ih (i + 1) s₁ s' e₁.inv e₁.closed h)

theorem whileLoop_ext {w : World} {U : List String} (hU : YmlClosed w U) (hC : CoClosed w U) :
    ∀ (n : Nat) (s s' : St), Inv U s → FilesClosed w U s → whileLoop w n s = some (.ok s') → Ext w U s s' := by
  intro n
  induction n with
  | zero => intro s s' _ _ h; simp [whileLoop] at h
  | succ n ih =>
    intro s s' hi hc h
    unfold whileLoop at h
    split at h
    · simp at h; subst h; exact Ext.refl hi hc
    · cases hf : forLoop w n 0 s with
      | none => rw [hf] at h; simp at h
      | some r =>
        rw [hf] at h
        cases r with
        | error e => simp at h
        | ok s₁ =>
          have e₁ := forLoop_ext hU hC n 0 s s₁ hi hc hf
          exact e₁.trans (ih s₁ s' e₁.inv e₁.closed h)

/-- `if import_paths: _load_imported_paths(...)` ends, and keeps everything the parse loop needs -/
theorem loadIfAny_terminates {w : World} {U : List String} (hU : YmlClosed w U) (hC : CoClosed w U) (s : St)
    (hi : Inv U s) (hc : FilesClosed w U s) (n : Nat) (hn : U.length + 3 ≤ n) :
    ∃ r, loadIfAny w n s = some r ∧ ∀ s', r = .ok s' → Ext w U s s' ∧ (∀ x ∈ s'.importPaths, x ∈ s'.keys) := by
  unfold loadIfAny
  split
  · rename_i he
    refine ⟨.ok s, rfl, ?_⟩
    intro s' hs'; injection hs' with hs'; subst hs'
    exact ⟨Ext.refl hi hc, by rw [he]; simp⟩
  · obtain ⟨r, hr, hrs⟩ := whileLoop_terminates hU s hi n hn
    refine ⟨r, hr, ?_⟩
    intro s' hs'
    subst hs'
    exact ⟨whileLoop_ext hU hC n s s' hi hc hr, (hrs s' rfl).2.1⟩

/-- the state in which `from_path` leaves the loops: every file parsed, every import path imported -/
structure Done (U : List String) (s : St) : Prop where
  inv : Inv U s
  allParsed : s.parsed = s.files.length
  allImported : ∀ x ∈ s.importPaths, x ∈ s.keys

theorem parseLoop_terminates {w : World} {U : List String} (hU : YmlClosed w U) (hC : CoClosed w U) :
    ∀ (n : Nat) (s : St), Inv U s → FilesClosed w U s → (∀ x ∈ s.importPaths, x ∈ s.keys) → s.parsed ≤ s.files.length →
      (total w U s - s.parsed) + U.length + 4 ≤ n →
      ∃ r, parseLoop w n s = some r ∧ ∀ s', r = .ok s' → Done U s' := by
  intro n
  induction n with
  | zero => intro s _ _ _ _ h; omega
  | succ n ih =>
    intro s hi hc hall hle hn
    unfold parseLoop
    split
    · rename_i heq
      refine ⟨.ok s, rfl, ?_⟩
      intro s' hs'; injection hs' with hs'; subst hs'
      exact ⟨hi, heq, hall⟩
    · rename_i hne
      have hlt : s.parsed < s.files.length := by omega
      have hg : s.files[s.parsed]? = some s.files[s.parsed] := List.getElem?_eq_getElem hlt
      rw [hg]; simp only
      cases hp : w.parse s.files[s.parsed] with
      | none => exact ⟨_, rfl, by intro s' h; cases h⟩
      | some ips =>
        simp only
        have hips : ips ⊆ U := hc _ (List.getElem_mem hlt) ips hp
        obtain ⟨t, ht⟩ := joinPaths_prefix s.importPaths ips
        let s₁ : St := { s with importPaths := joinPaths s.importPaths ips, parsed := s.parsed + 1 }
        have hi₁ : Inv U s₁ :=
          ⟨joinPaths_nodup _ hi.nodup, joinPaths_subset hi.sub hips, hi.knodup,
           fun x hx => by show x ∈ joinPaths s.importPaths ips; rw [ht]; exact List.mem_append_left _ (hi.ksub hx)⟩
        have hc₁ : FilesClosed w U s₁ := hc
        have htot : total w U s₁ = total w U s := rfl
        have hfl : s.files.length ≤ total w U s := by simp [total]
        obtain ⟨r, hr, hrs⟩ := loadIfAny_terminates hU hC s₁ hi₁ hc₁ n (by omega)
        show ∃ r, (match loadIfAny w n s₁ with
          | none => none
          | some (.error e) => some (.error e)
          | some (.ok s') => parseLoop w n s') = some r ∧ _
        rw [hr]
        cases r with
        | error e => exact ⟨_, rfl, by intro s' h; cases h⟩
        | ok s₂ =>
          simp only
          obtain ⟨e₂, hall₂⟩ := hrs s₂ rfl
          obtain ⟨t₂, ht₂⟩ := e₂.files
          have hp₂ : s₂.parsed = s.parsed + 1 := e₂.parsed
          have hle₂ : s₂.parsed ≤ s₂.files.length := by
            rw [hp₂, ht₂, List.length_append]; show s.parsed + 1 ≤ s.files.length + t₂.length; omega
          have htot₂ : total w U s₂ ≤ total w U s := by rw [← htot]; exact e₂.total
          exact ih s₂ e₂.inv e₂.closed hall₂ hle₂ (by omega)

/-- the whole of `from_path`'s loops on a configuration directory -/
theorem fromPath_terminates {w : World} {U : List String} (hU : YmlClosed w U) (hC : CoClosed w U) (items : List Item)
    (hy : ymlPaths items ⊆ U) (hf : ∀ f ∈ coFiles items, ∀ ips, w.parse f = some ips → ips ⊆ U)
    (n : Nat) (hn : total w U (initSt items) + U.length + 4 ≤ n) :
    ∃ r, fromPath w n items = some r ∧ ∀ s', r = .ok s' → Done U s' := by
  have hi : Inv U (initSt items) :=
    ⟨joinPaths_nodup _ List.nodup_nil, joinPaths_subset (by simp) hy, by simp [St.keys, initSt], by simp [St.keys, initSt]⟩
  have hc : FilesClosed w U (initSt items) := hf
  obtain ⟨r, hr, hrs⟩ := loadIfAny_terminates hU hC (initSt items) hi hc n (by omega)
  unfold fromPath
  rw [hr]
  cases r with
  | error e => exact ⟨_, rfl, by intro s' h; cases h⟩
  | ok s₁ =>
    simp only
    obtain ⟨e₁, hall₁⟩ := hrs s₁ rfl
    obtain ⟨t₁, ht₁⟩ := e₁.files
    have hp₁ : s₁.parsed = 0 := e₁.parsed
    exact parseLoop_terminates hU hC n s₁ e₁.inv e₁.closed hall₁ (by omega) (by have := e₁.total; omega)


/-- `from_content` ends too -/
theorem fromContent_terminates {w : World} {U : List String} (hU : YmlClosed w U) (hC : CoClosed w U) (yml : List String) (main : Nat)
    (hy : yml ⊆ U) (hf : ∀ ips, w.parse main = some ips → ips ⊆ U)
    (n : Nat) (hn : 1 + pend w [] U + U.length + 4 ≤ n) :
    ∃ r, fromContent w n yml main = some r ∧ ∀ s', r = .ok s' → Done U s' := by
  unfold fromContent
  cases hp : w.parse main with
  | none => exact ⟨_, rfl, by intro s' h; cases h⟩
  | some ips =>
    simp only
    have hi : Inv U (contentSt yml ips main) :=
      ⟨joinPaths_nodup _ (joinPaths_nodup _ List.nodup_nil), joinPaths_subset (joinPaths_subset (by simp) hy) (hf ips hp),
       by simp [St.keys, contentSt], by simp [St.keys, contentSt]⟩
    have hc : FilesClosed w U (contentSt yml ips main) := by
      intro f hfm ips' hps'
      simp [contentSt] at hfm; subst hfm
      exact hf ips' hps'
    have htot : total w U (contentSt yml ips main) = 1 + pend w [] U := by simp [total, contentSt, St.keys]
    obtain ⟨r, hr, hrs⟩ := loadIfAny_terminates hU hC _ hi hc n (by omega)
    rw [hr]
    cases r with
    | error e => exact ⟨_, rfl, by intro s' h; cases h⟩
    | ok s₁ =>
      simp only
      obtain ⟨e₁, hall₁⟩ := hrs s₁ rfl
      obtain ⟨t₁, ht₁⟩ := e₁.files
      have hp₁ : s₁.parsed = 1 := e₁.parsed
      have hl₁ : s₁.parsed ≤ s₁.files.length := by rw [hp₁, ht₁]; simp [contentSt]
      exact parseLoop_terminates hU hC n s₁ e₁.inv e₁.closed hall₁ hl₁ (by have := e₁.total; omega)

theorem fromContent_mono_le {w : World} {n m : Nat} {yml : List String} {main : Nat} {r}
    (h : fromContent w n yml main = some r) (hle : n ≤ m) : fromContent w m yml main = some r := by
  unfold fromContent at h ⊢
  cases hp : w.parse main with
  | none => rw [hp] at h; exact h
  | some ips =>
    rw [hp] at h; simp only at h ⊢
    cases hl : loadIfAny w n (contentSt yml ips main) with
    | none => rw [hl] at h; simp at h
    | some r₁ =>
      rw [hl] at h
      rw [loadIfAny_mono_le hl hle]
      cases r₁ with
      | error e => exact h
      | ok s₁ => exact parseLoop_mono_le h hle

/-! ### the decidable form of the closure hypotheses (what the driver evaluates on the real tree) -/

theorem closedItems_sound {w : World} {U : List String} {items : List Item} (h : closedItems w U items = true) :
    ymlPaths items ⊆ U ∧ ∀ f ∈ coFiles items, ∀ ips, w.parse f = some ips → ips ⊆ U := by
  unfold closedItems at h
  simp only [Bool.and_eq_true, List.all_eq_true] at h
  refine ⟨fun x hx => by simpa using h.1 x hx, ?_⟩
  intro f hf ips hps x hx
  have := h.2 f hf
  rw [hps] at this
  simp only [List.all_eq_true] at this
  simpa using this x hx

theorem closedWorld_sound {w : World} {U : List String} {init : List Item} (h : closedWorld w U init = true) :
    YmlClosed w U ∧ CoClosed w U ∧ ymlPaths init ⊆ U ∧ ∀ f ∈ coFiles init, ∀ ips, w.parse f = some ips → ips ⊆ U := by
  unfold closedWorld at h
  simp only [Bool.and_eq_true, List.all_eq_true] at h
  obtain ⟨hi, hU⟩ := h
  have hi' := closedItems_sound hi
  refine ⟨?_, ?_, hi'.1, hi'.2⟩
  · intro p hp actual items hr
    have := hU p hp
    rw [hr] at this
    exact (closedItems_sound this).1
  · intro p hp actual items hr
    have := hU p hp
    rw [hr] at this
    exact (closedItems_sound this).2


/-! ### what has been loaded is closed: the fix-point really is one -/

/-- every imported path has brought in its `.yml` import paths and its `.co` files; every parsed file has contributed its imports -/
structure Cl (w : World) (s : St) : Prop where
  imp : ∀ p a, (p, a) ∈ s.imported → ∃ items, w.resolve p = some (a, items) ∧ ymlPaths items ⊆ s.importPaths ∧ coFiles items ⊆ s.files
  par : ∀ i f, i < s.parsed → s.files[i]? = some f → ∀ ips, w.parse f = some ips → ips ⊆ s.importPaths
  ple : s.parsed ≤ s.files.length

/-- a step of the import loops: closedness kept, both collections only grow, nothing is parsed -/
structure ClStep (w : World) (s s' : St) : Prop where
  cl : Cl w s'
  paths : s.importPaths ⊆ s'.importPaths
  files : ∃ t, s'.files = s.files ++ t
  parsed : s'.parsed = s.parsed

theorem ClStep.refl {w : World} {s : St} (h : Cl w s) : ClStep w s s := ⟨h, fun _ h => h, ⟨[], by simp⟩, rfl⟩

theorem ClStep.trans {w : World} {a b c : St} (h₁ : ClStep w a b) (h₂ : ClStep w b c) : ClStep w a c := by
  obtain ⟨t₁, e₁⟩ := h₁.files
  obtain ⟨t₂, e₂⟩ := h₂.files
  exact ⟨h₂.cl, fun x hx => h₂.paths (h₁.paths hx), ⟨t₁ ++ t₂, by rw [e₂, e₁, List.append_assoc]⟩, h₂.parsed.trans h₁.parsed⟩

theorem subset_joinPaths_left (d a : List String) : d ⊆ joinPaths d a := fun x hx => joinPaths_mem d a x (Or.inl hx)
theorem subset_joinPaths_right (d a : List String) : a ⊆ joinPaths d a := fun x hx => joinPaths_mem d a x (Or.inr hx)

theorem visit_cl {w : World} {s s' : St} {p : String} (hc : Cl w s) (hv : visit w s p = .ok s') : ClStep w s s' := by
  unfold visit at hv
  split at hv
  · injection hv with hv; subst hv; exact ClStep.refl hc
  · split at hv
    · cases hv
    · rename_i actual items hr
      injection hv with hv; subst hv
      refine ⟨⟨?_, ?_, ?_⟩, subset_joinPaths_left _ _, ⟨(loadPath items).2, rfl⟩, rfl⟩
      · intro q a hq
        simp only [List.mem_append, List.mem_singleton, Prod.mk.injEq] at hq
        rcases hq with hq | ⟨rfl, rfl⟩
        · obtain ⟨its, h₁, h₂, h₃⟩ := hc.imp q a hq
          exact ⟨its, h₁, fun x hx => subset_joinPaths_left _ _ (h₂ hx), fun x hx => List.mem_append_left _ (h₃ hx)⟩
        · refine ⟨items, hr, ?_, ?_⟩
          · intro x hx
            apply subset_joinPaths_right
            show x ∈ joinPaths [] (ymlPaths items)
            exact subset_joinPaths_right _ _ hx
          · intro x hx; exact List.mem_append_right _ hx
      · intro i f hi hf ips hps
        have hlt : i < s.files.length := Nat.lt_of_lt_of_le hi hc.ple
        have hf' : s.files[i]? = some f := by
          rw [← hf]; exact (List.getElem?_append_left hlt).symm
        exact fun x hx => subset_joinPaths_left _ _ (hc.par i f hi hf' ips hps hx)
      · show s.parsed ≤ (s.files ++ (loadPath items).2).length
        rw [List.length_append]; have := hc.ple; omega

theorem forLoop_cl {w : World} : ∀ (n i : Nat) (s s' : St), Cl w s → forLoop w n i s = some (.ok s') → ClStep w s s' := by
  intro n
  induction n with
  | zero => intro i s s' _ h; simp [forLoop] at h
  | succ n ih =>
    intro i s s' hc h
    unfold forLoop at h
    cases hg : s.importPaths[i]? with
    | none => rw [hg] at h; simp at h; subst h; exact ClStep.refl hc
    | some p =>
      rw [hg] at h; simp only at h
      cases hv : visit w s p with
      | error e => rw [hv] at h; simp at h
      | ok s₁ =>
        rw [hv] at h
        have e₁ := visit_cl hc hv
        exact e₁.trans (ih (i + 1) s₁ s' e₁.cl h)

theorem whileLoop_cl {w : World} : ∀ (n : Nat) (s s' : St), Cl w s → whileLoop w n s = some (.ok s') → ClStep w s s' := by
  intro n
  induction n with
  | zero => intro s s' _ h; simp [whileLoop] at h
  | succ n ih =>
    intro s s' hc h
    unfold whileLoop at h
    split at h
    · simp at h; subst h; exact ClStep.refl hc
    · cases hf : forLoop w n 0 s with
      | none => rw [hf] at h; simp at h
      | some r =>
        rw [hf] at h
        cases r with
        | error e => simp at h
        | ok s₁ =>
          have e₁ := forLoop_cl n 0 s s₁ hc hf
          exact e₁.trans (ih s₁ s' e₁.cl h)

theorem loadIfAny_cl {w : World} (n : Nat) (s s' : St) (hc : Cl w s) (h : loadIfAny w n s = some (.ok s')) : ClStep w s s' := by
  unfold loadIfAny at h
  split at h
  · simp at h; subst h; exact ClStep.refl hc
  · exact whileLoop_cl n s s' hc h

theorem parseLoop_cl {w : World} : ∀ (n : Nat) (s s' : St), Cl w s → parseLoop w n s = some (.ok s') →
    Cl w s' ∧ s.importPaths ⊆ s'.importPaths ∧ s.files ⊆ s'.files := by
  intro n
  induction n with
  | zero => intro s s' _ h; simp [parseLoop] at h
  | succ n ih =>
    intro s s' hc h
    unfold parseLoop at h
    split at h
    · simp at h; subst h; exact ⟨hc, fun _ h => h, fun _ h => h⟩
    · cases hg : s.files[s.parsed]? with
      | none => rw [hg] at h; simp at h
      | some f =>
        rw [hg] at h; simp only at h
        cases hp : w.parse f with
        | none => rw [hp] at h; simp at h
        | some ips =>
          rw [hp] at h; simp only at h
          have hlt : s.parsed < s.files.length := by
            rcases Nat.lt_or_ge s.parsed s.files.length with h' | h'
            · exact h'
            · rw [List.getElem?_eq_none h'] at hg; cases hg
          have hc₁ : Cl w { s with importPaths := joinPaths s.importPaths ips, parsed := s.parsed + 1 } := by
            refine ⟨?_, ?_, hlt⟩
            · intro q a hq
              obtain ⟨its, h₁, h₂, h₃⟩ := hc.imp q a hq
              exact ⟨its, h₁, fun x hx => subset_joinPaths_left _ _ (h₂ hx), h₃⟩
            · intro i g hi hgi ips' hps'
              rcases Nat.lt_or_ge i s.parsed with hlt' | hge
              · exact fun x hx => subset_joinPaths_left _ _ (hc.par i g hlt' hgi ips' hps' hx)
              · have hi' : i = s.parsed := by
                  have : i < s.parsed + 1 := hi
                  omega
                subst hi'
                have : g = f := by
                  have hgi' : s.files[s.parsed]? = some g := hgi
                  rw [hg] at hgi'; injection hgi' with e; exact e.symm
                subst this
                rw [hp] at hps'; injection hps' with e; subst e
                exact subset_joinPaths_right _ _
          cases hl : loadIfAny w n { s with importPaths := joinPaths s.importPaths ips, parsed := s.parsed + 1 } with
          | none => rw [hl] at h; simp at h
          | some r =>
            rw [hl] at h
            cases r with
            | error e => simp at h
            | ok s₂ =>
              simp only at h
              have e₂ := loadIfAny_cl n _ s₂ hc₁ hl
              obtain ⟨c₃, p₃, f₃⟩ := ih s₂ s' e₂.cl h
              obtain ⟨t, ht⟩ := e₂.files
              refine ⟨c₃, fun x hx => p₃ (e₂.paths (subset_joinPaths_left _ _ hx)), fun x hx => f₃ ?_⟩
              rw [ht]; exact List.mem_append_left _ hx

theorem initSt_cl (w : World) (items : List Item) : Cl w (initSt items) :=
  ⟨by intro p a h; simp [initSt] at h, by intro i f h; simp [initSt] at h, by simp [initSt]⟩

theorem fromPath_cl {w : World} (n : Nat) (items : List Item) (s' : St) (h : fromPath w n items = some (.ok s')) :
    Cl w s' ∧ ymlPaths items ⊆ s'.importPaths ∧ coFiles items ⊆ s'.files := by
  unfold fromPath at h
  cases hl : loadIfAny w n (initSt items) with
  | none => rw [hl] at h; simp at h
  | some r =>
    rw [hl] at h
    cases r with
    | error e => simp at h
    | ok s₁ =>
      simp only at h
      have e₁ := loadIfAny_cl n _ s₁ (initSt_cl w items) hl
      obtain ⟨c₂, p₂, f₂⟩ := parseLoop_cl n s₁ s' e₁.cl h
      obtain ⟨t, ht⟩ := e₁.files
      refine ⟨c₂, fun x hx => p₂ (e₁.paths ?_), fun x hx => f₂ ?_⟩
      · show x ∈ joinPaths [] (ymlPaths items); exact subset_joinPaths_right _ _ hx
      · rw [ht]; exact List.mem_append_left _ (by simpa [initSt, loadPath] using hx)

/-! ### a repeated import path: the loop cannot return -/

structure DupInv (s : St) : Prop where
  dup : ¬ s.importPaths.Nodup
  knodup : s.keys.Nodup
  ksub : s.keys ⊆ s.importPaths

theorem visit_dup {w : World} {s s' : St} {p : String} (hd : DupInv s) (hp : p ∈ s.importPaths) (hv : visit w s p = .ok s') :
    DupInv s' := by
  unfold visit at hv
  split at hv
  · injection hv with hv; subst hv; exact hd
  · rename_i hk
    split at hv
    · cases hv
    · rename_i actual items hr
      injection hv with hv; subst hv
      obtain ⟨t, ht⟩ := joinPaths_prefix s.importPaths (loadPath items).1
      refine ⟨joinPaths_not_nodup _ hd.dup, ?_, ?_⟩
      · simp only [St.keys, List.map_append, List.map_cons, List.map_nil]
        rw [List.nodup_append]
        refine ⟨hd.knodup, by simp, ?_⟩
        intro a ha b hb
        simp at hb; subst hb
        intro e; subst e; exact hk ha
      · intro x hx
        simp only [St.keys, List.map_append, List.map_cons, List.map_nil, List.mem_append, List.mem_singleton] at hx
        show x ∈ joinPaths s.importPaths (loadPath items).1
        rw [ht]
        rcases hx with hx | hx
        · exact List.mem_append_left _ (hd.ksub hx)
        · subst hx; exact List.mem_append_left _ hp

theorem forLoop_dup {w : World} : ∀ (n i : Nat) (s s' : St), DupInv s → forLoop w n i s = some (.ok s') → DupInv s' := by
  intro n
  induction n with
  | zero => intro i s s' _ h; simp [forLoop] at h
  | succ n ih =>
    intro i s s' hd h
    unfold forLoop at h
    cases hg : s.importPaths[i]? with
    | none => rw [hg] at h; simp at h; subst h; exact hd
    | some p =>
      rw [hg] at h; simp only at h
      cases hv : visit w s p with
      | error e => rw [hv] at h; simp at h
      | ok s₁ => rw [hv] at h; exact ih (i + 1) s₁ s' (visit_dup hd (List.mem_of_getElem? hg) hv) h

theorem whileLoop_dup {w : World} : ∀ (n : Nat) (s s' : St), DupInv s → whileLoop w n s ≠ some (.ok s') := by
  intro n
  induction n with
  | zero => intro s s' _ h; simp [whileLoop] at h
  | succ n ih =>
    intro s s' hd h
    unfold whileLoop at h
    have hlt := length_lt_of_dup hd.knodup hd.ksub hd.dup
    rw [keys_length] at hlt
    rw [if_neg (by omega)] at h
    cases hf : forLoop w n 0 s with
    | none => rw [hf] at h; simp at h
    | some r =>
      rw [hf] at h
      cases r with
      | error e => simp at h
      | ok s₁ => exact ih s₁ s' (forLoop_dup n 0 s s₁ hd hf) h

end NemoVerif.ImportLoop
