/-
  C16 phase 4 — the whole turn of the interpreter on the GENERATED llm_flows.co program, round by round of
  `generate_events` (`Runs` / `RunsTo` of Lemmas/RailsDrive.lean), for rail lists of any length.
-/
import NemoVerif.Lemmas.RailsDrive
namespace NemoVerif.RailsInterp
open NemoVerif.V1Interp

set_option linter.unusedSimpArgs false
set_option linter.unusedVariables false

/-! ### well-formed set-ups: rail names / actions identify the rail -/

def builtinActions : List String := ["create_event", "retrieve_relevant_chunks", "generate_bot_message", "generate_user_intent", "utter"]

structure Setup.WF (s : Setup) : Prop where
  names : ((s.input ++ s.output).map (·.name)).Nodup
  namesBase : ∀ r ∈ s.input ++ s.output, r.name ∉ base.map (·.id)
  actions : ((s.input ++ s.output).map (·.action)).Nodup
  actionsBuiltin : ∀ r ∈ s.input ++ s.output, r.action ∉ builtinActions

/-- the rail sub-flows of a set-up -/
def Setup.rails (s : Setup) : Cfgs := s.input.map (IRail.cfg "user_message") ++ s.output.map (IRail.cfg "bot_message")

theorem Setup.cfgs_eq (s : Setup) : s.cfgs base = base ++ s.rails := by
  simp [Setup.cfgs, Setup.rails, List.append_assoc]

theorem IRail.cfg_id (tv : String) (r : IRail) : (IRail.cfg tv r).id = r.name := by
  unfold IRail.cfg; cases r.kind <;> rfl
theorem IRail.cfg_sub (tv : String) (r : IRail) : (IRail.cfg tv r).isSubflow = true := by
  unfold IRail.cfg; cases r.kind <;> rfl

theorem Setup.rails_sub (s : Setup) : ∀ c ∈ s.rails, c.isSubflow = true := by
  intro c hc
  simp only [Setup.rails, List.mem_append, List.mem_map] at hc
  rcases hc with ⟨r, _, rfl⟩ | ⟨r, _, rfl⟩ <;> exact IRail.cfg_sub _ r

theorem find_in_list (tv : String) : ∀ (l : List IRail) (r : IRail), r ∈ l → (l.map (·.name)).Nodup →
    List.find? (fun c => c.id == r.name) (l.map (IRail.cfg tv)) = some (IRail.cfg tv r)
  | [], _, h, _ => by cases h
  | x :: xs, r, h, hn => by
    simp only [List.map, List.nodup_cons] at hn
    simp only [List.map, List.find?, IRail.cfg_id]
    by_cases hx : x.name = r.name
    · have : x = r := by
        rcases List.mem_cons.mp h with rfl | h'
        · rfl
        · exact absurd (List.mem_map.mpr ⟨r, h', hx.symm⟩) hn.1
      subst this; simp
    · have hb : (x.name == r.name) = false := beq_false_of_ne hx
      simp only [hb]
      rcases List.mem_cons.mp h with rfl | h'
      · exact absurd rfl hx
      · exact find_in_list tv xs r h' hn.2

theorem find_none_list (tv : String) (nm : String) : ∀ (l : List IRail), nm ∉ l.map (·.name) →
    List.find? (fun c => c.id == nm) (l.map (IRail.cfg tv)) = none
  | [], _ => rfl
  | x :: xs, h => by
    simp only [List.map, List.mem_cons, not_or] at h
    have hb : (x.name == nm) = false := beq_false_of_ne (Ne.symm h.1)
    simp only [List.map, List.find?, IRail.cfg_id, hb]
    exact find_none_list tv nm xs h.2

theorem find_base_none (nm : String) (h : nm ∉ base.map (·.id)) : List.find? (fun c => c.id == nm) base = none := by
  rw [List.find?_eq_none]
  intro c hc
  have : c.id ≠ nm := fun e => h (List.mem_map.mpr ⟨c, hc, e⟩)
  simpa using this

theorem Setup.WF.railOK_in {s : Setup} (h : s.WF) (r : IRail) (hr : r ∈ s.input) : RailOK s.rails r := by
  constructor
  · have hn := h.namesBase r (List.mem_append_left _ hr)
    have hnd : (s.input.map (·.name)).Nodup := by
      have := h.names; rw [List.map_append] at this; exact (List.nodup_append.mp this).1
    simp only [Cfgs.find, Setup.rails, List.find?_append, find_base_none _ hn, find_in_list "user_message" s.input r hr hnd]
    rfl
  · intro e
    exact h.actionsBuiltin r (List.mem_append_left _ hr) (by rw [e]; decide)

theorem Setup.WF.railOK_out {s : Setup} (h : s.WF) (r : IRail) (hr : r ∈ s.output) : RailOKO s.rails r := by
  constructor
  · have hn := h.namesBase r (List.mem_append_right _ hr)
    have hnames := h.names
    rw [List.map_append] at hnames
    obtain ⟨_, hnd, hdisj⟩ := List.nodup_append.mp hnames
    have hnot : r.name ∉ s.input.map (·.name) := by
      intro hin
      exact hdisj _ hin _ (List.mem_map.mpr ⟨r, hr, rfl⟩) rfl
    simp only [Cfgs.find, Setup.rails, List.find?_append, find_base_none _ hn, find_none_list "user_message" r.name s.input hnot,
      find_in_list "bot_message" s.output r hr hnd]
    rfl
  · intro e
    exact h.actionsBuiltin r (List.mem_append_right _ hr) (by rw [e]; decide)

/-! ### `findRail` on well-formed lists -/

theorem find_zipIdx (action : String) : ∀ (l : List IRail) (n k : Nat) (r : IRail), l[k]? = some r → r.action = action →
    (l.map (·.action)).Nodup → (l.zipIdx n).find? (fun p => p.1.action == action) = some (r, n + k)
  | [], _, _, _, h, _, _ => by simp at h
  | x :: xs, n, 0, r, h, ha, _ => by
    simp only [List.getElem?_cons_zero, Option.some.injEq] at h
    subst h
    simp [List.zipIdx_cons, List.find?, ha]
  | x :: xs, n, k + 1, r, h, ha, hn => by
    simp only [List.getElem?_cons_succ] at h
    simp only [List.map, List.nodup_cons] at hn
    have hx : x.action ≠ action := by
      intro e
      exact hn.1 (List.mem_map.mpr ⟨r, List.mem_of_getElem? h, by rw [ha, e]⟩)
    have hb : (x.action == action) = false := beq_false_of_ne hx
    simp only [List.zipIdx_cons, List.find?, hb]
    rw [find_zipIdx action xs (n + 1) k r h ha hn.2]
    congr 2; omega

theorem findRail_some (l : List IRail) (k : Nat) (r : IRail) (h : l[k]? = some r) (hn : (l.map (·.action)).Nodup) :
    findRail l r.action = some (k, r) := by
  unfold findRail
  rw [find_zipIdx r.action l 0 k r h rfl hn]
  simp

theorem findRail_none (l : List IRail) (a : String) (h : a ∉ l.map (·.action)) : findRail l a = none := by
  unfold findRail
  have : l.zipIdx.find? (fun p => p.1.action == a) = none := by
    rw [List.find?_eq_none]
    intro p hp
    have hm : p.1 ∈ l := by
      have := List.mem_zipIdx hp  -- may need adapting
      exact this.2.2 ▸ List.getElem_mem _
    have : p.1.action ≠ a := fun e => h (List.mem_map.mpr ⟨p.1, hm, e⟩)
    simpa using this
  rw [this]; rfl


theorem Setup.WF.not_builtin {s : Setup} (h : s.WF) (r : IRail) (hr : r ∈ s.input ++ s.output) :
    (r.action == "create_event") = false ∧ (r.action == "retrieve_relevant_chunks") = false ∧
    (r.action == "generate_bot_message") = false ∧ (r.action == "generate_user_intent") = false := by
  have hb := h.actionsBuiltin r hr
  simp only [builtinActions, List.mem_cons, List.mem_nil_iff, or_false, not_or] at hb
  exact ⟨beq_false_of_ne hb.1, beq_false_of_ne hb.2.1, beq_false_of_ne hb.2.2.1, beq_false_of_ne hb.2.2.2.1⟩

theorem actionEvents_in (s : Setup) (h : s.WF) (k : Nat) (r : IRail) (hk : s.input[k]? = some r) (σ : Ctx) (rk : String) :
    actionEvents s σ r.action "{}" (some rk) =
      some (resultEvents σ r.action [(rk, railResult r (strOf (σ.get "user_message")))],
            [Obs.railCall "input" k r.name (strOf (σ.get "user_message"))]) := by
  obtain ⟨b1, b2, b3, b4⟩ := h.not_builtin r (List.mem_append_left _ (List.mem_of_getElem? hk))
  have hnd : (s.input.map (·.action)).Nodup := by
    have := h.actions; rw [List.map_append] at this; exact (List.nodup_append.mp this).1
  simp only [actionEvents, b1, b2, b3, b4, Bool.false_eq_true, if_false, findRail_some s.input k r hk hnd]

theorem actionEvents_out (s : Setup) (h : s.WF) (k : Nat) (r : IRail) (hk : s.output[k]? = some r) (σ : Ctx) (rk : String) :
    actionEvents s σ r.action "{}" (some rk) =
      some (resultEvents σ r.action [(rk, railResult r (strOf (σ.get "bot_message")))],
            [Obs.railCall "output" k r.name (strOf (σ.get "bot_message"))]) := by
  have hr : r ∈ s.output := List.mem_of_getElem? hk
  obtain ⟨b1, b2, b3, b4⟩ := h.not_builtin r (List.mem_append_right _ hr)
  have hact := h.actions
  rw [List.map_append] at hact
  obtain ⟨_, hnd, hdisj⟩ := List.nodup_append.mp hact
  have hnot : r.action ∉ s.input.map (·.action) := by
    intro hin
    exact hdisj _ hin _ (List.mem_map.mpr ⟨r, hr, rfl⟩) rfl
  simp only [actionEvents, b1, b2, b3, b4, Bool.false_eq_true, if_false, findRail_none s.input r.action hnot,
    findRail_some s.output k r hk hnd]

/-! ### keys kept unchanged along a phase -/

def Keep (ks : List String) (σ σ' : Ctx) : Prop := ∀ k ∈ ks, σ'.get k = σ.get k

theorem Keep.refl (ks : List String) (σ : Ctx) : Keep ks σ σ := fun _ _ => rfl
theorem Keep.trans {ks : List String} {a b c : Ctx} (h1 : Keep ks a b) (h2 : Keep ks b c) : Keep ks a c :=
  fun k hk => (h2 k hk).trans (h1 k hk)
theorem Keep.withEvent {ks : List String} {a b : Ctx} (h : Keep ks a b) (ev : Event) (hp : ∀ k ∈ ks, plainFor ev k = true) :
    Keep ks a (b.withEvent ev) := fun k hk => (get_withEvent_plain b ev k (hp k hk)).trans (h k hk)
theorem Keep.set {ks : List String} {a b : Ctx} (h : Keep ks a b) (k' : String) (v : V) (hk' : k' ∉ ks) : Keep ks a (b.set k' v) := by
  intro k hk
  have hne : k ≠ k' := fun e => hk' (by rw [← e]; exact hk)
  rw [get_set, if_neg hne]
  exact h k hk

/-- the option / configuration keys: written by no flow and no event of a turn -/
def K8 : List String := ["generation_options", "generation_options.rails.input", "generation_options.rails.dialog",
  "generation_options.rails.retrieval", "generation_options.rails.output", "config.rails.input.flows", "config.rails.output.flows",
  "config.rails.retrieval.flows"]
/-- … plus what the input phase leaves alone -/
def K10 : List String := K8 ++ ["bot_message", "skip_output_rails"]

theorem forall_K10 (p : String → Prop) (h : p "generation_options" ∧ p "generation_options.rails.input" ∧ p "generation_options.rails.dialog" ∧
    p "generation_options.rails.retrieval" ∧ p "generation_options.rails.output" ∧ p "config.rails.input.flows" ∧ p "config.rails.output.flows" ∧
    p "config.rails.retrieval.flows" ∧ p "bot_message" ∧ p "skip_output_rails") : ∀ k ∈ K10, p k := by
  intro k hk
  simp only [K10, K8, List.cons_append, List.nil_append, List.mem_cons, List.mem_nil_iff, or_false] at hk
  obtain ⟨h1, h2, h3, h4, h5, h6, h7, h8, h9, h10⟩ := h
  rcases hk with rfl | rfl | rfl | rfl | rfl | rfl | rfl | rfl | rfl | rfl <;> assumption
theorem forall_K8 (p : String → Prop) (h : p "generation_options" ∧ p "generation_options.rails.input" ∧ p "generation_options.rails.dialog" ∧
    p "generation_options.rails.retrieval" ∧ p "generation_options.rails.output" ∧ p "config.rails.input.flows" ∧ p "config.rails.output.flows" ∧
    p "config.rails.retrieval.flows") : ∀ k ∈ K8, p k := by
  intro k hk
  simp only [K8, List.mem_cons, List.mem_nil_iff, or_false] at hk
  obtain ⟨h1, h2, h3, h4, h5, h6, h7, h8⟩ := h
  rcases hk with rfl | rfl | rfl | rfl | rfl | rfl | rfl | rfl <;> assumption

macro "keys_tac" : tactic => `(tactic| (apply forall_K10; refine ⟨?_, ?_, ?_, ?_, ?_, ?_, ?_, ?_, ?_, ?_⟩ <;> plain_tac))
macro "keys_tac8" : tactic => `(tactic| (apply forall_K8; refine ⟨?_, ?_, ?_, ?_, ?_, ?_, ?_, ?_⟩ <;> plain_tac))

example (n : String) (v : V) : ∀ k ∈ K10, plainFor (.other n [("flow_id", v)]) k = true := by keys_tac
example (n : String) : ∀ k ∈ K10, plainFor (.actionFinished n true) k = true := by keys_tac


/-! ### the input loop, round by round -/

def callState (σ : Ctx) (c u0 u1 : Nat) (r : IRail) : State :=
  { ctx := σ, flows := [{ uid := c, flowId := r.name, head := 0 }, fsRIRint u1 c, fsPUIint u0 u1],
    next := some { elem := Elem.runAction r.action none "{}" (some (resultKey r)), uid := c, prio := 10000 }, upd := [], ctr := c + 1 }

def retState (σ : Ctx) (k : Nat) (c u0 u1 uc : Nat) (r : IRail) : State :=
  { ctx := σ, flows := [{ uid := uc, flowId := r.name, head := (match r.kind with | .check _ => -2 | .rewrite _ => -1), status := .completed },
                        fsRIR u1 8, fsPUIint u0 u1],
    next := some { elem := createRailFinished, uid := u1, prio := 10000 }, upd := [("i", .int (k + 1))], ctr := c }

theorem roundA_events (s : Setup) (σ u : Ctx) (c u0 u1 : Nat) (hu : u.isEmpty = false) :
    roundEvents s (headState σ u c u0 u1) = some ([.contextUpdate u, .startAction, .actionFinished "create_event" true,
      .other "StartInputRail" [("flow_id", (σ.update u).get "triggered_input_rail")]], []) := by
  simp [roundEvents, stepDecision, headState, createStartRail, stepToEvent, roundPre, roundCtx, hu, actionEvents, createdEvent]

theorem roundA_replay (rails : Cfgs) (hsub : ∀ r ∈ rails, r.isSubflow = true) (σ u : Ctx) (c u0 u1 : Nat) (h01 : u0 < u1) (h1c : u1 < c)
    (names : List String) (k : Nat) (um al : V) (r : IRail) (v1 : V)
    (hF : Facts (σ.update u) k names um al) (hnm : names[k]? = some r.name) (hok : RailOK rails r) :
    replay true (base ++ rails) [.contextUpdate u, .startAction, .actionFinished "create_event" true, .other "StartInputRail" [("flow_id", v1)]]
      (headState σ u c u0 u1)
    = .ok (callState (((σ.update u).withEvent (.actionFinished "create_event" true)).withEvent (.other "StartInputRail" [("flow_id", v1)])) c u0 u1 r) := by
  simp only [headState]
  rw [replay_cons_ok _ _ _ _ _ (cns_ctx _ _ _) (by simp), replay_cons_ok _ _ _ _ _ (cns_start _ _) (by simp),
    replay_cons_ok _ _ _ _ _ (T_a4 rails hsub _ _ _ _ _ _) (by simp)]
  have hF1 := hF.withActFin "create_event" true
  rw [replay_cons_ok _ _ _ _ _ (T_b rails hsub _ _ c u0 u1 h01 h1c _ names k r.name r v1 hF1.1 hF1.2.1 hnm hok.1 rfl) (by simp)]
  rfl


theorem RailOK.not_utter {rails : Cfgs} {r : IRail} (h : RailOK rails r) : (r.action == "utter") = false := beq_false_of_ne h.2

theorem roundB_events (s : Setup) (hwf : s.WF) (k : Nat) (r : IRail) (hk : s.input[k]? = some r) (σ : Ctx) (c u0 u1 : Nat) :
    roundEvents s (callState σ c u0 u1 r) =
      some (.startAction :: resultEvents σ r.action [(resultKey r, railResult r (strOf (σ.get "user_message")))],
            [Obs.railCall "input" k r.name (strOf (σ.get "user_message"))]) := by
  have hne : r.action ≠ "utter" := (hwf.railOK_in r (List.mem_of_getElem? hk)).2
  simp [roundEvents, stepDecision, callState, stepToEvent, hne, roundPre, roundCtx, actionEvents_in s hwf k r hk]

theorem resultEvents_single (σ : Ctx) (name rk : String) (v : V) :
    resultEvents σ name [(rk, v)] = (if σ.get rk = v then [] else [Event.contextUpdate [(rk, v)]]) ++ [Event.actionFinished name true] := by
  unfold resultEvents
  by_cases h : σ.get rk = v <;> simp [h]

theorem Keep.setNot {ks : List String} {a b : Ctx} (h : Keep ks a b) (k' : String) (v : V) (hk' : (ks.contains k') = false) :
    Keep ks a (b.set k' v) := h.set k' v (by simpa using hk')

theorem roundB_pass_replay (rails : Cfgs) (hsub : ∀ r ∈ rails, r.isSubflow = true) (σ : Ctx) (c u0 u1 : Nat) (h01 : u0 < u1) (h1c : u1 < c)
    (names : List String) (k : Nat) (um al : V) (r : IRail) (hF : Facts σ k names um al) (hp : passes r um) (hok : RailOK rails r) :
    ∃ σ3, replay true (base ++ rails) (.startAction :: resultEvents σ r.action [(resultKey r, railResult r (strOf um))]) (callState σ c u0 u1 r)
        = .ok (retState σ3 k (c + 1) u0 u1 c r) ∧ Facts σ3 (k + 1) names (stepVals r um al).1 (stepVals r um al).2 ∧ Keep K10 σ σ3 := by
  obtain ⟨hfind, hact⟩ := hok
  have hne : Event.actionFinished r.action true ≠ .botIntent "stop" := by simp
  have kev : ∀ k ∈ K10, plainFor (Event.actionFinished r.action true) k = true := by keys_tac
  rw [resultEvents_single]
  -- the context after the (possible) result update, with the facts the pass gives
  have main : ∀ (σ2 : Ctx) (nx : Option NextStep) (u : Ctx), Facts σ2 k names (stepVals r um al).1 (stepVals r um al).2 → Keep K10 σ σ2 →
      ∃ σ3, replay true (base ++ rails) [.actionFinished r.action true]
          { ctx := σ2, flows := [{ uid := c, flowId := r.name, head := 0 }, fsRIRint u1 c, fsPUIint u0 u1], next := nx, upd := u, ctr := c + 1 }
        = .ok (retState σ3 k (c + 1) u0 u1 c r) ∧ Facts σ3 (k + 1) names (stepVals r um al).1 (stepVals r um al).2 ∧ Keep K10 σ σ3 := by
    intro σ2 nx u hF2 hK2
    have hpass' : match r.kind with | .check _ => σ2.get "allowed" = .bool true | .rewrite _ => True := by
      cases hk : r.kind with
      | check a => simp only []; rw [hF2.2.2.2]; simp [stepVals, hk]
      | rewrite f => trivial
    refine ⟨(σ2.withEvent (.actionFinished r.action true)).set "i" (.int ((k : Int) + 1)), ?_, ?_, ?_⟩
    · rw [replay_cons_ok _ _ _ _ _ (T_c rails hsub σ2 u (c + 1) u0 u1 c h01 h1c nx k r.name r hF2.1 hpass' hfind hact) hne]
      rfl
    · exact (hF2.withActFin _ _).setI (k + 1)
    · exact (hK2.withEvent _ kev).setNot _ _ (by decide)
  by_cases hch : σ.get (resultKey r) = railResult r (strOf um)
  · -- unchanged: no ContextUpdate
    simp only [hch, if_true, List.nil_append]
    have hF2 : Facts σ k names (stepVals r um al).1 (stepVals r um al).2 := by
      obtain ⟨g1, g2, g3, g4⟩ := hF
      cases hk : r.kind with
      | check a =>
        simp only [resultKey, hk, railResult] at hch
        simp only [passes, hk] at hp
        simp only [stepVals, hk]
        exact ⟨g1, g2, g3, by rw [hch, hp]⟩
      | rewrite f =>
        simp only [resultKey, hk, railResult] at hch
        simp only [stepVals, hk]
        exact ⟨g1, g2, hch, g4⟩
    obtain ⟨σ3, e, hF3, hK3⟩ := main σ _ [] hF2 (Keep.refl _ _)
    refine ⟨σ3, ?_, hF3, hK3⟩
    rw [replay_cons_ok _ _ _ _ _ (cns_start _ _) (by simp)]
    exact e
  · simp only [hch, if_false, List.cons_append, List.nil_append]
    have hF2 : Facts (σ.set (resultKey r) (railResult r (strOf um))) k names (stepVals r um al).1 (stepVals r um al).2 := by
      cases hk : r.kind with
      | check a =>
        simp only [passes, hk] at hp
        simp only [resultKey, hk, railResult, stepVals, hp]
        exact hF.setAllowed _
      | rewrite f =>
        simp only [resultKey, hk, railResult, stepVals]
        exact hF.setUM _
    have hK2 : Keep K10 σ (σ.set (resultKey r) (railResult r (strOf um))) := by
      apply (Keep.refl K10 σ).setNot
      cases hk : r.kind <;> simp [resultKey, hk] <;> decide
    obtain ⟨σ3, e, hF3, hK3⟩ := main _ none [] hF2 hK2
    refine ⟨σ3, ?_, hF3, hK3⟩
    rw [replay_cons_ok _ _ _ _ _ (cns_start _ _) (by simp), replay_cons_ok _ _ _ _ _ (cns_ctx _ _ _) (by simp)]
    exact e


theorem roundC_events (s : Setup) (σ : Ctx) (k c u0 u1 uc : Nat) (r : IRail) :
    roundEvents s (retState σ k c u0 u1 uc r) = some ([.contextUpdate [("i", .int (k + 1))], .startAction, .actionFinished "create_event" true,
      .other "InputRailFinished" [("flow_id", (σ.update [("i", .int (k + 1))]).get "triggered_input_rail")]], []) := by
  simp [roundEvents, stepDecision, retState, createRailFinished, stepToEvent, roundPre, roundCtx, actionEvents, createdEvent]

theorem roundC_prefix (rails : Cfgs) (hsub : ∀ r ∈ rails, r.isSubflow = true) (σ : Ctx) (k c u0 u1 uc : Nat) (r : IRail) (hok : RailOK rails r)
    (rest : List Event) :
    replay true (base ++ rails) ([.contextUpdate [("i", .int (k + 1))], .startAction, .actionFinished "create_event" true] ++ rest)
      (retState σ k c u0 u1 uc r)
    = replay true (base ++ rails) rest
        { ctx := (σ.set "i" (.int ((k : Int) + 1))).withEvent (.actionFinished "create_event" true), flows := [fsRIR u1 9, fsPUIint u0 u1],
          next := none, upd := [], ctr := c } := by
  simp only [List.cons_append, List.nil_append, retState]
  rw [replay_cons_ok _ _ _ _ _ (cns_ctx _ _ _) (by simp), replay_cons_ok _ _ _ _ _ (cns_start _ _) (by simp)]
  simp only [update_single]
  rw [replay_cons_ok _ _ _ _ _ (T_a8 rails hsub _ _ _ _ _ _ r.name _ _ hok.1 _) (by simp)]

theorem roundC_cont_replay (rails : Cfgs) (hsub : ∀ r ∈ rails, r.isSubflow = true) (σ : Ctx) (k c u0 u1 uc : Nat) (h01 : u0 < u1)
    (names : List String) (um al : V) (r : IRail) (hok : RailOK rails r) (v2 : V) (nm' : String)
    (hF : Facts σ (k + 1) names um al) (hnm' : names[k + 1]? = some nm') :
    ∃ σ', replay true (base ++ rails) [.contextUpdate [("i", .int (k + 1))], .startAction, .actionFinished "create_event" true,
          .other "InputRailFinished" [("flow_id", v2)]] (retState σ k c u0 u1 uc r)
        = .ok (headState σ' [("triggered_input_rail", .str nm')] c u0 u1) ∧
      Facts (σ'.update [("triggered_input_rail", .str nm')]) (k + 1) names um al ∧ Keep K10 σ (σ'.update [("triggered_input_rail", .str nm')]) := by
  have hFc : Facts ((σ.set "i" (.int ((k : Int) + 1))).withEvent (.actionFinished "create_event" true)) (k + 1) names um al :=
    (hF.setI (k + 1)).withActFin _ _
  have hKc : Keep K10 σ ((σ.set "i" (.int ((k : Int) + 1))).withEvent (.actionFinished "create_event" true)) :=
    ((Keep.refl K10 σ).setNot _ _ (by decide)).withEvent _ (by keys_tac)
  have kev : ∀ k ∈ K10, plainFor (Event.other "InputRailFinished" [("flow_id", v2)]) k = true := by keys_tac
  refine ⟨((((σ.set "i" (.int ((k : Int) + 1))).withEvent (.actionFinished "create_event" true)).withEvent
      (.other "InputRailFinished" [("flow_id", v2)])).set "triggered_input_rail" .none).set "triggered_input_rail" (.str nm'), ?_, ?_, ?_⟩
  · have := roundC_prefix rails hsub σ k c u0 u1 uc r hok [.other "InputRailFinished" [("flow_id", v2)]]
    simp only [List.cons_append, List.nil_append] at this
    rw [this, replay_cons_ok _ _ _ _ _ (T_d_cont rails hsub _ _ c u0 u1 h01 _ names (k + 1) nm' v2 (by exact_mod_cast hFc.1) hFc.2.1 hnm') (by simp)]
    rfl
  · rw [update_single]
    exact (((hFc.withMarker _ _ (by decide) (by decide)).setOther _ _ (by decide)).setOther _ _ (by decide)).setOther _ _ (by decide)
  · rw [update_single]
    exact (((hKc.withEvent _ kev).setNot _ _ (by decide)).setNot _ _ (by decide)).setNot _ _ (by decide)

theorem roundC_exit_replay (rails : Cfgs) (hsub : ∀ r ∈ rails, r.isSubflow = true) (σ : Ctx) (k c u0 u1 uc : Nat) (h01 : u0 < u1)
    (names : List String) (um al : V) (r : IRail) (hok : RailOK rails r) (v2 : V)
    (hF : Facts σ (k + 1) names um al) (hlen : k + 1 = names.length) :
    ∃ σ', replay true (base ++ rails) [.contextUpdate [("i", .int (k + 1))], .startAction, .actionFinished "create_event" true,
          .other "InputRailFinished" [("flow_id", v2)]] (retState σ k c u0 u1 uc r)
        = .ok (exitState σ' c u0 u1) ∧ Facts σ' (k + 1) names um al ∧ Keep K10 σ σ' := by
  have hFc : Facts ((σ.set "i" (.int ((k : Int) + 1))).withEvent (.actionFinished "create_event" true)) (k + 1) names um al :=
    (hF.setI (k + 1)).withActFin _ _
  have hKc : Keep K10 σ ((σ.set "i" (.int ((k : Int) + 1))).withEvent (.actionFinished "create_event" true)) :=
    ((Keep.refl K10 σ).setNot _ _ (by decide)).withEvent _ (by keys_tac)
  have kev : ∀ k ∈ K10, plainFor (Event.other "InputRailFinished" [("flow_id", v2)]) k = true := by keys_tac
  refine ⟨(((σ.set "i" (.int ((k : Int) + 1))).withEvent (.actionFinished "create_event" true)).withEvent
      (.other "InputRailFinished" [("flow_id", v2)])).set "triggered_input_rail" .none, ?_, ?_, ?_⟩
  · have := roundC_prefix rails hsub σ k c u0 u1 uc r hok [.other "InputRailFinished" [("flow_id", v2)]]
    simp only [List.cons_append, List.nil_append] at this
    rw [this, replay_cons_ok _ _ _ _ _ (T_d_exit rails hsub _ _ c u0 u1 h01 _ names v2 (by rw [← hlen]; exact_mod_cast hFc.1) hFc.2.1) (by simp)]
    rfl
  · exact (hFc.withMarker _ _ (by decide) (by decide)).setOther _ _ (by decide)
  · exact (hKc.withEvent _ kev).setNot _ _ (by decide)


/-! ### side conditions of a round, by evaluation -/

def noHideB (es : List Event) : Bool := es.all fun e => match e with | .hidePrevTurn => false | _ => true

theorem noHide_of_B (es : List Event) (h : noHideB es = true) : NoHide es := by
  intro e he
  have := List.all_eq_true.mp h e he
  intro e'; subst e'; simp at this

theorem noHide_result (σ : Ctx) (name : String) (upd : Ctx) : NoHide (.startAction :: resultEvents σ name upd) := by
  apply noHide_of_B
  unfold resultEvents
  by_cases h : upd.any (fun kv => σ.get kv.1 != kv.2) = true <;> simp [h, noHideB]

theorem isStop_result (σ : Ctx) (name : String) (upd : Ctx) : isStop (.startAction :: resultEvents σ name upd) = false := by
  unfold resultEvents isStop
  by_cases h : upd.any (fun kv => σ.get kv.1 != kv.2) = true <;> simp [h]

theorem decisions_ne_of_act (st : State) (n : NextStep) (name : String) (v : Option String) (params : String) (rk : Option String)
    (h : st.next = some n) (he : n.elem = Elem.runAction name v params rk) (hv : name = "utter" → v.isSome = true) : decisionsOf st ≠ [] := by
  rw [decisionsOf_eq]
  have : (stepDecision st).isSome = true := by
    simp only [stepDecision, h, Option.bind, he, stepToEvent]
    by_cases hn : name = "utter"
    · have := hv hn
      cases v with
      | none => simp at this
      | some x => simp [hn]
    · simp [hn]
  cases hs : stepDecision st with
  | none => rw [hs] at this; simp at this
  | some d => simp

/-- one iteration of the input loop for a passing rail when another rail follows -/
theorem iter_cont_runs (s : Setup) (hwf : s.WF) (u0 u1 : Nat) (h01 : u0 < u1) (σ u : Ctx) (c : Nat) (hu : u.isEmpty = false) (h1c : u1 < c)
    (k : Nat) (um al : V) (r : IRail) (nm' : String) (hk : s.input[k]? = some r) (hnm' : (s.input.map (·.name))[k + 1]? = some nm')
    (hF : Facts (σ.update u) k (s.input.map (·.name)) um al) (hp : passes r um) :
    ∃ σ', RunsTo s (base ++ s.rails) (headState σ u c u0 u1) [Obs.railCall "input" k r.name (strOf um)]
        (headState σ' [("triggered_input_rail", .str nm')] (c + 1) u0 u1) ∧
      Facts (σ'.update [("triggered_input_rail", .str nm')]) (k + 1) (s.input.map (·.name)) (stepVals r um al).1 (stepVals r um al).2 ∧
      Keep K10 (σ.update u) (σ'.update [("triggered_input_rail", .str nm')]) := by
  have hok := hwf.railOK_in r (List.mem_of_getElem? hk)
  have hnm : (s.input.map (·.name))[k]? = some r.name := by simp [List.getElem?_map, hk]
  have hsub := s.rails_sub
  -- round A
  have eA := roundA_events s σ u c u0 u1 hu
  have rA := roundA_replay s.rails hsub σ u c u0 u1 h01 h1c _ k um al r ((σ.update u).get "triggered_input_rail") hF hnm hok
  have hF2 : Facts (((σ.update u).withEvent (.actionFinished "create_event" true)).withEvent
      (.other "StartInputRail" [("flow_id", (σ.update u).get "triggered_input_rail")])) k (s.input.map (·.name)) um al :=
    (hF.withActFin _ _).withMarker _ _ (by decide) (by decide)
  have hK2 : Keep K10 (σ.update u) (((σ.update u).withEvent (.actionFinished "create_event" true)).withEvent
      (.other "StartInputRail" [("flow_id", (σ.update u).get "triggered_input_rail")])) :=
    ((Keep.refl K10 _).withEvent _ (by keys_tac)).withEvent _ (by keys_tac)
  have RA := RunsTo.one (s := s) (cfgs := base ++ s.rails) _ _ _ _ eA
    (decisions_ne_of_act _ _ _ _ _ _ rfl rfl (by simp [createStartRail])) (noHide_of_B _ rfl) (by simp [isStop]) (by simp) rA
  -- round B
  have eB := roundB_events s hwf k r hk (((σ.update u).withEvent (.actionFinished "create_event" true)).withEvent
      (.other "StartInputRail" [("flow_id", (σ.update u).get "triggered_input_rail")])) c u0 u1
  rw [hF2.2.2.1] at eB
  obtain ⟨σ3, rB, hF3, hK3⟩ := roundB_pass_replay s.rails hsub _ c u0 u1 h01 h1c _ k um al r hF2 hp hok
  have RB := RunsTo.one (s := s) (cfgs := base ++ s.rails) _ _ _ _ eB
    (decisions_ne_of_act _ _ _ _ _ _ rfl rfl (fun e => absurd e hok.2)) (noHide_result _ _ _) (isStop_result _ _ _) (by simp) rB
  -- round C
  have eC := roundC_events s σ3 k (c + 1) u0 u1 c r
  obtain ⟨σ', rC, hF', hK'⟩ := roundC_cont_replay s.rails hsub σ3 k (c + 1) u0 u1 c h01 _ _ _ r hok
    ((σ3.update [("i", .int (k + 1))]).get "triggered_input_rail") nm' hF3 hnm'
  have RC := RunsTo.one (s := s) (cfgs := base ++ s.rails) _ _ _ _ eC
    (decisions_ne_of_act _ _ _ _ _ _ rfl rfl (by simp [createRailFinished])) (noHide_of_B _ rfl) (by simp [isStop]) (by simp) rC
  exact ⟨σ', by simpa using (RA.trans RB).trans RC, hF', (hK2.trans hK3).trans hK'⟩

/-- the last iteration of the input loop for a passing rail -/
theorem iter_exit_runs (s : Setup) (hwf : s.WF) (u0 u1 : Nat) (h01 : u0 < u1) (σ u : Ctx) (c : Nat) (hu : u.isEmpty = false) (h1c : u1 < c)
    (k : Nat) (um al : V) (r : IRail) (hk : s.input[k]? = some r) (hlen : k + 1 = s.input.length)
    (hF : Facts (σ.update u) k (s.input.map (·.name)) um al) (hp : passes r um) :
    ∃ σ', RunsTo s (base ++ s.rails) (headState σ u c u0 u1) [Obs.railCall "input" k r.name (strOf um)] (exitState σ' (c + 1) u0 u1) ∧
      Facts σ' (k + 1) (s.input.map (·.name)) (stepVals r um al).1 (stepVals r um al).2 ∧ Keep K10 (σ.update u) σ' := by
  have hok := hwf.railOK_in r (List.mem_of_getElem? hk)
  have hnm : (s.input.map (·.name))[k]? = some r.name := by simp [List.getElem?_map, hk]
  have hsub := s.rails_sub
  have eA := roundA_events s σ u c u0 u1 hu
  have rA := roundA_replay s.rails hsub σ u c u0 u1 h01 h1c _ k um al r ((σ.update u).get "triggered_input_rail") hF hnm hok
  have hF2 : Facts (((σ.update u).withEvent (.actionFinished "create_event" true)).withEvent
      (.other "StartInputRail" [("flow_id", (σ.update u).get "triggered_input_rail")])) k (s.input.map (·.name)) um al :=
    (hF.withActFin _ _).withMarker _ _ (by decide) (by decide)
  have hK2 : Keep K10 (σ.update u) (((σ.update u).withEvent (.actionFinished "create_event" true)).withEvent
      (.other "StartInputRail" [("flow_id", (σ.update u).get "triggered_input_rail")])) :=
    ((Keep.refl K10 _).withEvent _ (by keys_tac)).withEvent _ (by keys_tac)
  have RA := RunsTo.one (s := s) (cfgs := base ++ s.rails) _ _ _ _ eA
    (decisions_ne_of_act _ _ _ _ _ _ rfl rfl (by simp [createStartRail])) (noHide_of_B _ rfl) (by simp [isStop]) (by simp) rA
  have eB := roundB_events s hwf k r hk (((σ.update u).withEvent (.actionFinished "create_event" true)).withEvent
      (.other "StartInputRail" [("flow_id", (σ.update u).get "triggered_input_rail")])) c u0 u1
  rw [hF2.2.2.1] at eB
  obtain ⟨σ3, rB, hF3, hK3⟩ := roundB_pass_replay s.rails hsub _ c u0 u1 h01 h1c _ k um al r hF2 hp hok
  have RB := RunsTo.one (s := s) (cfgs := base ++ s.rails) _ _ _ _ eB
    (decisions_ne_of_act _ _ _ _ _ _ rfl rfl (fun e => absurd e hok.2)) (noHide_result _ _ _) (isStop_result _ _ _) (by simp) rB
  have eC := roundC_events s σ3 k (c + 1) u0 u1 c r
  obtain ⟨σ', rC, hF', hK'⟩ := roundC_exit_replay s.rails hsub σ3 k (c + 1) u0 u1 c h01 _ _ _ r hok
    ((σ3.update [("i", .int (k + 1))]).get "triggered_input_rail") hF3 (by simpa using hlen)
  have RC := RunsTo.one (s := s) (cfgs := base ++ s.rails) _ _ _ _ eC
    (decisions_ne_of_act _ _ _ _ _ _ rfl rfl (by simp [createRailFinished])) (noHide_of_B _ rfl) (by simp [isStop]) (by simp) rC
  exact ⟨σ', by simpa using (RA.trans RB).trans RC, hF', (hK2.trans hK3).trans hK'⟩


/-- the rail calls of a run of passing rails, with the text each one sees -/
def railObs (cat : String) : Nat → List IRail → V → V → List Obs
  | _, [], _, _ => []
  | k, r :: rs, um, al => Obs.railCall cat k r.name (strOf um) :: railObs cat (k + 1) rs (stepVals r um al).1 (stepVals r um al).2

def AllPassA : List IRail → V → V → Prop
  | [], _, _ => True
  | r :: rs, um, al => passes r um ∧ AllPassA rs (stepVals r um al).1 (stepVals r um al).2

theorem drop_cons_get {α : Type} (l : List α) (k : Nat) (a : α) (t : List α) (h : l.drop k = a :: t) : l[k]? = some a ∧ l.drop (k + 1) = t := by
  constructor
  · have := congrArg List.head? h
    simpa [List.head?_drop] using this
  · have := congrArg List.tail h
    simpa [List.tail_drop] using this

/-- **a run of passing input rails followed by at least one more rail**: from the loop head at index `k` to the loop head at
    index `k + |pre|`, executing exactly the actions of `pre` in order, each on the text its predecessors left -/
theorem input_prefix_runs (s : Setup) (hwf : s.WF) (u0 u1 : Nat) (h01 : u0 < u1) :
    ∀ (pre : List IRail) (k : Nat) (σ u : Ctx) (c : Nat) (um al : V) (r' : IRail) (rest' : List IRail),
      s.input.drop k = pre ++ r' :: rest' → AllPassA pre um al → u.isEmpty = false → u1 < c →
      Facts (σ.update u) k (s.input.map (·.name)) um al →
      ∃ σ' u' c', u'.isEmpty = false ∧ u1 < c' ∧
        RunsTo s (base ++ s.rails) (headState σ u c u0 u1) (railObs "input" k pre um al) (headState σ' u' c' u0 u1) ∧
        Facts (σ'.update u') (k + pre.length) (s.input.map (·.name)) (finalVals pre um al).1 (finalVals pre um al).2 ∧
        Keep K10 (σ.update u) (σ'.update u')
  | [], k, σ, u, c, um, al, r', rest', _, _, hu, h1c, hF =>
    ⟨σ, u, c, hu, h1c, .refl _, by simpa [finalVals] using hF, Keep.refl _ _⟩
  | r :: pre, k, σ, u, c, um, al, r', rest', hdrop, hpass, hu, h1c, hF => by
    obtain ⟨hk, hdrop'⟩ := drop_cons_get s.input k r (pre ++ r' :: rest') (by simpa using hdrop)
    -- the name of the next rail
    obtain ⟨nm', hnm'⟩ : ∃ nm', (s.input.map (·.name))[k + 1]? = some nm' := by
      cases pre with
      | nil =>
        obtain ⟨h1, _⟩ := drop_cons_get s.input (k + 1) r' rest' (by simpa using hdrop')
        exact ⟨r'.name, by simp [List.getElem?_map, h1]⟩
      | cons p ps =>
        obtain ⟨h1, _⟩ := drop_cons_get s.input (k + 1) p (ps ++ r' :: rest') (by simpa using hdrop')
        exact ⟨p.name, by simp [List.getElem?_map, h1]⟩
    obtain ⟨σ1, R1, hF1, hK1⟩ := iter_cont_runs s hwf u0 u1 h01 σ u c hu h1c k um al r nm' hk hnm' hF hpass.1
    obtain ⟨σ', u', c', hu', hc', R2, hF2, hK2⟩ := input_prefix_runs s hwf u0 u1 h01 pre (k + 1) σ1 [("triggered_input_rail", .str nm')] (c + 1)
      _ _ r' rest' hdrop' hpass.2 rfl (by omega) hF1
    refine ⟨σ', u', c', hu', hc', ?_, ?_, hK1.trans hK2⟩
    · have := R1.trans R2
      simpa [railObs] using this
    · have e : k + (r :: pre).length = k + 1 + pre.length := by simp; omega
      rw [e]; simpa [finalVals] using hF2

/-- **the whole input loop when every rail lets the message pass** (drive level): from the head of the loop at index 0 the
    driver executes exactly the rail actions in order and arrives at the exit state -/
theorem input_loop_runs (s : Setup) (hwf : s.WF) (u0 u1 : Nat) (h01 : u0 < u1) (σ u : Ctx) (c : Nat) (um al : V)
    (hne : s.input ≠ []) (hpass : AllPassA s.input um al) (hu : u.isEmpty = false) (h1c : u1 < c)
    (hF : Facts (σ.update u) 0 (s.input.map (·.name)) um al) :
    ∃ σ' c', RunsTo s (base ++ s.rails) (headState σ u c u0 u1) (railObs "input" 0 s.input um al) (exitState σ' c' u0 u1) ∧
      Facts σ' s.input.length (s.input.map (·.name)) (finalVals s.input um al).1 (finalVals s.input um al).2 ∧ Keep K10 (σ.update u) σ' ∧ u1 < c' := by
  -- split off the last rail
  obtain ⟨pre, last, hsplit⟩ : ∃ pre last, s.input = pre ++ [last] := ⟨s.input.dropLast, s.input.getLast hne, (List.dropLast_concat_getLast hne).symm⟩
  have allsplit : ∀ (l : List IRail) (um al : V), AllPassA (l ++ [last]) um al → AllPassA l um al ∧ passes last (finalVals l um al).1 := by
    intro l
    induction l with
    | nil => intro um al h; exact ⟨trivial, h.1⟩
    | cons x xs ih => intro um al h; obtain ⟨h1, h2⟩ := ih _ _ h.2; exact ⟨⟨h.1, h1⟩, h2⟩
  have obssplit : ∀ (l : List IRail) (k : Nat) (um al : V), railObs "input" k (l ++ [last]) um al =
      railObs "input" k l um al ++ [Obs.railCall "input" (k + l.length) last.name (strOf (finalVals l um al).1)] := by
    intro l
    induction l with
    | nil => intro k um al; simp [railObs, finalVals]
    | cons x xs ih => intro k um al; simp [railObs, finalVals, ih]; omega
  have finsplit : ∀ (l : List IRail) (um al : V), finalVals (l ++ [last]) um al = (stepVals last (finalVals l um al).1 (finalVals l um al).2) := by
    intro l
    induction l with
    | nil => intro um al; simp [finalVals]
    | cons x xs ih => intro um al; simp [finalVals, ih]
  rw [hsplit] at hpass
  obtain ⟨hp1, hp2⟩ := allsplit pre um al hpass
  obtain ⟨σ1, u1', c1, hu1, hc1, R1, hF1, hK1⟩ := input_prefix_runs s hwf u0 u1 h01 pre 0 σ u c um al last [] (by simp [hsplit]) hp1 hu h1c hF
  have hk : s.input[0 + pre.length]? = some last := by rw [hsplit]; simp
  have hlen : 0 + pre.length + 1 = s.input.length := by rw [hsplit]; simp
  obtain ⟨σ', R2, hF2, hK2⟩ := iter_exit_runs s hwf u0 u1 h01 σ1 u1' c1 hu1 hc1 (0 + pre.length) _ _ last hk hlen hF1 hp2
  refine ⟨σ', c1 + 1, ?_, ?_, hK1.trans hK2, by omega⟩
  · have := R1.trans R2
    rw [hsplit, obssplit]; exact this
  · rw [← hlen]
    have e : finalVals s.input um al = stepVals last (finalVals pre um al).1 (finalVals pre um al).2 := by rw [hsplit, finsplit]
    rw [e]; exact hF2


/-! ### which flows of the generated program start on an event -/

theorem startOne_sub (cfgs : Cfgs) (ev : Event) (ns : State) (cfg : FlowCfg) (h : cfg.isSubflow = true) : startOne true cfgs ev ns cfg = .ok ns := by
  simp [startOne, h]

/-- a flow whose first element waits (does not slide) and does not match the event does not start -/
theorem startOne_nomatch (cfgs : Cfgs) (ev : Event) (ns : State) (cfg : FlowCfg) (el : Elem) (rest : List Elem)
    (he : cfg.elems = el :: rest) (hs : sstep (el :: rest) ⟨ns.ctx, ns.upd⟩ 0 = .stop) (hm : isMatch el ev = false) :
    startOne true cfgs ev ns cfg = .ok ns := by
  unfold startOne
  split
  · rfl
  · split
    · rfl
    · have h0 : ¬ ((0 : Int) = (rest.length : Int) + 1) := by omega
      simp [he, SLIDE_FUEL, slide, hs, pyIndex, hm, h0]

theorem startNew_base_eq (cfgs : Cfgs) (ev : Event) (ns : State) :
    startNew true cfgs ev base ns =
      (match startOne true cfgs ev ns puiCfg with
       | .error e => .error e
       | .ok ns => match startOne true cfgs ev ns rdrCfg with
         | .error e => .error e
         | .ok ns => match startOne true cfgs ev ns gnsCfg with
           | .error e => .error e
           | .ok ns => match startOne true cfgs ev ns gbmCfg with
             | .error e => .error e
             | .ok ns => startOne true cfgs ev ns pbmCfg) := by
  rw [base_eq]
  simp only [startNew]
  cases startOne true cfgs ev ns puiCfg with
  | error e => rfl
  | ok ns1 =>
    simp only []
    cases startOne true cfgs ev ns1 rdrCfg with
    | error e => rfl
    | ok ns2 =>
      simp only [startOne_sub _ _ _ guiCfg gui_flags.2.2.2.1, startOne_sub _ _ _ rirCfg rir_flags.2.2.2.1]
      cases startOne true cfgs ev ns2 gnsCfg with
      | error e => rfl
      | ok ns3 =>
        simp only []
        cases startOne true cfgs ev ns3 gbmCfg with
        | error e => rfl
        | ok ns4 =>
          simp only [startOne_sub _ _ _ rorCfg ror_flags.2.2.2.1, startOne_sub _ _ _ rrrCfg rrr_flags.1]
          cases startOne true cfgs ev ns4 pbmCfg <;> rfl

theorem startNew_rails (rails : Cfgs) (hsub : ∀ r ∈ rails, r.isSubflow = true) (ev : Event) (ns : State) :
    startNew true (base ++ rails) ev (base ++ rails) ns =
      (match startNew true (base ++ rails) ev base ns with | .ok ns' => .ok ns' | .error e => .error e) := by
  rw [startNew_append]
  cases startNew true (base ++ rails) ev base ns with
  | error e => rfl
  | ok ns' => exact startNew_subflows _ ev rails ns' hsub


def el0pui : Elem := Elem.event "UtteranceUserActionFinished" [("final_transcript", (V.str "..."))]
def el0rdr : Elem := Elem.event "UserMessage" [("text", (V.str "..."))]
def el0gns : Elem := Elem.userIntent "..."
def el0gbm : Elem := Elem.runAction "utter" (some "...") "" none
def el0pbm : Elem := Elem.event "BotMessage" []

theorem startOne_pui_no (cfgs : Cfgs) (ev : Event) (ns : State) (h : isMatch el0pui ev = false) : startOne true cfgs ev ns puiCfg = .ok ns :=
  startOne_nomatch cfgs ev ns puiCfg _ _ pui_elems rfl h
theorem startOne_rdr_no (cfgs : Cfgs) (ev : Event) (ns : State) (h : isMatch el0rdr ev = false) : startOne true cfgs ev ns rdrCfg = .ok ns :=
  startOne_nomatch cfgs ev ns rdrCfg _ _ rdr_elems rfl h
theorem startOne_gns_no (cfgs : Cfgs) (ev : Event) (ns : State) (h : isMatch el0gns ev = false) : startOne true cfgs ev ns gnsCfg = .ok ns :=
  startOne_nomatch cfgs ev ns gnsCfg _ _ gns_elems rfl h
theorem startOne_gbm_no (cfgs : Cfgs) (ev : Event) (ns : State) (h : isMatch el0gbm ev = false) : startOne true cfgs ev ns gbmCfg = .ok ns :=
  startOne_nomatch cfgs ev ns gbmCfg _ _ gbm_elems rfl h
theorem startOne_pbm_no (cfgs : Cfgs) (ev : Event) (ns : State) (h : isMatch el0pbm ev = false) : startOne true cfgs ev ns pbmCfg = .ok ns :=
  startOne_nomatch cfgs ev ns pbmCfg _ _ pbm_elems rfl h

end NemoVerif.RailsInterp
