/-
  C09 / CoreVM — `no_stopping_at_exit`, third part: one iteration of `_advance_head_front` restores "only `A` is STOPPING",
  and so does the function (induction on the fuel, nested calls included).
  Intermediate assertions of the iteration: `r1Inv` (after `slide` and the nested advance), `r1ix` (the same, with the
  index component pinned, through the operation-free part of the second try block), `P2` (what that block hands over).
-/
import NemoVerif.Lemmas.CoreVMStopAdv
open NemoVerif NemoVerif.CoreIndex
open Std.Do
set_option mvcgen.warning false
namespace NemoVerif.CoreVM


def forInA (l : List Key) (init : List Key) (f : Key → List Key → M (ForInStep (List Key))) : M (List Key) := forIn l init f
theorem forIn_eq_forInA (l : List Key) (init : List Key) (f : Key → List Key → M (ForInStep (List Key))) : forIn l init f = forInA l init f := rfl

/-- loop rule for the outer loop of `_advance_head_front`: the error condition may depend on the element -/
theorem forInA_inv (Inv : VM → Prop) (E : Key → VM → Prop) (l : List Key) (init : List Key) (f : Key → List Key → M (ForInStep (List Key)))
    (hf : ∀ a b, ⦃fun s => ⌜Inv s⌝⦄ f a b ⦃post⟨fun _ s => ⌜Inv s⌝, fun _ s => ⌜E a s⌝⟩⦄) :
    ⦃fun s => ⌜Inv s⌝⦄ forInA l init f ⦃post⟨fun _ s => ⌜Inv s⌝, fun _ s => ⌜∃ a ∈ l, E a s⌝⟩⦄ := by
  have key : ∀ (l : List Key) (init : List Key) (s : VM), Inv s →
      (∀ r s', forIn l init f s = .ok r s' → Inv s') ∧ (∀ e s', forIn l init f s = .error e s' → ∃ a ∈ l, E a s') := by
    intro l
    induction l with
    | nil =>
      intro init s hs
      constructor
      · intro r s' heq; cases heq; exact hs
      · intro e s' heq; cases heq
    | cons a rest ih =>
      intro init s hs
      have hfa := fn_of_triple (hf a init)
      rw [List.forIn_cons]
      cases hst : f a init s with
      | error e1 s1 =>
        constructor
        · intro r s' heq; rw [bind_eval_err hst] at heq; cases heq
        · intro e s' heq; rw [bind_eval_err hst] at heq; cases heq
          exact ⟨a, List.mem_cons_self, hfa.2 s _ _ hs hst⟩
      | ok r1 s1 =>
        have h1 := hfa.1 s r1 s1 hs hst
        cases r1 with
        | done b =>
          constructor
          · intro r s' heq; rw [bind_eval_ok hst] at heq; cases heq; exact h1
          · intro e s' heq; rw [bind_eval_ok hst] at heq; cases heq
        | yield b =>
          constructor
          · intro r s' heq; rw [bind_eval_ok hst] at heq; exact (ih b s1 h1).1 r s' heq
          · intro e s' heq; rw [bind_eval_ok hst] at heq
            obtain ⟨x, hx, hE⟩ := (ih b s1 h1).2 e s' heq
            exact ⟨x, List.mem_cons_of_mem _ hx, hE⟩
  apply triple_of_fn
  · intro s r s' hs heq; exact (key l init s hs).1 r s' heq
  · intro s e s' hs heq; exact (key l init s hs).2 e s' heq


/-! ### intermediate assertions of one iteration of `_advance_head_front` -/

/-- after `slide` (and the nested advance): the configuration of `f` is `cfg`, and `QS` -/
def r1Inv (A : List FUid) (f : FUid) (h : HUid) (cfg : FlowCfg) : StInv where
  J s := (cfgInv f cfg).J s ∧ QS A f h cfg.elements.size s
  okOp _ := False
  frame := fun s g hh hg => ⟨(cfgInv f cfg).frame s g hh.1 hg, hh.2⟩
  step := fun _ _ _ _ hh => hh.elim

theorem r1Inv_stopSub {A f h cfg s} (hh : (r1Inv A f h cfg).J s) : StopSub (f :: A) s.ixs.ix.insts := by
  rcases hh.2 with h1 | h1
  · exact stopSub_mono h1 (fun _ ha => List.mem_cons_of_mem _ ha)
  · exact h1.1

/-- in a `QS` state: an instance found under `f` that is not STOPPING means that only `A` is STOPPING -/
theorem r1Inv_left {A f h cfg s i} (hh : (r1Inv A f h cfg).J s) (hi : findInst s.ixs.ix f = some i) (hs : i.status ≠ .stopping) :
    ((stopInv A).and (cfgInv f cfg)).J s := by
  refine ⟨?_, hh.1⟩
  rcases hh.2 with h1 | h1
  · exact h1
  · exact absurd (h1.2.1 i (findInst_mem hi) (findInst_uid hi)) hs

/-- in a `QS` state where head `h` of `f` is not at/behind the end, only `A` is STOPPING -/
theorem r1Inv_left_of_head {A f h cfg s hd} (hh : (r1Inv A f h cfg).J s)
    (hd2 : (findInst s.ixs.ix f).bind (·.findHead h) = some hd) (hp : hd.pos < cfg.elements.size) :
    ((stopInv A).and (cfgInv f cfg)).J s := by
  refine ⟨?_, hh.1⟩
  rcases hh.2 with h1 | h1
  · exact h1
  · obtain ⟨i, hd', hi, hh', hp'⟩ := h1.2.2
    rw [hi] at hd2
    simp only [Option.bind_some] at hd2
    rw [hh'] at hd2
    cases hd2
    omega

theorem r1Inv_left_of_nohead {A f h cfg s} (hh : (r1Inv A f h cfg).J s)
    (hd2 : (findInst s.ixs.ix f).bind (·.findHead h) = none) :
    ((stopInv A).and (cfgInv f cfg)).J s := by
  refine ⟨?_, hh.1⟩
  rcases hh.2 with h1 | h1
  · exact h1
  · obtain ⟨i, hd', hi, hh', hp'⟩ := h1.2.2
    rw [hi] at hd2
    simp only [Option.bind_some] at hd2
    rw [hh'] at hd2
    cases hd2

section iter
attribute [local spec] forInL_keeps mapM_keeps modifyRest_keeps freshUid_keeps modInstX_keeps ctxHolder_keeps getCtx_keeps setCtxVar_keeps modHeadX_keeps getCfg_keeps getAction?_keeps setAction_keeps pushEvent_keeps pushLeftEvent_keeps valueErr_keeps lookupVar_keeps attrOf_keeps evalExpr_keeps evalIn_keeps evalEmpty_keeps evalArgs_keeps
attribute [local spec] instanceArguments_keeps flowObjOf_keeps flowStartEvent_keeps flowGetEvent_keeps actionGetEvent_keeps tempAction_keeps tempFlowObj_keeps resolveRef_keeps getEventName_keeps getEvent_keeps eventMatchingScore_keeps updateActionStatusByEvent_keeps generateUmimEvent_keeps releaseAction_keeps isReferenceActivated_keeps deactivatesRef_keeps isChildActivated_keeps failedEvent_keeps restartActivated_keeps logActionOrIntents_keeps nameFor_keeps headScores_keeps headKeyScores_keeps labelPos_keeps pickChoice_keeps

theorem getHead?_precise (I : StInv) (k : Key) :
    ⦃fun s => ⌜I.J s⌝⦄ getHead? k ⦃post⟨fun r s => ⌜I.J s ∧ r = (findInst s.ixs.ix k.1).bind (·.findHead k.2)⌝, fun _ s => ⌜I.J s⌝⟩⦄ := by
  unfold getHead? getIx
  mvcgen

/-- `cfgOfInst f` establishes `cfgInv f` for its answer -/
theorem cfgOfInst_intro (I : StInv) (f : FUid) :
    ⦃fun s => ⌜I.J s⌝⦄ cfgOfInst f ⦃post⟨fun r s => ⌜(I.and (cfgInv f r)).J s⌝, fun _ s => ⌜I.J s⌝⟩⦄ := by
  unfold cfgOfInst getInstX getInstX? getCfg
  mvcgen [getRest, pyRaise]
  rename_i s0 hs x hx cfg hcfg
  refine ⟨hs, x.flowId, ?_, hcfg⟩
  simp only [flowIds, lookup_flowIds, hx, Option.map_some]


/-- `slide`, both facts together -/
theorem slide_stop_heads (A : List FUid) (fuel : Nat) (f : FUid) (h : HUid) (cfg : FlowCfg) :
    ⦃fun s => ⌜((stopInv A).and (cfgInv f cfg)).J s⌝⦄ slide fuel f h
    ⦃post⟨fun nh s => ⌜(r1Inv A f h cfg).J s ∧ ∀ k ∈ nh, k.1 = f⌝, fun _ s => ⌜StopSub (f :: A) s.ixs.ix.insts⌝⟩⦄ := by
  have h1 := fn_of_triple (slide_stop A fuel f h cfg)
  apply triple_of_fn
  · intro s nh s' hs heq
    exact ⟨h1.1 s nh s' ⟨hs.2, hs.1⟩ heq, slide_heads fuel f h s s' nh heq⟩
  · intro s e s' hs heq
    exact h1.2 s e s' ⟨hs.2, hs.1⟩ heq

/-- the statement proved by induction on the fuel -/
def AdvStop (fuel : Nat) : Prop :=
  ∀ (A : List FUid) (heads : List Key),
    ⦃fun s => ⌜(stopInv A).J s⌝⦄ advanceHeadFront fuel heads
    ⦃post⟨fun _ s => ⌜(stopInv A).J s⌝, fun _ s => ⌜StopSub A s.ixs.ix.insts ∨ ∃ k ∈ heads, StopSub (k.1 :: A) s.ixs.ix.insts⌝⟩⦄

/-- the nested call of `_advance_head_front` on the heads handed back by `slide` -/
theorem adv_nested (A : List FUid) (f : FUid) (h : HUid) (cfg : FlowCfg) (fuel : Nat) (ih : AdvStop fuel) (nh : List Key) :
    ⦃fun s => ⌜(r1Inv A f h cfg).J s ∧ ∀ k ∈ nh, k.1 = f⌝⦄ advanceHeadFront fuel nh
    ⦃post⟨fun _ s => ⌜(r1Inv A f h cfg).J s⌝, fun _ s => ⌜StopSub (f :: A) s.ixs.ix.insts⌝⟩⦄ := by
  have hih := fn_of_triple (ih A nh)
  have hcfg := fn_of_triple (advanceHeadFront_keeps (cfgInv f cfg) (fun _ => trivial) fuel nh)
  apply triple_of_fn
  · intro s a s' ⟨⟨hc, hq⟩, hk⟩ heq
    rcases hq with hq | hq
    · exact ⟨hcfg.1 s a s' hc heq, Or.inl (hih.1 s a s' hq heq)⟩
    · obtain ⟨i, hd, hi, hh, hp⟩ := hq.2.2
      have hl : i.status.listening = false := by
        rw [hq.2.1 i (findInst_mem hi) (findInst_uid hi)]; rfl
      cases fuel with
      | zero => simp [advanceHeadFront, throw, throwThe, MonadExceptOf.throw, EStateM.throw] at heq
      | succ fuel =>
        obtain ⟨r, hr⟩ := advanceHeadFront_noop fuel f nh s cfg i hk hi hl (cfgOfInst_of_cfgInv hc)
        rw [hr] at heq; cases heq
        exact ⟨hc, Or.inr hq⟩
  · intro s e s' ⟨⟨hc, hq⟩, hk⟩ heq
    rcases hq with hq | hq
    · rcases hih.2 s e s' hq heq with hs | ⟨k, hkm, hs⟩
      · exact stopSub_mono hs (fun _ ha => List.mem_cons_of_mem _ ha)
      · rw [hk k hkm] at hs; exact hs
    · obtain ⟨i, hd, hi, hh, hp⟩ := hq.2.2
      have hl : i.status.listening = false := by
        rw [hq.2.1 i (findInst_mem hi) (findInst_uid hi)]; rfl
      cases fuel with
      | zero =>
        simp [advanceHeadFront, throw, throwThe, MonadExceptOf.throw, EStateM.throw] at heq
        obtain ⟨_, rfl⟩ := heq
        exact hq.1
      | succ fuel =>
        obtain ⟨r, hr⟩ := advanceHeadFront_noop fuel f nh s cfg i hk hi hl (cfgOfInst_of_cfgInv hc)
        rw [hr] at heq; cases heq


/-- `attemptPy`: a Python exception becomes a value; the state is the one at the raise -/
theorem attemptPy_spec {α} (x : M α) (P : VM → Prop) (Q : α → VM → Prop) (E : VM → Prop)
    (hx : ⦃fun s => ⌜P s⌝⦄ x ⦃post⟨fun a s => ⌜Q a s⌝, fun _ s => ⌜E s⌝⟩⦄) :
    ⦃fun s => ⌜P s⌝⦄ attemptPy x
    ⦃post⟨fun r s => ⌜match r with | .ok a => Q a s | .error _ => E s⌝, fun _ s => ⌜E s⌝⟩⦄ := by
  have hh := fn_of_triple hx
  apply triple_of_fn
  · intro s r s' hp heq
    unfold attemptPy at heq
    simp only [tryCatch, tryCatchThe, MonadExceptOf.tryCatch, EStateM.tryCatch, bind, EStateM.bind, pure, EStateM.pure] at heq
    cases hxs : x s with
    | ok a s1 => simp only [hxs] at heq; cases heq; exact hh.1 s a _ hp hxs
    | error e s1 =>
      simp only [hxs] at heq
      cases e <;> simp only [throw, throwThe, MonadExceptOf.throw, EStateM.throw, EStateM.Backtrackable.restore] at heq <;> cases heq
      exact hh.2 s _ _ hp hxs
  · intro s e s' hp heq
    unfold attemptPy at heq
    simp only [tryCatch, tryCatchThe, MonadExceptOf.tryCatch, EStateM.tryCatch, bind, EStateM.bind, pure, EStateM.pure] at heq
    cases hxs : x s with
    | ok a s1 => simp only [hxs] at heq; cases heq
    | error e1 s1 =>
      simp only [hxs] at heq
      cases e1 <;> simp only [throw, throwThe, MonadExceptOf.throw, EStateM.throw, EStateM.Backtrackable.restore, pure, EStateM.pure] at heq <;> cases heq
      all_goals exact hh.2 s _ _ hp hxs

/-- what the second part of the try block of `_advance_head_front` hands over -/
def P2 (A : List FUid) (f : FUid) (cfg : FlowCfg) (r : Bool × Bool × Bool × Bool) (s : VM) : Prop :=
  (stopInv (f :: A)).J s ∧ (r.2.2.2 = false → StopSub A s.ixs.ix.insts) ∧ (r.2.2.1 = true → r.2.2.2 = false)

/-- `r1Inv` together with "the index component is `ix0`": links the states of the op-free part of the second try block -/
def r1ix (A : List FUid) (f : FUid) (h : HUid) (cfg : FlowCfg) (ix0 : IState) : StInv where
  J s := s.ixs.ix = ix0 ∧ (cfgInv f cfg).J s ∧ QS A f h cfg.elements.size s
  okOp _ := False
  frame := fun s g hh hg => ⟨hh.1, (cfgInv f cfg).frame s g hh.2.1 hg, hh.2.2⟩
  step := fun _ _ _ _ hh => hh.elim

theorem r1ix_J (A f h cfg ix0) (s : VM) : (r1ix A f h cfg ix0).J s = (s.ixs.ix = ix0 ∧ (cfgInv f cfg).J s ∧ QS A f h cfg.elements.size s) := rfl
theorem r1Inv_J (A f h cfg) (s : VM) : (r1Inv A f h cfg).J s = ((cfgInv f cfg).J s ∧ QS A f h cfg.elements.size s) := rfl

theorem qs_stopSub {A f h n s} (hq : QS A f h n s) : StopSub (f :: A) s.ixs.ix.insts := by
  rcases hq with h1 | h1
  · exact stopSub_mono h1 (fun _ ha => List.mem_cons_of_mem _ ha)
  · exact h1.1
theorem qs_left {A f h n s i} (hq : QS A f h n s) (hi : findInst s.ixs.ix f = some i) (hs : i.status ≠ .stopping) :
    StopSub A s.ixs.ix.insts := by
  rcases hq with h1 | h1
  · exact h1
  · exact absurd (h1.2.1 i (findInst_mem hi) (findInst_uid hi)) hs
theorem qs_left_of_head {A f h n s hd} (hq : QS A f h n s)
    (hd2 : (findInst s.ixs.ix f).bind (·.findHead h) = some hd) (hp : hd.pos < n) : StopSub A s.ixs.ix.insts := by
  rcases hq with h1 | h1
  · exact h1
  · obtain ⟨i, hd', hi, hh', hp'⟩ := h1.2.2
    rw [hi] at hd2
    simp only [Option.bind_some] at hd2
    rw [hh'] at hd2
    cases hd2
    omega
theorem qs_left_of_nohead {A f h n s} (hq : QS A f h n s)
    (hd2 : (findInst s.ixs.ix f).bind (·.findHead h) = none) : StopSub A s.ixs.ix.insts := by
  rcases hq with h1 | h1
  · exact h1
  · obtain ⟨i, hd', hi, hh', hp'⟩ := h1.2.2
    rw [hi] at hd2
    simp only [Option.bind_some] at hd2
    rw [hh'] at hd2
    cases hd2

theorem stopInv_J (A : List FUid) (s : VM) : (stopInv A).J s = StopSub A s.ixs.ix.insts := rfl
theorem and_J (I1 I2 : StInv) (s : VM) : (I1.and I2).J s = (I1.J s ∧ I2.J s) := rfl
theorem stopSub_cons {A : List FUid} {l : List Inst} (f : FUid) (h : StopSub A l) : StopSub (f :: A) l :=
  stopSub_mono h (fun _ ha => List.mem_cons_of_mem _ ha)

/-- derive the goal (one of the running assertions) from a hypothesis about the same state -/
macro "stop_hyp" hh:ident : tactic => `(tactic| first
  | exact $hh
  | exact ($hh).1
  | exact ($hh).1.1
  | exact stopSub_mono $hh (fun _ ha => List.mem_cons_of_mem _ ha)
  | exact stopSub_mono ($hh).1 (fun _ ha => List.mem_cons_of_mem _ ha)
  | exact stopSub_mono ($hh).1.1 (fun _ ha => List.mem_cons_of_mem _ ha)
  | exact r1Inv_stopSub $hh
  | exact r1Inv_stopSub ($hh).1
  | exact ⟨stopSub_mono ($hh).1 (fun _ ha => List.mem_cons_of_mem _ ha), ($hh).2⟩)
macro "stop_last" : tactic => `(tactic| (rename_i hh; stop_hyp hh))

set_option maxHeartbeats 16000000 in
theorem advStop_succ (fuel : Nat) (ih : AdvStop fuel) : AdvStop (fuel + 1) := by
  intro A heads
  have hallAC : ∀ f cfg op, NotStoppingOp op → ((stopInv A).and (cfgInv f cfg)).okOp op := fun f cfg op hh => ⟨Or.inl hh, trivial⟩
  have hloop := forInA_inv (fun s => StopSub A s.ixs.ix.insts) (fun k s => StopSub (k.1 :: A) s.ixs.ix.insts) heads
  have hcfgI := cfgOfInst_intro (stopInv A)
  have h4 := fun f cfg => setHeadPos_keeps ((stopInv A).and (cfgInv f cfg)) (hallAC f cfg)
  have h5 := fun f cfg => setHeadStatus_keeps ((stopInv A).and (cfgInv f cfg)) (hallAC f cfg)
  have h6 := fun f cfg => setFlowStatus_keeps ((stopInv A).and (cfgInv f cfg)) f .starting ⟨Or.inl (by simp [NotStoppingOp]), trivial⟩
  have h7 := fun f cfg => setFlowStatus_keeps ((stopInv A).and (cfgInv f cfg)) f .started ⟨Or.inl (by simp [NotStoppingOp]), trivial⟩
  have hsl := slide_stop_heads A fuel
  have hne := fun f h cfg => adv_nested A f h cfg fuel ih
  have hfin := finishFlow_keeps (stopInv A) (hend_of_hall _ (stopInv_hall A)) fuel
  have hclr := fun f => abortFlow_clears A f fuel
  have hr1 := fun (f : FUid) (h : HUid) (cfg : FlowCfg) (x : M (List Key)) =>
    attemptPy_spec x (fun s => ((stopInv A).and (cfgInv f cfg)).J s) (fun _ s => (r1Inv A f h cfg).J s) (fun s => StopSub (f :: A) s.ixs.ix.insts)
  have hr2 := fun (f : FUid) (h : HUid) (cfg : FlowCfg) (x : M (Bool × Bool × Bool × Bool)) =>
    attemptPy_spec x (fun s => (r1ix A f h cfg s.ixs.ix).J s) (fun r s => P2 A f cfg r s) (fun s => StopSub (f :: A) s.ixs.ix.insts)
  unfold advanceHeadFront
  simp only [forIn_eq_forInA heads]
  simp only [forIn_eq_forInL]
  mvcgen [hloop, hcfgI, h4, h5, h6, h7, hsl, hne, hfin, hclr, hr1, hr2, pyRaise, unsupported, getHead?, getIx, getInst?, getInst, getRest, getHeadX, getInstX?, getInstX]
  all_goals (first
    | (intro hh; exact hh)
    | (intro hh; exact Or.inr hh)
    | (intro hh; exact stopSub_mono hh (fun _ ha => List.mem_cons_of_mem _ ha))
    | (intro hh; exact stopSub_mono hh.1 (fun _ ha => List.mem_cons_of_mem _ ha))
    | (intro hh; exact r1Inv_stopSub hh)
    | (intros; trivial)
    | rest_frame
    | stop_last
    | (rename_i hh _; stop_hyp hh)
    | (rename_i hh; exact hh.2.1 (hh.2.2 (by assumption)))
    | (rename_i hh; exact hh.2.1 (by simp_all))
    | skip)
  all_goals (try (simp only [P2, stopInv_J, and_J, r1ix_J, r1Inv_J] at *))
  all_goals (first
    | grind [qs_left, qs_left_of_head, qs_left_of_nohead, qs_stopSub, stopSub_cons]
    | skip)


theorem advStop_zero : AdvStop 0 := by
  intro A heads
  unfold advanceHeadFront
  apply triple_of_fn
  · intro s a s' _ heq; simp [throw, throwThe, MonadExceptOf.throw, EStateM.throw] at heq
  · intro s e s' hp heq
    simp [throw, throwThe, MonadExceptOf.throw, EStateM.throw] at heq
    obtain ⟨_, rfl⟩ := heq
    exact Or.inl hp

/-- **`_advance_head_front` and STOPPING**: started in a state where only the instances `A` are STOPPING, a normal return
    leaves only `A` STOPPING (for every fuel, every list of heads, nested calls included) -/
theorem advStop : ∀ fuel, AdvStop fuel
  | 0 => advStop_zero
  | fuel + 1 => advStop_succ fuel (advStop fuel)

end iter
end NemoVerif.CoreVM
