/-
  C06, goal 4 (refinement `CoreVM → Lifetime`), third layer: the whole recursion of `_abort_flow`.
  Part A: `Lifetime.abortFlow` does not read the queue / the outgoing events (`cs`-congruence through the recursion).
-/
import NemoVerif.Lemmas.LifetimeCoreVM2
import NemoVerif.Lemmas.LifetimeLinked
namespace NemoVerif.Lifetime.Refine
open NemoVerif NemoVerif.CoreVM NemoVerif.CoreIndex NemoVerif.Lifetime

/-- a recursive-call parameter that commutes with `cs` -/
def CsRec (rec : State → Nat → Except Err State) : Prop := ∀ s c, csE (rec s c) = csE (rec (cs s) c)

/-- transport of a case analysis along `csE r = csE r'` -/
theorem csE_cases {r r' : Except Err State} (h : csE r = csE r') :
    (∃ e, r = .error e ∧ r' = .error e) ∨ ∃ t t', r = .ok t ∧ r' = .ok t' ∧ cs t = cs t' := by
  cases r with
  | error e =>
    cases r' with
    | error e' => simp only [csE_error, Except.error.injEq] at h; subst h; exact Or.inl ⟨e, rfl, rfl⟩
    | ok t' => cases h
  | ok t =>
    cases r' with
    | error e' => cases h
    | ok t' => simp only [csE_ok, Except.ok.injEq] at h; exact Or.inr ⟨t, t', rfl, rfl, h⟩

theorem cs_isChildActivated (s : State) (f : Flow) : Lifetime.isChildActivated (cs s) f = Lifetime.isChildActivated s f := rfl
theorem cs_isRefActivated (s : State) (f : Flow) : isRefActivated (cs s) f = isRefActivated s f := rfl

theorem cs_childLoop (rec : State → Nat → Except Err State) (hrec : CsRec rec) : ∀ (l : List Nat) (s s0 : State), cs s = cs s0 →
    csE (childLoop rec s l) = csE (childLoop rec s0 l)
  | [], s, s0, h => by simp only [childLoop, csE_ok, h]
  | c :: cs', s, s0, h => by
    have hfl : s.flows = s0.flows := by
      have := congrArg State.flows h; exact this
    simp only [childLoop]
    rw [hfl]
    cases hc : s0.flows c with
    | none => exact cs_childLoop rec hrec cs' s s0 h
    | some cf =>
      simp only
      have hca : Lifetime.isChildActivated s cf = Lifetime.isChildActivated s0 cf := by
        unfold Lifetime.isChildActivated; rw [hfl]
      rw [hca]
      by_cases hb : Lifetime.isChildActivated s0 cf = true
      · simp only [hb, Bool.not_true, Bool.false_eq_true, if_false]
        exact cs_childLoop rec hrec cs' s s0 h
      · simp only [hb, Bool.not_false, if_true]
        have hr : csE (rec s c) = csE (rec s0 c) := by rw [hrec s c, hrec s0 c, h]
        rcases csE_cases hr with ⟨e, e1, e2⟩ | ⟨t, t', e1, e2, ht⟩
        · rw [e1, e2]
        · rw [e1, e2]
          exact cs_childLoop rec hrec cs' t t' ht

theorem cs_deactLoop (rec : State → Nat → Except Err State) (hrec : CsRec rec) (fid : Nat) : ∀ (l : List Nat) (s s0 : State), cs s = cs s0 →
    csE (deactLoop rec fid s l) = csE (deactLoop rec fid s0 l)
  | [], s, s0, h => by simp only [deactLoop, csE_ok, h]
  | c :: cs', s, s0, h => by
    have hfl : s.flows = s0.flows := by
      have := congrArg State.flows h; exact this
    simp only [deactLoop]
    rw [hfl]
    cases hc : s0.flows c with
    | none => rfl
    | some cf =>
      simp only
      by_cases hid : (cf.flowId == fid) = true
      · simp only [hid, if_true]
        have hr : csE (rec s c) = csE (rec s0 c) := by rw [hrec s c, hrec s0 c, h]
        rcases csE_cases hr with ⟨e, e1, e2⟩ | ⟨t, t', e1, e2, ht⟩
        · rw [e1, e2]
        · rw [e1, e2]
          simp only
          apply cs_deactLoop rec hrec fid cs'
          rw [cs_modFlow, cs_modFlow, ht]
      · simp only [hid, Bool.false_eq_true, if_false]
        exact cs_deactLoop rec hrec fid cs' s s0 h

def csP : Except Err (State × Bool) → Except Err (State × Bool)
  | .ok (s, b) => .ok (cs s, b)
  | .error e => .error e

theorem cs_deactivatePhase (rec : State → Nat → Except Err State) (hrec : CsRec rec) (s : State) (u : Nat) (d : Bool) :
    csP (deactivatePhase rec s u d) = csP (deactivatePhase rec (cs s) u d) := by
  unfold deactivatePhase
  simp only [cs_flows]
  cases hf : s.flows u with
  | none => rfl
  | some f =>
    simp only [cs_isRefActivated]
    cases hq : (if d = true then isRefActivated s f else Except.ok false) with
    | error e => rfl
    | ok q =>
      cases q with
      | false => rfl
      | true =>
        simp only
        by_cases hz : (f.activated - 1 == 0) = true
        · simp only [hz, if_true]
          have hr := cs_deactLoop rec hrec f.flowId f.children
            (setFlow s u { f with activated := f.activated - 1 }) (setFlow (cs s) u { f with activated := f.activated - 1 }) rfl
          rcases csE_cases hr with ⟨e, e1, e2⟩ | ⟨t, t', e1, e2, ht⟩
          · rw [e1, e2]
          · rw [e1, e2]; simp only [csP, ht]
        · simp only [hz, Bool.false_eq_true, if_false]
          rfl

theorem cs_markNoRestart (s : State) (u : Nat) : cs (markNoRestart s u) = markNoRestart (cs s) u := by
  unfold markNoRestart
  simp only [cs_flows]
  split
  · split <;> rfl
  · rfl

theorem cs_abortBody (rec : State → Nat → Except Err State) (hrec : CsRec rec) (s : State) (u : Nat) (d : Bool) :
    csE (abortBody rec s u d) = csE (abortBody rec (cs s) u d) := by
  rw [abortBody_eq, abortBody_eq]
  simp only [cs_flows]
  cases hf : s.flows u with
  | none => rfl
  | some f =>
    simp only
    by_cases hg : (!f.status.listening && f.status != .stopping) = true
    · simp only [hg, if_true, csE_ok, cs_cs]
    · simp only [hg, Bool.false_eq_true, if_false]
      have hr := cs_childLoop rec hrec f.children (markNoRestart s u) (markNoRestart (cs s) u) (by rw [cs_markNoRestart, cs_markNoRestart]; rfl)
      rcases csE_cases hr with ⟨e, e1, e2⟩ | ⟨t, t', e1, e2, ht⟩
      · rw [e1, e2]
      · rw [e1, e2]
        simp only
        rw [cs_abortTail t, ht, ← cs_abortTail t']

/-- **`Lifetime.abortFlow` does not read queue / outgoing events** -/
theorem cs_abortFlow : ∀ (n : Nat) (s : State) (u : Nat) (d : Bool), csE (abortFlow n s u d) = csE (abortFlow n (cs s) u d)
  | 0, _, _, _ => rfl
  | n + 1, s, u, d => by
    have hrec : CsRec (fun s c => abortFlow n s c true) := fun s c => cs_abortFlow n s c true
    simp only [abortFlow]
    have hp := cs_deactivatePhase _ hrec s u d
    cases h1 : deactivatePhase (fun s c => abortFlow n s c true) s u d with
    | error e =>
      rw [h1] at hp
      cases h2 : deactivatePhase (fun s c => abortFlow n s c true) (cs s) u d with
      | error e' => rw [h2] at hp; simp only [csP, Except.error.injEq] at hp; subst hp; rfl
      | ok p' => rw [h2] at hp; obtain ⟨a, b⟩ := p'; cases hp
    | ok p =>
      obtain ⟨s1, b⟩ := p
      rw [h1] at hp
      cases h2 : deactivatePhase (fun s c => abortFlow n s c true) (cs s) u d with
      | error e' => rw [h2] at hp; cases hp
      | ok p' =>
        obtain ⟨s1', b'⟩ := p'
        rw [h2] at hp
        simp only [csP, Except.ok.injEq, Prod.mk.injEq] at hp
        obtain ⟨hs, hb⟩ := hp
        subst hb
        cases b with
        | true => simp only [csE_ok, hs]
        | false =>
          simp only
          rw [cs_abortBody _ hrec s1, hs, ← cs_abortBody _ hrec s1']

/-! ## Part B: well-formedness of the VM state through the pieces -/

structure WF (vm : VM) : Prop where
  a : WFA vm
  i : WFI vm
  g : WFG vm
  n : WFN vm

theorem keys_modify' {α : Type} (f : String) (g : α → α) : ∀ (l : List (String × α)), (OMap.modify f g l).map (·.1) = l.map (·.1)
  | [] => rfl
  | e :: l => by
    simp only [OMap.modify]
    split <;> simp [keys_modify' f g l]

/-- states that differ only in fields neither `absVM` nor `WF` reads -/
theorem WF.of_same {vm vm' : VM} (hw : WF vm) (h1 : vm'.ixs = vm.ixs) (h2 : vm'.r.fx = vm.r.fx) (h3 : vm'.r.actions = vm.r.actions) : WF vm' := by
  refine ⟨?_, ?_, ?_, ?_⟩
  · intro k a h; rw [h3] at h; exact hw.a k a h
  · unfold WFI; rw [h1, h2]; exact hw.i
  · intro k a h; rw [h3] at h; exact hw.g k a h
  · intro k x h; rw [h2] at h; exact hw.n k x h

theorem WF.vmMod {vm : VM} (hw : WF vm) (f : FUid) (g : InstX → InstX) (hg : ∀ x, 0 ≤ x.activated → 0 ≤ (g x).activated) :
    WF (vmMod vm f g) := by
  refine ⟨hw.a, ?_, hw.g, ?_⟩
  · unfold WFI
    show vm.ixs.ix.insts.map (·.uid) = (OMap.modify f g vm.r.fx).map (·.1) ∧ _
    rw [keys_modify']
    exact hw.i
  · intro k x' hx'
    have hl := lookup_modify f k g vm.r.fx
    have hx'' : OMap.lookup k (OMap.modify f g vm.r.fx) = some x' := hx'
    rw [hl] at hx''
    by_cases hk : k = f
    · simp only [hk, if_true] at hx''
      cases hx0 : OMap.lookup f vm.r.fx with
      | none => rw [hx0] at hx''; cases hx''
      | some x0 => rw [hx0] at hx''; cases hx''; exact hg x0 (hw.n f x0 hx0)
    · simp only [hk, if_false] at hx''
      exact hw.n k x' hx''

theorem wf_dropHeads {vm vm' : VM} (hw : WF vm) (f : FUid) (h : CoreVM.dropHeads f vm = .ok () vm') : WF vm' := by
  have hg : (Op.dropHeads f).guard vm.ixs.ix = true := rfl
  have hrun' : CoreVM.dropHeads f vm = .ok () { ({ vm with ixs := vm.ixs.apply (.dropHeads f) hg } : VM) with
      r := { vm.r with hx := vm.r.hx.filter (fun e => e.1.1 ≠ f),
                       cleared := vm.r.cleared ++ (match findInst vm.ixs.ix f with
                         | some i => i.heads.map fun hd => (f, hd.uid)
                         | none => []) } } := by
    unfold CoreVM.dropHeads
    simp only [bind, EStateM.bind]
    have : getIx vm = .ok vm.ixs.ix vm := rfl
    rw [this]
    simp only [applyOp_run _ vm hg]
    rfl
  rw [h] at hrun'
  cases hrun'
  refine ⟨hw.a, ?_, hw.g, hw.n⟩
  have hu : (step vm.ixs.ix (.dropHeads f)).insts.map (·.uid) = vm.ixs.ix.insts.map (·.uid) := dropHeads_uids _ f
  refine ⟨?_, ?_⟩
  · show (step vm.ixs.ix (.dropHeads f)).insts.map (·.uid) = vm.r.fx.map (·.1)
    rw [hu]; exact hw.i.1
  · show ((step vm.ixs.ix (.dropHeads f)).insts.map (·.uid)).Nodup
    rw [hu]; exact hw.i.2

theorem wf_setFlowStatus {vm vm' : VM} (hw : WF vm) (f : FUid) (st : FlowStatus) (h : CoreVM.setFlowStatus f st vm = .ok () vm') : WF vm' := by
  by_cases hg : (Op.setFlowStatus f st).guard vm.ixs.ix = true
  · have hrun' : CoreVM.setFlowStatus f st vm = .ok () (vmMod { vm with ixs := vm.ixs.apply (.setFlowStatus f st) hg } f
        (fun x => { x with statusUpdated := vm.r.clock })) := by
      unfold CoreVM.setFlowStatus
      simp only [bind, EStateM.bind, applyOp_run _ vm hg]
      rfl
    rw [h] at hrun'
    cases hrun'
    refine WF.vmMod (g := fun x => { x with statusUpdated := vm.r.clock }) ?_ f (fun _ h => h)
    refine ⟨hw.a, ?_, hw.g, hw.n⟩
    have hu : (step vm.ixs.ix (.setFlowStatus f st)).insts.map (·.uid) = vm.ixs.ix.insts.map (·.uid) := setFlowStatus_uids _ f st
    refine ⟨?_, ?_⟩
    · show (step vm.ixs.ix (.setFlowStatus f st)).insts.map (·.uid) = vm.r.fx.map (·.1)
      rw [hu]; exact hw.i.1
    · show ((step vm.ixs.ix (.setFlowStatus f st)).insts.map (·.uid)).Nodup
      rw [hu]; exact hw.i.2
  · obtain ⟨e, s, he⟩ := setFlowStatus_guardFailed f st vm hg
    rw [he] at h; cases h

theorem vmUnlink_cases (f : FUid) (vm vm' : VM) (h : vmUnlink f vm = .ok () vm') :
    vm' = vm ∨ ∃ p, vm' = vmMod vm p fun y => { y with childFlowUids := listRemoveFirst f y.childFlowUids } := by
  unfold vmUnlink at h
  simp only [bind, EStateM.bind] at h
  cases hx : OMap.lookup f vm.r.fx with
  | none => rw [getInstX_run_none f vm hx] at h; cases h
  | some x =>
    rw [getInstX_run_some f vm x hx] at h
    simp only at h
    by_cases h0 : x.activated = 0
    · simp only [h0, if_true] at h
      cases hp : x.parentUid with
      | none => simp only [hp] at h; cases h; exact Or.inl rfl
      | some p =>
        simp only [hp, bind_getInstX?] at h
        cases hpx : OMap.lookup p vm.r.fx with
        | none => simp only [hpx, Option.isSome_none, Bool.false_eq_true, if_false] at h; cases h; exact Or.inl rfl
        | some px =>
          simp only [hpx, Option.isSome_some, if_true, EStateM.bind, getInstX_run_some p vm px hpx] at h
          by_cases hc : (!px.childFlowUids.contains f) = true
          · simp only [hc, if_true] at h; cases h
          · simp only [hc, if_false] at h
            cases h
            exact Or.inr ⟨p, rfl⟩
    · simp only [h0, if_false] at h; cases h; exact Or.inl rfl

theorem wf_vmUnlink {vm vm' : VM} (hw : WF vm) (f : FUid) (h : vmUnlink f vm = .ok () vm') : WF vm' := by
  rcases vmUnlink_cases f vm vm' h with e | ⟨p, e⟩
  · rw [e]; exact hw
  · rw [e]; exact hw.vmMod p _ (fun _ h => h)

theorem restartActivated_cases (f : FUid) (sc : List Score) (d : Bool) (vm vm' : VM) (h : restartActivated f sc d vm = .ok () vm') :
    vm' = vm ∨ ∃ vmq : VM, vmq.ixs = vm.ixs ∧ vmq.r.fx = vm.r.fx ∧ vmq.r.actions = vm.r.actions ∧
      vm' = vmMod vmq f fun x => { x with newInstanceStarted := true } := by
  unfold restartActivated at h
  simp only [bind, EStateM.bind] at h
  cases hx : OMap.lookup f vm.r.fx with
  | none => rw [getInstX_run_none f vm hx] at h; cases h
  | some x =>
    rw [getInstX_run_some f vm x hx] at h
    simp only at h
    by_cases hc : (!d && decide (x.activated > 0) && !x.newInstanceStarted) = true
    · simp only [hc, if_true] at h
      simp only [EStateM.bind] at h
      cases hfo : flowObjOf f vm with
      | error e s => rw [hfo] at h; cases h
      | ok o s =>
        have := readOnly_flowObjOf f vm o s hfo
        subst this
        rw [hfo] at h
        simp only at h
        obtain ⟨e, he⟩ := flowStartEvent_run o [] s
        rw [he] at h
        simp only at h
        cases hp : x.parentUid with
        | none =>
          simp only [hp] at h
          cases h
          exact Or.inr ⟨{ (vmFresh s) with r := { (vmFresh s).r with queue := _ :: (vmFresh s).r.queue } }, rfl, rfl, rfl, rfl⟩
        | some p =>
          simp only [hp] at h
          rw [bind_getInstX?] at h
          have hfr : (vmFresh s).r.fx = s.r.fx := rfl
          rw [hfr] at h
          cases hpx : OMap.lookup p s.r.fx with
          | none => rw [hpx] at h; cases h
          | some px =>
            rw [hpx] at h
            cases h
            exact Or.inr ⟨{ (vmFresh s) with r := { (vmFresh s).r with queue := _ :: (vmFresh s).r.queue } }, rfl, rfl, rfl, rfl⟩
    · simp only [hc, Bool.false_eq_true, if_false] at h
      cases h
      exact Or.inl rfl

theorem wf_restartActivated {vm vm' : VM} (hw : WF vm) (f : FUid) (sc : List Score) (d : Bool)
    (h : restartActivated f sc d vm = .ok () vm') : WF vm' := by
  rcases restartActivated_cases f sc d vm vm' h with e | ⟨vmq, h1, h2, h3, e⟩
  · rw [e]; exact hw
  · rw [e]; exact (hw.of_same h1 h2 h3).vmMod f _ (fun _ h => h)

variable (ν φ : String → Nat)

theorem wf_abortTail (hν : Function.Injective ν) {vm vm' : VM} (hw : WF vm) (f : FUid) (sc : List Score) (d : Bool)
    (h : vmAbortTail f sc d vm = .ok () vm') : WF vm' := by
  rw [vmAbortTail_eq] at h
  simp only [bind, EStateM.bind] at h
  cases hx : OMap.lookup f vm.r.fx with
  | none => rw [getInstX_run_none f vm hx] at h; cases h
  | some x =>
  rw [getInstX_run_some f vm x hx] at h
  simp only at h
  cases hloop : forIn x.actionUids PUnit.unit releaseStep vm with
  | error e s => rw [hloop] at h; cases h
  | ok u1 vm1 =>
  rw [hloop] at h
  simp only at h
  obtain ⟨t1, _, _, hw1, hix1, hfx1, hnm1⟩ := release_loop ν (fun _ => 0) hν x.actionUids vm vm1 hw.a hw.i hw.g hloop
  have w1 : WF vm1 := by
    refine ⟨hw1, ?_, ?_, ?_⟩
    · unfold WFI; rw [hix1, hfx1]; exact hw.i
    · intro k a ha
      obtain ⟨y, hy, e⟩ := hnm1 k a ha
      rw [e]; exact hw.g k y hy
    · intro k x' hx'; rw [hfx1] at hx'; exact hw.n k x' hx'
  cases h2 : CoreVM.dropHeads f vm1 with
  | error e s => rw [h2] at h; cases h
  | ok u2 vm2 =>
  rw [h2] at h
  simp only at h
  have w2 := wf_dropHeads w1 f h2
  cases h3 : vmUnlink f vm2 with
  | error e s => rw [h3] at h; cases h
  | ok u3 vm3 =>
  rw [h3] at h
  simp only at h
  have w3 := wf_vmUnlink w2 f h3
  cases h4 : CoreVM.setFlowStatus f FlowStatus.stopped vm3 with
  | error e s => rw [h4] at h; cases h
  | ok u4 vm4 =>
  rw [h4] at h
  simp only at h
  have w4 := wf_setFlowStatus w3 f .stopped h4
  cases hfe : failedEvent f sc vm4 with
  | error e s => rw [hfe] at h; cases h
  | ok ev s =>
  have := readOnly_failedEvent f sc vm4 ev s hfe
  subst this
  rw [hfe] at h
  simp only at h
  exact wf_restartActivated (w4.of_same (vm' := { s with r := { s.r with queue := s.r.queue ++ [ev] } }) rfl rfl rfl) f sc d h

/-! ## Part C: the loops with recursive calls, the body, the deactivation block, the induction on the fuel -/

/-- contract of the recursive-call parameters: the CoreVM call `rec c` refines the Lifetime call `rec0 · (ν c)` -/
def RefRec (rec : FUid → M Unit) (rec0 : State → Nat → Except Err State) : Prop :=
  ∀ (vm : VM) (c : FUid) (vm' : VM), WF vm → rec c vm = .ok () vm' →
    ∃ t, rec0 (absVM ν φ vm) (ν c) = .ok t ∧ absVM ν φ vm' = cs t ∧ WF vm'

/-- body of the "abort all running child flows" loop, in the shape the `do` block elaborates to -/
def childStep (rec : FUid → M Unit) (c : String) (_ : PUnit) : M (ForInStep PUnit) :=
  EStateM.bind (getInstX? c) fun r =>
    if r.isSome = true then
      EStateM.bind (CoreVM.isChildActivated c) fun b =>
        if (!b) = true then EStateM.bind (rec c) fun _ => EStateM.pure (ForInStep.yield PUnit.unit)
        else EStateM.pure (ForInStep.yield PUnit.unit)
    else EStateM.pure (ForInStep.yield PUnit.unit)

theorem child_loop (hν : Function.Injective ν) (hφ : Function.Injective φ) (rec : FUid → M Unit) (rec0 : State → Nat → Except Err State)
    (hrec : RefRec ν φ rec rec0) (hcs : CsRec rec0) : ∀ (l : List String) (vm vm' : VM), WF vm →
    forIn l PUnit.unit (childStep rec) vm = .ok PUnit.unit vm' →
    ∃ t, childLoop rec0 (absVM ν φ vm) (l.map ν) = .ok t ∧ absVM ν φ vm' = cs t ∧ WF vm'
  | [], vm, vm', hw, h => by
    rw [List.forIn_nil] at h
    cases h
    exact ⟨_, rfl, rfl, hw⟩
  | c :: l, vm, vm', hw, h => by
    rw [List.forIn_cons] at h
    simp only [bind, EStateM.bind, childStep] at h
    rw [getInstX?_run] at h
    simp only at h
    simp only [List.map_cons, childLoop]
    rw [absVM_flows ν φ hν]
    cases hc : OMap.lookup c vm.r.fx with
    | none =>
      rw [hc] at h
      simp only [Option.isSome_none, Bool.false_eq_true, if_false, EStateM.pure] at h
      exact child_loop hν hφ rec rec0 hrec hcs l vm vm' hw h
    | some cx =>
      rw [hc] at h
      simp only [Option.isSome_some, if_true, EStateM.bind, isChildActivated_refines ν φ hν hφ c vm cx hc] at h
      simp only [Option.map_some]
      by_cases hb : Lifetime.isChildActivated (absVM ν φ vm) (absFlow ν φ vm c cx) = true
      · simp only [hb, Bool.not_true, Bool.false_eq_true, if_false, EStateM.pure] at h ⊢
        exact child_loop hν hφ rec rec0 hrec hcs l vm vm' hw h
      · simp only [hb, Bool.not_false, if_true] at h ⊢
        simp only [EStateM.bind] at h
        cases hr : rec c vm with
        | error e s => rw [hr] at h; cases h
        | ok u1 vm1 =>
          rw [hr] at h
          simp only [EStateM.pure] at h
          obtain ⟨t1, h1, a1, w1⟩ := hrec vm c vm1 hw hr
          rw [h1]
          simp only
          obtain ⟨t2, h2, a2, w2⟩ := child_loop hν hφ rec rec0 hrec hcs l vm1 vm' w1 h
          -- transport along `cs`
          have hcl := cs_childLoop rec0 hcs (l.map ν) t1 (cs t1) rfl
          rw [← a1, h2] at hcl
          obtain ⟨t3, h3, e3⟩ := csE_ok_inv hcl
          exact ⟨t3, h3, by rw [a2, e3], w2⟩

/-- body of the "abort all activated child flows" loop of the deactivation block -/
def deactStep (tail : String) (rec : FUid → M Unit) (fid : String) (c : String) (_ : PUnit) : M (ForInStep PUnit) :=
  EStateM.bind (getInstX? c) fun r =>
    match r with
    | none => EStateM.bind (pyRaise "KeyError" (toString c ++ toString tail)) fun (_ : PUnit) => EStateM.pure (ForInStep.yield PUnit.unit)
    | some cx =>
      if cx.flowId = fid then
        EStateM.bind (rec c) fun _ =>
          EStateM.bind (modInstX c fun y => { y with activated := 0 }) fun _ => EStateM.pure (ForInStep.yield PUnit.unit)
      else EStateM.pure (ForInStep.yield PUnit.unit)

theorem deact_loop (hν : Function.Injective ν) (hφ : Function.Injective φ) (rec : FUid → M Unit) (rec0 : State → Nat → Except Err State)
    (hrec : RefRec ν φ rec rec0) (hcs : CsRec rec0) (tail fid : String) : ∀ (l : List String) (vm vm' : VM), WF vm →
    forIn l PUnit.unit (deactStep tail rec fid) vm = .ok PUnit.unit vm' →
    ∃ t, deactLoop rec0 (φ fid) (absVM ν φ vm) (l.map ν) = .ok t ∧ absVM ν φ vm' = cs t ∧ WF vm'
  | [], vm, vm', hw, h => by
    rw [List.forIn_nil] at h
    cases h
    exact ⟨_, rfl, rfl, hw⟩
  | c :: l, vm, vm', hw, h => by
    rw [List.forIn_cons] at h
    simp only [bind, EStateM.bind, deactStep] at h
    rw [getInstX?_run] at h
    simp only at h
    simp only [List.map_cons, deactLoop]
    rw [absVM_flows ν φ hν]
    cases hc : OMap.lookup c vm.r.fx with
    | none =>
      rw [hc] at h
      simp only [EStateM.bind] at h
      cases h
    | some cx =>
      rw [hc] at h
      simp only [Option.map_some] at h ⊢
      have hid : ((absFlow ν φ vm c cx).flowId == φ fid) = decide (cx.flowId = fid) := by
        simp only [absFlow]
        by_cases e : cx.flowId = fid
        · simp [e]
        · have : φ cx.flowId ≠ φ fid := fun h' => e (hφ h')
          simp [e, this]
      rw [hid]
      by_cases e : cx.flowId = fid
      · simp only [e, decide_true, if_true] at h ⊢
        simp only [EStateM.bind] at h
        cases hr : rec c vm with
        | error er s => rw [hr] at h; cases h
        | ok u1 vm1 =>
          rw [hr] at h
          simp only [modInstX_run, EStateM.pure] at h
          obtain ⟨t1, h1, a1, w1⟩ := hrec vm c vm1 hw hr
          rw [h1]
          simp only
          have w2 : WF (vmMod vm1 c fun y => { y with activated := 0 }) := w1.vmMod c _ (fun _ _ => by simp)
          have a2 : absVM ν φ (vmMod vm1 c fun y => { y with activated := 0 }) = cs (modFlow t1 (ν c) fun f => { f with activated := 0 }) := by
            rw [absVM_vmMod ν φ hν vm1 c (fun y => { y with activated := 0 }) (fun fl => { fl with activated := 0 }) (fun _ _ => rfl),
              cs_modFlow, a1]
          obtain ⟨t2, h2, a3, w3⟩ := deact_loop hν hφ rec rec0 hrec hcs tail fid l _ vm' w2 h
          have hcl := cs_deactLoop rec0 hcs (φ fid) (l.map ν) (modFlow t1 (ν c) fun f => { f with activated := 0 })
            (cs (modFlow t1 (ν c) fun f => { f with activated := 0 })) rfl
          rw [← a2, h2] at hcl
          obtain ⟨t3, h3, e3⟩ := csE_ok_inv hcl
          exact ⟨t3, h3, by rw [a3, e3], w3⟩
      · simp only [e, decide_false, Bool.false_eq_true, if_false, EStateM.pure] at h ⊢
        exact deact_loop hν hφ rec rec0 hrec hcs tail fid l vm vm' hw h

theorem getInst_run_some (f : FUid) (vm : VM) (i : Inst) (h : findInst vm.ixs.ix f = some i) : getInst f vm = .ok i vm := by
  unfold getInst getInst?
  simp only [bind, EStateM.bind]
  have : getIx vm = .ok vm.ixs.ix vm := rfl
  rw [this]
  simp only [pure, EStateM.pure, h]

theorem getInst_run_none (f : FUid) (vm : VM) (h : findInst vm.ixs.ix f = none) : getInst f vm = .error (.py "KeyError" f) vm := by
  unfold getInst getInst?
  simp only [bind, EStateM.bind]
  have : getIx vm = .ok vm.ixs.ix vm := rfl
  rw [this]
  simp only [pure, EStateM.pure, h]
  rfl

theorem wfi_lookup (vm : VM) (hi : WFI vm) (f : FUid) (i : Inst) (h : findInst vm.ixs.ix f = some i) :
    ∃ x, OMap.lookup f vm.r.fx = some x := by
  have hu := findInst_uid _ _ _ h
  have hmem : i ∈ vm.ixs.ix.insts := by
    unfold findInst at h
    exact List.mem_of_find?_eq_some h
  have : f ∈ vm.ixs.ix.insts.map (·.uid) := by rw [← hu]; exact List.mem_map_of_mem (f := (·.uid)) hmem
  rw [hi.1] at this
  exact lookup_isSome_of_mem f vm.r.fx this

theorem wfi_lookup_none (vm : VM) (hi : WFI vm) (f : FUid) (h : OMap.lookup f vm.r.fx = none) : findInst vm.ixs.ix f = none := by
  cases hfi : findInst vm.ixs.ix f with
  | none => rfl
  | some i => obtain ⟨x, hx⟩ := wfi_lookup vm hi f i hfi; rw [h] at hx; cases hx

/-- the body of `_abort_flow` starts with `state.flow_states[f]`-style reads of the flow's index entry: without a record it raises -/
theorem vmAbortBody_no_record (rec : FUid → M Unit) (f : FUid) (sc : List Score) (d : Bool) (vm vm' : VM) (hw : WFI vm)
    (hx : OMap.lookup f vm.r.fx = none) : vmAbortBody rec f sc d vm ≠ .ok () vm' := by
  intro h
  unfold vmAbortBody at h
  simp only [bind, EStateM.bind] at h
  rw [getInst_run_none f vm (wfi_lookup_none vm hw f hx)] at h
  cases h

/-- `deactivate_flow and _is_reference_activated_flow(…)` against the abstract short-circuit -/
theorem deactivatesRef_refines (hν : Function.Injective ν) (hφ : Function.Injective φ) (d : Bool) (f : FUid) (vm : VM) (x : InstX)
    (hx : OMap.lookup f vm.r.fx = some x) :
    (∃ b, deactivatesRef d f vm = .ok b vm ∧
      (if d = true then isRefActivated (absVM ν φ vm) (absFlow ν φ vm f x) else Except.ok false) = .ok b) ∨
    (∃ msg, deactivatesRef d f vm = .error (.py "KeyError" msg) vm) := by
  cases d with
  | false => exact Or.inl ⟨false, rfl, rfl⟩
  | true =>
    rcases isReferenceActivated_refines ν φ hν hφ f vm x hx with ⟨b, hb1, hb2⟩ | ⟨msg, he, _⟩
    · exact Or.inl ⟨b, hb1, by simpa using hb2⟩
    · exact Or.inr ⟨msg, he⟩

/-- **the body of `_abort_flow`** (guard, restart guard of a STARTING activated flow, child loop, tail) -/
theorem body_refines (hν : Function.Injective ν) (hφ : Function.Injective φ) (rec : FUid → M Unit) (rec0 : State → Nat → Except Err State)
    (hrec : RefRec ν φ rec rec0) (hcs : CsRec rec0) (f : FUid) (sc : List Score) (d : Bool) (vm vm' : VM) (hw : WF vm)
    (h : vmAbortBody rec f sc d vm = .ok () vm') :
    ∃ t, abortBody rec0 (absVM ν φ vm) (ν f) d = .ok t ∧ absVM ν φ vm' = cs t ∧ WF vm' := by
  unfold vmAbortBody at h
  simp only [bind, EStateM.bind, pure] at h
  cases hfi : findInst vm.ixs.ix f with
  | none => rw [getInst_run_none f vm hfi] at h; cases h
  | some i =>
  rw [getInst_run_some f vm i hfi] at h
  simp only at h
  obtain ⟨x, hx⟩ := wfi_lookup vm hw.i f i hfi
  have hfl : (absVM ν φ vm).flows (ν f) = some (absFlow ν φ vm f x) := by rw [absVM_flows ν φ hν, hx]; rfl
  have hst : (absFlow ν φ vm f x).status = absStatus i.status := by simp only [absFlow, hfi]
  rw [abortBody_eq, hfl]
  simp only
  have hguard : (!(absFlow ν φ vm f x).status.listening && (absFlow ν φ vm f x).status != .stopping) =
      (!i.status.listening && decide (i.status ≠ FlowStatus.stopping)) := by
    rw [hst, absStatus_listening]
    cases i.status <;> rfl
  rw [hguard]
  by_cases hg : (!i.status.listening && decide (i.status ≠ FlowStatus.stopping)) = true
  · simp only [hg, if_true, EStateM.pure] at h ⊢
    cases h
    exact ⟨_, rfl, rfl, hw⟩
  · simp only [hg, Bool.false_eq_true, if_false] at h ⊢
    simp only [EStateM.bind] at h
    rw [getInstX_run_some f vm x hx] at h
    simp only at h
    -- the restart guard of a STARTING activated flow
    obtain ⟨vmM, hM⟩ : ∃ vmM : VM, vmM = if (decide (i.status = FlowStatus.starting) && decide (x.activated > 0)) = true
        then vmMod vm f (fun y => { y with newInstanceStarted := true }) else vm := ⟨_, rfl⟩
    have hwM : WF vmM := by
      rw [hM]; split
      · exact hw.vmMod f _ (fun _ h => h)
      · exact hw
    have habsM : absVM ν φ vmM = markNoRestart (absVM ν φ vm) (ν f) := by
      unfold markNoRestart
      rw [hfl]
      simp only
      have hc : ((absFlow ν φ vm f x).status == FStatus.starting && decide ((absFlow ν φ vm f x).activated > 0)) =
          (decide (i.status = FlowStatus.starting) && decide (x.activated > 0)) := by
        rw [hst]
        congr 1
        · cases i.status <;> rfl
        · simp only [absFlow]
          by_cases h0 : x.activated > 0
          · have : x.activated.toNat > 0 := by omega
            simp [h0, this]
          · have : ¬ x.activated.toNat > 0 := by omega
            simp [h0, this]
      rw [hc, hM]
      by_cases hcc : (decide (i.status = FlowStatus.starting) && decide (x.activated > 0)) = true
      · simp only [hcc, if_true]
        rw [absVM_vmMod ν φ hν vm f (fun y => { y with newInstanceStarted := true }) (fun fl => { fl with nis := true }) (fun _ _ => rfl),
          modFlow_some _ _ _ _ hfl]
      · simp only [hcc, Bool.false_eq_true, if_false]
    have hxM : ∃ xM, OMap.lookup f vmM.r.fx = some xM ∧ xM.childFlowUids = x.childFlowUids := by
      rw [hM]; split
      · have hl := lookup_modify f f (fun y : InstX => { y with newInstanceStarted := true }) vm.r.fx
        simp only [if_true] at hl
        exact ⟨{ x with newInstanceStarted := true }, by show OMap.lookup f (OMap.modify f _ vm.r.fx) = _; rw [hl, hx]; rfl, rfl⟩
      · exact ⟨x, hx, rfl⟩
    obtain ⟨xM, hxM, hch⟩ := hxM
    -- rest of the run, from vmM
    have hrest : (EStateM.bind (getInstX f) fun x1 =>
        EStateM.bind (forIn x1.childFlowUids PUnit.unit (childStep rec)) fun _ => vmAbortTail f sc d) vmM = .ok () vm' := by
      rw [hM]
      by_cases hcc : (decide (i.status = FlowStatus.starting) && decide (x.activated > 0)) = true
      · simp only [hcc, if_true] at h ⊢
        simp only [EStateM.bind, modInstX_run] at h
        exact h
      · simp only [hcc, Bool.false_eq_true, if_false] at h ⊢
        exact h
    simp only [EStateM.bind, getInstX_run_some f vmM xM hxM] at hrest
    cases hloop : forIn xM.childFlowUids PUnit.unit (childStep rec) vmM with
    | error e s => rw [hloop] at hrest; cases hrest
    | ok u2 vm2 =>
      rw [hloop] at hrest
      simp only at hrest
      obtain ⟨t2, h2, a2, w2⟩ := child_loop ν φ hν hφ rec rec0 hrec hcs xM.childFlowUids vmM vm2 hwM hloop
      obtain ⟨t3, h3, a3⟩ := corevm_abortTail_is_op ν φ hν hφ f sc d vm2 vm' w2.a w2.i w2.g w2.n hrest
      have w3 := wf_abortTail ν hν w2 f sc d hrest
      have hch' : (absFlow ν φ vm f x).children = xM.childFlowUids.map ν := by rw [hch]; rfl
      rw [← habsM, hch', h2]
      simp only
      have hct := cs_abortTail t2 (ν f) d
      rw [← a2, h3] at hct
      obtain ⟨t4, h4, e4⟩ := csE_ok_inv hct
      exact ⟨t4, h4, by rw [a3, e4], w3⟩

/-- **`corevm_abort_is_op`**: every normally terminating run of `CoreVM.abortFlow` from a well-formed VM state IS a
    run of `Lifetime.abortFlow` (same fuel) on the abstract state — deactivation block, restart guard, child loop with
    all nested calls, stop-actions loop, unlink, STOPPED mark, restart — up to queue / outgoing events (`cs`), and
    leaves a well-formed VM state. -/
theorem corevm_abort_is_op (hν : Function.Injective ν) (hφ : Function.Injective φ) : ∀ (n : Nat) (vm : VM) (f : FUid) (sc : List Score)
    (d : Bool) (vm' : VM), WF vm → CoreVM.abortFlow n f sc d vm = .ok () vm' →
    ∃ t, Lifetime.abortFlow n (absVM ν φ vm) (ν f) d = .ok t ∧ absVM ν φ vm' = cs t ∧ WF vm'
  | 0, vm, f, sc, d, vm', _, h => by
    simp only [CoreVM.abortFlow] at h
    cases h
  | n + 1, vm, f, sc, d, vm', hw, h => by
    have hrec : RefRec ν φ (fun c => CoreVM.abortFlow n c sc true) (fun s c => Lifetime.abortFlow n s c true) :=
      fun vm c vm' hw h => corevm_abort_is_op hν hφ n vm c sc true vm' hw h
    have hcs : CsRec (fun s c => Lifetime.abortFlow n s c true) := fun s c => cs_abortFlow n s c true
    rw [abortFlow_unfold] at h
    unfold vmDeact at h
    simp only [bind, EStateM.bind, pure] at h
    cases hx : OMap.lookup f vm.r.fx with
    | none =>
      cases d with
      | true =>
        have : deactivatesRef true f vm = .error (.py "KeyError" f) vm := by
          rw [deactivatesRef_true]
          unfold isReferenceActivated
          simp only [bind, EStateM.bind, getInstX_run_none f vm hx]
        rw [this] at h; cases h
      | false =>
        have : deactivatesRef false f vm = .ok false vm := rfl
        rw [this] at h
        simp only [Bool.false_eq_true, if_false] at h
        exact absurd h (vmAbortBody_no_record _ f sc false vm vm' hw.i hx)
    | some x =>
    have hfl : (absVM ν φ vm).flows (ν f) = some (absFlow ν φ vm f x) := by rw [absVM_flows ν φ hν, hx]; rfl
    simp only [Lifetime.abortFlow]
    unfold deactivatePhase
    rw [hfl]
    simp only
    rcases deactivatesRef_refines ν φ hν hφ d f vm x hx with ⟨b, hb1, hb2⟩ | ⟨msg, he⟩
    · rw [hb1] at h
      simp only at h
      by_cases hdb : b = true
      · -- the reference count is decremented
        subst hdb
        have hd : d = true := by
          cases d with
          | true => rfl
          | false => simp at hb2
        subst hd
        simp only [if_true] at hb2
        simp only [if_true, hb2] at h ⊢
        simp only [EStateM.bind, modInstX_run] at h
        have hpos : 0 < x.activated := by
          unfold isRefActivated at hb2
          split at hb2
          · next hp => simp only [absFlow] at hp; omega
          · cases hb2
        have hx1 : OMap.lookup f (vmMod vm f fun y => { y with activated := y.activated - 1 }).r.fx = some { x with activated := x.activated - 1 } := by
          have hl := lookup_modify f f (fun y : InstX => { y with activated := y.activated - 1 }) vm.r.fx
          simp only [if_true] at hl
          show OMap.lookup f (OMap.modify f _ vm.r.fx) = _
          rw [hl, hx]; rfl
        rw [getInstX_run_some f _ _ hx1] at h
        simp only at h
        have w1 : WF (vmMod vm f fun y => { y with activated := y.activated - 1 }) := by
          refine ⟨hw.a, ?_, hw.g, ?_⟩
          · unfold WFI
            show vm.ixs.ix.insts.map (·.uid) = (OMap.modify f _ vm.r.fx).map (·.1) ∧ _
            rw [keys_modify']; exact hw.i
          · intro k x' hx'
            have hl := lookup_modify f k (fun y : InstX => { y with activated := y.activated - 1 }) vm.r.fx
            have hx'' : OMap.lookup k (OMap.modify f (fun y : InstX => { y with activated := y.activated - 1 }) vm.r.fx) = some x' := hx'
            rw [hl] at hx''
            by_cases hk : k = f
            · simp only [hk, if_true, hx, Option.map_some, Option.some.injEq] at hx''
              rw [← hx'']; show 0 ≤ x.activated - 1; omega
            · simp only [hk, if_false] at hx''
              exact hw.n k x' hx''
        have a1 : absVM ν φ (vmMod vm f fun y => { y with activated := y.activated - 1 }) =
            setFlow (absVM ν φ vm) (ν f) { (absFlow ν φ vm f x) with activated := (absFlow ν φ vm f x).activated - 1 } := by
          rw [absVM_vmMod ν φ hν vm f (fun y => { y with activated := y.activated - 1 }) (fun fl => { fl with activated := fl.activated - 1 })
            (fun u y => by simp only [absFlow]; congr 1; omega), modFlow_some _ _ _ _ hfl]
        have hz : ((absFlow ν φ vm f x).activated - 1 == 0) = decide (x.activated - 1 = 0) := by
          simp only [absFlow]
          by_cases h0 : x.activated - 1 = 0
          · have : x.activated.toNat - 1 = 0 := by omega
            simp [h0, this]
          · have : ¬ x.activated.toNat - 1 = 0 := by omega
            simp [h0, this]
        rw [hz]
        by_cases h0 : x.activated - 1 = 0
        · simp only [h0, decide_true, if_true] at h ⊢
          obtain ⟨B, hB, hrun⟩ : ∃ B : String → PUnit → M (ForInStep PUnit),
              (∀ c u s, B c u s = deactStep " (model line 177)" (fun c => CoreVM.abortFlow n c sc true) x.flowId c u s) ∧
              (EStateM.bind (forIn x.childFlowUids PUnit.unit B) fun _ => vmAbortBody (fun c => CoreVM.abortFlow n c sc true) f sc true)
                (vmMod vm f fun y => { y with activated := y.activated - 1 }) = EStateM.Result.ok () vm' := by
            refine ⟨_, ?_, h⟩
            intro c u s
            simp only [deactStep, EStateM.bind]
            rw [getInstX?_run]
            cases OMap.lookup c s.r.fx <;> rfl
          have hBeq : B = deactStep " (model line 177)" (fun c => CoreVM.abortFlow n c sc true) x.flowId := by
            funext c u s; exact hB c u s
          rw [hBeq] at hrun
          simp only [EStateM.bind] at hrun
          cases hloop : forIn x.childFlowUids PUnit.unit (deactStep " (model line 177)" (fun c => CoreVM.abortFlow n c sc true) x.flowId)
              (vmMod vm f fun y => { y with activated := y.activated - 1 }) with
          | error e s => rw [hloop] at hrun; cases hrun
          | ok u2 vm2 =>
            have h' := hrun
            rw [hloop] at h'
            simp only at h'
            obtain ⟨t2, h2, a2, w2⟩ := deact_loop ν φ hν hφ _ _ hrec hcs _ x.flowId x.childFlowUids _ vm2 w1 hloop
            obtain ⟨t3, h3, a3, w3⟩ := body_refines ν φ hν hφ _ _ hrec hcs f sc true vm2 vm' w2 h'
            have hfid : (absFlow ν φ vm f x).flowId = φ x.flowId := rfl
            have hch : (absFlow ν φ vm f x).children = x.childFlowUids.map ν := rfl
            rw [← a1, hfid, hch, h2]
            simp only
            have hct := cs_abortBody _ hcs t2 (ν f) true
            rw [← a2, h3] at hct
            obtain ⟨t4, h4, e4⟩ := csE_ok_inv hct
            exact ⟨t4, h4, by rw [a3, e4], w3⟩
        · simp only [h0, decide_false, Bool.false_eq_true, if_false, EStateM.pure] at h ⊢
          cases h
          exact ⟨_, rfl, by rw [a1]; rfl, w1⟩
      · -- no deactivation: straight to the body
        have hbf : b = false := by cases b <;> simp_all
        subst hbf
        simp only [Bool.false_eq_true, if_false] at h
        rw [hb2]
        simp only
        exact body_refines ν φ hν hφ _ _ hrec hcs f sc d vm vm' hw h
    · rw [he] at h; cases h

/-- **the deactivation block**, generic in the continuation `k` (shared by `_abort_flow` and `_finish_flow`):
    either only the reference count was decremented and the function returned, or the block refines
    `deactivatePhase … = (·, false)` and the run continues with `k` -/
theorem deact_refines (hν : Function.Injective ν) (hφ : Function.Injective φ) (tail : String) (rec : FUid → M Unit)
    (rec0 : State → Nat → Except Err State) (hrec : RefRec ν φ rec rec0) (hcs : CsRec rec0) (f : FUid) (d : Bool) (k : M Unit)
    (vm vm' : VM) (hw : WF vm) (hk0 : OMap.lookup f vm.r.fx = none → k vm ≠ .ok () vm')
    (h : vmDeact tail rec f d k vm = .ok () vm') :
    (∃ t1, deactivatePhase rec0 (absVM ν φ vm) (ν f) d = .ok (t1, true) ∧ absVM ν φ vm' = cs t1 ∧ WF vm') ∨
    (∃ vmK tK, deactivatePhase rec0 (absVM ν φ vm) (ν f) d = .ok (tK, false) ∧ absVM ν φ vmK = cs tK ∧ WF vmK ∧ k vmK = .ok () vm') := by
  unfold vmDeact at h
  simp only [bind, EStateM.bind, pure] at h
  cases hx : OMap.lookup f vm.r.fx with
  | none =>
    cases d with
    | true =>
      have : deactivatesRef true f vm = .error (.py "KeyError" f) vm := by
        rw [deactivatesRef_true]
        unfold isReferenceActivated
        simp only [bind, EStateM.bind, getInstX_run_none f vm hx]
      rw [this] at h; cases h
    | false =>
      have : deactivatesRef false f vm = .ok false vm := rfl
      rw [this] at h
      simp only [Bool.false_eq_true, if_false] at h
      exact absurd h (hk0 hx)
  | some x =>
  have hfl : (absVM ν φ vm).flows (ν f) = some (absFlow ν φ vm f x) := by rw [absVM_flows ν φ hν, hx]; rfl
  unfold deactivatePhase
  rw [hfl]
  simp only
  rcases deactivatesRef_refines ν φ hν hφ d f vm x hx with ⟨b, hb1, hb2⟩ | ⟨msg, he⟩
  · rw [hb1] at h
    simp only at h
    by_cases hdb : b = true
    · subst hdb
      have hd : d = true := by
        cases d with
        | true => rfl
        | false => simp at hb2
      subst hd
      simp only [if_true] at hb2
      simp only [if_true, hb2] at h ⊢
      simp only [EStateM.bind, modInstX_run] at h
      have hpos : 0 < x.activated := by
        unfold isRefActivated at hb2
        split at hb2
        · next hp => simp only [absFlow] at hp; omega
        · cases hb2
      have hx1 : OMap.lookup f (vmMod vm f fun y => { y with activated := y.activated - 1 }).r.fx = some { x with activated := x.activated - 1 } := by
        have hl := lookup_modify f f (fun y : InstX => { y with activated := y.activated - 1 }) vm.r.fx
        simp only [if_true] at hl
        show OMap.lookup f (OMap.modify f _ vm.r.fx) = _
        rw [hl, hx]; rfl
      rw [getInstX_run_some f _ _ hx1] at h
      simp only at h
      have w1 : WF (vmMod vm f fun y => { y with activated := y.activated - 1 }) := by
        refine ⟨hw.a, ?_, hw.g, ?_⟩
        · unfold WFI
          show vm.ixs.ix.insts.map (·.uid) = (OMap.modify f _ vm.r.fx).map (·.1) ∧ _
          rw [keys_modify']; exact hw.i
        · intro k' x' hx'
          have hl := lookup_modify f k' (fun y : InstX => { y with activated := y.activated - 1 }) vm.r.fx
          have hx'' : OMap.lookup k' (OMap.modify f (fun y : InstX => { y with activated := y.activated - 1 }) vm.r.fx) = some x' := hx'
          rw [hl] at hx''
          by_cases hk : k' = f
          · simp only [hk, if_true, hx, Option.map_some, Option.some.injEq] at hx''
            rw [← hx'']; show 0 ≤ x.activated - 1; omega
          · simp only [hk, if_false] at hx''
            exact hw.n k' x' hx''
      have a1 : absVM ν φ (vmMod vm f fun y => { y with activated := y.activated - 1 }) =
          setFlow (absVM ν φ vm) (ν f) { (absFlow ν φ vm f x) with activated := (absFlow ν φ vm f x).activated - 1 } := by
        rw [absVM_vmMod ν φ hν vm f (fun y => { y with activated := y.activated - 1 }) (fun fl => { fl with activated := fl.activated - 1 })
          (fun u y => by simp only [absFlow]; congr 1; omega), modFlow_some _ _ _ _ hfl]
      have hz : ((absFlow ν φ vm f x).activated - 1 == 0) = decide (x.activated - 1 = 0) := by
        simp only [absFlow]
        by_cases h0 : x.activated - 1 = 0
        · have : x.activated.toNat - 1 = 0 := by omega
          simp [h0, this]
        · have : ¬ x.activated.toNat - 1 = 0 := by omega
          simp [h0, this]
      rw [hz]
      by_cases h0 : x.activated - 1 = 0
      · simp only [h0, decide_true, if_true] at h ⊢
        obtain ⟨B, hB, hrun⟩ : ∃ B : String → PUnit → M (ForInStep PUnit),
            (∀ c u s, B c u s = deactStep tail rec x.flowId c u s) ∧
            (EStateM.bind (forIn x.childFlowUids PUnit.unit B) fun _ => k)
              (vmMod vm f fun y => { y with activated := y.activated - 1 }) = EStateM.Result.ok () vm' := by
          refine ⟨_, ?_, h⟩
          intro c u s
          simp only [deactStep, EStateM.bind]
          rw [getInstX?_run]
          cases OMap.lookup c s.r.fx <;> rfl
        have hBeq : B = deactStep tail rec x.flowId := by
          funext c u s; exact hB c u s
        rw [hBeq] at hrun
        simp only [EStateM.bind] at hrun
        cases hloop : forIn x.childFlowUids PUnit.unit (deactStep tail rec x.flowId)
            (vmMod vm f fun y => { y with activated := y.activated - 1 }) with
        | error e s => rw [hloop] at hrun; cases hrun
        | ok u2 vm2 =>
          rw [hloop] at hrun
          simp only at hrun
          obtain ⟨t2, h2, a2, w2⟩ := deact_loop ν φ hν hφ rec rec0 hrec hcs tail x.flowId x.childFlowUids _ vm2 w1 hloop
          right
          have hfid : (absFlow ν φ vm f x).flowId = φ x.flowId := rfl
          have hch : (absFlow ν φ vm f x).children = x.childFlowUids.map ν := rfl
          rw [← a1, hfid, hch, h2]
          exact ⟨vm2, t2, rfl, a2, w2, hrun⟩
      · simp only [h0, decide_false, Bool.false_eq_true, if_false, EStateM.pure] at h ⊢
        cases h
        left
        exact ⟨_, rfl, by rw [a1]; rfl, w1⟩
    · have hbf : b = false := by cases b <;> simp_all
      subst hbf
      simp only [Bool.false_eq_true, if_false] at h
      rw [hb2]
      right
      exact ⟨vm, absVM ν φ vm, rfl, rfl, hw, h⟩
  · rw [he] at h; cases h

/-! ### transfer of the hierarchy part of the lifetime invariant to `CoreVM.abortFlow` -/

theorem FlowInv.cs {s : State} (h : FlowInv s) : FlowInv (Refine.cs s) := h.of_flows_eq rfl rfl
theorem LinkInv.cs {s : State} (h : LinkInv s) : LinkInv (Refine.cs s) := h.of_flows_eq rfl

/-- **the hierarchy clauses of T2 hold along `CoreVM.abortFlow`**: if the abstraction of a well-formed VM state satisfies
    `FlowInv` (children form, restarted instances under their reference instance, main flow a root, …) and `LinkInv`
    (every listening instance is listed by its parent), so does the abstraction of the state after every normally
    terminating `CoreVM.abortFlow` — hence the parent-pointer form of the lifetime clause (`parent_pointer_form`). -/
theorem corevm_abort_hierarchy_inv (hν : Function.Injective ν) (hφ : Function.Injective φ) (n : Nat) (vm : VM) (f : FUid)
    (sc : List Score) (d : Bool) (vm' : VM) (hw : WF vm) (hf : FlowInv (absVM ν φ vm)) (hl : LinkInv (absVM ν φ vm))
    (h : CoreVM.abortFlow n f sc d vm = .ok () vm') :
    FlowInv (absVM ν φ vm') ∧ LinkInv (absVM ν φ vm') ∧ WF vm' := by
  obtain ⟨t, ht, ha, w'⟩ := corevm_abort_is_op ν φ hν hφ n vm f sc d vm' hw h
  rw [ha]
  exact ⟨FlowInv.cs (abort_flowInv hf n (ν f) d t ht), LinkInv.cs (abortFlow_linked n _ (ν f) d t hl ht), w'⟩

/-! ### non-vacuity: a well-formed VM state on which `CoreVM.abortFlow` terminates normally -/

/-- one instance `"a"` (WAITING, one head), built through the guarded index operation -/
def vmEx : VM :=
  { ixs := ({} : IxS).apply (.addInst "a" "h" none) (by rfl),
    r := { prog := default, fx := [("a", { flowId := "a", loopId := none, hierPos := "0" })] } }

theorem vmEx_wf : WF vmEx := by
  refine ⟨?_, ?_, ?_, ?_⟩
  · intro k a h; simp [vmEx, OMap.lookup] at h
  · exact ⟨by rfl, by decide⟩
  · intro k a h; simp [vmEx, OMap.lookup] at h
  · intro k x h
    simp only [vmEx, OMap.lookup] at h
    split at h
    · cases h; decide
    · cases h

theorem vmEx_abort_ok : (match CoreVM.abortFlow 3 "a" [] false vmEx with | .ok _ _ => true | .error _ _ => false) = true := by rfl

end NemoVerif.Lifetime.Refine
