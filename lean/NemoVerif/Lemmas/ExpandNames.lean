/-
  Lemmas for C12 (phase 4): every label the expansion model defines has a name that begins with a reserved stem.
-/
import NemoVerif.Models.ExpandNames
import NemoVerif.Lemmas.Expand
namespace NemoVerif.Expand
open NemoVerif.Closed

theorem userLabelOK_sound (u : String) (h : userLabelOK u = true) : ¬ Stemmed u := by
  intro ⟨stem, hs, rest, hr⟩
  unfold userLabelOK at h
  simp only [Bool.not_eq_true', List.any_eq_false] at h
  have := h stem hs
  apply this
  rw [hr, String.toList_append]
  exact List.isPrefixOf_iff_prefix.2 ⟨rest.toList, rfl⟩

theorem stemmed_lit (s : String) (h : s ∈ stems) : Stemmed s := ⟨s, h, "", by simp⟩

theorem stemmed_pre (stem rest : String) (h : stem ∈ stems) : Stemmed (stem ++ rest) := ⟨stem, h, rest, rfl⟩

theorem stemmed_render (l : Lbl) (h : Stemmed l.1) : Stemmed (render l) := by
  obtain ⟨stem, hs, rest, hr⟩ := h
  exact ⟨stem, hs, rest ++ toString l.2, by unfold render; rw [hr, String.append_assoc]⟩

/-- every label DEFINED in the piece has a stemmed name -/
def LabP (ps : List (Prim Lbl)) : Prop := ∀ l, Prim.label l ∈ ps → Stemmed l.1

def GenLab (g : Gen) : Prop := ∀ c, LabP (g c).1

theorem labP_nil : LabP [] := by intro l hl; simp at hl

theorem labP_append (a b : List (Prim Lbl)) (ha : LabP a) (hb : LabP b) : LabP (a ++ b) := by
  intro l hl
  rcases List.mem_append.1 hl with hl | hl
  · exact ha l hl
  · exact hb l hl

theorem labP_cons (e : Prim Lbl) (r : List (Prim Lbl)) (he : ∀ l, e = .label l → Stemmed l.1) (hr : LabP r) : LabP (e :: r) := by
  intro l hl
  rcases List.mem_cons.1 hl with hl | hl
  · exact he l hl.symm
  · exact hr l hl

theorem labP_leaves (ps : List (Prim Lbl)) (h : ps.all leaf = true) : LabP ps := by
  intro l hl
  have : leaf (Prim.label l) = true := (List.all_eq_true.1 h) _ hl
  simp [leaf] at this

theorem genConst_lab (ps : List (Prim Lbl)) (h : ps.all leaf = true) : GenLab (genConst ps) :=
  fun _ => labP_leaves ps h

/-! ### the templates -/

theorem itemLabels_pre (pre : Nat → String) (b : Nat) : ∀ (n i : Nat), ∀ l ∈ itemLabels pre b i n, ∃ j, l.1 = pre j := by
  intro n
  induction n with
  | zero => intro i l hl; simp [itemLabels] at hl
  | succ n ih =>
    intro i l hl
    simp only [itemLabels, List.mem_cons] at hl
    rcases hl with hl | hl
    · exact ⟨i, by rw [hl]⟩
    · exact ih (i + 1) l hl

theorem forkItems_lab (e : Lbl) : ∀ (ls : List Lbl) (gens : List Gen) (c : Nat),
    (∀ l ∈ ls, Stemmed l.1) → (∀ g ∈ gens, GenLab g) → LabP (forkItems e ls gens c).1 := by
  intro ls
  induction ls with
  | nil => intro gens c _ _; unfold forkItems; exact labP_nil
  | cons l ls ih =>
    intro gens c hl hg
    cases gens with
    | nil => unfold forkItems; exact labP_nil
    | cons g gs =>
      unfold forkItems
      simp only
      apply labP_cons
      · intro l' h'; cases h'; exact hl l List.mem_cons_self
      · apply labP_append _ _ (hg g List.mem_cons_self c)
        apply labP_cons
        · intro l' h'; cases h'
        · exact ih gs _ (fun x hx => hl x (List.mem_cons_of_mem _ hx)) (fun x hx => hg x (List.mem_cons_of_mem _ hx))

theorem forkTemplate_lab (v : Variant) (pre : Nat → String) (hpre : ∀ j, Stemmed (pre j)) (gens : List Gen)
    (hg : ∀ g ∈ gens, GenLab g) : GenLab (forkTemplate v pre gens) := by
  intro c l hl
  unfold forkTemplate at hl
  simp only at hl
  rcases List.mem_append.1 hl with hl | hl
  · rcases List.mem_append.1 hl with hl | hl
    · exact absurd hl (header_nolabel _ _ _ _ _ _)
    · refine forkItems_lab _ _ gens _ ?_ hg l hl
      intro x hx
      obtain ⟨j, hj⟩ := itemLabels_pre pre _ _ _ x hx
      rw [hj]; exact hpre j
  · rcases (trailer_labels _ _ _ _ _ _ l).1 hl with h | h
    · rw [h]; exact stemmed_lit _ (by simp [stems])
    · rw [h]; exact stemmed_lit _ (by simp [stems])

theorem eventPre_stemmed (j : Nat) : Stemmed (eventPre j) := by
  unfold eventPre; rw [String.append_assoc]; exact stemmed_pre _ _ (by simp [stems])

theorem groupPre_stemmed (j : Nat) : Stemmed (groupPre j) := by
  unfold groupPre; rw [String.append_assoc]; exact stemmed_pre _ _ (by simp [stems])

theorem matchClause_lab (n : Nat) : GenLab (matchClause n) := by
  unfold matchClause
  by_cases h : n ≤ 1
  · simp only [h, if_true]; exact genConst_lab _ (by decide)
  · simp only [h, if_false]
    exact forkTemplate_lab _ _ eventPre_stemmed _ (fun g hg => by
      rw [List.mem_replicate] at hg; rw [hg.2]; exact genConst_lab _ (by decide))

theorem orGroup_lab (v : Variant) (bodies : List Gen) (h : ∀ g ∈ bodies, GenLab g) : GenLab (orGroup v bodies) := by
  unfold orGroup
  split
  · exact h _ List.mem_cons_self
  · exact forkTemplate_lab _ _ groupPre_stemmed _ h

theorem matchGroup_lab (d : List Nat) : GenLab (matchGroup d) :=
  orGroup_lab _ _ (fun g hg => by obtain ⟨n, _, rfl⟩ := List.mem_map.1 hg; exact matchClause_lab n)

theorem sendGroup_lab (d : List Nat) : GenLab (sendGroup d) :=
  orGroup_lab _ _ (fun g hg => by
    obtain ⟨n, _, rfl⟩ := List.mem_map.1 hg; exact genConst_lab _ (replicate_leaf n _ (by decide)))

theorem startGroup_lab (d : DNF) : GenLab (startGroup d) :=
  orGroup_lab _ _ (fun g hg => by obtain ⟨cl, _, rfl⟩ := List.mem_map.1 hg; exact genConst_lab _ (startAll_leaf cl))

theorem awaitClause_lab (cl : Clause) : GenLab (awaitClause cl) := by
  intro c
  unfold awaitClause
  simp only
  exact labP_append _ _ (labP_append _ _ (labP_leaves _ (startAll_leaf cl)) (matchClause_lab _ c)) (labP_leaves _ (refAssigns_leaf cl))

theorem awaitGroup_lab (d : DNF) : GenLab (awaitGroup d) :=
  orGroup_lab _ _ (fun g hg => by obtain ⟨cl, _, rfl⟩ := List.mem_map.1 hg; exact awaitClause_lab cl)

theorem whenClause_lab (cl : Clause) : GenLab (whenClause cl) := by
  intro c
  unfold whenClause
  simp only
  refine labP_append _ _ (labP_append _ _ (labP_leaves _ (startAll_leaf _)) (matchClause_lab _ c)) ?_
  split
  · exact labP_nil
  · exact labP_leaves _ (refAssigns_leaf _)

/-! ### `when` -/

theorem stem_group (x : String) (S : Nat) : Stemmed (("group_" ++ x, S) : Lbl).1 := stemmed_pre _ _ (by simp [stems])

theorem whenGroups_lab (S : Nat) (u : Lbl) (i ng : Nat) (thenG : Gen) (hthen : GenLab thenG) :
    ∀ (cls : List Clause) (g c : Nat), LabP (whenGroups S u i ng thenG g cls c).1 := by
  intro cls
  induction cls with
  | nil => intro g c; unfold whenGroups; exact labP_nil
  | cons cl cls ih =>
    intro g c
    unfold whenGroups
    simp only
    intro l hl
    simp only [List.mem_append, List.mem_cons, List.mem_nil_iff, or_false, Prim.label.injEq, reduceCtorEq, false_or] at hl
    rcases hl with ((((hl | hl) | hl) | hl) | hl) | hl
    · rw [hl]; simp only [String.append_assoc]; exact stemmed_pre _ _ (by simp [stems])
    · exact whenClause_lab cl c l hl
    · rw [hl]; simp only [String.append_assoc]; exact stemmed_pre _ _ (by simp [stems])
    · exact hthen _ l hl
    · rw [hl]; simp only [String.append_assoc]; exact stemmed_pre _ _ (by simp [stems])
    · exact ih _ _ l hl

theorem whenElse_lab (S : Nat) (u : Lbl) (ncases : Nat) (hasElse : Bool) (elseG : Gen) (helse : GenLab elseG) :
    GenLab (whenElse S u ncases hasElse elseG) := by
  intro c l hl
  unfold whenElse at hl
  cases hasElse with
  | false =>
    simp at hl
    rcases hl with hl | hl <;> (rw [hl]; exact stemmed_lit _ (by simp [stems]))
  | true =>
    simp at hl
    rcases hl with hl | hl | hl | hl
    · rw [hl]; exact stemmed_lit _ (by simp [stems])
    · rw [hl]; exact stemmed_lit _ (by simp [stems])
    · exact helse c l hl
    · rw [hl]; exact stemmed_lit _ (by simp [stems])

theorem whenCase_lab (S : Nat) (u : Lbl) (i ncases : Nat) (gu : Lbl) (d : DNF) (hasElse : Bool) (thenG elseG : Gen)
    (hthen : GenLab thenG) (helse : GenLab elseG) : GenLab (whenCase S u i ncases gu d hasElse thenG elseG) := by
  intro c l hl
  unfold whenCase at hl
  simp only [List.mem_append, List.mem_cons, List.mem_nil_iff, or_false, Prim.label.injEq, reduceCtorEq, false_or] at hl
  rcases hl with (hl | hl) | hl
  · rw [hl]; simp only [String.append_assoc]; exact stemmed_pre _ _ (by simp [stems])
  · exact whenGroups_lab S u i _ thenG hthen d 0 c l hl
  · exact whenElse_lab S u ncases hasElse elseG helse _ l hl

theorem expandCases_lab (cb : Option (Lbl × Lbl)) (S : Nat) (u : Lbl) (ncases : Nat) (hasElse : Bool) (elseG : Gen)
    (helse : GenLab elseG) : ∀ (thens : List (List Stmt)) (specs : List DNF) (i c : Nat),
      (∀ t ∈ thens, GenLab (fun k => expand cb t k)) → LabP (expandCases cb S u ncases hasElse elseG i specs thens c).1 := by
  intro thens
  induction thens with
  | nil => intro specs i c _; cases specs <;> (unfold expandCases; exact labP_nil)
  | cons t ts ih =>
    intro specs i c ht
    cases specs with
    | nil => unfold expandCases; exact labP_nil
    | cons d ds =>
      unfold expandCases
      simp only
      exact labP_append _ _ (whenCase_lab S u i ncases _ d hasElse _ elseG (ht t List.mem_cons_self) helse c)
        (ih ds (i + 1) _ (fun x hx => ht x (List.mem_cons_of_mem _ hx)))

/-! ### the whole expansion -/

mutual
  theorem expand_lab : ∀ (cb : Option (Lbl × Lbl)) (ss : List Stmt) (c : Nat), LabP (expand cb ss c).1
    | cb, [], c => by unfold expand; exact labP_nil
    | cb, s :: r, c => by
      unfold expand
      exact labP_append _ _ (expandStmt_lab cb s c) (expand_lab cb r _)
  theorem expandStmt_lab : ∀ (cb : Option (Lbl × Lbl)) (s : Stmt) (c : Nat), LabP (expandStmt cb s c).1
    | cb, .send, c => by unfold expandStmt; simp only; exact labP_leaves _ (by decide)
    | cb, .matchEv, c => by unfold expandStmt; simp only; exact labP_leaves _ (by decide)
    | cb, .assign, c => by unfold expandStmt; simp only; exact labP_leaves _ (by decide)
    | cb, .other k, c => by unfold expandStmt; exact labP_leaves _ (by simp [leaf])
    | cb, .ret, c => by unfold expandStmt; simp only; exact labP_leaves _ (by decide)
    | cb, .abort, c => by unfold expandStmt; simp only; exact labP_leaves _ (by decide)
    | cb, .brk, c => by unfold expandStmt; intro l hl; simp at hl
    | cb, .cont, c => by unfold expandStmt; intro l hl; simp at hl
    | cb, .whileS b, c => by
      unfold expandStmt
      intro l hl
      simp only [List.mem_append, List.mem_cons, List.mem_nil_iff, or_false, Prim.label.injEq, reduceCtorEq, false_or] at hl
      rcases hl with (hl | hl) | hl
      · rw [hl]; exact stemmed_lit _ (by simp [stems])
      · exact expand_lab _ b _ l hl
      · rw [hl]; exact stemmed_lit _ (by simp [stems])
    | cb, .ifS t f, c => by
      unfold expandStmt
      intro l hl
      by_cases hf : f.isEmpty = true
      · simp only [hf, if_true, List.mem_append, List.mem_cons, List.mem_nil_iff, or_false, Prim.label.injEq, reduceCtorEq, false_or] at hl
        rcases hl with hl | hl
        · exact expand_lab cb t _ l hl
        · rw [hl]; exact stemmed_lit _ (by simp [stems])
      · have hf' : f.isEmpty = false := by simpa using hf
        simp only [hf', Bool.false_eq_true, if_false, List.mem_append, List.mem_cons, List.mem_nil_iff, or_false, Prim.label.injEq, reduceCtorEq, false_or] at hl
        rcases hl with ((hl | hl) | hl) | hl
        · exact expand_lab cb t _ l hl
        · rw [hl]; exact stemmed_lit _ (by simp [stems])
        · exact expand_lab cb f _ l hl
        · rw [hl]; exact stemmed_lit _ (by simp [stems])
    | cb, .matchG d, c => by unfold expandStmt; exact matchGroup_lab d c
    | cb, .sendG d, c => by unfold expandStmt; exact sendGroup_lab d c
    | cb, .startS d, c => by unfold expandStmt; exact startGroup_lab d c
    | cb, .awaitOne k rv, c => by
      unfold expandStmt
      apply labP_leaves
      apply all_leaf_append _ _ (all_leaf_append _ _ (startAtom_leaf k) (by decide))
      cases rv <;> decide
    | cb, .awaitG d, c => by unfold expandStmt; exact awaitGroup_lab d c
    | cb, .activateS n, c => by unfold expandStmt; exact labP_leaves _ (flatten_replicate_leaf n _ (by decide))
    | cb, .deactivateS n, c => by unfold expandStmt; exact labP_leaves _ (replicate_leaf n _ (by decide))
    | cb, .nld, c => by unfold expandStmt; simp only; exact labP_leaves _ (by decide)
    | cb, .whenS specs thens els hasElse, c => by
      unfold expandStmt
      simp only
      apply labP_cons _ _ (by intro l h; cases h)
      apply labP_cons _ _ (by intro l h; cases h)
      exact expandCases_lab cb c _ _ hasElse _ (fun k => expand_lab cb els k) thens specs 0 _
        (fun t ht k => expandLists_lab cb thens t ht k)
  theorem expandLists_lab : ∀ (cb : Option (Lbl × Lbl)) (ts : List (List Stmt)), ∀ t ∈ ts, ∀ c, LabP (expand cb t c).1
    | cb, [] => by intro t ht; simp at ht
    | cb, t0 :: ts => by
      intro t ht c
      rcases List.mem_cons.1 ht with ht | ht
      · rw [ht]; exact expand_lab cb t0 c
      · exact expandLists_lab cb ts t ht c
end

end NemoVerif.Expand
