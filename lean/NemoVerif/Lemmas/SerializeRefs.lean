import NemoVerif.Models.SerializeRefs

namespace NemoVerif.Refs

variable {σ τ : Type}

theorem agree_cons {H : Nat → Lab σ τ} {refs : List Nat} {tbl : List (Nat × Lab σ τ)} (h : Agree H refs tbl) (i : Nat) :
    Agree H (i :: refs) ((i, H i) :: tbl) := by
  intro j
  by_cases e : j = i
  · subst e; simp [lookup]
  · have := h j
    have e' : (i == j) = false := by simp; exact fun h => e h.symm
    simp only [lookup, List.find?_cons, e', List.mem_cons, e, false_or]
    simpa [lookup] using this

mutual
theorem roundtrip (H : Nat → Lab σ τ) : (t : Lab σ τ) → (refs : List Nat) → (tbl : List (Nat × Lab σ τ)) →
    Consistent H t → Agree H refs tbl →
    ∃ tbl', decodeS tbl (encodeS refs t).1 = some (t, tbl') ∧ Agree H (encodeS refs t).2 tbl'
  | .leaf a, refs, tbl, _, ha => ⟨tbl, by simp [encodeS, decodeS], by simpa [encodeS] using ha⟩
  | .seq xs, refs, tbl, hc, ha => by
    simp only [Consistent] at hc
    obtain ⟨tbl', h1, h2⟩ := roundtrip_list H xs refs tbl hc ha
    exact ⟨tbl', by simp [encodeS, decodeS, h1], by simpa [encodeS] using h2⟩
  | .node i t kids, refs, tbl, hc, ha => by
    simp only [Consistent] at hc
    by_cases hi : i ∈ refs
    · refine ⟨tbl, ?_, by simpa [encodeS, hi] using ha⟩
      have := (ha i).1 hi
      simp [encodeS, hi, decodeS, this, hc.1]
    · have hi' := hi
      obtain ⟨tbl', h1, h2⟩ := roundtrip_list H kids refs tbl hc.2 ha
      refine ⟨(i, .node i t kids) :: tbl', by simp [encodeS, hi', decodeS, h1], ?_⟩
      have := agree_cons h2 i
      simpa [encodeS, hi', hc.1] using this
theorem roundtrip_list (H : Nat → Lab σ τ) : (xs : List (Lab σ τ)) → (refs : List Nat) → (tbl : List (Nat × Lab σ τ)) →
    ConsistentList H xs → Agree H refs tbl →
    ∃ tbl', decodeSList tbl (encodeSList refs xs).1 = some (xs, tbl') ∧ Agree H (encodeSList refs xs).2 tbl'
  | [], refs, tbl, _, ha => ⟨tbl, by simp [encodeSList, decodeSList], by simpa [encodeSList] using ha⟩
  | x :: xs, refs, tbl, hc, ha => by
    simp only [ConsistentList] at hc
    obtain ⟨tbl1, h1, h2⟩ := roundtrip H x refs tbl hc.1 ha
    obtain ⟨tbl2, h3, h4⟩ := roundtrip_list H xs (encodeS refs x).2 tbl1 hc.2 h2
    exact ⟨tbl2, by simp [encodeSList, decodeSList, h1, h3], by simpa [encodeSList] using h4⟩
end

end NemoVerif.Refs
