/-
  Lemmas for C14 phase 4, goal 3: the action loop `generate_events` (model `V1Run.genLoop`) on a single
  non-competing dialog flow decides, iteration after iteration, the statements of the structured program.

  `refLoop` is the source-level reference of one turn: the same loop, but the decision of each iteration is read off
  the structured state `SS` of `V1Follow.followAll` (context updates + the event of the statement `execFrom` reaches
  next) instead of being computed by the flow interpreter; the events the loop appends are fed back to `followAll`.
-/
import NemoVerif.Lemmas.V1Follow
import NemoVerif.Models.V1Run
namespace NemoVerif.V1RunL
open NemoVerif.V1Interp NemoVerif.V1Struct NemoVerif.V1Follow NemoVerif.V1Run

/-- what the reference appends in one iteration when the structured state is `S` -/
def refNext (oracle : Oracle) (S : SS) (events : List REvent) : Option (List REvent) :=
  match events.getLast? with
  | none => none
  | some (.start n p rk) => some (processStartAction oracle events n p rk)
  | some (.ev .hidePrevTurn) => some [listen]
  | some _ => some (S.dec.map decisionToREvent)

/-- the reference turn: `none` = the events leave the flow (e.g. a failed action), or the loop fuel ran out -/
def refLoop (p : Prog) (i0 : String) (fS : Nat) (oracle : Oracle) : Nat → SS → List REvent → List REvent → Option (List REvent)
  | 0, _, _, _ => none
  | f + 1, S, events, new =>
    match refNext oracle S events with
    | none => none
    | some nx =>
      let nx := if nx.isEmpty then [listen] else nx
      let new' := new ++ nx
      if (nx.getLast?.map REvent.isListen).getD false then some new'
      else if new'.length > 100 then some (new' ++ internalError GENERIC_ERROR ++ [listen])
      else match followAll p i0 fS S (nx.map REvent.toEvent) with
        | none => none
        | some S' => refLoop p i0 fS oracle f S' (events ++ nx) new'

theorem followAll_append (p : Prog) (i0 : String) (f : Nat) : ∀ (H1 H2 : List Event) (S S1 : SS),
    followAll p i0 f S H1 = some S1 → followAll p i0 f S (H1 ++ H2) = followAll p i0 f S1 H2 := by
  intro H1
  induction H1 with
  | nil => intro H2 S S1 h; simp only [followAll, Option.some.injEq] at h; subst h; rfl
  | cons e r ih =>
    intro H2 S S1 h
    simp only [followAll, List.cons_append] at h ⊢
    cases hs : followStep p i0 f S e with
    | none => simp [hs] at h
    | some S' =>
      simp only [hs] at h ⊢
      exact ih H2 S' S1 h


/-! ### the same for a flow with subflow calls (reference state `SK`) -/

open NemoVerif.V1StackFollow in
def refNextK (oracle : Oracle) (S : SK) (events : List REvent) : Option (List REvent) :=
  match events.getLast? with
  | none => none
  | some (.start n p rk) => some (processStartAction oracle events n p rk)
  | some (.ev .hidePrevTurn) => some [listen]
  | some _ => some (S.dec.map decisionToREvent)

open NemoVerif.V1StackFollow in
def refLoopK (lib : Lib) (id : String) (p : Prog) (i0 : String) (fS : Nat) (oracle : Oracle) : Nat → SK → List REvent → List REvent → Option (List REvent)
  | 0, _, _, _ => none
  | f + 1, S, events, new =>
    match refNextK oracle S events with
    | none => none
    | some nx =>
      let nx := if nx.isEmpty then [listen] else nx
      let new' := new ++ nx
      if (nx.getLast?.map REvent.isListen).getD false then some new'
      else if new'.length > 100 then some (new' ++ internalError GENERIC_ERROR ++ [listen])
      else match followAllK lib id p i0 fS S (nx.map REvent.toEvent) with
        | none => none
        | some S' => refLoopK lib id p i0 fS oracle f S' (events ++ nx) new'

open NemoVerif.V1StackFollow in
theorem followAllK_append (lib : Lib) (id : String) (p : Prog) (i0 : String) (f : Nat) : ∀ (H1 H2 : List Event) (S S1 : SK),
    followAllK lib id p i0 f S H1 = some S1 → followAllK lib id p i0 f S (H1 ++ H2) = followAllK lib id p i0 f S1 H2 := by
  intro H1
  induction H1 with
  | nil => intro H2 S S1 h; simp only [followAllK, Option.some.injEq] at h; subst h; rfl
  | cons e r ih =>
    intro H2 S S1 h
    simp only [followAllK, List.cons_append] at h ⊢
    cases hs : followStepK lib id p i0 f S e with
    | none => simp [hs] at h
    | some S' =>
      simp only [hs] at h ⊢
      exact ih H2 S' S1 h

end NemoVerif.V1RunL
