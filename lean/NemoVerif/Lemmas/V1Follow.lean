/-
  Lemmas for the full `next_step_is_flow_statement` (C14): the bookkeeping of `computeNextState`
  around the slide, for a single non-competing dialog flow without subflow calls.

  `followStep` / `followAll` — the source-level reference: where the flow stands (idle, or waiting at the
  step statement at an address) and what is decided, after each event of a history that follows the flow.
  `Inv` — the invariant relating the interpreter state (the one flow state's head / status, the context,
  the recorded next step and context updates) to that structured position.
  `step_inv` — one event preserves the invariant (or the model's fixed fuel ran out).
-/
import NemoVerif.Lemmas.V1Struct
import NemoVerif.Models.V1Ref
namespace NemoVerif.V1Follow
open NemoVerif.V1Interp NemoVerif.V1Struct

/-- the flow config of a dialog flow compiled from `p` (all defaults: priority 1.0, interruptible, …) -/
def mkCfg (id : String) (p : Prog) : FlowCfg := { id := id, elems := compile p }

/-- no subflow calls -/
def noDo : Prog → Bool
  | .nil => true
  | .step (.doFlow _) _ => false
  | .step _ r => noDo r
  | .set _ _ r => noDo r
  | .ite _ t e r => noDo t && noDo e && noDo r
  | .while _ b r => noDo b && noDo r
  | .brk r => noDo r
  | .cont r => noDo r

inductive SPos where
  | idle
  | at (a : Addr)
  deriving DecidableEq, Repr

/-- structured state of a followed flow: context, position, and what is decided after the last event -/
structure SS where
  ctx : Ctx
  pos : SPos
  dec : List Decision
  deriving Repr

def outcomeSS (p : Prog) : Out → Option SS
  | .atStep st a' => match stepAt p a' with
    | some s' => some { ctx := st.ctx, pos := .at a', dec := ctxDec st.upd ++ stepDec s' }
    | none => none
  | .fell st => some { ctx := st.ctx, pos := .idle, dec := ctxDec st.upd }
  | _ => none

/-- One event of a history that follows the flow `p` (whose first statement is `user i0`):
    `none` = the history leaves the flow here (or an expression raises / the run does not end). -/
def followStep (p : Prog) (i0 : String) (f : Nat) (S : SS) (ev : Event) : Option SS :=
  match ev with
  | .startAction => some S
  | .contextUpdate d => some { S with ctx := S.ctx.update d, dec := [] }
  | .hidePrevTurn => none
  | ev =>
    if ev == .botIntent "stop" then none else
    match S.pos with
    | .at a => match stepAt p a with
      | some s =>
        if ev.triggers [] then
          (if isMatch (elemOf s) ev then outcomeSS p (execFrom f ⟨S.ctx.withEvent ev, []⟩ p a) else none)
        else some { S with ctx := S.ctx.withEvent ev, dec := stepDec s }
      | none => none
    | .idle =>
      if isMatch (.userIntent i0) ev then outcomeSS p (execFrom f ⟨S.ctx.withEvent ev, []⟩ p .here)
      else some { S with ctx := S.ctx.withEvent ev, dec := [] }

def followAll (p : Prog) (i0 : String) (f : Nat) : SS → List Event → Option SS
  | S, [] => some S
  | S, ev :: rest => match followStep p i0 f S ev with
    | some S' => followAll p i0 f S' rest
    | none => none

/-- invariant between the structured position and the interpreter state -/
def Inv (id : String) (p : Prog) (S : SS) (st : State) : Prop :=
  st.ctx = S.ctx ∧ decisionsOf st = S.dec ∧
  match S.pos with
  | .idle => st.flows = [] ∨ ∃ u h, st.flows = [{ uid := u, flowId := id, head := h, status := .completed, interruptedBy := none }]
  | .at a => ∃ u, st.flows = [{ uid := u, flowId := id, head := ((off p a : Nat) : Int), status := .active, interruptedBy := none }]

/-! ### small facts -/

theorem find_single (id : String) (p : Prog) : Cfgs.find [mkCfg id p] id = some (mkCfg id p) := by
  simp [Cfgs.find, List.find?, mkCfg]

theorem noDo_rest {p : Prog} (h : noDo p = true) : noDo (rest p) = true := by
  cases p with
  | step s r => cases s <;> simp_all [noDo, rest]
  | _ => simp_all [noDo, rest]

theorem noDo_stepAt : ∀ (a : Addr) (p : Prog) (s : Step), noDo p = true → stepAt p a = some s → ∀ n, s ≠ .doFlow n := by
  intro a
  induction a with
  | here =>
    intro p s hn h n
    cases p <;> simp [stepAt] at h
    subst h
    rename_i s' r
    cases s' <;> simp_all [noDo]
  | next a ih =>
    intro p s hn h
    by_cases hp : p = .nil
    · subst hp; simp [stepAt] at h
    · rw [stepAt_next hp] at h
      exact ih (rest p) s (noDo_rest hn) h
  | thenB a ih =>
    intro p s hn h
    cases p <;> simp [stepAt] at h
    simp only [noDo, Bool.and_eq_true] at hn
    exact ih _ s hn.1.1 h
  | elseB a ih =>
    intro p s hn h
    cases p <;> simp [stepAt] at h
    simp only [noDo, Bool.and_eq_true] at hn
    exact ih _ s hn.1.2 h
  | body a ih =>
    intro p s hn h
    cases p <;> simp [stepAt] at h
    simp only [noDo, Bool.and_eq_true] at hn
    exact ih _ s hn.1 h

theorem slide_fin_neg : ∀ (f : Nat) (code : List Elem) (st : SSt) (pos prev : Int) (st' : SSt) (h : Int),
    0 ≤ prev → slide f code st pos prev = .fin st' h → h < 0 := by
  intro f
  induction f with
  | zero => intro code st pos prev st' h _ hs; simp [slide] at hs
  | succ f ih =>
    intro code st pos prev st' h hp hs
    simp only [slide] at hs
    by_cases hend : pos = (code.length : Int) ∨ pos < 0
    · simp only [hend, if_true] at hs
      injection hs with _ h2
      omega
    · simp only [hend, if_false] at hs
      cases hst : sstep code st pos with
      | next st2 h2 =>
        simp only [hst] at hs
        exact ih code st2 h2 pos st' h (by omega) hs
      | stop => simp [hst] at hs
      | err => simp [hst] at hs

/-! ### the phases of `computeNextState` for a single flow -/

def tailPhases (cfgs : Cfgs) (ns : State) (ext : Bool) : Except Err State :=
  let ns := if ext then reactivateAborted cfgs ns.flows [] ns else ns
  let ns := markInterrupted ns
  let ns := extensionInterrupt cfgs ns
  resumeLoop true 100 cfgs ns

/-- the body of `computeNextState` for every event that is neither StartInternalSystemAction nor ContextUpdate -/
def generalBody (cfgs : Cfgs) (st : State) (ev : Event) : Except Err State :=
  let ns : State := { ctx := st.ctx.withEvent ev, flows := [], next := none, upd := [], ctr := st.ctr }
  match advanceAll true cfgs ev st.flows ns false with
  | .error e => .error e
  | .ok (ns, ext) =>
    match startNew true cfgs ev cfgs ns with
    | .error e => .error e
    | .ok ns => tailPhases cfgs ns ext

theorem cns_general (cfgs : Cfgs) (st : State) (ev : Event) (h1 : ev ≠ .startAction) (h2 : ∀ d, ev ≠ .contextUpdate d) :
    computeNextState true cfgs st ev = generalBody cfgs st ev := by
  cases ev with
  | startAction => exact absurd rfl h1
  | contextUpdate d => exact absurd rfl (h2 d)
  | userIntent i => rfl
  | botIntent i => rfl
  | actionFinished n ok => rfl
  | hidePrevTurn => rfl
  | other ty ps => rfl

theorem tail_empty (cfgs : Cfgs) (ns : State) (h : ns.flows = []) : tailPhases cfgs ns false = .ok ns := by
  obtain ⟨ctx, flows, next, upd, ctr⟩ := ns
  simp only at h
  subst h
  cases next <;> simp [tailPhases, markInterrupted, extensionInterrupt, resumeLoop, resumePass]

theorem ext_single (id : String) (p : Prog) (ctx : Ctx) (next : Option NextStep) (upd : Ctx) (ctr : Nat) (fs : FS)
    (hid : fs.flowId = id) :
    extensionInterrupt [mkCfg id p] { ctx := ctx, flows := [fs], next := next, upd := upd, ctr := ctr }
      = { ctx := ctx, flows := [fs], next := next, upd := upd, ctr := ctr } := by
  cases next with
  | none => rfl
  | some n =>
    simp only [extensionInterrupt]
    by_cases hu : (fs.uid == n.uid) = true
    · have hf := find_single id p
      simp only [List.filter, hu, List.getLast?_singleton, hid, hf]
      simp [mkCfg]
    · simp [List.filter, hu]

theorem resumePass_single (cfgs : Cfgs) (ns : State) (fs : FS) (f : Nat) (hfl : ns.flows = [fs])
    (hni : (fs.status == Status.interrupted) = false) :
    resumePass true (f + 2) cfgs ns 0 false = .ok (ns, false) := by
  simp [resumePass, hfl, hni]

theorem resume_single (cfgs : Cfgs) (ns : State) (fs : FS) (hfl : ns.flows = [fs])
    (hni : (fs.status == Status.interrupted) = false) :
    resumeLoop true 100 cfgs ns = .ok ns := by
  have h1 : resumePass true 1000 cfgs ns 0 false = .ok (ns, false) := resumePass_single cfgs ns fs 998 hfl hni
  have key : ∀ g : Nat, resumeLoop true (g + 1) cfgs ns = .ok ns := by
    intro g
    simp only [resumeLoop]
    rw [h1]
    simp
  exact key 99

theorem tail_single (id : String) (p : Prog) (ns : State) (u : Nat) (h : Int) (s : Status)
    (hs : s = .active ∨ s = .completed)
    (hf : ns.flows = [{ uid := u, flowId := id, head := h, status := s, interruptedBy := none }]) :
    tailPhases [mkCfg id p] ns false = .ok ns := by
  obtain ⟨ctx, flows, next, upd, ctr⟩ := ns
  simp only at hf
  subst hf
  have hni : (s == Status.interrupted) = false := by rcases hs with h | h <;> subst h <;> rfl
  have hne : s ≠ Status.interrupted := by rcases hs with h | h <;> subst h <;> decide
  have hm : markInterrupted { ctx := ctx, flows := [{ uid := u, flowId := id, head := h, status := s, interruptedBy := none }], next := next, upd := upd, ctr := ctr }
      = { ctx := ctx, flows := [{ uid := u, flowId := id, head := h, status := s, interruptedBy := none }], next := next, upd := upd, ctr := ctr } := by
    simp [markInterrupted, hne]
  simp only [tailPhases, Bool.false_eq_true, if_false, hm]
  rw [ext_single id p ctx next upd ctr _ rfl]
  exact resume_single _ _ _ rfl hni

theorem startNew_skip (id : String) (p : Prog) (ev : Event) (ns : State) (fs : FS) (hid : fs.flowId = id)
    (hf : ns.flows = [fs]) : startNew true [mkCfg id p] ev [mkCfg id p] ns = .ok ns := by
  simp [startNew, startOne, mkCfg, hf, hid]

theorem adv_completed (id : String) (p : Prog) (ev : Event) (ns : State) (u : Nat) (h : Int) :
    advanceAll true [mkCfg id p] ev [{ uid := u, flowId := id, head := h, status := .completed, interruptedBy := none }] ns false
      = .ok (ns, false) := by
  simp [advanceAll, advanceOne, find_single]

/-! ### the slide inside `slideWithSubflows` -/

theorem resume_slides (p : Prog) (a : Addr) (f : Nat) (st : SSt) :
    Sound (compile p) st ((off p a + 1 : Nat) : Int) 0 none p (execFrom f st p a) := by
  have h := execFrom_sound f p a none [] [] (compile p) st (by simp [compile_eq_comp])
  simpa using h

theorem initPrev_nonneg (code : List Elem) (n : Nat) : 0 ≤ initPrev code ((n + 1 : Nat) : Int) := by
  simp only [initPrev]
  split <;> omega

theorem slideWS_atStep (g : Nat) (id : String) (p : Prog) (f : Nat) (a a' : Addr) (s' : Step) (st' : SSt) (ns : State) (fs : FS)
    (hid : fs.flowId = id) (hh : fs.head = ((off p a + 1 : Nat) : Int))
    (hrun : execFrom f ⟨ns.ctx, ns.upd⟩ p a = .atStep st' a') (hs' : stepAt p a' = some s') (hnd : ∀ n, s' ≠ .doFlow n) :
    slideWithSubflows true (g + 1) [mkCfg id p] ns fs = .error .oof ∨
    slideWithSubflows true (g + 1) [mkCfg id p] ns fs =
      .ok (recordNextStep { ns with ctx := st'.ctx, upd := st'.upd } { fs with head := ((off p a' : Nat) : Int) } (mkCfg id p) false,
           { fs with head := ((off p a' : Nat) : Int) }) := by
  have hsound := resume_slides p a f ⟨ns.ctx, ns.upd⟩
  rw [hrun] at hsound
  simp only [Sound] at hsound
  rw [show (((0 : Nat) : Int) + ((off p a' : Nat) : Int)) = ((off p a' : Nat) : Int) by simp] at hsound
  have hland : (compile p)[off p a']? = some (elemOf s') := by
    have := comp_at_off a' p none [] [] s' hs'
    simpa [compile_eq_comp] using this
  have hfind := find_single id p
  simp only [slideWithSubflows, hid, hfind, hh]
  have hel : (mkCfg id p).elems = compile p := rfl
  rw [hel]
  cases hr : slide SLIDE_FUEL (compile p) ⟨ns.ctx, ns.upd⟩ ((off p a + 1 : Nat) : Int) (initPrev (compile p) ((off p a + 1 : Nat) : Int)) with
  | oof => left; rfl
  | err =>
    have := slides_agree hsound (by rw [hr]; simp)
    rw [hr] at this; simp [absRes] at this
  | fin s h =>
    have := slides_agree hsound (by rw [hr]; simp)
    rw [hr] at this; simp [absRes] at this
  | «at» s h =>
    have := slides_agree hsound (by rw [hr]; simp)
    rw [hr] at this
    simp only [absRes, Option.some.injEq, ARes.at.injEq] at this
    obtain ⟨rfl, rfl⟩ := this
    right
    simp only [Int.toNat_natCast, hland]
    cases s' with
    | user i => rfl
    | bot i => rfl
    | exec n ps rk => rfl
    | doFlow n => exact absurd rfl (hnd n)

theorem slideWS_fell (g : Nat) (id : String) (p : Prog) (f : Nat) (a : Addr) (st' : SSt) (ns : State) (fs : FS)
    (hid : fs.flowId = id) (hh : fs.head = ((off p a + 1 : Nat) : Int))
    (hrun : execFrom f ⟨ns.ctx, ns.upd⟩ p a = .fell st') :
    slideWithSubflows true (g + 1) [mkCfg id p] ns fs = .error .oof ∨
    ∃ h : Int, h < 0 ∧ slideWithSubflows true (g + 1) [mkCfg id p] ns fs =
      .ok ({ ns with ctx := st'.ctx, upd := st'.upd }, { fs with head := h }) := by
  have hsound := resume_slides p a f ⟨ns.ctx, ns.upd⟩
  rw [hrun] at hsound
  simp only [Sound] at hsound
  have hfin := hsound _ (slides_end (code := compile p) (st := st') (pos := ((0 + size p : Nat) : Int)) (by simp [compile_eq_comp, comp_length]))
  have hfind := find_single id p
  simp only [slideWithSubflows, hid, hfind, hh]
  have hel : (mkCfg id p).elems = compile p := rfl
  rw [hel]
  cases hr : slide SLIDE_FUEL (compile p) ⟨ns.ctx, ns.upd⟩ ((off p a + 1 : Nat) : Int) (initPrev (compile p) ((off p a + 1 : Nat) : Int)) with
  | oof => left; rfl
  | err =>
    have := slides_agree hfin (by rw [hr]; simp)
    rw [hr] at this; simp [absRes] at this
  | «at» s h =>
    have := slides_agree hfin (by rw [hr]; simp)
    rw [hr] at this; simp [absRes] at this
  | fin s h =>
    have := slides_agree hfin (by rw [hr]; simp)
    rw [hr] at this
    simp only [absRes, Option.some.injEq, ARes.fin.injEq] at this
    subst this
    right
    exact ⟨h, slide_fin_neg _ _ _ _ _ _ _ (initPrev_nonneg _ _) hr, rfl⟩

/-! ### the advance / start phases on a followed flow -/

theorem pyIndex_nat (l : List Elem) (n : Nat) : pyIndex l ((n : Nat) : Int) = l[n]? := by
  have : ¬ ((n : Nat) : Int) < 0 := by omega
  simp [pyIndex, this]

theorem landing (p : Prog) (a : Addr) (s : Step) (h : stepAt p a = some s) : (compile p)[off p a]? = some (elemOf s) := by
  have := comp_at_off a p none [] [] s h
  simpa [compile_eq_comp] using this

/-- what `decisionsOf` reads after `_record_next_step` was called on a fresh state at the position of statement `s` -/
theorem decisions_record (id : String) (p : Prog) (a : Addr) (s : Step) (hs : stepAt p a = some s)
    (ctx upd : Ctx) (flows flows' : List FS) (ctr : Nat) (fs : FS) (m : Bool) (hh : fs.head = ((off p a : Nat) : Int)) :
    decisionsOf { (recordNextStep { ctx := ctx, flows := flows, next := none, upd := upd, ctr := ctr } fs (mkCfg id p) m) with flows := flows' }
      = ctxDec upd ++ stepDec s := by
  have hidx : pyIndex (mkCfg id p).elems fs.head = some (elemOf s) := by
    rw [hh, pyIndex_nat]; exact landing p a s hs
  simp only [recordNextStep, hidx, decisionsOf, ctxDec, stepDec]
  by_cases hact : isActionable (elemOf s) = true
  · simp [hact]
    cases stepToEvent (elemOf s) <;> simp
  · simp [hact]

theorem record_fields (ns : State) (fs : FS) (cfg : FlowCfg) (m : Bool) :
    (recordNextStep ns fs cfg m).ctx = ns.ctx ∧ (recordNextStep ns fs cfg m).flows = ns.flows ∧
    (recordNextStep ns fs cfg m).upd = ns.upd ∧ (recordNextStep ns fs cfg m).ctr = ns.ctr := by
  simp only [recordNextStep]
  cases pyIndex cfg.elems fs.head with
  | none => simp
  | some el =>
    simp only []
    refine ⟨?_, ?_, ?_, ?_⟩ <;> (split <;> split <;> rfl)

theorem slide_stop_now (g : Nat) (code : List Elem) (st : SSt) (h prev : Int) (hin : 0 ≤ h ∧ h < code.length)
    (hs : sstep code st h = .stop) : slide (g + 1) code st h prev = .at st h := by
  have h1 : ¬ (h = (code.length : Int) ∨ h < 0) := by omega
  simp [slide, h1, hs]

theorem advanceOne_follow (id : String) (p : Prog) (a : Addr) (s : Step) (hs : stepAt p a = some s) (ev : Event) (ns : State) (u : Nat)
    (htr : ev.triggers [] = true) (hm : isMatch (elemOf s) ev = true) :
    advanceOne true [mkCfg id p] ev ns false { uid := u, flowId := id, head := ((off p a : Nat) : Int), status := .active, interruptedBy := none }
      = (match slideWithSubflows true SUB_FUEL [mkCfg id p] ns { uid := u, flowId := id, head := ((off p a : Nat) : Int) + 1, status := .active, interruptedBy := none } with
         | .error e => .error e
         | .ok (ns, fs) =>
           if fs.head < 0 then .ok ({ ns with flows := ns.flows ++ [{ fs with status := .completed }] }, false)
           else .ok ({ ns with flows := ns.flows ++ [fs] }, false)) := by
  have hidx : pyIndex (mkCfg id p).elems ((off p a : Nat) : Int) = some (elemOf s) := by
    rw [pyIndex_nat]; exact landing p a s hs
  have hne : ((((off p a : Nat) : Int) + 1) != 0) = true := by
    simp; omega
  have htr' : ev.triggers (mkCfg id p).triggers = true := htr
  simp only [advanceOne, find_single, hidx, htr', hm, hne]
  simp [mkCfg]
  rfl

theorem advanceOne_other (id : String) (p : Prog) (a : Addr) (s : Step) (hs : stepAt p a = some s) (ev : Event) (ns : State) (u : Nat)
    (htr : ev.triggers [] = false) :
    advanceOne true [mkCfg id p] ev ns false { uid := u, flowId := id, head := ((off p a : Nat) : Int), status := .active, interruptedBy := none }
      = .ok (recordNextStep { ns with flows := ns.flows ++ [{ uid := u, flowId := id, head := ((off p a : Nat) : Int), status := .active, interruptedBy := none }] }
          { uid := u, flowId := id, head := ((off p a : Nat) : Int), status := .active, interruptedBy := none } (mkCfg id p) true, false) := by
  have hidx : pyIndex (mkCfg id p).elems ((off p a : Nat) : Int) = some (elemOf s) := by
    rw [pyIndex_nat]; exact landing p a s hs
  have htr' : ev.triggers (mkCfg id p).triggers = false := htr
  simp [advanceOne, find_single, hidx, htr']

theorem slideWS_atStep' (id : String) (p : Prog) (f : Nat) (a a' : Addr) (s' : Step) (st' : SSt) (ns : State) (fs : FS)
    (hid : fs.flowId = id) (hh : fs.head = ((off p a + 1 : Nat) : Int))
    (hrun : execFrom f ⟨ns.ctx, ns.upd⟩ p a = .atStep st' a') (hs' : stepAt p a' = some s') (hnd : ∀ n, s' ≠ .doFlow n) :
    slideWithSubflows true SUB_FUEL [mkCfg id p] ns fs = .error .oof ∨
    slideWithSubflows true SUB_FUEL [mkCfg id p] ns fs =
      .ok (recordNextStep { ns with ctx := st'.ctx, upd := st'.upd } { fs with head := ((off p a' : Nat) : Int) } (mkCfg id p) false,
           { fs with head := ((off p a' : Nat) : Int) }) :=
  slideWS_atStep 63 id p f a a' s' st' ns fs hid hh hrun hs' hnd

theorem slideWS_fell' (id : String) (p : Prog) (f : Nat) (a : Addr) (st' : SSt) (ns : State) (fs : FS)
    (hid : fs.flowId = id) (hh : fs.head = ((off p a + 1 : Nat) : Int))
    (hrun : execFrom f ⟨ns.ctx, ns.upd⟩ p a = .fell st') :
    slideWithSubflows true SUB_FUEL [mkCfg id p] ns fs = .error .oof ∨
    ∃ h : Int, h < 0 ∧ slideWithSubflows true SUB_FUEL [mkCfg id p] ns fs =
      .ok ({ ns with ctx := st'.ctx, upd := st'.upd }, { fs with head := h }) :=
  slideWS_fell 63 id p f a st' ns fs hid hh hrun

/-- the `| ev =>` branch of `followStep` -/
def followGeneral (p : Prog) (i0 : String) (f : Nat) (S : SS) (ev : Event) : Option SS :=
  if ev == .botIntent "stop" then none else
  match S.pos with
  | .at a => match stepAt p a with
    | some s =>
      if ev.triggers [] then
        (if isMatch (elemOf s) ev then outcomeSS p (execFrom f ⟨S.ctx.withEvent ev, []⟩ p a) else none)
      else some { S with ctx := S.ctx.withEvent ev, dec := stepDec s }
    | none => none
  | .idle =>
    if isMatch (.userIntent i0) ev then outcomeSS p (execFrom f ⟨S.ctx.withEvent ev, []⟩ p .here)
    else some { S with ctx := S.ctx.withEvent ev, dec := [] }

theorem startOne_idle (id i0 : String) (r : Prog) (ev : Event) (ns : State) (hfl : ns.flows = []) :
    startOne true [mkCfg id (.step (.user i0) r)] ev ns (mkCfg id (.step (.user i0) r)) =
      if isMatch (.userIntent i0) ev then
        (match slideWithSubflows true SUB_FUEL [mkCfg id (.step (.user i0) r)]
            { ns with ctr := ns.ctr + 1, flows := [{ uid := ns.ctr, flowId := id, head := 0 + 1 }] }
            { uid := ns.ctr, flowId := id, head := 0 + 1 } with
         | .error e => .error e
         | .ok (ns', fs') =>
           .ok { ns' with flows := setAt ns'.flows 0 (if (true && decide (fs'.head < 0)) = true then { fs' with status := .completed } else fs') })
      else .ok ns := by
  have hsl : ∀ prev, slide SLIDE_FUEL (compile (.step (.user i0) r)) ⟨ns.ctx, ns.upd⟩ 0 prev = .at ⟨ns.ctx, ns.upd⟩ 0 :=
    fun prev => slide_stop_now 4999 _ _ 0 prev (by simp [compile]) (by simp [sstep, compile, elemOf])
  obtain ⟨ctx, flows, next, upd, ctr⟩ := ns
  simp only at hfl
  subst hfl
  simp only [startOne, mkCfg, hsl]
  simp [pyIndex, compile, elemOf]
  rfl

theorem Except_cases {α} (x : Except Err α) : (∃ e, x = .error e) ∨ ∃ a, x = .ok a := by
  cases x with
  | error e => exact .inl ⟨e, rfl⟩
  | ok a => exact .inr ⟨a, rfl⟩

theorem step_general (id i0 : String) (r : Prog) (hnd : noDo (.step (.user i0) r) = true) (f : Nat) (S S' : SS) (st : State) (ev : Event)
    (hinv : Inv id (.step (.user i0) r) S st) (hstep : followGeneral (.step (.user i0) r) i0 f S ev = some S') :
    generalBody [mkCfg id (.step (.user i0) r)] st ev = .error .oof ∨
    ∃ st', generalBody [mkCfg id (.step (.user i0) r)] st ev = .ok st' ∧ Inv id (.step (.user i0) r) S' st' := by
  generalize hpdef : Prog.step (.user i0) r = p at *
  obtain ⟨hctx, hdec, hpos⟩ := hinv
  obtain ⟨ctx0, flows0, next0, upd0, ctr0⟩ := st
  simp only at hctx hpos
  subst hctx
  simp only [followGeneral] at hstep
  by_cases hstop : (ev == Event.botIntent "stop") = true
  · simp [hstop] at hstep
  simp only [hstop, Bool.false_eq_true, if_false] at hstep
  cases hp : S.pos with
  | idle =>
    rw [hp] at hstep hpos
    simp only at hstep hpos
    have hadv : ∀ ns : State, advanceAll true [mkCfg id p] ev flows0 ns false = .ok (ns, false) := by
      intro ns
      rcases hpos with h | ⟨u, h, hf⟩
      · rw [h]; rfl
      · rw [hf]; exact adv_completed id p ev ns u h
    simp only [generalBody, hadv, startNew]
    subst hpdef
    rw [startOne_idle id i0 r ev _ rfl]
    by_cases hm : isMatch (.userIntent i0) ev = true
    · simp only [hm, if_true] at hstep ⊢
      cases hout : execFrom f ⟨S.ctx.withEvent ev, []⟩ (.step (.user i0) r) .here with
      | atStep st' a' =>
        rw [hout] at hstep
        simp only [outcomeSS] at hstep
        cases hs' : stepAt (.step (.user i0) r) a' with
        | none => simp [hs'] at hstep
        | some s' =>
          simp only [hs', Option.some.injEq] at hstep
          subst hstep
          have h := slideWS_atStep' id (.step (.user i0) r) f .here a' s' st'
            { ctx := S.ctx.withEvent ev, flows := [{ uid := ctr0, flowId := id, head := 0 + 1 }], next := none, upd := [], ctr := ctr0 + 1 }
            { uid := ctr0, flowId := id, head := 0 + 1 } rfl (by simp [off]) hout hs' (noDo_stepAt a' _ s' hnd hs')
          rcases h with h | h
          · left
            rw [h]
          · right
            rw [h]
            have hneg : ¬ (((off (Prog.step (.user i0) r) a' : Nat) : Int) < 0) := by omega
            have hrf := record_fields
              { ctx := st'.ctx, flows := [{ uid := ctr0, flowId := id, head := 0 + 1 }], next := none, upd := st'.upd, ctr := ctr0 + 1 }
              { uid := ctr0, flowId := id, head := ((off (Prog.step (.user i0) r) a' : Nat) : Int) } (mkCfg id (.step (.user i0) r)) false
            simp only [hneg, decide_false, Bool.and_false, Bool.false_eq_true, if_false, hrf.2.1, setAt, List.set]
            refine ⟨_, tail_single id _ _ ctr0 _ .active (.inl rfl) rfl, ?_, ?_, ?_⟩
            · exact (record_fields _ _ _ _).1
            · exact decisions_record id _ a' s' hs' _ _ _ _ _ _ false rfl
            · exact ⟨ctr0, rfl⟩
      | fell st' =>
        rw [hout] at hstep
        simp only [outcomeSS, Option.some.injEq] at hstep
        subst hstep
        have h := slideWS_fell' id (.step (.user i0) r) f .here st'
          { ctx := S.ctx.withEvent ev, flows := [{ uid := ctr0, flowId := id, head := 0 + 1 }], next := none, upd := [], ctr := ctr0 + 1 }
          { uid := ctr0, flowId := id, head := 0 + 1 } rfl (by simp [off]) hout
        rcases h with h | ⟨hd, hneg, h⟩
        · left
          rw [h]
        · right
          rw [h]
          simp only [hneg, decide_true, Bool.and_true, if_true, setAt, List.set]
          refine ⟨_, tail_single id _ _ ctr0 hd .completed (.inr rfl) rfl, rfl, ?_, ?_⟩
          · simp [decisionsOf, ctxDec]
          · exact .inr ⟨ctr0, hd, rfl⟩
      | brk s => rw [hout] at hstep; simp [outcomeSS] at hstep
      | cnt s => rw [hout] at hstep; simp [outcomeSS] at hstep
      | err => rw [hout] at hstep; simp [outcomeSS] at hstep
      | oof => rw [hout] at hstep; simp [outcomeSS] at hstep
      | bad => rw [hout] at hstep; simp [outcomeSS] at hstep
    · simp only [hm, Bool.false_eq_true, if_false, Option.some.injEq] at hstep ⊢
      subst hstep
      right
      refine ⟨_, tail_empty _ _ rfl, rfl, ?_, ?_⟩
      · simp [decisionsOf]
      · exact .inl rfl
  | «at» a =>
    rw [hp] at hstep hpos
    simp only at hstep hpos
    obtain ⟨u, hfl⟩ := hpos
    subst hfl
    cases hs : stepAt p a with
    | none => simp [hs] at hstep
    | some s =>
      simp only [hs] at hstep
      by_cases htr : ev.triggers [] = true
      · simp only [htr, if_true] at hstep
        by_cases hm : isMatch (elemOf s) ev = true
        · simp only [hm, if_true] at hstep
          simp only [generalBody, advanceAll, advanceOne_follow id p a s hs ev _ u htr hm]
          cases hout : execFrom f ⟨S.ctx.withEvent ev, []⟩ p a with
          | atStep st' a' =>
            rw [hout] at hstep
            simp only [outcomeSS] at hstep
            cases hs' : stepAt p a' with
            | none => simp [hs'] at hstep
            | some s' =>
              simp only [hs', Option.some.injEq] at hstep
              subst hstep
              have h := slideWS_atStep' id p f a a' s' st'
                { ctx := S.ctx.withEvent ev, flows := [], next := none, upd := [], ctr := ctr0 }
                { uid := u, flowId := id, head := ((off p a : Nat) : Int) + 1, status := .active, interruptedBy := none }
                rfl (by push_cast; rfl) hout hs' (noDo_stepAt a' p s' (hpdef ▸ hnd) hs')
              rcases h with h | h
              · left
                rw [h]
              · right
                rw [h]
                have hneg : ¬ (((off p a' : Nat) : Int) < 0) := by omega
                have hrf := record_fields
                  { ctx := st'.ctx, flows := [], next := none, upd := st'.upd, ctr := ctr0 }
                  { uid := u, flowId := id, head := ((off p a' : Nat) : Int), status := .active, interruptedBy := none } (mkCfg id p) false
                simp only [hneg, if_false, hrf.2.1, List.nil_append]
                rw [startNew_skip id p ev _ { uid := u, flowId := id, head := ((off p a' : Nat) : Int), status := .active, interruptedBy := none } rfl rfl]
                refine ⟨_, tail_single id _ _ u _ .active (.inl rfl) rfl, ?_, ?_, ?_⟩
                · exact hrf.1
                · exact decisions_record id _ a' s' hs' _ _ _ _ _ _ false rfl
                · exact ⟨u, rfl⟩
          | fell st' =>
            rw [hout] at hstep
            simp only [outcomeSS, Option.some.injEq] at hstep
            subst hstep
            have h := slideWS_fell' id p f a st'
              { ctx := S.ctx.withEvent ev, flows := [], next := none, upd := [], ctr := ctr0 }
              { uid := u, flowId := id, head := ((off p a : Nat) : Int) + 1, status := .active, interruptedBy := none }
              rfl (by push_cast; rfl) hout
            rcases h with h | ⟨hd, hneg, h⟩
            · left
              rw [h]
            · right
              rw [h]
              simp only [hneg, if_true, List.nil_append]
              rw [startNew_skip id p ev _ { uid := u, flowId := id, head := hd, status := .completed, interruptedBy := none } rfl rfl]
              refine ⟨_, tail_single id _ _ u hd .completed (.inr rfl) rfl, rfl, ?_, ?_⟩
              · simp [decisionsOf, ctxDec]
              · exact .inr ⟨u, hd, rfl⟩
          | brk s => rw [hout] at hstep; simp [outcomeSS] at hstep
          | cnt s => rw [hout] at hstep; simp [outcomeSS] at hstep
          | err => rw [hout] at hstep; simp [outcomeSS] at hstep
          | oof => rw [hout] at hstep; simp [outcomeSS] at hstep
          | bad => rw [hout] at hstep; simp [outcomeSS] at hstep
        · simp [hm] at hstep
      · have htr' : ev.triggers [] = false := by simpa using htr
        simp only [htr', Bool.false_eq_true, if_false, Option.some.injEq] at hstep
        subst hstep
        right
        simp only [generalBody, advanceAll, advanceOne_other id p a s hs ev _ u htr', List.nil_append]
        have hrf := record_fields
          { ctx := S.ctx.withEvent ev, flows := [{ uid := u, flowId := id, head := ((off p a : Nat) : Int), status := .active, interruptedBy := none }], next := none, upd := [], ctr := ctr0 }
          { uid := u, flowId := id, head := ((off p a : Nat) : Int), status := .active, interruptedBy := none } (mkCfg id p) true
        rw [startNew_skip id p ev _ { uid := u, flowId := id, head := ((off p a : Nat) : Int), status := .active, interruptedBy := none } rfl hrf.2.1]
        refine ⟨_, tail_single id _ _ u _ .active (.inl rfl) hrf.2.1, hrf.1, ?_, ?_⟩
        · have := decisions_record id p a s hs (S.ctx.withEvent ev) []
            [{ uid := u, flowId := id, head := ((off p a : Nat) : Int), status := .active, interruptedBy := none }]
            [{ uid := u, flowId := id, head := ((off p a : Nat) : Int), status := .active, interruptedBy := none }] ctr0
            { uid := u, flowId := id, head := ((off p a : Nat) : Int), status := .active, interruptedBy := none } true rfl
          simp only [ctxDec, List.isEmpty_nil, if_true, List.nil_append] at this
          rw [← this]
          congr 1
          obtain ⟨_, h2, _, _⟩ := hrf
          cases hr : recordNextStep _ _ _ _
          simp_all
        · simp only [hp]
          exact ⟨u, hrf.2.1⟩

/-! ### every event, whole histories -/

theorem follow_ok_event {p : Prog} {i0 : String} {f : Nat} {S S' : SS} {ev : Event}
    (h : followStep p i0 f S ev = some S') : ev ≠ .hidePrevTurn ∧ ev ≠ .botIntent "stop" := by
  constructor
  · intro he; subst he; simp [followStep] at h
  · intro he; subst he; simp [followStep] at h

theorem step_inv (id i0 : String) (r : Prog) (hnd : noDo (.step (.user i0) r) = true) (f : Nat) (S S' : SS) (st : State) (ev : Event)
    (hinv : Inv id (.step (.user i0) r) S st) (hstep : followStep (.step (.user i0) r) i0 f S ev = some S') :
    computeNextState true [mkCfg id (.step (.user i0) r)] st ev = .error .oof ∨
    ∃ st', computeNextState true [mkCfg id (.step (.user i0) r)] st ev = .ok st' ∧ Inv id (.step (.user i0) r) S' st' := by
  cases ev with
  | startAction =>
    simp only [followStep, Option.some.injEq] at hstep
    subst hstep
    exact .inr ⟨st, rfl, hinv⟩
  | contextUpdate d =>
    simp only [followStep, Option.some.injEq] at hstep
    subst hstep
    obtain ⟨hctx, _, hpos⟩ := hinv
    refine .inr ⟨_, rfl, ?_, ?_, ?_⟩
    · simp [hctx]
    · simp [decisionsOf]
    · exact hpos
  | hidePrevTurn => simp [followStep] at hstep
  | userIntent i =>
    rw [cns_general _ _ _ (by simp) (by simp)]
    exact step_general id i0 r hnd f S S' st _ hinv hstep
  | botIntent i =>
    rw [cns_general _ _ _ (by simp) (by simp)]
    exact step_general id i0 r hnd f S S' st _ hinv hstep
  | actionFinished n ok =>
    rw [cns_general _ _ _ (by simp) (by simp)]
    exact step_general id i0 r hnd f S S' st _ hinv hstep
  | other ty ps =>
    rw [cns_general _ _ _ (by simp) (by simp)]
    exact step_general id i0 r hnd f S S' st _ hinv hstep

theorem replay_follow (id i0 : String) (r : Prog) (hnd : noDo (.step (.user i0) r) = true) (f : Nat) :
    ∀ (H : List Event) (S S' : SS) (st : State), Inv id (.step (.user i0) r) S st →
      followAll (.step (.user i0) r) i0 f S H = some S' →
      replay true [mkCfg id (.step (.user i0) r)] H st = .error .oof ∨
      ∃ st', replay true [mkCfg id (.step (.user i0) r)] H st = .ok st' ∧ Inv id (.step (.user i0) r) S' st' := by
  intro H
  induction H with
  | nil =>
    intro S S' st hinv hf
    simp only [followAll, Option.some.injEq] at hf
    subst hf
    exact .inr ⟨st, rfl, hinv⟩
  | cons ev rest ih =>
    intro S S' st hinv hf
    simp only [followAll] at hf
    cases hfs : followStep (.step (.user i0) r) i0 f S ev with
    | none => simp [hfs] at hf
    | some S1 =>
      simp only [hfs] at hf
      have hns := (follow_ok_event hfs).2
      have hb : (ev == Event.botIntent "stop") = false := by simpa using hns
      rcases step_inv id i0 r hnd f S S1 st ev hinv hfs with h | ⟨st1, h, hinv1⟩
      · left; simp [replay, h]
      · simp only [replay, h, hb, Bool.false_eq_true, if_false]
        exact ih S1 S' st1 hinv1 hf

theorem follow_events {p : Prog} {i0 : String} {f : Nat} : ∀ (H : List Event) (S S' : SS),
    followAll p i0 f S H = some S' → ∀ ev ∈ H, ev ≠ .hidePrevTurn ∧ ev ≠ .botIntent "stop" := by
  intro H
  induction H with
  | nil => intro S S' _ ev hev; cases hev
  | cons e rest ih =>
    intro S S' hf ev hev
    simp only [followAll] at hf
    cases hfs : followStep p i0 f S e with
    | none => simp [hfs] at hf
    | some S1 =>
      simp only [hfs] at hf
      rcases List.mem_cons.1 hev with h | h
      · subst h; exact follow_ok_event hfs
      · exact ih S1 S' hf ev h

theorem applyHide_nohide : ∀ (H acc : List Event), (∀ ev ∈ H, ev ≠ .hidePrevTurn) → applyHide H acc = some (acc ++ H) := by
  intro H
  induction H with
  | nil => intro acc _; simp [applyHide]
  | cons e rest ih =>
    intro acc h
    have he := h e (List.mem_cons_self ..)
    have hr := ih (acc ++ [e]) (fun ev hev => h ev (List.mem_cons_of_mem _ hev))
    cases e <;> first | exact absurd rfl he | (simp only [applyHide]; rw [hr]; simp)

/-- **Whole histories.**  If the history `H` follows the flow (`followAll` succeeds from the idle state with the
    empty context) then `computeNextSteps` on the single flow decides exactly what the structured reference
    says after the last event — unless the model's fixed fuel ran out. -/
theorem follow_decides (id i0 : String) (r : Prog) (hnd : noDo (.step (.user i0) r) = true) (f : Nat) (H : List Event) (S : SS)
    (hf : followAll (.step (.user i0) r) i0 f { ctx := [], pos := .idle, dec := [] } H = some S) :
    computeNextSteps true [mkCfg id (.step (.user i0) r)] H = .oof ∨
    computeNextSteps true [mkCfg id (.step (.user i0) r)] H = .ok S.dec := by
  have hev := follow_events H _ _ hf
  have hh := applyHide_nohide H [] (fun ev h => (hev ev h).1)
  simp only [List.nil_append] at hh
  have hinv0 : Inv id (.step (.user i0) r) { ctx := [], pos := .idle, dec := [] } { ctx := [] } :=
    ⟨rfl, by simp [decisionsOf], .inl rfl⟩
  simp only [computeNextSteps, hh]
  rcases replay_follow id i0 r hnd f H _ S _ hinv0 hf with h | ⟨st, h, hinv⟩
  · left; rw [h]
  · right
    rw [h]
    have hlast : (H.getLast? == some (Event.botIntent "stop")) = false := by
      cases hl : H.getLast? with
      | none => rfl
      | some e =>
        have hmem : e ∈ H := List.mem_of_getLast? hl
        have := (hev e hmem).2
        simpa using this
    simp only [hlast, Bool.false_eq_true, if_false]
    rw [hinv.2.1]

end NemoVerif.V1Follow
