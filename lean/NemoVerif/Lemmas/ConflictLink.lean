/-
  Lemmas for Models/ConflictLink.lean: a candidate with score 0 is in none of the three result lists of the matching
  phase, the scan does not touch instance records, the post-scan aborts keep every other record but its child list.
-/
import NemoVerif.Models.ConflictLink
import NemoVerif.Lemmas.ErrContain
import NemoVerif.Lemmas.Conflict

namespace NemoVerif.ConflictLink
open NemoVerif.ErrContain NemoVerif.Conflict List

theorem zero_not_selected (cands : List Cand) (c : Cand) (hz : c.score = .zero) :
    c ∉ (matchPhaseRepaired cands).matching ∧ c ∉ (matchPhaseRepaired cands).failing ∧ c ∉ (matchPhaseRepaired cands).erroring := by
  obtain ⟨h1, h2, h3⟩ := matchPhaseRepaired_spec cands
  rw [h1, h2, h3]
  refine ⟨?_, ?_, ?_⟩ <;> intro h <;> have := (mem_filter.1 h).2 <;> simp [isPos, isNeg, isErr, hz] at this

theorem selected_nonzero (cands : List Cand) (c : Cand)
    (h : c ∈ (matchPhaseRepaired cands).matching ∨ c ∈ (matchPhaseRepaired cands).failing ∨ c ∈ (matchPhaseRepaired cands).erroring) :
    c ∈ cands ∧ c.score ≠ .zero := by
  obtain ⟨h1, h2, h3⟩ := matchPhaseRepaired_spec cands
  rw [h1, h2, h3] at h
  rcases h with h | h | h <;> have hm := mem_filter.1 h <;> refine ⟨hm.1, ?_⟩ <;> intro hz <;>
    simp [isPos, isNeg, isErr, hz] at hm

theorem upd_of_insts_eq {R : Inst → Inst → Prop} {s s1 s2 : St} (he : s1.insts = s.insts) (h : Upd R s1 s2) : Upd R s s2 := by
  unfold Upd at h ⊢
  rw [he] at h
  exact h

theorem postScan_upd (caught : Cand → Bool) (s : St) (out : MatchOut) :
    Upd (KeepsButChildren (abortedByPhase caught out)) s (postScan caught s out) := by
  unfold postScan abortedByPhase
  refine Upd.trans (abortErroring_upd _ s) (abortErroring_upd _ _) ?_
  intro a b d hab hbd
  refine ⟨by rw [hbd.1, hab.1], fun hn => ?_⟩
  simp only [mem_append, not_or] at hn
  have e1 := hab.2 hn.1
  have e2 := hbd.2 (by rw [hab.1]; exact hn.2)
  rw [e2, e1]

end NemoVerif.ConflictLink
