/-
  Completeness of the rank checker of `Models/SlideGraph.lean` (core Lean only):
  if the sliding graph is acyclic then the Gauss–Seidel search `computeRank` finds a rank that
  `checkRank` accepts, i.e. `slideAcyclic p = true`.

  Proof idea.  `Walk p u m` = there is a walk of exactly `m` edges starting at `u`.  Two invariants of the
  arrays produced by the sweeps (started from the all-zero table):
    * `Wit p a`    : every entry is witnessed by a walk (`Walk p u (a[u])`)               — upper bound;
    * `Low p k a`  : every walk of at most `k` edges from `u` is accounted for (`m ≤ a[u]`) — lower bound,
                     one sweep turns `Low k` into `Low (k+1)` (also for the in-place Gauss–Seidel order),
                     and a stable array keeps gaining (`relaxAll p a = a → Low k a → Low (k+j) a`).
  Under `SlideAcyclic p` a walk never repeats a vertex, so it has at most `p.length` edges (pigeonhole).
  For an edge `u → v` of the final array `r`: `Walk v r[v]`, hence `Walk u (r[v]+1)`, `r[v]+1 ≤ p.length`,
  hence `r[v] + 1 ≤ r[u]` by `Low (p.length + 2) r`.
-/
import NemoVerif.Lemmas.SlideGraph

namespace NemoVerif.SlideGraph

/-! ### walks -/

/-- a walk of exactly `m` edges of the sliding graph starts at `u` -/
inductive Walk (p : Prog) : Nat → Nat → Prop where
  | zero (u : Nat) : Walk p u 0
  | succ {u v m : Nat} : Edge p u v → Walk p v m → Walk p u (m + 1)

theorem Walk.inv {p : Prog} {u m : Nat} (h : Walk p u (m + 1)) : ∃ v, Edge p u v ∧ Walk p v m := by
  cases h with
  | succ e w => exact ⟨_, e, w⟩

theorem edge_lt {p : Prog} {u v : Nat} (he : Edge p u v) : u < p.length := by
  unfold Edge succs at he
  cases hp : p[u]? with
  | none => simp [hp] at he
  | some e => rcases List.getElem?_eq_some_iff.mp hp with ⟨hl, _⟩; exact hl

/-- in an acyclic sliding graph the edge sources of a walk are pairwise distinct positions of the element list -/
theorem walk_path {p : Prog} (hac : SlideAcyclic p) {u m : Nat} (h : Walk p u m) :
    ∃ l : List Nat, l.length = m ∧ l.Nodup ∧ ∀ x ∈ l, x < p.length ∧ Reach p u x := by
  induction h with
  | zero u => exact ⟨[], rfl, List.nodup_nil, by simp⟩
  | @succ u v m e _ ih =>
    obtain ⟨l, hl, hn, hx⟩ := ih
    refine ⟨u :: l, by simp [hl], ?_, ?_⟩
    · rw [List.nodup_cons]
      refine ⟨?_, hn⟩
      intro hmem
      exact hac u v e (hx u hmem).2
    · intro x hx'
      rcases List.mem_cons.mp hx' with hx' | hx'
      · subst hx'; exact ⟨edge_lt e, .refl _⟩
      · exact ⟨(hx x hx').1, .step e (hx x hx').2⟩

/-- pigeonhole: a walk in an acyclic sliding graph has at most `p.length` edges -/
theorem walk_le {p : Prog} (hac : SlideAcyclic p) {u m : Nat} (h : Walk p u m) : m ≤ p.length := by
  obtain ⟨l, hl, hn, hx⟩ := walk_path hac h
  have := nodup_bounded_length hn (fun x hx' => (hx x hx').1)
  omega

/-! ### `foldl max` -/

theorem foldl_max_ge_init (f : Nat → Nat) (l : List Nat) (i : Nat) :
    i ≤ l.foldl (fun m v => max m (f v)) i := by
  induction l generalizing i with
  | nil => simp
  | cons a l ih =>
    simp only [List.foldl_cons]
    exact Nat.le_trans (Nat.le_max_left _ _) (ih _)

theorem foldl_max_ge_mem (f : Nat → Nat) (l : List Nat) (i : Nat) {v : Nat} (hv : v ∈ l) :
    f v ≤ l.foldl (fun m v => max m (f v)) i := by
  induction l generalizing i with
  | nil => simp at hv
  | cons a l ih =>
    simp only [List.foldl_cons]
    rcases List.mem_cons.mp hv with h | h
    · subst h; exact Nat.le_trans (Nat.le_max_right _ _) (foldl_max_ge_init f l _)
    · exact ih _ h

theorem foldl_max_cases (f : Nat → Nat) (l : List Nat) (i : Nat) :
    l.foldl (fun m v => max m (f v)) i = i ∨ ∃ v ∈ l, l.foldl (fun m v => max m (f v)) i = f v := by
  induction l generalizing i with
  | nil => left; rfl
  | cons a l ih =>
    simp only [List.foldl_cons]
    rcases ih (max i (f a)) with h | ⟨v, hv, h⟩
    · rw [h]
      rcases Nat.le_total i (f a) with h' | h'
      · right; exact ⟨a, by simp, Nat.max_eq_right h'⟩
      · left; exact Nat.max_eq_left h'
    · right; exact ⟨v, List.mem_cons_of_mem _ hv, h⟩

/-! ### one write of a sweep -/

/-- the value a sweep writes at position `u` -/
def relaxVal (p : Prog) (r : Array Nat) (u : Nat) : Nat :=
  (succs p u).foldl (fun m v => max m (r.getD v 0 + 1)) 0

/-- one in-place write of a sweep -/
def relaxStep (p : Prog) (r : Array Nat) (u : Nat) : Array Nat :=
  r.setIfInBounds u (relaxVal p r u)

theorem relaxAll_eq (p : Prog) (r : Array Nat) :
    relaxAll p r = (List.range p.length).reverse.foldl (relaxStep p) r := rfl

theorem size_relaxStep (p : Prog) (r : Array Nat) (u : Nat) : (relaxStep p r u).size = r.size := by
  simp [relaxStep]

theorem getD_relaxStep (p : Prog) (r : Array Nat) (u v : Nat) :
    (relaxStep p r u).getD v 0 = if v = u ∧ u < r.size then relaxVal p r u else r.getD v 0 := by
  unfold relaxStep
  simp only [Array.getD_eq_getD_getElem?, Array.getElem?_setIfInBounds]
  split <;> split <;> simp_all <;> grind

theorem relaxVal_ge {p : Prog} {r : Array Nat} {u v : Nat} (he : Edge p u v) :
    r.getD v 0 + 1 ≤ relaxVal p r u :=
  foldl_max_ge_mem (fun v => r.getD v 0 + 1) (succs p u) 0 he

theorem relaxVal_cases (p : Prog) (r : Array Nat) (u : Nat) :
    relaxVal p r u = 0 ∨ ∃ v, Edge p u v ∧ relaxVal p r u = r.getD v 0 + 1 := by
  rcases foldl_max_cases (fun v => r.getD v 0 + 1) (succs p u) 0 with h | ⟨v, hv, h⟩
  · exact Or.inl h
  · exact Or.inr ⟨v, hv, h⟩

theorem size_foldl_relaxStep (p : Prog) (us : List Nat) (r : Array Nat) :
    (us.foldl (relaxStep p) r).size = r.size := by
  induction us generalizing r with
  | nil => rfl
  | cons u us ih => simp only [List.foldl_cons]; rw [ih, size_relaxStep]

theorem size_relaxAll (p : Prog) (r : Array Nat) : (relaxAll p r).size = r.size := by
  rw [relaxAll_eq]; exact size_foldl_relaxStep p _ r

/-! ### upper bound: every entry is witnessed by a walk -/

def Wit (p : Prog) (a : Array Nat) : Prop := ∀ u, Walk p u (a.getD u 0)

theorem wit_relaxStep {p : Prog} {a : Array Nat} (h : Wit p a) (u : Nat) : Wit p (relaxStep p a u) := by
  intro v
  rw [getD_relaxStep]
  split
  · rename_i hc
    obtain ⟨hvu, _⟩ := hc
    subst hvu
    rcases relaxVal_cases p a v with h0 | ⟨w, he, hw⟩
    · rw [h0]; exact .zero _
    · rw [hw]; exact .succ he (h w)
  · exact h v

theorem wit_foldl {p : Prog} (us : List Nat) {a : Array Nat} (h : Wit p a) : Wit p (us.foldl (relaxStep p) a) := by
  induction us generalizing a with
  | nil => exact h
  | cons u us ih => simp only [List.foldl_cons]; exact ih (wit_relaxStep h u)

theorem wit_relaxAll {p : Prog} {a : Array Nat} (h : Wit p a) : Wit p (relaxAll p a) := by
  rw [relaxAll_eq]; exact wit_foldl _ h

/-! ### lower bound: every walk of at most `k` edges is accounted for -/

/-- walks of at most `k` edges are accounted for everywhere, walks of at most `k+1` edges at the positions in `S` -/
def LowOn (p : Prog) (S : Nat → Prop) (k : Nat) (a : Array Nat) : Prop :=
  ∀ v m, Walk p v m → (m ≤ k ∨ (m ≤ k + 1 ∧ S v)) → m ≤ a.getD v 0

def Low (p : Prog) (k : Nat) (a : Array Nat) : Prop := ∀ v m, Walk p v m → m ≤ k → m ≤ a.getD v 0

theorem lowOn_relaxStep {p : Prog} {S : Nat → Prop} {k : Nat} {a : Array Nat} (hsz : p.length ≤ a.size)
    (h : LowOn p S k a) (u : Nat) : LowOn p (fun v => S v ∨ v = u) k (relaxStep p a u) := by
  intro v m hw hm
  rw [getD_relaxStep]
  split
  · rename_i hc
    obtain ⟨hvu, _⟩ := hc
    subst hvu
    cases m with
    | zero => exact Nat.zero_le _
    | succ m =>
      obtain ⟨w, he, hw'⟩ := hw.inv
      have h1 : m ≤ a.getD w 0 := h w m hw' (Or.inl (by omega))
      have h2 := relaxVal_ge (r := a) he
      omega
  · rename_i hc
    rcases hm with hm | ⟨hm, hS | hvu⟩
    · exact h v m hw (Or.inl hm)
    · exact h v m hw (Or.inr ⟨hm, hS⟩)
    · -- `v = u` but nothing was written: impossible for a position with an outgoing edge
      cases m with
      | zero => exact Nat.zero_le _
      | succ m =>
        obtain ⟨w, he, _⟩ := hw.inv
        have := edge_lt he
        exact absurd ⟨hvu, by omega⟩ hc

theorem lowOn_foldl {p : Prog} {k : Nat} (us : List Nat) :
    ∀ {S : Nat → Prop} {a : Array Nat}, p.length ≤ a.size → LowOn p S k a →
      LowOn p (fun v => S v ∨ v ∈ us) k (us.foldl (relaxStep p) a) := by
  induction us with
  | nil =>
    intro S a _ h v m hw hm
    apply h v m hw
    rcases hm with hm | ⟨hm, hS | hmem⟩
    · exact Or.inl hm
    · exact Or.inr ⟨hm, hS⟩
    · simp at hmem
  | cons u us ih =>
    intro S a hsz h
    simp only [List.foldl_cons]
    have h1 := lowOn_relaxStep hsz h u
    have h2 := ih (by rw [size_relaxStep]; exact hsz) h1
    intro v m hw hm
    apply h2 v m hw
    rcases hm with hm | ⟨hm, hS | hmem⟩
    · exact Or.inl hm
    · exact Or.inr ⟨hm, Or.inl (Or.inl hS)⟩
    · rcases List.mem_cons.mp hmem with hmem | hmem
      · exact Or.inr ⟨hm, Or.inl (Or.inr hmem)⟩
      · exact Or.inr ⟨hm, Or.inr hmem⟩

/-- one (Gauss–Seidel) sweep accounts for walks that are one edge longer -/
theorem low_relaxAll {p : Prog} {k : Nat} {a : Array Nat} (hsz : p.length ≤ a.size) (h : Low p k a) :
    Low p (k + 1) (relaxAll p a) := by
  have h0 : LowOn p (fun _ => False) k a := by
    intro v m hw hm
    rcases hm with hm | ⟨_, hf⟩
    · exact h v m hw hm
    · exact hf.elim
  have h1 := lowOn_foldl (List.range p.length).reverse hsz h0
  rw [relaxAll_eq]
  intro v m hw hm
  cases m with
  | zero => exact Nat.zero_le _
  | succ m =>
    obtain ⟨w, he, _⟩ := hw.inv
    have hv := edge_lt he
    apply h1 v (m + 1) hw
    exact Or.inr ⟨hm, Or.inr (by simp [hv])⟩

theorem low_stable {p : Prog} {k : Nat} {a : Array Nat} (hsz : p.length ≤ a.size) (hst : relaxAll p a = a)
    (h : Low p k a) (j : Nat) : Low p (k + j) a := by
  induction j with
  | zero => exact h
  | succ j ih =>
    have := low_relaxAll hsz ih
    rw [hst] at this
    exact this

/-! ### the search -/

theorem computeRank_inv {p : Prog} (n : Nat) :
    ∀ (k : Nat) (r : Array Nat), p.length ≤ r.size → Wit p r → Low p k r →
      Wit p (computeRank p n r) ∧ Low p (k + n) (computeRank p n r) := by
  induction n with
  | zero => intro k r _ hw hl; exact ⟨hw, hl⟩
  | succ n ih =>
    intro k r hsz hw hl
    unfold computeRank
    simp only
    split
    · rename_i hst
      have hst' : relaxAll p r = r := by simpa using hst
      exact ⟨hw, low_stable hsz hst' hl (n + 1)⟩
    · have := ih (k + 1) (relaxAll p r) (by rw [size_relaxAll]; exact hsz) (wit_relaxAll hw) (low_relaxAll hsz hl)
      have e : k + 1 + n = k + (n + 1) := by omega
      rw [e] at this
      exact this

theorem le_tableSize_aux (f : Nat → Nat → Nat) (hf : ∀ m u, m ≤ f m u) (l : List Nat) (i : Nat) :
    i ≤ l.foldl f i := by
  induction l generalizing i with
  | nil => exact Nat.le_refl _
  | cons a l ih => simp only [List.foldl_cons]; exact Nat.le_trans (hf i a) (ih _)

theorem le_tableSize (p : Prog) : p.length ≤ tableSize p := by
  unfold tableSize
  have := le_tableSize_aux (fun m u => (succs p u).foldl (fun m v => max m (v + 1)) m)
    (fun m u => foldl_max_ge_init (fun v => v + 1) (succs p u) m) (List.range p.length) (p.length + 1)
  omega

/-- any table that is witnessed by walks and accounts for all walks of at most `p.length` edges is accepted -/
theorem checkRank_of_wit_low {p : Prog} (hac : SlideAcyclic p) {r : Array Nat} {k : Nat} (hk : p.length ≤ k)
    (hw : Wit p r) (hl : Low p k r) : checkRank p r = true := by
  unfold checkRank
  rw [List.all_eq_true]
  intro u _
  rw [List.all_eq_true]
  intro v hv
  have he : Edge p u v := hv
  have h1 : Walk p u (r.getD v 0 + 1) := .succ he (hw v)
  have h2 := walk_le hac h1
  have h3 := hl u _ h1 (by omega)
  simp only [decide_eq_true_eq]
  omega

/-- CHECKER COMPLETENESS: an acyclic sliding graph is accepted by the checker. -/
theorem slideAcyclic_complete (p : Prog) (h : SlideAcyclic p) : slideAcyclic p = true := by
  unfold slideAcyclic
  have hsz : p.length ≤ (Array.replicate (tableSize p) 0).size := by
    simp only [Array.size_replicate]; exact le_tableSize p
  have hw0 : Wit p (Array.replicate (tableSize p) 0) := by
    intro u
    have : (Array.replicate (tableSize p) 0).getD u 0 = 0 := by
      simp only [Array.getD_eq_getD_getElem?, Array.getElem?_replicate]
      split <;> rfl
    rw [this]; exact .zero _
  have hl0 : Low p 0 (Array.replicate (tableSize p) 0) := by
    intro v m _ hm; omega
  obtain ⟨hw, hl⟩ := computeRank_inv (p.length + 2) 0 _ hsz hw0 hl0
  exact checkRank_of_wit_low h (by omega) hw hl

/-- the checker decides acyclicity of the sliding graph -/
theorem slideAcyclic_iff (p : Prog) : slideAcyclic p = true ↔ SlideAcyclic p :=
  ⟨fun h => checkRank_sound h, slideAcyclic_complete p⟩

#print axioms slideAcyclic_complete

end NemoVerif.SlideGraph
