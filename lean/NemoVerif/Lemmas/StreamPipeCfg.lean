/-
  C18 — two-stage `pipe_to`: the producer forwards into a handler that has its own prefix/suffix/stop
  configuration.  Shape of the producer's output (`okOut_shape`: non-empty strings, then only end markers),
  end markers pushed into a handler whose stream is over change nothing (`done_push_end`), `on_llm_end` always
  forwards an end marker (`run_has_end`), and the composition theorem `pipe_cfg_delivered`.
-/
import NemoVerif.Lemmas.StreamPipe
set_option linter.unusedSimpArgs false
set_option linter.unusedVariables false
namespace NemoVerif.Stream

/-! #### shape of the producer's output -/

theorem isEnd_false_iff {x : Option Str} : isEnd x = false ↔ ∃ c, x = some c ∧ c ≠ [] := by
  cases x with
  | none => simp [isEnd]
  | some c => cases c <;> simp [isEnd]

/-- an `okOut` list is: non-empty strings, then only end markers -/
theorem okOut_shape : ∀ {out : List (Option Str)}, okOut out →
    ∃ (ds : List Str) (ms : List (Option Str)), out = ds.map some ++ ms ∧ (∀ d ∈ ds, d ≠ []) ∧ (∀ m ∈ ms, isEnd m = true)
  | [], _ => ⟨[], [], rfl, by simp, by simp⟩
  | x :: xs, h => by
    by_cases hx : isEnd x = true
    · simp only [okOut, hx, if_true] at h
      exact ⟨[], x :: xs, rfl, by simp, by
        intro m hm
        rcases List.mem_cons.1 hm with rfl | hm
        · exact hx
        · exact h m hm⟩
    · simp only [okOut, hx, if_false] at h
      obtain ⟨ds, ms, e, h1, h2⟩ := okOut_shape h
      obtain ⟨c, rfl, hc⟩ := isEnd_false_iff.1 (by simpa using hx)
      refine ⟨c :: ds, ms, by simp [e], ?_, h2⟩
      intro d hd
      rcases List.mem_cons.1 hd with rfl | hd
      · exact hc
      · exact h1 d hd

theorem deliveredOf_shape (ds : List Str) (ms : List (Option Str)) (h : ∀ m ∈ ms, isEnd m = true) :
    deliveredOf (ds.map some ++ ms) = ds.flatten := by
  have h2 := deliveredOf_all_end h
  simp only [deliveredOf] at h2 ⊢
  simp [h2, Function.comp_def]

/-! #### end markers pushed into a handler whose stream already ended -/

theorem processStr_pfx (cfg : Cfg) (s : St) (x : Str) : (processStr cfg s x).pfx = s.pfx := by
  cases h : cutStop cfg.stop (s.completion ++ x) with
  | some u =>
    simp only [processStr, h]
    by_cases hl : (stripSuffix cfg.suffix u).length > s.completion.length <;> simp [hl, forward]
  | none =>
    simp only [processStr, h]
    by_cases hx : x = [] <;> simp [hx, forward]

theorem pushBody_pfx (cfg : Cfg) (s : St) (ch : Option Str) : (pushBody cfg s ch).pfx = s.pfx := by
  unfold pushBody
  split
  · simp only []
    split
    · rfl
    · simp only [release]; exact processStr_pfx cfg s _
  · cases ch with
    | none => rfl
    | some c => exact processStr_pfx cfg s c

theorem isEnd_cases {m : Option Str} (h : isEnd m = true) : m = none ∨ m = some [] := by
  cases m with
  | none => exact Or.inl rfl
  | some c => cases c <;> simp [isEnd] at h ⊢

theorem done_push_end {cfg : Cfg} {T : Str} {s : St} (hd : Done cfg T s) (hp : s.pfx = []) {m : Option Str}
    (hm : isEnd m = true) : Done cfg T (push cfg s m) ∧ (push cfg s m).pfx = [] := by
  unfold push
  by_cases hf : s.finished = true
  · simp only [hf, if_true]; exact ⟨hd, hp⟩
  · simp only [hf, if_false, hp, ne_eq, not_true_eq_false]
    refine ⟨?_, (pushBody_pfx cfg s m).trans hp⟩
    have hget : m.getD [] = [] := isEnd_getD hm
    have hnil := processStr_nil_done hd s.pfx
    have hnil' : Done cfg T (processStr cfg s []) := ⟨hnil.del, hnil.comp, hnil.cur, hnil.nostop⟩
    unfold pushBody
    by_cases hmode : cfg.suffix ≠ [] ∨ cfg.stop ≠ []
    · simp only [hmode, if_true, hd.cur, hget, List.append_nil, hm, not_true_eq_false, and_false, if_false]
      have hrm : removeSuffixAtEnd cfg s.completion [] = [] := by
        unfold removeSuffixAtEnd
        split <;> simp
      rw [hrm]
      exact ⟨hnil'.del, hnil'.comp, rfl, hnil'.nostop⟩
    · simp only [hmode, if_false]
      rcases isEnd_cases hm with rfl | rfl
      · refine ⟨?_, hd.comp, hd.cur, hd.nostop⟩
        have : delivered (forward s none) = delivered s := by simp [delivered, forward]
        exact this.trans hd.del
      · exact hnil'

theorem done_foldl_end {cfg : Cfg} {T : Str} : ∀ (ms : List (Option Str)) {s : St}, Done cfg T s → s.pfx = [] →
    (∀ m ∈ ms, isEnd m = true) → Done cfg T (ms.foldl (push cfg) s)
  | [], _, hd, _, _ => hd
  | m :: ms, s, hd, hp, h => by
    obtain ⟨hd', hp'⟩ := done_push_end hd hp (h m (by simp))
    exact done_foldl_end ms hd' hp' (fun m' hm' => h m' (by simp [hm']))

theorem stable_foldl_end {cfg : Cfg} {s : St} (hs : ∀ m, isEnd m = true → push cfg s m = s) :
    ∀ (ms : List (Option Str)), (∀ m ∈ ms, isEnd m = true) → ms.foldl (push cfg) s = s
  | [], _ => rfl
  | m :: ms, h => by
    simp only [List.foldl_cons, hs m (h m (by simp))]
    exact stable_foldl_end hs ms (fun m' hm' => h m' (by simp [hm']))

/-- what an end marker does to a handler that consumed `text`: nothing (prefix never seen), or the stream is over -/
theorem ginv_push_end {cfg : Cfg} (hS : NonemptyStops cfg.stop) {text : Str} {s : St} (h : GInv cfg text s) :
    ((∀ m, isEnd m = true → push cfg s m = s) ∧ delivered s = spec cfg text .empty) ∨
    (∃ T, spec cfg text .empty = cutAndStrip cfg T ∧
      ∀ m, isEnd m = true → Done cfg T (push cfg s m) ∧ (push cfg s m).pfx = []) := by
  cases h with
  | waiting hp hpfx hf hcur hcomp hout hnot =>
    left
    have hp' : s.pfx ≠ [] := by rw [hpfx]; exact hp
    have hnot' : ¬ cfg.pfx.isPrefixOf text = true := fun h => hnot (List.isPrefixOf_iff_prefix.1 h)
    constructor
    · intro m hm
      have hch : m.getD [] = [] := isEnd_getD hm
      unfold push
      simp only [hf, Bool.false_eq_true, if_false, hp', ne_eq, not_false_eq_true, if_true, hch, List.append_nil, hcur, hpfx, hnot']
      cases s; simp_all
    · simp [spec, hp, hnot', EndProto.hasLlmEnd, delivered, hout]
  | streaming T hpfx hinv hT =>
    right
    refine ⟨T, spec_streaming .empty hT, ?_⟩
    intro m hm
    cases hinv with
    | fin hf hd =>
      have hd0 : Done cfg T s := by simpa using hd []
      exact done_push_end hd0 hpfx hm
    | run hf hTs hr hmode =>
      have hpush : push cfg s m = pushBody cfg s m := by simp [push, hf, hpfx]
      rw [hpush]
      exact ⟨pushBody_end hS hTs hr hmode (isEnd_cases hm), (pushBody_pfx cfg s m).trans hpfx⟩

/-- a configured handler fed the chunks `ds` and then at least one end marker delivers `spec cfg2 ds.flatten` -/
theorem target_delivered {cfg2 : Cfg} (hS : NonemptyStops cfg2.stop) (ds : List Str) (hne : ∀ d ∈ ds, d ≠ [])
    (ms : List (Option Str)) (hms : ∀ m ∈ ms, isEnd m = true) (hnonempty : ms ≠ []) :
    delivered (pipeTargetCfg cfg2 (ds.map some ++ ms)) = spec cfg2 ds.flatten .empty ∧
      (pipeTargetCfg cfg2 (ds.map some ++ ms)).completion = spec cfg2 ds.flatten .empty := by
  have hg := ginv_feed hS ds (ginv_init hS) hne
  rw [List.nil_append] at hg
  have hfeed : (ds.map some).foldl (push cfg2) (init cfg2) = feed cfg2 (init cfg2) ds := by
    simp [feed, List.foldl_map]
  unfold pipeTargetCfg
  rw [List.foldl_append, hfeed]
  cases ms with
  | nil => exact absurd rfl hnonempty
  | cons m ms =>
    rcases ginv_push_end hS hg with ⟨hst, hdel⟩ | ⟨T, hspec, hdone⟩
    · rw [stable_foldl_end hst (m :: ms) hms]
      refine ⟨hdel, ?_⟩
      -- completion of a handler that never saw its prefix is empty, and so is the delivered text
      cases hg with
      | waiting hp hpfx hf hcur hcomp hout hnot =>
        rw [hcomp, ← hdel]; simp [delivered, hout]
      | streaming T hpfx hinv hT =>
        -- the streaming case cannot be stable under end markers unless it is already done; use `Done`
        cases hinv with
        | fin hf hd =>
          have hd0 : Done cfg2 T (feed cfg2 (init cfg2) ds) := by simpa using hd []
          rw [← hdel]; exact hd0.del.symm
        | run hf hTs hr hmode =>
          rw [← hdel]; exact hr.del.symm
    · obtain ⟨hd1, hp1⟩ := hdone m (hms m (by simp))
      have hd := done_foldl_end ms hd1 hp1 (fun m' hm' => hms m' (by simp [hm']))
      simp only [List.foldl_cons]
      rw [hspec]
      exact ⟨hd.del.trans hd.comp, hd.comp⟩

/-! #### `on_llm_end` always forwards an end marker -/

theorem processStr_nostop_out (cfg : Cfg) (s : St) (x : Str) (h : cutStop cfg.stop (s.completion ++ x) = none) :
    (processStr cfg s x).out = s.out ++ [some x] := by
  simp only [processStr, h]
  by_cases hx : x = [] <;> simp [hx, forward]

theorem endLlm_out_end {cfg : Cfg} (hS : NonemptyStops cfg.stop) {s : St} (h : Ready cfg s ∨ ∃ T, Done cfg T s) :
    ∃ o, (endLlm cfg s).out = o ++ [some []] := by
  unfold endLlm
  have key : ∀ s1 : St, cutStop cfg.stop s1.completion = none →
      ∃ o, ({ processStr cfg s1 [] with pfx := [] } : St).out = o ++ [some []] := by
    intro s1 h1
    exact ⟨s1.out, processStr_nostop_out cfg s1 [] (by simpa using h1)⟩
  rcases h with hr | ⟨T, hd⟩
  · by_cases hc : s.cur = []
    · simp only [hc, ne_eq, not_true_eq_false, if_false]
      exact key s hr.nostop
    · simp only [hc, ne_eq, not_false_eq_true, if_true]
      exact key _ (release_final hS hr s.cur).nostop
  · simp only [hd.cur, ne_eq, not_true_eq_false, if_false]
    exact key s hd.nostop

theorem ginv_ready_or_done {cfg : Cfg} (hS : NonemptyStops cfg.stop) {text : Str} {s : St} (h : GInv cfg text s) :
    Ready cfg s ∨ ∃ T, Done cfg T s := by
  cases h with
  | waiting hp hpfx hf hcur hcomp hout hnot => exact Or.inl (ready_fresh hS hcomp hout)
  | streaming T hpfx hinv hT =>
    cases hinv with
    | fin hf hd => exact Or.inr ⟨T, by simpa using hd []⟩
    | run hf hTs hr hmode => exact Or.inl hr

/-- with `on_llm_end` in the end protocol the producer's output contains an end marker -/
theorem run_has_end {cfg : Cfg} (hS : NonemptyStops cfg.stop) (cs : List Str) (hne : ∀ c ∈ cs, c ≠ []) (e : EndProto)
    (he : e.hasLlmEnd = true) : ∃ x ∈ (run cfg cs e).out, isEnd x = true := by
  have hg := ginv_feed hS cs (ginv_init hS) hne
  rw [List.nil_append] at hg
  have fin : ∀ s : St, (Ready cfg s ∨ ∃ T, Done cfg T s) → ∃ x ∈ (endLlm cfg s).out, isEnd x = true := by
    intro s h
    obtain ⟨o, ho⟩ := endLlm_out_end hS h
    exact ⟨some [], by rw [ho]; simp, rfl⟩
  unfold run
  cases e with
  | empty => cases he
  | none => cases he
  | llmEnd => exact fin _ (ginv_ready_or_done hS hg)
  | emptyLlmEnd =>
    simp only [finish]
    apply fin
    rcases ginv_push_end hS hg with ⟨hst, _⟩ | ⟨T, _, hdone⟩
    · rw [hst (some []) rfl]; exact ginv_ready_or_done hS hg
    · exact Or.inr ⟨T, (hdone (some []) rfl).1⟩

/-- TWO-STAGE PIPE.  The producer (configuration `cfg`) forwards into a handler with its own configuration `cfg2`;
    if the producer forwarded an end marker, the consumer of the second handler receives `spec cfg2 (spec cfg text)`. -/
theorem pipe_cfg_delivered {cfg cfg2 : Cfg} (hS : NonemptyStops cfg.stop) (hS2 : NonemptyStops cfg2.stop)
    (cs : List Str) (hne : ∀ c ∈ cs, c ≠ []) (e : EndProto) (hend : ∃ x ∈ (run cfg cs e).out, isEnd x = true) :
    delivered (pipeTargetCfg cfg2 (run cfg cs e).out) = spec cfg2 (spec cfg cs.flatten e) .empty ∧
      (pipeTargetCfg cfg2 (run cfg cs e).out).completion = spec cfg2 (spec cfg cs.flatten e) .empty := by
  obtain ⟨ds, ms, hout, hds, hms⟩ := okOut_shape (run_okOut cfg cs e)
  have hflat : ds.flatten = spec cfg cs.flatten e := by
    have h1 : delivered (run cfg cs e) = deliveredOf (run cfg cs e).out := rfl
    rw [← (run_eq_spec hS cs hne e).1, h1, hout, deliveredOf_shape ds ms hms]
  have hms_ne : ms ≠ [] := by
    obtain ⟨x, hx, hxe⟩ := hend
    rw [hout] at hx
    rcases List.mem_append.1 hx with hx | hx
    · obtain ⟨d, hd, rfl⟩ := List.mem_map.1 hx
      have := hds d hd
      cases d <;> simp_all [isEnd]
    · intro h; rw [h] at hx; cases hx
  rw [hout, ← hflat]
  exact target_delivered hS2 ds hds ms hms hms_ne

end NemoVerif.Stream
