/-
  C07 (T2') — the FORK segment over CoreVM's `slide`: `ForkHead u [l_1 … l_n]` makes the head INACTIVE, registers the fork and creates
  `n` new ACTIVE heads with fresh uids (`u<counter>z`) at the label positions — `slideStep_fork`, by induction over the label list
  (`forkLoop_spec`), for any `n`.
-/
import NemoVerif.Lemmas.GroupCoreVMCompose
import Std.Data.String.ToNat
set_option linter.unusedSimpArgs false
namespace NemoVerif.CoreVM
open NemoVerif NemoVerif.CoreIndex

/-- the uid `freshUid` hands out when the counter is `m - 1` -/
def uidOf (m : Nat) : String := s!"u{m}z"

theorem uidOf_inj {a b : Nat} (h : uidOf a = uidOf b) : a = b := by
  simp only [uidOf, toString] at h
  have h1 : ("u" ++ Nat.repr a ++ "z").toList = ("u" ++ Nat.repr b ++ "z").toList := by rw [h]
  simp only [String.toList_append] at h1
  have h2 : (Nat.repr a).toList = (Nat.repr b).toList := by
    rw [List.append_assoc, List.append_assoc] at h1
    exact List.append_cancel_right (List.append_cancel_left h1)
  exact Nat.repr_injective (String.ext_iff.2 (by simpa using h2))

theorem freshUid_ok (s : VM) : freshUid s = .ok (uidOf (s.r.nextUid + 1)) { s with r := { s.r with nextUid := s.r.nextUid + 1 } } := by
  simp only [freshUid, bind, EStateM.bind, getRest, get, getThe, MonadStateOf.get, EStateM.get, pure, EStateM.pure, modifyRest, modify,
    modifyGet, MonadStateOf.modifyGet, EStateM.modifyGet, uidOf]


/-- what a `ForkHead` does to the instance for one label: a new ACTIVE head `nu` at the label's position -/
theorem findInst_fork (ix : IState) (f : FUid) (nu : HUid) (i : Inst) (p : Nat)
    (hi : findInst ix f = some i) (hp : p ≠ 0) (hfresh : nu ∉ i.headUids) :
    ∃ i', findInst (step ix (.fork f nu none p none)) f = some i' ∧ hview i' = hview i ++ [(nu, p, .active)] ∧ i'.status = i.status := by
  have hi1 : findInst (modifyInst ix f fun i => { i with heads := i.heads ++ [newHead nu none] }) f
      = some { i with heads := i.heads ++ [newHead nu none] } := by
    have := findInst_modifyInst ix f f (fun i => { i with heads := i.heads ++ [newHead nu none] }) (fun _ => rfl)
    rw [this]; simp [hi]
  have hh1 : ({ i with heads := i.heads ++ [newHead nu none] } : Inst).findHead nu = some (newHead nu none) := by
    simp only [Inst.findHead, List.find?_append]
    have : i.heads.find? (fun x => decide (x.uid = nu)) = none := by
      apply List.find?_eq_none.2
      intro x hx hxu
      exact hfresh (by simp only [Inst.headUids, List.mem_map]; exact ⟨x, hx, by simpa using hxu⟩)
    rw [this]; simp [newHead]
  simp only [step, hp, if_false]
  rw [touchHead_found _ hi1 hh1, findInst_headChanged]
  have := findInst_modifyInst (modifyInst ix f fun i => { i with heads := i.heads ++ [newHead nu none] }) f f
    (fun i => i.modifyHead nu fun x => { x with pos := p, elem := none }) (fun _ => rfl)
  rw [this, hi1]
  refine ⟨({ i with heads := i.heads ++ [newHead nu none] } : Inst).modifyHead nu (fun x => { x with pos := p, elem := none }),
    by simp, ?_, rfl⟩
  simp only [hview, Inst.modifyHead, List.map_append, List.map_map, List.map_cons, List.map_nil, newHead, if_true]
  congr 1
  apply List.map_congr_left
  intro o ho
  have : o.uid ≠ nu := fun e => hfresh (by simp only [Inst.headUids, List.mem_map]; exact ⟨o, ho, e⟩)
  simp [Function.comp, this]


/-- the HeadX record a forked head starts with (scores, scopes and catch labels of the forking head) -/
def childRec (a : HeadX) : HeadX := { scores := a.scores, scopeUids := a.scopeUids, catchLabels := a.catchLabels }

/-- the HeadX records after one head `nu` was forked from `h` -/
def hxAfter (f : FUid) (h nu : HUid) (a : HeadX) (hx : List (Key × HeadX)) : List (Key × HeadX) :=
  OMap.modify (f, h) (fun y => { y with childHeadUids := y.childHeadUids ++ [nu] }) (hx ++ [((f, nu), childRec a)])

/-- what one iteration of the `for label in element.labels` loop is required to do (proved of the real loop body below) -/
def ForkIter (body : String → List Key → M (ForInStep (List Key))) (f : FUid) (h : HUid) (a : HeadX) (x : InstX) (cfg : FlowCfg) : Prop :=
  ∀ (label : String) (acc : List Key) (s : VM) (i : Inst) (p : Nat),
    FlowAt s f i x cfg → cfg.label label = some p → p ≠ 0 → NotMatchAt cfg p → i.status.listening = true →
    uidOf (s.r.nextUid + 1) ∉ i.headUids →
    ∃ s1 hg, body label acc s = .ok (.yield (acc ++ [(f, uidOf (s.r.nextUid + 1))])) s1 ∧
      s1.ixs = s.ixs.apply (.fork f (uidOf (s.r.nextUid + 1)) none p none) hg ∧
      s1.r.nextUid = s.r.nextUid + 1 ∧ s1.r.fx = s.r.fx ∧ s1.r.prog = s.r.prog ∧
      s1.r.hx = hxAfter f h (uidOf (s.r.nextUid + 1)) a s.r.hx ∧ s1.r.choices = s.r.choices

def newKeys (f : FUid) (n : Nat) : Nat → List Key
  | 0 => []
  | k + 1 => (f, uidOf (n + 1)) :: newKeys f (n + 1) k

def newView (n : Nat) : List Nat → List HCore
  | [] => []
  | p :: ps => (uidOf (n + 1), p, .active) :: newView (n + 1) ps

theorem forkLoop_spec (body : String → List Key → M (ForInStep (List Key))) (f : FUid) (h : HUid) (a : HeadX) (x : InstX) (cfg : FlowCfg)
    (hiter : ForkIter body f h a x cfg) :
    ∀ (lps : List (String × Nat)) (acc : List Key) (s : VM) (i : Inst),
      FlowAt s f i x cfg → (∀ lp ∈ lps, cfg.label lp.1 = some lp.2 ∧ lp.2 ≠ 0 ∧ NotMatchAt cfg lp.2) →
      i.status.listening = true → (∀ m, m > s.r.nextUid → uidOf m ∉ i.headUids) →
      ∃ s' i', forIn (lps.map (·.1)) acc body s = .ok (acc ++ newKeys f s.r.nextUid lps.length) s' ∧
        FlowAt s' f i' x cfg ∧ hview i' = hview i ++ newView s.r.nextUid (lps.map (·.2)) ∧
        s'.r.nextUid = s.r.nextUid + lps.length ∧ i'.status = i.status ∧ s'.r.choices = s.r.choices ∧
        -- the HeadX records: the forking head lists the new heads as its children, the new heads have none
        (∀ a0, OMap.lookup (f, h) s.r.hx = some a0 → (∀ m, m > s.r.nextUid → uidOf m ≠ h) →
          (∀ m, m > s.r.nextUid → OMap.lookup (f, uidOf m) s.r.hx = none) →
          OMap.lookup (f, h) s'.r.hx = some { a0 with childHeadUids := a0.childHeadUids ++ (newKeys f s.r.nextUid lps.length).map (·.2) } ∧
          (∀ k ∈ newKeys f s.r.nextUid lps.length, ((OMap.lookup k s'.r.hx).getD {}).childHeadUids = [] ∧
            ((OMap.lookup k s'.r.hx).getD {}).scores = a.scores) ∧
          (∀ k : Key, k ≠ (f, h) → (∀ m, m > s.r.nextUid → k ≠ (f, uidOf m)) → OMap.lookup k s'.r.hx = OMap.lookup k s.r.hx)) := by
  intro lps
  induction lps with
  | nil =>
    intro acc s i F _ _ _
    refine ⟨s, i, by simp [newKeys, pure, EStateM.pure], F, by simp [newView], rfl, rfl, rfl, ?_⟩
    intro a0 ha0 _ _
    exact ⟨by simpa [newKeys] using ha0, by intro k hk; simp [newKeys] at hk, fun _ _ _ => rfl⟩
  | cons lp lps ih =>
    intro acc s i F hl hlist hfresh
    obtain ⟨h1, h2, h3⟩ := hl lp (by simp)
    obtain ⟨s1, hg, hb, hix, hn, hfx, hprog, hhx1, hch1⟩ := hiter lp.1 acc s i lp.2 F h1 h2 h3 hlist (hfresh _ (by omega))
    obtain ⟨i1, hi1, hv1, hs1⟩ := findInst_fork s.ixs.ix f (uidOf (s.r.nextUid + 1)) i lp.2 F.hi h2 (hfresh _ (by omega))
    have F1 : FlowAt s1 f i1 x cfg :=
      { hi := by rw [hix]; exact hi1, hx := by rw [hfx]; exact F.hx, hc := by rw [hprog]; exact F.hc }
    have hfresh1 : ∀ m, m > s1.r.nextUid → uidOf m ∉ i1.headUids := by
      intro m hm hmem
      have : uidOf m ∈ (hview i1).map (·.1) := by simpa [hview, Inst.headUids] using hmem
      rw [hv1, List.map_append, List.mem_append] at this
      rcases this with h | h
      · exact hfresh m (by omega) (by simpa [hview, Inst.headUids] using h)
      · simp only [List.map_cons, List.map_nil, List.mem_singleton] at h
        have := uidOf_inj h
        omega
    obtain ⟨s', i', hrun, F', hv', hn', hs', hch', hhx'⟩ := ih (acc ++ [(f, uidOf (s.r.nextUid + 1))]) s1 i1 F1
      (fun q hq => hl q (by simp [hq])) (by rw [hs1]; exact hlist) hfresh1
    refine ⟨s', i', ?_, F', ?_, by rw [hn', hn]; simp; omega, by rw [hs', hs1], by rw [hch', hch1], ?_⟩
    · simp only [List.map_cons, List.forIn_cons, bind, EStateM.bind, hb]
      rw [hrun, hn]
      simp [newKeys]
    · rw [hv', hv1, hn]
      simp [newView]
    · intro a0 ha0 hhne hfx0
      -- the records after this iteration
      have hnu_ne : (f, uidOf (s.r.nextUid + 1)) ≠ (f, h) := by
        intro e; exact hhne (s.r.nextUid + 1) (by omega) (by simpa using e)
      have hl_h : OMap.lookup (f, h) s1.r.hx = some { a0 with childHeadUids := a0.childHeadUids ++ [uidOf (s.r.nextUid + 1)] } := by
        rw [hhx1, hxAfter, OMap.lookup_modify]
        simp only [if_true, OMap.lookup_append_single, ha0, Option.map_some]
      have hl_nu : OMap.lookup (f, uidOf (s.r.nextUid + 1)) s1.r.hx = some (childRec a) := by
        rw [hhx1, hxAfter, OMap.lookup_modify]
        simp only [hnu_ne, if_false, OMap.lookup_append_single, hfx0 _ (by omega : s.r.nextUid + 1 > s.r.nextUid), if_true]
      have hl_other : ∀ k : Key, k ≠ (f, h) → k ≠ (f, uidOf (s.r.nextUid + 1)) → OMap.lookup k s1.r.hx = OMap.lookup k s.r.hx := by
        intro k hk1 hk2
        rw [hhx1, hxAfter, OMap.lookup_modify]
        simp only [hk1, if_false, OMap.lookup_append_single, hk2]
        cases OMap.lookup k s.r.hx <;> rfl
      obtain ⟨r1, r2, r3⟩ := hhx' _ hl_h (fun m hm => hhne m (by omega))
        (fun m hm => by
          rw [hl_other _ (by intro e; exact hhne m (by omega) (by simpa using e))
            (by intro e; have := uidOf_inj (by simpa using e : uidOf m = uidOf (s.r.nextUid + 1)); omega)]
          exact hfx0 m (by omega))
      refine ⟨?_, ?_, ?_⟩
      · rw [r1, hn]; simp [newKeys, List.append_assoc, List.length_cons]
      · intro k hk
        simp only [List.length_cons, newKeys, List.mem_cons] at hk
        rcases hk with rfl | hk
        · rw [r3 _ hnu_ne (fun m hm e => by
            have := uidOf_inj (by simpa using e : uidOf (s.r.nextUid + 1) = uidOf m); omega), hl_nu]
          exact ⟨rfl, rfl⟩
        · exact r2 k (by rw [hn]; exact hk)
      · intro k hk1 hk2
        rw [r3 k hk1 (fun m hm => hk2 m (by omega)), hl_other k hk1 (hk2 _ (by omega))]


theorem lookup_modify_self {α : Type} (k : String) (g : α → α) : ∀ (l : List (String × α)) (v : α),
    OMap.lookup k l = some v → OMap.lookup k (OMap.modify k g l) = some (g v) := by
  intro l v h
  rw [OMap.lookup_modify]; simp [h]

/-- **Fork segment.**  A head on `ForkHead u [l_1 … l_n]` whose labels resolve to non-match positions `p_j ≠ 0` (label elements):
    `slide`'s step makes it INACTIVE, registers the fork, and creates `n` new ACTIVE heads with fresh uids at the label
    positions, in order; it returns them as the new heads and stops.  Any `n`. -/
theorem slideStep_fork (fuel : Nat) (s : VM) (f : FUid) (h : HUid) (i : Inst) (x : InstX) (cfg : FlowCfg) (hd : Head)
    (u : String) (lps : List (String × Nat))
    (H : HeadAt s f h i x cfg hd) (hel : cfg.elements[hd.pos]! = .fork u (lps.map (·.1)))
    (hl : ∀ lp ∈ lps, cfg.label lp.1 = some lp.2 ∧ lp.2 ≠ 0 ∧ NotMatchAt cfg lp.2)
    (hlist : i.status.listening = true) (hfresh : ∀ m, m > s.r.nextUid → uidOf m ∉ i.headUids) :
    ∃ s' i' x', slideStep fuel f h s = .ok (true, newKeys f s.r.nextUid lps.length) s' ∧ FlowAt s' f i' x' cfg ∧
      x'.forkUids = OMap.insert u h x.forkUids ∧ x'.ctxOwner = x.ctxOwner ∧
      hview i' = (hview i).map (setStCore h .inactive) ++ newView s.r.nextUid (lps.map (·.2)) ∧
      s'.r.nextUid = s.r.nextUid + lps.length ∧ i'.status = i.status ∧ s'.r.choices = s.r.choices ∧
      (∀ a0, OMap.lookup (f, h) s.r.hx = some a0 → (∀ m, m > s.r.nextUid → OMap.lookup (f, uidOf m) s.r.hx = none) →
        OMap.lookup (f, h) s'.r.hx = some { a0 with childHeadUids := a0.childHeadUids ++ (newKeys f s.r.nextUid lps.length).map (·.2) } ∧
        (∀ k ∈ newKeys f s.r.nextUid lps.length, ((OMap.lookup k s'.r.hx).getD {}).childHeadUids = [] ∧
          ((OMap.lookup k s'.r.hx).getD {}).scores = a0.scores)) := by
  have hnm : NotMatchAt cfg hd.pos := notMatchAt_of cfg hd.pos _ H.hlt hel rfl
  obtain ⟨hg0, h0⟩ := setHeadStatus_ok s f h i x cfg hd .inactive H.toFlowAt H.hh H.hst hnm
  have hi1 := findInst_setStatus s.ixs.ix f h i hd .inactive none H.hi H.hh H.hst
  -- the state after `head.status = INACTIVE` and the registration of the fork uid
  let x' : InstX := { x with forkUids := OMap.insert u h x.forkUids }
  have hge : decide (hd.pos ≥ cfg.elements.size) = false := by simp; exact H.hlt
  have hin : decide (hd.status = HeadStatus.inactive) = false := by simp [H.hst]
  unfold slideStep
  simp only [bind, EStateM.bind, cfgOfInst, getInstX, getInstX?, getRest, get, getThe, MonadStateOf.get, EStateM.get, pure, EStateM.pure,
    H.hx, getCfg, H.hc, getHead?, getIx, H.hi, Option.bind, H.hh, hge, hin, Bool.or_false, Bool.false_eq_true, if_false, hel, h0,
    modInstX, modifyRest, modify, modifyGet, MonadStateOf.modifyGet, EStateM.modifyGet, getHeadX]
  generalize hbody : (fun (label : String) (__s : List Key) => _) = body
  have hiter : ForkIter body f h ((OMap.lookup (f, h) s.r.hx).getD {}) x' cfg := by
    intro label acc t it p Ft hlab hp0 hnmp hlis hfr
    have hgf : (Op.fork f (uidOf (t.r.nextUid + 1)) none p none).guard t.ixs.ix = true := by
      have hnd : it.status.done = false := by
        cases hst : it.status <;> simp_all [FlowStatus.listening, FlowStatus.done]
      simp only [Op.guard, Ft.hi]
      simp [hfr, hp0, hnd]
    rw [← hbody]
    simp only [bind, EStateM.bind, freshUid_ok, labelPos, hlab, pure, EStateM.pure, modifyRest, modHeadX, modify, modifyGet,
      MonadStateOf.modifyGet, EStateM.modifyGet, hp0, if_false, attemptPy, tryCatch, tryCatchThe, MonadExceptOf.tryCatch,
      EStateM.tryCatch]
    have hnf : ∀ t' : VM, t'.ixs = t.ixs → t'.r.fx = t.r.fx → t'.r.prog = t.r.prog → nameFor f p HeadStatus.active t' = .ok none t' := by
      intro t' e1 e2 e3
      exact nameFor_none t' f it x' cfg p .active
        { hi := by rw [e1]; exact Ft.hi, hx := by rw [e2]; exact Ft.hx, hc := by rw [e3]; exact Ft.hc } hnmp
    generalize ht' : ({ ixs := t.ixs, r := _ } : VM) = t'
    have e1 : t'.ixs = t.ixs := by rw [← ht']
    have e2 : t'.r.fx = t.r.fx := by rw [← ht']
    have e3 : t'.r.prog = t.r.prog := by rw [← ht']
    have e4 : t'.r.nextUid = t.r.nextUid + 1 := by rw [← ht']
    have e5 : t'.r.hx = hxAfter f h (uidOf (t.r.nextUid + 1)) ((OMap.lookup (f, h) s.r.hx).getD {}) t.r.hx := by
      rw [← ht']; rfl
    have e6 : t'.r.choices = t.r.choices := by rw [← ht']
    have hgf' : (Op.fork f (uidOf (t.r.nextUid + 1)) none p none).guard t'.ixs.ix = true := by rw [e1]; exact hgf
    rw [hnf t' e1 e2 e3]
    simp only [bind, EStateM.bind, applyOp, hgf', dite_true, pure, EStateM.pure]
    exact ⟨_, by rw [← e1]; exact hgf', rfl, by simp only [e1], e4, e2, e3, e5, e6⟩
  generalize hs2 : ({ ixs := s.ixs.apply (.setStatus f h .inactive none) hg0, r := _ } : VM) = s2
  have F2 : FlowAt s2 f (i.modifyHead h fun y => { y with status := .inactive, elem := none }) x' cfg := by
    rw [← hs2]
    exact { hi := hi1, hx := lookup_modify_self f _ s.r.fx x H.hx, hc := H.hc }
  have hn2 : s2.r.nextUid = s.r.nextUid := by rw [← hs2]
  have hfresh2 : ∀ m, m > s2.r.nextUid → uidOf m ∉ (i.modifyHead h fun y => { y with status := .inactive, elem := none }).headUids := by
    intro m hm
    rw [headUids_modifyHead i h (fun y => { y with status := .inactive, elem := none }) (fun _ => rfl)]
    exact hfresh m (by omega)
  have hhx2 : s2.r.hx = s.r.hx := by rw [← hs2]
  have hch2 : s2.r.choices = s.r.choices := by rw [← hs2]
  obtain ⟨s', i', hrun, F', hv', hn', hst', hch', hhx'⟩ := forkLoop_spec body f h _ x' cfg hiter lps [] s2 _ F2 hl hlist hfresh2
  refine ⟨s', i', x', ?_, F', rfl, rfl, ?_, by rw [hn', hn2], by rw [hst']; rfl, by rw [hch', hch2], ?_⟩
  · rw [hrun, hn2]; simp
  · rw [hv', hview_setStatus, hn2]
  · intro a0 ha0 hfx0
    have hhne : ∀ m, m > s2.r.nextUid → uidOf m ≠ h := by
      intro m hm e
      have hmem : h ∈ i.headUids := by
        simp only [Inst.headUids, List.mem_map]
        exact ⟨hd, List.mem_of_find?_eq_some H.hh, findHead_uid H.hh⟩
      exact hfresh m (by omega) (e ▸ hmem)
    obtain ⟨r1, r2, _⟩ := hhx' a0 (by rw [hhx2]; exact ha0) hhne (fun m hm => by rw [hhx2]; exact hfx0 m (by omega))
    rw [hn2] at r1 r2
    refine ⟨r1, fun k hk => ?_⟩
    have := r2 k hk
    rw [ha0] at this
    exact this

/-! ### the new heads reach their `match` elements; the whole fork segment -/

/-- a plain event spec (`match E()`): the event name is the spec name -/
def PlainSpec (spec : Spec) (n : String) : Prop := spec.varName = none ∧ spec.members = none ∧ spec.name = some n

theorem getEventName_plain (f : FUid) (spec : Spec) (n : String) (hp : PlainSpec spec n) (s : VM) :
    getEventName f spec s = .ok n s := by
  obtain ⟨h1, h2, h3⟩ := hp
  simp only [getEventName, h1, h2, h3, pure, EStateM.pure]

theorem nameFor_match (s : VM) (f : FUid) (i : Inst) (x : InstX) (cfg : FlowCfg) (p : Nat) (spec : Spec) (b : Bool) (n : String)
    (F : FlowAt s f i x cfg) (hlis : i.status.listening = true) (hel : elemAt cfg p = some (.matchOp spec b)) (hp : PlainSpec spec n) :
    nameFor f p .active s = .ok (some n) s := by
  unfold nameFor
  simp only [bind, EStateM.bind, getInst, getInst?, getIx, get, getThe, MonadStateOf.get, EStateM.get, pure, EStateM.pure,
    cfgOfInst, getInstX, getInstX?, getRest, getCfg, F.hi, hlis, F.hx, F.hc, hel, getEventName_plain f spec n hp,
    show decide (HeadStatus.active = HeadStatus.inactive) = false from by decide, Bool.not_true, Bool.or_false, Bool.false_eq_true, if_false]

/-- `head.position = p` onto a `match` on a plain event: ONE guarded `setPos` that registers the event name -/
theorem setHeadPos_match_ok (s : VM) (f : FUid) (h : HUid) (i : Inst) (x : InstX) (cfg : FlowCfg) (hd : Head) (p : Nat)
    (spec : Spec) (b : Bool) (n : String)
    (F : FlowAt s f i x cfg) (hh : i.findHead h = some hd) (hne : hd.pos ≠ p) (hact : hd.status = .active)
    (hlis : i.status.listening = true) (hel : elemAt cfg p = some (.matchOp spec b)) (hp : PlainSpec spec n) :
    ∃ hg, setHeadPos (f, h) p s = .ok () { s with ixs := s.ixs.apply (.setPos f h p (some n)) hg } := by
  have hg : (Op.setPos f h p (some n)).guard s.ixs.ix = true := by
    simp [Op.guard, F.hi, hh]
  refine ⟨hg, ?_⟩
  unfold setHeadPos
  simp only [bind, EStateM.bind, getIx, get, getThe, MonadStateOf.get, EStateM.get, pure, EStateM.pure, getHead?,
    F.hi, Option.bind, hh, hne, if_false, attemptPy, tryCatch, tryCatchThe, MonadExceptOf.tryCatch, EStateM.tryCatch,
    hact, nameFor_match s f i x cfg p spec b n F hlis hel hp]
  unfold applyOp
  rw [dif_pos hg]

/-- `slide` stops at once on a `match` element -/
theorem slide_at_match (fuel : Nat) (s : VM) (f : FUid) (h : HUid) (i : Inst) (x : InstX) (cfg : FlowCfg) (hd : Head)
    (spec : Spec) (b : Bool)
    (H : HeadAt s f h i x cfg hd) (hel : cfg.elements[hd.pos]! = .matchOp spec b) :
    slide (fuel + 1) f h s = .ok [] s := by
  have hge : decide (hd.pos ≥ cfg.elements.size) = false := by simp; exact H.hlt
  have hin : decide (hd.status = HeadStatus.inactive) = false := by simp [H.hst]
  have : slideStep fuel f h s = .ok (true, []) s := by
    unfold slideStep
    simp only [bind, EStateM.bind, cfgOfInst, getInstX, getInstX?, getRest, get, getThe, MonadStateOf.get, EStateM.get, pure, EStateM.pure,
      H.hx, getCfg, H.hc, getHead?, getIx, H.hi, Option.bind, H.hh, hge, hin, Bool.or_false, Bool.false_eq_true, if_false, hel]
  simp only [slide, slideLoop, bind, EStateM.bind, this, if_true, pure, EStateM.pure, List.append_nil]

/-- **A new head of the fork reaches its `match`.**  A head ACTIVE on `label l_j` followed by `match <plain event>`: advancing it
    (`head.position += 1; slide`) moves it onto the match element and stops there; only its entry changes. -/
theorem advanceNew_spec (fuel : Nat) (s : VM) (f : FUid) (h : HUid) (i : Inst) (x : InstX) (cfg : FlowCfg) (hd : Head)
    (spec : Spec) (b : Bool) (n : String)
    (H : HeadAt s f h i x cfg hd) (hact : hd.status = .active) (hlis : i.status.listening = true)
    (hsz : hd.pos + 1 < cfg.elements.size) (hel : cfg.elements[hd.pos + 1]! = .matchOp spec b) (hp : PlainSpec spec n) :
    ∃ s' i', advanceMember (fuel + 1) f h s = .ok [] s' ∧ FlowAt s' f i' x cfg ∧ s'.r = s.r ∧
      hview i' = (hview i).map (setPosCore h (hd.pos + 1)) ∧ i'.status = i.status := by
  have hel' : elemAt cfg (hd.pos + 1) = some (.matchOp spec b) := by
    simp only [elemAt]; rw [← hel]; simp [getElem!_pos, hsz]
  obtain ⟨hg0, h0⟩ := setHeadPos_match_ok s f h i x cfg hd (hd.pos + 1) spec b n H.toFlowAt H.hh (by omega) hact hlis hel' hp
  have hi1 := findInst_setPos s.ixs.ix f h i hd (hd.pos + 1) (some n) H.hi H.hh (by omega)
  have H1 : HeadAt { s with ixs := s.ixs.apply (.setPos f h (hd.pos + 1) (some n)) hg0 } f h
      (i.modifyHead h fun y => { y with pos := hd.pos + 1, elem := some n }) x cfg { hd with pos := hd.pos + 1, elem := some n } :=
    { hi := hi1, hx := H.hx, hc := H.hc, hh := findHead_moved i h hd _ (fun _ => rfl) H.hh, hlt := hsz, hst := H.hst }
  have hsl := slide_at_match fuel _ f h _ x cfg _ spec b H1 hel
  refine ⟨_, _, ?_, H1.toFlowAt, rfl, hview_setPos i h (hd.pos + 1) (some n), rfl⟩
  simp only [advanceMember, bind, EStateM.bind, getHead?, getIx, get, getThe, MonadStateOf.get, EStateM.get, pure, EStateM.pure,
    H.hi, Option.bind, H.hh, h0, hsl]


/-- every new head is followed by a `match` on a plain event -/
def NewsShape (cfg : FlowCfg) (news : List (HUid × Nat)) : Prop :=
  ∀ q ∈ news, q.2 + 1 < cfg.elements.size ∧ ∃ spec b n, cfg.elements[q.2 + 1]! = .matchOp spec b ∧ PlainSpec spec n

/-- all new heads of a fork reach their `match` elements, one after the other -/
theorem advanceNews_spec (fuel : Nat) (f : FUid) (x : InstX) (cfg : FlowCfg) :
    ∀ (news : List (HUid × Nat)) (pre : List HCore) (s : VM) (i : Inst),
      FlowAt s f i x cfg → i.status.listening = true →
      ((pre ++ news.map fun q => (q.1, q.2, HeadStatus.active)).map (·.1)).Nodup →
      hview i = pre ++ news.map (fun q => (q.1, q.2, HeadStatus.active)) → NewsShape cfg news →
      ∃ s' i', runMembers (fuel + 1) f (news.map (·.1)) s = .ok () s' ∧ FlowAt s' f i' x cfg ∧ s'.r = s.r ∧
        hview i' = pre ++ news.map (fun q => (q.1, q.2 + 1, HeadStatus.active)) ∧ i'.status = i.status := by
  intro news
  induction news with
  | nil =>
    intro pre s i F _ _ hv _
    exact ⟨s, i, by simp [runMembers, pure, EStateM.pure], F, rfl, by simpa using hv, rfl⟩
  | cons q news ih =>
    intro pre s i F hlis hnd hv hshape
    obtain ⟨hsz, spec, b, n, hel, hp⟩ := hshape q (by simp)
    have hndv : ((hview i).map (·.1)).Nodup := by rw [hv]; exact hnd
    have hmem : (q.1, q.2, HeadStatus.active) ∈ hview i := by rw [hv]; simp
    obtain ⟨hd, hfh, hpos, hstat⟩ := findHead_of_mem_hview i hndv q.1 q.2 .active hmem
    have H : HeadAt s f q.1 i x cfg hd :=
      { hi := F.hi, hx := F.hx, hc := F.hc, hh := hfh, hlt := by rw [hpos]; omega, hst := by rw [hstat]; decide }
    obtain ⟨s1, i1, hadv, F1, hr1, hv1, hs1⟩ := advanceNew_spec fuel s f q.1 i x cfg hd spec b n H hstat hlis
      (by rw [hpos]; exact hsz) (by rw [hpos]; exact hel) hp
    -- the view after this head has moved
    have hnd' := hnd
    simp only [List.map_append, List.map_cons, List.map_map] at hnd'
    have hq_pre : q.1 ∉ pre.map (·.1) := by
      intro hm
      exact (List.nodup_append.1 hnd').2.2 q.1 hm q.1 (by simp) rfl
    have hq_rest : q.1 ∉ (news.map fun q => (q.1, q.2, HeadStatus.active)).map (·.1) := by
      have := (List.nodup_cons.1 (List.nodup_append.1 hnd').2.1).1
      simpa [List.map_map, Function.comp] using this
    have hv1' : hview i1 = (pre ++ [(q.1, q.2 + 1, HeadStatus.active)]) ++ news.map (fun q => (q.1, q.2, HeadStatus.active)) := by
      rw [hv1, hv, hpos]
      simp only [List.map_append, List.map_cons, List.append_assoc, List.singleton_append]
      rw [map_setPosCore_of_not_mem _ _ pre hq_pre, map_setPosCore_of_not_mem _ _ _ hq_rest]
      simp [setPosCore]
    obtain ⟨s', i', hrun, F', hr', hv', hs'⟩ := ih (pre ++ [(q.1, q.2 + 1, HeadStatus.active)]) s1 i1 F1 (by rw [hs1]; exact hlis)
      (by
        rw [← hv1']
        rw [hv1, List.map_map]
        have : ((fun (t : HCore) => t.1) ∘ setPosCore q.1 (hd.pos + 1)) = fun t => t.1 := by
          funext t; simp only [Function.comp, setPosCore]; split <;> rfl
        rw [this]; exact hndv)
      hv1' (fun r hr => hshape r (by simp [hr]))
    refine ⟨s', i', ?_, F', by rw [hr', hr1], ?_, by rw [hs', hs1]⟩
    · simp only [List.map_cons]
      rw [runMembers_cons _ _ _ _ _ _ _ hadv]; exact hrun
    · rw [hv']; simp


/-- `CatchPatternFailure(label)`: the label is pushed on the head's stack (not index-relevant) and the head moves on -/
theorem slideStep_catch_push (fuel : Nat) (s : VM) (f : FUid) (h : HUid) (i : Inst) (x : InstX) (cfg : FlowCfg) (hd : Head) (l : String)
    (H : HeadAt s f h i x cfg hd) (hel : cfg.elements[hd.pos]! = .catchFail (some l)) (hnm : NotMatchAt cfg (hd.pos + 1)) :
    ∃ s1 hg, slideStep fuel f h s = .ok (false, []) s1 ∧ s1.ixs = s.ixs.apply (.setPos f h (hd.pos + 1) none) hg ∧
      s1.r.fx = s.r.fx ∧ s1.r.prog = s.r.prog ∧ s1.r.nextUid = s.r.nextUid ∧
      s1.r.hx = OMap.modify (f, h) (fun y => { y with catchLabels := y.catchLabels ++ [l] }) s.r.hx ∧
      s1.r.choices = s.r.choices := by
  have hge : decide (hd.pos ≥ cfg.elements.size) = false := by simp; exact H.hlt
  have hin : decide (hd.status = HeadStatus.inactive) = false := by simp [H.hst]
  unfold slideStep
  simp only [bind, EStateM.bind, cfgOfInst, getInstX, getInstX?, getRest, get, getThe, MonadStateOf.get, EStateM.get, pure, EStateM.pure,
    H.hx, getCfg, H.hc, getHead?, getIx, H.hi, Option.bind, H.hh, hge, hin, Bool.or_false, Bool.false_eq_true, if_false, hel,
    modHeadX, modifyRest, modify, modifyGet, MonadStateOf.modifyGet, EStateM.modifyGet]
  generalize ht : ({ ixs := s.ixs, r := _ } : VM) = t
  have e5 : t.r.hx = OMap.modify (f, h) (fun y => { y with catchLabels := y.catchLabels ++ [l] }) s.r.hx := by rw [← ht]
  have e6 : t.r.choices = s.r.choices := by rw [← ht]
  have e1 : t.ixs = s.ixs := by rw [← ht]
  have e2 : t.r.fx = s.r.fx := by rw [← ht]
  have e3 : t.r.prog = s.r.prog := by rw [← ht]
  have e4 : t.r.nextUid = s.r.nextUid := by rw [← ht]
  have Ft : FlowAt t f i x cfg := { hi := by rw [e1]; exact H.hi, hx := by rw [e2]; exact H.hx, hc := by rw [e3]; exact H.hc }
  obtain ⟨hg, hset⟩ := setHeadPos_ok t f h i x cfg hd (hd.pos + 1) Ft H.hh (by omega) hnm
  rw [hset]
  exact ⟨_, by rw [← e1]; exact hg, rfl, by simp only [e1], e2, e3, e4, e5, e6⟩

def newsOf (n : Nat) : List Nat → List (HUid × Nat)
  | [] => []
  | p :: ps => (uidOf (n + 1), p) :: newsOf (n + 1) ps

theorem newView_eq (n : Nat) (ps : List Nat) : newView n ps = (newsOf n ps).map fun q => (q.1, q.2, HeadStatus.active) := by
  induction ps generalizing n with
  | nil => rfl
  | cons p ps ih => simp [newView, newsOf, ih]

theorem newKeys_snd (f : FUid) (n : Nat) (ps : List Nat) : (newKeys f n ps.length).map (·.2) = (newsOf n ps).map (·.1) := by
  induction ps generalizing n with
  | nil => rfl
  | cons p ps ih => simp [newKeys, newsOf, ih]

theorem newsOf_mem (n : Nat) (ps : List Nat) : ∀ q ∈ newsOf n ps, (∃ m, m > n ∧ q.1 = uidOf m) ∧ q.2 ∈ ps := by
  induction ps generalizing n with
  | nil => intro q hq; cases hq
  | cons p ps ih =>
    intro q hq
    simp only [newsOf, List.mem_cons] at hq
    rcases hq with rfl | hq
    · exact ⟨⟨n + 1, by omega, rfl⟩, by simp⟩
    · obtain ⟨⟨m, hm, e⟩, hp⟩ := ih (n + 1) q hq
      exact ⟨⟨m, by omega, e⟩, by simp [hp]⟩

theorem newsOf_nodup (n : Nat) (ps : List Nat) : ((newsOf n ps).map (·.1)).Nodup := by
  induction ps generalizing n with
  | nil => simp [newsOf]
  | cons p ps ih =>
    simp only [newsOf, List.map_cons, List.nodup_cons]
    refine ⟨?_, ih (n + 1)⟩
    intro hmem
    obtain ⟨q, hq, e⟩ := List.mem_map.1 hmem
    obtain ⟨⟨m, hm, e2⟩, _⟩ := newsOf_mem (n + 1) ps q hq
    have := uidOf_inj (e.symm.trans e2 |>.symm)
    omega

/-- **Fork segment of a group, complete.**  The root head is ACTIVE on `CatchPatternFailure fl; ForkHead u [l_1 … l_n]`, every label
    `l_j` is a label element followed by `match <plain event>`.  `slide` on the root returns `n` new heads; advancing them in order
    (`_advance_head_front(new_heads)`) leaves the instance with the root INACTIVE on the fork element and the new heads ACTIVE on their
    match elements — what `GroupVM.init` / `renderHeads` assume.  Any `n`. -/
theorem fork_segment (fuel : Nat) (s : VM) (f : FUid) (h : HUid) (i : Inst) (x : InstX) (cfg : FlowCfg) (hd : Head)
    (fl u : String) (lps : List (String × Nat))
    (H : HeadAt s f h i x cfg hd) (hact : hd.status = .active) (hlis : i.status.listening = true)
    (hcatch : cfg.elements[hd.pos]! = .catchFail (some fl)) (hsz : hd.pos + 1 < cfg.elements.size)
    (hfork : cfg.elements[hd.pos + 1]! = .fork u (lps.map (·.1)))
    (hl : ∀ lp ∈ lps, cfg.label lp.1 = some lp.2 ∧ lp.2 ≠ 0 ∧ NotMatchAt cfg lp.2)
    (hnews : ∀ lp ∈ lps, lp.2 + 1 < cfg.elements.size ∧ ∃ spec b n, cfg.elements[lp.2 + 1]! = .matchOp spec b ∧ PlainSpec spec n)
    (hnd : ((hview i).map (·.1)).Nodup) (hfresh : ∀ m, m > s.r.nextUid → uidOf m ∉ i.headUids) :
    ∃ s1 s2 i2 x', slide (fuel + 2) f h s = .ok (newKeys f s.r.nextUid lps.length) s1 ∧
      runMembers (fuel + 1) f ((newKeys f s.r.nextUid lps.length).map (·.2)) s1 = .ok () s2 ∧
      FlowAt s2 f i2 x' cfg ∧ x'.ctxOwner = x.ctxOwner ∧
      hview i2 = (hview i).map (setCore h (hd.pos + 1) .inactive) ++
        (newView s.r.nextUid (lps.map (·.2))).map (fun t => (t.1, t.2.1 + 1, t.2.2)) ∧
      x'.forkUids = OMap.insert u h x.forkUids ∧ i2.status = i.status ∧ s2.r.nextUid = s.r.nextUid + lps.length ∧
      s2.r.choices = s.r.choices ∧
      (∀ a0, OMap.lookup (f, h) s.r.hx = some a0 → (∀ m, m > s.r.nextUid → OMap.lookup (f, uidOf m) s.r.hx = none) →
        ((OMap.lookup (f, h) s2.r.hx).getD {}).childHeadUids = a0.childHeadUids ++ (newKeys f s.r.nextUid lps.length).map (·.2) ∧
        (∀ k ∈ newKeys f s.r.nextUid lps.length, ((OMap.lookup k s2.r.hx).getD {}).childHeadUids = [] ∧
          ((OMap.lookup k s2.r.hx).getD {}).scores = a0.scores)) := by
  have hnmf : NotMatchAt cfg (hd.pos + 1) := notMatchAt_of cfg (hd.pos + 1) _ hsz hfork rfl
  obtain ⟨sa, hga, hstepa, hixa, hfxa, hproga, hna, hhxa, hcha⟩ := slideStep_catch_push (fuel + 1) s f h i x cfg hd fl H hcatch hnmf
  have hia := findInst_setPos s.ixs.ix f h i hd (hd.pos + 1) none H.hi H.hh (by omega)
  have Ha : HeadAt sa f h (i.modifyHead h fun y => { y with pos := hd.pos + 1, elem := none }) x cfg { hd with pos := hd.pos + 1, elem := none } :=
    { hi := by rw [hixa]; exact hia, hx := by rw [hfxa]; exact H.hx, hc := by rw [hproga]; exact H.hc,
      hh := findHead_moved i h hd _ (fun _ => rfl) H.hh, hlt := hsz, hst := H.hst }
  have hfresha : ∀ m, m > sa.r.nextUid → uidOf m ∉ (i.modifyHead h fun y => { y with pos := hd.pos + 1, elem := none }).headUids := by
    intro m hm
    rw [headUids_modifyHead i h (fun y => { y with pos := hd.pos + 1, elem := none }) (fun _ => rfl)]
    exact hfresh m (by omega)
  obtain ⟨s1, i1, x', hstepb, F1, hfux, hown, hv1, hn1, hst1, hch1, hhxf⟩ := slideStep_fork fuel sa f h _ x cfg _ u lps Ha hfork hl hlis hfresha
  -- the view after the fork
  have hpre : (hview (i.modifyHead h fun y => { y with pos := hd.pos + 1, elem := none })).map (setStCore h .inactive)
      = (hview i).map (setCore h (hd.pos + 1) .inactive) := by
    rw [hview_setPos]
    exact map_setSt_setPos_eq_setCore h (hd.pos + 1) .inactive (hview i)
  rw [hpre, hna, newView_eq] at hv1
  have hpre_fst : ((hview i).map (setCore h (hd.pos + 1) .inactive)).map (·.1) = (hview i).map (·.1) := by
    rw [List.map_map]
    apply List.map_congr_left
    intro t _
    simp only [Function.comp, setCore]; split <;> rfl
  have hnd1 : (((hview i).map (setCore h (hd.pos + 1) .inactive) ++
      (newsOf s.r.nextUid (lps.map (·.2))).map fun q => (q.1, q.2, HeadStatus.active)).map (·.1)).Nodup := by
    rw [List.map_append, hpre_fst, List.map_map]
    have e : ((fun (t : HCore) => t.1) ∘ fun (q : HUid × Nat) => (q.1, q.2, HeadStatus.active)) = fun q => q.1 := rfl
    rw [e]
    apply List.nodup_append.2
    refine ⟨hnd, newsOf_nodup _ _, ?_⟩
    intro a ha b hb hab
    obtain ⟨q, hq, e2⟩ := List.mem_map.1 hb
    obtain ⟨⟨m, hm, e3⟩, _⟩ := newsOf_mem _ _ q hq
    have : uidOf m ∈ i.headUids := by
      have : a ∈ i.headUids := by simpa [hview, Inst.headUids] using ha
      rw [hab, ← e2, e3] at this; exact this
    exact hfresh m hm this
  have hshape : NewsShape cfg (newsOf s.r.nextUid (lps.map (·.2))) := by
    intro q hq
    obtain ⟨_, hp⟩ := newsOf_mem _ _ q hq
    obtain ⟨lp, hlp, e⟩ := List.mem_map.1 hp
    rw [← e]; exact hnews lp hlp
  have hlis1 : i1.status.listening = true := by rw [hst1]; exact hlis
  obtain ⟨s2, i2, hrun, F2, hr2, hv2, hst2⟩ := advanceNews_spec fuel f x' cfg (newsOf s.r.nextUid (lps.map (·.2)))
    ((hview i).map (setCore h (hd.pos + 1) .inactive)) s1 i1 F1 hlis1 hnd1 hv1 hshape
  refine ⟨s1, s2, i2, x', ?_, ?_, F2, hown, ?_, hfux, by rw [hst2, hst1]; rfl, by rw [hr2, hn1, hna], by rw [hr2, hch1, hcha], ?_⟩
  · simp only [slide, slideLoop, bind, EStateM.bind, hstepa, hstepb, Bool.false_eq_true, if_false, if_true, pure, EStateM.pure,
      List.nil_append, hna]
  · rw [← List.length_map (f := fun (lp : String × Nat) => lp.2), newKeys_snd]
    exact hrun
  · rw [hv2, newView_eq, List.map_map]
    rfl
  · intro a0 ha0 hfx0
    have hla : OMap.lookup (f, h) sa.r.hx = some { a0 with catchLabels := a0.catchLabels ++ [fl] } := by
      rw [hhxa, OMap.lookup_modify]; simp [ha0]
    have hfxa0 : ∀ m, m > sa.r.nextUid → OMap.lookup (f, uidOf m) sa.r.hx = none := by
      intro m hm
      rw [hhxa, OMap.lookup_modify]
      have hne : (f, uidOf m) ≠ (f, h) := by
        intro e
        have hmem : h ∈ i.headUids := by
          simp only [Inst.headUids, List.mem_map]
          exact ⟨hd, List.mem_of_find?_eq_some H.hh, findHead_uid H.hh⟩
        exact hfresh m (by omega) ((by simpa using e : uidOf m = h) ▸ hmem)
      simp only [hne, if_false]
      exact hfx0 m (by omega)
    obtain ⟨r1, r2⟩ := hhxf _ hla hfxa0
    rw [hna] at r1 r2
    rw [hr2]
    exact ⟨by rw [r1]; rfl, r2⟩

end NemoVerif.CoreVM
