/-
  C11 / T3 — head writes of CoreVM on live and aged states: look-ups of kept instances / heads, `nameFor` (what
  `_flow_head_changed` computes), `head.position = p`, `head.status = st` (setter + callback, incl. a raising callback),
  `state.actions[uid] = a`.
-/
import NemoVerif.Lemmas.CleanUpBisimEvents
open NemoVerif NemoVerif.CoreIndex NemoVerif.CoreVM NemoVerif.C11.Bisim

namespace NemoVerif.C11.Bisim

theorem Sim2U.mono {rm α α'} {ρ σ : α → α' → Prop} {x : M α} {x' : M α'} {s s'} (h : Sim2U rm ρ x x' s s')
    (hi : ∀ a a', ρ a a' → σ a a') : Sim2U rm σ x x' s s' := by
  unfold Sim2U at *
  cases h1 : x s <;> cases h2 : x' s' <;> rw [h1, h2] at h <;> simp only [OutU] at h ⊢
  · exact ⟨hi _ _ h.1, h.2⟩
  all_goals exact h

theorem diag_of_rel {rm α} {x : M α} (hro : RO x) (h : ∀ s s', Aged rm s s' → Rel2 Eq x x s s') : Diag rm x :=
  fun s s' ha => Sim2.toU (Sim2.of_rel hro hro ha (h s s' ha))

theorem diag_getInst {rm} {f : FUid} (hk : keepB rm f = true) : Diag rm (getInst f) := by
  refine diag_of_rel (ro_getInst f) fun s s' h => ?_
  unfold Rel2 res CoreVM.getInst CoreVM.getInst?
  simp only [bind, EStateM.bind, getIx, get, getThe, MonadStateOf.get, EStateM.get, pure, EStateM.pure, h.findInst_kept hk]
  cases findInst s.ixs.ix f <;> simp [RelE, pyRaise, throw, throwThe, MonadExceptOf.throw, EStateM.throw, EStateM.pure]

theorem diag_getHead? {rm} {k : Key} (hk : keepB rm k.1 = true) : Diag rm (getHead? k) := by
  have hro : RO (getHead? k) := RO.bind RO.getIx fun _ => RO.pure _
  refine diag_of_rel hro fun s s' h => ?_
  unfold Rel2 res CoreVM.getHead?
  simp only [bind, EStateM.bind, getIx, get, getThe, MonadStateOf.get, EStateM.get, pure, EStateM.pure, h.findInst_kept hk]
  simp [RelE]

theorem diag_cfgOfInst {rm} {f : FUid} (hk : keepB rm f = true) : Diag rm (cfgOfInst f) := by
  intro s s' h
  unfold CoreVM.cfgOfInst
  refine Sim2U.bind (Sim2.toU (Sim2.of_rel (ro_getInstX f) (ro_getInstX f) h (h.rel_getInstX hk))) ?_
  intro x x' s1 s1' _ _ hx h1
  rw [hx.flowId]
  exact diag_getCfg _ s1 s1' h1

theorem diag_getHeadX {rm} (k : Key) : Diag rm (getHeadX k) := by
  have hro : RO (getHeadX k) := RO.bind RO.getRest fun _ => RO.pure _
  refine diag_of_rel hro fun s s' h => ?_
  unfold Rel2 res CoreVM.getHeadX
  simp [bind, EStateM.bind, getRest, get, getThe, MonadStateOf.get, EStateM.get, pure, EStateM.pure, h.hx, RelE]

theorem diag_attemptPy {rm α} {x : M α} (hx : Diag rm x) : Diag rm (attemptPy x) := by
  intro s s' h
  refine Sim2U.mono (Sim2U.attemptPy (hx s s' h)) ?_
  intro r r' hr
  cases r <;> cases r' <;> simp only at hr <;> first | rw [hr] | exact hr.elim

theorem diag_applyOp {rm} (op : Op) (hk : keepB rm (opTarget op) = true) (hr : isRemove op = false) : Diag rm (applyOp op) :=
  fun _ _ h => Sim2U.mono (Sim2.toU (sim_applyOp h op hk hr)) fun _ _ _ => rfl

/-- what `_flow_head_changed` computes for a head of a kept instance -/
theorem diag_nameFor {rm} {f : FUid} (hk : keepB rm f = true) (pos : Nat) (hst : HeadStatus) : Diag rm (nameFor f pos hst) := by
  unfold CoreVM.nameFor
  repeat' (first
    | with_reducible exact Diag.pure _
    | with_reducible exact diag_getInst hk
    | with_reducible exact diag_cfgOfInst hk
    | with_reducible exact diag_getEventName hk _
    | with_reducible refine Diag.bind ?_ (fun _ => ?_)
    | split
    | dsimp only)

/-- **`head.position = p`** on a head of a kept instance (setter + `_flow_head_changed`, incl. the case where the callback raises) -/
theorem diag_setHeadPos {rm} {k : Key} (hk : keepB rm k.1 = true) (p : Nat) : Diag rm (setHeadPos k p) := by
  unfold CoreVM.setHeadPos
  repeat' (first
    | with_reducible exact Diag.pure _
    | with_reducible exact diag_pyRaise _ _
    | with_reducible exact diag_unsupported _
    | with_reducible exact diag_getHead? hk
    | with_reducible exact diag_attemptPy (diag_nameFor hk _ _)
    | exact diag_applyOp _ hk rfl
    | with_reducible refine Diag.bind ?_ (fun _ => ?_)
    | split
    | dsimp only)

/-- **`head.status = st`** on a head of a kept instance -/
theorem diag_setHeadStatus {rm} {k : Key} (hk : keepB rm k.1 = true) (st : HeadStatus) : Diag rm (setHeadStatus k st) := by
  unfold CoreVM.setHeadStatus
  repeat' (first
    | with_reducible exact Diag.pure _
    | with_reducible exact diag_pyRaise _ _
    | with_reducible exact diag_unsupported _
    | with_reducible exact diag_getHead? hk
    | with_reducible exact diag_attemptPy (diag_nameFor hk _ _)
    | exact diag_applyOp _ hk rfl
    | with_reducible refine Diag.bind ?_ (fun _ => ?_)
    | split
    | dsimp only)


/-- `state.actions[a.uid] = a` on both sides -/
theorem Aged.setAction {rm s s'} (h : Aged rm s s') (a : Action) :
    Aged rm { s with r := { s.r with actions := OMap.insert a.uid a s.r.actions } }
      { s' with r := { s'.r with actions := OMap.insert a.uid a s'.r.actions } } :=
  { h with
    actionsSub := by
      intro u b hb
      simp only [OMap.lookup_insert] at hb ⊢
      split at hb
      · rename_i hu; simp [hu, hb]
      · rename_i hu; simp only [hu, if_false]; exact h.actionsSub u b hb
    actionsKept := by
      intro f x hk hx au hau
      simp only [OMap.lookup_insert]
      split
      · rfl
      · exact h.actionsKept f x hk hx au hau }

theorem diag_setAction {rm} (a : Action) : Diag rm (setAction a) := fun _ _ h => ⟨rfl, h.setAction a⟩

end NemoVerif.C11.Bisim
