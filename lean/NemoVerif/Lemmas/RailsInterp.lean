/-
  C16 phase 2 — lemmas about the Colang 1.0 interpreter model (`V1Interp`, C14) running the GENERATED `llm_flows.co`
  program: the `while $i < len($input_flows)` loop of `run input rails`, by induction over the remaining rails.
-/
import NemoVerif.Models.RailsInterp
import NemoVerif.Generated.LlmFlowsV1
import NemoVerif.Lemmas.PipelineOpts

namespace NemoVerif.RailsInterp
open NemoVerif.V1Interp

/-- the generated program -/
abbrev base : Cfgs := Generated.LlmFlowsV1.flows

/-! ### context look-ups -/

theorem get_set (σ : Ctx) (k k' : String) (v : V) : (σ.set k v).get k' = if k' = k then v else σ.get k' := by
  unfold Ctx.set Ctx.get
  by_cases h : k' = k
  · subst h; simp [List.lookup]
  · simp only [h, if_false]
    have hne : (k' == k) = false := by simpa using h
    simp only [List.lookup, hne]
    congr 1
    induction σ with
    | nil => rfl
    | cons kv rest ih =>
      obtain ⟨a, b⟩ := kv
      by_cases ha : a = k
      · subst ha
        have : (k' == a) = false := hne
        simp [List.filter, List.lookup, this, ih]
      · have : (a != k) = true := by simpa using ha
        simp only [List.filter, this, List.lookup]
        cases k' == a <;> simp [ih]

theorem get_filter_key (p : String → Bool) (σ : Ctx) (k : String) :
    Ctx.get (σ.filter fun kv => p kv.1) k = if p k then σ.get k else .none := by
  unfold Ctx.get
  induction σ with
  | nil => simp [List.lookup]
  | cons kv rest ih =>
    obtain ⟨a, b⟩ := kv
    by_cases hk : k = a
    · subst hk
      cases hp : p k <;> simp [List.filter, hp, List.lookup, ih]
    · have hne : (k == a) = false := by simpa using hk
      cases hpa : p a <;> simp [List.filter, hpa, List.lookup, hne, ih]


/-! ### the flows of the generated program by name -/

def puiCfg : FlowCfg := base[0]
def rdrCfg : FlowCfg := base[1]
def rirCfg : FlowCfg := base[3]

theorem find_pui (rails : Cfgs) : Cfgs.find (base ++ rails) "process user input" = some puiCfg := by
  simp only [Cfgs.find, List.find?_append]; rfl
theorem find_rdr (rails : Cfgs) : Cfgs.find (base ++ rails) "run dialog rails" = some rdrCfg := by
  simp only [Cfgs.find, List.find?_append]; rfl
theorem find_rir (rails : Cfgs) : Cfgs.find (base ++ rails) "run input rails" = some rirCfg := by
  simp only [Cfgs.find, List.find?_append]; rfl

/-- `run input rails` as it stands in the generated program: an edit of the loop in llm_flows.co breaks this `rfl`. -/
theorem rir_elems : rirCfg.elems = [
      Elem.setE "i" (Expr.lit (V.int 0)) 1,
      Elem.setE "input_flows" (Expr.var "config.rails.input.flows") 1,
      Elem.whileE (Expr.bin BinOp.lt (Expr.var "i") (Expr.len (Expr.var "input_flows"))) 1 10,
      Elem.setE "triggered_input_rail" (Expr.index (Expr.var "input_flows") (Expr.var "i")) 1,
      Elem.runAction "create_event" none "{\"event\": {\"_type\": \"StartInputRail\", \"flow_id\": \"$triggered_input_rail\"}}" none,
      Elem.event "StartInputRail" [],
      Elem.flowE (Expr.index (Expr.var "input_flows") (Expr.var "i")),
      Elem.setE "i" (Expr.bin BinOp.add (Expr.var "i") (Expr.lit (V.int 1))) 1,
      Elem.runAction "create_event" none "{\"event\": {\"_type\": \"InputRailFinished\", \"flow_id\": \"$triggered_input_rail\"}}" none,
      Elem.event "InputRailFinished" [],
      Elem.setE "triggered_input_rail" (Expr.lit V.none) 1,
      Elem.jump (-9) false] := rfl
theorem rir_triggers : rirCfg.triggers = ["StartInputRail", "InputRailFinished"] := rfl
theorem rir_flags : rirCfg.isExtension = false ∧ rirCfg.isInterruptible = true ∧ rirCfg.prio = 100 ∧ rirCfg.isSubflow = true ∧ rirCfg.id = "run input rails" :=
  ⟨rfl, rfl, rfl, rfl, rfl⟩

theorem pui_elems : puiCfg.elems = [
      Elem.event "UtteranceUserActionFinished" [("final_transcript", (V.str "..."))],
      Elem.setE "user_message" (Expr.var "event.final_transcript") 1,
      Elem.ifE (Expr.var "config.rails.input.flows") 7,
      Elem.ifE (Expr.bin BinOp.or (Expr.isNone (Expr.var "generation_options") false) (Expr.var "generation_options.rails.input")) 6,
      Elem.runAction "create_event" none "{\"event\": {\"_type\": \"StartInputRails\"}}" none,
      Elem.event "StartInputRails" [],
      Elem.flow "run input rails",
      Elem.runAction "create_event" none "{\"event\": {\"_type\": \"InputRailsFinished\"}}" none,
      Elem.event "InputRailsFinished" [],
      Elem.runAction "create_event" none "{\"event\": {\"_type\": \"UserMessage\", \"text\": \"$user_message\"}}" none] := rfl
theorem pui_triggers : puiCfg.triggers = ["StartInputRails", "InputRailsFinished", "UserMessage"] := rfl
theorem pui_flags : puiCfg.isExtension = false ∧ puiCfg.isInterruptible = true ∧ puiCfg.prio = 100 ∧ puiCfg.isSubflow = false ∧ puiCfg.allowMultiple = true ∧ puiCfg.id = "process user input" :=
  ⟨rfl, rfl, rfl, rfl, rfl, rfl⟩

theorem rdr_elems : rdrCfg.elems = [
      Elem.event "UserMessage" [("text", (V.str "..."))],
      Elem.ifE (Expr.bin BinOp.and (Expr.var "generation_options") (Expr.bin BinOp.eq (Expr.var "generation_options.rails.dialog") (Expr.lit (V.bool false)))) 6,
      Elem.ifE (Expr.bin BinOp.eq (Expr.var "generation_options.rails.output") (Expr.lit (V.bool false))) 3,
      Elem.runAction "create_event" none "{\"event\": {\"_type\": \"StartUtteranceBotAction\", \"script\": \"$user_message\"}}" none,
      Elem.jump 2 false,
      Elem.runAction "create_event" none "{\"event\": {\"_type\": \"BotMessage\", \"text\": \"$bot_message\"}}" none,
      Elem.jump 2 false,
      Elem.flow "generate user intent"] := rfl
theorem rdr_triggers : rdrCfg.triggers = ["StartUtteranceBotAction", "BotMessage"] := rfl
theorem rdr_flags : rdrCfg.isExtension = false ∧ rdrCfg.isInterruptible = true ∧ rdrCfg.prio = 100 ∧ rdrCfg.isSubflow = false ∧ rdrCfg.allowMultiple = false ∧ rdrCfg.id = "run dialog rails" :=
  ⟨rfl, rfl, rfl, rfl, rfl, rfl⟩

/-! ### no flow starts on a "quiet" event -/

/-- events on which no flow of the program (nor a rail sub-flow) can START -/
def Quiet : Event → Bool
  | .actionFinished n _ => n != "utter"
  | .other ty _ => ty != "UtteranceUserActionFinished" && ty != "UserMessage" && ty != "BotMessage"
  | _ => false

theorem startNew_append (cfgs : Cfgs) (ev : Event) : ∀ (a b : List FlowCfg) (ns : State),
    startNew true cfgs ev (a ++ b) ns = (match startNew true cfgs ev a ns with | .ok ns' => startNew true cfgs ev b ns' | .error e => .error e)
  | [], _, _ => rfl
  | c :: rest, b, ns => by
    simp only [List.cons_append, startNew]
    cases startOne true cfgs ev ns c with
    | error e => rfl
    | ok ns' => exact startNew_append cfgs ev rest b ns'

theorem startNew_subflows (cfgs : Cfgs) (ev : Event) : ∀ (rs : List FlowCfg) (ns : State), (∀ r ∈ rs, r.isSubflow = true) →
    startNew true cfgs ev rs ns = .ok ns
  | [], _, _ => rfl
  | r :: rest, ns, h => by
    have hr : r.isSubflow = true := h r (List.mem_cons_self ..)
    simp only [startNew, startOne, hr, if_true]
    exact startNew_subflows cfgs ev rest ns (fun r' h' => h r' (List.mem_cons_of_mem _ h'))

theorem startNew_base_quiet (cfgs : Cfgs) (ev : Event) (hq : Quiet ev = true) (ns : State) :
    startNew true cfgs ev base ns = .ok ns := by
  cases ev with
  | actionFinished n ok =>
    have hne : n ≠ "utter" := bne_iff_ne.mp hq
    have hn' : ("utter" == n) = false := beq_false_of_ne (Ne.symm hne)
    simp [base, Generated.LlmFlowsV1.flows, startNew, startOne, SLIDE_FUEL, slide, sstep, initPrev, pyIndex, isMatch, hn']
  | other ty ps =>
    have hq' : (ty != "UtteranceUserActionFinished" && ty != "UserMessage" && ty != "BotMessage") = true := hq
    rw [Bool.and_eq_true, Bool.and_eq_true] at hq'
    obtain ⟨⟨h1, h2⟩, h3⟩ := hq'
    have e1 : ("UtteranceUserActionFinished" == ty) = false := beq_false_of_ne (Ne.symm (bne_iff_ne.mp h1))
    have e2 : ("UserMessage" == ty) = false := beq_false_of_ne (Ne.symm (bne_iff_ne.mp h2))
    have e3 : ("BotMessage" == ty) = false := beq_false_of_ne (Ne.symm (bne_iff_ne.mp h3))
    simp [base, Generated.LlmFlowsV1.flows, startNew, startOne, SLIDE_FUEL, slide, sstep, initPrev, pyIndex, isMatch, e1, e2, e3]
  | userIntent i => exact absurd (show false = true from hq) (by decide)
  | botIntent i => exact absurd (show false = true from hq) (by decide)
  | contextUpdate d => exact absurd (show false = true from hq) (by decide)
  | startAction => exact absurd hq (by decide)
  | hidePrevTurn => exact absurd hq (by decide)

theorem startNew_quiet (rails : Cfgs) (hsub : ∀ r ∈ rails, r.isSubflow = true) (ev : Event) (hq : Quiet ev = true) (ns : State) :
    startNew true (base ++ rails) ev (base ++ rails) ns = .ok ns := by
  rw [startNew_append, startNew_base_quiet _ ev hq]
  exact startNew_subflows _ ev rails ns hsub


/-! ### context look-ups across events -/

theorem get_append_miss (a b : Ctx) (k : String) (h : a.lookup k = none) : Ctx.get (a ++ b) k = Ctx.get b k := by
  unfold Ctx.get
  induction a with
  | nil => rfl
  | cons kv rest ih =>
    obtain ⟨x, y⟩ := kv
    simp only [List.lookup] at h
    split at h
    · cases h
    · rename_i hne
      simp only [List.cons_append, List.lookup, hne]
      exact ih h

/-- the plain (non-`event.*`) keys the rails loop reads -/
def plainKeys : List String := ["i", "input_flows", "user_message", "allowed", "generation_options",
  "generation_options.rails.input", "generation_options.rails.dialog", "generation_options.rails.output", "config.rails.input.flows"]

theorem get_withEvent_actFin (σ : Ctx) (n : String) (ok : Bool) (k : String) (hk : k ∈ plainKeys) :
    (σ.withEvent (.actionFinished n ok)).get k = σ.get k := by
  simp only [plainKeys, List.mem_cons, List.mem_nil_iff, or_false] at hk
  rcases hk with rfl | rfl | rfl | rfl | rfl | rfl | rfl | rfl | rfl <;>
    (simp only [Ctx.withEvent, Event.props]
     exact (get_append_miss _ _ _ (by simp (config := { decide := true }) [List.lookup])).trans
       ((get_filter_key (fun s => !s.startsWith "event.") σ _).trans (if_pos (by decide +kernel))))

theorem get_withEvent_other1 (σ : Ctx) (ty pk : String) (pv : V) (k : String) (hk : k ∈ plainKeys)
    (h1 : ty ≠ "UserMessage") (h2 : ty ≠ "StartUtteranceBotAction") (hpk : pk ∈ ["flow_id", "text", "script", "final_transcript"]) :
    (σ.withEvent (.other ty [(pk, pv)])).get k = σ.get k := by
  have e : σ.withEvent (.other ty [(pk, pv)]) = (Event.other ty [(pk, pv)]).props ++ σ.filter fun kv => !kv.1.startsWith "event." := by
    unfold Ctx.withEvent
    split
    · rename_i h; cases h; exact absurd rfl h1
    · rename_i h; cases h; exact absurd rfl h2
    · rfl
  rw [e]
  simp only [plainKeys, List.mem_cons, List.mem_nil_iff, or_false] at hk hpk
  rcases hpk with rfl | rfl | rfl | rfl <;> rcases hk with rfl | rfl | rfl | rfl | rfl | rfl | rfl | rfl | rfl <;>
    (simp only [Event.props, List.map]
     exact (get_append_miss _ _ _ (by simp (config := { decide := true }) [List.lookup])).trans
       ((get_filter_key (fun s => !s.startsWith "event.") σ _).trans (if_pos (by decide +kernel))))

theorem pyGet_strs (names : List String) (k : Nat) (nm : String) (h : names[k]? = some nm) :
    pyGet (.strs names) (.int k) = some (.str nm) := by
  have hk : k < names.length := by
    rcases Nat.lt_or_ge k names.length with h' | h'
    · exact h'
    · rw [List.getElem?_eq_none h'] at h; cases h
  have h1 : ¬ ((k : Int) < 0) := by omega
  have h2 : (0 : Int) ≤ k ∧ (k : Int) < names.length := by omega
  simp [pyGet, h1, h2, h]

/-! ### the flow states of the loop -/

def fsRIR (u : Nat) (h : Int) : FS := { uid := u, flowId := "run input rails", head := h }
def fsRIRint (u uc : Nat) : FS := { uid := u, flowId := "run input rails", head := 7, status := .interrupted, interruptedBy := some uc }
def fsPUIint (u0 u1 : Nat) : FS := { uid := u0, flowId := "process user input", head := 7, status := .interrupted, interruptedBy := some u1 }
def createStartRail : Elem := Elem.runAction "create_event" none "{\"event\": {\"_type\": \"StartInputRail\", \"flow_id\": \"$triggered_input_rail\"}}" none
def createRailFinished : Elem := Elem.runAction "create_event" none "{\"event\": {\"_type\": \"InputRailFinished\", \"flow_id\": \"$triggered_input_rail\"}}" none
def createRailsFinished : Elem := Elem.runAction "create_event" none "{\"event\": {\"_type\": \"InputRailsFinished\"}}" none


/-! ### the transitions of one loop iteration (symbolic execution of `computeNextState` on the generated program) -/

set_option linter.unusedSimpArgs false
set_option linter.unusedVariables false

macro "interp_simp" "[" ts:Lean.Parser.Tactic.simpLemma,* "]" : tactic =>
  `(tactic| simp [computeNextState, advanceAll, advanceOne, find_pui, find_rir, find_rdr, SUB_FUEL, slideWithSubflows, SLIDE_FUEL, slide, sstep,
      rir_elems, rir_triggers, rir_flags, pui_elems, pui_triggers, pui_flags, rdr_elems, rdr_triggers, rdr_flags,
      initPrev, recordNextStep, pyIndex, isActionable, isMatch, Event.triggers,
      markInterrupted, extensionInterrupt, resumeLoop, resumePass, setAt, eval, evalBin, V.truthy, V.pyLt, V.num?, pyLen,
      fsRIR, fsRIRint, fsPUIint, createStartRail, createRailFinished, createRailsFinished, get_set, $ts,*])

variable (rails : Cfgs) (hsub : ∀ r ∈ rails, r.isSubflow = true)

theorem T_a4 (hsub : ∀ r ∈ rails, r.isSubflow = true) (σ u : Ctx) (c u0 u1 : Nat) (nx : Option NextStep) :
    computeNextState true (base ++ rails)
      { ctx := σ, flows := [fsRIR u1 4, fsPUIint u0 u1], next := nx, upd := u, ctr := c } (.actionFinished "create_event" true)
    = .ok { ctx := σ.withEvent (.actionFinished "create_event" true), flows := [fsRIR u1 5, fsPUIint u0 u1], next := none, upd := [], ctr := c } := by
  have hq : Quiet (.actionFinished "create_event" true) = true := by decide
  interp_simp [startNew_quiet rails hsub _ hq]

theorem T_a8 (hsub : ∀ r ∈ rails, r.isSubflow = true) (σ u : Ctx) (c u0 u1 uc : Nat) (nm : String) (hd : Int) (scfg : FlowCfg)
    (hfind : Cfgs.find (base ++ rails) nm = some scfg) (nx : Option NextStep) :
    computeNextState true (base ++ rails)
      { ctx := σ, flows := [{ uid := uc, flowId := nm, head := hd, status := .completed }, fsRIR u1 8, fsPUIint u0 u1], next := nx, upd := u, ctr := c }
      (.actionFinished "create_event" true)
    = .ok { ctx := σ.withEvent (.actionFinished "create_event" true), flows := [fsRIR u1 9, fsPUIint u0 u1], next := none, upd := [], ctr := c } := by
  have hq : Quiet (.actionFinished "create_event" true) = true := by decide
  interp_simp [startNew_quiet rails hsub _ hq, hfind]

set_option maxRecDepth 8000 in
theorem T_b (hsub : ∀ r ∈ rails, r.isSubflow = true) (σ u : Ctx) (c u0 u1 : Nat) (h01 : u0 < u1) (h1c : u1 < c) (nx : Option NextStep)
    (names : List String) (k : Nat) (nm : String) (r : IRail) (v : V)
    (hi : σ.get "i" = .int k) (hf : σ.get "input_flows" = .strs names) (hnm : names[k]? = some nm)
    (hfind : Cfgs.find (base ++ rails) nm = some (IRail.cfg "user_message" r)) (hname : r.name = nm) :
    computeNextState true (base ++ rails)
      { ctx := σ, flows := [fsRIR u1 5, fsPUIint u0 u1], next := nx, upd := u, ctr := c } (.other "StartInputRail" [("flow_id", v)])
    = .ok { ctx := σ.withEvent (.other "StartInputRail" [("flow_id", v)]),
            flows := [{ uid := c, flowId := nm, head := 0 }, fsRIRint u1 c, fsPUIint u0 u1],
            next := some { elem := Elem.runAction r.action none "{}" (some (match r.kind with | .check _ => "allowed" | .rewrite _ => "user_message")),
                           uid := c, prio := 10000 },
            upd := [], ctr := c + 1 } := by
  have hq : Quiet (.other "StartInputRail" [("flow_id", v)]) = true := rfl
  have gi := get_withEvent_other1 σ "StartInputRail" "flow_id" v "i" (by decide) (by decide) (by decide) (by decide)
  have gf := get_withEvent_other1 σ "StartInputRail" "flow_id" v "input_flows" (by decide) (by decide) (by decide) (by decide)
  have hne1 : u0 ≠ u1 := by omega
  have hne2 : c ≠ u1 := by omega
  have hne3 : c ≠ u0 := by omega
  have b1 : (c == u1) = false := beq_false_of_ne hne2
  have b2 : (u1 == c) = false := beq_false_of_ne (Ne.symm hne2)
  have b3 : (c == u0) = false := beq_false_of_ne hne3
  have b4 : (u0 == c) = false := beq_false_of_ne (Ne.symm hne3)
  have b5 : (u0 == u1) = false := beq_false_of_ne hne1
  have b6 : (u1 == u0) = false := beq_false_of_ne (Ne.symm hne1)
  cases hk : r.kind <;>
  · simp [computeNextState, advanceAll, advanceOne, find_pui, find_rir, find_rdr, SUB_FUEL, slideWithSubflows, SLIDE_FUEL, slide, sstep,
      rir_elems, rir_triggers, rir_flags, pui_elems, pui_triggers, pui_flags,
      initPrev, recordNextStep, pyIndex, isActionable, isMatch, Event.triggers, eval, evalBin, V.truthy, V.pyLt, V.num?, pyLen,
      fsRIR, fsRIRint, fsPUIint, get_set, startNew_quiet rails hsub _ hq, gi, gf, hi, hf, pyGet_strs names k nm hnm, hfind, IRail.cfg, hk]
    simp [markInterrupted, extensionInterrupt, resumeLoop, resumePass, setAt, hfind, IRail.cfg, hk, b1, b2, b3, b4, b5, b6]

set_option maxRecDepth 8000 in
/-- the rail's action finished: a check rail that allows / a rewriting rail completes, `run input rails` resumes,
    increments `$i` exactly once and asks for the `InputRailFinished` marker -/
theorem T_c (hsub : ∀ r ∈ rails, r.isSubflow = true) (σ u : Ctx) (c u0 u1 uc : Nat) (h01 : u0 < u1) (h1c : u1 < uc) (nx : Option NextStep)
    (k : Nat) (nm : String) (r : IRail)
    (hi : σ.get "i" = .int k)
    (hpass : match r.kind with | .check _ => σ.get "allowed" = .bool true | .rewrite _ => True)
    (hfind : Cfgs.find (base ++ rails) nm = some (IRail.cfg "user_message" r)) (hact : r.action ≠ "utter") :
    computeNextState true (base ++ rails)
      { ctx := σ, flows := [{ uid := uc, flowId := nm, head := 0 }, fsRIRint u1 uc, fsPUIint u0 u1], next := nx, upd := u, ctr := c }
      (.actionFinished r.action true)
    = .ok { ctx := (σ.withEvent (.actionFinished r.action true)).set "i" (.int (k + 1)),
            flows := [{ uid := uc, flowId := nm, head := (match r.kind with | .check _ => -2 | .rewrite _ => -1), status := .completed },
                      fsRIR u1 8, fsPUIint u0 u1],
            next := some { elem := createRailFinished, uid := u1, prio := 10000 },
            upd := [("i", .int (k + 1))], ctr := c } := by
  have hq : Quiet (.actionFinished r.action true) = true := by
    show (r.action != "utter") = true
    exact bne_iff_ne.mpr hact
  have gi := get_withEvent_actFin σ r.action true "i" (by decide)
  have ga := get_withEvent_actFin σ r.action true "allowed" (by decide)
  have hne1 : u0 ≠ u1 := by omega
  have hne2 : uc ≠ u1 := by omega
  have hne3 : uc ≠ u0 := by omega
  have b1 : (uc == u1) = false := beq_false_of_ne hne2
  have b2 : (u1 == uc) = false := beq_false_of_ne (Ne.symm hne2)
  have b3 : (uc == u0) = false := beq_false_of_ne hne3
  have b4 : (u0 == uc) = false := beq_false_of_ne (Ne.symm hne3)
  have b5 : (u0 == u1) = false := beq_false_of_ne hne1
  have b6 : (u1 == u0) = false := beq_false_of_ne (Ne.symm hne1)
  cases hk : r.kind <;> rw [hk] at hpass <;> simp only [] at hpass ⊢ <;>
  · simp [computeNextState, advanceAll, advanceOne, find_pui, find_rir, find_rdr, SUB_FUEL, slideWithSubflows, SLIDE_FUEL, slide, sstep,
      rir_elems, rir_triggers, rir_flags, pui_elems, pui_triggers, pui_flags,
      initPrev, recordNextStep, pyIndex, isActionable, isMatch, Event.triggers, eval, evalBin, V.truthy, V.pyLt, V.num?, pyLen,
      fsRIR, fsRIRint, fsPUIint, createRailFinished, get_set, startNew_quiet rails hsub _ hq, gi, ga, hi, hpass, hfind, IRail.cfg, hk]
    simp [markInterrupted, extensionInterrupt, resumeLoop, resumePass, setAt, hfind, IRail.cfg, hk, b1, b2, b3, b4, b5, b6,
      find_pui, find_rir, SUB_FUEL, slideWithSubflows, SLIDE_FUEL, slide, sstep, rir_elems, rir_flags, initPrev, recordNextStep, pyIndex,
      isActionable, eval, evalBin, V.num?, get_set, gi, hi, fsRIR, fsRIRint, fsPUIint, createRailFinished]
    rfl

set_option maxRecDepth 8000 in
/-- the `InputRailFinished` marker arrived and rails remain: back at the loop head with the next rail -/
theorem T_d_cont (hsub : ∀ r ∈ rails, r.isSubflow = true) (σ u : Ctx) (c u0 u1 : Nat) (h01 : u0 < u1) (nx : Option NextStep)
    (names : List String) (k : Nat) (nm : String) (v : V)
    (hi : σ.get "i" = .int k) (hf : σ.get "input_flows" = .strs names) (hnm : names[k]? = some nm) :
    computeNextState true (base ++ rails)
      { ctx := σ, flows := [fsRIR u1 9, fsPUIint u0 u1], next := nx, upd := u, ctr := c } (.other "InputRailFinished" [("flow_id", v)])
    = .ok { ctx := ((σ.withEvent (.other "InputRailFinished" [("flow_id", v)])).set "triggered_input_rail" .none).set "triggered_input_rail" (.str nm),
            flows := [fsRIR u1 4, fsPUIint u0 u1],
            next := some { elem := createStartRail, uid := u1, prio := 10000 },
            upd := [("triggered_input_rail", .str nm)], ctr := c } := by
  have hq : Quiet (.other "InputRailFinished" [("flow_id", v)]) = true := rfl
  have gi := get_withEvent_other1 σ "InputRailFinished" "flow_id" v "i" (by decide) (by decide) (by decide) (by decide)
  have gf := get_withEvent_other1 σ "InputRailFinished" "flow_id" v "input_flows" (by decide) (by decide) (by decide) (by decide)
  have hne1 : u0 ≠ u1 := by omega
  have b5 : (u0 == u1) = false := beq_false_of_ne hne1
  have b6 : (u1 == u0) = false := beq_false_of_ne (Ne.symm hne1)
  have hk : k < names.length := by
    rcases Nat.lt_or_ge k names.length with h' | h'
    · exact h'
    · rw [List.getElem?_eq_none h'] at hnm; cases hnm
  have hlt : ((k : Int) < (names.length : Int)) := by omega
  simp [computeNextState, advanceAll, advanceOne, find_pui, find_rir, find_rdr, SUB_FUEL, slideWithSubflows, SLIDE_FUEL, slide, sstep,
      rir_elems, rir_triggers, rir_flags, pui_elems, pui_triggers, pui_flags,
      initPrev, recordNextStep, pyIndex, isActionable, isMatch, Event.triggers, eval, evalBin, V.truthy, V.pyLt, V.num?, pyLen,
      fsRIR, fsRIRint, fsPUIint, createStartRail, get_set, startNew_quiet rails hsub _ hq, gi, gf, hi, hf, pyGet_strs names k nm hnm, hlt]
  simp [markInterrupted, extensionInterrupt, resumeLoop, resumePass, setAt, b5, b6, find_rir, rir_flags, fsRIR, fsPUIint, createStartRail]
  simp [Ctx.set]

set_option maxRecDepth 8000 in
/-- the `InputRailFinished` marker arrived and `$i = len($input_flows)`: the loop is left, `run input rails` completes,
    `process user input` resumes and asks for the `InputRailsFinished` marker -/
theorem T_d_exit (hsub : ∀ r ∈ rails, r.isSubflow = true) (σ u : Ctx) (c u0 u1 : Nat) (h01 : u0 < u1) (nx : Option NextStep)
    (names : List String) (v : V)
    (hi : σ.get "i" = .int names.length) (hf : σ.get "input_flows" = .strs names) :
    computeNextState true (base ++ rails)
      { ctx := σ, flows := [fsRIR u1 9, fsPUIint u0 u1], next := nx, upd := u, ctr := c } (.other "InputRailFinished" [("flow_id", v)])
    = .ok { ctx := (σ.withEvent (.other "InputRailFinished" [("flow_id", v)])).set "triggered_input_rail" .none,
            flows := [{ uid := u1, flowId := "run input rails", head := -3, status := .completed },
                      { uid := u0, flowId := "process user input", head := 7 }],
            next := some { elem := createRailsFinished, uid := u0, prio := 10000 },
            upd := [("triggered_input_rail", .none)], ctr := c } := by
  have hq : Quiet (.other "InputRailFinished" [("flow_id", v)]) = true := rfl
  have gi := get_withEvent_other1 σ "InputRailFinished" "flow_id" v "i" (by decide) (by decide) (by decide) (by decide)
  have gf := get_withEvent_other1 σ "InputRailFinished" "flow_id" v "input_flows" (by decide) (by decide) (by decide) (by decide)
  have hne1 : u0 ≠ u1 := by omega
  have b5 : (u0 == u1) = false := beq_false_of_ne hne1
  have b6 : (u1 == u0) = false := beq_false_of_ne (Ne.symm hne1)
  simp [computeNextState, advanceAll, advanceOne, find_pui, find_rir, find_rdr, SUB_FUEL, slideWithSubflows, SLIDE_FUEL, slide, sstep,
      rir_elems, rir_triggers, rir_flags, pui_elems, pui_triggers, pui_flags,
      initPrev, recordNextStep, pyIndex, isActionable, isMatch, Event.triggers, eval, evalBin, V.truthy, V.pyLt, V.num?, pyLen,
      fsRIR, fsRIRint, fsPUIint, createRailsFinished, get_set, startNew_quiet rails hsub _ hq, gi, gf, hi, hf]
  simp [markInterrupted, extensionInterrupt, resumeLoop, resumePass, setAt, b5, b6, find_rir, find_pui, rir_flags, pui_flags, pui_elems, fsRIR, fsPUIint,
    createRailsFinished, SUB_FUEL, slideWithSubflows, SLIDE_FUEL, slide, sstep, initPrev, recordNextStep, pyIndex, isActionable]
  rfl


/-! ### one iteration, and the loop for any number of rails -/

/-- what the loop reads from the context: `$i`, `$input_flows`, `$user_message`, `$allowed` -/
def Facts (σ : Ctx) (i : Nat) (names : List String) (um al : V) : Prop :=
  σ.get "i" = .int i ∧ σ.get "input_flows" = .strs names ∧ σ.get "user_message" = um ∧ σ.get "allowed" = al

theorem Facts.withActFin {σ i names um al} (h : Facts σ i names um al) (n : String) (ok : Bool) :
    Facts (σ.withEvent (.actionFinished n ok)) i names um al := by
  obtain ⟨h1, h2, h3, h4⟩ := h
  exact ⟨(get_withEvent_actFin σ n ok "i" (by decide)).trans h1, (get_withEvent_actFin σ n ok "input_flows" (by decide)).trans h2,
    (get_withEvent_actFin σ n ok "user_message" (by decide)).trans h3, (get_withEvent_actFin σ n ok "allowed" (by decide)).trans h4⟩

theorem Facts.withMarker {σ i names um al} (h : Facts σ i names um al) (ty : String) (v : V)
    (h1 : ty ≠ "UserMessage") (h2 : ty ≠ "StartUtteranceBotAction") :
    Facts (σ.withEvent (.other ty [("flow_id", v)])) i names um al := by
  obtain ⟨g1, g2, g3, g4⟩ := h
  exact ⟨(get_withEvent_other1 σ ty "flow_id" v "i" (by decide) h1 h2 (by decide)).trans g1,
    (get_withEvent_other1 σ ty "flow_id" v "input_flows" (by decide) h1 h2 (by decide)).trans g2,
    (get_withEvent_other1 σ ty "flow_id" v "user_message" (by decide) h1 h2 (by decide)).trans g3,
    (get_withEvent_other1 σ ty "flow_id" v "allowed" (by decide) h1 h2 (by decide)).trans g4⟩

theorem Facts.setOther {σ i names um al} (h : Facts σ i names um al) (k : String) (v : V)
    (hk : k ≠ "i" ∧ k ≠ "input_flows" ∧ k ≠ "user_message" ∧ k ≠ "allowed") : Facts (σ.set k v) i names um al := by
  obtain ⟨g1, g2, g3, g4⟩ := h
  obtain ⟨k1, k2, k3, k4⟩ := hk
  refine ⟨?_, ?_, ?_, ?_⟩ <;> rw [get_set] <;> simp [Ne.symm k1, Ne.symm k2, Ne.symm k3, Ne.symm k4, *]

theorem Facts.setI {σ i names um al} (h : Facts σ i names um al) (j : Nat) : Facts (σ.set "i" (.int j)) j names um al := by
  obtain ⟨g1, g2, g3, g4⟩ := h
  refine ⟨?_, ?_, ?_, ?_⟩ <;> rw [get_set] <;> simp [*]

theorem Facts.setAllowed {σ i names um al} (h : Facts σ i names um al) (v : V) : Facts (σ.set "allowed" v) i names um v := by
  obtain ⟨g1, g2, g3, g4⟩ := h
  refine ⟨?_, ?_, ?_, ?_⟩ <;> rw [get_set] <;> simp [*]

theorem Facts.setUM {σ i names um al} (h : Facts σ i names um al) (v : V) : Facts (σ.set "user_message" v) i names v al := by
  obtain ⟨g1, g2, g3, g4⟩ := h
  refine ⟨?_, ?_, ?_, ?_⟩ <;> rw [get_set] <;> simp [*]


theorem replay_cons_ok (cfgs : Cfgs) (ev : Event) (rest : List Event) (st st' : State)
    (h : computeNextState true cfgs st ev = .ok st') (hne : ev ≠ .botIntent "stop") :
    replay true cfgs (ev :: rest) st = replay true cfgs rest st' := by
  have : (ev == Event.botIntent "stop") = false := beq_false_of_ne hne
  simp only [replay, h, this, Bool.false_eq_true, if_false]

theorem cns_ctx (cfgs : Cfgs) (st : State) (d : Ctx) :
    computeNextState true cfgs st (.contextUpdate d) = .ok { st with ctx := st.ctx.update d, upd := [], next := none } := rfl
theorem cns_start (cfgs : Cfgs) (st : State) : computeNextState true cfgs st .startAction = .ok st := rfl

/-- the interpreter state at the head of the `while` loop: `run input rails` waits at the `create event StartInputRail`
    of iteration `$i`, `process user input` waits for it -/
def headState (σ u : Ctx) (c u0 u1 : Nat) : State :=
  { ctx := σ, flows := [fsRIR u1 4, fsPUIint u0 u1], next := some ⟨createStartRail, u1, 10000⟩, upd := u, ctr := c }

/-- the state after the loop: `run input rails` completed, `process user input` asks for `InputRailsFinished` -/
def exitState (σ : Ctx) (c u0 u1 : Nat) : State :=
  { ctx := σ, flows := [{ uid := u1, flowId := "run input rails", head := -3, status := .completed }, { uid := u0, flowId := "process user input", head := 7 }],
    next := some ⟨createRailsFinished, u0, 10000⟩, upd := [("triggered_input_rail", .none)], ctr := c }

def resultKey (r : IRail) : String := match r.kind with | .check _ => "allowed" | .rewrite _ => "user_message"

/-- the events `generate_events` appends during ONE iteration for a rail whose action lets the loop continue:
    `res` = the `ContextUpdate` of the action's result key, absent when the value did not change -/
def iterEvents (u : Ctx) (r : IRail) (res : Option V) (k : Nat) (v1 v2 : V) : List Event :=
  [.contextUpdate u, .startAction, .actionFinished "create_event" true, .other "StartInputRail" [("flow_id", v1)], .startAction] ++
  (match res with | none => [] | some v => [.contextUpdate [(resultKey r, v)]]) ++
  [.actionFinished r.action true, .contextUpdate [("i", .int (k + 1))], .startAction, .actionFinished "create_event" true,
   .other "InputRailFinished" [("flow_id", v2)]]

variable (rails : Cfgs)

/-- first half of an iteration: marker, sub-flow call; the interpreter now asks for the rail's action -/
theorem iter_call (hsub : ∀ r ∈ rails, r.isSubflow = true) (σ u : Ctx) (c u0 u1 : Nat) (h01 : u0 < u1) (h1c : u1 < c)
    (names : List String) (k : Nat) (um al : V) (nm : String) (r : IRail) (v1 : V)
    (hF : Facts (σ.update u) k names um al) (hnm : names[k]? = some nm)
    (hfind : Cfgs.find (base ++ rails) nm = some (IRail.cfg "user_message" r)) (hname : r.name = nm) (rest : List Event) :
    ∃ σ2, Facts σ2 k names um al ∧
      replay true (base ++ rails) ([.contextUpdate u, .startAction, .actionFinished "create_event" true, .other "StartInputRail" [("flow_id", v1)], .startAction] ++ rest)
        (headState σ u c u0 u1)
      = replay true (base ++ rails) rest
        { ctx := σ2, flows := [{ uid := c, flowId := nm, head := 0 }, fsRIRint u1 c, fsPUIint u0 u1],
          next := some { elem := Elem.runAction r.action none "{}" (some (resultKey r)), uid := c, prio := 10000 }, upd := [], ctr := c + 1 } := by
  refine ⟨((σ.update u).withEvent (.actionFinished "create_event" true)).withEvent (.other "StartInputRail" [("flow_id", v1)]),
    (hF.withActFin _ _).withMarker _ _ (by decide) (by decide), ?_⟩
  simp only [List.cons_append, List.nil_append, headState]
  rw [replay_cons_ok _ _ _ _ _ (cns_ctx _ _ _) (by simp), replay_cons_ok _ _ _ _ _ (cns_start _ _) (by simp),
    replay_cons_ok _ _ _ _ _ (T_a4 rails hsub _ _ _ _ _ _) (by simp)]
  have hF1 := hF.withActFin "create_event" true
  rw [replay_cons_ok _ _ _ _ _ (T_b rails hsub _ _ c u0 u1 h01 h1c _ names k nm r v1 hF1.1 hF1.2.1 hnm hfind hname) (by simp),
    replay_cons_ok _ _ _ _ _ (cns_start _ _) (by simp)]
  rfl

theorem update_single (σ : Ctx) (k : String) (v : V) : σ.update [(k, v)] = σ.set k v := rfl

/-- second half of an iteration: the rail's action finished without blocking; `$i` is incremented once, the finish
    marker is created, and the loop either continues with rail `k+1` or is left -/
theorem iter_return (hsub : ∀ r ∈ rails, r.isSubflow = true) (σ u : Ctx) (c u0 u1 uc : Nat) (h01 : u0 < u1) (h1c : u1 < uc) (nx : Option NextStep)
    (names : List String) (k : Nat) (um al : V) (nm : String) (r : IRail) (v2 : V)
    (hF : Facts σ k names um al)
    (hpass : match r.kind with | .check _ => al = .bool true | .rewrite _ => True)
    (hfind : Cfgs.find (base ++ rails) nm = some (IRail.cfg "user_message" r)) (hact : r.action ≠ "utter") (rest : List Event) :
    (∀ nm', names[k + 1]? = some nm' →
      ∃ σ', Facts (σ'.update [("triggered_input_rail", .str nm')]) (k + 1) names um al ∧
        replay true (base ++ rails) ([.actionFinished r.action true, .contextUpdate [("i", .int (k + 1))], .startAction,
            .actionFinished "create_event" true, .other "InputRailFinished" [("flow_id", v2)]] ++ rest)
          { ctx := σ, flows := [{ uid := uc, flowId := nm, head := 0 }, fsRIRint u1 uc, fsPUIint u0 u1], next := nx, upd := u, ctr := c }
        = replay true (base ++ rails) rest (headState σ' [("triggered_input_rail", .str nm')] c u0 u1)) ∧
    (k + 1 = names.length →
      ∃ σ', Facts σ' (k + 1) names um al ∧
        replay true (base ++ rails) ([.actionFinished r.action true, .contextUpdate [("i", .int (k + 1))], .startAction,
            .actionFinished "create_event" true, .other "InputRailFinished" [("flow_id", v2)]] ++ rest)
          { ctx := σ, flows := [{ uid := uc, flowId := nm, head := 0 }, fsRIRint u1 uc, fsPUIint u0 u1], next := nx, upd := u, ctr := c }
        = replay true (base ++ rails) rest (exitState σ' c u0 u1)) := by
  have hpass' : match r.kind with | .check _ => σ.get "allowed" = .bool true | .rewrite _ => True := by
    cases hk : r.kind <;> rw [hk] at hpass <;> simp only [] at hpass ⊢
    exact hF.2.2.2.trans hpass
  have hTc := T_c rails hsub σ u c u0 u1 uc h01 h1c nx k nm r hF.1 hpass' hfind hact
  have hne : Event.actionFinished r.action true ≠ .botIntent "stop" := by simp
  -- the contexts along the five events
  let σa := (σ.withEvent (.actionFinished r.action true)).set "i" (.int ((k : Int) + 1))
  let σb := σa.set "i" (.int ((k : Int) + 1))
  let σc := σb.withEvent (.actionFinished "create_event" true)
  let σd := σc.withEvent (.other "InputRailFinished" [("flow_id", v2)])
  have hFb : Facts σb (k + 1) names um al := ((hF.withActFin _ _).setI (k + 1)).setI (k + 1)
  have hFc : Facts σc (k + 1) names um al := hFb.withActFin _ _
  have hFd : Facts σd (k + 1) names um al := hFc.withMarker _ _ (by decide) (by decide)
  have hprefix : ∀ rest', replay true (base ++ rails) ([.actionFinished r.action true, .contextUpdate [("i", .int (k + 1))], .startAction,
            .actionFinished "create_event" true] ++ rest')
          { ctx := σ, flows := [{ uid := uc, flowId := nm, head := 0 }, fsRIRint u1 uc, fsPUIint u0 u1], next := nx, upd := u, ctr := c }
        = replay true (base ++ rails) rest' { ctx := σc, flows := [fsRIR u1 9, fsPUIint u0 u1], next := none, upd := [], ctr := c } := by
    intro rest'
    simp only [List.cons_append, List.nil_append]
    rw [replay_cons_ok _ _ _ _ _ hTc hne, replay_cons_ok _ _ _ _ _ (cns_ctx _ _ _) (by simp), replay_cons_ok _ _ _ _ _ (cns_start _ _) (by simp)]
    simp only [update_single]
    rw [replay_cons_ok _ _ _ _ _ (T_a8 rails hsub _ _ _ _ _ _ nm _ _ hfind _) (by simp)]
  constructor
  · intro nm' hnm'
    refine ⟨(σd.set "triggered_input_rail" .none).set "triggered_input_rail" (.str nm'), ?_, ?_⟩
    · rw [update_single]
      exact ((hFd.setOther _ _ (by decide)).setOther _ _ (by decide)).setOther _ _ (by decide)
    · have := hprefix ([.other "InputRailFinished" [("flow_id", v2)]] ++ rest)
      simp only [List.cons_append, List.nil_append] at this ⊢
      rw [this, replay_cons_ok _ _ _ _ _ (T_d_cont rails hsub _ _ c u0 u1 h01 _ names (k + 1) nm' v2 (by exact_mod_cast hFc.1) hFc.2.1 hnm') (by simp)]
      rfl
  · intro hlen
    refine ⟨σd.set "triggered_input_rail" .none, hFd.setOther _ _ (by decide), ?_⟩
    have := hprefix ([.other "InputRailFinished" [("flow_id", v2)]] ++ rest)
    simp only [List.cons_append, List.nil_append] at this ⊢
    rw [this, replay_cons_ok _ _ _ _ _ (T_d_exit rails hsub _ _ c u0 u1 h01 _ names v2 (by rw [← hlen]; exact_mod_cast hFc.1) hFc.2.1) (by simp)]
    rfl

/-- how a non-blocking rail changes `$user_message` / `$allowed` -/
def stepVals (r : IRail) (um al : V) : V × V :=
  match r.kind with
  | .check _ => (um, .bool true)
  | .rewrite f => (.str (f (strOf um)), al)

/-- the rail lets the loop continue on the text `um` -/
def passes (r : IRail) (um : V) : Prop :=
  match r.kind with
  | .check allowed => allowed (strOf um) = true
  | .rewrite _ => True

/-- `res` is what `_process_start_action` emits for the rail's result key: the new value, or nothing when it equals the old one -/
def resOK (r : IRail) (um al : V) (res : Option V) : Prop :=
  match res with
  | some v => v = railResult r (strOf um)
  | none => (match r.kind with | .check _ => al = railResult r (strOf um) | .rewrite _ => um = railResult r (strOf um))

/-- the events `generate_events` appends while the remaining rails `rs` (from index `k`) all let the message pass -/
inductive LoopRun : List IRail → Nat → Ctx → V → V → List Event → Prop
  | last (r : IRail) (k : Nat) (u : Ctx) (um al : V) (res : Option V) (v1 v2 : V) (hp : passes r um) (hr : resOK r um al res) :
      LoopRun [r] k u um al (iterEvents u r res k v1 v2)
  | cons (r r' : IRail) (rs : List IRail) (k : Nat) (u : Ctx) (um al : V) (res : Option V) (v1 v2 : V) (es : List Event)
      (hp : passes r um) (hr : resOK r um al res)
      (hrest : LoopRun (r' :: rs) (k + 1) [("triggered_input_rail", .str r'.name)] (stepVals r um al).1 (stepVals r um al).2 es) :
      LoopRun (r :: r' :: rs) k u um al (iterEvents u r res k v1 v2 ++ es)

def finalVals : List IRail → V → V → V × V
  | [], um, al => (um, al)
  | r :: rs, um, al => finalVals rs (stepVals r um al).1 (stepVals r um al).2

def RailOK (r : IRail) : Prop :=
  Cfgs.find (base ++ rails) r.name = some (IRail.cfg "user_message" r) ∧ r.action ≠ "utter"

/-- one whole iteration for a passing rail, up to the two ways it can end -/
theorem iter_full (hsub : ∀ r ∈ rails, r.isSubflow = true) (σ u : Ctx) (c u0 u1 : Nat) (h01 : u0 < u1) (h1c : u1 < c)
    (names : List String) (k : Nat) (um al : V) (r : IRail) (res : Option V) (v1 v2 : V)
    (hF : Facts (σ.update u) k names um al) (hnm : names[k]? = some r.name) (hok : RailOK rails r)
    (hp : passes r um) (hr : resOK r um al res) (rest : List Event) :
    (∀ nm', names[k + 1]? = some nm' →
      ∃ σ', Facts (σ'.update [("triggered_input_rail", .str nm')]) (k + 1) names (stepVals r um al).1 (stepVals r um al).2 ∧
        replay true (base ++ rails) (iterEvents u r res k v1 v2 ++ rest) (headState σ u c u0 u1)
        = replay true (base ++ rails) rest (headState σ' [("triggered_input_rail", .str nm')] (c + 1) u0 u1)) ∧
    (k + 1 = names.length →
      ∃ σ', Facts σ' (k + 1) names (stepVals r um al).1 (stepVals r um al).2 ∧
        replay true (base ++ rails) (iterEvents u r res k v1 v2 ++ rest) (headState σ u c u0 u1)
        = replay true (base ++ rails) rest (exitState σ' (c + 1) u0 u1)) := by
  obtain ⟨hfind, hact⟩ := hok
  -- after the call
  have hcall := fun rest' => iter_call rails hsub σ u c u0 u1 h01 h1c names k um al r.name r v1 hF hnm hfind rfl rest'
  -- the result update (if any) and the facts after it
  have hmid : ∀ σ2, Facts σ2 k names um al → ∀ rest', ∃ σ3 nx, Facts σ3 k names (stepVals r um al).1 (stepVals r um al).2 ∧
      replay true (base ++ rails) ((match res with | none => [] | some v => [Event.contextUpdate [(resultKey r, v)]]) ++ rest')
        { ctx := σ2, flows := [{ uid := c, flowId := r.name, head := 0 }, fsRIRint u1 c, fsPUIint u0 u1],
          next := some { elem := Elem.runAction r.action none "{}" (some (resultKey r)), uid := c, prio := 10000 }, upd := [], ctr := c + 1 }
      = replay true (base ++ rails) rest'
        { ctx := σ3, flows := [{ uid := c, flowId := r.name, head := 0 }, fsRIRint u1 c, fsPUIint u0 u1], next := nx, upd := [], ctr := c + 1 } := by
    intro σ2 hF2 rest'
    cases hres : res with
    | none =>
      refine ⟨σ2, _, ?_, rfl⟩
      rw [hres] at hr
      cases hk : r.kind with
      | check a =>
        simp only [resOK, hk, railResult] at hr
        simp only [passes, hk] at hp
        simp only [stepVals, hk]
        obtain ⟨g1, g2, g3, g4⟩ := hF2
        exact ⟨g1, g2, g3, by rw [g4, hr, hp]⟩
      | rewrite f =>
        simp only [resOK, hk, railResult] at hr
        simp only [stepVals, hk]
        obtain ⟨g1, g2, g3, g4⟩ := hF2
        exact ⟨g1, g2, by rw [g3]; exact hr, g4⟩
    | some v =>
      rw [hres] at hr
      simp only [resOK] at hr
      cases hk : r.kind with
      | check a =>
        simp only [passes, hk] at hp
        refine ⟨σ2.set "allowed" v, none, ?_, ?_⟩
        · simp only [stepVals, hk]
          have : v = .bool true := by rw [hr]; simp [railResult, hk, hp]
          rw [this]; exact hF2.setAllowed _
        · simp only [List.cons_append, List.nil_append]
          rw [replay_cons_ok _ _ _ _ _ (cns_ctx _ _ _) (by simp)]
          simp [resultKey, hk, update_single]
      | rewrite f =>
        refine ⟨σ2.set "user_message" v, none, ?_, ?_⟩
        · simp only [stepVals, hk]
          have : v = .str (f (strOf um)) := by rw [hr]; simp [railResult, hk]
          rw [this]; exact hF2.setUM _
        · simp only [List.cons_append, List.nil_append]
          rw [replay_cons_ok _ _ _ _ _ (cns_ctx _ _ _) (by simp)]
          simp [resultKey, hk, update_single]
  have hpass : match r.kind with | .check _ => (stepVals r um al).2 = .bool true | .rewrite _ => True := by
    cases hk : r.kind <;> simp [stepVals, hk]
  have hsplit : ∀ rest', iterEvents u r res k v1 v2 ++ rest' =
      [.contextUpdate u, .startAction, .actionFinished "create_event" true, .other "StartInputRail" [("flow_id", v1)], .startAction] ++
      ((match res with | none => [] | some v => [Event.contextUpdate [(resultKey r, v)]]) ++
       ([.actionFinished r.action true, .contextUpdate [("i", .int (k + 1))], .startAction, .actionFinished "create_event" true,
         .other "InputRailFinished" [("flow_id", v2)]] ++ rest')) := by
    intro rest'; simp [iterEvents, List.append_assoc]
  constructor
  · intro nm' hnm'
    obtain ⟨σ2, hF2, e1⟩ := hcall ((match res with | none => [] | some v => [Event.contextUpdate [(resultKey r, v)]]) ++
       ([.actionFinished r.action true, .contextUpdate [("i", .int (k + 1))], .startAction, .actionFinished "create_event" true,
         .other "InputRailFinished" [("flow_id", v2)]] ++ rest))
    obtain ⟨σ3, nx, hF3, e2⟩ := hmid σ2 hF2 ([.actionFinished r.action true, .contextUpdate [("i", .int (k + 1))], .startAction, .actionFinished "create_event" true,
         .other "InputRailFinished" [("flow_id", v2)]] ++ rest)
    obtain ⟨σ', hF', e3⟩ := (iter_return rails hsub σ3 [] (c + 1) u0 u1 c h01 h1c nx names k _ _ r.name r v2 hF3 hpass hfind hact rest).1 nm' hnm'
    exact ⟨σ', hF', by rw [hsplit, e1, e2, e3]⟩
  · intro hlen
    obtain ⟨σ2, hF2, e1⟩ := hcall ((match res with | none => [] | some v => [Event.contextUpdate [(resultKey r, v)]]) ++
       ([.actionFinished r.action true, .contextUpdate [("i", .int (k + 1))], .startAction, .actionFinished "create_event" true,
         .other "InputRailFinished" [("flow_id", v2)]] ++ rest))
    obtain ⟨σ3, nx, hF3, e2⟩ := hmid σ2 hF2 ([.actionFinished r.action true, .contextUpdate [("i", .int (k + 1))], .startAction, .actionFinished "create_event" true,
         .other "InputRailFinished" [("flow_id", v2)]] ++ rest)
    obtain ⟨σ', hF', e3⟩ := (iter_return rails hsub σ3 [] (c + 1) u0 u1 c h01 h1c nx names k _ _ r.name r v2 hF3 hpass hfind hact rest).2 hlen
    exact ⟨σ', hF', by rw [hsplit, e1, e2, e3]⟩

theorem drop_cons_facts (names : List String) (k : Nat) (a : String) (l : List String) (h : names.drop k = a :: l) :
    names[k]? = some a ∧ names.drop (k + 1) = l := by
  constructor
  · have := congrArg List.head? h
    simpa [List.head?_drop] using this
  · have := congrArg List.tail h
    simpa [List.tail_drop] using this

/-- **The `while $i < len($input_flows)` loop of the generated `run input rails`, for ANY number of rails**: from the loop
    head at index `k` (interpreter state `headState`: position 4 of `run input rails`, `$i = k`, `$user_message = um`),
    replaying the events the runtime appends while the remaining rails `rs` let the message pass ends in `exitState`:
    `run input rails` completed, `process user input` about to create `InputRailsFinished`, `$i = len`, and
    `$user_message` / `$allowed` are what folding the rails over the text gives (`finalVals`).  Induction over the remaining
    rails; the invariant is `Facts` + the shape of the flow states. -/
theorem input_rails_loop (hsub : ∀ r ∈ rails, r.isSubflow = true) (names : List String) (u0 u1 : Nat) (h01 : u0 < u1) :
    ∀ (rs : List IRail) (k : Nat) (u : Ctx) (um al : V) (es : List Event), LoopRun rs k u um al es →
      names.drop k = rs.map (·.name) → (∀ r ∈ rs, RailOK rails r) →
      ∀ (σ : Ctx) (c : Nat), u1 < c → Facts (σ.update u) k names um al → ∀ rest : List Event,
      ∃ σ' c', Facts σ' names.length names (finalVals rs um al).1 (finalVals rs um al).2 ∧
        replay true (base ++ rails) (es ++ rest) (headState σ u c u0 u1) = replay true (base ++ rails) rest (exitState σ' c' u0 u1) := by
  intro rs k u um al es hrun
  induction hrun with
  | last r k u um al res v1 v2 hp hr =>
    intro hnames hok σ c h1c hF rest
    obtain ⟨hnm, hdrop⟩ := drop_cons_facts names k r.name [] (by simpa using hnames)
    have hlen : k + 1 = names.length := by
      have h1 : names.length ≤ k + 1 := List.drop_eq_nil_iff.mp hdrop
      have h2 : k < names.length := by
        rcases Nat.lt_or_ge k names.length with h' | h'
        · exact h'
        · rw [List.getElem?_eq_none h'] at hnm; cases hnm
      omega
    obtain ⟨σ', hF', e⟩ := (iter_full rails hsub σ u c u0 u1 h01 h1c names k um al r res v1 v2 hF hnm (hok r (List.mem_cons_self ..)) hp hr rest).2 hlen
    exact ⟨σ', c + 1, by rw [← hlen]; exact hF', e⟩
  | cons r r' rs k u um al res v1 v2 es hp hr hrest ih =>
    intro hnames hok σ c h1c hF rest
    obtain ⟨hnm, hdrop⟩ := drop_cons_facts names k r.name ((r' :: rs).map (·.name)) (by simpa using hnames)
    obtain ⟨hnm', _⟩ := drop_cons_facts names (k + 1) r'.name (rs.map (·.name)) (by simpa using hdrop)
    obtain ⟨σ1, hF1, e1⟩ := (iter_full rails hsub σ u c u0 u1 h01 h1c names k um al r res v1 v2 hF hnm (hok r (List.mem_cons_self ..)) hp hr (es ++ rest)).1 r'.name hnm'
    obtain ⟨σ', c', hF', e2⟩ := ih (by simpa using hdrop) (fun x hx => hok x (List.mem_cons_of_mem _ hx)) σ1 (c + 1) (by omega) hF1 rest
    exact ⟨σ', c', hF', by rw [List.append_assoc, e1, e2]⟩


/-! ### bridge to `PipelineOpts` -/

/-- the abstract rail (`PipelineOpts`) a rail sub-flow of the two shipped shapes stands for -/
def toRail (r : IRail) : PipelineOpts.Rail :=
  { name := r.name,
    verdict := fun t => match r.kind with
      | .check allowed => if allowed t then .accept else .reject
      | .rewrite f => .rewrite (f t),
    noise := [] }

def toCfg (s : Setup) : PipelineOpts.Cfg :=
  { input := s.input.map toRail, output := s.output.map toRail, retrieval := [], exceptions := false,
    refusal := s.refusal, internalError := "" }

/-- every remaining rail lets the (evolving) text pass -/
def AllPass : List IRail → V → Prop
  | [], _ => True
  | r :: rs, um => passes r um ∧ AllPass rs (stepVals r um .none).1

theorem stepVals_fst (r : IRail) (um al al' : V) : (stepVals r um al).1 = (stepVals r um al').1 := by
  unfold stepVals; cases r.kind <;> rfl

theorem finalVals_fst : ∀ (rs : List IRail) (um al al' : V), (finalVals rs um al).1 = (finalVals rs um al').1
  | [], _, _, _ => rfl
  | r :: rs, um, al, al' => by
    simp only [finalVals]
    rw [stepVals_fst r um al al']
    exact finalVals_fst rs _ _ _

/-- what the loop leaves in `$user_message` is what the documented chain yields -/
theorem finalVals_is_chain : ∀ (rs : List IRail) (t : String) (al : V), AllPass rs (.str t) →
    PipelineOpts.chain (rs.map toRail) t = .passed (strOf (finalVals rs (.str t) al).1)
  | [], _, _, _ => rfl
  | r :: rs, t, al, h => by
    obtain ⟨hp, hrest⟩ := h
    simp only [List.map, PipelineOpts.chain, toRail, finalVals]
    cases hk : r.kind with
    | check a =>
      have ha : a t = true := by simpa [passes, hk, strOf] using hp
      have e : (stepVals r (.str t) al).1 = .str t := by simp [stepVals, hk]
      have e' : (stepVals r (.str t) .none).1 = .str t := by simp [stepVals, hk]
      simp only [ha, if_true]
      rw [e'] at hrest
      rw [e, finalVals_fst rs (.str t) (stepVals r (.str t) al).2 al]
      exact finalVals_is_chain rs t al hrest
    | rewrite f =>
      have e : (stepVals r (.str t) al).1 = .str (f t) := by simp [stepVals, hk, strOf]
      have e' : (stepVals r (.str t) .none).1 = .str (f t) := by simp [stepVals, hk, strOf]
      rw [e'] at hrest
      rw [e, finalVals_fst rs (.str (f t)) (stepVals r (.str t) al).2 al]
      exact finalVals_is_chain rs (f t) al hrest

def catName : OptGuard.Cat → String
  | .input => "input" | .dialog => "dialog" | .retrieval => "retrieval" | .output => "output"

def obsOfStep : PipelineOpts.Step → Option Obs
  | .railCall c i n t => some (.railCall (catName c) i n t)
  | .llmCall => some .llmCall
  | .utter t => some (.utter t)
  | .exception _ _ => none

def mkOpts (o : Bool × Bool × Bool × Bool) : OptGuard.Opts := ⟨o.1, o.2.1, o.2.2.1, o.2.2.2⟩

/-- trace of `PipelineOpts.turn` (guards of the current llm_flows.co, `general` dialog) -/
def turnTrace (s : Setup) (o : Option (Bool × Bool × Bool × Bool)) (user : String) (bot : Option String) : Option (List Obs) :=
  (PipelineOpts.turn PipelineOpts.Gd (toCfg s) (o.map mkOpts) user bot (.general s.llmText)).map fun out => out.trace.filterMap obsOfStep

/-- trace of the `generate_events` loop around the interpreter running the generated program -/
def driveTrace (s : Setup) (o : Option (Bool × Bool × Bool × Bool)) (user : String) (bot : Option String) : Option (List Obs) :=
  match drive s (s.cfgs base) s.config 80 (initialHistory o user bot) [] with
  | .done tr _ => some tr
  | _ => none

def allOpts : List (Option (Bool × Bool × Bool × Bool)) :=
  none :: ([true, false].flatMap fun i => [true, false].flatMap fun d => [true, false].flatMap fun r => [true, false].map fun o => some (i, d, r, o))

/-- the calls of the documented usage: a bot message accompanies "output without dialog" -/
def casesFor (users bots : List String) : List (Option (Bool × Bool × Bool × Bool) × String × Option String) :=
  allOpts.flatMap fun o => users.flatMap fun u =>
    match o with
    | some (_, false, _, true) => bots.map fun b => (o, u, some b)
    | _ => [(o, u, none)]

def refinesOn (s : Setup) (cases : List (Option (Bool × Bool × Bool × Bool) × String × Option String)) : Bool :=
  cases.all fun c => driveTrace s c.1 c.2.1 c.2.2 == turnTrace s c.1 c.2.1 c.2.2

/-- a concrete set-up: a check rail and a rewriting rail on the input, a check rail on the output -/
def exSetup : Setup :=
  { input := [⟨"in0", "a_in0", .check (fun t => t != "bad")⟩, ⟨"in1", "a_in1", .rewrite (fun t => t ++ "!")⟩],
    output := [⟨"out0", "a_out0", .check (fun t => t != "evil")⟩], refusal := "no", llmText := "LLM" }

end NemoVerif.RailsInterp
