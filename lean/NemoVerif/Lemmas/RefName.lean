/-
  Lemmas for Models/RefName.lean (C09): the effect of one arrival at a reference match statement on the reverse map and on
  the buckets of the dispatch index, and of a sequence of arrivals.
-/
import NemoVerif.Models.RefName
import NemoVerif.Lemmas.CoreIndex

namespace NemoVerif.RefName
open NemoVerif NemoVerif.CoreIndex

theorem reg_addHead (s : IState) (k k' : Key) (ctx : Ctx) (spec : RefSpec) :
    reg (addHead s k ctx spec) k' =
      match nameOf ctx spec with
      | .ok nm => if k' = k then some nm else reg s k'
      | .error _ => reg s k' := by
  unfold addHead
  cases h : nameOf ctx spec with
  | ok nm => simp [reg_rawAdd]
  | error e => simp

theorem bucket_addHead (s : IState) (k : Key) (ctx : Ctx) (spec : RefSpec) (nm' : String) :
    bucket (addHead s k ctx spec) nm' =
      match nameOf ctx spec with
      | .ok nm => if nm' = nm then bucket s nm ++ [k] else bucket s nm'
      | .error _ => bucket s nm' := by
  unfold addHead
  cases h : nameOf ctx spec with
  | ok nm => simp [bucket_rawAdd]
  | error e => simp

theorem reg_arrive (s : IState) (a : Arrival) (k : Key) :
    reg (arrive s a) k =
      match nameOf a.ctx a.spec with
      | .ok nm => if k = a.key then some nm else reg s k
      | .error _ => reg s k := reg_addHead s a.key k a.ctx a.spec

theorem reg_arrive_of_ne (s : IState) (a : Arrival) (k : Key) (h : k ≠ a.key) : reg (arrive s a) k = reg s k := by
  rw [reg_arrive]; split <;> simp [h]

theorem reg_arriveAll_of_not_mem (as : List Arrival) (s : IState) (k : Key) (h : ∀ a ∈ as, a.key ≠ k) :
    reg (arriveAll s as) k = reg s k := by
  induction as generalizing s with
  | nil => rfl
  | cons x rest ih =>
    simp only [arriveAll, List.foldl_cons]
    have := ih (arrive s x) (fun a ha => h a (List.mem_cons_of_mem _ ha))
    simp only [arriveAll] at this
    rw [this, reg_arrive_of_ne s x k (fun e => h x List.mem_cons_self e.symm)]

/-- pointwise membership in a bucket after one arrival -/
theorem mem_bucket_arrive (s : IState) (a : Arrival) (nm : String) (k : Key) :
    k ∈ bucket (arrive s a) nm ↔ k ∈ bucket s nm ∨ (k = a.key ∧ nameOf a.ctx a.spec = .ok nm) := by
  unfold arrive
  rw [bucket_addHead]
  split
  · rename_i nm0 h0
    by_cases hn : nm = nm0
    · subst hn; simp [h0]
    · have : ¬ nm0 = nm := fun e => hn e.symm
      simp [hn, h0, this]
  · rename_i e h0
    simp [h0]

theorem mem_bucket_arriveAll (as : List Arrival) (s : IState) (nm : String) (k : Key) :
    k ∈ bucket (arriveAll s as) nm ↔ k ∈ bucket s nm ∨ ∃ a ∈ as, a.key = k ∧ nameOf a.ctx a.spec = .ok nm := by
  induction as generalizing s with
  | nil => simp [arriveAll]
  | cons x rest ih =>
    simp only [arriveAll, List.foldl_cons]
    have := ih (arrive s x)
    simp only [arriveAll] at this
    rw [this, mem_bucket_arrive]
    constructor
    · rintro ((h | ⟨h1, h2⟩) | ⟨a, ha, h1, h2⟩)
      · exact .inl h
      · exact .inr ⟨x, List.mem_cons_self, h1.symm, h2⟩
      · exact .inr ⟨a, List.mem_cons_of_mem _ ha, h1, h2⟩
    · rintro (h | ⟨a, ha, h1, h2⟩)
      · exact .inl (.inl h)
      · rcases List.mem_cons.mp ha with rfl | ha'
        · exact .inl (.inr ⟨h1.symm, h2⟩)
        · exact .inr ⟨a, ha', h1, h2⟩

end NemoVerif.RefName
