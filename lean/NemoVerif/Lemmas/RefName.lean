/-
  Lemmas for Models/RefName.lean (C09): the effect of one arrival at a reference match statement on the reverse map and on
  the buckets of the dispatch index, and of a sequence of arrivals.
-/
import NemoVerif.Models.RefName
import NemoVerif.Lemmas.CoreIndex

namespace NemoVerif.RefName
open NemoVerif NemoVerif.CoreIndex

theorem reg_addHead (s : IState) (k k' : Key) (ctx : Ctx) (spec : RefSpec) :
    reg (addHead s k ctx spec) k' =
      match nameOf ctx spec with
      | .ok nm => if k' = k then some nm else reg s k'
      | .error _ => reg s k' := by
  unfold addHead
  cases h : nameOf ctx spec with
  | ok nm => simp [reg_rawAdd]
  | error e => simp

theorem bucket_addHead (s : IState) (k : Key) (ctx : Ctx) (spec : RefSpec) (nm' : String) :
    bucket (addHead s k ctx spec) nm' =
      match nameOf ctx spec with
      | .ok nm => if nm' = nm then bucket s nm ++ [k] else bucket s nm'
      | .error _ => bucket s nm' := by
  unfold addHead
  cases h : nameOf ctx spec with
  | ok nm => simp [bucket_rawAdd]
  | error e => simp

theorem reg_arrive (s : IState) (a : Arrival) (k : Key) :
    reg (arrive s a) k =
      match nameOf a.ctx a.spec with
      | .ok nm => if k = a.key then some nm else reg s k
      | .error _ => reg s k := reg_addHead s a.key k a.ctx a.spec

theorem reg_arrive_of_ne (s : IState) (a : Arrival) (k : Key) (h : k ≠ a.key) : reg (arrive s a) k = reg s k := by
  rw [reg_arrive]; split <;> simp [h]

theorem reg_arriveAll_of_not_mem (as : List Arrival) (s : IState) (k : Key) (h : ∀ a ∈ as, a.key ≠ k) :
    reg (arriveAll s as) k = reg s k := by
  induction as generalizing s with
  | nil => rfl
  | cons x rest ih =>
    simp only [arriveAll, List.foldl_cons]
    have := ih (arrive s x) (fun a ha => h a (List.mem_cons_of_mem _ ha))
    simp only [arriveAll] at this
    rw [this, reg_arrive_of_ne s x k (fun e => h x List.mem_cons_self e.symm)]

/-- pointwise membership in a bucket after one arrival -/
theorem mem_bucket_arrive (s : IState) (a : Arrival) (nm : String) (k : Key) :
    k ∈ bucket (arrive s a) nm ↔ k ∈ bucket s nm ∨ (k = a.key ∧ nameOf a.ctx a.spec = .ok nm) := by
  unfold arrive
  rw [bucket_addHead]
  split
  · rename_i nm0 h0
    by_cases hn : nm = nm0
    · subst hn; simp [h0]
    · have : ¬ nm0 = nm := fun e => hn e.symm
      simp [hn, h0, this]
  · rename_i e h0
    simp [h0]

theorem mem_bucket_arriveAll (as : List Arrival) (s : IState) (nm : String) (k : Key) :
    k ∈ bucket (arriveAll s as) nm ↔ k ∈ bucket s nm ∨ ∃ a ∈ as, a.key = k ∧ nameOf a.ctx a.spec = .ok nm := by
  induction as generalizing s with
  | nil => simp [arriveAll]
  | cons x rest ih =>
    simp only [arriveAll, List.foldl_cons]
    have := ih (arrive s x)
    simp only [arriveAll] at this
    rw [this, mem_bucket_arrive]
    constructor
    · rintro ((h | ⟨h1, h2⟩) | ⟨a, ha, h1, h2⟩)
      · exact .inl h
      · exact .inr ⟨x, List.mem_cons_self, h1.symm, h2⟩
      · exact .inr ⟨a, List.mem_cons_of_mem _ ha, h1, h2⟩
    · rintro (h | ⟨a, ha, h1, h2⟩)
      · exact .inl (.inl h)
      · rcases List.mem_cons.mp ha with rfl | ha'
        · exact .inl (.inr ⟨h1.symm, h2⟩)
        · exact .inr ⟨a, ha', h1, h2⟩

/-! ### the same for match elements of any kind (`nameOfSpec`: reference / object by name / bare event) -/

theorem reg_addHeadSpec (s : IState) (k k' : Key) (flows : List String) (ctx : Ctx) (spec : ElemSpec) :
    reg (addHeadSpec s k flows ctx spec) k' =
      match nameOfSpec flows ctx spec with
      | .ok nm => if k' = k then some nm else reg s k'
      | .error _ => reg s k' := by
  unfold addHeadSpec
  cases h : nameOfSpec flows ctx spec with
  | ok nm => simp [reg_rawAdd]
  | error e => simp

theorem bucket_addHeadSpec (s : IState) (k : Key) (flows : List String) (ctx : Ctx) (spec : ElemSpec) (nm' : String) :
    bucket (addHeadSpec s k flows ctx spec) nm' =
      match nameOfSpec flows ctx spec with
      | .ok nm => if nm' = nm then bucket s nm ++ [k] else bucket s nm'
      | .error _ => bucket s nm' := by
  unfold addHeadSpec
  cases h : nameOfSpec flows ctx spec with
  | ok nm => simp [bucket_rawAdd]
  | error e => simp

theorem reg_arriveS (s : IState) (a : ArrivalS) (k : Key) :
    reg (arriveS s a) k =
      match nameOfSpec a.flows a.ctx a.spec with
      | .ok nm => if k = a.key then some nm else reg s k
      | .error _ => reg s k := reg_addHeadSpec s a.key k a.flows a.ctx a.spec

theorem reg_arriveS_of_ne (s : IState) (a : ArrivalS) (k : Key) (h : k ≠ a.key) : reg (arriveS s a) k = reg s k := by
  rw [reg_arriveS]; split <;> simp [h]

theorem reg_arriveAllS_of_not_mem (as : List ArrivalS) (s : IState) (k : Key) (h : ∀ a ∈ as, a.key ≠ k) :
    reg (arriveAllS s as) k = reg s k := by
  induction as generalizing s with
  | nil => rfl
  | cons x rest ih =>
    simp only [arriveAllS, List.foldl_cons]
    have := ih (arriveS s x) (fun a ha => h a (List.mem_cons_of_mem _ ha))
    simp only [arriveAllS] at this
    rw [this, reg_arriveS_of_ne s x k (fun e => h x List.mem_cons_self e.symm)]

theorem mem_bucket_arriveS (s : IState) (a : ArrivalS) (nm : String) (k : Key) :
    k ∈ bucket (arriveS s a) nm ↔ k ∈ bucket s nm ∨ (k = a.key ∧ nameOfSpec a.flows a.ctx a.spec = .ok nm) := by
  unfold arriveS
  rw [bucket_addHeadSpec]
  split
  · rename_i nm0 h0
    by_cases hn : nm = nm0
    · subst hn; simp [h0]
    · have : ¬ nm0 = nm := fun e => hn e.symm
      simp [hn, h0, this]
  · rename_i e h0
    simp [h0]

theorem mem_bucket_arriveAllS (as : List ArrivalS) (s : IState) (nm : String) (k : Key) :
    k ∈ bucket (arriveAllS s as) nm ↔ k ∈ bucket s nm ∨ ∃ a ∈ as, a.key = k ∧ nameOfSpec a.flows a.ctx a.spec = .ok nm := by
  induction as generalizing s with
  | nil => simp [arriveAllS]
  | cons x rest ih =>
    simp only [arriveAllS, List.foldl_cons]
    have := ih (arriveS s x)
    simp only [arriveAllS] at this
    rw [this, mem_bucket_arriveS]
    constructor
    · rintro ((h | ⟨h1, h2⟩) | ⟨a, ha, h1, h2⟩)
      · exact .inl h
      · exact .inr ⟨x, List.mem_cons_self, h1.symm, h2⟩
      · exact .inr ⟨a, List.mem_cons_of_mem _ ha, h1, h2⟩
    · rintro (h | ⟨a, ha, h1, h2⟩)
      · exact .inl (.inl h)
      · rcases List.mem_cons.mp ha with rfl | ha'
        · exact .inl (.inr ⟨h1.symm, h2⟩)
        · exact .inr ⟨a, ha', h1, h2⟩

/-- the name of a flow's member event, for a flow given by name: the table (every member of `FlowState._event_name_map`;
    anything else is not available) -/
theorem namedFlowEventName_table (m : String) :
    namedFlowEventName m =
      if m = "Start" then .ok "StartFlow"
      else if m = "Started" then .ok "FlowStarted"
      else if m = "Finished" then .ok "FlowFinished"
      else if m = "Failed" then .ok "FlowFailed"
      else if m = "Stop" ∨ m = "Pause" ∨ m = "Resume" then .error .delMissingKey
      else if m = "Paused" ∨ m = "Resumed" then .error .attributeError
      else .error .flowEventNotAvailable := by
  by_cases h1 : m = "Start"
  · subst h1; rfl
  by_cases h2 : m = "Started"
  · subst h2; rfl
  by_cases h3 : m = "Finished"
  · subst h3; rfl
  by_cases h4 : m = "Failed"
  · subst h4; rfl
  by_cases h5 : m = "Stop"
  · subst h5; rfl
  by_cases h6 : m = "Pause"
  · subst h6; rfl
  by_cases h7 : m = "Resume"
  · subst h7; rfl
  by_cases h8 : m = "Paused"
  · subst h8; rfl
  by_cases h9 : m = "Resumed"
  · subst h9; rfl
  simp only [h1, h2, h3, h4, h5, h6, h7, h8, h9, if_false, or_self]
  have hf : flowEventName m = .error .flowEventNotAvailable := by
    unfold flowEventName
    split <;> simp_all
  simp [namedFlowEventName, hf]

/-! ### indexer's name function vs dispatcher's name function -/

theorem nameOfSpecG_actionEventName (flows : List String) (ctx : Ctx) (s : ElemSpec) :
    nameOfSpecG actionEventName flows ctx s = nameOfSpec flows ctx s := by
  rcases s with ⟨vn, n, t, ms⟩
  cases vn <;> simp only [nameOfSpecG, nameOfSpec, nameOf] <;> rfl

theorem actionEventName_change (a : String) : actionEventName a "Change" = .error .changeWithoutArguments := by
  unfold actionEventName
  rw [if_neg (by decide)]
  rfl

theorem actionEventNameD_of_ok (b : Bool) (a m nm : String) (h : actionEventName a m = .ok nm) : actionEventNameD b a m = .ok nm := by
  unfold actionEventNameD
  split
  · rename_i hc
    obtain ⟨hm, _⟩ := hc
    subst hm
    rw [actionEventName_change] at h
    cases h
  · exact h

theorem nameOfSpecG_mono (an1 an2 : String → String → Except Err String)
    (hmono : ∀ a m nm, an1 a m = .ok nm → an2 a m = .ok nm)
    (flows : List String) (ctx : Ctx) (s : ElemSpec) (nm : String)
    (h : nameOfSpecG an1 flows ctx s = .ok nm) : nameOfSpecG an2 flows ctx s = .ok nm := by
  rcases s with ⟨vn, n, t, ms⟩
  cases vn with
  | none =>
    cases ms with
    | none => simpa [nameOfSpecG] using h
    | some l =>
      cases t <;> cases n <;> cases l <;> simp only [nameOfSpecG] at h ⊢ <;> first
        | exact h
        | exact hmono _ _ _ h
        | (split at h <;> simp_all)
  | some v =>
    simp only [nameOfSpecG] at h ⊢
    generalize ctx.find? (fun x => decide (x.1 = v)) = fo at h ⊢
    cases fo with
    | none => simp at h
    | some p =>
      obtain ⟨_, obj⟩ := p
      simp only at h ⊢
      generalize walk obj _ = w at h ⊢
      cases w with
      | error e => simp at h
      | ok o =>
        simp only at h ⊢
        generalize o.kind = k at h ⊢
        generalize ms.bind List.getLast? = mo at h ⊢
        cases k <;> cases mo <;> simp only at h ⊢ <;> first
          | exact h
          | exact hmono _ _ _ h
          | simp_all

end NemoVerif.RefName
