/-
  Helper lemmas for C07: the checker `readBack` inverts the mirrored code generator.
-/
import NemoVerif.Models.GroupExpand
import NemoVerif.Lemmas.Dnf
namespace NemoVerif.GroupExpand
open NemoVerif.Dnf

theorem freshLabels_length (k n : Nat) : (freshLabels k n).length = n := by
  simp [freshLabels]

theorem readAndItems_andItems (e : Nat) (tail : List Prim) :
    ∀ (ls c : List Nat), ls.length = c.length →
      readAndItems ls (andItems e ls c ++ tail) = some (c.map (fun a => (a, e)), tail) := by
  intro ls
  induction ls with
  | nil =>
    intro c h
    cases c with
    | nil => simp [andItems, readAndItems]
    | cons a c => simp at h
  | cons l ls ih =>
    intro c h
    cases c with
    | nil => simp at h
    | cons a c =>
      have h' : ls.length = c.length := by simpa using h
      simp [andItems, readAndItems, ih c h']

theorem readAnd_expandAnd (c : List Nat) (k : Nat) (rest : List Prim) :
    readAnd ((expandAnd c k).1 ++ rest) = some (c, rest) := by
  cases c with
  | nil =>
    simp [expandAnd, readAnd, freshLabels, andItems, readAndItems, andTrailer]
  | cons a t =>
    cases t with
    | nil => simp [expandAnd, readAnd]
    | cons b t =>
      have hl : (freshLabels (k + 3) (a :: b :: t).length).length = (a :: b :: t).length := freshLabels_length _ _
      have h := readAndItems_andItems (k + 2) (andTrailer k (k + 1) (k + 2) (a :: b :: t).length ++ rest)
        (freshLabels (k + 3) (a :: b :: t).length) (a :: b :: t) hl
      simp only [expandAnd, List.cons_append, List.nil_append, List.append_assoc, readAnd, h]
      simp [andTrailer, freshLabels_length, Function.comp_def]

theorem readOrItems_andItems (e : Nat) (tail : List Prim) :
    ∀ (ls c : List Nat), ls.length = c.length →
      readOrItems ls (andItems e ls c ++ tail) = some (c.map (fun a => ([a], e)), tail) := by
  intro ls
  induction ls with
  | nil =>
    intro c h
    cases c with
    | nil => simp [andItems, readOrItems]
    | cons a c => simp at h
  | cons l ls ih =>
    intro c h
    cases c with
    | nil => simp at h
    | cons a c =>
      have h' : ls.length = c.length := by simpa using h
      simp [andItems, readOrItems, readAnd, ih c h']

theorem readOrItems_orItems (e : Nat) (tail : List Prim) :
    ∀ (ls : List Nat) (d : Clauses) (k : Nat), ls.length = d.length →
      readOrItems ls ((orItems e ls d k).1 ++ tail) = some (d.map (fun c => (c, e)), tail) := by
  intro ls
  induction ls with
  | nil =>
    intro d k h
    cases d with
    | nil => simp [orItems, readOrItems]
    | cons c d => simp at h
  | cons l ls ih =>
    intro d k h
    cases d with
    | nil => simp at h
    | cons c d =>
      have h' : ls.length = d.length := by simpa using h
      have hA := readAnd_expandAnd c k
        (.goto e :: ((orItems e ls d (expandAnd c k).2).1 ++ tail))
      simp only [orItems, List.cons_append, List.append_assoc, readOrItems, beq_self_eq_true, if_true]
      rw [hA]
      simp [ih d _ h']

theorem flatMap_singletons (e : Nat) (c : List Nat) :
    List.flatMap (fun x => x.fst) (List.map (fun a => ([a], e)) c) = c := by
  induction c with
  | nil => rfl
  | cons a c ih => simpa using ih

theorem readGroup_expandClauses (d : Clauses) (k : Nat) :
    readGroup (expandClauses d k).1 = some (d, []) := by
  have hor : ∀ d : Clauses, readGroup
      ([.catchPF (some (k + 1)), .fork k (freshLabels (k + 3) d.length)] ++
        (orItems (k + 2) (freshLabels (k + 3) d.length) d (k + 3 + d.length)).1 ++
        orTrailer k (k + 1) (k + 2) d.length) = some (d, []) := by
    intro d
    have h := readOrItems_orItems (k + 2) (orTrailer k (k + 1) (k + 2) d.length)
      (freshLabels (k + 3) d.length) d (k + 3 + d.length) (freshLabels_length _ _)
    simp only [List.cons_append, List.nil_append, readGroup, h]
    simp [orTrailer, freshLabels_length, Function.comp_def]
  cases d with
  | nil => exact hor []
  | cons c d' =>
    cases d' with
    | cons c2 d'' => exact hor (c :: c2 :: d'')
    | nil =>
      -- a single clause: plain match or the and-template at top level
      cases c with
      | nil =>
        simp [expandClauses, expandAnd, readGroup, freshLabels, andItems, readOrItems, andTrailer]
      | cons a t =>
        cases t with
        | nil => simp [expandClauses, expandAnd, readGroup]
        | cons b t =>
          have hl : (freshLabels (k + 3) (a :: b :: t).length).length = (a :: b :: t).length := freshLabels_length _ _
          have h := readOrItems_andItems (k + 2) (andTrailer k (k + 1) (k + 2) (a :: b :: t).length)
            (freshLabels (k + 3) (a :: b :: t).length) (a :: b :: t) hl
          simp only [expandClauses, expandAnd, List.cons_append, List.nil_append, readGroup, h]
          simp [andTrailer, freshLabels_length, Function.comp_def, flatMap_singletons]

end NemoVerif.GroupExpand
