/-
  Lemmas for the index layer of C09 (Models/CoreIndex.lean): association-list rewrite lemmas, the
  pointwise effect of every index primitive on the reverse map (`reg`), the buckets and the pointwise
  scan (`want`), and preservation of each named invariant by each operation.
-/
import NemoVerif.Models.CoreIndex
namespace NemoVerif
namespace OMap
variable {κ : Type} [DecidableEq κ] {α : Type}

theorem lookup_insert (k k' : κ) (v : α) (l : List (κ × α)) :
    lookup k' (insert k v l) = if k' = k then some v else lookup k' l := by
  induction l with
  | nil => grind [insert, lookup]
  | cons e rest ih => grind [insert, lookup]

theorem lookup_erase (k k' : κ) (l : List (κ × α)) :
    lookup k' (erase k l) = if k' = k then none else lookup k' l := by
  induction l with
  | nil => grind [erase, lookup]
  | cons e rest ih => grind [erase, lookup]

theorem lookup_modify (k k' : κ) (f : α → α) (l : List (κ × α)) :
    lookup k' (modify k f l) = if k' = k then (lookup k l).map f else lookup k' l := by
  induction l with
  | nil => grind [modify, lookup]
  | cons e rest ih => grind [modify, lookup]

theorem lookup_append_single (k k' : κ) (v : α) (l : List (κ × α)) :
    lookup k' (l ++ [(k, v)]) = match lookup k' l with
      | some x => some x
      | none => if k' = k then some v else none := by
  induction l with
  | nil => grind [lookup]
  | cons e rest ih => grind [lookup]
end OMap

namespace CoreIndex
open OMap

theorem reg_rawRemove (s : IState) (k k' : Key) :
    reg (rawRemove s k) k' = if k' = k then none else reg s k' := by
  unfold rawRemove reg
  split
  · grind
  · simp [lookup_erase]

theorem bucket_rawRemove (s : IState) (k : Key) (nm : String) :
    bucket (rawRemove s k) nm = if reg s k = some nm then (bucket s nm).erase k else bucket s nm := by
  unfold rawRemove reg bucket
  split
  · grind
  · rename_i nm0 h
    simp only [lookup_modify, h]
    by_cases h2 : nm = nm0
    · subst h2; simp; cases lookup nm s.index <;> simp
    · have : ¬ nm0 = nm := fun h => h2 h.symm
      simp [h2, this]

theorem insts_rawRemove (s : IState) (k : Key) : (rawRemove s k).insts = s.insts := by
  unfold rawRemove; split <;> rfl

theorem reg_rawAdd (s : IState) (k k' : Key) (nm : String) :
    reg (rawAdd s k nm) k' = if k' = k then some nm else reg s k' := by
  simp [rawAdd, reg, lookup_insert]

theorem bucket_rawAdd (s : IState) (k : Key) (nm nm' : String) :
    bucket (rawAdd s k nm) nm' = if nm' = nm then bucket s nm ++ [k] else bucket s nm' := by
  unfold rawAdd bucket
  simp only
  split
  · rename_i h
    simp only [lookup_append_single]
    by_cases h2 : nm' = nm
    · subst h2; simp [h]
    · simp [h2]; cases lookup nm' s.index <;> simp
  · rename_i v h
    simp only [lookup_modify]
    by_cases h2 : nm' = nm
    · subst h2; simp [h]
    · simp [h2]

theorem mc_rawRemove {s : IState} (h : MapsConsistent s) (k : Key) : MapsConsistent (rawRemove s k) := by
  intro k' nm
  rw [bucket_rawRemove, reg_rawRemove]
  have h1 := h k' nm
  have h2 := h k nm
  by_cases hk : k' = k
  · subst hk
    by_cases hr : reg s k' = some nm
    · simp [hr] at h1 ⊢; simp [h1]
    · simp [hr] at h1 ⊢; exact h1
  · by_cases hr : reg s k = some nm
    · simp only [hr, if_true, hk, if_false]
      rw [List.count_erase_of_ne hk]; exact h1
    · simp only [hr, if_false, hk]; exact h1

theorem mc_rawAdd {s : IState} (h : MapsConsistent s) (k : Key) (nm : String) (hfree : reg s k = none) :
    MapsConsistent (rawAdd s k nm) := by
  intro k' nm'
  rw [bucket_rawAdd, reg_rawAdd]
  have h1 := h k' nm'
  by_cases hk : k' = k
  · subst hk
    simp [hfree] at h1
    by_cases hn : nm' = nm
    · subst hn; simp [h1]
    · have : ¬ nm = nm' := fun e => hn e.symm
      simp [hn, this, h1]
  · by_cases hn : nm' = nm
    · subst hn; simp [hk, List.count_append, List.count_singleton]
      have : ¬ k = k' := fun e => hk e.symm
      simp [this] at *; simpa using h1
    · simp [hn, hk]; simpa using h1

/-! ### `_flow_head_changed` -/

/-- what `_flow_head_changed` decides to register -/
def regTarget (fst : FlowStatus) (hst : HeadStatus) (elem : Option String) : Option String :=
  match elem with
  | some nm => if hst ≠ .inactive ∧ fst.listening then some nm else none
  | none => none

theorem insts_rawAdd (s : IState) (k : Key) (nm : String) : (rawAdd s k nm).insts = s.insts := rfl

theorem insts_headChanged (s : IState) (k : Key) (fst hst elem) :
    (headChanged s k fst hst elem).insts = s.insts := by
  unfold headChanged
  cases elem with
  | none => simp [insts_rawRemove]
  | some nm => simp only; split <;> simp [insts_rawAdd, insts_rawRemove]

theorem reg_headChanged (s : IState) (k k' : Key) (fst hst elem) :
    reg (headChanged s k fst hst elem) k' = if k' = k then regTarget fst hst elem else reg s k' := by
  unfold headChanged regTarget
  cases elem with
  | none => simp [reg_rawRemove]
  | some nm =>
    simp only
    split
    · simp only [reg_rawAdd, reg_rawRemove]; split <;> simp_all
    · simp [reg_rawRemove]

/-- **T1** `MapsConsistent` is preserved by `_flow_head_changed`, unconditionally. -/
theorem mc_headChanged {s : IState} (h : MapsConsistent s) (k : Key) (fst hst elem) :
    MapsConsistent (headChanged s k fst hst elem) := by
  unfold headChanged
  cases elem with
  | none => exact mc_rawRemove h k
  | some nm =>
    simp only
    split
    · exact mc_rawAdd (mc_rawRemove h k) k nm (by simp [reg_rawRemove])
    · exact mc_rawRemove h k

/-! ### instances and heads -/

theorem findInst_uid {s : IState} {f : FUid} {i : Inst} (h : findInst s f = some i) : i.uid = f := by
  unfold findInst at h
  have := List.find?_some h
  simpa using this

theorem findHead_uid {i : Inst} {h : HUid} {hd : Head} (e : i.findHead h = some hd) : hd.uid = h := by
  unfold Inst.findHead at e
  have := List.find?_some e
  simpa using this

theorem findInst_modifyInst (s : IState) (f f' : FUid) (g : Inst → Inst) (hg : ∀ i, (g i).uid = i.uid) :
    findInst (modifyInst s f g) f' = if f' = f then (findInst s f').map g else findInst s f' := by
  unfold findInst modifyInst
  simp only [List.find?_map]
  have : ((fun (x : Inst) => decide (x.uid = f')) ∘ fun i => if i.uid = f then g i else i) = fun x => decide (x.uid = f') := by
    funext i; simp only [Function.comp]; split <;> simp [hg]
  rw [this]
  cases hfi : List.find? (fun x => decide (x.uid = f')) s.insts with
  | none => simp
  | some i =>
    have hu : i.uid = f' := by simpa using List.find?_some hfi
    simp [hu]
    split <;> simp_all

theorem findHead_modifyHead (i : Inst) (h h' : HUid) (g : Head → Head) (hg : ∀ x, (g x).uid = x.uid) :
    (i.modifyHead h g).findHead h' = if h' = h then (i.findHead h').map g else i.findHead h' := by
  unfold Inst.findHead Inst.modifyHead
  simp only [List.find?_map]
  have : ((fun (x : Head) => decide (x.uid = h')) ∘ fun x => if x.uid = h then g x else x) = fun x => decide (x.uid = h') := by
    funext x; simp only [Function.comp]; split <;> simp [hg]
  rw [this]
  cases hfi : List.find? (fun x => decide (x.uid = h')) i.heads with
  | none => simp
  | some x =>
    have hu : x.uid = h' := by simpa using List.find?_some hfi
    simp [hu]
    split <;> simp_all

@[simp] theorem reg_modifyInst (s : IState) (f g k) : reg (modifyInst s f g) k = reg s k := rfl
@[simp] theorem bucket_modifyInst (s : IState) (f g nm) : bucket (modifyInst s f g) nm = bucket s nm := rfl
theorem mc_modifyInst {s : IState} (h : MapsConsistent s) (f g) : MapsConsistent (modifyInst s f g) := h

theorem instUids_modifyInst (s : IState) (f : FUid) (g : Inst → Inst) (hg : ∀ i, (g i).uid = i.uid) :
    instUids (modifyInst s f g) = instUids s := by
  unfold instUids modifyInst
  simp only [List.map_map]
  apply List.map_congr_left
  intro i _; simp only [Function.comp]; split <;> simp [hg]

theorem headUids_modifyHead (i : Inst) (h : HUid) (g : Head → Head) (hg : ∀ x, (g x).uid = x.uid) :
    (i.modifyHead h g).headUids = i.headUids := by
  unfold Inst.headUids Inst.modifyHead
  simp only [List.map_map]
  apply List.map_congr_left
  intro x _; simp only [Function.comp]; split <;> simp [hg]


/-! ### the pointwise scan and the generic closing lemma -/

theorem want_of_insts_eq {s s' : IState} (h : s'.insts = s.insts) (k : Key) : want s' k = want s k := by
  unfold want findInst; rw [h]

theorem instStatus_of_insts_eq {s s' : IState} (h : s'.insts = s.insts) (f : FUid) : instStatus s' f = instStatus s f := by
  unfold instStatus findInst; rw [h]

theorem findInst_of_insts_eq {s s' : IState} (h : s'.insts = s.insts) (f : FUid) : findInst s' f = findInst s f := by
  unfold findInst; rw [h]

theorem regTarget_eq (fst : FlowStatus) (hst : HeadStatus) (elem : Option String) :
    regTarget fst hst elem = if fst.listening then (if hst ≠ .inactive then elem else none) else none := by
  unfold regTarget; cases elem <;> cases hst <;> cases fst.listening <;> simp

/-- head `k` exists: its instance is in `flow_states` and the head is in `heads` -/
def HeadExists (s : IState) (k : Key) : Prop := ∃ i, findInst s k.1 = some i ∧ (i.findHead k.2).isSome

theorem headExists_of_want {s : IState} {k : Key} {nm : String} (h : want s k = some nm) : HeadExists s k := by
  unfold want at h
  cases hi : findInst s k.1 with
  | none => simp [hi] at h
  | some i =>
    simp only [hi] at h
    unfold Inst.want at h
    split at h
    · cases hh : i.findHead k.2 with
      | none => simp [hh] at h
      | some hd => exact ⟨i, hi, by simp [hh]⟩
    · simp at h

theorem owned_iff (s : IState) : Owned s ↔ ∀ k nm, reg s k = some nm → HeadExists s k := Iff.rfl

/-- the generic way every operation lemma is closed: pointwise, either the key is exact afterwards,
    or nothing about it changed, or its instance is STOPPING and the entry is still owned. -/
theorem indexOK_of {s s' : IState} (ok : IndexOK s) (hmc : MapsConsistent s') (hu : UidsUnique s')
    (hpt : ∀ k, reg s' k = want s' k ∨
      (reg s' k = reg s k ∧ (HeadExists s k → HeadExists s' k) ∧
        (instStatus s' k.1 = some .stopping ∨ (want s' k = want s k ∧ instStatus s' k.1 = instStatus s k.1)))) :
    IndexOK s' := by
  refine ⟨hmc, hu, ?_, ?_⟩
  · intro k nm hr
    rcases hpt k with h | ⟨h1, h2, _⟩
    · rw [h] at hr; exact headExists_of_want hr
    · rw [h1] at hr; exact h2 (ok.owned k nm hr)
  · intro k hns
    rcases hpt k with h | ⟨h1, _, h3⟩
    · exact h
    · rcases h3 with h3 | ⟨h3, h4⟩
      · exact absurd h3 hns
      · rw [h1, h3]; apply ok.exact; rw [← h4]; exact hns

/-! #### setters (`position`, `status`) -/

theorem touchHead_found {s : IState} {f : FUid} {h : HUid} (g : Head → Head) {i : Inst} {hd : Head}
    (hi : findInst s f = some i) (hh : i.findHead h = some hd) :
    touchHead s f h g = headChanged (modifyInst s f fun i => i.modifyHead h g) (f, h) i.status (g hd).status (g hd).elem := by
  unfold touchHead; simp [hi, hh]

/-- effect of modifying one head (uid-preserving) on the pointwise scan -/
theorem want_modifyHead (s : IState) (f : FUid) (h : HUid) (g : Head → Head) (hg : ∀ x, (g x).uid = x.uid)
    {i : Inst} {hd : Head} (hi : findInst s f = some i) (hh : i.findHead h = some hd) (k : Key) :
    want (modifyInst s f fun i => i.modifyHead h g) k =
      if k = (f, h) then regTarget i.status (g hd).status (g hd).elem else want s k := by
  obtain ⟨kf, kh⟩ := k
  unfold want Inst.want
  rw [findInst_modifyInst _ _ _ _ (by intro i; rfl)]
  by_cases hf : kf = f
  · subst hf
    simp only [hi, if_true, Option.map_some]
    show (if i.status.listening = true then _ else _) = _
    rw [findHead_modifyHead _ _ _ _ hg]
    by_cases hh2 : kh = h
    · subst hh2; simp [hh, regTarget_eq]
    · simp [hh2]
  · simp [hf]

theorem instStatus_modifyInst (s : IState) (f f' : FUid) (g : Inst → Inst)
    (hg : ∀ i, (g i).uid = i.uid) (hs : ∀ i, (g i).status = i.status) :
    instStatus (modifyInst s f g) f' = instStatus s f' := by
  unfold instStatus
  rw [findInst_modifyInst _ _ _ _ hg]
  split
  · cases findInst s f' <;> simp [hs]
  · rfl

theorem uidsUnique_modifyHead {s : IState} (hu : UidsUnique s) (f : FUid) (h : HUid) (g : Head → Head)
    (hg : ∀ x, (g x).uid = x.uid) : UidsUnique (modifyInst s f fun i => i.modifyHead h g) := by
  constructor
  · rw [instUids_modifyInst _ _ _ (by intro i; rfl)]; exact hu.1
  · intro i hi
    unfold modifyInst at hi
    simp only [List.mem_map] at hi
    obtain ⟨j, hj, rfl⟩ := hi
    split
    · rw [headUids_modifyHead _ _ _ hg]; exact hu.2 j hj
    · exact hu.2 j hj

theorem uidsUnique_of_insts_eq {s s' : IState} (h : s'.insts = s.insts) (hu : UidsUnique s) : UidsUnique s' := by
  unfold UidsUnique instUids at *; rw [h]; exact hu

theorem headExists_of_insts_eq {s s' : IState} (h : s'.insts = s.insts) (k : Key) : HeadExists s' k ↔ HeadExists s k := by
  unfold HeadExists findInst; rw [h]

theorem headExists_modifyHead {s : IState} (f : FUid) (h : HUid) (g : Head → Head) (hg : ∀ x, (g x).uid = x.uid)
    {k : Key} (he : HeadExists s k) : HeadExists (modifyInst s f fun i => i.modifyHead h g) k := by
  obtain ⟨j, hj, hjh⟩ := he
  unfold HeadExists
  rw [findInst_modifyInst _ _ _ _ (by intro i; rfl)]
  by_cases hf : k.1 = f
  · simp only [hf, if_true]
    rw [hf] at hj; rw [hj]
    refine ⟨_, rfl, ?_⟩
    rw [findHead_modifyHead _ _ _ _ hg]
    split
    · cases hx : j.findHead k.2 with
      | none => simp [hx] at hjh
      | some x => simp
    · exact hjh
  · simp only [hf, if_false]; exact ⟨j, hj, hjh⟩

/-- pointwise specification of a setter on an existing head; no invariant needed -/
theorem touchHead_spec {s : IState} {f : FUid} {h : HUid} (g : Head → Head) (hg : ∀ x, (g x).uid = x.uid)
    {i : Inst} {hd : Head} (hi : findInst s f = some i) (hh : i.findHead h = some hd) :
    let s' := touchHead s f h g
    (∀ k, reg s' k = if k = (f, h) then regTarget i.status (g hd).status (g hd).elem else reg s k) ∧
    (∀ k, want s' k = if k = (f, h) then regTarget i.status (g hd).status (g hd).elem else want s k) ∧
    (∀ f', instStatus s' f' = instStatus s f') ∧
    (∀ k, HeadExists s k → HeadExists s' k) ∧
    (UidsUnique s → UidsUnique s') ∧
    (MapsConsistent s → MapsConsistent s') := by
  intro s'
  have e : s' = _ := touchHead_found g hi hh
  have hins := insts_headChanged (modifyInst s f fun i => i.modifyHead h g) (f, h) i.status (g hd).status (g hd).elem
  rw [← e] at hins
  refine ⟨?_, ?_, ?_, ?_, ?_, ?_⟩
  · intro k; rw [e, reg_headChanged]; rfl
  · intro k; rw [want_of_insts_eq hins, want_modifyHead s f h g hg hi hh]
  · intro f'; rw [instStatus_of_insts_eq hins, instStatus_modifyInst _ _ _ _ (by intro i; rfl) (by intro i; rfl)]
  · intro k he; rw [headExists_of_insts_eq hins]; exact headExists_modifyHead f h g hg he
  · intro hu; exact uidsUnique_of_insts_eq hins (uidsUnique_modifyHead hu f h g hg)
  · intro hm; rw [e]; exact mc_headChanged (mc_modifyInst hm _ _) _ _ _ _

theorem indexOK_touchHead {s : IState} (ok : IndexOK s) (f : FUid) (h : HUid) (g : Head → Head)
    (hg : ∀ x, (g x).uid = x.uid) : IndexOK (touchHead s f h g) := by
  cases hi : findInst s f with
  | none => unfold touchHead; simp [hi]; exact ok
  | some i =>
    cases hh : i.findHead h with
    | none => unfold touchHead; simp [hi, hh]; exact ok
    | some hd =>
      obtain ⟨h1, h2, h3, h4, h5, h6⟩ := touchHead_spec g hg hi hh
      apply indexOK_of ok (h6 ok.maps) (h5 ok.uids)
      intro k
      by_cases hk : k = (f, h)
      · left; rw [h1, h2]; simp [hk]
      · right; refine ⟨by rw [h1]; simp [hk], h4 k, Or.inr ⟨by rw [h2]; simp [hk], h3 _⟩⟩


/-! #### helpers about find? on appended / filtered lists -/

theorem findHead_append (i : Inst) (x : Head) (h : HUid) :
    ({ i with heads := i.heads ++ [x] } : Inst).findHead h =
      match i.findHead h with
      | some y => some y
      | none => if x.uid = h then some x else none := by
  unfold Inst.findHead
  simp only [List.find?_append]
  cases List.find? (fun y => decide (y.uid = h)) i.heads <;> simp [List.find?]
  split <;> simp_all

theorem findHead_filter (i : Inst) (h h' : HUid) :
    ({ i with heads := i.heads.filter (·.uid ≠ h) } : Inst).findHead h' =
      if h' = h then none else i.findHead h' := by
  unfold Inst.findHead
  simp only [List.find?_filter]
  by_cases e : h' = h
  · subst e; simp
  · simp only [e, if_false]
    congr 1; funext x
    by_cases e2 : x.uid = h' <;> simp [e2, e]

theorem findHead_isSome_iff (i : Inst) (h : HUid) : (i.findHead h).isSome ↔ h ∈ i.headUids := by
  unfold Inst.findHead Inst.headUids
  simp [List.find?_isSome]

theorem findInst_isSome_iff (s : IState) (f : FUid) : (findInst s f).isSome ↔ f ∈ instUids s := by
  unfold findInst instUids
  simp [List.find?_isSome]

theorem findInst_mem {s : IState} {f : FUid} {i : Inst} (h : findInst s f = some i) : i ∈ s.insts := by
  unfold findInst at h; exact List.mem_of_find?_eq_some h

/-- no entry for a head uid that is not in `heads` (from `Owned`) -/
theorem reg_none_of_not_head {s : IState} (ok : IndexOK s) {f : FUid} {i : Inst} (hi : findInst s f = some i)
    {h : HUid} (hn : h ∉ i.headUids) : reg s (f, h) = none := by
  cases hr : reg s (f, h) with
  | none => rfl
  | some nm =>
    obtain ⟨j, hj, hjh⟩ := ok.owned _ _ hr
    simp only at hj hjh
    rw [hi] at hj; cases hj
    exact absurd ((findHead_isSome_iff _ _).1 hjh) hn

theorem reg_none_of_no_inst {s : IState} (ok : IndexOK s) {f : FUid} (hi : findInst s f = none) (h : HUid) :
    reg s (f, h) = none := by
  cases hr : reg s (f, h) with
  | none => rfl
  | some nm =>
    obtain ⟨j, hj, _⟩ := ok.owned _ _ hr
    simp only at hj
    rw [hi] at hj; cases hj

/-! #### `add_new_flow_instance` -/

theorem indexOK_addInst {s : IState} (ok : IndexOK s) (f : FUid) (h : HUid) (nm0 : Option String)
    (hg : (Op.addInst f h nm0).guard s = true) : IndexOK (step s (.addInst f h nm0)) := by
  simp only [Op.guard, Bool.not_eq_true', List.contains_eq_mem, decide_eq_false_iff_not] at hg
  have hfi : findInst s f = none := by
    cases hx : findInst s f with
    | none => rfl
    | some i => exact absurd ((findInst_isSome_iff s f).1 (by simp [hx])) hg
  simp only [step]
  generalize hs1 : ({ s with insts := s.insts ++ [{ uid := f, status := .waiting, heads := [newHead h nm0] }] } : IState) = s1
  have hins := insts_headChanged s1 (f, h) .waiting .active nm0
  have hs1i : s1.insts = s.insts ++ [{ uid := f, status := .waiting, heads := [newHead h nm0] }] := by rw [← hs1]
  have hreg1 : ∀ k, reg s1 k = reg s k := by intro k; rw [← hs1]; rfl
  have hfind : ∀ f', findInst s1 f' = if f' = f then some { uid := f, status := .waiting, heads := [newHead h nm0] } else findInst s f' := by
    intro f'
    unfold findInst; rw [hs1i, List.find?_append]
    by_cases e : f' = f
    · subst e
      have : List.find? (fun x => decide (x.uid = f')) s.insts = none := hfi
      simp [this, List.find?]
    · simp only [e, if_false]
      have e2 : ¬ f = f' := fun e2 => e e2.symm
      cases List.find? (fun x => decide (x.uid = f')) s.insts <;> simp [List.find?, e2]
  apply indexOK_of ok
  · apply mc_headChanged; intro k nm; have := ok.maps k nm; rw [← hs1]; exact this
  · apply uidsUnique_of_insts_eq hins
    unfold UidsUnique instUids; rw [hs1i]
    constructor
    · rw [List.map_append, List.nodup_append]
      refine ⟨ok.uids.1, by simp, ?_⟩
      intro a ha b hb; simp at hb; subst hb
      intro e; subst e; exact hg ha
    · intro i hi
      rw [List.mem_append] at hi
      rcases hi with hi | hi
      · exact ok.uids.2 i hi
      · simp at hi; subst hi; simp [Inst.headUids, newHead]
  · intro k
    obtain ⟨kf, kh⟩ := k
    rw [reg_headChanged, want_of_insts_eq hins]
    by_cases ef : kf = f
    · subst ef
      left
      unfold want; rw [hfind]; simp only [if_true]
      by_cases eh : kh = h
      · subst eh; simp [Inst.want, FlowStatus.listening, Inst.findHead, newHead, List.find?, regTarget_eq]
      · have : ¬ (kf, kh) = (kf, h) := by intro e; cases e; exact eh rfl
        have e3 : ¬ h = kh := fun e => eh e.symm
        simp [this, Inst.want, FlowStatus.listening, Inst.findHead, newHead, List.find?, e3, hreg1]
        exact reg_none_of_no_inst ok hfi kh
    · right
      have : ¬ (kf, kh) = (f, h) := by intro e; cases e; exact ef rfl
      simp only [this, if_false, hreg1]
      refine ⟨trivial, ?_, Or.inr ⟨?_, ?_⟩⟩
      · intro he; rw [headExists_of_insts_eq hins]; unfold HeadExists at *; simp only [hfind, ef, if_false]; exact he
      · unfold want; simp only [hfind, ef, if_false]
      · rw [instStatus_of_insts_eq hins]; unfold instStatus; simp only [hfind, ef, if_false]


/-! #### whole-instance updates (no callback): `heads[...] =`, `del heads[...]`, `heads.clear()`, `FlowState.status =` -/

theorem want_modifyInst (s : IState) (f : FUid) (g : Inst → Inst) (hg : ∀ i, (g i).uid = i.uid) (k : Key) :
    want (modifyInst s f g) k =
      if k.1 = f then (match findInst s f with | none => none | some i => (g i).want k.2) else want s k := by
  unfold want
  rw [findInst_modifyInst _ _ _ _ hg]
  by_cases e : k.1 = f
  · simp only [e, if_true]; cases findInst s f <;> simp
  · simp only [e, if_false]

theorem instStatus_modifyInst' (s : IState) (f f' : FUid) (g : Inst → Inst) (hg : ∀ i, (g i).uid = i.uid) :
    instStatus (modifyInst s f g) f' =
      if f' = f then (findInst s f).map (fun i => (g i).status) else instStatus s f' := by
  unfold instStatus
  rw [findInst_modifyInst _ _ _ _ hg]
  by_cases e : f' = f
  · subst e; simp only [if_true]; cases findInst s f' <;> simp
  · simp only [e, if_false]

theorem headExists_modifyInst_other {s : IState} (f : FUid) (g : Inst → Inst) (hg : ∀ i, (g i).uid = i.uid)
    {k : Key} (hk : k.1 ≠ f) (he : HeadExists s k) : HeadExists (modifyInst s f g) k := by
  unfold HeadExists at *
  rw [findInst_modifyInst _ _ _ _ hg]; simp only [hk, if_false]; exact he

theorem uidsUnique_modifyInst {s : IState} (hu : UidsUnique s) (f : FUid) (g : Inst → Inst)
    (hg : ∀ i, (g i).uid = i.uid) (hh : ∀ i ∈ s.insts, i.uid = f → (g i).headUids.Nodup) :
    UidsUnique (modifyInst s f g) := by
  constructor
  · rw [instUids_modifyInst _ _ _ hg]; exact hu.1
  · intro i hi
    unfold modifyInst at hi
    simp only [List.mem_map] at hi
    obtain ⟨j, hj, rfl⟩ := hi
    split
    · rename_i e; exact hh j hj e
    · exact hu.2 j hj

/-- pointwise closing lemma specialised to an update of instance `f` that leaves the index alone -/
theorem indexOK_modifyInst {s : IState} (ok : IndexOK s) (f : FUid) (g : Inst → Inst)
    (hg : ∀ i, (g i).uid = i.uid) (hh : ∀ i ∈ s.insts, i.uid = f → (g i).headUids.Nodup)
    (hpt : ∀ i, findInst s f = some i → ∀ h,
      reg s (f, h) = (g i).want h ∨
      ((g i).status = .stopping ∧ ((i.findHead h).isSome → ((g i).findHead h).isSome))) :
    IndexOK (modifyInst s f g) := by
  apply indexOK_of ok (mc_modifyInst ok.maps _ _) (uidsUnique_modifyInst ok.uids f g hg hh)
  intro k
  obtain ⟨kf, kh⟩ := k
  by_cases e : kf = f
  · subst e
    cases hi : findInst s kf with
    | none =>
      left; rw [want_modifyInst _ _ _ hg]; simp only [if_true, hi, reg_modifyInst]
      exact reg_none_of_no_inst ok hi kh
    | some i =>
      rcases hpt i hi kh with h1 | ⟨h1, h2⟩
      · left; rw [want_modifyInst _ _ _ hg]; simp only [if_true, hi, reg_modifyInst]; exact h1
      · right
        refine ⟨rfl, ?_, Or.inl ?_⟩
        · rintro ⟨j, hj, hjh⟩
          simp only at hj hjh
          rw [hi] at hj; cases hj
          exact ⟨g i, by simp only; rw [findInst_modifyInst _ _ _ _ hg]; simp [hi], h2 hjh⟩
        · rw [instStatus_modifyInst' _ _ _ _ hg]; simp [hi, h1]
  · right
    refine ⟨rfl, headExists_modifyInst_other f g hg e, Or.inr ⟨?_, ?_⟩⟩
    · rw [want_modifyInst _ _ _ hg]; simp [e]
    · rw [instStatus_modifyInst' _ _ _ _ hg]; simp [e]

/-! #### `del flow_state.heads[uid]` -/

theorem headUids_filter_nodup {i : Inst} (h : i.headUids.Nodup) (p : Head → Bool) :
    ({ i with heads := i.heads.filter p } : Inst).headUids.Nodup := by
  unfold Inst.headUids at *
  exact List.Nodup.sublist (List.Sublist.map _ (List.filter_sublist)) h

theorem indexOK_delHead {s : IState} (ok : IndexOK s) (f : FUid) (h : HUid)
    (hg : (Op.delHead f h).guard s = true) : IndexOK (step s (.delHead f h)) := by
  simp only [Op.guard, Option.isNone_iff_eq_none] at hg
  simp only [step]
  apply indexOK_modifyInst ok f _ (by intro i; rfl)
  · intro i hi _; exact headUids_filter_nodup (ok.uids.2 i hi) _
  · intro i hi h'
    by_cases e : h' = h
    · subst e; left; unfold Inst.want; rw [findHead_filter]; simp [hg]
    · by_cases hs : i.status = .stopping
      · right; refine ⟨hs, ?_⟩; rw [findHead_filter]; simp [e]
      · left
        have := ok.exact (f, h') (by unfold instStatus; simp [hi, hs])
        rw [this]; unfold want Inst.want; rw [findHead_filter]; simp [hi, e]

/-! #### bare `heads.clear()` and `flow_state.status = …` -/

theorem indexOK_clearHeads {s : IState} (ok : IndexOK s) (f : FUid)
    (hg : (Op.clearHeads f).guard s = true) : IndexOK (step s (.clearHeads f)) := by
  simp only [step]
  apply indexOK_modifyInst ok f _ (by intro i; rfl)
  · intro i _ _; simp [Inst.headUids]
  · intro i hi h
    left
    simp only [Op.guard, hi, List.all_eq_true, Option.isNone_iff_eq_none] at hg
    have hw : ({ i with heads := [] } : Inst).want h = none := by
      unfold Inst.want Inst.findHead; simp
    rw [hw]
    by_cases hm : h ∈ i.headUids
    · unfold Inst.headUids at hm; simp only [List.mem_map] at hm
      obtain ⟨hd, hd1, rfl⟩ := hm
      exact hg hd hd1
    · exact reg_none_of_not_head ok hi hm

theorem indexOK_setFlowStatus {s : IState} (ok : IndexOK s) (f : FUid) (st : FlowStatus)
    (hg : (Op.setFlowStatus f st).guard s = true) : IndexOK (step s (.setFlowStatus f st)) := by
  simp only [step]
  apply indexOK_modifyInst ok f _ (by intro i; rfl)
  · intro i hi _; exact ok.uids.2 i hi
  · intro i hi h
    simp only [Op.guard, hi, Bool.or_eq_true, beq_iff_eq, Bool.and_eq_true, bne_iff_ne, ne_eq, List.isEmpty_iff] at hg
    rcases hg with (hg | hg) | hg
    · right; exact ⟨hg, fun x => x⟩
    · left
      have hw : ({ i with status := st } : Inst).want h = none := by
        unfold Inst.want Inst.findHead; simp [hg]
      rw [hw]
      exact reg_none_of_not_head ok hi (by simp [Inst.headUids, hg])
    · left
      have := ok.exact (f, h) (by unfold instStatus; simp [hi, hg.1])
      rw [this]; unfold want Inst.want; simp only [hi, hg.2]; rfl

/-! #### `_clean_up_state` -/

theorem indexOK_removeInst {s : IState} (ok : IndexOK s) (f : FUid)
    (hg : (Op.removeInst f).guard s = true) : IndexOK (step s (.removeInst f)) := by
  simp only [step]
  have hfind : ∀ f', findInst { s with insts := s.insts.filter (·.uid ≠ f) } f' = if f' = f then none else findInst s f' := by
    intro f'
    unfold findInst
    simp only [List.find?_filter]
    by_cases e : f' = f
    · subst e; simp
    · simp only [e, if_false]
      congr 1; funext x
      by_cases e2 : x.uid = f' <;> simp [e2, e]
  apply indexOK_of ok
  · intro k nm; exact ok.maps k nm
  · constructor
    · unfold instUids; exact List.Nodup.sublist (List.Sublist.map _ List.filter_sublist) ok.uids.1
    · intro i hi; exact ok.uids.2 i (List.mem_filter.1 hi).1
  · intro k
    by_cases e : k.1 = f
    · left
      have hw : want { s with insts := s.insts.filter (·.uid ≠ f) } k = none := by
        unfold want; rw [hfind]; simp [e]
      rw [hw]
      show reg s k = none
      cases hi : findInst s f with
      | none => have := reg_none_of_no_inst ok hi k.2; rw [← e] at this; exact this
      | some i =>
        simp only [Op.guard, hi, List.isEmpty_iff] at hg
        have := reg_none_of_not_head ok hi (h := k.2) (by simp [Inst.headUids, hg])
        rw [← e] at this; exact this
    · right
      refine ⟨rfl, ?_, Or.inr ⟨?_, ?_⟩⟩
      · unfold HeadExists; rw [hfind]; simp only [e, if_false]; exact fun x => x
      · unfold want; rw [hfind]; simp only [e, if_false]
      · unfold instStatus; rw [hfind]; simp only [e, if_false]


/-! #### `for head in heads.values(): _remove_head…(head)` then `heads.clear()` -/

theorem foldl_rawRemove_spec (f : FUid) (hs : List Head) (s : IState) :
    let s' := hs.foldl (fun acc hd => rawRemove acc (f, hd.uid)) s
    s'.insts = s.insts ∧
    (∀ k, reg s' k = if k.1 = f ∧ k.2 ∈ hs.map (·.uid) then none else reg s k) ∧
    (MapsConsistent s → MapsConsistent s') := by
  induction hs generalizing s with
  | nil => simp
  | cons hd rest ih =>
    simp only [List.foldl_cons]
    obtain ⟨h1, h2, h3⟩ := ih (rawRemove s (f, hd.uid))
    refine ⟨by rw [h1, insts_rawRemove], ?_, fun hm => h3 (mc_rawRemove hm _)⟩
    intro k
    rw [h2 k, reg_rawRemove]
    obtain ⟨kf, kh⟩ := k
    by_cases e1 : kf = f
    · subst e1
      by_cases e2 : kh = hd.uid
      · subst e2; simp
      · have : ¬ (kf, kh) = (kf, hd.uid) := by intro e; cases e; exact e2 rfl
        simp [e2, this]
    · have : ¬ (kf, kh) = (f, hd.uid) := by intro e; cases e; exact e1 rfl
      simp [e1, this]

theorem indexOK_dropHeads {s : IState} (ok : IndexOK s) (f : FUid) : IndexOK (step s (.dropHeads f)) := by
  simp only [step]
  cases hi : findInst s f with
  | none => exact ok
  | some i =>
    simp only
    obtain ⟨h1, h2, h3⟩ := foldl_rawRemove_spec f i.heads s
    generalize (i.heads.foldl (fun acc hd => rawRemove acc (f, hd.uid)) s) = s1 at h1 h2 h3
    have hfi : ∀ f', findInst s1 f' = findInst s f' := fun f' => findInst_of_insts_eq h1 f'
    apply indexOK_of ok
    · exact mc_modifyInst (h3 ok.maps) _ _
    · apply uidsUnique_modifyInst (uidsUnique_of_insts_eq h1 ok.uids) f _ (by intro i; rfl)
      intro i _ _; simp [Inst.headUids]
    · intro k
      rw [reg_modifyInst, h2, want_modifyInst _ _ _ (by intro i; rfl)]
      by_cases e : k.1 = f
      · left
        simp only [e, true_and, if_true, hfi, hi]
        have hw : ({ i with heads := [] } : Inst).want k.2 = none := by unfold Inst.want Inst.findHead; simp
        rw [hw]
        split
        · rfl
        · rename_i hm
          have := reg_none_of_not_head ok hi (h := k.2) hm
          rw [← e] at this; exact this
      · right
        simp only [e, false_and, if_false]
        refine ⟨trivial, ?_, Or.inr ⟨?_, ?_⟩⟩
        · intro he; apply headExists_modifyInst_other f _ (by intro i; rfl) e; exact (headExists_of_insts_eq h1 k).2 he
        · exact want_of_insts_eq h1 k
        · rw [instStatus_modifyInst' _ _ _ _ (by intro i; rfl)]; simp only [e, if_false]; exact instStatus_of_insts_eq h1 _

/-! #### main-flow restart in `_finish_flow` -/

theorem indexOK_mainRestart {s : IState} (ok : IndexOK s) (f : FUid) (h : HUid) (nm0 : Option String)
    (hg : (Op.mainRestart f h nm0).guard s = true) : IndexOK (step s (.mainRestart f h nm0)) := by
  simp only [step]
  cases hi : findInst s f with
  | none => exact ok
  | some i =>
    simp only [Op.guard, hi, Bool.and_eq_true, List.isEmpty_iff] at hg
    simp only
    have hins := insts_headChanged s (f, h) i.status .active nm0
    generalize hs1 : headChanged s (f, h) i.status .active nm0 = s1 at hins
    have hreg : ∀ k, reg s1 k = if k = (f, h) then nm0 else reg s k := by
      intro k; rw [← hs1, reg_headChanged, regTarget_eq]; simp [hg.2]
    have hfi : ∀ f', findInst s1 f' = findInst s f' := fun f' => findInst_of_insts_eq hins f'
    apply indexOK_of ok
    · apply mc_modifyInst; rw [← hs1]; exact mc_headChanged ok.maps _ _ _ _
    · apply uidsUnique_modifyInst (uidsUnique_of_insts_eq hins ok.uids) f _ (by intro i; rfl)
      intro i _ _; simp [Inst.headUids]
    · intro k
      obtain ⟨kf, kh⟩ := k
      rw [reg_modifyInst, hreg, want_modifyInst _ _ _ (by intro i; rfl)]
      by_cases e : kf = f
      · left
        subst e
        simp only [if_true, hfi, hi]
        by_cases e2 : kh = h
        · subst e2; simp [Inst.want, FlowStatus.listening, Inst.findHead, newHead, List.find?]
        · have : ¬ (kf, kh) = (kf, h) := by intro e; cases e; exact e2 rfl
          have e3 : ¬ h = kh := fun e => e2 e.symm
          simp only [this, if_false]
          simp [Inst.want, FlowStatus.listening, Inst.findHead, newHead, List.find?, e3]
          exact reg_none_of_not_head ok hi (by simp [Inst.headUids, hg.1])
      · right
        have : ¬ (kf, kh) = (f, h) := by intro e'; cases e'; exact e rfl
        simp only [this, e, if_false]
        refine ⟨trivial, ?_, Or.inr ⟨?_, ?_⟩⟩
        · intro he; apply headExists_modifyInst_other f _ (by intro i; rfl) e; exact (headExists_of_insts_eq hins _).2 he
        · exact want_of_insts_eq hins _
        · rw [instStatus_modifyInst' _ _ _ _ (by intro i; rfl)]; simp only [e, if_false]; exact instStatus_of_insts_eq hins _

/-! #### `ForkHead` -/

theorem eq_of_mem_of_nodup_map {α β : Type} (f : α → β) : ∀ (l : List α), (l.map f).Nodup →
    ∀ a ∈ l, ∀ b ∈ l, f a = f b → a = b
  | [], _, a, ha, _, _, _ => by cases ha
  | x :: rest, hnd, a, ha, b, hb, e => by
    rw [List.map_cons, List.nodup_cons] at hnd
    rcases List.mem_cons.1 ha with ha1 | ha1
    · rcases List.mem_cons.1 hb with hb1 | hb1
      · rw [ha1, hb1]
      · subst ha1; exact absurd (List.mem_map.2 ⟨b, hb1, e.symm⟩) hnd.1
    · rcases List.mem_cons.1 hb with hb1 | hb1
      · subst hb1; exact absurd (List.mem_map.2 ⟨a, ha1, e⟩) hnd.1
      · exact eq_of_mem_of_nodup_map f rest hnd.2 a ha1 b hb1 e

theorem want_append_head (i : Inst) (x : Head) (h : HUid) (hne : (i.findHead h).isSome ∨ x.uid ≠ h) :
    ({ i with heads := i.heads ++ [x] } : Inst).want h = i.want h := by
  unfold Inst.want
  rw [findHead_append]
  show (if i.status.listening = true then _ else _) = _
  cases hf : i.findHead h with
  | some y => simp
  | none =>
    rcases hne with hne | hne
    · simp [hf] at hne
    · simp [hne]

theorem indexOK_fork {s : IState} (ok : IndexOK s) (f : FUid) (h' : HUid) (nm0 : Option String) (p : Nat) (nm : Option String)
    (hg : (Op.fork f h' nm0 p nm).guard s = true) : IndexOK (step s (.fork f h' nm0 p nm)) := by
  simp only [Op.guard] at hg
  cases hi : findInst s f with
  | none => simp [hi] at hg
  | some i =>
    simp only [hi, Bool.and_eq_true, Bool.not_eq_true', List.contains_eq_mem, decide_eq_false_iff_not,
      Bool.or_eq_true, bne_iff_ne, ne_eq, Option.isNone_iff_eq_none] at hg
    obtain ⟨⟨hfresh, hp⟩, _⟩ := hg
    have hnone : i.findHead h' = none := by
      cases hx : i.findHead h' with
      | none => rfl
      | some y => exact absurd ((findHead_isSome_iff i h').1 (by simp [hx])) hfresh
    simp only [step]
    generalize hs1 : modifyInst s f (fun i => { i with heads := i.heads ++ [newHead h' nm0] }) = s1
    -- facts about the intermediate state (head inserted at position 0, not registered)
    have hu1 : UidsUnique s1 := by
      rw [← hs1]
      apply uidsUnique_modifyInst ok.uids f _ (by intro i; rfl)
      intro j hj hju
      have hjj : findInst s f = some j ∨ True := Or.inr trivial
      -- instance uids are unique, so j = i
      have : j = i := by
        have hmem := findInst_mem hi
        have hiu := findInst_uid hi
        have hnd := ok.uids.1
        unfold instUids at hnd
        exact eq_of_mem_of_nodup_map _ _ hnd j hj i hmem (by rw [hju, hiu])
      subst this
      unfold Inst.headUids
      rw [List.map_append, List.nodup_append]
      refine ⟨ok.uids.2 j hj, by simp, ?_⟩
      intro a ha b hb; simp [newHead] at hb; subst hb
      intro e; subst e; exact hfresh ha
    have hfi1 : findInst s1 f = some { i with heads := i.heads ++ [newHead h' nm0] } := by
      rw [← hs1, findInst_modifyInst _ _ _ _ (by intro i; rfl)]; simp [hi]
    have hwant1 : ∀ k, k ≠ (f, h') → want s1 k = want s k := by
      intro k hk
      rw [← hs1, want_modifyInst _ _ _ (by intro i; rfl)]
      by_cases e : k.1 = f
      · simp only [e, if_true, hi]
        rw [want_append_head]
        · unfold want; rw [e, hi]
        · right; intro e2; apply hk; cases k; simp at e e2 ⊢; exact ⟨e, by simp [newHead] at e2; exact e2.symm⟩
      · simp [e]
    have hst1 : ∀ f', instStatus s1 f' = instStatus s f' := by
      intro f'; rw [← hs1]; exact instStatus_modifyInst _ _ _ _ (by intro i; rfl) (by intro i; rfl)
    have hex1 : ∀ k, HeadExists s k → HeadExists s1 k := by
      rintro k ⟨j, hj, hjh⟩
      by_cases e : k.1 = f
      · rw [e] at hj; rw [hi] at hj; cases hj
        refine ⟨_, by rw [e]; exact hfi1, ?_⟩
        rw [findHead_append]
        cases hx : i.findHead k.2 with
        | none => simp [hx] at hjh
        | some y => simp
      · rw [← hs1]; exact headExists_modifyInst_other f _ (by intro i; rfl) e ⟨j, hj, hjh⟩
    have hreg_new : reg s (f, h') = none := reg_none_of_not_head ok hi hfresh
    by_cases hp0 : p = 0
    · simp only [hp0, if_true]
      have hnm0 : nm0 = none := by rcases hp with hp | hp; exact absurd hp0 hp; exact hp
      apply indexOK_of ok (by rw [← hs1]; exact mc_modifyInst ok.maps _ _) hu1
      intro k
      by_cases hk : k = (f, h')
      · left; subst hk
        have : reg s1 (f, h') = reg s (f, h') := by rw [← hs1]; rfl
        rw [this, hreg_new]
        unfold want; simp only [hfi1]; unfold Inst.want; rw [findHead_append, hnone]
        simp [newHead, hnm0]
      · right
        refine ⟨by rw [← hs1]; rfl, hex1 k, Or.inr ⟨hwant1 k hk, hst1 _⟩⟩
    · simp only [hp0, if_false]
      have hh1 : ({ i with heads := i.heads ++ [newHead h' nm0] } : Inst).findHead h' = some (newHead h' nm0) := by
        rw [findHead_append, hnone]; simp [newHead]
      obtain ⟨t1, t2, t3, t4, t5, t6⟩ := touchHead_spec (s := s1) (fun x => { x with pos := p, elem := nm }) (by intro x; rfl) hfi1 hh1
      apply indexOK_of ok (t6 (by rw [← hs1]; exact mc_modifyInst ok.maps _ _)) (t5 hu1)
      intro k
      by_cases hk : k = (f, h')
      · left; rw [t1, t2]; simp [hk]
      · right
        refine ⟨by rw [t1]; simp only [hk, if_false]; rw [← hs1]; rfl, fun he => t4 k (hex1 k he), Or.inr ⟨?_, ?_⟩⟩
        · rw [t2]; simp only [hk, if_false]; exact hwant1 k hk
        · rw [t3]; exact hst1 _


/-! #### a single direct removal -/

theorem indexOK_rmHead {s : IState} (ok : IndexOK s) (f : FUid) (h : HUid)
    (hg : (Op.rmHead f h).guard s = true) : IndexOK (step s (.rmHead f h)) := by
  simp only [step]
  have hins := insts_rawRemove s (f, h)
  apply indexOK_of ok (mc_rawRemove ok.maps _) (uidsUnique_of_insts_eq hins ok.uids)
  intro k
  rw [reg_rawRemove, want_of_insts_eq hins, instStatus_of_insts_eq hins]
  by_cases hk : k = (f, h)
  · subst hk
    simp only [Op.guard, Option.isNone_iff_eq_none] at hg
    left; simp [hg]
  · right; simp only [hk, if_false]
    exact ⟨trivial, fun he => (headExists_of_insts_eq hins k).2 he, Or.inr ⟨trivial, trivial⟩⟩

/-! ### every operation, with and without its guard -/

theorem mc_touchHead {s : IState} (hm : MapsConsistent s) (f : FUid) (h : HUid) (g : Head → Head) :
    MapsConsistent (touchHead s f h g) := by
  unfold touchHead
  cases findInst s f with
  | none => exact hm
  | some i =>
    simp only
    cases i.findHead h with
    | none => exact hm
    | some hd => exact mc_headChanged (mc_modifyInst hm _ _) _ _ _ _

/-- **T1** the index and the reverse map stay inverse of each other under EVERY operation, guard or
    no guard (so also inside the windows where Python is transiently inexact). -/
theorem mapsConsistent_step {s : IState} (hm : MapsConsistent s) (op : Op) : MapsConsistent (step s op) := by
  cases op with
  | addInst f h nm0 => simp only [step]; apply mc_headChanged; exact hm
  | setPos f h p nm =>
    simp only [step]; split
    · exact hm
    · split
      · exact hm
      · exact mc_touchHead hm _ _ _
  | setStatus f h st nm =>
    simp only [step]; split
    · exact hm
    · split
      · exact hm
      · exact mc_touchHead hm _ _ _
  | fork f h' nm0 p nm =>
    simp only [step]; split
    · exact mc_modifyInst hm _ _
    · exact mc_touchHead (mc_modifyInst hm _ _) _ _ _
  | delHead f h => exact mc_modifyInst hm _ _
  | dropHeads f =>
    simp only [step]
    cases findInst s f with
    | none => exact hm
    | some i => exact mc_modifyInst ((foldl_rawRemove_spec f i.heads s).2.2 hm) _ _
  | rmHead f h => exact mc_rawRemove hm _
  | clearHeads f => exact mc_modifyInst hm _ _
  | mainRestart f h nm0 =>
    simp only [step]
    cases findInst s f with
    | none => exact hm
    | some i => exact mc_modifyInst (mc_headChanged hm _ _ _ _) _ _
  | setFlowStatus f st => exact mc_modifyInst hm _ _
  | removeInst f => exact hm

/-- **T1** `headChanged_exact`: every operation whose guard holds keeps the index exact. -/
theorem indexOK_step {s : IState} (ok : IndexOK s) (op : Op) (hg : op.guard s = true) : IndexOK (step s op) := by
  cases op with
  | addInst f h nm0 => exact indexOK_addInst ok f h nm0 hg
  | setPos f h p nm =>
    simp only [step]; split
    · exact ok
    · split
      · exact ok
      · exact indexOK_touchHead ok _ _ _ (by intro x; rfl)
  | setStatus f h st nm =>
    simp only [step]; split
    · exact ok
    · split
      · exact ok
      · exact indexOK_touchHead ok _ _ _ (by intro x; rfl)
  | fork f h' nm0 p nm => exact indexOK_fork ok f h' nm0 p nm hg
  | delHead f h => exact indexOK_delHead ok f h hg
  | dropHeads f => exact indexOK_dropHeads ok f
  | rmHead f h => exact indexOK_rmHead ok f h hg
  | clearHeads f => exact indexOK_clearHeads ok f hg
  | mainRestart f h nm0 => exact indexOK_mainRestart ok f h nm0 hg
  | setFlowStatus f st => exact indexOK_setFlowStatus ok f st hg
  | removeInst f => exact indexOK_removeInst ok f hg

theorem indexOK_init : IndexOK {} := by
  refine ⟨?_, ?_, ?_, ?_⟩
  · intro k nm; simp [bucket, reg, OMap.lookup]
  · simp [UidsUnique, instUids]
  · intro k nm h; simp [reg, OMap.lookup] at h
  · intro k _; simp [reg, want, findInst, OMap.lookup]

/-- every state reachable by guarded operations -/
theorem indexOK_foldl : ∀ (ops : List Op) (s : IState), IndexOK s → AllGuards s ops → IndexOK (ops.foldl step s)
  | [], _, ok, _ => ok
  | op :: ops, s, ok, hg => indexOK_foldl ops (step s op) (indexOK_step ok op hg.1) hg.2

theorem mapsConsistent_foldl : ∀ (ops : List Op) (s : IState), MapsConsistent s → MapsConsistent (ops.foldl step s)
  | [], _, hm => hm
  | op :: ops, s, hm => mapsConsistent_foldl ops (step s op) (mapsConsistent_step hm op)

/-! ### from the pointwise form to the list form of the specification -/

def headEntry (f : FUid) (hd : Head) : Option (String × Key) :=
  if hd.status ≠ .inactive then hd.elem.map fun nm => (nm, (f, hd.uid)) else none

theorem scan_eq (s : IState) : scan s = s.insts.flatMap fun i =>
    if i.status.listening then i.heads.filterMap (headEntry i.uid) else [] := rfl

theorem count_heads (f : FUid) (nm : String) (h : HUid) : ∀ (hs : List Head), (hs.map (·.uid)).Nodup →
    (hs.filterMap (headEntry f)).count (nm, (f, h)) =
      match hs.find? (·.uid = h) with
      | some hd => if hd.status ≠ .inactive ∧ hd.elem = some nm then 1 else 0
      | none => 0
  | [], _ => by simp
  | hd :: rest, hnd => by
    rw [List.map_cons, List.nodup_cons] at hnd
    have ih := count_heads f nm h rest hnd.2
    by_cases e : hd.uid = h
    · have hnone : rest.find? (·.uid = h) = none := by
        rw [List.find?_eq_none]; intro x hx; simp only [decide_eq_true_eq]
        intro e2; apply hnd.1; rw [e, ← e2]; exact List.mem_map.2 ⟨x, hx, rfl⟩
      rw [hnone] at ih
      simp only [List.find?_cons, e, decide_true]
      rw [List.filterMap_cons]
      unfold headEntry at *
      by_cases hs : hd.status = .inactive
      · simp only [hs, ne_eq, not_true_eq_false, if_false, false_and]; simpa [headEntry] using ih
      · simp only [hs, ne_eq, not_false_eq_true, if_true, true_and]
        cases he : hd.elem with
        | none => simp only [Option.map_none]; simpa [headEntry] using ih
        | some nm' =>
          simp only [Option.map_some, List.count_cons, ih]
          by_cases en : nm' = nm
          · subst en; simp [e]
          · simp [en]
    · simp only [List.find?_cons, e, decide_false]
      rw [List.filterMap_cons]
      cases hx : headEntry f hd with
      | none => exact ih
      | some y =>
        simp only [List.count_cons, ih]
        have : ¬ y = (nm, (f, h)) := by
          intro ey; subst ey
          unfold headEntry at hx
          split at hx
          · cases he : hd.elem with
            | none => simp [he] at hx
            | some z => simp [he] at hx; exact e hx.2
          · cases hx
        simp [this]

theorem count_inst_scan (i : Inst) (hnd : i.headUids.Nodup) (nm : String) (h : HUid) :
    (if i.status.listening then i.heads.filterMap (headEntry i.uid) else []).count (nm, (i.uid, h)) =
      if i.want h = some nm then 1 else 0 := by
  unfold Inst.want Inst.findHead
  split
  · rw [count_heads i.uid nm h i.heads hnd]
    cases List.find? (fun x => decide (x.uid = h)) i.heads with
    | none => simp
    | some hd =>
      simp only
      by_cases hs : hd.status = .inactive <;> simp [hs]
  · simp

theorem count_other_inst (i : Inst) (nm : String) (k : Key) (hne : i.uid ≠ k.1) :
    (if i.status.listening then i.heads.filterMap (headEntry i.uid) else []).count (nm, k) = 0 := by
  split
  · rw [List.count_eq_zero]
    intro hm
    rw [List.mem_filterMap] at hm
    obtain ⟨hd, _, hx⟩ := hm
    unfold headEntry at hx
    split at hx
    · cases he : hd.elem with
      | none => simp [he] at hx
      | some z => simp [he] at hx; exact hne (by rw [← hx.2]; )
    · cases hx
  · simp

theorem count_scan (nm : String) (k : Key) : ∀ (l : List Inst), (l.map (·.uid)).Nodup → (∀ i ∈ l, i.headUids.Nodup) →
    (l.flatMap fun i => if i.status.listening then i.heads.filterMap (headEntry i.uid) else []).count (nm, k) =
      match l.find? (·.uid = k.1) with
      | some i => if i.want k.2 = some nm then 1 else 0
      | none => 0
  | [], _, _ => by simp
  | i :: rest, hnd, hh => by
    rw [List.map_cons, List.nodup_cons] at hnd
    have ih := count_scan nm k rest hnd.2 (fun j hj => hh j (List.mem_cons_of_mem _ hj))
    rw [List.flatMap_cons, List.count_append, ih]
    by_cases e : i.uid = k.1
    · have hnone : rest.find? (·.uid = k.1) = none := by
        rw [List.find?_eq_none]; intro x hx; simp only [decide_eq_true_eq]
        intro e2; apply hnd.1; rw [e, ← e2]; exact List.mem_map.2 ⟨x, hx, rfl⟩
      simp only [List.find?_cons, e, decide_true, hnone]
      have := count_inst_scan i (hh i List.mem_cons_self) nm k.2
      rw [e] at this
      simp [this]
    · simp only [List.find?_cons, e, decide_false]
      rw [count_other_inst i nm k e]; simp

/-- **T1** `index = scan` as multisets: in a state satisfying the invariant in which no instance is
    STOPPING, every `(event name, head)` occurs in the index exactly as often as in the from-scratch scan. -/
theorem index_eq_scan {s : IState} (ok : IndexOK s) (hns : NoStopping s) (nm : String) (k : Key) :
    (bucket s nm).count k = (scan s).count (nm, k) := by
  rw [ok.maps k nm, scan_eq, count_scan nm k s.insts ok.uids.1 ok.uids.2]
  have hex : reg s k = want s k := by
    apply ok.exact
    unfold instStatus
    cases hi : findInst s k.1 with
    | none => simp
    | some i => simp; exact hns i (findInst_mem hi)
  rw [hex]
  unfold want findInst
  cases List.find? (fun x => decide (x.uid = k.1)) s.insts <;> simp


/-! ### guards that hold by construction inside Python's composite statement groups -/

theorem findInst_dropHeads (s : IState) (f : FUid) {i : Inst} (hi : findInst s f = some i) :
    findInst (step s (.dropHeads f)) f = some { i with heads := [] } := by
  simp only [step, hi]
  obtain ⟨h1, _, _⟩ := foldl_rawRemove_spec f i.heads s
  rw [findInst_modifyInst _ _ _ _ (by intro i; rfl)]
  simp only [if_true]
  rw [findInst_of_insts_eq h1, hi]; rfl

theorem guard_setFlowStatus_after_dropHeads (s : IState) (f : FUid) (st : FlowStatus) :
    (Op.setFlowStatus f st).guard (step s (.dropHeads f)) = true := by
  cases hi : findInst s f with
  | none => simp [step, hi, Op.guard]
  | some i => simp [Op.guard, findInst_dropHeads s f hi]

theorem guard_mainRestart_after_dropHeads (s : IState) (f : FUid) (h : HUid) (nm0 : Option String)
    {i : Inst} (hi : findInst s f = some i) (hl : i.status.listening = true) :
    (Op.mainRestart f h nm0).guard (step s (.dropHeads f)) = true := by
  simp [Op.guard, findInst_dropHeads s f hi, hl]


/-! ### `NoPos`: finished or failed instances hold no position -/

theorem noPos_of_insts_eq {s s' : IState} (h : s'.insts = s.insts) (np : NoPos s) : NoPos s' := by
  intro f i hi; exact np f i (by rw [← findInst_of_insts_eq h]; exact hi)

/-- an update of instance `f` keeps `NoPos` when the updated instance is not done or has no heads -/
theorem noPos_modifyInst {s : IState} (np : NoPos s) (f : FUid) (g : Inst → Inst) (hg : ∀ i, (g i).uid = i.uid)
    (h : ∀ i, findInst s f = some i → (g i).status.done = true → (g i).heads = []) : NoPos (modifyInst s f g) := by
  intro f' i' hi' hd
  rw [findInst_modifyInst _ _ _ _ hg] at hi'
  by_cases e : f' = f
  · subst e
    simp only [if_true] at hi'
    cases hx : findInst s f' with
    | none => simp [hx] at hi'
    | some i => simp [hx] at hi'; subst hi'; exact h i hx hd
  · simp only [e, if_false] at hi'; exact np f' i' hi' hd

theorem noPos_touchHead {s : IState} (np : NoPos s) (f : FUid) (h : HUid) (g : Head → Head) : NoPos (touchHead s f h g) := by
  unfold touchHead
  cases hi : findInst s f with
  | none => exact np
  | some i =>
    simp only
    cases hh : i.findHead h with
    | none => exact np
    | some hd =>
      simp only
      apply noPos_of_insts_eq (insts_headChanged _ _ _ _ _)
      apply noPos_modifyInst np f _ (by intro i; rfl)
      intro j hj hd'
      have : j.heads = [] := np f j hj hd'
      simp [Inst.modifyHead, this]

/-- **T1** finished or failed instances hold no position: preserved by every guarded operation -/
theorem noPos_step {s : IState} (np : NoPos s) (op : Op) (hg : op.guard s = true) : NoPos (step s op) := by
  cases op with
  | addInst f h nm0 =>
    simp only [step]
    apply noPos_of_insts_eq (insts_headChanged _ _ _ _ _)
    intro f' i' hi' hd
    unfold findInst at hi'
    simp only [List.find?_append] at hi'
    cases hx : List.find? (fun x => decide (x.uid = f')) s.insts with
    | some j => rw [hx] at hi'; simp at hi'; subst hi'; exact np f' j hx hd
    | none =>
      rw [hx] at hi'; simp [List.find?] at hi'
      split at hi'
      · simp at hi'; subst hi'; simp [FlowStatus.done] at hd
      · simp at hi'
  | setPos f h p nm =>
    simp only [step]; split
    · exact np
    · split
      · exact np
      · exact noPos_touchHead np _ _ _
  | setStatus f h st nm =>
    simp only [step]; split
    · exact np
    · split
      · exact np
      · exact noPos_touchHead np _ _ _
  | fork f h' nm0 p nm =>
    simp only [Op.guard] at hg
    cases hi : findInst s f with
    | none => simp [hi] at hg
    | some i =>
      simp only [hi, Bool.and_eq_true, Bool.not_eq_true'] at hg
      have hnd : i.status.done = false := hg.2
      have np1 : NoPos (modifyInst s f fun i => { i with heads := i.heads ++ [newHead h' nm0] }) := by
        apply noPos_modifyInst np f _ (by intro i; rfl)
        intro j hj hd
        rw [hi] at hj; cases hj
        simp only at hd; rw [hnd] at hd; cases hd
      simp only [step]; split
      · exact np1
      · exact noPos_touchHead np1 _ _ _
  | delHead f h =>
    simp only [step]
    apply noPos_modifyInst np f _ (by intro i; rfl)
    intro j hj hd
    have : j.heads = [] := np f j hj hd
    simp [this]
  | dropHeads f =>
    simp only [step]
    cases hi : findInst s f with
    | none => exact np
    | some i =>
      simp only
      obtain ⟨h1, _, _⟩ := foldl_rawRemove_spec f i.heads s
      apply noPos_modifyInst (noPos_of_insts_eq h1 np) f _ (by intro i; rfl)
      intro j _ _; rfl
  | rmHead f h => simp only [step]; exact noPos_of_insts_eq (insts_rawRemove _ _) np
  | clearHeads f =>
    simp only [step]
    apply noPos_modifyInst np f _ (by intro i; rfl)
    intro j _ _; rfl
  | mainRestart f h nm0 =>
    simp only [step]
    cases hi : findInst s f with
    | none => exact np
    | some i =>
      simp only
      apply noPos_modifyInst (noPos_of_insts_eq (insts_headChanged _ _ _ _ _) np) f _ (by intro i; rfl)
      intro j _ hd; simp [FlowStatus.done] at hd
  | setFlowStatus f st =>
    simp only [step]
    apply noPos_modifyInst np f _ (by intro i; rfl)
    intro j hj hd
    simp only at hd ⊢
    simp only [Op.guard, hj, Bool.or_eq_true, beq_iff_eq, Bool.and_eq_true, bne_iff_ne, ne_eq, List.isEmpty_iff] at hg
    rcases hg with (hg | hg) | hg
    · subst hg; simp [FlowStatus.done] at hd
    · exact hg
    · apply np f j hj
      have hl := hg.2
      cases st <;> simp [FlowStatus.done] at hd <;> cases hs : j.status <;> simp_all [FlowStatus.listening, FlowStatus.done]
  | removeInst f =>
    simp only [step]
    intro f' i' hi' hd
    have hfind : findInst { s with insts := s.insts.filter (·.uid ≠ f) } f' = if f' = f then none else findInst s f' := by
      unfold findInst
      simp only [List.find?_filter]
      by_cases e : f' = f
      · subst e; simp
      · simp only [e, if_false]
        congr 1; funext x
        by_cases e2 : x.uid = f' <;> simp [e2, e]
    rw [hfind] at hi'
    split at hi'
    · cases hi'
    · exact np f' i' hi' hd

theorem noPos_init : NoPos {} := by intro f i h; simp [findInst] at h

theorem noPos_foldl : ∀ (ops : List Op) (s : IState), NoPos s → AllGuards s ops → NoPos (ops.foldl step s)
  | [], _, np, _ => np
  | op :: ops, s, np, hg => noPos_foldl ops (step s op) (noPos_step np op hg.1) hg.2


end CoreIndex
end NemoVerif
