/-
  C10 on the whole-interpreter model CoreVM: error containment, function by function.

  Layer A  `attemptPy` (the model of `try: … except Exception`) never lets a Python-level exception through.
  Layer B  a small preservation calculus `Pres R x` ("whatever `x` returns — normally or with an exception — its final
           state is `R`-related to the initial one") with closure lemmas for `bind`, `pure`, `if`, `match`, `for … in`
           and the primitives of CoreVM; used for `Ext` (nothing queued is lost, no instance disappears, the program
           is not changed) through `_abort_flow` with its recursion into child flows and action clean-up.
  Layer C  post-condition of `_abort_flow`, and the `except` branch of `_advance_head_front`.
-/
import NemoVerif.Lemmas.CoreVM

set_option linter.unusedSimpArgs false
set_option linter.unusedVariables false

namespace NemoVerif.CoreIndex

theorem instUids_of_insts_eq {s s' : IState} (h : s'.insts = s.insts) : instUids s' = instUids s := by
  unfold instUids; rw [h]

theorem instUids_touchHead (s : IState) (f : FUid) (h : HUid) (g : Head → Head) :
    instUids (touchHead s f h g) = instUids s := by
  unfold touchHead
  split
  · rfl
  · split
    · rfl
    · simp only []
      rw [instUids_of_insts_eq (insts_headChanged _ _ _ _ _), instUids_modifyInst _ _ _ (by intro i; rfl)]

/-- no index operation except `removeInst` makes an instance disappear -/
theorem instUids_step_mem (s : IState) (op : Op) (hne : ∀ f, op ≠ .removeInst f) (g : FUid) (hg : g ∈ instUids s) :
    g ∈ instUids (step s op) := by
  cases op with
  | addInst f h nm0 =>
    simp only [step]
    rw [instUids_of_insts_eq (insts_headChanged _ _ _ _ _)]
    unfold instUids at *; simp; left; simpa using hg
  | setPos f h p nm =>
    simp only [step]; split
    · exact hg
    · split
      · exact hg
      · rw [instUids_touchHead]; exact hg
  | setStatus f h st nm =>
    simp only [step]; split
    · exact hg
    · split
      · exact hg
      · rw [instUids_touchHead]; exact hg
  | fork f h' nm0 p nm =>
    simp only [step]; split
    · rw [instUids_modifyInst _ _ _ (by intro i; rfl)]; exact hg
    · rw [instUids_touchHead, instUids_modifyInst _ _ _ (by intro i; rfl)]; exact hg
  | delHead f h => simp only [step]; rw [instUids_modifyInst _ _ _ (by intro i; rfl)]; exact hg
  | dropHeads f =>
    simp only [step]; split
    · exact hg
    · rename_i i hi
      rw [instUids_modifyInst _ _ _ (by intro i; rfl), instUids_of_insts_eq (foldl_rawRemove_spec f i.heads s).1]; exact hg
  | rmHead f h => simp only [step]; rw [instUids_of_insts_eq (insts_rawRemove _ _)]; exact hg
  | clearHeads f => simp only [step]; rw [instUids_modifyInst _ _ _ (by intro i; rfl)]; exact hg
  | mainRestart f h nm0 =>
    simp only [step]; split
    · exact hg
    · rw [instUids_modifyInst _ _ _ (by intro i; rfl), instUids_of_insts_eq (insts_headChanged _ _ _ _ _)]; exact hg
  | setFlowStatus f st => simp only [step]; rw [instUids_modifyInst _ _ _ (by intro i; rfl)]; exact hg
  | removeInst f => exact absurd rfl (hne f)

end NemoVerif.CoreIndex

namespace NemoVerif.CoreVM
open NemoVerif NemoVerif.CoreIndex

/-! ### Layer A: `attemptPy` -/

theorem attemptPy_of_ok {α : Type} {x : M α} {s s' : VM} {a : α} (h : x s = .ok a s') :
    attemptPy x s = .ok (.ok a) s' := by
  simp [attemptPy, tryCatch, tryCatchThe, MonadExceptOf.tryCatch, EStateM.tryCatch, bind, EStateM.bind, h, pure, EStateM.pure]

theorem attemptPy_of_py {α : Type} {x : M α} {s s' : VM} {c m : String} (h : x s = .error (.py c m) s') :
    attemptPy x s = .ok (.error (c, m)) s' := by
  simp [attemptPy, tryCatch, tryCatchThe, MonadExceptOf.tryCatch, EStateM.tryCatch, bind, EStateM.bind, h, pure, EStateM.pure,
    EStateM.Backtrackable.restore, EStateM.Backtrackable.save, EStateM.dummyRestore, EStateM.dummySave]

theorem attemptPy_of_other {α : Type} {x : M α} {s s' : VM} {e : VMErr} (h : x s = .error e s')
    (hne : ∀ c m, e ≠ .py c m) : attemptPy x s = .error e s' := by
  cases e <;> first
    | (exfalso; exact hne _ _ rfl)
    | simp [attemptPy, tryCatch, tryCatchThe, MonadExceptOf.tryCatch, EStateM.tryCatch, bind, EStateM.bind, h, pure, EStateM.pure,
        EStateM.Backtrackable.restore, EStateM.Backtrackable.save, EStateM.dummyRestore, EStateM.dummySave, throw, throwThe,
        MonadExceptOf.throw, EStateM.throw]

/-- **the try/except of the model never lets a Python exception through** -/
theorem attemptPy_never_py {α : Type} (x : M α) (s s' : VM) (c m : String) :
    attemptPy x s ≠ .error (.py c m) s' := by
  intro h
  cases hx : x s with
  | ok a s1 => rw [attemptPy_of_ok hx] at h; cases h
  | error e s1 =>
    cases e with
    | py c' m' => rw [attemptPy_of_py hx] at h; cases h
    | outOfFuel => rw [attemptPy_of_other hx (by intro _ _ h; cases h)] at h; cases h
    | unsupported w => rw [attemptPy_of_other hx (by intro _ _ h; cases h)] at h; cases h
    | guardFailed w => rw [attemptPy_of_other hx (by intro _ _ h; cases h)] at h; cases h

/-! ### Layer B: preservation calculus -/

/-- the state in which a computation ends, whatever its result -/
def outState {α : Type} : EStateM.Result VMErr VM α → VM
  | .ok _ s => s
  | .error _ s => s

/-- `x` relates its initial to its final state by `R`, on normal return AND when an exception leaves it -/
structure Pres (R : VM → VM → Prop) {α : Type} (x : M α) : Prop where
  app : ∀ s, R s (outState (x s))

/-- a reflexive and transitive relation on states -/
structure PreOrd (R : VM → VM → Prop) : Prop where
  refl : ∀ s, R s s
  trans : ∀ {a b c}, R a b → R b c → R a c

section calculus
variable {R : VM → VM → Prop} (po : PreOrd R)
include po

theorem Pres.pure {α : Type} (a : α) : Pres R (pure a : M α) := ⟨fun s => po.refl s⟩

theorem Pres.bind {α β : Type} {x : M α} {f : α → M β} (hx : Pres R x) (hf : ∀ a, Pres R (f a)) :
    Pres R (x >>= f) := by
  refine ⟨fun s => ?_⟩
  have h1 := hx.app s
  show R s (outState (EStateM.bind x f s))
  unfold EStateM.bind
  cases hxs : x s with
  | ok a s1 =>
    rw [hxs] at h1
    simp only
    exact po.trans h1 ((hf a).app s1)
  | error e s1 =>
    rw [hxs] at h1
    exact h1

theorem Pres.throw {α : Type} (e : VMErr) : Pres R (throw e : M α) := ⟨fun s => po.refl s⟩
theorem Pres.pyRaise {α : Type} (c m : String) : Pres R (pyRaise c m : M α) := ⟨fun s => po.refl s⟩
theorem Pres.unsupported {α : Type} (w : String) : Pres R (unsupported w : M α) := ⟨fun s => po.refl s⟩
theorem Pres.get : Pres R (get : M VM) := ⟨fun s => po.refl s⟩
theorem Pres.getRest : Pres R getRest := ⟨fun s => po.refl s⟩
theorem Pres.getIx : Pres R getIx := ⟨fun s => po.refl s⟩

theorem Pres.ite {α : Type} {c : Prop} [Decidable c] {x y : M α} (hx : Pres R x) (hy : Pres R y) :
    Pres R (if c then x else y) := by
  split <;> assumption

theorem Pres.forIn {α β : Type} (xs : List α) (init : β) (body : α → β → M (ForInStep β))
    (hb : ∀ a b, Pres R (body a b)) : Pres R (forIn xs init body) := by
  induction xs generalizing init with
  | nil => simp only [List.forIn_nil]; exact Pres.pure po _
  | cons a as ih =>
    simp only [List.forIn_cons]
    apply Pres.bind po (hb a init)
    intro r
    cases r with
    | done b => exact Pres.pure po _
    | yield b => exact ih b

theorem Pres.tryCatch {α : Type} {x : M α} {h : VMErr → M α} (hx : Pres R x) (hh : ∀ e, Pres R (h e)) :
    Pres R (tryCatch x h) := by
  refine ⟨fun s => ?_⟩
  have h1 := hx.app s
  show R s (outState (EStateM.tryCatch x h s))
  unfold EStateM.tryCatch
  cases hxs : x s with
  | ok a s1 => rw [hxs] at h1; exact h1
  | error e s1 =>
    rw [hxs] at h1
    simp only [EStateM.Backtrackable.restore, EStateM.dummyRestore]
    exact po.trans h1 ((hh e).app s1)

theorem Pres.attemptPy {α : Type} {x : M α} (hx : Pres R x) : Pres R (attemptPy x) := by
  unfold CoreVM.attemptPy
  apply Pres.tryCatch po
  · exact Pres.bind po hx (fun a => Pres.pure po _)
  · intro e
    cases e <;> first | exact Pres.pure po _ | exact Pres.throw po _

end calculus

/-- one step of the syntax-directed proof search for `Pres R _` goals -/
syntax "pres_auto " term : tactic
macro_rules
  | `(tactic| pres_auto $po) => `(tactic| repeat' (first
      | assumption
      | exact Pres.pure $po _
      | exact Pres.throw $po _
      | exact Pres.pyRaise $po _ _
      | exact Pres.unsupported $po _
      | exact Pres.get $po
      | exact Pres.getRest $po
      | exact Pres.getIx $po
      | apply Pres.bind $po
      | apply Pres.forIn $po
      | apply Pres.attemptPy $po
      | intro _
      | split
      | dsimp +zetaHave only))

/-! ### the relation `Ext`: nothing queued is lost, no instance disappears, the program stays -/

structure Ext (s s' : VM) : Prop where
  queue : ∃ pre post, s'.r.queue = pre ++ s.r.queue ++ post
  insts : ∀ g, (findInst s.ixs.ix g).isSome → (findInst s'.ixs.ix g).isSome
  fx : ∀ g, (OMap.lookup g s.r.fx).isSome → (OMap.lookup g s'.r.fx).isSome
  prog : s'.r.prog = s.r.prog

theorem extPO : PreOrd Ext where
  refl s := ⟨⟨[], [], by simp⟩, fun _ h => h, fun _ h => h, rfl⟩
  trans := by
    intro a b c h1 h2
    obtain ⟨p1, q1, e1⟩ := h1.queue
    obtain ⟨p2, q2, e2⟩ := h2.queue
    exact ⟨⟨p2 ++ p1, q1 ++ q2, by rw [e2, e1]; simp⟩, fun g h => h2.insts g (h1.insts g h), fun g h => h2.fx g (h1.fx g h),
      by rw [h2.prog, h1.prog]⟩

/-- a write to `Rest` that keeps the queue up to extension, the `fx` keys and the program -/
theorem Ext.modifyRest (g : Rest → Rest)
    (hq : ∀ r, ∃ pre post, (g r).queue = pre ++ r.queue ++ post)
    (hfx : ∀ r k, (OMap.lookup k r.fx).isSome → (OMap.lookup k (g r).fx).isSome)
    (hp : ∀ r, (g r).prog = r.prog) : Pres Ext (modifyRest g) := by
  refine ⟨fun s => ?_⟩
  exact ⟨hq s.r, fun _ h => h, hfx s.r, hp s.r⟩

theorem Ext.modInstX (f : FUid) (g : InstX → InstX) : Pres Ext (modInstX f g) := by
  unfold CoreVM.modInstX
  apply Ext.modifyRest
  · intro r; exact ⟨[], [], by simp⟩
  · intro r k h
    simp only [OMap.lookup_modify]
    split
    · rename_i hk; subst hk; cases hl : OMap.lookup k r.fx <;> simp_all
    · exact h
  · intro r; rfl

theorem Ext.pushEvent (e : Event) : Pres Ext (pushEvent e) := by
  unfold CoreVM.pushEvent
  apply Ext.modifyRest
  · intro r; exact ⟨[], [e], by simp⟩
  · intro r k h; exact h
  · intro r; rfl

theorem Ext.pushLeftEvent (e : Event) : Pres Ext (pushLeftEvent e) := by
  unfold CoreVM.pushLeftEvent
  apply Ext.modifyRest
  · intro r; exact ⟨[e], [], by simp⟩
  · intro r k h; exact h
  · intro r; rfl

theorem Ext.setAction (a : Action) : Pres Ext (setAction a) := by
  unfold CoreVM.setAction
  apply Ext.modifyRest
  · intro r; exact ⟨[], [], by simp⟩
  · intro r k h; exact h
  · intro r; rfl

theorem Ext.freshUid : Pres Ext freshUid := by
  unfold CoreVM.freshUid
  pres_auto extPO
  apply Ext.modifyRest
  · intro r; exact ⟨[], [], by simp⟩
  · intro r k h; exact h
  · intro r; rfl

theorem Ext.getAction? (u : String) : Pres Ext (getAction? u) := by
  unfold CoreVM.getAction?; pres_auto extPO

theorem Ext.getInstX? (f : FUid) : Pres Ext (getInstX? f) := by
  unfold CoreVM.getInstX?; pres_auto extPO

theorem Ext.getInstX (f : FUid) : Pres Ext (getInstX f) := by
  unfold CoreVM.getInstX; have := Ext.getInstX? f; pres_auto extPO

theorem Ext.getInst? (f : FUid) : Pres Ext (getInst? f) := by
  unfold CoreVM.getInst?; pres_auto extPO

theorem Ext.getInst (f : FUid) : Pres Ext (getInst f) := by
  unfold CoreVM.getInst; have := Ext.getInst? f; pres_auto extPO

/-- leaves of the `Ext` proof search (extended below, newest rule first) -/
syntax "ext_leaf" : tactic
macro_rules | `(tactic| ext_leaf) => `(tactic| first
  | exact Ext.modInstX _ _ | exact Ext.pushEvent _ | exact Ext.pushLeftEvent _ | exact Ext.setAction _ | exact Ext.freshUid
  | exact Ext.getAction? _ | exact Ext.getInstX? _ | exact Ext.getInstX _ | exact Ext.getInst? _ | exact Ext.getInst _)

/-- preservation facts about the join points of the do-notation (kept as structures so that the proof search only uses them
    for join-point calls) -/
structure JP1 (R : VM → VM → Prop) {A α : Type} (x : A → M α) : Prop where
  app : ∀ a, Pres R (x a)
structure JP2 (R : VM → VM → Prop) {A B α : Type} (x : A → B → M α) : Prop where
  app : ∀ a b, Pres R (x a b)
structure JP3 (R : VM → VM → Prop) {A B C α : Type} (x : A → B → C → M α) : Prop where
  app : ∀ a b c, Pres R (x a b c)
structure JP4 (R : VM → VM → Prop) {A B C D α : Type} (x : A → B → C → D → M α) : Prop where
  app : ∀ a b c d, Pres R (x a b c d)
structure JP5 (R : VM → VM → Prop) {A B C D E α : Type} (x : A → B → C → D → E → M α) : Prop where
  app : ∀ a b c d e, Pres R (x a b c d e)

/-- syntax-directed proof search for goals `Pres R x`: `pres_search R po leaf` (relation, its `PreOrd` proof, tactic for the
    leaves).  A `have x := v; …` of the do-notation (join point or plain value) is moved into the context; for a join point
    its own preservation is proved first, then its body is forgotten. -/
syntax "pres_search " term:max term:max tactic:max : tactic
syntax "pres_let " term:max term:max tactic:max : tactic
macro_rules
  | `(tactic| pres_let $R $po $leaf) => `(tactic| (
      extract_lets +onlyGivenNames x
      first
        | (have hx : JP1 $R x := ⟨by (intro a; dsimp only [x]; clear x; pres_search $R $po $leaf)⟩
           clear_value x)
        | (have hx : JP2 $R x := ⟨by (intro a b; dsimp only [x]; clear x; pres_search $R $po $leaf)⟩
           clear_value x)
        | (have hx : JP3 $R x := ⟨by (intro a b c; dsimp only [x]; clear x; pres_search $R $po $leaf)⟩
           clear_value x)
        | (have hx : JP4 $R x := ⟨by (intro a b c d; dsimp only [x]; clear x; pres_search $R $po $leaf)⟩
           clear_value x)
        | (have hx : JP5 $R x := ⟨by (intro a b c d e; dsimp only [x]; clear x; pres_search $R $po $leaf)⟩
           clear_value x)
        | clear_value x))
macro_rules
  | `(tactic| pres_search $R $po $leaf) => `(tactic| repeat' (first
      | with_reducible ($leaf:tactic)
      | with_reducible exact Pres.pure $po _
      | with_reducible exact Pres.throw $po _
      | with_reducible exact Pres.pyRaise $po _ _
      | with_reducible exact Pres.unsupported $po _
      | with_reducible exact Pres.get $po
      | with_reducible exact Pres.getRest $po
      | with_reducible exact Pres.getIx $po
      | with_reducible apply Pres.bind $po
      | with_reducible apply Pres.forIn $po
      | with_reducible apply Pres.attemptPy $po
      | intro _
      | pres_let $R $po $leaf
      | with_reducible (refine JP1.app ?_ _; assumption)
      | with_reducible (refine JP2.app ?_ _ _; assumption)
      | with_reducible (refine JP3.app ?_ _ _ _; assumption)
      | with_reducible (refine JP4.app ?_ _ _ _ _; assumption)
      | with_reducible (refine JP5.app ?_ _ _ _ _ _; assumption)
      | with_reducible apply Pres.ite $po
      | split
      | dsimp only))

syntax "ext_auto" : tactic
macro_rules | `(tactic| ext_auto) => `(tactic| pres_search Ext extPO (ext_leaf))

theorem Ext.modifyRest_outgoing (g : List Match.Ev → List Match.Ev) :
    Pres Ext (CoreVM.modifyRest fun r => { r with outgoing := g r.outgoing }) := by
  apply Ext.modifyRest
  · intro r; exact ⟨[], [], by simp⟩
  · intro r k h; exact h
  · intro r; rfl

theorem Ext.updateActionStatusByEvent (e : Match.Ev) : Pres Ext (updateActionStatusByEvent e) := by
  unfold CoreVM.updateActionStatusByEvent; ext_auto

macro_rules | `(tactic| ext_leaf) => `(tactic| first
  | exact Ext.updateActionStatusByEvent _ | exact Ext.modifyRest_outgoing (fun o => o ++ [_]))

theorem Ext.generateUmimEvent (e : Match.Ev) : Pres Ext (generateUmimEvent e) := by
  unfold CoreVM.generateUmimEvent
  ext_auto

macro_rules | `(tactic| ext_leaf) => `(tactic| exact Ext.generateUmimEvent _)

theorem Ext.releaseAction (au : String) : Pres Ext (releaseAction au) := by
  unfold CoreVM.releaseAction
  ext_auto

macro_rules | `(tactic| ext_leaf) => `(tactic| exact Ext.releaseAction _)

theorem Ext.applyOp (op : Op) (hne : ∀ f, op ≠ .removeInst f) : Pres Ext (applyOp op) := by
  refine ⟨fun s => ?_⟩
  unfold CoreVM.applyOp
  split
  · refine ⟨⟨[], [], by simp [outState]⟩, ?_, fun _ h => h, rfl⟩
    intro g hg
    simp only [outState, IxS.apply]
    rw [findInst_isSome_iff] at hg ⊢
    exact instUids_step_mem _ _ hne g hg
  · exact extPO.refl s

theorem Ext.modifyRest_hx (g : Rest → List (Key × HeadX)) (c : Rest → List Key) :
    Pres Ext (CoreVM.modifyRest fun r => { r with hx := g r, cleared := c r }) := by
  apply Ext.modifyRest
  · intro r; exact ⟨[], [], by simp⟩
  · intro r k h; exact h
  · intro r; rfl

theorem Ext.dropHeads (f : FUid) : Pres Ext (dropHeads f) := by
  unfold CoreVM.dropHeads
  have h1 := Ext.applyOp (.dropHeads f) (by intro _ h; cases h)
  pres_search Ext extPO (first | ext_leaf | exact h1)
  all_goals exact Ext.modifyRest_hx _ _

theorem Ext.setFlowStatus (f : FUid) (st : FlowStatus) : Pres Ext (setFlowStatus f st) := by
  unfold CoreVM.setFlowStatus
  have h1 := Ext.applyOp (.setFlowStatus f st) (by intro _ h; cases h)
  pres_search Ext extPO (first | ext_leaf | exact h1)

macro_rules | `(tactic| ext_leaf) => `(tactic| first | exact Ext.dropHeads _ | exact Ext.setFlowStatus _ _)

theorem Ext.ctxHolder (f : FUid) : Pres Ext (ctxHolder f) := by
  unfold CoreVM.ctxHolder; ext_auto
macro_rules | `(tactic| ext_leaf) => `(tactic| exact Ext.ctxHolder _)
theorem Ext.getCtx (f : FUid) : Pres Ext (getCtx f) := by
  unfold CoreVM.getCtx; ext_auto
macro_rules | `(tactic| ext_leaf) => `(tactic| exact Ext.getCtx _)
theorem Ext.flowObjOf (f : FUid) : Pres Ext (flowObjOf f) := by
  unfold CoreVM.flowObjOf; ext_auto
macro_rules | `(tactic| ext_leaf) => `(tactic| exact Ext.flowObjOf _)
theorem Ext.failedEvent (f : FUid) (sc : List Score) : Pres Ext (failedEvent f sc) := by
  unfold CoreVM.failedEvent; ext_auto
theorem Ext.flowStartEvent (o : FlowObj) (a) : Pres Ext (flowStartEvent o a) := by
  unfold CoreVM.flowStartEvent; ext_auto
macro_rules | `(tactic| ext_leaf) => `(tactic| first | exact Ext.failedEvent _ _ | exact Ext.flowStartEvent _ _)
theorem Ext.restartActivated (f : FUid) (sc : List Score) (d : Bool) : Pres Ext (restartActivated f sc d) := by
  unfold CoreVM.restartActivated; ext_auto
theorem Ext.isReferenceActivated (f : FUid) : Pres Ext (isReferenceActivated f) := by
  unfold CoreVM.isReferenceActivated; ext_auto
theorem Ext.isChildActivated (f : FUid) : Pres Ext (isChildActivated f) := by
  unfold CoreVM.isChildActivated; ext_auto
theorem Ext.deactivatesRef (d : Bool) (f : FUid) : Pres Ext (deactivatesRef d f) := by
  cases d
  · rw [deactivatesRef_false]; exact Pres.pure extPO _
  · rw [deactivatesRef_true]; exact Ext.isReferenceActivated f
macro_rules | `(tactic| ext_leaf) => `(tactic| first
  | exact Ext.restartActivated _ _ _ | exact Ext.isReferenceActivated _ | exact Ext.isChildActivated _ | exact Ext.deactivatesRef _ _)

/-- **`_abort_flow` (with its recursion into child flows and the action clean-up) loses nothing that is queued, removes no
    instance and does not touch the program** — on normal return and when an exception leaves it -/
theorem Ext.abortFlow : ∀ (fuel : Nat) (f : FUid) (sc : List Score) (d : Bool), Pres Ext (abortFlow fuel f sc d)
  | 0, f, sc, d => by unfold CoreVM.abortFlow; exact Pres.throw extPO _
  | fuel + 1, f, sc, d => by
    unfold CoreVM.abortFlow
    have ih := Ext.abortFlow fuel
    pres_search Ext extPO (first | ext_leaf | exact ih _ _ _)

/-! ### read-only computations (expression evaluation, event construction, matching score) -/

/-- read-only computations: the final state IS the initial state (normal return or exception) -/
def Same (s s' : VM) : Prop := ∃ n, s' = { s with r := { s.r with nextUid := n } }
theorem samePO : PreOrd Same :=
  ⟨fun s => ⟨s.r.nextUid, rfl⟩, fun h1 h2 => by
    obtain ⟨n1, e1⟩ := h1
    obtain ⟨n2, e2⟩ := h2
    exact ⟨n2, by rw [e2, e1]⟩⟩

/-- a relation that does not look at the uid counter holds along every read-only computation -/
theorem Pres.of_same {R : VM → VM → Prop} (hu : ∀ s n, R s { s with r := { s.r with nextUid := n } }) {α : Type} {x : M α}
    (h : Pres Same x) : Pres R x :=
  ⟨fun s => by obtain ⟨n, e⟩ := h.app s; rw [e]; exact hu s n⟩

theorem Pres.mapMLoop {R : VM → VM → Prop} (po : PreOrd R) {α β : Type} (f : α → M β) (hf : ∀ a, Pres R (f a)) :
    ∀ (xs : List α) (acc : List β), Pres R (List.mapM.loop f xs acc)
  | [], acc => by unfold List.mapM.loop; exact Pres.pure po _
  | x :: xs, acc => by
    unfold List.mapM.loop
    exact Pres.bind po (hf x) (fun b => Pres.mapMLoop po f hf xs _)

theorem Pres.mapM {R : VM → VM → Prop} (po : PreOrd R) {α β : Type} (f : α → M β) (hf : ∀ a, Pres R (f a)) (xs : List α) :
    Pres R (List.mapM f xs) := Pres.mapMLoop po f hf xs []

theorem Same.freshUid : Pres Same freshUid :=
  ⟨fun s => ⟨s.r.nextUid + 1, rfl⟩⟩

syntax "same_leaf" : tactic
macro_rules | `(tactic| same_leaf) => `(tactic| exact Same.freshUid)
syntax "same_auto" : tactic
macro_rules | `(tactic| same_auto) => `(tactic| pres_search Same samePO (same_leaf))

theorem Same.getInstX? (f : FUid) : Pres Same (getInstX? f) := by unfold CoreVM.getInstX?; same_auto
theorem Same.getAction? (f : String) : Pres Same (getAction? f) := by unfold CoreVM.getAction?; same_auto
theorem Same.getInst? (f : FUid) : Pres Same (getInst? f) := by unfold CoreVM.getInst?; same_auto
macro_rules | `(tactic| same_leaf) => `(tactic| first | exact Same.getInstX? _ | exact Same.getAction? _ | exact Same.getInst? _)
theorem Same.getInstX (f : FUid) : Pres Same (getInstX f) := by unfold CoreVM.getInstX; same_auto
theorem Same.getInst (f : FUid) : Pres Same (getInst f) := by unfold CoreVM.getInst; same_auto
macro_rules | `(tactic| same_leaf) => `(tactic| first | exact Same.getInstX _ | exact Same.getInst _)
theorem Same.ctxHolder (f : FUid) : Pres Same (ctxHolder f) := by unfold CoreVM.ctxHolder; same_auto
macro_rules | `(tactic| same_leaf) => `(tactic| exact Same.ctxHolder _)
theorem Same.getCtx (f : FUid) : Pres Same (getCtx f) := by unfold CoreVM.getCtx; same_auto
macro_rules | `(tactic| same_leaf) => `(tactic| exact Same.getCtx _)

theorem Same.valueErr {α : Type} (m : String) : Pres Same (valueErr m : M α) := Pres.pyRaise samePO _ _
macro_rules | `(tactic| same_leaf) => `(tactic| exact Same.valueErr _)
theorem Same.lookupVar (c : EvalCtx) (n : String) : Pres Same (lookupVar c n) := by
  unfold CoreVM.lookupVar; same_auto
theorem Same.attrOf (v : Val) (a : String) (l : Bool) : Pres Same (attrOf v a l) := by
  unfold CoreVM.attrOf CoreVM.valueErr; same_auto
macro_rules | `(tactic| same_leaf) => `(tactic| first | exact Same.lookupVar _ _ | exact Same.attrOf _ _ _)

theorem Same.eval : ∀ fuel : Nat, (∀ c e, Pres Same (evalExpr c fuel e)) ∧ (∀ c e, Pres Same (evalBase c fuel e))
  | 0 => by constructor <;> intro c e <;> (first | unfold evalExpr | unfold evalBase) <;> exact Pres.throw samePO _
  | fuel + 1 => by
    obtain ⟨ih1, ih2⟩ := Same.eval fuel
    constructor
    · intro c e
      unfold evalExpr
      pres_search Same samePO (first | same_leaf | exact ih1 _ _ | exact ih2 _ _ | apply Pres.tryCatch samePO | apply Pres.mapM samePO)
    · intro c e
      unfold evalBase
      pres_search Same samePO (first | same_leaf | exact ih1 _ _ | exact ih2 _ _ | apply Pres.tryCatch samePO | apply Pres.mapM samePO)

macro_rules | `(tactic| same_leaf) => `(tactic| first | exact (Same.eval _).1 _ _ | exact (Same.eval _).2 _ _)

theorem Same.evalIn (f : FUid) (e : Expr) : Pres Same (evalIn f e) := by unfold CoreVM.evalIn; same_auto
theorem Same.evalEmpty (e : Expr) : Pres Same (evalEmpty e) := by unfold CoreVM.evalEmpty; same_auto
macro_rules | `(tactic| same_leaf) => `(tactic| first | exact Same.evalIn _ _ | exact Same.evalEmpty _)
theorem Same.evalArgs (f : FUid) (a) : Pres Same (evalArgs f a) := by unfold CoreVM.evalArgs; same_auto
macro_rules | `(tactic| same_leaf) => `(tactic| exact Same.evalArgs _ _)
theorem Same.getCfg (f : String) : Pres Same (getCfg f) := by unfold CoreVM.getCfg; same_auto
macro_rules | `(tactic| same_leaf) => `(tactic| exact Same.getCfg _)
theorem Same.cfgOfInst (f : FUid) : Pres Same (cfgOfInst f) := by unfold CoreVM.cfgOfInst; same_auto
theorem Same.getHead? (k : Key) : Pres Same (getHead? k) := by unfold CoreVM.getHead?; same_auto
theorem Same.getHeadX (k : Key) : Pres Same (getHeadX k) := by unfold CoreVM.getHeadX; same_auto
macro_rules | `(tactic| same_leaf) => `(tactic| first | exact Same.cfgOfInst _ | exact Same.getHead? _ | exact Same.getHeadX _)
theorem Same.headScores (k : Key) : Pres Same (headScores k) := by unfold CoreVM.headScores; same_auto
theorem Same.labelPos (c : FlowCfg) (l : String) : Pres Same (labelPos c l) := by unfold CoreVM.labelPos; same_auto
theorem Same.flowObjOf (f : FUid) : Pres Same (flowObjOf f) := by unfold CoreVM.flowObjOf; same_auto
macro_rules | `(tactic| same_leaf) => `(tactic| first | exact Same.headScores _ | exact Same.labelPos _ _ | exact Same.flowObjOf _)
theorem Same.instanceArguments (c : FlowCfg) (a) : Pres Same (instanceArguments c a) := by
  unfold CoreVM.instanceArguments; same_auto
macro_rules | `(tactic| same_leaf) => `(tactic| exact Same.instanceArguments _ _)
theorem Same.flowStartEvent (o : FlowObj) (a) : Pres Same (flowStartEvent o a) := by unfold CoreVM.flowStartEvent; same_auto
macro_rules | `(tactic| same_leaf) => `(tactic| exact Same.flowStartEvent _ _)
theorem Same.flowGetEvent (o : FlowObj) (n a) : Pres Same (flowGetEvent o n a) := by unfold CoreVM.flowGetEvent; same_auto
macro_rules | `(tactic| same_leaf) => `(tactic| exact Same.flowGetEvent _ _ _)
theorem Same.actionGetEvent (o : Action) (n a) : Pres Same (actionGetEvent o n a) := by unfold CoreVM.actionGetEvent; same_auto
macro_rules | `(tactic| same_leaf) => `(tactic| exact Same.actionGetEvent _ _ _)
theorem Same.tempAction (n a) : Pres Same (tempAction n a) := by unfold CoreVM.tempAction; same_auto
macro_rules | `(tactic| same_leaf) => `(tactic| exact Same.tempAction _ _)
theorem Same.tempFlowObj (n) : Pres Same (tempFlowObj n) := by unfold CoreVM.tempFlowObj; same_auto
macro_rules | `(tactic| same_leaf) => `(tactic| exact Same.tempFlowObj _)
theorem Same.resolveRef (f s v) : Pres Same (resolveRef f s v) := by unfold CoreVM.resolveRef; same_auto
macro_rules | `(tactic| same_leaf) => `(tactic| exact Same.resolveRef _ _ _)
theorem Same.getEventName (f : FUid) (sp : Spec) : Pres Same (getEventName f sp) := by unfold CoreVM.getEventName; same_auto
theorem Same.getEvent (f : FUid) (sp : Spec) (b : Bool) : Pres Same (getEvent f sp b) := by unfold CoreVM.getEvent; same_auto
macro_rules | `(tactic| same_leaf) => `(tactic| first | exact Same.getEventName _ _ | exact Same.getEvent _ _ _)
theorem Same.eventMatchingScore (f : FUid) (sp : Spec) (e : Event) : Pres Same (eventMatchingScore f sp e) := by
  unfold CoreVM.eventMatchingScore; same_auto
theorem Same.nameFor (f : FUid) (p : Nat) (h : HeadStatus) : Pres Same (nameFor f p h) := by unfold CoreVM.nameFor; same_auto
macro_rules | `(tactic| same_leaf) => `(tactic| first | exact Same.eventMatchingScore _ _ _ | exact Same.nameFor _ _ _)

/-! ### Layer C: post-condition of `_abort_flow` -/

/-- the index component (instances, statuses, heads, dispatch maps) is not touched -/
def IxSame (s s' : VM) : Prop := s'.ixs = s.ixs
theorem ixSamePO : PreOrd IxSame := ⟨fun _ => rfl, fun h1 h2 => by unfold IxSame at *; rw [h2, h1]⟩

theorem IxSame.modifyRest (g : Rest → Rest) : Pres IxSame (CoreVM.modifyRest g) := ⟨fun s => rfl⟩
theorem IxSame.of_same {α : Type} {x : M α} (h : Pres Same x) : Pres IxSame x :=
  Pres.of_same (fun s n => rfl) h
theorem IxSame.modInstX (f : FUid) (g) : Pres IxSame (modInstX f g) := IxSame.modifyRest _
theorem IxSame.pushEvent (e) : Pres IxSame (pushEvent e) := IxSame.modifyRest _
theorem IxSame.pushLeftEvent (e) : Pres IxSame (pushLeftEvent e) := IxSame.modifyRest _

syntax "ixsame_leaf" : tactic
macro_rules | `(tactic| ixsame_leaf) => `(tactic| first
  | exact IxSame.modInstX _ _ | exact IxSame.pushEvent _ | exact IxSame.pushLeftEvent _ | exact IxSame.modifyRest _
  | (apply IxSame.of_same; same_leaf))

theorem IxSame.failedEvent (f sc) : Pres IxSame (failedEvent f sc) := by
  unfold CoreVM.failedEvent; pres_search IxSame ixSamePO (ixsame_leaf)
theorem IxSame.restartActivated (f sc d) : Pres IxSame (restartActivated f sc d) := by
  unfold CoreVM.restartActivated; pres_search IxSame ixSamePO (ixsame_leaf)


theorem ok_of_pres {R : VM → VM → Prop} {α : Type} {x : M α} (h : Pres R x) {s s' : VM} {a : α} (hr : x s = .ok a s') :
    R s s' := by
  have := h.app s; rw [hr] at this; exact this

theorem err_of_pres {R : VM → VM → Prop} {α : Type} {x : M α} (h : Pres R x) {s s' : VM} {e : VMErr} (hr : x s = .error e s') :
    R s s' := by
  have := h.app s; rw [hr] at this; exact this

theorem Same.isReferenceActivated (f : FUid) : Pres Same (isReferenceActivated f) := by
  unfold CoreVM.isReferenceActivated; same_auto
theorem Same.isChildActivated (f : FUid) : Pres Same (isChildActivated f) := by
  unfold CoreVM.isChildActivated; same_auto
theorem Same.deactivatesRef (d : Bool) (f : FUid) : Pres Same (deactivatesRef d f) := by
  cases d
  · rw [deactivatesRef_false]; exact Pres.pure samePO _
  · rw [deactivatesRef_true]; exact Same.isReferenceActivated f

/-! #### "ends in `Q`": a calculus for facts established by the LAST statements of a computation -/

/-- every normal return of `x` ends in a state satisfying `Q` -/
structure Post (Q : VM → Prop) {α : Type} (x : M α) : Prop where
  app : ∀ s a s', x s = .ok a s' → Q s'

theorem Post.bind_right {Q : VM → Prop} {α β : Type} {x : M α} {f : α → M β} (hf : ∀ a, Post Q (f a)) : Post Q (x >>= f) :=
  ⟨fun s b s' h => by obtain ⟨a, s1, _, h2⟩ := bind_ok h; exact (hf a).app s1 b s' h2⟩
theorem Post.throw {Q : VM → Prop} {α : Type} (e : VMErr) : Post Q (throw e : M α) := ⟨fun s a s' h => by cases h⟩
theorem Post.pyRaise {Q : VM → Prop} {α : Type} (c m : String) : Post Q (pyRaise c m : M α) := ⟨fun s a s' h => by cases h⟩
theorem Post.unsupported {Q : VM → Prop} {α : Type} (w : String) : Post Q (unsupported w : M α) := ⟨fun s a s' h => by cases h⟩

structure PJ1 (Q : VM → Prop) {A α : Type} (x : A → M α) : Prop where
  app : ∀ a, Post Q (x a)
structure PJ2 (Q : VM → Prop) {A B α : Type} (x : A → B → M α) : Prop where
  app : ∀ a b, Post Q (x a b)

syntax "post_search " term:max tactic:max : tactic
syntax "post_let " term:max tactic:max : tactic
macro_rules
  | `(tactic| post_let $Q $leaf) => `(tactic| (
      extract_lets +onlyGivenNames x
      first
        | (have hx : PJ1 $Q x := ⟨by (intro a; dsimp only [x]; clear x; post_search $Q $leaf)⟩
           clear_value x)
        | (have hx : PJ2 $Q x := ⟨by (intro a b; dsimp only [x]; clear x; post_search $Q $leaf)⟩
           clear_value x)
        | clear_value x))
macro_rules
  | `(tactic| post_search $Q $leaf) => `(tactic| repeat' (first
      | with_reducible ($leaf:tactic)
      | with_reducible exact Post.throw _
      | with_reducible exact Post.pyRaise _ _
      | with_reducible exact Post.unsupported _
      | with_reducible apply Post.bind_right
      | intro _
      | post_let $Q $leaf
      | with_reducible (refine PJ1.app ?_ _; assumption)
      | with_reducible (refine PJ2.app ?_ _ _; assumption)
      | split
      | dsimp only))

/-- what the end of `_abort_flow` establishes -/
def Aborted (f : FUid) (sc : List Score) (s' : VM) : Prop :=
  (∃ i', findInst s'.ixs.ix f = some i' ∧ i'.status = .stopped ∧ i'.heads = []) ∧
  ∃ e, e ∈ s'.r.queue ∧ e.ev.name = "FlowFailed" ∧ e.ev.kind = .internal ∧ e.scores = sc

theorem abortEnd_post (f : FUid) (sc : List Score) (d : Bool) :
    Post (fun s' => (findInst s'.ixs.ix f).isSome → Aborted f sc s') (do
      setFlowStatus f FlowStatus.stopped
      let e ← failedEvent f sc
      pushEvent e
      restartActivated f sc d) := by
  refine ⟨fun s a s' h => ?_⟩
  obtain ⟨_, s1, h1, h⟩ := bind_ok h
  obtain ⟨e, s2, h2, h⟩ := bind_ok h
  obtain ⟨_, s3, h3, h⟩ := bind_ok h
  intro hex
  -- `flow_state.status = STOPPED`
  unfold CoreVM.setFlowStatus at h1
  obtain ⟨_, sa, ha, h1⟩ := bind_ok h1
  have e1 : s1.ixs = sa.ixs := by
    have hp : Pres IxSame (do
        let now := (← getRest).clock
        modInstX f fun x => { x with statusUpdated := now }) := by
      pres_search IxSame ixSamePO (ixsame_leaf)
    exact ok_of_pres hp h1
  have e2 : s2.ixs = s1.ixs := ok_of_pres (IxSame.failedEvent f sc) h2
  have e3 : s3.ixs = s2.ixs := ok_of_pres (IxSame.pushEvent e) h3
  have e4 : s'.ixs = s3.ixs := ok_of_pres (IxSame.restartActivated f sc d) h
  have hfa : ∀ i, findInst s.ixs.ix f = some i → findInst sa.ixs.ix f = some { i with status := .stopped } := by
    intro i hi
    unfold CoreVM.applyOp at ha
    split at ha
    · cases ha
      simp only [IxS.apply, step]
      rw [findInst_modifyInst _ _ _ _ (by intro i; rfl)]
      simp [hi]
    · cases ha
  have hex' : (findInst s.ixs.ix f).isSome := by
    -- instances are never created here: if `f` exists at the end it existed at the start
    cases hf : findInst s.ixs.ix f with
    | some i => rfl
    | none =>
      exfalso
      rw [e4, e3, e2, e1] at hex
      unfold CoreVM.applyOp at ha
      split at ha
      · cases ha
        simp only [IxS.apply, step] at hex
        rw [findInst_modifyInst _ _ _ _ (by intro i; rfl)] at hex
        simp [hf] at hex
      · cases ha
  obtain ⟨i, hi⟩ := Option.isSome_iff_exists.mp hex'
  have hfin : findInst s'.ixs.ix f = some { i with status := .stopped } := by
    rw [e4, e3, e2, e1]; exact hfa i hi
  refine ⟨⟨_, hfin, rfl, ?_⟩, ?_⟩
  · exact noPos_of_vm s' f _ hfin rfl
  · -- the event
    have hq3 : s3.r.queue = s2.r.queue ++ [e] := by
      unfold CoreVM.pushEvent CoreVM.modifyRest at h3
      simp only [modify, modifyGet, MonadStateOf.modifyGet, EStateM.modifyGet] at h3
      cases h3; rfl
    obtain ⟨pre, post, hq⟩ := (ok_of_pres (Ext.restartActivated f sc d) h).queue
    unfold CoreVM.failedEvent at h2
    obtain ⟨o, s2', _, h2⟩ := bind_ok h2
    simp only [pure, EStateM.pure] at h2
    refine ⟨e, ?_, ?_, ?_, ?_⟩
    · rw [hq, hq3]; simp
    all_goals (cases h2; rfl)


/-- **post-condition of `_abort_flow(deactivate_flow=False)`**: called on an instance that is listening (WAITING / STARTING /
    STARTED) or STOPPING, every normal return leaves the instance STOPPED (= FAILED) without heads and a `FlowFailed` internal
    event with the given matching scores in the queue -/
theorem abortFlow_aborts (fuel : Nat) (f : FUid) (sc : List Score) (s s' : VM) (i : Inst)
    (hi : findInst s.ixs.ix f = some i) (hl : i.status.listening = true ∨ i.status = .stopping)
    (h : abortFlow (fuel + 1) f sc false s = .ok () s') : Aborted f sc s' := by
  have hex : (findInst s'.ixs.ix f).isSome := (ok_of_pres (Ext.abortFlow (fuel + 1) f sc false) h).insts f (by rw [hi]; rfl)
  unfold abortFlow at h
  rw [deactivatesRef_false] at h
  obtain ⟨b, s0, h0, hA⟩ := bind_ok h
  clear h
  have e0 : s0.ixs = s.ixs ∧ b = false := by cases h0; exact ⟨rfl, rfl⟩
  obtain ⟨e0, rfl⟩ := e0
  simp only [Bool.false_and, Bool.false_eq_true, if_false] at hA
  obtain ⟨i0, s0', h1, hB⟩ := bind_ok hA
  clear hA
  have hi0 : i0 = i ∧ s0' = s0 := by
    unfold getInst getInst? getIx at h1
    simp only [bind, EStateM.bind, get, getThe, MonadStateOf.get, EStateM.get, pure, EStateM.pure, e0, hi] at h1
    cases h1; exact ⟨rfl, rfl⟩
  obtain ⟨rfl, rfl⟩ := hi0
  split at hB
  · rename_i hc
    exfalso
    rcases hl with hl | hl <;> simp [hl] at hc
  rename_i hc
  refine (Post.app (Q := fun s' => (findInst s'.ixs.ix f).isSome → Aborted f sc s') ?_ _ _ _ hB) hex
  post_search (fun s' => (findInst s'.ixs.ix f).isSome → Aborted f sc s') (exact abortEnd_post f sc false)

/-! ### Layer C2: the `except` branch of `_advance_head_front` -/

theorem bind_ok_eq {α β : Type} {x : M α} {f : α → M β} {s s1 : VM} {a : α} (h : x s = .ok a s1) :
    (x >>= f) s = f a s1 := by
  show EStateM.bind x f s = _
  unfold EStateM.bind; rw [h]

theorem bind_err_eq {α β : Type} {x : M α} {f : α → M β} {s s1 : VM} {e : VMErr} (h : x s = .error e s1) :
    (x >>= f) s = .error e s1 := by
  show EStateM.bind x f s = _
  unfold EStateM.bind; rw [h]

/-- the `except Exception as e:` branch of `_advance_head_front` followed by the rest of the loop body for that head -/
def errHandler (fuel : Nat) (k : Key) (c m : String) (wasStarting : Bool) : M (List Key) := do
  pushEvent (colangErrorEvent c m)
  modifyRest fun r => { r with caught := r.caught ++ [s!"{c}: {m}"] }
  if wasStarting && (← getInstX k.1).activated > 0 then
    modInstX k.1 fun x => { x with newInstanceStarted := true }
  abortFlow fuel k.1 (← headScores k) false
  let _ ← getIx
  return []

theorem advance_error_path (fuel : Nat) (k : Key) (s s1 s2 : VM) (i : Inst) (hd hd2 : Head) (cfg : FlowCfg) (c m : String)
    (starting : Bool)
    (hi : findInst s.ixs.ix k.1 = some i) (hl : i.status.listening = true)
    (hcfg : cfgOfInst k.1 s = .ok cfg s)
    (hhd : i.findHead k.2 = some hd) (hact : hd.status = .active)
    (hpre : (do
        if (← getInst k.1).status = FlowStatus.waiting then setFlowStatus k.1 FlowStatus.starting
        pure (decide ((← getInst k.1).status = FlowStatus.starting))) s = .ok starting s1)
    (hraise : (do
        setHeadPos k (hd.pos + 1)
        let newHeads ← slide fuel k.1 k.2
        if newHeads.isEmpty then pure [] else advanceHeadFront fuel newHeads) s1 = .error (.py c m) s2)
    (hhd2 : (findInst s2.ixs.ix k.1).bind (·.findHead k.2) = some hd2) (hpos : hd2.pos < cfg.elements.size) :
    advanceHeadFront (fuel + 1) [k] s = errHandler fuel k c m starting s2 := by
  unfold advanceHeadFront
  simp only [List.forIn_cons, List.forIn_nil]
  have g1 : getInst? k.1 s = .ok (some i) s := by
    simp [getInst?, getIx, bind, EStateM.bind, get, getThe, MonadStateOf.get, EStateM.get, pure, EStateM.pure, hi]
  have g3 : getHead? k s = .ok (some hd) s := by
    simp [getHead?, getIx, bind, EStateM.bind, get, getThe, MonadStateOf.get, EStateM.get, pure, EStateM.pure, hi, hhd]
  simp only [bind_assoc]
  rw [bind_ok_eq g1]
  simp only [bind_assoc, pure_bind]
  rw [bind_ok_eq hcfg, bind_ok_eq g3]
  simp only [bind_assoc, pure_bind, hact, hl]
  simp only [reduceCtorEq, decide_false, decide_true, Bool.false_or, Bool.not_true, Bool.false_eq_true, if_false, Bool.false_and, if_true,
    bind_assoc, pure_bind]
  have g4 : getRest s = .ok s.r s := rfl
  rw [bind_ok_eq g4]
  try simp only [reduceCtorEq, decide_false, decide_true, Bool.false_or, Bool.not_true, Bool.false_eq_true, if_false, Bool.false_and, if_true,
    bind_assoc, pure_bind]
  obtain ⟨i1, sa', hg1, hpre⟩ := bind_ok hpre
  rw [bind_ok_eq hg1]
  have g5 : getHead? k s2 = .ok (some hd2) s2 := by
    simp [getHead?, getIx, bind, EStateM.bind, get, getThe, MonadStateOf.get, EStateM.get, pure, EStateM.pure, hhd2]
  have hnp : ¬ (hd2.pos ≥ cfg.elements.size) := by omega
  by_cases hw : i1.status = FlowStatus.waiting
  · simp only [hw, if_true, bind_assoc, pure_bind] at hpre ⊢
    obtain ⟨_, sb, hsf, hpre⟩ := bind_ok hpre
    obtain ⟨i2, sb', hg2, hpre⟩ := bind_ok hpre
    simp only [pure, EStateM.pure] at hpre
    cases hpre
    rw [bind_ok_eq hsf, bind_ok_eq hg2, bind_ok_eq (attemptPy_of_py hraise)]
    simp only [bind_assoc, pure_bind]
    rw [bind_ok_eq g5]
    simp only [hnp, if_false, bind_assoc, pure_bind]
    unfold errHandler
    simp only [bind_assoc, pure_bind, List.filter_nil]
    refine congrFun (bind_congr fun _ => bind_congr fun _ => bind_congr fun x => ?_) s2
    split <;> simp only [bind_assoc, pure_bind, List.filter_nil]
  · simp only [hw, if_false, bind_assoc, pure_bind] at hpre ⊢
    obtain ⟨i2, sb', hg2, hpre⟩ := bind_ok hpre
    simp only [pure, EStateM.pure] at hpre
    cases hpre
    rw [bind_ok_eq hg2, bind_ok_eq (attemptPy_of_py hraise)]
    simp only [bind_assoc, pure_bind]
    rw [bind_ok_eq g5]
    simp only [hnp, if_false, bind_assoc, pure_bind]
    unfold errHandler
    simp only [bind_assoc, pure_bind, List.filter_nil]
    refine congrFun (bind_congr fun _ => bind_congr fun _ => bind_congr fun x => ?_) s2
    split <;> simp only [bind_assoc, pure_bind, List.filter_nil]

theorem Ext.uid (s : VM) (n : Nat) : Ext s { s with r := { s.r with nextUid := n } } :=
  ⟨⟨[], [], by simp⟩, fun _ h => h, fun _ h => h, rfl⟩

theorem Ext.headScores (k : Key) : Pres Ext (headScores k) := Pres.of_same Ext.uid (Same.headScores k)

theorem Ext.modifyRest_caught (g : List String → List String) :
    Pres Ext (CoreVM.modifyRest fun r => { r with caught := g r.caught }) := by
  apply Ext.modifyRest
  · intro r; exact ⟨[], [], by simp⟩
  · intro r k h; exact h
  · intro r; rfl

macro_rules | `(tactic| ext_leaf) => `(tactic| first | exact Ext.abortFlow _ _ _ _ | exact Ext.headScores _ | exact Ext.modifyRest_caught (fun l => l ++ [_]))

theorem Ext.errHandler (fuel : Nat) (k : Key) (c m : String) (b : Bool) : Pres Ext (errHandler fuel k c m b) := by
  unfold CoreVM.errHandler
  ext_auto

/-- what the `except` branch does, whatever its result: the `ColangError` event is queued (and stays queued), the exception
    is logged, no instance disappears -/
theorem errHandler_queues (fuel : Nat) (k : Key) (c m : String) (b : Bool) (s2 : VM) :
    colangErrorEvent c m ∈ (outState (errHandler fuel k c m b s2)).r.queue := by
  unfold CoreVM.errHandler
  have hp : (pushEvent (colangErrorEvent c m)) s2 = .ok () { s2 with r := { s2.r with queue := s2.r.queue ++ [colangErrorEvent c m] } } := rfl
  rw [bind_ok_eq hp]
  generalize hs3 : ({ s2 with r := { s2.r with queue := s2.r.queue ++ [colangErrorEvent c m] } } : VM) = s3
  have hin : colangErrorEvent c m ∈ s3.r.queue := by rw [← hs3]; simp
  have hrest : Pres Ext (do
      modifyRest fun r => { r with caught := r.caught ++ [s!"{c}: {m}"] }
      if b && (← getInstX k.1).activated > 0 then
        modInstX k.1 fun x => { x with newInstanceStarted := true }
      abortFlow fuel k.1 (← headScores k) false
      let _ ← getIx
      return ([] : List Key)) := by
    ext_auto
  obtain ⟨pre, post, hq⟩ := (hrest.app s3).queue
  rw [hq]; simp [hin]


theorem bind_err {α β : Type} {x : M α} {f : α → M β} {s s' : VM} {e : VMErr}
    (h : (x >>= f) s = .error e s') : x s = .error e s' ∨ ∃ a s1, x s = .ok a s1 ∧ f a s1 = .error e s' := by
  change EStateM.bind x f s = _ at h
  unfold EStateM.bind at h
  split at h
  · rename_i a s1 hx; exact Or.inr ⟨a, s1, hx, h⟩
  · rename_i e1 s1 hx; cases h; exact Or.inl hx

theorem IxSame.headScores (k : Key) : Pres IxSame (headScores k) := IxSame.of_same (Same.headScores k)
theorem IxSame.getInstX (f : FUid) : Pres IxSame (getInstX f) := IxSame.of_same (Same.getInstX f)

/-- the prefix of the `except` branch (everything before `_abort_flow`) -/
def errPrefix (k : Key) (c m : String) (wasStarting : Bool) : M (List Score) := do
  pushEvent (colangErrorEvent c m)
  modifyRest fun r => { r with caught := r.caught ++ [s!"{c}: {m}"] }
  if wasStarting && (← getInstX k.1).activated > 0 then
    modInstX k.1 fun x => { x with newInstanceStarted := true }
  headScores k

theorem errHandler_eq (fuel : Nat) (k : Key) (c m : String) (b : Bool) :
    errHandler fuel k c m b = (do
      let sc ← errPrefix k c m b
      abortFlow fuel k.1 sc false
      let _ ← getIx
      return []) := by
  unfold errHandler errPrefix
  simp only [bind_assoc, pure_bind]
  refine bind_congr fun _ => bind_congr fun _ => bind_congr fun x => ?_
  split <;> simp only [bind_assoc, pure_bind]

theorem IxSame.errPrefix (k : Key) (c m : String) (b : Bool) : Pres IxSame (errPrefix k c m b) := by
  unfold CoreVM.errPrefix
  pres_search IxSame ixSamePO (first | ixsame_leaf | exact IxSame.headScores _ | exact IxSame.getInstX _)

theorem Ext.errPrefix (k : Key) (c m : String) (b : Bool) : Pres Ext (errPrefix k c m b) := by
  unfold CoreVM.errPrefix
  ext_auto

/-- the `except` branch returns normally: nothing is handed back for this head, and the faulty flow has been aborted -/
theorem errHandler_ok (fuel : Nat) (k : Key) (c m : String) (b : Bool) (s2 s' : VM) (r : List Key)
    (h : errHandler (fuel + 1) k c m b s2 = .ok r s') :
    r = [] ∧ Ext s2 s' ∧
    ∀ i2, findInst s2.ixs.ix k.1 = some i2 → (i2.status.listening = true ∨ i2.status = .stopping) →
      ∃ sc, Aborted k.1 sc s' := by
  rw [errHandler_eq] at h
  obtain ⟨sc, s3, h1, h⟩ := bind_ok h
  obtain ⟨_, s4, h2, h⟩ := bind_ok h
  obtain ⟨_, s5, h3, h⟩ := bind_ok h
  have e5 : s5 = s4 := by
    simp only [getIx, bind, EStateM.bind, get, getThe, MonadStateOf.get, EStateM.get, pure, EStateM.pure] at h3
    cases h3; rfl
  simp only [pure, EStateM.pure] at h
  cases h
  subst e5
  refine ⟨rfl, extPO.trans (ok_of_pres (Ext.errPrefix k c m b) h1) (ok_of_pres (Ext.abortFlow _ _ _ _) h2), ?_⟩
  intro i2 hi2 hl
  have e3 : s3.ixs = s2.ixs := ok_of_pres (IxSame.errPrefix k c m b) h1
  exact ⟨sc, abortFlow_aborts fuel k.1 sc s3 _ i2 (by rw [e3]; exact hi2) hl h2⟩

/-- **provenance of anything that leaves the `except` branch**: it was raised by `_abort_flow` itself (its own clean-up of
    children / actions / the parent link), or by the handler's look-up of the faulty flow's own record -/
theorem errHandler_error (fuel : Nat) (k : Key) (c m : String) (b : Bool) (s2 s' : VM) (e : VMErr)
    (h : errHandler fuel k c m b s2 = .error e s') :
    (∃ s3 sc, Ext s2 s3 ∧ s3.ixs = s2.ixs ∧ abortFlow fuel k.1 sc false s3 = .error e s') ∨
    errPrefix k c m b s2 = .error e s' := by
  rw [errHandler_eq] at h
  rcases bind_err h with h | ⟨sc, s3, h1, h⟩
  · exact Or.inr h
  · left
    rcases bind_err h with h | ⟨_, s4, h2, h⟩
    · exact ⟨s3, sc, ok_of_pres (Ext.errPrefix k c m b) h1, ok_of_pres (IxSame.errPrefix k c m b) h1, h⟩
    · exfalso
      rcases bind_err h with h | ⟨_, s5, h3, h⟩
      · simp [getIx, bind, EStateM.bind, get, getThe, MonadStateOf.get, EStateM.get, pure, EStateM.pure] at h
      · simp [pure, EStateM.pure] at h

end NemoVerif.CoreVM
