/-
  Soundness of the abstract interpreter of Models/DataflowIR.lean with respect to ALL runs.
-/
import NemoVerif.Models.DataflowIR

namespace NemoVerif.DataflowIR

/-- `t` over-approximates the variables that may carry the provenance class in `e` -/
def Abstracts (e : Env) (t : List Nat) : Prop := ∀ v, e v = true → v ∈ t

theorem subset_spec {a b : List Nat} (h : subset a b = true) : ∀ x ∈ a, x ∈ b := by
  intro x hx
  unfold subset at h
  rw [List.all_eq_true] at h
  have := h x hx
  simpa using this

theorem mem_uni_left {a b : List Nat} {x : Nat} (h : x ∈ a) : x ∈ uni a b := by
  unfold uni
  induction b generalizing a with
  | nil => simpa using h
  | cons y t ih =>
    simp only [List.foldl_cons]
    apply ih
    split
    · exact h
    · exact List.mem_cons_of_mem _ h

theorem mem_uni_right {a b : List Nat} {x : Nat} (h : x ∈ b) : x ∈ uni a b := by
  unfold uni
  induction b generalizing a with
  | nil => simp at h
  | cons y t ih =>
    simp only [List.foldl_cons]
    rw [List.mem_cons] at h
    rcases h with rfl | h
    · apply mem_uni_left (b := t)
      split
      · rename_i hc; simpa using hc
      · simp
    · exact ih h

theorem Abstracts.mono {e : Env} {t t' : List Nat} (h : Abstracts e t) (hs : ∀ x ∈ t, x ∈ t') : Abstracts e t' :=
  fun v hv => hs v (h v hv)

theorem carries_abs {o : Origin} {e : Env} {t : List Nat} (h : Abstracts e t) (srcs : List Nat) (consts : List Origin)
    (hc : carries o e srcs consts = true) : carriesA o t srcs consts = true := by
  unfold carries at hc
  unfold carriesA
  rw [Bool.or_eq_true] at hc ⊢
  rcases hc with hc | hc
  · exact Or.inl hc
  · right
    rw [List.any_eq_true] at hc ⊢
    obtain ⟨x, hx, hex⟩ := hc
    exact ⟨x, hx, by simpa using h x hex⟩

def SoundFor (o : Origin) (p : Prog) : Prop :=
  ∀ (e e' : Env) (l : List (Nat × Bool)) (t : List Nat), Run o p e e' l → Abstracts e t → (absI o p t).ok = true →
    Abstracts e' (absI o p t).tainted ∧ ∀ id, (id, true) ∈ l → (id, true) ∈ (absI o p t).sites

theorem loop_inv (o : Origin) (b : Prog) (hb : SoundFor o b) (s : List Nat)
    (hok : (absI o b s).ok = true) (hst : subset (absI o b s).tainted s = true) :
    ∀ (p : Prog) (e e' : Env) (l : List (Nat × Bool)), Run o p e e' l → p = .loop b → Abstracts e s →
      Abstracts e' s ∧ ∀ id, (id, true) ∈ l → (id, true) ∈ (absI o b s).sites := by
  intro p e e' l hrun
  induction hrun with
  | skip e => intro h; cases h
  | assign e v srcs consts => intro h; cases h
  | render e id srcs consts => intro h; cases h
  | seq _ _ _ _ => intro h; cases h
  | iteL _ _ => intro h; cases h
  | iteR _ _ => intro h; cases h
  | loopDone e => intro _ ha; exact ⟨ha, by simp⟩
  | loopStep hbody _ _ ih2 =>
    intro hp ha
    cases hp
    obtain ⟨h1, h1s⟩ := hb _ _ _ s hbody ha hok
    have ha1 := h1.mono (subset_spec hst)
    obtain ⟨h2, h2s⟩ := ih2 rfl ha1
    refine ⟨h2, ?_⟩
    intro id hid
    rw [List.mem_append] at hid
    rcases hid with hid | hid
    · exact h1s id hid
    · exact h2s id hid

theorem absI_sound (o : Origin) : ∀ p : Prog, SoundFor o p := by
  intro p
  induction p with
  | skip =>
    intro e e' l t hrun ha _
    cases hrun
    exact ⟨ha, by simp⟩
  | assign v srcs consts =>
    intro e e' l t hrun ha _
    cases hrun
    refine ⟨?_, by simp⟩
    intro x hx
    simp only [absI]
    by_cases hc : carries o e srcs consts = true
    · have hca := carries_abs ha srcs consts hc
      rw [if_pos hca]
      by_cases hxv : x = v
      · subst hxv; exact mem_uni_right (by simp)
      · have : e x = true := by simpa [Env.set, hxv] using hx
        exact mem_uni_left (ha x this)
    · have hcf : carries o e srcs consts = false := by simpa using hc
      by_cases hxv : x = v
      · subst hxv
        simp [Env.set, hcf] at hx
      · have hex : e x = true := by simpa [Env.set, hxv] using hx
        split
        · exact mem_uni_left (ha x hex)
        · simp [ha x hex, hxv]
  | render id srcs consts =>
    intro e e' l t hrun ha _
    cases hrun
    refine ⟨ha, ?_⟩
    intro id' hid
    simp only [List.mem_singleton, Prod.mk.injEq] at hid
    obtain ⟨rfl, hc⟩ := hid
    simp [absI, carries_abs ha srcs consts hc.symm]
  | seq a b iha ihb =>
    intro e e' l t hrun ha hok
    cases hrun with
    | seq hra hrb =>
      simp only [absI, Bool.and_eq_true] at hok ⊢
      obtain ⟨h1, h1s⟩ := iha _ _ _ t hra ha hok.1
      obtain ⟨h2, h2s⟩ := ihb _ _ _ _ hrb h1 hok.2
      refine ⟨h2, ?_⟩
      intro id hid
      rw [List.mem_append] at hid ⊢
      rcases hid with hid | hid
      · exact Or.inl (h1s id hid)
      · exact Or.inr (h2s id hid)
  | ite a b iha ihb =>
    intro e e' l t hrun ha hok
    simp only [absI, Bool.and_eq_true] at hok ⊢
    cases hrun with
    | iteL hr =>
      obtain ⟨h1, h1s⟩ := iha _ _ _ t hr ha hok.1
      exact ⟨h1.mono (fun x hx => mem_uni_left hx), fun id hid => List.mem_append_left _ (h1s id hid)⟩
    | iteR hr =>
      obtain ⟨h1, h1s⟩ := ihb _ _ _ t hr ha hok.2
      exact ⟨h1.mono (fun x hx => mem_uni_right hx), fun id hid => List.mem_append_right _ (h1s id hid)⟩
  | loop b ihb =>
    intro e e' l t hrun ha hok
    simp only [absI, Bool.and_eq_true] at hok ⊢
    have ha3 : Abstracts e (uni (uni (uni t (absI o b t).tainted) (absI o b (uni t (absI o b t).tainted)).tainted)
        (absI o b (uni (uni t (absI o b t).tainted) (absI o b (uni t (absI o b t).tainted)).tainted)).tainted) :=
      ha.mono (fun x hx => mem_uni_left (mem_uni_left (mem_uni_left hx)))
    exact loop_inv o b ihb _ hok.1 hok.2 _ _ _ _ hrun rfl ha3

/-- **Soundness of the generated-data check**: if `safe o p init` evaluates to true then on EVERY run of `p`
    (every branch choice, every loop count) that starts in an environment covered by `init`, no sink receives a
    template that may carry provenance class `o`. -/
theorem safe_sound (o : Origin) (p : Prog) (init : List Nat) (h : safe o p init = true)
    (e e' : Env) (l : List (Nat × Bool)) (hrun : Run o p e e' l) (hinit : Abstracts e init) :
    ∀ s ∈ l, s.2 = false := by
  unfold safe at h
  simp only [Bool.and_eq_true] at h
  obtain ⟨_, hs⟩ := absI_sound o p e e' l init hrun hinit h.1
  intro s hsl
  obtain ⟨id, b⟩ := s
  cases b with
  | false => rfl
  | true =>
    have hm := hs id hsl
    have := (List.all_eq_true.1 h.2) _ hm
    simp at this

end NemoVerif.DataflowIR
