/-
  C06, goal 4 (refinement `CoreVM → Lifetime`), second layer: the straight-line tail of `_abort_flow`.

  `CoreVM.abortFlow` is split — definitionally (`abortFlow_unfold : … := rfl`) — into the deactivation block
  `vmDeact`, the body `vmAbortBody` and the straight-line tail `vmAbortTail`, exactly like `Lifetime.abortFlow`
  (`deactivatePhase`, `abortBody`, `abortTail` of Lemmas/LifetimeGen.lean).
-/
import NemoVerif.Lemmas.LifetimeCoreVM
namespace NemoVerif.Lifetime.Refine
open NemoVerif NemoVerif.CoreVM NemoVerif.CoreIndex NemoVerif.Lifetime

/-- the part of `CoreVM.abortFlow` after the child loop -/
def vmAbortTail (f : FUid) (scores : List Score) (deactivate : Bool) : M Unit := do
    for au in (← getInstX f).actionUids do releaseAction au
    dropHeads f
    let x ← getInstX f
    if x.activated = 0 then
      match x.parentUid with
      | some p =>
        if (← getInstX? p).isSome then
          let px ← getInstX p
          if !px.childFlowUids.contains f then pyRaise "ValueError" "list.remove(x): x not in list"
          modInstX p fun y => { y with childFlowUids := listRemoveFirst f y.childFlowUids }
      | none => pure ()
    setFlowStatus f .stopped
    pushEvent (← failedEvent f scores)
    restartActivated f scores deactivate

/-- the part of `CoreVM.abortFlow` after the deactivation block -/
def vmAbortBody (rec : FUid → M Unit) (f : FUid) (scores : List Score) (deactivate : Bool) : M Unit := do
    let i ← getInst f
    if !i.status.listening && i.status ≠ .stopping then return
    if i.status = .starting && (← getInstX f).activated > 0 then
      modInstX f fun x => { x with newInstanceStarted := true }
    for c in (← getInstX f).childFlowUids do
      if (← getInstX? c).isSome then
        if !(← CoreVM.isChildActivated c) then rec c
    vmAbortTail f scores deactivate

/-- the deactivation block of `CoreVM.abortFlow` / `finishFlow`, continuing with `k` -/
def vmDeact (tail : String) (rec : FUid → M Unit) (f : FUid) (deactivate : Bool) (k : M Unit) : M Unit := do
    if (← deactivatesRef deactivate f) then
      modInstX f fun x => { x with activated := x.activated - 1 }
      let x ← getInstX f
      if x.activated = 0 then
        for c in x.childFlowUids do
          match ← getInstX? c with
          | none => pyRaise "KeyError" (toString c ++ toString tail)
          | some cx =>
            if cx.flowId = x.flowId then
              rec c
              modInstX c fun y => { y with activated := 0 }
      else return
    k

/-- `CoreVM.abortFlow` IS deactivation block ; body ; tail — definitionally -/
theorem abortFlow_unfold (n : Nat) (f : FUid) (sc : List Score) (d : Bool) :
    CoreVM.abortFlow (n + 1) f sc d =
      vmDeact " (model line 177)" (fun c => CoreVM.abortFlow n c sc true) f d (vmAbortBody (fun c => CoreVM.abortFlow n c sc true) f sc d) := rfl

/-! ### the `Lifetime` pieces do not read the queue / the outgoing events -/

/-- forget queue, outgoing events and the ghost field (`absVM` leaves them empty) -/
def cs (s : State) : State := { s with queue := [], out := [], busy := [] }

def csE : Except Err State → Except Err State
  | .ok s => .ok (cs s)
  | .error e => .error e

@[simp] theorem csE_ok (s) : csE (.ok s) = .ok (cs s) := rfl
@[simp] theorem csE_error (e) : csE (.error e) = .error e := rfl
@[simp] theorem cs_cs (s) : cs (cs s) = cs s := rfl
@[simp] theorem cs_flows (s) : (cs s).flows = s.flows := rfl
@[simp] theorem cs_actions (s) : (cs s).actions = s.actions := rfl
@[simp] theorem cs_order (s) : (cs s).order = s.order := rfl

theorem cs_absVM (ν φ : String → Nat) (vm : VM) : cs (absVM ν φ vm) = absVM ν φ vm := rfl

theorem cs_setFlow (s u f) : cs (setFlow s u f) = setFlow (cs s) u f := rfl
theorem cs_setAction (s a x) : cs (Lifetime.setAction s a x) = Lifetime.setAction (cs s) a x := rfl
theorem cs_push (s e) : cs (push s e) = cs s := rfl
theorem cs_pushLeft (s e) : cs (pushLeft s e) = cs s := rfl
theorem cs_emit (s o) : cs (emit s o) = cs s := rfl

theorem cs_modFlow (s u g) : cs (modFlow s u g) = modFlow (cs s) u g := by
  unfold modFlow
  simp only [cs_flows]
  split <;> rfl

theorem cs_updActs (e : AEv) : ∀ (l : List Nat) (s : State), cs (updActs e s l) = updActs e (cs s) l
  | [], s => rfl
  | a :: as, s => by
    simp only [updActs, cs_actions]
    split
    · split
      · exact cs_updActs e as (Lifetime.setAction s a _)
      · exact cs_updActs e as s
    · exact cs_updActs e as s

theorem cs_updFlows (e : AEv) : ∀ (l : List Nat) (s : State), cs (updFlows e s l) = updFlows e (cs s) l
  | [], s => rfl
  | u :: us, s => by
    simp only [updFlows, cs_flows]
    split
    · split
      · rw [cs_updFlows e us, cs_updActs]
      · exact cs_updFlows e us s
    · exact cs_updFlows e us s

theorem cs_generateUmim (s : State) (o : OEv) (e : AEv) : cs (generateUmim s o e) = Lifetime.updateActionStatusByEvent (cs s) e := by
  unfold generateUmim Lifetime.updateActionStatusByEvent
  rw [cs_updFlows]
  rfl

theorem cs_update (s : State) (e : AEv) : cs (Lifetime.updateActionStatusByEvent s e) = Lifetime.updateActionStatusByEvent (cs s) e := by
  unfold Lifetime.updateActionStatusByEvent
  rw [cs_updFlows]
  rfl

theorem cs_stopAction1 (s : State) (a : Nat) : csE (stopAction1 s a) = csE (stopAction1 (cs s) a) := by
  unfold stopAction1
  simp only [cs_actions]
  cases s.actions a with
  | none => rfl
  | some x =>
    simp only
    by_cases hr : x.status.running = true
    · simp only [hr, if_true]
      by_cases hz : (x.count - 1 == 0) = true
      · simp only [hz, if_true, csE_ok, cs_generateUmim, cs_setAction, cs_cs]
      · simp only [hz, Bool.false_eq_true, if_false, csE_ok, cs_setAction, cs_cs]
    · simp only [hr, Bool.false_eq_true, if_false, csE_ok, cs_cs]

theorem cs_stopActions : ∀ (l : List Nat) (s : State), csE (stopActions s l) = csE (stopActions (cs s) l)
  | [], s => rfl
  | a :: as, s => by
    simp only [stopActions]
    have h1 := cs_stopAction1 s a
    cases hs : stopAction1 s a with
    | error e =>
      rw [hs] at h1
      cases hs' : stopAction1 (cs s) a with
      | error e' => rw [hs'] at h1; simp only [csE_error] at h1 ⊢; exact h1
      | ok t' => rw [hs'] at h1; cases h1
    | ok t =>
      rw [hs] at h1
      cases hs' : stopAction1 (cs s) a with
      | error e' => rw [hs'] at h1; cases h1
      | ok t' =>
        rw [hs'] at h1
        simp only [csE_ok, Except.ok.injEq] at h1
        simp only
        rw [cs_stopActions as t, h1, ← cs_stopActions as t']

theorem cs_removeFromParent (s : State) (u : Nat) : removeFromParent (cs s) u = csE (removeFromParent s u) := by
  unfold removeFromParent
  simp only [cs_flows]
  split
  · rfl
  · split
    · split
      · rfl
      · split
        · rfl
        · split
          · rfl
          · rfl
    · rfl

theorem cs_restart (s : State) (u : Nat) (d : Bool) : csE (restart s u d) = csE (restart (cs s) u d) := by
  unfold restart
  simp only [cs_flows]
  split
  · rfl
  · split
    · split
      · rfl
      · simp only [csE_ok, cs_modFlow, cs_pushLeft, cs_cs]
    · rfl

/-- the part of `abortTail` after the stop-actions loop -/
def tailRest (s2 : State) (u : Nat) (d : Bool) : Except Err State :=
  match removeFromParent (modFlow s2 u fun f => { f with heads := 0 }) u with
  | .error e => .error e
  | .ok s4 => restart (push (modFlow s4 u fun f => { f with status := .stopped }) (.flowFailed u)) u d

theorem abortTail_eq (s : State) (u : Nat) (d : Bool) :
    abortTail s u d = match s.flows u with
      | none => .error .key
      | some f1 => match stopActions s f1.actionUids with
        | .error e => .error e
        | .ok s2 => tailRest s2 u d := by
  unfold abortTail tailRest; rfl

theorem cs_tailRest (s : State) (u : Nat) (d : Bool) : csE (tailRest s u d) = csE (tailRest (cs s) u d) := by
  unfold tailRest
  rw [← cs_modFlow, cs_removeFromParent]
  cases h : removeFromParent (modFlow s u fun f => { f with heads := 0 }) u with
  | error e => rfl
  | ok s4 =>
    simp only [csE_ok]
    rw [← cs_modFlow]
    have : push (cs (modFlow s4 u fun f => { f with status := .stopped })) (.flowFailed u) =
        push (cs (push (modFlow s4 u fun f => { f with status := .stopped }) (.flowFailed u))) (.flowFailed u) := rfl
    rw [cs_restart, cs_restart (push (cs _) _)]
    rfl

theorem cs_abortTail (s : State) (u : Nat) (d : Bool) : csE (abortTail s u d) = csE (abortTail (cs s) u d) := by
  rw [abortTail_eq, abortTail_eq]
  simp only [cs_flows]
  cases hf : s.flows u with
  | none => rfl
  | some f1 =>
    simp only
    have h1 := cs_stopActions f1.actionUids s
    cases h : stopActions s f1.actionUids with
    | error e =>
      rw [h] at h1
      cases h' : stopActions (cs s) f1.actionUids with
      | error e' => rw [h'] at h1; simp only [csE_error] at h1 ⊢; exact h1
      | ok t' => rw [h'] at h1; cases h1
    | ok s2 =>
      rw [h] at h1
      cases h' : stopActions (cs s) f1.actionUids with
      | error e' => rw [h'] at h1; cases h1
      | ok s2' =>
        rw [h'] at h1
        simp only [csE_ok, Except.ok.injEq] at h1
        simp only
        rw [cs_tailRest s2, h1, ← cs_tailRest s2']

/-! ### the pieces of the tail -/

variable (ν φ : String → Nat)

/-- "Remove flow uid from parents children list" -/
def vmUnlink (f : FUid) : M Unit := do
    let x ← getInstX f
    if x.activated = 0 then
      match x.parentUid with
      | some p =>
        if (← getInstX? p).isSome then
          let px ← getInstX p
          if !px.childFlowUids.contains f then pyRaise "ValueError" "list.remove(x): x not in list"
          modInstX p fun y => { y with childFlowUids := listRemoveFirst f y.childFlowUids }
      | none => pure ()

theorem vmAbortTail_eq (f : FUid) (sc : List Score) (d : Bool) :
    vmAbortTail f sc d = (do
      forIn (← getInstX f).actionUids PUnit.unit releaseStep
      dropHeads f
      vmUnlink f
      CoreVM.setFlowStatus f .stopped
      pushEvent (← failedEvent f sc)
      restartActivated f sc d) := by
  funext vm
  unfold vmAbortTail vmUnlink
  simp only [bind, EStateM.bind, pure]
  have hrs : releaseStep = fun au __s => EStateM.bind (releaseAction au) fun __r => EStateM.pure (ForInStep.yield PUnit.unit) := rfl
  rw [hrs]
  cases getInstX f vm with
  | error e s => rfl
  | ok a s =>
    simp only
    cases forIn a.actionUids PUnit.unit
        (fun au __s => EStateM.bind (releaseAction au) fun __r => EStateM.pure (ForInStep.yield PUnit.unit)) s with
    | error e s1 => rfl
    | ok u1 s1 =>
      simp only
      cases dropHeads f s1 with
      | error e s2 => rfl
      | ok u2 s2 =>
        simp only
        cases getInstX f s2 with
        | error e s3 => rfl
        | ok x s3 =>
          simp only
          by_cases h0 : x.activated = 0
          · simp only [h0, if_true]
            cases x.parentUid with
            | none => rfl
            | some p =>
              simp only [bind_getInstX?]
              cases OMap.lookup p s3.r.fx with
              | none => rfl
              | some px0 =>
                simp only [Option.isSome_some, if_true, EStateM.bind]
                cases getInstX p s3 with
                | error e s4 => rfl
                | ok px s4 =>
                  simp only
                  by_cases hc : (!px.childFlowUids.contains f) = true
                  · simp only [hc, if_true]; rfl
                  · simp only [hc, if_false]
                    rfl
          · simp only [h0, if_false]
            rfl

theorem absVM_vmMod (hν : Function.Injective ν) (vm : VM) (f : FUid) (g : InstX → InstX) (g' : Flow → Flow)
    (hg : ∀ (u : FUid) (x : InstX), absFlow ν φ vm u (g x) = g' (absFlow ν φ vm u x)) :
    absVM ν φ (vmMod vm f g) = modFlow (absVM ν φ vm) (ν f) g' := by
  obtain ⟨h1, h2, h3⟩ := modInstX_refines ν φ hν f g g' vm (fun u x => by rw [absFlow_vmMod]; exact hg u x)
    (fun u x => absFlow_vmMod ν φ vm f g u x)
  apply state_ext
  · exact h1
  · rw [h3]; simp
  · rw [h2]; simp
  · simp [absVM]
  · simp [absVM]
  · symm
    show (modFlow (absVM ν φ vm) (ν f) g').busy = _
    unfold modFlow; split <;> rfl

theorem mem_map_inj (hν : Function.Injective ν) (f : String) (l : List String) : ν f ∈ l.map ν ↔ f ∈ l := by
  constructor
  · intro h
    obtain ⟨y, hy, e⟩ := List.mem_map.1 h
    rw [← hν e]; exact hy
  · exact fun h => List.mem_map_of_mem h

/-- the unlink block IS `removeFromParent` on the abstract state (ValueError ↦ `.value`) -/
theorem vmUnlink_refines (hν : Function.Injective ν) (f : FUid) (vm : VM) (x : InstX)
    (hx : OMap.lookup f vm.r.fx = some x) (hpos : 0 ≤ x.activated) :
    (∃ msg, vmUnlink f vm = .error (.py "ValueError" msg) vm ∧ removeFromParent (absVM ν φ vm) (ν f) = .error .value) ∨
    ∃ vm', vmUnlink f vm = .ok () vm' ∧ removeFromParent (absVM ν φ vm) (ν f) = .ok (absVM ν φ vm') ∧
      vm'.ixs = vm.ixs ∧ vm'.r.actions = vm.r.actions ∧ vm'.r.fx.map (·.1) = vm.r.fx.map (·.1) := by
  unfold vmUnlink removeFromParent
  simp only [bind, EStateM.bind, getInstX_run_some f vm x hx]
  have hfl : (absVM ν φ vm).flows (ν f) = some (absFlow ν φ vm f x) := by rw [absVM_flows ν φ hν, hx]; rfl
  rw [hfl]
  simp only
  have hact : ((absFlow ν φ vm f x).activated == 0) = decide (x.activated = 0) := by
    simp only [absFlow]
    by_cases h0 : x.activated = 0
    · simp [h0]
    · have : x.activated.toNat ≠ 0 := by omega
      simp [h0, this]
  rw [hact]
  by_cases h0 : x.activated = 0
  · simp only [h0, decide_true, if_true]
    cases hp : x.parentUid with
    | none =>
      right
      refine ⟨vm, ?_, ?_, rfl, rfl, rfl⟩
      · simp only [hp]; rfl
      · simp only [absFlow, hp, Option.map_none]
    | some p =>
      have hpar : (absFlow ν φ vm f x).parent = some (ν p) := by simp [absFlow, hp]
      simp only [hp, hpar, bind_getInstX?]
      rw [absVM_flows ν φ hν]
      cases hpx : OMap.lookup p vm.r.fx with
      | none =>
        right
        exact ⟨vm, rfl, rfl, rfl, rfl, rfl⟩
      | some px =>
        simp only [Option.isSome_some, if_true, Option.map_some, getInstX_run_some p vm px hpx, EStateM.bind]
        have hmem : (ν f ∈ (absFlow ν φ vm p px).children) ↔ f ∈ px.childFlowUids := by
          simp only [absFlow]; exact mem_map_inj ν hν f _
        by_cases hc : f ∈ px.childFlowUids
        · right
          have hc' : px.childFlowUids.contains f = true := by simpa using hc
          simp only [hc', Bool.not_true, Bool.false_eq_true, if_false, (hmem.2 hc), if_true]
          refine ⟨vmMod vm p fun y => { y with childFlowUids := listRemoveFirst f y.childFlowUids }, rfl, ?_, rfl, rfl, ?_⟩
          · have := absVM_vmMod ν φ hν vm p (fun y => { y with childFlowUids := listRemoveFirst f y.childFlowUids })
              (fun pf => { pf with children := pf.children.erase (ν f) })
              (fun u y => by simp only [absFlow]; congr 1; exact listRemoveFirst_map ν hν f _)
            rw [this]
            have hpf : (absVM ν φ vm).flows (ν p) = some (absFlow ν φ vm p px) := by rw [absVM_flows ν φ hν, hpx]; rfl
            rw [modFlow_some _ _ _ _ hpf]
          · show (OMap.modify p _ vm.r.fx).map (·.1) = _
            induction vm.r.fx with
            | nil => rfl
            | cons e l ih =>
              simp only [OMap.modify]
              split <;> simp [ih]
        · left
          have hc' : px.childFlowUids.contains f = false := by simpa using hc
          have hnm : ¬ ν f ∈ (absFlow ν φ vm p px).children := fun h => hc (hmem.1 h)
          simp only [hc', Bool.not_false, if_true, hnm, if_false]
          exact ⟨_, rfl, trivial⟩
  · simp only [h0, decide_false, Bool.false_eq_true, if_false]
    right
    exact ⟨vm, rfl, rfl, rfl, rfl, rfl⟩

/-- reads only: every `.ok` run leaves the state unchanged -/
def ReadOnly {α : Type} (m : M α) : Prop := ∀ vm a vm', m vm = .ok a vm' → vm' = vm

theorem readOnly_getInstX (f : FUid) : ReadOnly (getInstX f) := by
  intro vm a vm' h
  cases hx : OMap.lookup f vm.r.fx with
  | none => rw [getInstX_run_none f vm hx] at h; cases h
  | some x => rw [getInstX_run_some f vm x hx] at h; cases h; rfl

theorem readOnly_bind {α β : Type} (m : M α) (k : α → M β) (hm : ReadOnly m) (hk : ∀ a, ReadOnly (k a)) : ReadOnly (m >>= k) := by
  intro vm b vm' h
  simp only [bind, EStateM.bind] at h
  cases hr : m vm with
  | error e s => rw [hr] at h; cases h
  | ok a s =>
    rw [hr] at h
    have := hm vm a s hr
    subst this
    exact hk a _ b vm' h

theorem readOnly_pure {α : Type} (a : α) : ReadOnly (pure a : M α) := by
  intro vm b vm' h; cases h; rfl

theorem readOnly_ctxHolder (f : FUid) : ReadOnly (ctxHolder f) := by
  unfold ctxHolder
  apply readOnly_bind _ _ (readOnly_getInstX f)
  intro x
  cases x.ctxOwner with
  | none => exact readOnly_pure f
  | some o =>
    simp only
    intro vm b vm' h
    simp only [bind, EStateM.bind] at h
    rw [getInstX?_run] at h
    simp only at h
    by_cases hs : (OMap.lookup o vm.r.fx).isSome = true
    · simp only [hs, if_true] at h; cases h; rfl
    · simp only [hs, if_false] at h; cases h

theorem readOnly_flowObjOf (f : FUid) : ReadOnly (flowObjOf f) := by
  unfold flowObjOf
  apply readOnly_bind _ _ (readOnly_getInstX f)
  intro x
  apply readOnly_bind
  · unfold getCtx
    apply readOnly_bind _ _ (readOnly_ctxHolder f)
    intro o
    apply readOnly_bind _ _ (readOnly_getInstX o)
    intro y
    exact readOnly_pure _
  · intro c
    exact readOnly_pure _

theorem readOnly_failedEvent (f : FUid) (sc : List Score) : ReadOnly (failedEvent f sc) := by
  unfold failedEvent
  apply readOnly_bind _ _ (readOnly_flowObjOf f)
  intro o
  exact readOnly_pure _

/-- the state after `freshUid` -/
def vmFresh (vm : VM) : VM := { vm with r := { vm.r with nextUid := vm.r.nextUid + 1 } }

theorem flowStartEvent_run (o : FlowObj) (args : List (String × Val)) (vm : VM) :
    ∃ e, flowStartEvent o args vm = .ok e (vmFresh vm) := by
  unfold flowStartEvent
  exact ⟨_, rfl⟩

/-- **"Restart the flow if it is an activated flow"**: `restartActivated` IS `Lifetime.restart` up to queue / outgoing events -/
theorem restartActivated_refines (hν : Function.Injective ν) (hφ : Function.Injective φ) (f : FUid) (sc : List Score) (d : Bool)
    (vm vm' : VM) (x : InstX) (hx : OMap.lookup f vm.r.fx = some x) (hpos : 0 ≤ x.activated)
    (h : restartActivated f sc d vm = .ok () vm') :
    ∃ t, restart (absVM ν φ vm) (ν f) d = .ok t ∧ absVM ν φ vm' = cs t ∧
      vm'.ixs = vm.ixs ∧ vm'.r.actions = vm.r.actions ∧ vm'.r.fx.map (·.1) = vm.r.fx.map (·.1) := by
  have hfl : (absVM ν φ vm).flows (ν f) = some (absFlow ν φ vm f x) := by rw [absVM_flows ν φ hν, hx]; rfl
  unfold restartActivated at h
  simp only [bind, EStateM.bind, getInstX_run_some f vm x hx] at h
  unfold restart
  rw [hfl]
  simp only
  have hcond : (!d && decide ((absFlow ν φ vm f x).activated > 0) && !(absFlow ν φ vm f x).nis) =
      (!d && decide (x.activated > 0) && !x.newInstanceStarted) := by
    simp only [absFlow]
    congr 2
    by_cases h0 : x.activated > 0
    · have : x.activated.toNat > 0 := by omega
      simp [h0, this]
    · have : ¬ x.activated.toNat > 0 := by omega
      simp [h0, this]
  rw [hcond]
  by_cases hc : (!d && decide (x.activated > 0) && !x.newInstanceStarted) = true
  · simp only [hc, if_true] at h ⊢
    simp only [EStateM.bind] at h
    cases hfo : flowObjOf f vm with
    | error e s => rw [hfo] at h; cases h
    | ok o s =>
      have := readOnly_flowObjOf f vm o s hfo
      subst this
      rw [hfo] at h
      simp only at h
      obtain ⟨e, he⟩ := flowStartEvent_run o [] s
      rw [he] at h
      simp only at h
      cases hp : x.parentUid with
      | none =>
        simp only [hp] at h
        have hpar : (absFlow ν φ s f x).parent = none := by simp [absFlow, hp]
        simp only [hpar]
        -- pushLeft, then `new_instance_started := True`
        cases h
        refine ⟨_, rfl, ?_, rfl, rfl, ?_⟩
        · rw [cs_modFlow, cs_pushLeft, cs_absVM]
          exact absVM_vmMod ν φ hν _ f (fun x => { x with newInstanceStarted := true }) (fun fl => { fl with nis := true }) (fun _ _ => rfl)
        · show (OMap.modify f _ s.r.fx).map (·.1) = _
          induction s.r.fx with
          | nil => rfl
          | cons e' l ih =>
            simp only [OMap.modify]
            split <;> simp [ih]
      | some p =>
        simp only [hp] at h
        have hpar : (absFlow ν φ s f x).parent = some (ν p) := by simp [absFlow, hp]
        simp only [hpar]
        rw [absVM_flows ν φ hν]
        rw [bind_getInstX?] at h
        have hfr : (vmFresh s).r.fx = s.r.fx := rfl
        rw [hfr] at h
        cases hpx : OMap.lookup p s.r.fx with
        | none => rw [hpx] at h; cases h
        | some px =>
          rw [hpx] at h
          simp only [Option.map_some] at h ⊢
          cases h
          refine ⟨_, rfl, ?_, rfl, rfl, ?_⟩
          · rw [cs_modFlow, cs_pushLeft, cs_absVM]
            exact absVM_vmMod ν φ hν _ f (fun x => { x with newInstanceStarted := true }) (fun fl => { fl with nis := true }) (fun _ _ => rfl)
          · show (OMap.modify f _ s.r.fx).map (·.1) = _
            induction s.r.fx with
            | nil => rfl
            | cons e' l ih =>
              simp only [OMap.modify]
              split <;> simp [ih]
  · simp only [hc, Bool.false_eq_true, if_false] at h ⊢
    cases h
    exact ⟨_, rfl, rfl, rfl, rfl, rfl⟩

/-! ### full-state forms of the index refinements -/

theorem absVM_congr (vm vm' : VM)
    (ha : vm'.r.actions = vm.r.actions) (hk : vm'.r.fx.map (·.1) = vm.r.fx.map (·.1)) :
    (absVM ν φ vm').actions = (absVM ν φ vm).actions ∧ (absVM ν φ vm').order = (absVM ν φ vm).order := by
  refine ⟨?_, ?_⟩
  · simp only [absVM, ha]
  · simp only [absVM]
    have := congrArg (List.map ν) hk
    rw [List.map_map, List.map_map] at this
    exact this

theorem dropHeads_abs (hν : Function.Injective ν) (f : FUid) (vm : VM) :
    ∃ vm', CoreVM.dropHeads f vm = .ok () vm' ∧ vm'.r.fx = vm.r.fx ∧ vm'.r.actions = vm.r.actions ∧
      (∀ k, findInst vm'.ixs.ix k = (findInst vm.ixs.ix k).map fun i => if i.uid = f then { i with heads := [] } else i) ∧
      absVM ν φ vm' = modFlow (absVM ν φ vm) (ν f) fun fl => { fl with heads := 0 } := by
  have hg : (Op.dropHeads f).guard vm.ixs.ix = true := rfl
  obtain ⟨vm', hrun, hfx, hact, hfl⟩ := dropHeads_refines ν φ hν f vm
  refine ⟨vm', hrun, hfx, hact, ?_, ?_⟩
  · intro k
    -- the run is deterministic: recompute the index of the result
    have hrun' : CoreVM.dropHeads f vm = .ok () { ({ vm with ixs := vm.ixs.apply (.dropHeads f) hg } : VM) with
      r := { vm.r with hx := vm.r.hx.filter (fun e => e.1.1 ≠ f),
                       cleared := vm.r.cleared ++ (match findInst vm.ixs.ix f with
                         | some i => i.heads.map fun hd => (f, hd.uid)
                         | none => []) } } := by
      unfold CoreVM.dropHeads
      simp only [bind, EStateM.bind]
      have : getIx vm = .ok vm.ixs.ix vm := rfl
      rw [this]
      simp only [applyOp_run _ vm hg]
      rfl
    rw [hrun] at hrun'
    cases hrun'
    exact findInst_dropHeads _ f k
  · apply state_ext
    · exact hfl
    · have : (absVM ν φ vm').actions = (absVM ν φ vm).actions := by simp only [absVM, hact]
      rw [this]; unfold modFlow; split <;> rfl
    · have : (absVM ν φ vm').order = (absVM ν φ vm).order := by simp only [absVM, hfx]
      rw [this]; unfold modFlow; split <;> rfl
    · symm; unfold modFlow; split <;> rfl
    · symm; unfold modFlow; split <;> rfl
    · symm; unfold modFlow; split <;> rfl

theorem setFlowStatus_guardFailed (f : FUid) (st : FlowStatus) (vm : VM) (hg : ¬ (Op.setFlowStatus f st).guard vm.ixs.ix = true) :
    ∃ e s, CoreVM.setFlowStatus f st vm = .error e s := by
  unfold CoreVM.setFlowStatus CoreVM.applyOp
  simp only [bind, EStateM.bind, hg, dite_false]
  exact ⟨_, _, rfl⟩

theorem setFlowStatus_abs (hν : Function.Injective ν) (f : FUid) (st : FlowStatus) (vm vm' : VM)
    (hfi : ∃ i, findInst vm.ixs.ix f = some i) (h : CoreVM.setFlowStatus f st vm = .ok () vm') :
    vm'.r.fx.map (·.1) = vm.r.fx.map (·.1) ∧ vm'.r.actions = vm.r.actions ∧
      (∀ k x', OMap.lookup k vm'.r.fx = some x' → ∃ x, OMap.lookup k vm.r.fx = some x ∧ x'.activated = x.activated) ∧
      absVM ν φ vm' = modFlow (absVM ν φ vm) (ν f) fun fl => { fl with status := absStatus st } := by
  by_cases hg : (Op.setFlowStatus f st).guard vm.ixs.ix = true
  · obtain ⟨vm2, hrun, hk, hact, hfl⟩ := setFlowStatus_refines ν φ hν f st vm hg hfi
    rw [hrun] at h
    cases h
    refine ⟨hk, hact, ?_, ?_⟩
    · intro k x' hx'
      -- the run only touches `statusUpdated` of `f`
      have hrun' : CoreVM.setFlowStatus f st vm = .ok () (vmMod { vm with ixs := vm.ixs.apply (.setFlowStatus f st) hg } f
          (fun x => { x with statusUpdated := vm.r.clock })) := by
        unfold CoreVM.setFlowStatus
        simp only [bind, EStateM.bind, applyOp_run _ vm hg]
        rfl
      rw [hrun] at hrun'
      cases hrun'
      have hl := lookup_modify f k (fun x : InstX => { x with statusUpdated := vm.r.clock }) vm.r.fx
      have hx'' : OMap.lookup k (OMap.modify f (fun x : InstX => { x with statusUpdated := vm.r.clock }) vm.r.fx) = some x' := hx'
      rw [hl] at hx''
      by_cases hkf : k = f
      · simp only [hkf, if_true] at hx''
        cases hx0 : OMap.lookup f vm.r.fx with
        | none => rw [hx0] at hx''; cases hx''
        | some x0 => rw [hx0] at hx''; cases hx''; exact ⟨x0, by rw [hkf]; exact hx0, rfl⟩
      · simp only [hkf, if_false] at hx''
        exact ⟨x', hx'', rfl⟩
    · obtain ⟨ha, ho⟩ := absVM_congr ν φ vm _ hact hk
      apply state_ext
      · exact hfl
      · rw [ha]; unfold modFlow; split <;> rfl
      · rw [ho]; unfold modFlow; split <;> rfl
      · symm; unfold modFlow; split <;> rfl
      · symm; unfold modFlow; split <;> rfl
      · symm; unfold modFlow; split <;> rfl
  · obtain ⟨e, s, he⟩ := setFlowStatus_guardFailed f st vm hg
    rw [he] at h; cases h

/-- reference counts are never negative -/
def WFN (vm : VM) : Prop := ∀ k x, OMap.lookup k vm.r.fx = some x → 0 ≤ x.activated

theorem mem_keys_of_lookup {α : Type} (k : String) : ∀ (l : List (String × α)) (x : α), OMap.lookup k l = some x → k ∈ l.map (·.1)
  | [], x, h => by simp [OMap.lookup] at h
  | e :: l, x, h => by
    simp only [OMap.lookup] at h
    by_cases hk : e.1 = k
    · simp [hk]
    · simp only [hk, if_false] at h
      simp only [List.map_cons, List.mem_cons]
      exact Or.inr (mem_keys_of_lookup k l x h)

theorem wfi_findInst (vm : VM) (hi : WFI vm) (f : FUid) (x : InstX) (hx : OMap.lookup f vm.r.fx = some x) :
    ∃ i, findInst vm.ixs.ix f = some i := by
  have hmem : f ∈ vm.r.fx.map (·.1) := mem_keys_of_lookup f vm.r.fx x hx
  rw [← hi.1] at hmem
  obtain ⟨i, him, hiu⟩ := List.mem_map.1 hmem
  have := find?_of_nodup vm.ixs.ix.insts hi.2 i him
  rw [hiu] at this
  exact ⟨i, this⟩

theorem csE_ok_inv {r : Except Err State} {t' : State} (h : csE r = .ok t') : ∃ t, r = .ok t ∧ cs t = t' := by
  cases r with
  | error e => cases h
  | ok t => simp only [csE_ok, Except.ok.injEq] at h; exact ⟨t, rfl, h⟩

/-- **`corevm_abortTail_is_op`**: the straight-line tail of `CoreVM.abortFlow` (stop-actions loop, `heads.clear()`,
    unlink from the parent, STOPPED mark, FlowFailed, restart) IS `Lifetime.abortTail` on the abstract state, up to
    queue / outgoing events — for every well-formed VM state and every normally terminating run. -/
theorem corevm_abortTail_is_op (hν : Function.Injective ν) (hφ : Function.Injective φ) (f : FUid) (sc : List Score) (d : Bool)
    (vm vm' : VM) (hw : WFA vm) (hi : WFI vm) (hg : WFG vm) (hn : WFN vm)
    (h : vmAbortTail f sc d vm = .ok () vm') :
    ∃ t, abortTail (absVM ν φ vm) (ν f) d = .ok t ∧ absVM ν φ vm' = cs t := by
  rw [vmAbortTail_eq] at h
  simp only [bind, EStateM.bind] at h
  -- the record of `f`
  cases hx : OMap.lookup f vm.r.fx with
  | none => rw [getInstX_run_none f vm hx] at h; cases h
  | some x =>
  rw [getInstX_run_some f vm x hx] at h
  simp only at h
  -- 1. the stop-actions loop
  cases hloop : forIn x.actionUids PUnit.unit releaseStep vm with
  | error e s => rw [hloop] at h; cases h
  | ok u1 vm1 =>
  rw [hloop] at h
  simp only at h
  obtain ⟨t1, hs1, habs1, hw1, hix1, hfx1, hnm1⟩ := release_loop ν φ hν x.actionUids vm vm1 hw hi hg hloop
  have habs1' : absVM ν φ vm1 = cs t1 := by
    have := congrArg cs habs1
    rw [cs_absVM] at this
    exact this
  -- 2. heads.clear()
  obtain ⟨vm2, hrun2, hfx2, hact2, hfi2, habs2⟩ := dropHeads_abs ν φ hν f vm1
  rw [hrun2] at h
  simp only at h
  have hx2 : OMap.lookup f vm2.r.fx = some x := by rw [hfx2, hfx1]; exact hx
  -- 3. unlink from the parent
  rcases vmUnlink_refines ν φ hν f vm2 x hx2 (hn f x hx) with ⟨msg, herr, _⟩ | ⟨vm3, hrun3, hrm3, hix3, hact3, hk3⟩
  · rw [herr] at h; cases h
  rw [hrun3] at h
  simp only at h
  -- 4. the STOPPED mark
  cases hst : CoreVM.setFlowStatus f FlowStatus.stopped vm3 with
  | error e s => rw [hst] at h; cases h
  | ok u4 vm4 =>
  rw [hst] at h
  simp only at h
  have hfi3 : ∃ i, findInst vm3.ixs.ix f = some i := by
    rw [hix3, hfi2]
    obtain ⟨i, hi1⟩ := wfi_findInst vm1 (by unfold WFI; rw [hix1, hfx1]; exact hi) f x (by rw [hfx1]; exact hx)
    rw [hi1]; exact ⟨_, rfl⟩
  obtain ⟨hk4, hact4, hn4, habs4⟩ := setFlowStatus_abs ν φ hν f .stopped vm3 vm4 hfi3 hst
  -- 5. FlowFailed
  cases hfe : failedEvent f sc vm4 with
  | error e s => rw [hfe] at h; cases h
  | ok ev s =>
  have := readOnly_failedEvent f sc vm4 ev s hfe
  subst this
  rw [hfe] at h
  simp only at h
  have hpe : pushEvent { ev := ev.ev, scores := ev.scores } s = .ok () { s with r := { s.r with queue := s.r.queue ++ [ev] } } := rfl
  -- 6. restart
  obtain ⟨vm5, hvm5⟩ : ∃ vm5 : VM, vm5 = { s with r := { s.r with queue := s.r.queue ++ [ev] } } := ⟨_, rfl⟩
  have h' : restartActivated f sc d vm5 = .ok () vm' := by
    rw [hvm5]; exact h
  -- the record of `f` in the last state
  have hx5 : ∃ x5, OMap.lookup f vm5.r.fx = some x5 ∧ 0 ≤ x5.activated := by
    have hmem3 : ∃ x3, OMap.lookup f vm3.r.fx = some x3 ∧ 0 ≤ x3.activated := by
      -- vm3 differs from vm2 by the children list of the parent only
      unfold vmUnlink at hrun3
      simp only [bind, EStateM.bind, getInstX_run_some f vm2 x hx2] at hrun3
      by_cases h0 : x.activated = 0
      · simp only [h0, if_true] at hrun3
        cases hp : x.parentUid with
        | none => simp only [hp] at hrun3; cases hrun3; exact ⟨x, hx2, hn f x hx⟩
        | some p =>
          simp only [hp, bind_getInstX?] at hrun3
          cases hpx : OMap.lookup p vm2.r.fx with
          | none => simp only [hpx, Option.isSome_none, Bool.false_eq_true, if_false] at hrun3; cases hrun3; exact ⟨x, hx2, hn f x hx⟩
          | some px =>
            simp only [hpx, Option.isSome_some, if_true, EStateM.bind, getInstX_run_some p vm2 px hpx] at hrun3
            by_cases hc : (!px.childFlowUids.contains f) = true
            · simp only [hc, if_true] at hrun3; cases hrun3
            · simp only [hc, if_false] at hrun3
              cases hrun3
              have hl := lookup_modify p f (fun y : InstX => { y with childFlowUids := listRemoveFirst f y.childFlowUids }) vm2.r.fx
              by_cases hfp : f = p
              · simp only [hfp, if_true] at hl
                refine ⟨{ x with childFlowUids := listRemoveFirst f x.childFlowUids }, ?_, hn f x hx⟩
                show OMap.lookup f (OMap.modify p _ vm2.r.fx) = _
                rw [hfp] at hx2 ⊢
                rw [hl, hx2]; rfl
              · simp only [hfp, if_false] at hl
                exact ⟨x, by show OMap.lookup f (OMap.modify p _ vm2.r.fx) = _; rw [hl]; exact hx2, hn f x hx⟩
      · simp only [h0, if_false] at hrun3; cases hrun3; exact ⟨x, hx2, hn f x hx⟩
    obtain ⟨x3, hx3, hp3⟩ := hmem3
    -- setFlowStatus keeps the key and the count
    have hmem4 : ∃ x4, OMap.lookup f s.r.fx = some x4 := by
      have hk : f ∈ s.r.fx.map (·.1) := by
        rw [hk4]; exact mem_keys_of_lookup f vm3.r.fx x3 hx3
      exact lookup_isSome_of_mem f s.r.fx hk
    obtain ⟨x4, hx4⟩ := hmem4
    obtain ⟨x3', hx3', e34⟩ := hn4 f x4 hx4
    rw [hx3] at hx3'; cases hx3'
    exact ⟨x4, by rw [hvm5]; exact hx4, by rw [e34]; exact hp3⟩
  obtain ⟨x5, hx5, hp5⟩ := hx5
  obtain ⟨t6, hr6, habs6, _, _, _⟩ := restartActivated_refines ν φ hν hφ f sc d vm5 vm' x5 hx5 hp5 h'
  -- the Lifetime side
  have hfl : (absVM ν φ vm).flows (ν f) = some (absFlow ν φ vm f x) := by rw [absVM_flows ν φ hν, hx]; rfl
  have hrest : csE (tailRest (absVM ν φ vm1) (ν f) d) = .ok (cs t6) := by
    have habs4' : absVM ν φ s = modFlow (absVM ν φ vm3) (ν f) fun fl => { fl with status := .stopped } := habs4
    unfold tailRest
    rw [← habs2, hrm3]
    simp only
    rw [← habs4']
    have h5 : absVM ν φ vm5 = absVM ν φ s := by rw [hvm5]; rfl
    rw [cs_restart, cs_push, cs_absVM, ← h5, hr6]
    rfl
  rw [habs1', ← cs_tailRest] at hrest
  obtain ⟨t, ht, hct⟩ := csE_ok_inv hrest
  refine ⟨t, ?_, by rw [habs6, hct]⟩
  rw [abortTail_eq, hfl]
  simp only
  have hau : (absFlow ν φ vm f x).actionUids = x.actionUids.map ν := rfl
  rw [hau, hs1]
  exact ht

end NemoVerif.Lifetime.Refine
