/-
  C16 phase 4 — the whole turn: the rounds of `generate_events` outside the loops (glue between the transitions of
  Lemmas/RailsTurnPhases.lean and the loop theorems), and `pipeline_refines_interp`.
-/
import NemoVerif.Lemmas.RailsTurnOut
namespace NemoVerif.RailsInterp
open NemoVerif.V1Interp
set_option linter.unusedSimpArgs false
set_option linter.unusedVariables false

/-! ### a `create event …` round -/

def ceObs (ty : String) (ps : List (String × V)) : List Obs :=
  if ty = "StartUtteranceBotAction" then [Obs.utter (strOf ((ps.lookup "script").getD .none))] else []

theorem roundEvents_ce (s : Setup) (st : State) (params : String) (uid prio : Nat) (ty : String) (ps : List (String × V))
    (hnext : st.next = some ⟨Elem.runAction "create_event" none params none, uid, prio⟩)
    (hce : createdEvent params (roundCtx st) = some (.other ty ps)) :
    roundEvents s st = some (roundPre st ++ [.startAction, .actionFinished "create_event" true, .other ty ps], ceObs ty ps) := by
  simp only [roundEvents, stepDecision, hnext, Option.bind, stepToEvent]
  have hact : actionEvents s (roundCtx st) "create_event" params none =
      some ([Event.actionFinished "create_event" true, .other ty ps], ceObs ty ps) := by
    unfold actionEvents
    simp only [beq_self_eq_true, if_true, createEventAction_eq, hce, ceObs]
    by_cases h : ty = "StartUtteranceBotAction"
    · subst h; simp
    · simp only [h, if_false]
      congr 2
      split
      · rename_i heq; cases heq; exact absurd rfl h
      · rfl
  simp [hact]

theorem noHide_pre (st : State) (es : List Event) (h : noHideB es = true) : NoHide (roundPre st ++ es) := by
  apply NoHide.append
  · unfold roundPre; split
    · intro e he; cases he
    · intro e he; simp at he; subst he; simp
  · exact noHide_of_B es h

/-- one `create event …` round as a `RunsTo` -/
theorem RunsTo.ce {s : Setup} {cfgs : Cfgs} (st st' : State) (params : String) (uid prio : Nat) (ty : String) (ps : List (String × V))
    (hnext : st.next = some ⟨Elem.runAction "create_event" none params none, uid, prio⟩)
    (hce : createdEvent params (roundCtx st) = some (.other ty ps))
    (hr : replay true cfgs (roundPre st ++ [.startAction, .actionFinished "create_event" true, .other ty ps]) st = .ok st') :
    RunsTo s cfgs st (ceObs ty ps) st' := by
  refine RunsTo.one st st' _ _ (roundEvents_ce s st params uid prio ty ps hnext hce)
    (decisions_ne_of_act st _ _ _ _ _ hnext rfl (by simp)) (noHide_pre st _ rfl) ?_ (by simp) hr
  rw [isStop_append _ _ (by simp)]
  simp [isStop]


theorem replay_pre (cfgs : Cfgs) (st : State) (es : List Event) :
    ∃ nx u', replay true cfgs (roundPre st ++ es) st
      = replay true cfgs es { ctx := roundCtx st, flows := st.flows, next := nx, upd := u', ctr := st.ctr } := by
  unfold roundPre roundCtx
  by_cases h : st.upd.isEmpty = true
  · exact ⟨st.next, st.upd, by simp [h]⟩
  · refine ⟨none, [], ?_⟩
    simp only [h, Bool.false_eq_true, if_false, List.cons_append, List.nil_append]
    rw [replay_cons_ok _ _ _ _ _ (cns_ctx _ _ _) (by simp)]

theorem replay_two (cfgs : Cfgs) (st st1 st2 : State) (e1 e2 : Event) (h1 : computeNextState true cfgs st e1 = .ok st1)
    (h2 : computeNextState true cfgs st1 e2 = .ok st2) (n1 : e1 ≠ .botIntent "stop") (n2 : e2 ≠ .botIntent "stop") :
    replay true cfgs [.startAction, e1, e2] st = .ok st2 := by
  rw [replay_cons_ok _ _ _ _ _ (cns_start _ _) (by simp), replay_cons_ok _ _ _ _ _ h1 n1, replay_cons_ok _ _ _ _ _ h2 n2]
  rfl

/-- the state in which a single top-level flow waits with a `create event` decision -/
def oneFlow (σ : Ctx) (fid : String) (u0 : Nat) (h : Int) (el : Elem) (prio : Nat) (u : Ctx) (c : Nat) : State :=
  { ctx := σ, flows := [{ uid := u0, flowId := fid, head := h }], next := some ⟨el, u0, prio⟩, upd := u, ctr := c }

theorem roundCtx_keep (ks : List String) (st : State) (hk : ∀ k ∈ ks, ∀ kv ∈ st.upd, kv.1 ≠ k) : Keep ks st.ctx (roundCtx st) := by
  unfold roundCtx
  split
  · exact Keep.refl _ _
  · intro k hkk
    have : ∀ (u : Ctx) (σ : Ctx), (∀ kv ∈ u, kv.1 ≠ k) → (σ.update u).get k = σ.get k := by
      intro u
      induction u with
      | nil => intro σ _; rfl
      | cons kv rest ih =>
        intro σ h
        show ((σ.set kv.1 kv.2).update rest).get k = σ.get k
        rw [ih _ (fun x hx => h x (List.mem_cons_of_mem _ hx)), get_set, if_neg (Ne.symm (h kv (List.mem_cons_self ..)))]
    exact this _ _ (hk k hkk)

/-- **entry into the input loop**: `create event StartInputRails`, then `run input rails` is called and stands at the loop head -/
theorem R_startRails (s : Setup) (σ u : Ctx) (u0 c : Nat) (h0c : u0 < c) (n0 : String) (ns : List String) (um al : V)
    (hcfg : σ.get "config.rails.input.flows" = .strs (n0 :: ns)) (hu : ∀ k ∈ "config.rails.input.flows" :: "allowed" :: K10, ∀ kv ∈ u, kv.1 ≠ k)
    (hum : (roundCtx (oneFlow σ "process user input" u0 4 createStartRails 10000 u c)).get "user_message" = um) (hal : σ.get "allowed" = al) :
    ∃ σ' u', u'.isEmpty = false ∧
      RunsTo s (base ++ s.rails) (oneFlow σ "process user input" u0 4 createStartRails 10000 u c) [] (headState σ' u' (c + 1) u0 c) ∧
      Facts (σ'.update u') 0 (n0 :: ns) um al ∧ Keep K10 σ (σ'.update u') := by
  let st := oneFlow σ "process user input" u0 4 createStartRails 10000 u c
  have hK : Keep ("config.rails.input.flows" :: "allowed" :: K10) σ (roundCtx st) := roundCtx_keep _ st hu
  let σ2 := (roundCtx st).withEvent (.actionFinished "create_event" true)
  have hcfg2 : σ2.get "config.rails.input.flows" = .strs (n0 :: ns) := by
    show ((roundCtx st).withEvent _).get _ = _
    rw [get_withEvent_plain _ _ _ (by plain_tac), hK _ (List.mem_cons_self ..)]; exact hcfg
  obtain ⟨nx, u', hpre⟩ := replay_pre (base ++ s.rails) st [.startAction, .actionFinished "create_event" true, .other "StartInputRails" []]
  refine ⟨(((σ2.withEvent (.other "StartInputRails" [])).set "i" (.int 0)).set "input_flows" (.strs (n0 :: ns))).set "triggered_input_rail" (.str n0),
    [("triggered_input_rail", .str n0), ("input_flows", .strs (n0 :: ns)), ("i", .int 0)], rfl, ?_, ?_, ?_⟩
  · have := RunsTo.ce (s := s) (cfgs := base ++ s.rails) st _ _ u0 10000 "StartInputRails" [] rfl (by simp [createdEvent]) (by
      rw [hpre]
      exact replay_two _ _ _ _ _ _ (T_pui4 s.rails s.rails_sub _ _ _ _ _) (T_startRails s.rails s.rails_sub σ2 _ c u0 h0c _ n0 ns hcfg2) (by simp) (by simp))
    simpa [ceObs] using this
  · refine ⟨?_, ?_, ?_, ?_⟩ <;> simp only [Ctx.update, List.foldl] <;> ctx_norm
    · rfl
    · exact hum
    · rw [hK _ (by simp)]; exact hal
  · apply forall_K10
    simp only [Ctx.update, List.foldl]
    refine ⟨?_, ?_, ?_, ?_, ?_, ?_, ?_, ?_, ?_, ?_⟩ <;> ctx_norm <;> exact hK _ (by simp [K10, K8])



def KU : List String := "user_message" :: K10

theorem forall_KU (p : String → Prop) (h0 : p "user_message") (h : ∀ k ∈ K10, p k) : ∀ k ∈ KU, p k := by
  intro k hk
  rcases List.mem_cons.mp hk with rfl | hk
  · exact h0
  · exact h k hk

macro "keysU_tac" : tactic => `(tactic| (apply forall_KU; plain_tac; keys_tac))

/-- **exit from the input loop**: `create event InputRailsFinished`; `process user input` then asks for `create event UserMessage` -/
theorem R_exit (s : Setup) (σ : Ctx) (c u0 u1 : Nat) :
    ∃ σ', RunsTo s (base ++ s.rails) (exitState σ c u0 u1) [] (oneFlow σ' "process user input" u0 9 createUserMessage 10000 [] c) ∧ Keep KU σ σ' := by
  let st := exitState σ c u0 u1
  have hK : Keep KU σ (roundCtx st) := roundCtx_keep _ st (by
    intro k hk kv hkv
    simp only [st, exitState, List.mem_singleton] at hkv
    subst hkv
    intro e; subst e
    revert hk; decide)
  obtain ⟨nx, u', hpre⟩ := replay_pre (base ++ s.rails) st [.startAction, .actionFinished "create_event" true, .other "InputRailsFinished" []]
  refine ⟨((roundCtx st).withEvent (.actionFinished "create_event" true)).withEvent (.other "InputRailsFinished" []), ?_, ?_⟩
  · have := RunsTo.ce (s := s) (cfgs := base ++ s.rails) st _ _ u0 10000 "InputRailsFinished" [] rfl (by simp [createdEvent]) (by
      rw [hpre]
      exact replay_two _ _ _ _ _ _ (T_exit_a s.rails s.rails_sub _ _ _ _ _ _ _) (T_exit_b s.rails s.rails_sub _ _ c u0 _) (by simp) (by simp))
    simp [ceObs] at this
    exact this
  · exact (hK.withEvent _ (by keysU_tac)).withEvent _ (by keysU_tac)


/-- **`create event UserMessage`**: `process user input` completes, `run dialog rails` starts and takes the branch its two option
    guards select -/
theorem R_um (s : Setup) (σ u : Ctx) (u0 c : Nat) (a b d : Bool)
    (hu : ∀ k ∈ K10, ∀ kv ∈ u, kv.1 ≠ k)
    (h1 : (σ.get "generation_options").truthy = a) (h2 : (σ.get "generation_options.rails.dialog").pyEq (.bool false) = b)
    (h3 : (σ.get "generation_options.rails.output").pyEq (.bool false) = d) :
    ∃ σ', RunsTo s (base ++ s.rails) (oneFlow σ "process user input" u0 9 createUserMessage 10000 u c) [] (rdrState σ' c (dlgBranch a b d)) ∧
      Keep K10 σ σ' ∧ σ'.get "user_message" = (roundCtx (oneFlow σ "process user input" u0 9 createUserMessage 10000 u c)).get "user_message" := by
  let st := oneFlow σ "process user input" u0 9 createUserMessage 10000 u c
  have hK : Keep K10 σ (roundCtx st) := roundCtx_keep _ st hu
  let σ1 := (roundCtx st).withEvent (.actionFinished "create_event" true)
  have hK1 : Keep K10 σ σ1 := hK.withEvent _ (by keys_tac)
  obtain ⟨nx, u', hpre⟩ := replay_pre (base ++ s.rails) st
    [.startAction, .actionFinished "create_event" true, .other "UserMessage" [("text", (roundCtx st).get "user_message")]]
  refine ⟨σ1.withEvent (.other "UserMessage" [("text", (roundCtx st).get "user_message")]), ?_, hK1.withEvent _ (by keys_tac), ?_⟩
  · have := RunsTo.ce (s := s) (cfgs := base ++ s.rails) st _ _ u0 10000 "UserMessage" [("text", (roundCtx st).get "user_message")] rfl
      (by simp [createdEvent]) (by
        rw [hpre]
        exact replay_two _ _ _ _ _ _ (T_um_a s.rails s.rails_sub _ _ _ _ _)
          (T_um_b s.rails s.rails_sub σ1 _ c u0 _ _ _ a b d (by rw [hK1 _ (by simp [K10, K8])]; exact h1)
            (by rw [hK1 _ (by simp [K10, K8])]; exact h2) (by rw [hK1 _ (by simp [K10, K8])]; exact h3)) (by simp) (by simp))
    simp [ceObs] at this
    exact this
  · rw [get_withEvent_plain _ _ _ (by plain_tac), get_withEvent_plain _ _ _ (by plain_tac)]

theorem allDone_one (cfgs : Cfgs) (f : FS) (hs : f.status = .completed) (hf : (cfgs.find f.flowId).isSome = true) : AllDone cfgs [f] := by
  intro x hx; simp at hx; subst hx; exact ⟨hs, hf⟩

/-- **dialog and output rails both deselected**: the (possibly altered) user message is uttered and the turn ends -/
theorem R_echo (s : Setup) (σ : Ctx) (c : Nat) :
    Runs s (base ++ s.rails) (rdrState σ c .echo) [Obs.utter (strOf (σ.get "user_message"))] := by
  let st := rdrState σ c .echo
  have hr : replay true (base ++ s.rails) (roundPre st ++ [.startAction, .actionFinished "create_event" true,
      .other "StartUtteranceBotAction" [("script", σ.get "user_message")]]) st
      = .ok { ctx := (σ.withEvent (.actionFinished "create_event" true)).withEvent (.other "StartUtteranceBotAction" [("script", σ.get "user_message")]),
              flows := [], next := none, upd := [], ctr := c + 1 } :=
    replay_two _ _ _ _ _ _ (T_rdr_fin s.rails s.rails_sub _ _ _ _ _ 3 (Or.inl rfl))
      (T_suba_done s.rails s.rails_sub _ _ _ _ _ _ (allDone_one _ _ rfl (by simp [find_rdr]))) (by simp) (by simp)
  have := RunsTo.ce (s := s) (cfgs := base ++ s.rails) st _ _ c 10000 "StartUtteranceBotAction" [("script", σ.get "user_message")] rfl
    (by simp [createdEvent, st, rdrState, roundCtx]) hr
  have h2 := this.then (Runs.done _ (by rfl))
  simpa [ceObs] using h2

/-- the state in which `process bot message` has started -/
def pbmState (σ : Ctx) (u0 : Nat) (run : Bool) (u : Ctx) (c : Nat) : State :=
  oneFlow σ "process bot message" u0 (if run then 7 else 12) (if run then createStartOutRails else createSubaBot) 1000000 u c

/-- **dialog deselected, output selected**: `create event BotMessage(text=$bot_message)`; `process bot message` starts on it -/
theorem R_botmsg (s : Setup) (σ : Ctx) (c : Nat) (c1 c2 c3 : Bool)
    (hsk : (σ.get "skip_output_rails").truthy = false)
    (h1 : (σ.get "config.rails.output.flows").truthy = c1) (h2 : (σ.get "generation_options" == V.none) = c2)
    (h3 : (σ.get "generation_options.rails.output").truthy = c3) :
    ∃ σ', RunsTo s (base ++ s.rails) (rdrState σ c .botMsg) []
        (pbmState (σ'.set "bot_message" (σ.get "bot_message")) (c + 1) (c1 && (c2 || c3)) [("bot_message", σ.get "bot_message")] (c + 2)) ∧
      Keep K8 σ σ' := by
  let st := rdrState σ c .botMsg
  let σ1 := σ.withEvent (.actionFinished "create_event" true)
  have hr : replay true (base ++ s.rails) (roundPre st ++ [.startAction, .actionFinished "create_event" true,
      .other "BotMessage" [("text", σ.get "bot_message")]]) st
      = .ok (pbmState ((σ1.withEvent (.other "BotMessage" [("text", σ.get "bot_message")])).set "bot_message" (σ.get "bot_message"))
          (c + 1) (c1 && (c2 || c3)) [("bot_message", σ.get "bot_message")] (c + 2)) := by
    exact replay_two (base ++ s.rails) _ _ _ _ _ (T_rdr_fin s.rails s.rails_sub σ [] (c + 1) c _ 5 (Or.inr rfl))
      (T_bm s.rails s.rails_sub σ1 [] (c + 1) none (σ.get "bot_message") _ (allDone_one _ _ rfl (by simp [find_rdr])) c1 c2 c3
        (by rw [get_withEvent_plain _ _ _ (by plain_tac)]; exact hsk) (by rw [get_withEvent_plain _ _ _ (by plain_tac)]; exact h1)
        (by rw [get_withEvent_plain _ _ _ (by plain_tac)]; exact h2) (by rw [get_withEvent_plain _ _ _ (by plain_tac)]; exact h3)) (by simp) (by simp)
  refine ⟨σ1.withEvent (.other "BotMessage" [("text", σ.get "bot_message")]), ?_, ((Keep.refl K8 σ).withEvent _ (by keys_tac8)).withEvent _ (by keys_tac8)⟩
  have := RunsTo.ce (s := s) (cfgs := base ++ s.rails) st _ _ c 10000 "BotMessage" [("text", σ.get "bot_message")] rfl
    (by simp [createdEvent, st, rdrState, roundCtx]) hr
  simp [ceObs] at this
  exact this



/-- **dialog rails selected** (no user intents defined: the `general` task): `generate_user_intent` makes one LLM call and
    yields the bot message; `process bot message` starts on it -/
theorem R_gui (s : Setup) (σ : Ctx) (c : Nat) (c1 c2 c3 : Bool)
    (hsk : (σ.get "skip_output_rails").truthy = false)
    (h1 : (σ.get "config.rails.output.flows").truthy = c1) (h2 : (σ.get "generation_options" == V.none) = c2)
    (h3 : (σ.get "generation_options.rails.output").truthy = c3) :
    ∃ σ', RunsTo s (base ++ s.rails) (rdrState σ c .dialog) [Obs.llmCall]
        (pbmState (σ'.set "bot_message" (.str s.llmText)) (c + 2) (c1 && (c2 || c3)) [("bot_message", .str s.llmText)] (c + 3)) ∧
      Keep K8 σ σ' := by
  let st := rdrState σ c .dialog
  let σ1 := σ.withEvent (.actionFinished "generate_user_intent" true)
  have hev : roundEvents s st = some ([.startAction, .actionFinished "generate_user_intent" true, .other "BotMessage" [("text", .str s.llmText)]], [Obs.llmCall]) := by
    simp [roundEvents, stepDecision, st, rdrState, guiAction, stepToEvent, roundPre, roundCtx, actionEvents]
  have hfl : AllDone (base ++ s.rails) [{ uid := c, flowId := "run dialog rails", head := -8, status := .completed },
      { uid := c + 1, flowId := "generate user intent", head := -1, status := .completed }] := by
    intro x hx
    simp only [List.mem_cons, List.mem_nil_iff, or_false] at hx
    rcases hx with rfl | rfl
    · exact ⟨rfl, by simp [find_rdr]⟩
    · exact ⟨rfl, by simp [find_gui]⟩
  have hr : replay true (base ++ s.rails) [.startAction, .actionFinished "generate_user_intent" true, .other "BotMessage" [("text", .str s.llmText)]] st
      = .ok (pbmState ((σ1.withEvent (.other "BotMessage" [("text", .str s.llmText)])).set "bot_message" (.str s.llmText))
          (c + 2) (c1 && (c2 || c3)) [("bot_message", .str s.llmText)] (c + 3)) := by
    exact replay_two (base ++ s.rails) _ _ _ _ _ (T_gui_fin s.rails s.rails_sub σ [] (c + 2) c _)
      (T_bm s.rails s.rails_sub σ1 [] (c + 2) none (.str s.llmText) _ hfl c1 c2 c3
        (by rw [get_withEvent_plain _ _ _ (by plain_tac)]; exact hsk) (by rw [get_withEvent_plain _ _ _ (by plain_tac)]; exact h1)
        (by rw [get_withEvent_plain _ _ _ (by plain_tac)]; exact h2) (by rw [get_withEvent_plain _ _ _ (by plain_tac)]; exact h3)) (by simp) (by simp)
  refine ⟨σ1.withEvent (.other "BotMessage" [("text", .str s.llmText)]), ?_, ((Keep.refl K8 σ).withEvent _ (by keys_tac8)).withEvent _ (by keys_tac8)⟩
  exact RunsTo.one st _ _ _ hev (decisions_ne_of_act st _ _ _ _ _ rfl rfl (by simp)) (noHide_of_B _ rfl) (by simp [isStop]) (by simp) hr

/-- **the final utterance**: `create event StartUtteranceBotAction(script=$bot_message)`; `process bot message` completes, nothing is left to do -/
theorem R_final (s : Setup) (σ u : Ctx) (u0 c : Nat) :
    Runs s (base ++ s.rails) (oneFlow σ "process bot message" u0 12 createSubaBot 1000000 u c)
      [Obs.utter (strOf ((roundCtx (oneFlow σ "process bot message" u0 12 createSubaBot 1000000 u c)).get "bot_message"))] := by
  let st := oneFlow σ "process bot message" u0 12 createSubaBot 1000000 u c
  obtain ⟨nx, u', hpre⟩ := replay_pre (base ++ s.rails) st
    [.startAction, .actionFinished "create_event" true, .other "StartUtteranceBotAction" [("script", (roundCtx st).get "bot_message")]]
  have := RunsTo.ce (s := s) (cfgs := base ++ s.rails) st
    { ctx := ((roundCtx st).withEvent (.actionFinished "create_event" true)).withEvent (.other "StartUtteranceBotAction" [("script", (roundCtx st).get "bot_message")]),
      flows := [], next := none, upd := [], ctr := c } _ u0 1000000 "StartUtteranceBotAction" [("script", (roundCtx st).get "bot_message")] rfl
    (by simp [createdEvent]) (by
      rw [hpre]
      exact replay_two _ _ _ _ _ _ (T_pbm12 s.rails s.rails_sub _ _ _ _ _)
        (T_suba_done s.rails s.rails_sub _ _ _ _ _ _ (allDone_one _ _ rfl (by simp [find_pbm]))) (by simp) (by simp))
  have h2 := this.then (Runs.done _ (by rfl))
  simpa [ceObs] using h2

/-- **entry into the output loop**: `create event StartOutputRails`, then `run output rails` is called and stands at the loop head -/
theorem R_startOutRails (s : Setup) (σ u : Ctx) (u0 c : Nat) (h0c : u0 < c) (n0 : String) (ns : List String) (um al : V)
    (hcfg : σ.get "config.rails.output.flows" = .strs (n0 :: ns)) (hu : ∀ k ∈ "config.rails.output.flows" :: "allowed" :: K8, ∀ kv ∈ u, kv.1 ≠ k)
    (hum : (roundCtx (oneFlow σ "process bot message" u0 7 createStartOutRails 1000000 u c)).get "bot_message" = um) (hal : σ.get "allowed" = al) :
    ∃ σ' u', u'.isEmpty = false ∧
      RunsTo s (base ++ s.rails) (oneFlow σ "process bot message" u0 7 createStartOutRails 1000000 u c) [] (headStateO σ' u' (c + 1) u0 c) ∧
      FactsO (σ'.update u') 0 (n0 :: ns) um al ∧ Keep K8 σ (σ'.update u') := by
  let st := oneFlow σ "process bot message" u0 7 createStartOutRails 1000000 u c
  have hK : Keep ("config.rails.output.flows" :: "allowed" :: K8) σ (roundCtx st) := roundCtx_keep _ st hu
  let σ2 := (roundCtx st).withEvent (.actionFinished "create_event" true)
  have hcfg2 : σ2.get "config.rails.output.flows" = .strs (n0 :: ns) := by
    show ((roundCtx st).withEvent _).get _ = _
    rw [get_withEvent_plain _ _ _ (by plain_tac), hK _ (List.mem_cons_self ..)]; exact hcfg
  obtain ⟨nx, u', hpre⟩ := replay_pre (base ++ s.rails) st [.startAction, .actionFinished "create_event" true, .other "StartOutputRails" []]
  refine ⟨(((σ2.withEvent (.other "StartOutputRails" [])).set "i" (.int 0)).set "output_flows" (.strs (n0 :: ns))).set "triggered_output_rail" (.str n0),
    [("triggered_output_rail", .str n0), ("output_flows", .strs (n0 :: ns)), ("i", .int 0)], rfl, ?_, ?_, ?_⟩
  · have := RunsTo.ce (s := s) (cfgs := base ++ s.rails) st _ _ u0 1000000 "StartOutputRails" [] rfl (by simp [createdEvent]) (by
      rw [hpre]
      exact replay_two _ _ _ _ _ _ (T_pbm7 s.rails s.rails_sub _ _ _ _ _) (T_startOutRails s.rails s.rails_sub σ2 _ c u0 h0c _ n0 ns hcfg2) (by simp) (by simp))
    simpa [ceObs] using this
  · refine ⟨?_, ?_, ?_, ?_⟩ <;> simp only [Ctx.update, List.foldl] <;> ctx_norm
    · rfl
    · exact hum
    · rw [hK _ (by simp)]; exact hal
  · apply forall_K8
    simp only [Ctx.update, List.foldl]
    refine ⟨?_, ?_, ?_, ?_, ?_, ?_, ?_, ?_⟩ <;> ctx_norm <;> exact hK _ (by simp [K8, K8])



def KB : List String := "bot_message" :: K8

theorem forall_KB (p : String → Prop) (h0 : p "bot_message") (h : ∀ k ∈ K8, p k) : ∀ k ∈ KB, p k := by
  intro k hk
  rcases List.mem_cons.mp hk with rfl | hk
  · exact h0
  · exact h k hk

macro "keysB_tac" : tactic => `(tactic| (apply forall_KB; plain_tac; keys_tac8))

/-- **exit from the output loop**: `create event OutputRailsFinished`; `process bot message` then asks for the final `create event StartUtteranceBotAction` -/
theorem R_exitO (s : Setup) (σ : Ctx) (c u0 u1 : Nat) :
    ∃ σ', RunsTo s (base ++ s.rails) (exitStateO σ c u0 u1) [] (oneFlow σ' "process bot message" u0 12 createSubaBot 1000000 [] c) ∧ Keep KB σ σ' := by
  let st := exitStateO σ c u0 u1
  have hK : Keep KB σ (roundCtx st) := roundCtx_keep _ st (by
    intro k hk kv hkv
    simp only [st, exitStateO, List.mem_singleton] at hkv
    subst hkv
    intro e; subst e
    revert hk; decide)
  obtain ⟨nx, u', hpre⟩ := replay_pre (base ++ s.rails) st [.startAction, .actionFinished "create_event" true, .other "OutputRailsFinished" []]
  refine ⟨((roundCtx st).withEvent (.actionFinished "create_event" true)).withEvent (.other "OutputRailsFinished" []), ?_, ?_⟩
  · have := RunsTo.ce (s := s) (cfgs := base ++ s.rails) st _ _ u0 1000000 "OutputRailsFinished" [] rfl (by simp [createdEvent]) (by
      rw [hpre]
      exact replay_two _ _ _ _ _ _ (T_exitO_a s.rails s.rails_sub _ _ _ _ _ _ _) (T_exitO_b s.rails s.rails_sub _ _ c u0 _) (by simp) (by simp))
    simp [ceObs] at this
    exact this
  · exact (hK.withEvent _ (by keysB_tac)).withEvent _ (by keysB_tac)



end NemoVerif.RailsInterp
